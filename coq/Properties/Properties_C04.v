(* C04 - cow_guarded snapshots are immutable; commits are atomic and never lost.
   Statements only: every theorem is closed by [exact] of a lemma of Proofs/CowProofs.v.
   R nw ns x pl progs s  =  s is reachable from the initial state with nw write-handle slots and ns snapshot
   slots per thread, initial value x, throw plan pl, by ANY schedule, for ANY client programs [progs]
   (any number of threads).  Model: Model/CowModel.v (one step = one visible operation). *)
From Coq Require Import List Arith ZArith Bool.
Import ListNotations.
From GV Require Import Sched Events CowModel CowBase CowHeap CowProofs.
Local Open Scope Z_scope.

(* once a version is published (its write handle's release has begun) its content never changes again, over any continuation of the run *)
Theorem cow_snapshot_immutable :
  (forall nw ns x pl progs s sc v,
  R nw ns x pl progs s -> published (heap (gl s) v) = true ->
  content (heap (gl (run glob loc tstep s sc)) v) = content (heap (gl s) v) /\
  published (heap (gl (run glob loc tstep s sc)) v) = true).
Proof. exact snapshot_immutable. Qed.

(* (1) a held snapshot: not destroyed, published, never half-written, counted, shows the content it had when it was taken, and is at least as recent as every release that had returned when lock_shared was invoked; (2) every read through a snapshot returns the value it had at acquisition, without a fault event *)
Theorem cow_snapshot_valid :
  (forall nw ns x pl progs s t l sn,
  R nw ns x pl progs s -> nth_error (thr s) t = Some l -> In (Some sn) (ssl l) ->
  let y := heap (gl s) (sv sn) in
  freed y = false /\ published y = true /\ vdirty y = false /\ (1 <= refs y)%nat /\ content y = sval sn /\
  (sneed sn <= vseq y)%nat) /\
  (forall nw ns x pl progs s t c l g' l' es,
  R nw ns x pl progs s -> nth_error (thr s) t = Some l -> at_ l = SR_re ->
  tstep t c (gl s) l = Some (g', l', es) ->
  exists sn, nth_error (ssl l) (sl l) = Some (Some sn) /\
             es = [E K_RD_END (O_V (sv sn)) (sval sn); ret_ev (sval sn)]).
Proof. exact (conj snapshot_valid snapshot_read_returns). Qed.

(* (1) at most one write handle is live, and its thread owns the outer mutex; (2) from the acquisition of the outer mutex in lock() to the end of the release / cancel only one thread is inside (owns = inside lock() past the mutex, holding a handle, or inside release / cancel) *)
Theorem cow_writers_serial :
  (forall nw ns x pl progs s u lu a w lw b,
  R nw ns x pl progs s -> nth_error (thr s) u = Some lu -> In (Some a) (wsl lu) ->
  nth_error (thr s) w = Some lw -> In (Some b) (wsl lw) ->
  u = w /\ a = b /\ omtx (gl s) = Some u) /\
  (forall nw ns x pl progs s u lu w lw,
  R nw ns x pl progs s -> nth_error (thr s) u = Some lu -> nth_error (thr s) w = Some lw ->
  owns lu = true -> owns lw = true -> u = w).
Proof. exact (conj writers_serial writer_section_exclusive). Qed.

(* (1) a live write handle was made from the version that is still the committed one; its private copy is unpublished, alive, unshared, and differs from the committed content exactly by the handle's edits; (2) lock() returns a fresh copy of the committed content; (3) while a write handle is live no step of any thread changes the committed version *)
Theorem cow_base_latest :
  (forall nw ns x pl progs s u l v,
  R nw ns x pl progs s -> nth_error (thr s) u = Some l -> In (Some v) (wsl l) ->
  let g := gl s in
  cbase l = committed g /\ published (heap g v) = false /\ freed (heap g v) = false /\ refs (heap g v) = O /\
  content (heap g v) = apply_edits (content (heap g (committed g))) (ced l)) /\
  (forall nw ns x pl progs s t c l g' l' es,
  R nw ns x pl progs s -> nth_error (thr s) t = Some l -> at_ l = L_dec ->
  tstep t c (gl s) l = Some (g', l', es) ->
  nth_error (wsl l') (sl l) = Some (Some (cv l)) /\ ced l' = [] /\ cbase l' = committed g' /\
  content (heap g' (cv l)) = content (heap g' (committed g')) /\ committed g' = committed (gl s) /\ In (ret_ev 0) es) /\
  (forall nw ns x pl progs s u l v tc,
  R nw ns x pl progs s -> nth_error (thr s) u = Some l -> In (Some v) (wsl l) ->
  committed (gl (step glob loc tstep s tc)) = committed (gl s)).
Proof. exact (conj base_latest (conj lock_returns_copy base_stable)). Qed.

(* (1) in every reachable state the committed content is the fold, from the initial value, of the edits of the released handles in commit order; (2) the committed version and [applied] change only at the readingLeft flip of a release, by the owner of both mutexes, which appends exactly that handle's edits to a copy made from the committed version - in particular cancel() never changes them; (3) with no release inside modify both copies of the inner lr_guarded hold the committed version *)
Theorem cow_no_lost_update :
  (forall nw ns x pl progs s,
  R nw ns x pl progs s -> content (heap (gl s) (committed (gl s))) = apply_edits x (applied (gl s))) /\
  (forall nw ns x pl progs s t c l g' l' es,
  R nw ns x pl progs s -> nth_error (thr s) t = Some l -> tstep t c (gl s) l = Some (g', l', es) ->
  (committed g' = committed (gl s) /\ applied g' = applied (gl s)) \/
  (at_ l = W_str /\ omtx (gl s) = Some t /\ imtx (gl s) = Some t /\ committed g' = cv l /\
   applied g' = applied (gl s) ++ ced l /\
   content (heap (gl s) (cv l)) = apply_edits (content (heap (gl s) (committed (gl s)))) (ced l))) /\
  (forall nw ns x pl progs s,
  R nw ns x pl progs s -> imtx (gl s) = None ->
  cvid (cleft (gl s)) = committed (gl s) /\ cvid (cright (gl s)) = committed (gl s)).
Proof. exact (conj no_lost_update (conj commit_in_mutex_order copies_committed_when_idle)). Qed.

(* (1) a lock_shared records at its invocation the number of releases that have returned (sneed); (2,3) the release that returns as number nret+1 committed the version with commit number nret+1; (4) a held snapshot has commit number >= sneed: it is that version or a later one; (5) at its load of readingLeft a lock_shared is directed to the copy that holds the committed version; (6) the snapshot it takes (at the closing edge of the read window on that shared_ptr object) is the version that copy holds, published and at least as recent as sneed *)
Theorem cow_publish_atomic :
  (forall t c g l g' l' es k s0 r,
  at_ l = Idle -> prog l = LockShared k s0 :: r -> nth_error (ssl l) s0 = Some None ->
  tstep t c g l = Some (g', l', es) -> at_ l' = S_ldc /\ need l' = nret g /\ g' = g) /\
  (forall nw ns x pl progs s t l,
  R nw ns x pl progs s -> nth_error (thr s) t = Some l -> at_ l = W_ounlock ->
  committed (gl s) = cv l /\ vseq (heap (gl s) (cv l)) = ncommit (gl s) /\ ncommit (gl s) = S (nret (gl s))) /\
  (forall t c g l g' l' es,
  at_ l = W_ounlock -> tstep t c g l = Some (g', l', es) ->
  nret g' = S (nret g) /\ omtx g' = None /\ at_ l' = Idle /\ es = [E K_UNLOCK O_OM 0; ret_ev 0] /\ heap g' = heap g /\
  committed g' = committed g) /\
  (forall nw ns x pl progs s t l sn,
  R nw ns x pl progs s -> nth_error (thr s) t = Some l -> In (Some sn) (ssl l) ->
  (sneed sn <= vseq (heap (gl s) (sv sn)))%nat /\ (vseq (heap (gl s) (sv sn)) <= ncommit (gl s))%nat) /\
  (forall nw ns x pl progs s t c l g' l' es,
  R nw ns x pl progs s -> nth_error (thr s) t = Some l -> at_ l = S_ldr ->
  tstep t c (gl s) l = Some (g', l', es) ->
  at_ l' = S_rb /\ rside l' = rl (gl s) /\ cvid (cp (gl s) (rl (gl s))) = committed (gl s) /\
  vseq (heap (gl s) (committed (gl s))) = ncommit (gl s) /\ (need l <= nret (gl s))%nat) /\
  (forall nw ns x pl progs s t c l g' l' es,
  R nw ns x pl progs s -> nth_error (thr s) t = Some l -> at_ l = S_re ->
  tstep t c (gl s) l = Some (g', l', es) ->
  let v := cvid (cp (gl s) (rside l)) in
  nth_error (ssl l') (sl l) = Some (Some (Snap v (need l) (content (heap (gl s) v)))) /\
  (need l <= vseq (heap (gl s) v))%nat /\ (vseq (heap (gl s) v) <= ncommit (gl s))%nat /\
  published (heap (gl s) v) = true /\ es = [E K_RD_END (O_SL (rside l)) 0]).
Proof. exact (conj lock_shared_records (conj release_returns (conj release_return_step (conj publish_atomic (conj lock_shared_directed lock_shared_takes_committed))))). Qed.

(* the step of cancel(): the outer mutex is released, the committed version, the applied edits and both copies are untouched, the private version (alive, unpublished, unshared) is destroyed - once: [races] counts double destructions - and no other version is touched *)
Theorem cow_cancel :
  (forall nw ns x pl progs s t c l g' l' es,
  R nw ns x pl progs s -> nth_error (thr s) t = Some l -> at_ l = C_unlock ->
  tstep t c (gl s) l = Some (g', l', es) ->
  let g := gl s in
  omtx g = Some t /\ omtx g' = None /\ committed g' = committed g /\ applied g' = applied g /\
  cleft g' = cleft g /\ cright g' = cright g /\
  freed (heap g (cv l)) = false /\ published (heap g (cv l)) = false /\ refs (heap g (cv l)) = O /\
  freed (heap g' (cv l)) = true /\ (forall v, v <> cv l -> heap g' v = heap g v) /\
  destroyed g' = destroyed g + 1 /\ races g' = O /\ es = [E K_UNLOCK O_OM 0; ret_ev 0] /\ at_ l' = Idle).
Proof. exact cancel_step. Qed.

(* (1) no fault is ever logged (no payload window overlaps a write window, no destroyed version is used), no conflicting accesses to the two shared_ptr copies, no double destruction; (2) a version that exists and is not destroyed is referenced, or is the private version of a write handle / of a lock(), release, cancel in progress; (3) the reference count is exactly: copies of the inner lr_guarded + held snapshots; (4) so at rest exactly the committed version is alive and both mutexes are free *)
Theorem cow_versions_ledger :
  (forall nw ns x pl progs s, R nw ns x pl progs s -> faults (gl s) = O /\ races (gl s) = O) /\
  (forall nw ns x pl progs s v,
  R nw ns x pl progs s -> (v < next (gl s))%nat -> freed (heap (gl s) v) = false ->
  (1 <= refs (heap (gl s) v))%nat \/ exists a l, nth_error (thr s) a = Some l /\ pown l v) /\
  (forall nw ns x pl progs s v,
  R nw ns x pl progs s -> refs (heap (gl s) v) = (cpc (gl s) v + list_sum (map (snc v) (thr s)))%nat) /\
  (forall nw ns x pl progs s,
  R nw ns x pl progs s -> (forall u l, nth_error (thr s) u = Some l -> at_rest l) ->
  omtx (gl s) = None /\ imtx (gl s) = None /\ created (gl s) = Z.of_nat (next (gl s)) /\
  forall v, (v < next (gl s))%nat -> (freed (heap (gl s) v) = false <-> v = committed (gl s))).
Proof. exact (conj no_fault (conj version_accounted (conj refs_exact versions_at_rest))). Qed.

(* the inner protocol: (1) a reader window (from the load of readingLeft to the counter decrement) and a writer window (from the load / last drain load to the store / unlock) are never open on the same copy of the inner lr_guarded; (2) in terms of observable events (harness/cow_extra.hpp): while an assignment's write window is open on one of the two shared_ptr objects, no read window (the copy made by lock_shared) is open on it - the wrapper's own overlap reports are K_FAULT events, excluded by cow_versions_ledger (1) *)
Theorem cow_inner_exclusion :
  (forall nw ns x pl progs s r lr w lw y,
  R nw ns x pl progs s -> nth_error (thr s) r = Some lr -> nth_error (thr s) w = Some lw ->
  wr_window lw y -> ~ rd_window lr y) /\
  (forall nw ns x pl progs s y,
  R nw ns x pl progs s -> xwr (cp (gl s) y) = true -> xrd (cp (gl s) y) = 0 /\ nrd (cp (gl s) y) = 0).
Proof. exact (conj inner_exclusion slot_windows_disjoint). Qed.

(* ---------- non-vacuity: the hypotheses are satisfiable by concrete reachable states ---------- *)
Definition ex_progs : list (list op) :=
  [[Lock 0; Write 0 10; Release 0; Lock 0; Incr 0; Cancel 0]; [LockShared 10 0; ReadSnap 0; DropSnap 0]].
Definition ex_init := init 1 1 3 [] ex_progs.
Definition rep (t n : nat) : list (nat * nat) := repeat (t, O) n.
Lemma ex_R sc : R 1 1 3 [] ex_progs (run glob loc tstep ex_init sc).
Proof. exists sc. reflexivity. Qed.

(* thread 1 takes a snapshot, thread 0 commits 10: the snapshot still holds the old version (3), which is
   not the committed one any more, and is alive *)
Definition ex_s1 := run glob loc tstep ex_init (rep 1 7 ++ rep 0 26).
Example ex_snapshot_across_commit :
  exists l sn, nth_error (thr ex_s1) 1 = Some l /\ In (Some sn) (ssl l) /\ sv sn <> committed (gl ex_s1) /\
               sval sn = 3 /\ content (heap (gl ex_s1) (committed (gl ex_s1))) = 10 /\
               published (heap (gl ex_s1) (sv sn)) = true.
Proof. vm_compute. do 2 eexists. split; [reflexivity|]. split; [left; reflexivity|]. repeat split; discriminate || reflexivity. Qed.
(* after the snapshot is dropped and the second handle cancelled everything is at rest: version 0 destroyed *)
Definition ex_s2 := run glob loc tstep ex_s1 (rep 1 4 ++ rep 0 16).
Example ex_at_rest : (forall u l, nth_error (thr ex_s2) u = Some l -> at_rest l) /\
                     freed (heap (gl ex_s2) 0) = true /\ committed (gl ex_s2) = 1%nat /\ next (gl ex_s2) = 3%nat.
Proof.
  split; [|vm_compute; repeat split].
  intros u l H. destruct u as [|[|u]]; vm_compute in H; inversion H; subst; clear H.
  - repeat split. intros sn [E|[]]; discriminate.
  - repeat split. intros sn [E|[]]; discriminate.
  - destruct u; discriminate.
Qed.
(* a live write handle with one edit *)
Definition ex_s3 := run glob loc tstep ex_init (rep 0 12).
Example ex_live_handle : exists l v, nth_error (thr ex_s3) 0 = Some l /\ In (Some v) (wsl l) /\ ced l = [ESet 10].
Proof. vm_compute. do 2 eexists. split; [reflexivity|]. split; [left; reflexivity|reflexivity]. Qed.
(* pcs named in the hypotheses are reachable: SR_re, L_dec, W_ounlock, W_str, S_ldr, C_unlock *)
Definition pc_at (s : sys glob loc) (t : nat) : option pc := option_map at_ (nth_error (thr s) t).
Example ex_pcs :
  pc_at (run glob loc tstep ex_init (rep 1 9)) 1 = Some SR_re /\
  pc_at (run glob loc tstep ex_init (rep 0 8)) 0 = Some L_dec /\
  pc_at (run glob loc tstep ex_init (rep 0 17)) 0 = Some W_str /\
  pc_at (run glob loc tstep ex_init (rep 0 25)) 0 = Some W_ounlock /\
  pc_at (run glob loc tstep ex_init (rep 1 3)) 1 = Some S_ldr /\
  pc_at (run glob loc tstep ex_init (rep 0 41)) 0 = Some C_unlock /\
  pc_at (run glob loc tstep ex_init (rep 1 5)) 1 = Some S_re.
Proof. vm_compute. repeat split. Qed.
(* a writer window and a reader window exist (on different copies) *)
Example ex_windows :
  let s := run glob loc tstep ex_init (rep 0 17 ++ rep 1 4) in
  exists lw lr, nth_error (thr s) 0 = Some lw /\ nth_error (thr s) 1 = Some lr /\
                wr_window lw false /\ rd_window lr true.
Proof.
  vm_compute. do 2 eexists. split; [reflexivity|]. split; [reflexivity|]. split.
  - left. split; [right; right; reflexivity|reflexivity].
  - split; reflexivity.
Qed.
(* a write handle released during stack unwinding (ReleaseUnw) commits like any other release *)
Example ex_release_unwinding :
  let s0 := init 1 1 3 [] [[Lock 0; Write 0 10; ReleaseUnw 0]] in
  pc_at (run glob loc tstep s0 (rep 0 17)) 0 = Some W_str /\
  let s := run glob loc tstep s0 (rep 0 26) in
  content (heap (gl s) (committed (gl s))) = 10 /\ applied (gl s) = [ESet 10] /\ nret (gl s) = 1%nat /\ omtx (gl s) = None.
Proof. vm_compute. repeat split. Qed.
(* an observable write window on a shared_ptr object of the inner lr_guarded is open (hypothesis of cow_inner_exclusion (2)) *)
Example ex_slot_write_window : xwr (cp (gl (run glob loc tstep ex_init (rep 0 16))) false) = true.
Proof. vm_compute. reflexivity. Qed.
