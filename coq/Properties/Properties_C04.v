From GV Require Import Sched Events CowModel.
