(* C13 - rcu_list destroys and frees everything it allocated exactly once, for any T.
   Statements only; every proof is `exact <lemma>`.  [unf] = true selects the pre-repair reclaim
   steps of DESIGN section 6 (destroy / deallocate of the null zombie_node of registration records). *)
From Coq Require Import List Arith ZArith Lia Bool.
Import ListNotations.
From GV Require Import Sched Events RcuModel RcuBase RcuProofs.
Local Open Scope Z_scope.

(* the finding, inside the development: with the pre-repair reclaim step there are a program and a
   schedule (one thread: two handle sessions in a row) that reach a fault *)
Theorem rcu_unfixed_refuted : exists progs sched, fault (gl (run glob loc tstep (init true progs) sched)) = true.
Proof. exists unfixed_progs, unfixed_sched. exact unfixed_refuted. Qed.

(* the same run on the repaired model is clean: no fault, the second release frees exactly the first
   session's record, ~rcu_list frees the other one; 2 cells allocated, 0 left *)
Theorem rcu_fixed_same_run_ok :
  fault (gl (run glob loc tstep (init false unfixed_progs) unfixed_sched)) = false /\
  final (run glob loc tstep (init false unfixed_progs) unfixed_sched) = [[-2; -3]; [-2; 52; 1]; [-2; 53; 1]; [-2; -1; 2; 0; 0]].
Proof. exact fixed_same_run_ok. Qed.
