(* C13 - rcu_list destroys and frees everything it allocated exactly once, for any T.
   Statements only; every proof is `exact <lemma>`.  [init true] selects the pre-repair reclaim steps of
   DESIGN section 6 (destroy / deallocate of the null zombie_node of registration records), [init false]
   the repaired source.  The element type is abstract: the ledger of a cell does not depend on it. *)
From Coq Require Import List Arith ZArith Lia Bool.
Import ListNotations.
From GV Require Import Sched Events RcuModel RcuBase RcuListProofs RcuLogProofs RcuSafetyProofs RcuLedgerProofs RcuFinalProofs RcuProofs.

(* No ledger fault, for every program and every schedule: no construct of a cell that is not freshly
   allocated, no destroy of a cell that is not constructed (in particular nothing that was never
   constructed is destroyed), no deallocate of a cell that is not destroyed, no destroy / deallocate of a
   null pointer.  (The same flag also records use-after-free accesses, see C05.) *)
Theorem rcu_ledger_ok : forall progs s, R false progs s -> fault (gl s) = false.
Proof. exact no_fault. Qed.

(* Exactly once, as far as it has happened: in every reachable state - for every program, including
   pushes whose element constructor throws (a negative payload: RcuModel.throws) - each cell ever
   allocated has been constructed at most once, destroyed at most once and only after construction,
   deallocated at most once and only when construction and destruction balance.  A deallocated cell was
   constructed and destroyed exactly once - unless it is the storage of a push whose constructor threw
   (raw: never constructed, never destroyed, deallocated by the catch block). *)
Theorem rcu_at_most_once : forall progs s k c, R false progs s -> getc (gl s) k = Some c ->
  fault (gl s) = false /\ (nct c <= 1 /\ ndt c <= nct c /\ nfr c <= 1 /\ (nfr c = 1 -> ndt c = nct c) /\
  (cs c = Freed -> nfr c = 1 /\ if israwc c then nct c = 0 /\ ndt c = 0 else nct c = 1 /\ ndt c = 1))%nat.
Proof. exact ledger_exact. Qed.

(* Exactly once, in the end: when every thread has finished its program and every handle has been
   released ([quiet]), ~rcu_list ([destroy_list], the function whose allocator calls the final lines of
   the trace print) runs without a fault and leaves every cell that was ever allocated deallocated
   exactly once; list nodes, erased nodes still on the log, registration and erase records were
   constructed exactly once and destroyed exactly once; the storage of a push whose constructor threw
   was never constructed and never destroyed. *)
Theorem rcu_exactly_once : forall progs s, R false progs s -> quiet s ->
  let g' := fst (destroy_list (gl s)) in
  fault g' = false /\
  forall k c, getc g' k = Some c ->
    (cs c = Freed /\ nfr c = 1 /\ if israwc c then nct c = 0 /\ ndt c = 0 else nct c = 1 /\ ndt c = 1)%nat.
Proof. exact exactly_once. Qed.

(* A release destroys a list node only if the node has a log record made by erase: the node is marked
   deleted and out of the list.  Hence with nothing erased a release frees only handle records. *)
Theorem rcu_handles_only : forall unf progs s t l n d, R unf progs s ->
  nth_error (thr s) t = Some l -> at_ l = U_dd n (Some d) ->
  isnode (gl s) d = true /\ dl (gl s) d = true /\ ~ In d (lst (gl s)) /\ isrec (gl s) n = true.
Proof. exact destroyed_node_was_erased. Qed.

(* the finding, inside the development: with the pre-repair reclaim step there are a program and a
   schedule (one thread: two handle sessions in a row) that reach a fault *)
Theorem rcu_unfixed_refuted : exists progs sched, fault (gl (run glob loc tstep (init true progs) sched)) = true.
Proof. exists unfixed_progs, unfixed_sched. exact unfixed_refuted. Qed.

(* the same run on the repaired model is clean: no fault, the second release frees exactly the first
   session's record, ~rcu_list frees the other one; 2 cells allocated, 0 left *)
Theorem rcu_fixed_same_run_ok :
  fault (gl (run glob loc tstep (init false unfixed_progs) unfixed_sched)) = false /\
  final (run glob loc tstep (init false unfixed_progs) unfixed_sched) = [[-2; -3]; [-2; 52; 1]; [-2; 53; 1]; [-2; -1; 2; 0; 0]]%Z.
Proof. exact fixed_same_run_ok. Qed.

(* non-vacuity of [quiet]: the corpus reproducer run to its end *)
Example ex_quiet : quiet (run glob loc tstep (init false unfixed_progs) unfixed_sched).
Proof. vm_compute. split; [reflexivity|]. intros l [<-|[]]. reflexivity. Qed.

(* non-vacuity for the exception path: the second push's constructor throws; at the end (quiet) the raw
   storage (cell 2) has been deallocated once without ever being constructed or destroyed, the list
   holds the first element only, nothing faulted *)
Definition throw_progs : list (list op) := [[LockWrite; PushBack 10; PushBack (-20); Release]].
Definition throw_state := run glob loc tstep (init false throw_progs) (repeat (0%nat, 0%nat) 60).
Example ex_throwing_push :
  quiet throw_state /\ fault (gl throw_state) = false /\ lst (gl throw_state) = [1%nat] /\
  option_map (fun c => (cs c, israwc c, nct c, ndt c, nfr c)) (getc (gl throw_state) 2) = Some (Freed, true, 0, 0, 1)%nat.
Proof. vm_compute. split; [split; [reflexivity|]; intros l [<-|[]]; reflexivity|auto]. Qed.

(* allocation failure (the plan is in the program: BeginFail / PushFail / EraseFail make the first allocation inside
   the call throw std::bad_alloc).  Here: the lazy registration fails once, a push fails, and an erase fails - with the
   repaired order of erase (record first, eb66dd7) the element stays in the list; at the end nothing faulted, and
   rcu_exactly_once applies (quiet). *)
Definition afail_progs : list (list op) :=
  [[LockWrite; PushFail 5; PushBack 10; PushFail 20; BeginFail 0; Begin 0; EraseFail 0; Deref 0; Release]].
Definition afail_state := run glob loc tstep (init false afail_progs) (repeat (0%nat, 0%nat) 80).
Example ex_alloc_failures :
  quiet afail_state /\ fault (gl afail_state) = false /\ misuse (gl afail_state) = false /\
  lst (gl afail_state) = [1%nat] /\ contents (gl afail_state) = [1%nat].
Proof. vm_compute. split; [split; [reflexivity|]; intros l [<-|[]]; reflexivity|auto]. Qed.
