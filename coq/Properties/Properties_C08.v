(* C08 - a handle is non-null exactly when it holds the lock, and releases it exactly once.
   Statements only; every proof is `exact <lemma>` into Proofs/WrapperProofs.v.
   All theorems quantify over the configuration cf (flavour, mutex kind, enable flag, initial value, throw
   plan), any number of threads with any programs over the whole API, and every schedule (including the
   time-out choice 2 of the timed forms).

   A handle object is {hsh : lock_handle / shared_lock_handle; hnn : data != nullptr; hown : the lock object
   owns; hid : (ghost) number of the acquisition it owns}.  Acquisition numbers are issued 1, 2, ... at every
   successful mutex acquisition (handles and the lock_guards of whole-object operations alike); `released g`
   is the ghost log of released acquisition numbers. *)
From Coq Require Import List Arith ZArith Lia Bool.
Import ListNotations.
From GV Require Import Sched Events WrapperModel WrapperProofs.
Local Open Scope Z_scope.

(* the step that runs the lock-object constructor of lock / try_lock / try_lock_for / try_lock_until and
   their shared forms (pc HAcq; reachable only when locking is enabled): the handle it builds is non-null
   exactly when its lock object owns, and it owns exactly when the mutex was obtainable, in the handle's
   mode, in the state the step was taken from.  (A blocking form is only enabled when obtainable.) *)
Theorem try_null_iff : forall cf t c g l g' l' es h am sh,
  at_ l = HAcq h am sh -> tstep cf t c g l = Some (g', l', es) ->
  exists new, hsh new = sh /\ hnn new = hown new /\ hown new = obtainable (sh && shcap cf) g /\
    ((at_ l' = HRelOld h new /\ slots l' = slots l) \/
     (at_ l' = Idle /\ slots l' = upd (slots l) h (Some new) /\ In (ret_ev (b2z (hnn new))) es)).
Proof. exact try_null_iff_t. Qed.

(* a try / timed acquisition never blocks beyond its time: it is enabled under the time-out choice in every
   state (and a plain try_lock under every choice) *)
Theorem timed_never_stuck : forall cf t g pr sl h am sh,
  am <> ABlock -> exists r, tstep cf t 2 g (Loc pr (HAcq h am sh) sl) = Some r.
Proof. exact timed_never_stuck_t. Qed.
Theorem try_always_enabled : forall cf t c g pr sl h sh,
  exists r, tstep cf t c g (Loc pr (HAcq h ATry sh) sl) = Some r.
Proof. exact try_always_enabled_t. Qed.

(* a handle whose lock object owns keeps the mutex held for its thread, in the handle's mode, in every
   reachable state ... *)
Theorem handle_keeps_lock : forall cf progs s t l h x,
  R cf progs s -> nth_error (thr s) t = Some l -> slot (slots l) h = Some x -> hown x = true ->
  if hsh x && shcap cf then (1 <= count_occ Nat.eq_dec (sharers (gl s)) t)%nat else owner (gl s) = Some t.
Proof. exact handle_keeps_lock_l. Qed.
(* ... and only its own thread's Destroy / Unlock / Move steps can change that: the steps of the other
   threads leave a thread's handles as they are *)
Theorem handle_untouched_by_others : forall (cf : config) (s : sys glob loc) t u c, u <> t ->
  nth_error (thr (step glob loc (tstep cf) s (u, c))) t = nth_error (thr s) t.
Proof. exact other_steps_keep_handles. Qed.

(* released exactly once: at every moment each issued acquisition number is either held by exactly one live
   owner (a handle in a slot, the new handle of an acquisition in progress, a guard) or occurs exactly once in
   the release log - never both, never twice; numbers not yet issued occur nowhere.  Moves transfer. *)
Theorem released_exactly_once : forall cf progs s i,
  R cf progs s ->
  (holders i (thr s) + count_occ Nat.eq_dec (released (gl s)) i = issued (gl s) i)%nat.
Proof. exact released_exactly_once_l. Qed.
Theorem never_released_twice : forall cf progs s i,
  R cf progs s -> (count_occ Nat.eq_dec (released (gl s)) i <= 1)%nat.
Proof. exact never_released_twice_l. Qed.
Theorem released_when_chain_ends : forall cf progs s i,
  R cf progs s -> (1 <= i <= nacq (gl s))%nat ->
  (holders i (thr s) = 0%nat <-> count_occ Nat.eq_dec (released (gl s)) i = 1%nat).
Proof. exact released_when_chain_ends_l. Qed.

(* after unlock() the handle is null and owns nothing *)
Theorem unlock_nulls : forall cf t c g l g' l' es h,
  (at_ l = Idle /\ exists pr, prog l = Unlock h :: pr) \/ at_ l = HRel (RUnlock h) ->
  tstep cf t c g l = Some (g', l', es) -> In (ret_ev 0) es ->
  exists x, slot (slots l') h = Some x /\ hnn x = false /\ hown x = false.
Proof. exact unlock_nulls_t. Qed.

(* locking disabled at construction (guarded_opt / shared_guarded_opt with enableLocking = false): no handle
   ever owns a lock and no thread is ever at a pc of a handle operation that touches the mutex or waits ... *)
Theorem disabled_mode : forall cf progs s t l,
  R cf progs s -> locking cf = false -> nth_error (thr s) t = Some l ->
  noown (slots l) /\ no_mutex_pc (at_ l).
Proof. exact disabled_never_locks_l. Qed.
(* ... every acquisition is enabled in every state, completes in its invocation step with a non-null handle
   (result 1) and emits no mutex operation *)
Theorem disabled_acquire : forall cf t c g pr sl o h am sh,
  locking cf = false -> noown sl -> acq_of cf o = Some (h, am, sh) -> (h < NSLOTS)%nat ->
  tstep cf t c g (Loc (o :: pr) Idle sl) =
  Some (g, Loc pr Idle (upd sl h (Some (H sh true false 0))), [inv_ev o; ret_ev 1]).
Proof. exact disabled_acquire_t. Qed.

(* ---------- non-vacuity and the recorded observation ---------- *)
Definition cf_t : config := Cfg FShared MSharedTimed true 0 [] false.
Definition cf_off : config := Cfg FGuardedOpt MPlain false 0 [] false.
Definition rep (t n : nat) : list (nat * nat) := repeat (t, 0%nat) n.
Definition slot_of (s : sys glob loc) (t h : nat) : option handle := slot (slots (locof (thr s) t)) h.

(* Observation (DESIGN C08): the defaulted move leaves the raw pointer in the moved-from handle - it is
   still `true` although it owns nothing; ownership (and the acquisition number) moved to the target *)
Definition ex_moved := run glob loc (tstep cf_t) (init cf_t [[Lock 0; MoveCtor 0 1]]) (rep 0 3).
Example moved_from_is_nonnull_but_unowned :
  slot_of ex_moved 0 0 = Some (H false true false 0) /\ slot_of ex_moved 0 1 = Some (H false true true 1) /\
  owner (gl ex_moved) = Some 0%nat /\ holders 1 (thr ex_moved) = 1%nat.
Proof. vm_compute. repeat split. Qed.

(* thread 0 holds a shared handle; thread 1's try_lock fails (null handle, lock not obtained), its
   try_lock_shared_for succeeds; its timed exclusive attempt is disabled until the time-out choice *)
Definition ex_try := run glob loc (tstep cf_t)
  (init cf_t [[LockShared 0]; [TryLock 0; TryLockSharedFor 1; TryLockFor 2]]) (rep 0 2 ++ rep 1 5).
Example ex_try_results :
  slot_of ex_try 1 0 = Some (H false false false 0) /\ slot_of ex_try 1 1 = Some (H true true true 2) /\
  sharers (gl ex_try) = [0%nat; 1%nat] /\ at_ (locof (thr ex_try) 1) = HAcq 2 ATimed false /\
  tstep cf_t 1 0 (gl ex_try) (locof (thr ex_try) 1) = None /\
  exists r, tstep cf_t 1 2 (gl ex_try) (locof (thr ex_try) 1) = Some r.
Proof. vm_compute. repeat split; eauto. Qed.

(* destroy, unlock, move-assign over an owning handle: three acquisitions, three releases, nothing held *)
Definition ex_rel := run glob loc (tstep cf_t)
  (init cf_t [[Lock 0; Destroy 0; Lock 0; Unlock 0; Lock 1; MoveAssign 0 1; Destroy 0]]) (rep 0 16).
Example ex_released_once :
  all_fin glob loc fin ex_rel = true /\ nacq (gl ex_rel) = 3%nat /\ released (gl ex_rel) = [3%nat; 2%nat; 1%nat] /\
  owner (gl ex_rel) = None /\ slot_of ex_rel 0 1 = Some (H false false false 0).
Proof. vm_compute. repeat split. Qed.

(* disabled mode: both threads hold a `true` handle at once, the mutex was never touched *)
Definition ex_off := run glob loc (tstep cf_off) (init cf_off [[Lock 0]; [TryLock 0]]) [(0, 0); (1, 0)]%nat.
Example ex_disabled_two_holders :
  locking cf_off = false /\ slot_of ex_off 0 0 = Some (H false true false 0) /\
  slot_of ex_off 1 0 = Some (H false true false 0) /\ owner (gl ex_off) = None /\ nacq (gl ex_off) = 0%nat.
Proof. vm_compute. repeat split. Qed.

(* ---------- deferred_guarded (anchored in C08 as well): its try / timed shared acquisitions and the
   submit paths of modify_detach / modify_async never wait for other holders ---------- *)
From GV Require DeferredModel DeferredProofs.
Theorem def_try_never_blocks_C08 : forall t c (g : DeferredModel.glob) l,
  (match DeferredModel.at_ l with
   | DeferredModel.M_try _ | DeferredModel.P_try _ | DeferredModel.S_acq (DeferredModel.AcTry _) => True
   | _ => False end) ->
  exists r, DeferredModel.tstep t c g l = Some r.
Proof. exact DeferredProofs.trylock_never_blocks. Qed.
Theorem def_timed_gives_up_C08 : forall t (g : DeferredModel.glob) l h,
  DeferredModel.at_ l = DeferredModel.S_acq (DeferredModel.AcFor h) -> exists r, DeferredModel.tstep t 2 g l = Some r.
Proof. exact DeferredProofs.timed_gives_up. Qed.
