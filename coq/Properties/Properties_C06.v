(* C06 - deferred_guarded applies each modification once, exclusively, in order.
   Statements only; every proof is `exact <lemma>` into Proofs/DeferredProofs.v.
   All theorems quantify over the mutex kind m (0 shared_timed_mutex, 1 shared_mutex, 2 timed_mutex, 3 mutex),
   the throw plan th (which user-code invocations throw), any number of threads with any programs over
   {modify_detach, modify_async, lock_shared, try_lock_shared, try_lock_shared_for/until, read through a handle,
   (bool)handle, destroy a handle, load, future ready?, future get}, and every schedule (including time-out choices).

   Vocabulary.  A task is one submitted functor, numbered in order of invocation (ids < ntasks).  Ghost stamps
   taken from a clock that every step advances: tinv (invocation of the submit call), tpush (push_back on the
   queued path), tret (return of the submit call), texec (the functor's invocation, K_CALL); tcount counts
   invocations, tfsets counts assignments of the task's future cell.
   holdsX p: pc p lies inside a library-internal exclusive section of the outer mutex (direct path or drain);
   inbody p: p lies inside a functor body; shl l: number of shared-handle locks held by a thread (client handles
   and the handle inside load()); lpend p: tasks a drainer has swapped out of the queue and not yet invoked;
   ctask p: the task of the submit call in progress. *)
From Coq Require Import List Arith ZArith Lia Bool.
Import ListNotations.
From GV Require Import Sched Events DeferredModel DeferredProofs.
From GV Require Deferred2Model Deferred2Proofs.
Local Open Scope Z_scope.

(* ---------- exactly once ---------- *)
(* a submitted functor is never invoked twice ... *)
Theorem def_exactly_once_le : forall m th progs s tk, R m th progs s -> (tcount (gh (gl s)) tk <= 1)%nat.
Proof. exact exactly_once_le. Qed.
(* ... and it has been invoked exactly once as soon as no submit call is in progress, the queue is empty and
   no drain is under way (in particular in every finished state with an empty queue) *)
Theorem def_exactly_once : forall m th progs s, R m th progs s ->
  (forall u, ctask (pcof (thr s) u) = None) -> (forall u, lpend (pcof (thr s) u) = []) -> queue (gl s) = [] ->
  forall tk, (tk < ntasks (gl s))%nat -> tcount (gh (gl s)) tk = 1%nat /\ texec (gh (gl s)) tk <> None.
Proof. exact exactly_once_drained. Qed.
Theorem def_exactly_once_finished : forall m th progs s, R m th progs s ->
  (forall u, pcof (thr s) u = Idle) -> queue (gl s) = [] ->
  forall tk, (tk < ntasks (gl s))%nat -> tcount (gh (gl s)) tk = 1%nat.
Proof. exact exactly_once_finished. Qed.

(* ---------- exclusive ---------- *)
(* a running functor - direct or queued - runs while its thread owns the outer mutex exclusively: no shared
   handle is alive anywhere (nor load's internal one), nobody else runs a functor, no other payload window is open *)
Theorem def_exclusive : forall m th progs s t, R m th progs s -> inbody (pcof (thr s) t) = true ->
  owner (gl s) = Some t /\
  (forall u, shl (locof (thr s) u) = O) /\
  (forall u, inbody (pcof (thr s) u) = true -> u = t) /\
  (forall u, u <> t -> rdopen (pcof (thr s) u) = false /\ wropen (pcof (thr s) u) = false).
Proof. exact running_exclusive. Qed.
Theorem def_windows_disjoint_C06 : forall m th progs s u v, R m th progs s -> u <> v ->
  wropen (pcof (thr s) u) = true -> rdopen (pcof (thr s) v) = false /\ wropen (pcof (thr s) v) = false.
Proof. exact windows_disjoint. Qed.
(* the instrumented payload never observes an overlap (no K_FAULT event is ever emitted) *)
Theorem def_no_fault_C06 : forall m th progs s, R m th progs s -> faulted (gl s) = false.
Proof. exact no_fault. Qed.

(* ---------- in order ---------- *)
(* real time: if f's submit call returned before k's began, f is invoked before k (in particular: k invoked => f invoked) *)
Theorem def_order : forall m th progs s f k r e', R m th progs s ->
  tret (gh (gl s)) f = Some r -> (r < tinv (gh (gl s)) k)%nat -> (k < ntasks (gl s))%nat ->
  texec (gh (gl s)) k = Some e' -> exists e, texec (gh (gl s)) f = Some e /\ (e < e')%nat.
Proof. exact order_real_time. Qed.
(* per submitter: two submissions of one thread are invoked in submission order *)
Theorem def_order_same_thread : forall m th progs s f k e', R m th progs s ->
  (f < k)%nat -> (k < ntasks (gl s))%nat -> tsub (gh (gl s)) f = tsub (gh (gl s)) k ->
  texec (gh (gl s)) k = Some e' -> exists e, texec (gh (gl s)) f = Some e /\ (e < e')%nat.
Proof. exact order_same_thread. Qed.

(* ---------- not stranded ---------- *)
(* if no submitter is between its push and its flag store and no drainer between clearing the flag and swapping
   the queue out, a non-empty queue is announced by the flag *)
Theorem def_not_stranded : forall m th progs s, R m th progs s ->
  (forall u, cphase (pcof (thr s) u) <> PhPushed) -> (forall u, clr (pcof (thr s) u) = false) ->
  queue (gl s) <> [] -> flag (gl s) = true.
Proof. exact not_stranded. Qed.
(* from a state with no call in progress and no handle held, a lock_shared / try_lock_shared* / load / modify_*
   call of thread t run alone reaches the point where access is granted (its shared acquisition, or its own
   functor) only with an empty queue and every other submitted functor invoked *)
Theorem def_next_access_drains : forall m th progs s0 t cs, R m th progs s0 -> quiet s0 ->
  let s := run glob loc tstep s0 (solo t cs) in
  nown (hand (locof (thr s) t)) = O -> postq (pcof (thr s) t) = true ->
  queue (gl s) = [] /\
  (granted (pcof (thr s) t) = true ->
   forall x, (x < ntasks (gl s))%nat -> ctask (pcof (thr s) t) <> Some x -> texec (gh (gl s)) x <> None).
Proof. exact next_access_drains. Qed.
(* ... and on the way both try-locks of the outer mutex succeed, i.e. the call does take the draining path *)
Theorem def_solo_trylock_succeeds : forall m th progs s0 t cs l, R m th progs s0 -> quiet s0 ->
  let s := run glob loc tstep s0 (solo t cs) in
  nth_error (thr s) t = Some l -> nown (hand l) = O ->
  (match at_ l with M_try _ | P_try _ => True | _ => False end) -> free_x (gl s) = true.
Proof. exact solo_trylock_succeeds. Qed.

(* ---------- futures ---------- *)
(* the future cell of a task is assigned at most once, and it is pending exactly as long as it was not assigned *)
Theorem def_future_set_once : forall m th progs s tk, R m th progs s ->
  (tfsets (gh (gl s)) tk <= 1)%nat /\ (tfsets (gh (gl s)) tk = O <-> tfut (gl s) tk = FPending).
Proof. exact future_set_once. Qed.
(* once a functor has been invoked and is no longer running, its future holds the exception, or the functor's
   result: the value it computed from the payload it was invoked on *)
Theorem def_future : forall m th progs s tk, R m th progs s ->
  texec (gh (gl s)) tk <> None -> (forall u, rtask (pcof (thr s) u) <> Some tk) ->
  tfsets (gh (gl s)) tk = 1%nat /\
  (tfut (gl s) tk = FExn \/ tfut (gl s) tk = FVal (apply_f (tfid (gl s) tk) (tpre (gh (gl s)) tk))).
Proof. exact future_result. Qed.
Theorem def_future_pending : forall m th progs s tk, R m th progs s ->
  texec (gh (gl s)) tk = None -> tfut (gl s) tk = FPending.
Proof. exact future_pending_unexecuted. Qed.
(* the payload is the log of the functors that completed without throwing, in order of completion *)
Theorem def_payload_is_log : forall m th progs s, R m th progs s ->
  pay (gl s) = enc (tfid (gl s)) (donelog (gh (gl s))).
Proof. exact payload_is_log. Qed.

(* ---------- progress ---------- *)
(* the library's try-locks never block; a timed shared try-lock gives up when its time is up *)
Theorem def_trylock_never_blocks : forall t c (g : glob) l,
  (match at_ l with M_try _ | P_try _ | S_acq (AcTry _) => True | _ => False end) -> exists r, tstep t c g l = Some r.
Proof. exact trylock_never_blocks. Qed.
Theorem def_timed_gives_up : forall t (g : glob) l h, at_ l = S_acq (AcFor h) -> exists r, tstep t 2 g l = Some r.
Proof. exact timed_gives_up. Qed.
(* a thread inside an exclusive section moves, or waits for an inner mutex whose holder moves *)
Theorem def_exclusive_section_progress : forall m th progs s u, R m th progs s ->
  holdsX (pcof (thr s) u) = true -> exists b, enabled glob loc tstep s b 0.
Proof. exact exclusive_section_progress. Qed.
(* when nothing can move, every thread has finished, or waits - plain mutex only - at the blocking shared
   acquisition for a client handle that is still alive *)
Theorem def_quiescent_shape : forall m th progs s t l, R m th progs s -> quiescent glob loc tstep s ->
  nth_error (thr s) t = Some l ->
  fin l = true \/
  (exists a, at_ l = S_acq a /\ shcap (gl s) = false /\
             exists u, owner (gl s) = Some u /\ holdsX (pcof (thr s) u) = false /\ nown (hand (locof (thr s) u)) = 1%nat).
Proof. exact quiescent_shape. Qed.
Theorem def_no_deadlock_shared : forall m th progs s, R m th progs s -> quiescent glob loc tstep s ->
  shcap (gl s) = true -> all_fin glob loc fin s = true.
Proof. exact no_deadlock_shared. Qed.
Theorem def_no_deadlock_released : forall m th progs s, R m th progs s -> quiescent glob loc tstep s ->
  (forall u, nown (hand (locof (thr s) u)) = O) -> all_fin glob loc fin s = true.
Proof. exact no_deadlock_released. Qed.
(* and such a state is reached: every step decreases the measure mu (no retry loops in this component) *)
Theorem def_bounded_work : forall m th progs s sc, R m th progs s -> (moves glob loc tstep s sc <= mu s)%nat.
Proof. exact bounded_work. Qed.

(* ---------- the ghost state (stamps, counters, log) is never read by the control flow ---------- *)
Theorem def_ghost_irrelevant : forall t c g l h,
  erase_res (tstep t c (set_gh g h) l) = erase_res (tstep t c g l).
Proof. exact ghost_irrelevant. Qed.

(* ---------- two objects / modification functions that submit modifications (Model/Deferred2Model.v) ---------- *)
(* x = false: object A, x = true: object B; objls x = the pcs of all threads in x's automaton (a thread inside a
   functor of A that re-submits to A has a second pc there) *)
Theorem def2_exactly_once_le : forall m progs (s : sys Deferred2Model.glob2 Deferred2Model.loc2) x tk,
  Deferred2Proofs.R2 m progs s -> (tcount (gh (Deferred2Proofs.objg x (gl s))) tk <= 1)%nat.
Proof. exact Deferred2Proofs.exactly_once_le2. Qed.
Theorem def2_exclusive : forall m progs (s : sys Deferred2Model.glob2 Deferred2Model.loc2) x t,
  Deferred2Proofs.R2 m progs s -> inbody (pcof (Deferred2Proofs.objls x (thr s)) t) = true ->
  owner (Deferred2Proofs.objg x (gl s)) = Some t /\
  (forall u, shl (locof (Deferred2Proofs.objls x (thr s)) u) = O) /\
  (forall u, inbody (pcof (Deferred2Proofs.objls x (thr s)) u) = true -> u = t) /\
  (forall u, u <> t -> rdopen (pcof (Deferred2Proofs.objls x (thr s)) u) = false /\
                       wropen (pcof (Deferred2Proofs.objls x (thr s)) u) = false).
Proof. exact Deferred2Proofs.running_exclusive2. Qed.

(* ---------- non-vacuity: the hypotheses are met by concrete reachable states ---------- *)
Notation runE := (run glob loc tstep).
Definition rep (t n : nat) : list (nat * nat) := repeat (t, O) n.

(* thread 0 takes a shared handle; thread 1's modify_detach finds the mutex busy and is queued; thread 0 releases *)
Definition ex_progs : list (list op) := [[LockShared 0; Release 0; LockShared 1]; [ModifyDetach 5]].
Definition ex_queued := runE (init 0 [] ex_progs) (rep 0 3 ++ rep 1 5 ++ rep 0 2).
Example ex_queued_quiet : (* no call in progress, no handle alive, one task queued, the flag up *)
  pcof (thr ex_queued) 0 = Idle /\ pcof (thr ex_queued) 1 = Idle /\
  nown (hand (locof (thr ex_queued) 0)) = O /\ queue (gl ex_queued) = [O] /\ flag (gl ex_queued) = true /\
  texec (gh (gl ex_queued)) 0 = None /\ ntasks (gl ex_queued) = 1%nat.
Proof. vm_compute. repeat split; reflexivity. Qed.
(* the next lock_shared of thread 0, run alone for 15 steps, stands at its shared acquisition: drained *)
Example ex_next_access :
  let s := runE ex_queued (solo 0 (repeat O 15)) in
  pcof (thr s) 0 = S_acq (AcLock 1) /\ granted (pcof (thr s) 0) = true /\ queue (gl s) = [] /\
  texec (gh (gl s)) 0 <> None /\ tcount (gh (gl s)) 0 = 1%nat /\ pay (gl s) = 5.
Proof. vm_compute. repeat split; try reflexivity. discriminate. Qed.
(* in between, thread 0 runs the queued functor inside its exclusive section *)
Example ex_running :
  let s := runE ex_queued (solo 0 (repeat O 10)) in
  inbody (pcof (thr s) 0) = true /\ owner (gl s) = Some O /\ lpend (pcof (thr s) 0) = [].
Proof. vm_compute. repeat split; reflexivity. Qed.
(* a submitter between its push and its flag store: the queue is not empty and the flag is still down *)
Example ex_between_push_and_store :
  let s := runE (init 0 [] ex_progs) (rep 0 3 ++ rep 1 4) in
  cphase (pcof (thr s) 1) = PhPushed /\ queue (gl s) = [O] /\ flag (gl s) = false.
Proof. vm_compute. repeat split; reflexivity. Qed.

(* order: task 0 returned before task 1 was submitted; both invoked, in that order; the payload is their log *)
Example ex_order :
  let s := runE (init 1 [] [[ModifyDetach 3]; [ModifyAsync 4 0; FutureGet 0]]) (rep 0 9 ++ rep 1 11) in
  exists r e e', tret (gh (gl s)) 0 = Some r /\ (r < tinv (gh (gl s)) 1)%nat /\
                 texec (gh (gl s)) 0 = Some e /\ texec (gh (gl s)) 1 = Some e' /\ (e < e')%nat /\
                 pay (gl s) = 3 * 16 + 4 /\ tfut (gl s) 1 = FVal 52.
Proof. vm_compute. do 3 eexists. repeat split; try reflexivity; lia. Qed.

(* two readers hold shared handles at the same time (shared_mutex) *)
Example ex_two_readers :
  let s := runE (init 1 [] [[LockShared 0]; [TryLockShared 0]]) (rep 0 3 ++ rep 1 3) in
  nsh (gl s) = 2%nat /\ nown (hand (locof (thr s) 0)) = 1%nat /\ nown (hand (locof (thr s) 1)) = 1%nat.
Proof. vm_compute. repeat split; reflexivity. Qed.

(* a throwing functor on the direct path of modify_detach: the exception propagates, the mutex is released *)
Example ex_throw_direct :
  let s := runE (init 3 [0] [[ModifyDetach 7; LoadOp]]) (rep 0 4) in
  pcof (thr s) 0 = M_unlock 0 true /\ owner (gl s) = Some O /\
  let s' := runE s (rep 0 1) in pcof (thr s') 0 = Idle /\ owner (gl s') = None /\ pay (gl s') = 0.
Proof. vm_compute. repeat split; reflexivity. Qed.

(* the only quiescent non-finished shape: plain mutex, a thread blocks behind its own live handle *)
Example ex_plain_self_block :
  let s := runE (init 3 [] [[LockShared 0; LockShared 1]]) (rep 0 6) in
  pcof (thr s) 0 = S_acq (AcLock 1) /\ owner (gl s) = Some O /\ nown (hand (locof (thr s) 0)) = 1%nat /\
  tstep 0 0 (gl s) (locof (thr s) 0) = None.
Proof. vm_compute. repeat split; reflexivity. Qed.

(* a queued modification function of A that re-submits to A (functor 1, inner functor 2): the drain that applies
   functor 1 (thread 0's first load) leaves the inner submission QUEUED with the flag up - the drainer owns the
   mutex, so the inner call takes the queued path, and the running drain works on the list it swapped out before -
   and the next access (the second load) applies it *)
Definition resubmit_progs : list (list Deferred2Model.op2) :=
  [[Deferred2Model.OnA (LockShared 0); Deferred2Model.OnA (Release 0); Deferred2Model.OnA LoadOp; Deferred2Model.OnA LoadOp];
   [Deferred2Model.Nested 16 (ModifyDetach 1) true false 2]].
Definition resubmit_1 :=
  run Deferred2Model.glob2 Deferred2Model.loc2 Deferred2Model.tstep2 (Deferred2Model.init2 0 resubmit_progs)
      (rep 0 3 ++ rep 1 5 ++ rep 0 2 ++ rep 0 23).
Example resubmission_left_queued :
  let g := Deferred2Model.gA (gl resubmit_1) in
  queue g = [1%nat] /\ flag g = true /\ texec (gh g) 0 <> None /\ texec (gh g) 1 = None /\ pay g = 1 /\ owner g = None /\
  pcof (Deferred2Proofs.objls false (thr resubmit_1)) 0 = Idle.
Proof. vm_compute. repeat split; auto; discriminate. Qed.
Example resubmission_applied_by_next_access :
  let g := Deferred2Model.gA (gl (run Deferred2Model.glob2 Deferred2Model.loc2 Deferred2Model.tstep2 resubmit_1 (rep 0 19))) in
  queue g = [] /\ texec (gh g) 1 <> None /\ pay g = 1 * 16 + 2 /\ tcount (gh g) 0 = 1%nat /\ tcount (gh g) 1 = 1%nat.
Proof. vm_compute. repeat split; auto; discriminate. Qed.
