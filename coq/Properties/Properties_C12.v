(* C12 - rcu_list traversals are consistent and writers are serialised.
   Statements only; every proof is `exact <lemma>` into Proofs/RcuListProofs.v, RcuTravProofs.v.
   All theorems quantify over any number of threads, any client programs over the rcu_guarded /
   rcu_list API (RcuModel.op) and every schedule (including spurious weak-CAS failures, choice 3);
   [unf] selects the pre-repair reclaim step (DESIGN section 6) - Layer A does not depend on it. *)
From Coq Require Import List Arith ZArith Lia Bool Sorted.
Import ListNotations.
From GV Require Import Sched Events RcuModel RcuBase RcuListProofs RcuTravProofs.
Local Open Scope Z_scope.

(* Writers are serialised: in every reachable state the abstract list (ghost [lst], updated at the
   one store by which each mutator takes effect) equals the sequential replay of the mutators in the
   order in which they took effect, it has no duplicates, and it is exactly what following next
   pointers from m_head yields ([contents], the function the final-state line of the trace prints).
   apply_m: push_front conses, push_back appends, erase removes the node if present - erasing an
   already erased node is the sequential no-op. *)
Theorem rcu_writers_serial : forall unf progs s, R unf progs s ->
  lst (gl s) = fold_left apply_m (mlog (gl s)) [] /\ contents (gl s) = lst (gl s) /\ NoDup (lst (gl s)).
Proof. exact writers_serial. Qed.

(* ... and that order is the write-mutex order: a step that appends to the mutator log is a step of
   the thread that owns m_write_mutex (so effects of different mutators never interleave, and each
   thread's own mutators take effect in program order) *)
Theorem rcu_mutators_hold_mutex : forall unf progs s t c l g' l' es,
  R unf progs s -> nth_error (thr s) t = Some l -> tstep t c (gl s) l = Some (g', l', es) ->
  mlog g' <> mlog (gl s) -> wmtx (gl s) = Some t.
Proof. exact mutator_holds_mutex. Qed.

(* Traversals go forward: the next pointer of a published node (in the list, or erased) is again a
   published node, strictly further down the global position order ps (front insertions before,
   back insertions after everything inserted so far).  Hence the nodes an iterator visits are
   strictly increasing in ps: list order, each at most once. *)
Theorem rcu_next_forward : forall unf progs s k m, R unf progs s ->
  pubn (gl s) k -> nx (gl s) k = Some m -> pubn (gl s) m /\ ps (gl s) k < ps (gl s) m.
Proof. exact next_forward. Qed.

(* every node an iterator slot or a register of any thread refers to is a published node: a node
   that some push inserted (never a half-constructed one, never a log record) *)
Theorem rcu_refs_published : forall unf progs s t l c,
  R unf progs s -> nth_error (thr s) t = Some l -> In c (nrefs l) -> pubn (gl s) c.
Proof. exact refs_published. Qed.

(* ---------- traversals ----------
   A traversal is described by [trav unf progs K s v x]: in state s the iterator has visited the nodes
   v (in this order) and now holds x (None = end()).  It starts in any reachable state by loading
   m_head ([tr_begin]; this is what the B_ld step of the model does, [rcu_begin_reads_head]), it
   advances by loading the next field of its current node in the then current state ([tr_next]; the
   N_ld step, [rcu_next_reads_next]), and between these loads any thread may take any step
   ([tr_time]).  K is a set of nodes that are in the list at the first load and after every step
   since, i.e. elements that no writer erases during the traversal. *)

(* the visited nodes and the current one are strictly increasing in list position: the traversal
   goes through the list in list order and meets no node twice *)
Theorem rcu_traversal_sorted_nodup : forall unf progs K s v x, trav unf progs K s v x ->
  StronglySorted (fun a b => ps (gl s) a < ps (gl s) b) (v ++ o2l x) /\ NoDup (v ++ o2l x).
Proof. exact trav_sorted. Qed.

(* every node the traversal meets is a published node and some push_front / push_back / emplace
   inserted it (the writer log contains its push) *)
Theorem rcu_traversal_inserted : forall unf progs K s v x c, trav unf progs K s v x -> In c (v ++ o2l x) ->
  pubn (gl s) c /\ (In (MPushF c) (mlog (gl s)) \/ In (MPushB c) (mlog (gl s))).
Proof. exact trav_inserted. Qed.

(* no skip: a traversal that has reached end() has visited every element that was in the list from
   its begin() on - whatever the writers erased or pushed around those elements meanwhile, and also
   when the traversal itself went through nodes that were erased under it *)
Theorem rcu_no_skip : forall unf progs K s v, trav unf progs K s v None -> incl K v.
Proof. exact no_skip. Qed.

(* the two loads of the model are the two loads of [trav] *)
Theorem rcu_begin_reads_head : forall t c g l g' l' es it, at_ l = B_ld it -> tstep t c g l = Some (g', l', es) ->
  g' = g /\ its l' = setit (its l) it (head g).
Proof. exact begin_reads_head. Qed.
Theorem rcu_next_reads_next : forall t c g l g' l' es it cu, at_ l = N_ld it cu -> tstep t c g l = Some (g', l', es) ->
  its l' = setit (its l) it (nx g cu).
Proof. exact next_reads_next. Qed.

(* ---------- non-vacuity ---------- *)
Definition ex_progs : list (list op) :=
  [[LockWrite; PushBack 10; PushBack 20; PushFront 5; Begin 0; Next 0; Erase 0; Release];
   [LockRead; Begin 0; Next 0; Deref 0; Next 0; Deref 0; Release]].
Definition ex_sched : list (nat * nat) := repeat (0%nat, 0%nat) 36 ++ repeat (1%nat, 0%nat) 10 ++ repeat (0%nat, 0%nat) 8.
Definition ex_state := run glob loc tstep (init false ex_progs) ex_sched.

(* thread 0 has pushed 10, 20, 5 (front) and is in the middle of erasing the second element (10),
   thread 1's iterator sits on that very element *)
Example ex_erase_under_reader :
  lst (gl ex_state) = [3; 2]%nat /\ mlog (gl ex_state) = [MPushB 1; MPushB 2; MPushF 3; MErase 1]%nat /\
  wmtx (gl ex_state) = Some 0%nat /\
  (exists l, nth_error (thr ex_state) 1 = Some l /\ In 1%nat (nrefs l)) /\ nx (gl ex_state) 1 = Some 2%nat.
Proof. vm_compute. repeat split; auto. eexists; split; [reflexivity|]. cbn. auto. Qed.

(* a traversal in the same run: it starts when the list is [3; 1; 2], stands on node 1 while the
   writer erases 1, and still reaches 2 and the end through the erased node's next pointer; the
   elements that stayed, 3 and 2, are both visited *)
Example ex_traversal_over_erased :
  lst (gl tex_s1) = [3; 1; 2]%nat /\ lst (gl tex_s2) = [3; 2]%nat /\
  trav false tex_progs [3; 2]%nat tex_s2 [3; 1; 2]%nat None.
Proof. exact tex_trav. Qed.
