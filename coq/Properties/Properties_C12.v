(* C12 - rcu_list traversals are consistent and writers are serialised.
   Statements only; every proof is `exact <lemma>` into Proofs/RcuListProofs.v.
   All theorems quantify over any number of threads, any client programs over the rcu_guarded /
   rcu_list API (RcuModel.op) and every schedule (including spurious weak-CAS failures, choice 3);
   [unf] selects the pre-repair reclaim step (DESIGN section 6) - Layer A does not depend on it. *)
From Coq Require Import List Arith ZArith Lia Bool.
Import ListNotations.
From GV Require Import Sched Events RcuModel RcuBase RcuListProofs.
Local Open Scope Z_scope.

(* Writers are serialised: in every reachable state the abstract list (ghost [lst], updated at the
   one store by which each mutator takes effect) equals the sequential replay of the mutators in the
   order in which they took effect, it has no duplicates, and it is exactly what following next
   pointers from m_head yields ([contents], the function the final-state line of the trace prints).
   apply_m: push_front conses, push_back appends, erase removes the node if present - erasing an
   already erased node is the sequential no-op. *)
Theorem rcu_writers_serial : forall unf progs s, R unf progs s ->
  lst (gl s) = fold_left apply_m (mlog (gl s)) [] /\ contents (gl s) = lst (gl s) /\ NoDup (lst (gl s)).
Proof. exact writers_serial. Qed.

(* ... and that order is the write-mutex order: a step that appends to the mutator log is a step of
   the thread that owns m_write_mutex (so effects of different mutators never interleave, and each
   thread's own mutators take effect in program order) *)
Theorem rcu_mutators_hold_mutex : forall unf progs s t c l g' l' es,
  R unf progs s -> nth_error (thr s) t = Some l -> tstep t c (gl s) l = Some (g', l', es) ->
  mlog g' <> mlog (gl s) -> wmtx (gl s) = Some t.
Proof. exact mutator_holds_mutex. Qed.

(* Traversals go forward: the next pointer of a published node (in the list, or erased) is again a
   published node, strictly further down the global position order ps (front insertions before,
   back insertions after everything inserted so far).  Hence the nodes an iterator visits are
   strictly increasing in ps: list order, each at most once. *)
Theorem rcu_next_forward : forall unf progs s k m, R unf progs s ->
  pubn (gl s) k -> nx (gl s) k = Some m -> pubn (gl s) m /\ ps (gl s) k < ps (gl s) m.
Proof. exact next_forward. Qed.

(* every node an iterator slot or a register of any thread refers to is a published node: a node
   that some push inserted (never a half-constructed one, never a log record) *)
Theorem rcu_refs_published : forall unf progs s t l c,
  R unf progs s -> nth_error (thr s) t = Some l -> In c (nrefs l) -> pubn (gl s) c.
Proof. exact refs_published. Qed.

(* ---------- non-vacuity ---------- *)
Definition ex_progs : list (list op) :=
  [[LockWrite; PushBack 10; PushBack 20; PushFront 5; Begin 0; Next 0; Erase 0; Release];
   [LockRead; Begin 0; Next 0; Deref 0; Next 0; Deref 0; Release]].
Definition ex_sched : list (nat * nat) := repeat (0%nat, 0%nat) 36 ++ repeat (1%nat, 0%nat) 10 ++ repeat (0%nat, 0%nat) 7.
Definition ex_state := run glob loc tstep (init false ex_progs) ex_sched.

(* thread 0 has pushed 10, 20, 5 (front) and is in the middle of erasing the second element (10),
   thread 1's iterator sits on that very element *)
Example ex_erase_under_reader :
  lst (gl ex_state) = [3; 2]%nat /\ mlog (gl ex_state) = [MPushB 1; MPushB 2; MPushF 3; MErase 1]%nat /\
  wmtx (gl ex_state) = Some 0%nat /\
  (exists l, nth_error (thr ex_state) 1 = Some l /\ In 1%nat (nrefs l)) /\ nx (gl ex_state) 1 = Some 2%nat.
Proof. vm_compute. repeat split; auto. eexists; split; [reflexivity|]. cbn. auto. Qed.
