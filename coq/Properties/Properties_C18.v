From Coq Require Import List Arith ZArith Lia Bool.
Import ListNotations.
From GV Require Import Sched Events DelayedObjectsModel DelayedObjectsProofs.
Local Open Scope Z_scope.

Theorem do_init : forall n progs, faulted (gl (init n progs)) = false.
Proof. exact placeholder_init. Qed.
