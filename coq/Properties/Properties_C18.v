(* C18 - every DelayedObjects future is fulfilled exactly once and never hangs.
   Statements only; every proof is `exact <lemma>` into Proofs/DelayedObjectsProofs.v.
   All theorems quantify over the number ns of future slots per client, the throw plan pl (which copies
   of X throw), any number of threads with any programs over {getFuture, setDelayedValue (const X& / X&&),
   fulfillAllPromises, isRecognized, isCompleted, finishedWithValue} x {int keys, string keys} plus the
   client-side observations {future ready?, future.get()}, and every schedule.

   Vocabulary: a promise cell  Cell kind key st  lives at index q of  heap (ct (gl s));  st is
   Unset | SetV v | Broken;  (kind, key) is what getFuture was called with.  pend / used are the four maps.
   pcs: P_lock o = waits for promiseLock;  P_call o = setDelayedValue(const X&) about to copy (owns the lock);
   P_ful v k key q r c0 = fulfillAllPromises about to copy for promise q (owns the lock; c0 = container
   when it took the lock);  P_unlock out = body over, owns the lock, will end with out = ORet rv | OExn | OFault.

   Copies of X may throw (any throw plan pl): nothing below needs a proviso.  The header before repair
   b8719b7 (model: tstep_gen true) violates do_never_twice: see do_never_twice_unfixed_refuted. *)
From Coq Require Import List Arith ZArith Lia Bool.
Import ListNotations.
From GV Require Lin.
From GV Require Import Sched Events DelayedObjectsModel DelayedObjectsProofs DelayedObjectsLin.
Local Open Scope Z_scope.

(* ---------- do_never_twice ---------- *)
(* Under every throw plan: no set_value ever hits a promise that cannot be set (no std::future_error), and
   at every moment - also in the middle of fulfillAllPromises and after a copy threw - pending maps hold
   exactly the Unset promises, used maps only satisfied ones, keys are unique, a promise is Broken only by a
   later request of the same key (record CInv). *)
Theorem do_never_twice : forall ns pl progs s, R ns pl progs s -> faulted (gl s) = false /\ CInv (ct (gl s)).
Proof. exact never_twice. Qed.

(* the header BEFORE repair b8719b7 (entries not erased in the loop, clear() after the loops), same model with
   unfixed = true: getFuture(1); getFuture(2); fulfillAllPromises(5000) whose 2nd copy throws;
   setDelayedValue(1, 77): the last call ends with std::future_error; key 1 is in the pending AND in the used
   map; the future of key 2 is not ready; and ~DelayedObjects would throw from set_value (std::terminate) *)
Theorem do_never_twice_unfixed_refuted :
  faulted (gl bad_state_unfixed) = true /\
  all_fin glob loc fin bad_state_unfixed = true /\ mtx (gl bad_state_unfixed) = None /\
  destroy (ct (gl bad_state_unfixed)) = None /\
  ahas 1 (pend (ct (gl bad_state_unfixed)) false) = true /\ ahas 1 (used (ct (gl bad_state_unfixed)) false) = true /\
  fut_get (heap (ct (gl bad_state_unfixed))) (Some 0%nat) = 5000 /\
  fut_get (heap (ct (gl bad_state_unfixed))) (Some 1%nat) = C_NOTREADY.
Proof. exact never_twice_unfixed_refuted. Qed.

Theorem do_no_fault_event : forall ns pl progs s t c l g' l' es,
  R ns pl progs s -> nth_error (thr s) t = Some l ->
  tstep t c (gl s) l = Some (g', l', es) -> ~ In fault_ev es.
Proof. exact no_fault_event. Qed.

(* a promise id is in at most one of the four maps, under one key *)
Theorem do_pid_one_map : forall c, CInv c -> forall q k1 key1 k2 key2,
  (In (key1, q) (pend c k1) \/ In (key1, q) (used c k1)) -> (In (key2, q) (pend c k2) \/ In (key2, q) (used c k2)) ->
  k1 = k2 /\ key1 = key2 /\ ~ (In (key1, q) (pend c k1) /\ In (key2, q) (used c k2)).
Proof. exact pid_one_map. Qed.

(* ---------- do_set_exn_keeps_pending ---------- *)
(* a throwing copy in setDelayedValue(key, const X&) changes nothing: the container is the same, the key
   is still pending with its promise Unset, no fault ... *)
Theorem do_set_exn_keeps_pending : forall ns pl progs s t c l g' l' es o,
  R ns pl progs s -> nth_error (thr s) t = Some l -> at_ l = P_call o ->
  throws (gl s) = true -> tstep t c (gl s) l = Some (g', l', es) ->
  ct g' = ct (gl s) /\ at_ l' = P_unlock OExn /\ faulted g' = false /\
  exists k key v q, o = SetValue false k key v /\ afind key (pend (ct g') k) = Some q /\
                    nth_error (heap (ct g')) q = Some (Cell k key Unset).
Proof. exact set_exn_keeps_pending. Qed.
(* ... and the call ends by releasing the mutex (events: K_UNLOCK, then K_CATCH for OExn / K_RET rv for ORet rv).
   The promise can then still be satisfied by do_set_wins_*, do_fulfill_step, do_default_at_destruction. *)
Theorem do_section_exit : forall t c g l g' l' es out, tstep t c g l = Some (g', l', es) -> at_ l = P_unlock out ->
  es = unlock_evs out /\ at_ l' = Idle /\ ct g' = ct g /\ mtx g' = None /\ faulted g' = faulted g.
Proof. exact unlock_step. Qed.
(* whenever a thread waits at the copy inside setDelayedValue, its key is pending and it owns the lock *)
Theorem do_at_copy_pending : forall ns pl progs s t l o, R ns pl progs s ->
  nth_error (thr s) t = Some l -> at_ l = P_call o ->
  exists k key v q, o = SetValue false k key v /\ afind key (pend (ct (gl s)) k) = Some q /\
                    nth_error (heap (ct (gl s))) q = Some (Cell k key Unset) /\ mtx (gl s) = Some t.
Proof. exact at_copy_pending. Qed.

(* ---------- do_fulfilled_once: which value, and exactly once ---------- *)
(* (1) setDelayedValue(key, v) that finds the key pending satisfies that key's promise - and no other -
       with v: the X&& overload in its lock step, the const X& overload in the step of its copy *)
Theorem do_set_wins_move : forall ns pl progs s t c l g' l' es k key v q,
  R ns pl progs s -> nth_error (thr s) t = Some l -> at_ l = P_lock (SetValue true k key v) ->
  tstep t c (gl s) l = Some (g', l', es) -> afind key (pend (ct (gl s)) k) = Some q ->
  nth_error (heap (ct (gl s))) q = Some (Cell k key Unset) /\
  nth_error (heap (ct g')) q = Some (Cell k key (SetV v)) /\
  (forall q', q' <> q -> nth_error (heap (ct g')) q' = nth_error (heap (ct (gl s))) q') /\
  at_ l' = P_unlock (ORet 0).
Proof. exact set_wins_move. Qed.
Theorem do_set_wins_copy : forall ns pl progs s t c l g' l' es k key v q,
  R ns pl progs s -> nth_error (thr s) t = Some l -> at_ l = P_call (SetValue false k key v) ->
  throws (gl s) = false ->
  tstep t c (gl s) l = Some (g', l', es) -> afind key (pend (ct (gl s)) k) = Some q ->
  nth_error (heap (ct (gl s))) q = Some (Cell k key Unset) /\
  nth_error (heap (ct g')) q = Some (Cell k key (SetV v)) /\
  (forall q', q' <> q -> nth_error (heap (ct g')) q' = nth_error (heap (ct (gl s))) q') /\
  at_ l' = P_unlock (ORet 0).
Proof. exact set_wins_copy. Qed.

(* (2) fulfillAllPromises(v): every non-throwing copy is exactly the body of setDelayedValue for the key at the
       iterator: that promise - and no other - gets v, the key moves from the pending to the used map.  A copy
       that throws ends the call (S_ful_throw: container unchanged): the keys served so far are completed,
       the others still pending, and do_never_twice holds on. *)
Theorem do_fulfill_step : forall ns pl progs s t c l g' l' es v k key q r c0,
  R ns pl progs s -> nth_error (thr s) t = Some l -> at_ l = P_ful v k key q r c0 ->
  throws (gl s) = false -> tstep t c (gl s) l = Some (g', l', es) ->
  apply (SetValue true k key v) (ct (gl s)) = (ct g', 0, false) /\
  nth_error (heap (ct (gl s))) q = Some (Cell k key Unset) /\
  nth_error (heap (ct g')) q = Some (Cell k key (SetV v)) /\
  (forall q', q' <> q -> nth_error (heap (ct g')) q' = nth_error (heap (ct (gl s))) q') /\
  (is_ful (at_ l') = true \/ (at_ l' = P_unlock (ORet 0) /\ pend (ct g') false = [] /\ pend (ct g') true = [])).
Proof. exact fulfill_step. Qed.
(* ... and when it gets through both loops: both pending maps are empty, no promise at all is unsatisfied,
   and every promise that was unsatisfied when the lock was taken (container c0) holds v *)
Theorem do_fulfill_completes : forall ns pl progs s t c l g' l' es v k key q r c0,
  R ns pl progs s -> nth_error (thr s) t = Some l -> at_ l = P_ful v k key q r c0 ->
  tstep t c (gl s) l = Some (g', l', es) -> at_ l' = P_unlock (ORet 0) ->
  pend (ct g') false = [] /\ pend (ct g') true = [] /\
  (forall i x, nth_error (heap (ct g')) i = Some x -> cst x <> Unset) /\
  (forall i ki keyi, nth_error (heap c0) i = Some (Cell ki keyi Unset) ->
     nth_error (heap (ct g')) i = Some (Cell ki keyi (SetV v))).
Proof. exact fulfill_completes. Qed.

(* (3) ~DelayedObjects throws nothing and gives X{} = 0 to whatever is still Unset *)
Theorem do_default_at_destruction : forall ns pl progs s, R ns pl progs s ->
  exists h', destroy (ct (gl s)) = Some h' /\ length h' = length (heap (ct (gl s))) /\
    (forall q k key st, nth_error (heap (ct (gl s))) q = Some (Cell k key st) ->
       nth_error h' q = Some (Cell k key (settle 0 st))).
Proof. exact destroyed. Qed.

(* (4) do_stable (no proviso): once a promise is satisfied (or broken) it stays exactly so in every later state *)
Theorem do_stable : forall (s s' : sys glob loc) q k key st,
  reachable glob loc tstep s s' -> nth_error (heap (ct (gl s))) q = Some (Cell k key st) -> st <> Unset ->
  nth_error (heap (ct (gl s'))) q = Some (Cell k key st).
Proof. exact stable. Qed.
Theorem do_stable_observed : forall (s s' : sys glob loc) p, reachable glob loc tstep s s' ->
  fut_ready (heap (ct (gl s))) (Some p) = 1 ->
  fut_ready (heap (ct (gl s'))) (Some p) = 1 /\
  fut_get (heap (ct (gl s'))) (Some p) = fut_get (heap (ct (gl s))) (Some p).
Proof. exact stable_get. Qed.

(* (5) a key requested once: its promise is never broken, and after destruction it holds a value:
       the one it already had (by (1), (2), (4)), else 0 *)
Theorem do_fulfilled_once : forall ns pl progs s h' q k key st,
  R ns pl progs s -> destroy (ct (gl s)) = Some h' ->
  nth_error (heap (ct (gl s))) q = Some (Cell k key st) -> requested_once (heap (ct (gl s))) q k key ->
  st <> Broken /\ exists v, nth_error h' q = Some (Cell k key (SetV v)) /\ (st = SetV v \/ (st = Unset /\ v = 0)).
Proof. exact fulfilled_once. Qed.

(* (6) no value out of thin air: a satisfied promise holds a value some caller passed to setDelayedValue for
       its own key, or to fulfillAllPromises *)
Theorem do_value_provenance : forall ns pl progs s q k key v, R ns pl progs s ->
  nth_error (heap (ct (gl s))) q = Some (Cell k key (SetV v)) ->
  exists t, (exists mv, In (t, SetValue mv k key v) (began (gl s))) \/ In (t, FulfillAll v) (began (gl s)).
Proof. exact provenance. Qed.

Theorem do_futures_valid : forall ns pl progs s u l i p, R ns pl progs s ->
  nth_error (thr s) u = Some l -> nth_error (slots l) i = Some (Some p) ->
  exists k key st, nth_error (heap (ct (gl s))) p = Some (Cell k key st).
Proof. exact slots_valid. Qed.

Theorem do_broken_only_by_rerequest : forall ns pl progs s q k key,
  R ns pl progs s -> nth_error (heap (ct (gl s))) q = Some (Cell k key Broken) ->
  exists q' st, (q < q')%nat /\ nth_error (heap (ct (gl s))) q' = Some (Cell k key st).
Proof. exact broken_only_by_rerequest. Qed.

(* ---------- do_noop ---------- *)
(* setDelayedValue (either overload) for a key that is not pending leaves the whole container unchanged,
   makes no copy, and returns normally *)
Theorem do_noop : forall t c g l g' l' es mv k key v,
  at_ l = P_lock (SetValue mv k key v) -> tstep t c g l = Some (g', l', es) -> ahas key (pend (ct g) k) = false ->
  ct g' = ct g /\ at_ l' = P_unlock (ORet 0).
Proof. exact set_noop. Qed.

(* ---------- do_queries ---------- *)
(* abs c k key = (key in pending map, key in used map): Unknown (f,f), Pending (t,f), Completed (f,t).
   The sequential body of every method moves every key as the life-cycle specification abs_step says and
   returns abs_ret (isRecognized = Pending or Completed, isCompleted = Completed) ... *)
Theorem do_queries : forall o c c' rv flt k key, CInv c -> apply o c = (c', rv, flt) ->
  abs c' k key = abs_step o k key (abs c k key) /\ rv = abs_ret o c.
Proof. exact apply_abs. Qed.
(* ... and every critical section that completes IS its sequential body, applied to the container it found,
   returning the value the call returns; fulfillAllPromises is a sequence of setDelayedValue bodies
   (do_fulfill_step) inside one critical section *)
Theorem do_section_lock : forall ns pl progs s t c l g' l' es o rv,
  R ns pl progs s -> nth_error (thr s) t = Some l -> at_ l = P_lock o -> (forall v, o <> FulfillAll v) ->
  tstep t c (gl s) l = Some (g', l', es) -> at_ l' = P_unlock (ORet rv) ->
  apply o (ct (gl s)) = (ct g', rv, false) /\ hist g' = hist (gl s) ++ [(t, o, ORet rv)].
Proof. exact section_lock. Qed.
Theorem do_section_copy : forall ns pl progs s t c l g' l' es o,
  R ns pl progs s -> nth_error (thr s) t = Some l -> at_ l = P_call o ->
  throws (gl s) = false -> tstep t c (gl s) l = Some (g', l', es) ->
  exists rv, at_ l' = P_unlock (ORet rv) /\ apply o (ct (gl s)) = (ct g', rv, false) /\
             hist g' = hist (gl s) ++ [(t, o, ORet rv)].
Proof. exact section_copy. Qed.

Theorem do_life_pending : forall c k key, CInv c ->
  (fst (abs c k key) = true <-> exists q, nth_error (heap c) q = Some (Cell k key Unset)).
Proof. exact abs_pending. Qed.
Theorem do_life_completed : forall c k key, CInv c -> snd (abs c k key) = true ->
  exists q v, afind key (used c k) = Some q /\ nth_error (heap c) q = Some (Cell k key (SetV v)).
Proof. exact abs_completed. Qed.
Theorem do_life_both_only_rerequested : forall c k key, CInv c -> abs c k key = (true, true) ->
  exists q q' st st', q <> q' /\ nth_error (heap c) q = Some (Cell k key st) /\
                      nth_error (heap c) q' = Some (Cell k key st').
Proof. exact both_only_rerequested. Qed.

(* ---------- do_linearizable / atomic sections ---------- *)
(* at every moment the container is what the sequential bodies logged so far give, run one after the other
   (a section ended by a throwing copy: no effect of its own; fulfillAllPromises: one setDelayedValue body
   per promise it satisfied), every logged return value being the one the sequential body returns *)
Theorem do_linearizable : forall ns pl progs s, R ns pl progs s -> replay (hist (gl s)) cont0 = Some (ct (gl s)).
Proof. exact linearizable. Qed.
(* `began` gets a call at its lock step; `hist` is extended only by the thread that is acquiring or owns the lock,
   with entries of its own: nothing interleaves with the bodies of one critical section *)
Theorem do_lin_point : forall t c g l g' l' es, tstep t c g l = Some (g', l', es) ->
  match at_ l with
  | P_lock o => began g' = began g ++ [(t, o)] /\ mtx g = None /\ mtx g' = Some t
  | _ => began g' = began g
  end /\
  (hist g' = hist g \/
   (exists x, hist g' = hist g ++ x /\ (forall e, In e x -> fst (fst e) = t) /\
              holds (at_ l') = true /\ (is_lock (at_ l) = true \/ holds (at_ l) = true))).
Proof. exact lin_point. Qed.
(* ---------- do_linearizable_hw: linearizability in the sense of Herlihy & Wing (Common/Lin.v) ---------- *)
(* hist_of s0 sched = the annotated history of the run: Inv t o at the K_INVOKE step of a container method
   (client-side polling of a future emits nothing), Lin t and Res t out at the step that releases promiseLock and
   emits K_RET rv (out = ORet rv) or K_CATCH (out = OExn).  Every effect of a method on the container happens
   while the caller owns the lock, so any point of the critical section is a linearization point: we take the
   release.  spec_apply pl = the sequential specification with fault injection over states (container, number of
   copies made): setDelayedValue(const X&) on a pending key makes one copy; fulfillAllPromises makes one copy per
   pending promise, int keys first, then string keys, in key order, each followed by the body of setDelayedValue
   for that key; a copy whose index is in pl throws and ends the call there (the compound is cut short). *)
Theorem do_hist_events : forall t c g l g' l' es, tstep t c g l = Some (g', l', es) ->
  match hev_of t l with
  | [] => True
  | [Lin.Inv _ _ _ o] => In (E K_INVOKE 0 (opcode o)) es /\ locks o = true
  | [Lin.Lin _ _ _; Lin.Res _ _ _ out] =>
    es = unlock_evs out /\ match out with ORet rv => In (E K_RET 0 rv) es | OExn => In (E K_CATCH 0 0) es | OFault => True end
  | _ => False
  end.
Proof. exact hev_of_events. Qed.
(* the history of every run, under every throw plan, is well formed (per thread Inv, Lin, Res, Inv, ...) and the
   operations in the order of their linearization points are a legal run of the specification from the empty
   container, with exactly the outcomes the calls had *)
Theorem do_hist_wf : forall ns pl progs sched,
  exists L, Lin.scan op outc (hist_of (init ns pl progs) sched) = Some L /\
            Lin.legal op outc sstate (spec_apply pl) s0 L.
Proof. exact hist_wf. Qed.
(* hence (Lin.scan_linearizes): there is a linearization - every completed call exactly once, records describing
   actual events, ordered by linearization point, real-time order respected - that is legal *)
Theorem do_linearizable_hw : forall ns pl progs sched,
  Lin.linearizable op outc sstate (spec_apply pl) s0 (hist_of (init ns pl progs) sched).
Proof. exact linearizable_hw. Qed.

(* the container changes only in steps of a thread that is acquiring or owns promiseLock *)
Theorem do_atomic_sections : forall t c g l g' l' es,
  tstep t c g l = Some (g', l', es) -> is_lock (at_ l) = false -> holds (at_ l) = false -> ct g' = ct g.
Proof. exact ct_changes_only_in_cs. Qed.
Theorem do_mutual_exclusion : forall ns pl progs s u u',
  R ns pl progs s -> holds (pcof (thr s) u) = true -> holds (pcof (thr s) u') = true -> u = u'.
Proof. exact mutual_exclusion. Qed.
Theorem do_section_owner : forall ns pl progs s u, R ns pl progs s ->
  (holds (pcof (thr s) u) = true <-> mtx (gl s) = Some u).
Proof. exact in_section_owns. Qed.

(* ---------- do_never_hangs ---------- *)
Theorem do_never_hangs : forall ns pl progs s h', R ns pl progs s ->
  destroy (ct (gl s)) = Some h' ->
  (forall q x, nth_error h' q = Some x -> cst x <> Unset) /\
  (forall u l i p, nth_error (thr s) u = Some l -> nth_error (slots l) i = Some (Some p) ->
     fut_ready h' (Some p) = 1).
Proof. exact never_hangs. Qed.

(* no method can block for ever (no proviso): the only blocking point is promiseLock, its owner can always
   take its next step - also in the middle of a copy loop and on the exception paths -, a state where
   nothing moves has every program finished, and every run makes at most mu moves
   (2N+6 per call, N = number of getFuture calls in the programs: the bound on the copy loops) *)
Theorem do_mutex_holder_moves : forall ns pl progs s a c, R ns pl progs s -> mtx (gl s) = Some a -> enabled glob loc tstep s a c.
Proof. exact holder_enabled. Qed.
Theorem do_blocks_only_on_mutex : forall ns pl progs s t c l,
  R ns pl progs s -> nth_error (thr s) t = Some l -> fin l = false -> tstep t c (gl s) l = None ->
  exists o a, at_ l = P_lock o /\ mtx (gl s) = Some a /\ a <> t /\ enabled glob loc tstep s a 0.
Proof. exact blocks_only_on_mutex. Qed.
Theorem do_deadlock_free : forall ns pl progs s, R ns pl progs s -> quiescent glob loc tstep s -> all_fin glob loc fin s = true.
Proof. exact quiescent_all_fin. Qed.
Theorem do_bounded_work : forall ns pl progs s sc, R ns pl progs s -> (moves glob loc tstep s sc <= mu (getfs progs) s)%nat.
Proof. exact bounded_work. Qed.

(* existence form: from every reachable state - whatever the throw plan, also from the middle of a copy loop or
   from an exception path - some schedule of at most mu(s) steps ends with every thread's program finished *)
Theorem do_eventually_finishes : forall ns pl progs s, R ns pl progs s ->
  exists sc, sched_ok any_choice sc /\ (length sc <= mu (getfs progs) s)%nat /\
             all_fin glob loc fin (run glob loc tstep s sc) = true.
Proof. exact eventually_finishes. Qed.

(* ---------- non-vacuity: the hypotheses are met by concrete reachable states ---------- *)
Definition t0 (n : nat) : list (nat * nat) := repeat (0, 0)%nat n.
Definition t1 (n : nat) : list (nat * nat) := repeat (1, 0)%nat n.
Definition runx ns pl progs sc := run glob loc tstep (init ns pl progs) sc.

(* thread 0 requests int key 1 (slot 0) and string key 1 (slot 1); thread 1 sets int key 1 (copy overload,
   the copy with index 0 throws), sets it again (copy 1 succeeds), sets it a third time, then fulfils *)
Definition ex_progs : list (list op) :=
  [[GetFuture false 1 0; GetFuture true 1 1; FutGet 0];
   [SetValue false false 1 111; SetValue false false 1 112; SetValue true false 1 113; FulfillAll 5113]].

(* thread 1 waits at its first copy, which will throw: hypotheses of do_set_exn_keeps_pending *)
Definition ex_s1 := runx 2 [0] ex_progs (t0 6 ++ t1 2).
Example ex_copy_will_throw :
  exists l, nth_error (thr ex_s1) 1 = Some l /\ at_ l = P_call (SetValue false false 1 111) /\
            throws (gl ex_s1) = true /\ mtx (gl ex_s1) = Some 1%nat /\
            exists r, tstep 1 0 (gl ex_s1) l = Some r.
Proof. vm_compute. eexists; repeat split. eexists; reflexivity. Qed.
(* after the throw and the unlock: key still pending, mutex free; the second set is at its copy, which succeeds *)
Definition ex_s2 := runx 2 [0] ex_progs (t0 6 ++ t1 6).
Example ex_still_pending_then_set :
  exists l, nth_error (thr ex_s2) 1 = Some l /\ at_ l = P_call (SetValue false false 1 112) /\
            throws (gl ex_s2) = false /\ afind 1 (pend (ct (gl ex_s2)) false) = Some 0%nat /\
            abs (ct (gl ex_s2)) false 1 = (true, false) /\ faulted (gl ex_s2) = false /\
            length (hist (gl ex_s2)) = 3%nat.
Proof. vm_compute. eexists; repeat split. Qed.
(* the third set (move overload) finds the key completed: do_noop *)
Definition ex_s3 := runx 2 [0] ex_progs (t0 6 ++ t1 9).
Example ex_third_set_is_noop :
  exists l, nth_error (thr ex_s3) 1 = Some l /\ at_ l = P_lock (SetValue true false 1 113) /\
            ahas 1 (pend (ct (gl ex_s3)) false) = false /\ abs (ct (gl ex_s3)) false 1 = (false, true) /\
            nth_error (heap (ct (gl ex_s3))) 0 = Some (Cell false 1 (SetV 112)).
Proof. vm_compute. eexists; repeat split. Qed.
(* inside fulfillAllPromises, at the copy for the string key: do_fulfill_step / do_fulfill_completes *)
Definition ex_s4 := runx 2 [0] ex_progs (t0 6 ++ t1 13).
Example ex_in_fulfill :
  exists l c0, nth_error (thr ex_s4) 1 = Some l /\ at_ l = P_ful 5113 true 1 1%nat [] c0 /\
               throws (gl ex_s4) = false /\ mtx (gl ex_s4) = Some 1%nat /\
               fut_get (heap (ct (gl ex_s4))) (Some 0%nat) = 112 /\ fut_get (heap (ct (gl ex_s4))) (Some 1%nat) = C_NOTREADY.
Proof. vm_compute. eexists _, _; repeat split. Qed.
Example ex_fulfill_done :
  let s := runx 2 [0] ex_progs (t0 6 ++ t1 14) in
  pcof (thr s) 1 = P_unlock (ORet 0) /\ fut_get (heap (ct (gl s))) (Some 1%nat) = 5113 /\
  pend (ct (gl s)) true = [] /\ faulted (gl s) = false.
Proof. vm_compute. repeat split. Qed.

(* a fulfillAllPromises whose FIRST copy throws: nothing happened *)
Example ex_fulfill_first_copy_throws :
  let s := runx 1 [0] [[GetFuture false 1 0; GetFuture true 2 0; FulfillAll 9]] (t0 10) in
  faulted (gl s) = false /\ calls (gl s) = 1 /\ mtx (gl s) = None /\
  length (pend (ct (gl s)) false) = 1%nat /\ length (pend (ct (gl s)) true) = 1%nat /\
  destroy (ct (gl s)) = Some [Cell false 1 (SetV 0); Cell true 2 (SetV 0)].
Proof. vm_compute. repeat split. Qed.

(* destruction with an outstanding future: requested once, still Unset, gets 0 *)
Definition ex_s5 := runx 1 [] [[GetFuture true 7 0]] (t0 3).
Example ex_default_at_destruction :
  nth_error (heap (ct (gl ex_s5))) 0 = Some (Cell true 7 Unset) /\
  requested_once (heap (ct (gl ex_s5))) 0 true 7 /\
  destroy (ct (gl ex_s5)) = Some [Cell true 7 (SetV 0)] /\
  all_fin glob loc fin ex_s5 = true.
Proof.
  vm_compute. repeat split.
  intros q' st' H. destruct q' as [|q']; [reflexivity|]. destruct q'; discriminate.
Qed.

(* re-request of a pending key breaks the first promise (modelled; outside "requested once") *)
Example ex_rerequest_breaks :
  let s := runx 2 [] [[GetFuture false 3 0; GetFuture false 3 1]] (t0 6) in
  nth_error (heap (ct (gl s))) 0 = Some (Cell false 3 Broken) /\
  nth_error (heap (ct (gl s))) 1 = Some (Cell false 3 Unset) /\ faulted (gl s) = false.
Proof. vm_compute. repeat split. Qed.

(* a thread blocked on promiseLock while another is in the middle of its copy loop *)
Example ex_blocked_on_mutex :
  let s := runx 1 [] [[GetFuture false 1 0; FulfillAll 5]; [IsCompleted false 0]] [(0,0);(0,0);(0,0);(0,0);(0,0);(1,0)]%nat in
  exists l, nth_error (thr s) 1 = Some l /\ fin l = false /\ tstep 1 0 (gl s) l = None /\ mtx (gl s) = Some 0%nat /\
            is_ful (pcof (thr s) 0) = true.
Proof. vm_compute. eexists; repeat split. Qed.

(* the program of do_never_twice_unfixed_refuted on the repaired header: the second copy throws, key 1 is
   completed (and only in the used map), key 2 is still pending; the later set of key 1 is a no-op, nothing
   faults, and destruction serves key 2 with the default value *)
Example ex_repaired_interrupted_fulfill :
  let s := runx 2 [1] bad_progs bad_sched in
  faulted (gl s) = false /\ all_fin glob loc fin s = true /\
  abs (ct (gl s)) false 1 = (false, true) /\ abs (ct (gl s)) false 2 = (true, false) /\
  fut_get (heap (ct (gl s))) (Some 0%nat) = 5000 /\ fut_get (heap (ct (gl s))) (Some 1%nat) = C_NOTREADY /\
  destroy (ct (gl s)) = Some [Cell false 1 (SetV 5000); Cell false 2 (SetV 0)].
Proof. vm_compute. repeat split. Qed.

(* a history with overlapping calls and a throwing copy: thread 1's setDelayedValue (its copy throws: OExn) overlaps
   thread 0's isCompleted, which is linearized after it and still answers 0; then fulfillAllPromises serves the key *)
Definition hw_progs : list (list op) :=
  [[GetFuture false 1 0; IsCompleted false 1]; [SetValue false false 1 7; FulfillAll 9]].
Definition hw_sched : list (nat * nat) :=
  [(0,0);(0,0);(0,0);(1,0);(0,0);(1,0);(1,0);(0,0);(1,0);(0,0);(0,0);(1,0);(1,0);(1,0);(1,0)]%nat.
Example ex_history :
  hist_of (init 1 [0] hw_progs) hw_sched =
  [Lin.Inv op outc 0 (GetFuture false 1 0); Lin.Lin op outc 0; Lin.Res op outc 0 (ORet 0);
   Lin.Inv op outc 1 (SetValue false false 1 7); Lin.Inv op outc 0 (IsCompleted false 1);
   Lin.Lin op outc 1; Lin.Res op outc 1 OExn; Lin.Lin op outc 0; Lin.Res op outc 0 (ORet 0);
   Lin.Inv op outc 1 (FulfillAll 9); Lin.Lin op outc 1; Lin.Res op outc 1 (ORet 0)] /\
  option_map (map (fun a => (Lin.o_thr op outc a, Lin.o_op op outc a, Lin.o_res op outc a)))
             (Lin.scan op outc (hist_of (init 1 [0] hw_progs) hw_sched)) =
  Some [(0%nat, GetFuture false 1 0, Some (2%nat, ORet 0)); (1%nat, SetValue false false 1 7, Some (6%nat, OExn));
        (0%nat, IsCompleted false 1, Some (8%nat, ORet 0)); (1%nat, FulfillAll 9, Some (11%nat, ORet 0))].
Proof. vm_compute. split; reflexivity. Qed.

(* do_eventually_finishes on a non-trivial state: thread 0 is inside fulfillAllPromises (at its copy, owning the
   lock), thread 1 is blocked on the lock; four more steps finish both, well within the measure *)
Example ex_eventually_finishes :
  let progs := [[GetFuture false 1 0; FulfillAll 5]; [IsCompleted false 0]] in
  let s := runx 1 [] progs [(0,0);(0,0);(0,0);(0,0);(0,0);(1,0)]%nat in
  let sc := [(0,0);(0,0);(1,0);(1,0)]%nat in
  is_ful (pcof (thr s) 0) = true /\ mtx (gl s) = Some 0%nat /\ is_lock (pcof (thr s) 1) = true /\
  all_fin glob loc fin s = false /\
  sched_ok any_choice sc /\ (length sc <= mu (getfs progs) s)%nat /\ mu (getfs progs) s = 9%nat /\
  all_fin glob loc fin (run glob loc tstep s sc) = true.
Proof. vm_compute. repeat split; try reflexivity; lia. Qed.
