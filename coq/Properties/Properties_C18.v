(* C18 - every DelayedObjects future is fulfilled exactly once and never hangs.
   Statements only; every proof is `exact <lemma>` into Proofs/DelayedObjectsProofs.v.
   All theorems quantify over the number of future slots per client, any number of threads with
   any programs over {getFuture, setDelayedValue (copy / move), fulfillAllPromises, isRecognized,
   isCompleted, finishedWithValue} x {int keys, string keys} plus the client-side observations
   {future ready?, future.get()}, and every schedule.

   Vocabulary: a promise cell  Cell kind key st  lives at index q of  heap (ct (gl s));  st is
   Unset | SetV v | Broken;  (kind, key) is what getFuture was called with.  pend / used are the
   four maps;  P_lock o = "method o waits for promiseLock",  P_unlock rv flt = "method body done,
   owns promiseLock, will return rv".  The body of a method runs in its lock step. *)
From Coq Require Import List Arith ZArith Lia Bool.
Import ListNotations.
From GV Require Import Sched Events DelayedObjectsModel DelayedObjectsProofs.
Local Open Scope Z_scope.

(* ---------- do_never_twice ---------- *)
(* No set_value ever hits a satisfied promise (no std::future_error), and: pending maps hold exactly the
   Unset promises, used maps only satisfied ones, keys are unique, a promise is Broken only by a later
   request of the same key (record CInv). *)
Theorem do_never_twice : forall ns progs s, R ns progs s -> faulted (gl s) = false /\ CInv (ct (gl s)).
Proof. exact never_twice. Qed.

Theorem do_no_fault_event : forall ns progs s t c l g' l' es,
  R ns progs s -> nth_error (thr s) t = Some l -> tstep t c (gl s) l = Some (g', l', es) -> ~ In fault_ev es.
Proof. exact no_fault_event. Qed.

(* a promise id is in at most one of the four maps, under one key *)
Theorem do_pid_one_map : forall c, CInv c -> forall q k1 key1 k2 key2,
  (In (key1, q) (pend c k1) \/ In (key1, q) (used c k1)) -> (In (key2, q) (pend c k2) \/ In (key2, q) (used c k2)) ->
  k1 = k2 /\ key1 = key2 /\ ~ (In (key1, q) (pend c k1) /\ In (key2, q) (used c k2)).
Proof. exact pid_one_map. Qed.

(* ---------- do_fulfilled_once: which value, and exactly once ---------- *)
(* (1) the critical section of setDelayedValue(key, v) that finds the key pending satisfies that key's
       promise - and no other - with v *)
Theorem do_set_wins : forall ns progs s t c l g' l' es mv k key v q,
  R ns progs s -> nth_error (thr s) t = Some l -> at_ l = P_lock (SetValue mv k key v) ->
  tstep t c (gl s) l = Some (g', l', es) -> afind key (pend (ct (gl s)) k) = Some q ->
  nth_error (heap (ct (gl s))) q = Some (Cell k key Unset) /\
  nth_error (heap (ct g')) q = Some (Cell k key (SetV v)) /\
  (forall q', q' <> q -> nth_error (heap (ct g')) q' = nth_error (heap (ct (gl s))) q') /\
  at_ l' = P_unlock 0 false.
Proof. exact set_wins. Qed.

(* (2) fulfillAllPromises(v) satisfies every promise that is still Unset with v, leaves all others alone,
       and empties the pending maps *)
Theorem do_fulfill_all : forall ns progs s t c l g' l' es v,
  R ns progs s -> nth_error (thr s) t = Some l -> at_ l = P_lock (FulfillAll v) ->
  tstep t c (gl s) l = Some (g', l', es) ->
  length (heap (ct g')) = length (heap (ct (gl s))) /\ (forall k, pend (ct g') k = []) /\
  (forall q k key st, nth_error (heap (ct (gl s))) q = Some (Cell k key st) ->
     nth_error (heap (ct g')) q = Some (Cell k key (settle v st))).
Proof. exact fulfill_all. Qed.

(* (3) ~DelayedObjects (from any reachable state) throws nothing, and gives X{} = 0 to whatever is still Unset *)
Theorem do_default_at_destruction : forall ns progs s, R ns progs s ->
  exists h', destroy (ct (gl s)) = Some h' /\ length h' = length (heap (ct (gl s))) /\
    (forall q k key st, nth_error (heap (ct (gl s))) q = Some (Cell k key st) ->
       nth_error h' q = Some (Cell k key (settle 0 st))).
Proof. exact destroyed. Qed.

(* (4) do_stable: once a promise is satisfied (or broken) it stays exactly so in every later state *)
Theorem do_stable : forall (s s' : sys glob loc) q k key st,
  reachable glob loc tstep s s' -> nth_error (heap (ct (gl s))) q = Some (Cell k key st) -> st <> Unset ->
  nth_error (heap (ct (gl s'))) q = Some (Cell k key st).
Proof. exact stable. Qed.

(* ... as seen by the client: a future that was ready stays ready and get() keeps returning the same *)
Theorem do_stable_observed : forall (s s' : sys glob loc) p, reachable glob loc tstep s s' ->
  fut_ready (heap (ct (gl s))) (Some p) = 1 ->
  fut_ready (heap (ct (gl s'))) (Some p) = 1 /\
  fut_get (heap (ct (gl s'))) (Some p) = fut_get (heap (ct (gl s))) (Some p).
Proof. exact stable_get. Qed.

(* (5) a key requested once: its promise is never broken, and after destruction it holds a value:
       the one it already had (by (1), (2), (4): the first set that found it pending, else the
       fulfil-all value), else 0 *)
Theorem do_fulfilled_once : forall ns progs s h' q k key st,
  R ns progs s -> destroy (ct (gl s)) = Some h' ->
  nth_error (heap (ct (gl s))) q = Some (Cell k key st) -> requested_once (heap (ct (gl s))) q k key ->
  st <> Broken /\ exists v, nth_error h' q = Some (Cell k key (SetV v)) /\ (st = SetV v \/ (st = Unset /\ v = 0)).
Proof. exact fulfilled_once. Qed.

(* (6) no value out of thin air: a satisfied promise holds a value passed to setDelayedValue for its own
       key, or to fulfillAllPromises, by a critical section in the history *)
Theorem do_value_provenance : forall ns progs s q k key v, R ns progs s ->
  nth_error (heap (ct (gl s))) q = Some (Cell k key (SetV v)) ->
  exists t rv, (exists mv, In (t, SetValue mv k key v, rv) (hist (gl s))) \/ In (t, FulfillAll v, rv) (hist (gl s)).
Proof. exact provenance. Qed.

(* every future held by a client refers to an existing promise (FutReady / FutGet never see "no state") *)
Theorem do_futures_valid : forall ns progs s u l i p, R ns progs s ->
  nth_error (thr s) u = Some l -> nth_error (slots l) i = Some (Some p) ->
  exists k key st, nth_error (heap (ct (gl s))) p = Some (Cell k key st).
Proof. exact slots_valid. Qed.

(* re-requesting a pending key is the only way a promise gets broken (outside the property: "requested once") *)
Theorem do_broken_only_by_rerequest : forall ns progs s q k key,
  R ns progs s -> nth_error (heap (ct (gl s))) q = Some (Cell k key Broken) ->
  exists q' st, (q < q')%nat /\ nth_error (heap (ct (gl s))) q' = Some (Cell k key st).
Proof. exact broken_only_by_rerequest. Qed.

(* ---------- do_noop ---------- *)
(* setDelayedValue for a key that is not pending (unknown, or already completed) leaves the whole
   container - maps and promises - unchanged and returns normally *)
Theorem do_noop : forall ns progs s t c l g' l' es mv k key v,
  R ns progs s -> nth_error (thr s) t = Some l -> at_ l = P_lock (SetValue mv k key v) ->
  tstep t c (gl s) l = Some (g', l', es) -> ahas key (pend (ct (gl s)) k) = false ->
  ct g' = ct (gl s) /\ at_ l' = P_unlock 0 false.
Proof. exact set_noop. Qed.

(* ---------- do_queries ---------- *)
(* abs c k key = (key in pending map, key in used map): Unknown (f,f), Pending (t,f), Completed (f,t).
   Every critical section moves every key as the sequential life-cycle specification abs_step says
   (getFuture: -> Pending; set: Pending -> Completed, else nothing; fulfil-all: Pending -> Completed for
   all keys; finishedWithValue: Completed -> Unknown), and the queries return
   isRecognized = Pending or Completed, isCompleted = Completed (abs_ret). *)
Theorem do_queries : forall ns progs s t c l g' l' es o,
  R ns progs s -> nth_error (thr s) t = Some l -> at_ l = P_lock o ->
  tstep t c (gl s) l = Some (g', l', es) ->
  (forall k key, abs (ct g') k key = abs_step o k key (abs (ct (gl s)) k key)) /\
  at_ l' = P_unlock (abs_ret o (ct (gl s))) false.
Proof. exact queries. Qed.

(* the value computed in the critical section is the one the call returns (K_RET event of the unlock step) *)
Theorem do_query_returns : forall t c g l g' l' es rv flt,
  tstep t c g l = Some (g', l', es) -> at_ l = P_unlock rv flt ->
  In (E K_RET 0 rv) es /\ at_ l' = Idle /\ ct g' = ct g /\ mtx g' = None.
Proof. exact ret_value. Qed.

(* Pending <-> the key has an unsatisfied promise; Completed -> the used map holds a satisfied one *)
Theorem do_life_pending : forall c k key, CInv c ->
  (fst (abs c k key) = true <-> exists q, nth_error (heap c) q = Some (Cell k key Unset)).
Proof. exact abs_pending. Qed.
Theorem do_life_completed : forall c k key, CInv c -> snd (abs c k key) = true ->
  exists q v, afind key (used c k) = Some q /\ nth_error (heap c) q = Some (Cell k key (SetV v)).
Proof. exact abs_completed. Qed.
(* the fourth combination (t,t) needs two requests of the key *)
Theorem do_life_both_only_rerequested : forall ns progs s k key, R ns progs s -> abs (ct (gl s)) k key = (true, true) ->
  exists q q' st st', q <> q' /\ nth_error (heap (ct (gl s))) q = Some (Cell k key st) /\
                      nth_error (heap (ct (gl s))) q' = Some (Cell k key st').
Proof. exact both_only_rerequested. Qed.

(* ---------- do_linearizable / atomic sections ---------- *)
(* the container is what the sequential bodies give when run one after the other in the order of the
   lock steps, and every logged return value is the one the sequential body returns *)
Theorem do_linearizable : forall ns progs s, R ns progs s -> replay (hist (gl s)) cont0 = Some (ct (gl s)).
Proof. exact linearizable. Qed.
(* the history entry of a call is appended by its lock step - between its invoke and its return - with
   the value it returns; no other step touches the history *)
Theorem do_lin_point : forall t c g l g' l' es, tstep t c g l = Some (g', l', es) ->
  match at_ l with
  | P_lock o => exists rv flt, hist g' = hist g ++ [(t, o, rv)] /\ at_ l' = P_unlock rv flt /\
                               mtx g = None /\ mtx g' = Some t
  | _ => hist g' = hist g
  end.
Proof. exact lin_point. Qed.
(* the container changes only in lock steps, i.e. only while the mutex is being acquired by the caller *)
Theorem do_atomic_sections : forall t c g l g' l' es,
  tstep t c g l = Some (g', l', es) -> is_lock (at_ l) = false -> ct g' = ct g.
Proof. exact ct_changes_only_in_cs. Qed.
Theorem do_mutual_exclusion : forall ns progs s u u',
  R ns progs s -> is_unlock (pcof (thr s) u) = true -> is_unlock (pcof (thr s) u') = true -> u = u'.
Proof. exact mutual_exclusion. Qed.
Theorem do_section_owner : forall ns progs s u, R ns progs s ->
  (is_unlock (pcof (thr s) u) = true <-> mtx (gl s) = Some u).
Proof. exact in_section_owns. Qed.

(* ---------- do_never_hangs ---------- *)
(* after the destruction no promise at all is Unset, and every future a client holds is ready *)
Theorem do_never_hangs : forall ns progs s h', R ns progs s -> destroy (ct (gl s)) = Some h' ->
  (forall q x, nth_error h' q = Some x -> cst x <> Unset) /\
  (forall u l i p, nth_error (thr s) u = Some l -> nth_error (slots l) i = Some (Some p) ->
     fut_ready h' (Some p) = 1).
Proof. exact never_hangs. Qed.

(* no method of the class can block for ever: the only blocking point is promiseLock, its owner can
   always take its next step (the unlock), a state where nothing moves has every program finished,
   and every run takes at most mu(s) = 3 steps per outstanding call *)
Theorem do_mutex_holder_moves : forall ns progs s a c, R ns progs s -> mtx (gl s) = Some a -> enabled glob loc tstep s a c.
Proof. exact holder_enabled. Qed.
Theorem do_blocks_only_on_mutex : forall ns progs s t c l,
  R ns progs s -> nth_error (thr s) t = Some l -> fin l = false -> tstep t c (gl s) l = None ->
  exists o a, at_ l = P_lock o /\ mtx (gl s) = Some a /\ a <> t /\ enabled glob loc tstep s a 0.
Proof. exact blocks_only_on_mutex. Qed.
Theorem do_deadlock_free : forall ns progs s, R ns progs s -> quiescent glob loc tstep s -> all_fin glob loc fin s = true.
Proof. exact quiescent_all_fin. Qed.
Theorem do_bounded_work : forall ns progs s sc, R ns progs s -> (moves glob loc tstep s sc <= mu s)%nat.
Proof. exact bounded_work. Qed.

(* ---------- non-vacuity: the hypotheses are met by concrete reachable states ---------- *)
(* thread 0 requests int key 1 (slot 0) and string key 1 (slot 1); thread 1 sets int key 1 twice and fulfils *)
Definition ex_progs : list (list op) :=
  [[GetFuture false 1 0; GetFuture true 1 1; FutGet 0];
   [SetValue false false 1 111; SetValue true false 1 112; FulfillAll 5113]].
Definition t0 (n : nat) : list (nat * nat) := repeat (0, 0)%nat n.
Definition t1 (n : nat) : list (nat * nat) := repeat (1, 0)%nat n.
(* both futures requested; thread 1 has invoked its first set and waits for the lock *)
Definition ex_s1 := run glob loc tstep (init 2 ex_progs) (t0 6 ++ t1 1).

Example ex_set_finds_pending :
  exists l, nth_error (thr ex_s1) 1 = Some l /\ at_ l = P_lock (SetValue false false 1 111) /\
            afind 1 (pend (ct (gl ex_s1)) false) = Some 0%nat /\ exists r, tstep 1 0 (gl ex_s1) l = Some r.
Proof. vm_compute. eexists; repeat split. eexists; reflexivity. Qed.

(* after the first set: the second set finds the key completed (do_noop's hypothesis) *)
Definition ex_s2 := run glob loc tstep ex_s1 (t1 3).
Example ex_second_set_is_noop :
  exists l, nth_error (thr ex_s2) 1 = Some l /\ at_ l = P_lock (SetValue true false 1 112) /\
            ahas 1 (pend (ct (gl ex_s2)) false) = false /\ abs (ct (gl ex_s2)) false 1 = (false, true) /\
            nth_error (heap (ct (gl ex_s2))) 0 = Some (Cell false 1 (SetV 111)).
Proof. vm_compute. eexists; repeat split. Qed.

(* thread 1 inside the critical section of fulfillAllPromises: it owns the lock; the client already sees 111 *)
Definition ex_s3 := run glob loc tstep ex_s2 (t1 4).
Example ex_in_section :
  is_unlock (pcof (thr ex_s3) 1) = true /\ mtx (gl ex_s3) = Some 1%nat /\
  nth_error (heap (ct (gl ex_s3))) 1 = Some (Cell true 1 (SetV 5113)) /\
  fut_get (heap (ct (gl ex_s3))) (Some 0%nat) = 111 /\ length (hist (gl ex_s3)) = 5%nat.
Proof. vm_compute. repeat split. Qed.

(* destruction with an outstanding future: requested once, still Unset, gets 0 *)
Definition ex_s4 := run glob loc tstep (init 1 [[GetFuture true 7 0]]) (t0 3).
Example ex_default_at_destruction :
  nth_error (heap (ct (gl ex_s4))) 0 = Some (Cell true 7 Unset) /\
  requested_once (heap (ct (gl ex_s4))) 0 true 7 /\
  destroy (ct (gl ex_s4)) = Some [Cell true 7 (SetV 0)] /\
  all_fin glob loc fin ex_s4 = true.
Proof.
  vm_compute. repeat split. intros q' st' H. destruct q' as [|q']; [reflexivity|]. destruct q'; discriminate.
Qed.

(* re-request of a pending key breaks the first promise (modelled; outside "requested once") *)
Example ex_rerequest_breaks :
  let s := run glob loc tstep (init 2 [[GetFuture false 3 0; GetFuture false 3 1]]) (t0 6) in
  nth_error (heap (ct (gl s))) 0 = Some (Cell false 3 Broken) /\
  nth_error (heap (ct (gl s))) 1 = Some (Cell false 3 Unset) /\ faulted (gl s) = false.
Proof. vm_compute. repeat split. Qed.

(* a thread blocked on promiseLock: the situation do_blocks_only_on_mutex speaks about *)
Example ex_blocked_on_mutex :
  let s := run glob loc tstep (init 1 [[FulfillAll 5]; [IsCompleted false 0]]) [(0,0);(0,0);(1,0)]%nat in
  exists l, nth_error (thr s) 1 = Some l /\ fin l = false /\ tstep 1 0 (gl s) l = None /\ mtx (gl s) = Some 0%nat.
Proof. vm_compute. eexists; repeat split. Qed.
