From Coq Require Import List Arith ZArith Lia Bool.
Import ListNotations.
From GV Require Import Sched Events TriggerModel TriggerProofs.
Local Open Scope Z_scope.
Theorem tv_placeholder : True. Proof. exact placeholder. Qed.
