(* C11 - TriggerVariable waits end only on their event, and the event wakes them.
   Statements only; every proof is `exact <lemma>` into Proofs/TriggerProofs.v.
   All theorems quantify over the constructor's `active` flag a0, any number of threads with any programs
   over the nine API operations, and every schedule (spurious wake-ups = choice 1, time-outs = choice 2).

   Ghost vocabulary (Model/TriggerModel.v): every step has a stamp (the value of the global step counter
   [now]); clear_stamp / trig_stamp / act_stamp / deact_stamp are the stamps of the last triggered=false /
   triggered=true / activated=true / activated=false store; act_clear is the stamp of the triggered=false
   store made by the activate() call that made the last activated=true store; rexit_stamp is the stamp of
   the last load of triggered=true that ended the loop of a reset(); per thread, sclr is the value of
   act_clear at the step where its wait()/wait_for() read activated = true, fslp / slp are the stamps of the
   first / latest cv sleep of its current call. *)
From Coq Require Import List Arith ZArith Lia Bool.
Import ListNotations.
From GV Require Import Sched Events TriggerModel TriggerProofs.

(* ------------------------------------------------------------------ safety *)

(* wait() / wait_for() returning true: either the returning step itself read activated = false (the variable
   was inactive), or triggered is true at the return and the last triggered=true store lies after the last
   triggered=false store, which is not older than the clear of the activation this call observed:
   a trigger() or reset() followed that activation. *)
Theorem tv_wait_safe : forall a0 progs s t c l g' l' es,
  R a0 progs s -> nth_error (thr s) t = Some l ->
  cur_op (at_ l) = Some Wait \/ cur_op (at_ l) = Some WaitFor ->
  tstep t c (gl s) l = Some (g', l', es) -> In (ret_ev 1%Z) es ->
  (activated (gl s) = false /\ exists tm, at_ l = W_load tm) \/
  (triggered (gl s) = true /\ sclr l <= clear_stamp (gl s) /\
   clear_stamp (gl s) < trig_stamp (gl s) /\ trig_stamp (gl s) < now (gl s)).
Proof. exact wait_safe. Qed.

(* what sclr is: the step of wait()/wait_for() that reads activated = true records the clear stamp of the
   activation it read *)
Theorem tv_wait_observes : forall t c g l g' l' es tm,
  at_ l = W_load tm -> activated g = true -> tstep t c g l = Some (g', l', es) ->
  at_ l' = W_lock tm /\ sclr l' = act_clear g.
Proof. exact wait_observes. Qed.

(* ... and that clear really precedes the activated=true store of the same activate() call; triggered is true
   exactly when the last triggered=true store is younger than the last clear *)
Theorem tv_stamps : forall a0 progs s, R a0 progs s ->
  act_clear (gl s) <= clear_stamp (gl s) /\
  (0 < act_stamp (gl s) -> 0 < act_clear (gl s) < act_stamp (gl s)) /\
  (act_stamp (gl s) = 0 -> act_clear (gl s) = 0 /\ nact (gl s) = 0) /\
  (triggered (gl s) = true <-> clear_stamp (gl s) < trig_stamp (gl s)).
Proof. exact act_clear_facts. Qed.

(* waitActivation() returns, and wait_forActivation() returns true, only with activated = true at the moment of
   the return (so an activated=true store, or the constructor, precedes); wait_forActivation() returns false
   only with activated = false at that moment (tv_timed_false, activation side); waitActivation() never gives up *)
Theorem tv_waitActivation_safe : forall a0 progs s t c l g' l' es v,
  R a0 progs s -> nth_error (thr s) t = Some l ->
  cur_op (at_ l) = Some WaitActivation \/ cur_op (at_ l) = Some WaitForActivation ->
  tstep t c (gl s) l = Some (g', l', es) -> In (ret_ev v) es ->
  exists tm r, at_ l = V_unlock tm r /\ v = v_ret tm r /\ activated (gl s) = r /\
               (r = false -> tm = true /\ (act_stamp (gl s) = 0 \/ act_stamp (gl s) < deact_stamp (gl s))) /\
               (r = true -> 0 < act_stamp (gl s) \/ a0 = true).
Proof. exact waitActivation_safe. Qed.

(* wait_for() returns false only with triggered = false at the moment of the return: no trigger store since the
   last clear; wait() never returns false *)
Theorem tv_timed_false : forall a0 progs s t c l g' l' es,
  R a0 progs s -> nth_error (thr s) t = Some l ->
  cur_op (at_ l) = Some Wait \/ cur_op (at_ l) = Some WaitFor ->
  tstep t c (gl s) l = Some (g', l', es) -> In (ret_ev 0%Z) es ->
  cur_op (at_ l) = Some WaitFor /\ triggered (gl s) = false /\
  (trig_stamp (gl s) = 0 \/ trig_stamp (gl s) < clear_stamp (gl s)).
Proof. exact timed_false. Qed.

(* trigger() returns false exactly when its (single) load reads activated = false; that call consists of this
   one step, which changes nothing but the ghost clock *)
Theorem tv_trigger_inactive : forall t c g l g' l' es,
  cur_op (at_ l) = Some Trigger -> tstep t c g l = Some (g', l', es) ->
  (In (ret_ev 0%Z) es <-> at_ l = T_load Top /\ activated g = false) /\
  (In (ret_ev 0%Z) es -> g' = tick g /\ at_ l' = Idle /\ es = [ESC K_LOAD O_ACT 0%Z; ret_ev 0%Z]) /\
  (In (ret_ev 1%Z) es -> at_ l = T_unlock Top).
Proof. exact trigger_inactive. Qed.

(* activate() returns false exactly when its (single) load reads activated = true; that call consists of this one
   step, which changes nothing but the ghost clock: a refused activate() does not clear `triggered` *)
Theorem tv_refused_activate_noop : forall t c g l g' l' es,
  cur_op (at_ l) = Some Activate -> tstep t c g l = Some (g', l', es) ->
  (In (ret_ev 0%Z) es <-> at_ l = A_load /\ activated g = true) /\
  (In (ret_ev 0%Z) es -> g' = tick g /\ at_ l' = Idle /\ es = [ESC K_LOAD O_ACT 1%Z; ret_ev 0%Z]) /\
  (In (ret_ev 1%Z) es -> at_ l = A_unlockA).
Proof. exact refused_activate_noop. Qed.

(* the variable is inactive at the moment reset() returns.  No proviso is needed for this instant: the only
   activated=true store is made under activeLock, which the returning reset() still owns.  (A concurrent
   activate() that is already past its own check can of course re-activate right afterwards.) *)
Theorem tv_reset_inactive : forall a0 progs s t c l g' l' es v,
  R a0 progs s -> nth_error (thr s) t = Some l -> cur_op (at_ l) = Some Reset ->
  tstep t c (gl s) l = Some (g', l', es) -> In (ret_ev v) es ->
  at_ l = R_unlock /\ activated (gl s) = false /\ activated g' = false.
Proof. exact reset_inactive. Qed.

(* ------------------------------------------------------------------ liveness *)

(* no lost wake-up, every reachable state: a sleeper on cv_trigger still un-notified although triggered is true,
   or although a triggered=true store (by trigger() or by the trigger() inside reset()) or a reset loop exit
   happened since it went to sleep, has its notifier standing right before notify_all with triggerLock held,
   and that thread can move *)
Theorem tv_wake_pending_trigger : forall a0 progs s u,
  R a0 progs s -> In u (slT (gl s)) ->
  triggered (gl s) = true \/ slp (locof (thr s) u) <= trig_stamp (gl s) \/ slp (locof (thr s) u) <= rexit_stamp (gl s) ->
  exists a, mT (gl s) = Some a /\ is_Tnotify (pcof (thr s) a) = true /\ enabled glob loc tstep s a 0.
Proof. exact wake_pending_T. Qed.

Theorem tv_wake_pending_activate : forall a0 progs s u,
  R a0 progs s -> In u (slA (gl s)) ->
  activated (gl s) = true \/ slp (locof (thr s) u) <= act_stamp (gl s) ->
  exists a, mA (gl s) = Some a /\ is_Anotify (pcof (thr s) a) = true /\ enabled glob loc tstep s a 0.
Proof. exact wake_pending_A. Qed.

(* a notified sleeper is not stuck: it can re-acquire its mutex, or the owner of that mutex can move *)
Theorem tv_notified_moves : forall a0 progs s t l tm,
  R a0 progs s -> nth_error (thr s) t = Some l ->
  (at_ l = W_woken tm /\ ~ In t (slT (gl s))) \/ (at_ l = V_woken tm /\ ~ In t (slA (gl s))) ->
  exists b, enabled glob loc tstep s b 0.
Proof. exact notified_moves. Qed.

Theorem tv_mutex_holder_moves_T : forall a0 progs s a c,
  R a0 progs s -> mT (gl s) = Some a -> enabled glob loc tstep s a c.
Proof. exact holderT_enabled. Qed.
Theorem tv_mutex_holder_moves_A : forall a0 progs s a c,
  R a0 progs s -> mA (gl s) = Some a -> enabled glob loc tstep s a c.
Proof. exact holderA_enabled. Qed.

(* activate(), trigger(), reset(), isTriggered(), isActive() never wait for an event: a thread that cannot move
   is finished, waits for a mutex whose owner can move, or sleeps un-notified inside one of the four waits *)
Theorem tv_blocking_shape : forall a0 progs s t l,
  R a0 progs s -> nth_error (thr s) t = Some l -> tstep t 0 (gl s) l = None ->
  fin l = true \/
  (exists a, (mT (gl s) = Some a \/ mA (gl s) = Some a) /\ a <> t /\ enabled glob loc tstep s a 0) \/
  (is_Wwoken (at_ l) = true /\ In t (slT (gl s))) \/ (is_Vwoken (at_ l) = true /\ In t (slA (gl s))).
Proof. exact disabled_shape. Qed.

(* when nothing can move any more (except by a spurious wake-up), every thread has finished, or sleeps in wait()
   with triggered = false and no triggered=true store and no reset loop exit since it went to sleep, or sleeps in
   waitActivation() with activated = false and no activated=true store since it went to sleep *)
Theorem tv_deadlock_shape : forall a0 progs s t l,
  R a0 progs s -> quiescent glob loc tstep s -> nth_error (thr s) t = Some l ->
  fin l = true \/
  (at_ l = W_woken false /\ In t (slT (gl s)) /\ triggered (gl s) = false /\
   trig_stamp (gl s) < slp l /\ rexit_stamp (gl s) < slp l) \/
  (at_ l = V_woken false /\ In t (slA (gl s)) /\ activated (gl s) = false /\ act_stamp (gl s) < slp l).
Proof. exact quiescent_shape. Qed.

(* trigger() / reset() release the threads blocked in wait(), with the property's proviso made explicit:
   if a thread is still blocked in wait() when nothing moves, then every triggered=true store made after it first
   went to sleep - by a trigger() or forced by a reset() - and every reset() loop exit after that point, was
   followed by a triggered=false store: the variable was re-activated while the thread was still blocked. *)
Theorem tv_no_lost_wakeup_trigger : forall a0 progs s t l,
  R a0 progs s -> quiescent glob loc tstep s -> nth_error (thr s) t = Some l -> is_Wwoken (at_ l) = true ->
  0 < fslp l /\
  (fslp l < trig_stamp (gl s) -> trig_stamp (gl s) < clear_stamp (gl s)) /\
  (fslp l < rexit_stamp (gl s) -> rexit_stamp (gl s) < clear_stamp (gl s)).
Proof. exact no_lost_wakeup_trigger. Qed.
(* the reset() half on its own: a reset() that found (or made) triggered = true after the thread first went to sleep
   was followed by a re-activation's clear; tv_reset_exit says what such a loop exit is *)
Theorem tv_no_lost_wakeup_reset : forall a0 progs s t l,
  R a0 progs s -> quiescent glob loc tstep s -> nth_error (thr s) t = Some l -> is_Wwoken (at_ l) = true ->
  fslp l < rexit_stamp (gl s) -> rexit_stamp (gl s) < clear_stamp (gl s).
Proof. exact no_lost_wakeup_reset. Qed.
Theorem tv_reset_exit : forall t c g l g' l' es,
  at_ l = R_loop -> tstep t c g l = Some (g', l', es) ->
  (triggered g = true -> at_ l' = R_store /\ rexit_stamp g' = now g) /\
  (triggered g = false -> at_ l' = R_unl /\ rexit_stamp g' = rexit_stamp g).
Proof. exact reset_exit_step. Qed.

(* the same as "every waiter has returned": without a re-activation since the trigger (triggered still true),
   a state in which nothing moves has no thread inside wait() / wait_for() *)
Theorem tv_trigger_releases : forall a0 progs s t l,
  R a0 progs s -> quiescent glob loc tstep s -> triggered (gl s) = true -> nth_error (thr s) t = Some l ->
  cur_op (at_ l) <> Some Wait /\ cur_op (at_ l) <> Some WaitFor.
Proof. exact trigger_releases. Qed.

(* activate() releases the threads blocked in waitActivation() PROVIDED NO reset() DEACTIVATES THE VARIABLE BEFORE
   THEY HAVE RE-TESTED IT: a thread still blocked when nothing moves, although an activated=true store was made
   after it first went to sleep, has seen that activation undone by a later activated=false store.
   This proviso is NOT in the property's statement (which only excludes re-activation) and it is needed;
   the violation of the statement as written is recorded as an OPEN entry of /verif/known_findings.json
   (property C11, monitor trigger.activate_lost_to_reset, reproducer corpus/C11/trigger_windows.case case 0):

   Theorem tv_no_lost_wakeup_activate (as the property states it, FALSE for the code):
     R a0 progs s -> quiescent s -> is_Vwoken (at_ l) = true -> fslp l < act_stamp (gl s) -> nact (gl s) > 1

   see tv_no_lost_wakeup_activate_refuted below. *)
Theorem tv_no_lost_wakeup_activate_partial : forall a0 progs s t l,
  R a0 progs s -> quiescent glob loc tstep s -> nth_error (thr s) t = Some l -> is_Vwoken (at_ l) = true ->
  0 < fslp l /\ (fslp l < act_stamp (gl s) -> act_stamp (gl s) < deact_stamp (gl s)).
Proof. exact no_lost_wakeup_activate. Qed.

Theorem tv_activate_releases : forall a0 progs s t l,
  R a0 progs s -> quiescent glob loc tstep s -> activated (gl s) = true -> nth_error (thr s) t = Some l ->
  cur_op (at_ l) <> Some WaitActivation /\ cur_op (at_ l) <> Some WaitForActivation.
Proof. exact activate_releases. Qed.

(* witness: [[waitActivation]; [activate; reset]]: the waiter sleeps, the other thread activates (returns true) and
   resets, the waiter wakes, finds activated = false and sleeps for ever; exactly one activation ever happened *)
Theorem tv_no_lost_wakeup_activate_refuted :
  exists a0 progs sched t l,
    let s := run glob loc tstep (init a0 progs) sched in
    quiescent glob loc tstep s /\ nth_error (thr s) t = Some l /\ at_ l = V_woken false /\ In t (slA (gl s)) /\
    0 < fslp l /\ fslp l < act_stamp (gl s) /\ nact (gl s) = 1 /\ activated (gl s) = false.
Proof. exact activate_release_unconditional_refuted. Qed.

(* bounded work (P2), for programs WITHOUT reset(): every schedule without spurious wake-ups (time-outs allowed)
   makes at most mu(s) moves, so together with tv_deadlock_shape every such run ends in a state of the stated shape.

   Theorem tv_bounded_work (full strength, FALSE for the code): the same for all programs.
   reset() busy-waits - `while (!triggered) { unlock; trigger(); lock; }` - for as long as a concurrent
   activate() sits between its `triggered = false` and its `activated = true` (tv_reset_spins: four steps of the
   resetter lead back to the same visible state while the activator is enabled); it ends as soon as the
   activator is scheduled, so this is a limit of the measure argument, not a lost wake-up. *)
Theorem tv_bounded_work_partial : forall a0 progs s sc,
  RP a0 progs s -> sched_ok no_spurious sc -> moves glob loc tstep s sc <= mu s.
Proof. exact bounded_work. Qed.

Theorem tv_reset_spins :
  same_visible spin_state (run glob loc tstep spin_state (repeat (0, 0) 4)) /\
  moves glob loc tstep spin_state (repeat (0, 0) 4) = 4 /\
  pcof (thr spin_state) 0 = T_load InReset /\ pcof (thr spin_state) 1 = A_lockA /\
  enabled glob loc tstep spin_state 1 0.
Proof. exact reset_spins. Qed.

(* existence form of termination, for programs WITHOUT reset() only (the open known finding "activate lost to reset"
   and the reset() spin are outside these two theorems by hypothesis).
   (a) from every reachable state of a reset-free program there is a schedule of at most mu(s) steps, none of them a
       spurious wake-up (time-outs allowed), that ends in a state where nothing can move - whose shape is tv_deadlock_shape *)
Theorem tv_eventually_settles : forall a0 progs s, RP a0 progs s ->
  exists sc, sched_ok no_spurious sc /\ length sc <= mu s /\ quiescent glob loc tstep (run glob loc tstep s sc).
Proof. exact eventually_settles. Qed.

(* (b) ... and in that state every thread has finished - every wait has returned - when the programs have a driver d
   ([wf_finish a0 progs d], decidable): d is the only thread that calls activate(), nobody calls reset(), d itself never
   calls the untimed wait() / waitActivation(), and the sequential effect of d's program on (activated, triggered),
   started from (a0, false), is (true, true): d activates (or the variable is constructed active) and calls trigger()
   after its last effective activation.  All other threads may wait, wait_for, waitActivation, wait_forActivation,
   trigger, isTriggered, isActive in any number and order. *)
Theorem tv_eventually_finishes : forall a0 progs d s,
  wf_finish a0 progs d = true -> R a0 progs s ->
  exists sc, sched_ok no_spurious sc /\ length sc <= mu s /\ all_fin glob loc fin (run glob loc tstep s sc) = true.
Proof. exact eventually_finishes. Qed.

(* the quiescent states of such programs: both flags true, everybody finished *)
Theorem tv_driver_quiescent_finished : forall a0 progs d s,
  wf_finish a0 progs d = true -> R a0 progs s -> quiescent glob loc tstep s ->
  activated (gl s) = true /\ triggered (gl s) = true /\ all_fin glob loc fin s = true.
Proof. exact driver_quiescent_finished. Qed.

(* ------------------------------------------------------------------ non-vacuity *)
Notation runT := (run glob loc tstep).

(* activate; trigger on thread 0, a waiter on thread 1 that sleeps before the trigger and is about to return *)
Definition ex_progs := [[Activate; Trigger]; [Wait]].
Definition ex_sched : list (nat * nat) := repeat (0, 0) 9 ++ repeat (1, 0) 6 ++ repeat (0, 0) 6 ++ repeat (1, 0) 2.
Definition ex_state := runT (init false ex_progs) ex_sched.
Example ex_wait_returns :
  exists l, nth_error (thr ex_state) 1 = Some l /\ cur_op (at_ l) = Some Wait /\
            (exists r, tstep 1 0 (gl ex_state) l = Some r /\ In (ret_ev 1%Z) (snd r)) /\
            0 < sclr l /\ sclr l = clear_stamp (gl ex_state) /\ fslp l < trig_stamp (gl ex_state).
Proof. vm_compute. eexists. split; [reflexivity|]. split; [reflexivity|]. split; [eexists; split; [reflexivity|cbn; auto]|lia]. Qed.

(* the sleeping waiter in the middle of that run: un-notified, triggered false *)
Example ex_sleeper :
  let s := runT (init false ex_progs) (repeat (0, 0) 9 ++ repeat (1, 0) 6) in
  In 1 (slT (gl s)) /\ triggered (gl s) = false /\ is_Wwoken (pcof (thr s) 1) = true.
Proof. vm_compute. auto. Qed.

(* wait_for on an active, untriggered variable: the time-out fires and the call is about to return false *)
Example ex_timed_false :
  let s := runT (init true [[WaitFor]]) (repeat (0, 0) 6 ++ [(0, 2); (0, 0); (0, 0)]) in
  exists l, nth_error (thr s) 0 = Some l /\ cur_op (at_ l) = Some WaitFor /\
            exists r, tstep 0 0 (gl s) l = Some r /\ In (ret_ev 0%Z) (snd r).
Proof. vm_compute. eexists. split; [reflexivity|]. split; [reflexivity|]. eexists; split; [reflexivity|cbn; auto]. Qed.

(* a time-out that races with trigger(): thread 1 owns triggerLock (between its lock and its store) when thread 0's
   time-out fires; thread 0 re-acquires the mutex only after the store + notify + unlock, re-evaluates the predicate,
   finds triggered = true and returns TRUE although its wake-up was a time-out.  (This is why tv_timed_false needs the
   re-evaluation under the lock: a wait_for that returned false as soon as the time-out is reported would return false
   here although the trigger happened before it gave up - seeded/C11-3.) *)
Example ex_timeout_then_true :
  let s := runT (init true [[WaitFor]; [Trigger]])
                (repeat (0, 0) 6 ++ repeat (1, 0) 3 ++ [(0, 2)] ++ repeat (1, 0) 3 ++ [(0, 0)]) in
  pcof (thr s) 0 = W_final /\ triggered (gl s) = true /\ mT (gl s) = Some 0 /\
  let s' := runT s [(0, 0)] in
  exists l, nth_error (thr s') 0 = Some l /\ at_ l = W_unlock true true /\
            exists r, tstep 0 0 (gl s') l = Some r /\ In (ret_ev 1%Z) (snd r).
Proof.
  vm_compute. repeat split; auto. eexists. split; [reflexivity|]. split; [reflexivity|].
  eexists; split; [reflexivity|cbn; auto].
Qed.

(* waitActivation released by activate *)
Example ex_waitActivation_returns :
  let s := runT (init false [[WaitActivation]; [Activate]]) (repeat (0, 0) 5 ++ repeat (1, 0) 9 ++ repeat (0, 0) 2) in
  exists l, nth_error (thr s) 0 = Some l /\ at_ l = V_unlock false true /\ activated (gl s) = true /\
            exists r, tstep 0 0 (gl s) l = Some r /\ In (ret_ev 0%Z) (snd r).
Proof. vm_compute. eexists. split; [reflexivity|]. split; [reflexivity|]. split; [reflexivity|]. eexists; split; [reflexivity|cbn; auto]. Qed.

(* reset() on an active, untriggered variable forces the trigger and is about to return with the variable inactive *)
Example ex_reset_returns :
  let s := runT (init true [[Reset]]) (repeat (0, 0) 13) in
  exists l, nth_error (thr s) 0 = Some l /\ at_ l = R_unlock /\ activated (gl s) = false /\ triggered (gl s) = true /\
            0 < rexit_stamp (gl s).
Proof. vm_compute. eexists. split; [reflexivity|]. repeat split; auto. lia. Qed.

(* trigger() on an inactive variable *)
Example ex_trigger_inactive :
  let s := runT (init false [[Trigger]]) [(0, 0)] in
  exists l r, nth_error (thr s) 0 = Some l /\ tstep 0 0 (gl s) l = Some r /\ In (ret_ev 0%Z) (snd r).
Proof. vm_compute. eexists; eexists. split; [reflexivity|]. split; [reflexivity|cbn; auto]. Qed.

(* the proviso of tv_no_lost_wakeup_trigger is met by a reachable deadlock: a concurrent second activate() (thread 0,
   which read activated = false before thread 1 activated) clears triggered after thread 3's successful trigger();
   the waiter (thread 2) is woken, finds triggered = false and sleeps for ever *)
Definition ex2_progs := [[Activate]; [Activate]; [Wait]; [Trigger]].
Definition ex2_sched : list (nat * nat) :=
  repeat (0, 0) 2 ++ repeat (1, 0) 9 ++ repeat (2, 0) 6 ++ repeat (3, 0) 6 ++ repeat (0, 0) 7 ++ repeat (2, 0) 3.
Example ex_reactivated_while_blocked :
  let s := runT (init false ex2_progs) ex2_sched in
  quiescent glob loc tstep s /\
  exists l, nth_error (thr s) 2 = Some l /\ is_Wwoken (at_ l) = true /\
            fslp l < trig_stamp (gl s) /\ trig_stamp (gl s) < clear_stamp (gl s) /\ nact (gl s) = 2.
Proof.
  cbn zeta. split; [apply qcheck_quiescent; vm_compute; reflexivity|].
  vm_compute. eexists. split; [reflexivity|]. repeat split; auto; lia.
Qed.

(* a reset-free program in the middle of its run: the hypotheses of tv_bounded_work_partial *)
Example ex_bounded_work : RP false ex_progs ex_state /\ mu ex_state = 1.
Proof. split; [split; [reflexivity|exists ex_sched; reflexivity]|vm_compute; reflexivity]. Qed.

(* wf_finish: a non-trivial program set satisfies it; it is false when the driver triggers before it activates, when
   a second thread activates too, when the driver itself blocks in an untimed wait, when somebody resets *)
Definition fin_progs : list (list op) :=
  [[Wait; WaitActivation; Wait; IsTriggered];
   [IsActive; Trigger; Activate; WaitFor; Activate; Trigger; WaitForActivation];
   [WaitActivation; Trigger; WaitFor; Wait]].
Example ex_wf_finish :
  wf_finish false fin_progs 1 = true /\
  wf_finish false [[Trigger; Activate]; [Wait]] 0 = false /\
  wf_finish true [[Trigger]; [Wait]] 0 = true /\
  wf_finish false [[Activate; Trigger]; [Activate; Wait]] 0 = false /\
  wf_finish false [[Activate; Wait; Trigger]; [Wait]] 0 = false /\
  wf_finish false [[Activate; Trigger]; [Wait; Reset]] 0 = false.
Proof. vm_compute. repeat split. Qed.
(* the violating program [[trigger; activate]; [wait]] really can hang: trigger() is refused, activate() arms, the waiter sleeps *)
Example ex_wf_finish_needed :
  let s := runT (init false [[Trigger; Activate]; [Wait]]) (repeat (0, 0) 11 ++ repeat (1, 0) 6) in
  quiescent glob loc tstep s /\ all_fin glob loc fin s = false.
Proof. cbn zeta. split; [apply qcheck_quiescent; vm_compute; reflexivity|vm_compute; reflexivity]. Qed.
