(* C09 - Barrier releases a generation only when every participant has arrived.
   Statements only; every proof is `exact <lemma>` into Proofs/BarrierProofs.v.
   All theorems quantify over the initial threshold n, any number of threads with any programs
   satisfying the client obligation wf_prog (the participants are exactly the n threads; each
   performs some wait()s optionally followed by one final wait_and_drop()), every reachable state
   (R n progs s: s = run (init n progs) sched for some schedule, of any length, including spurious
   wake-ups, choice 1).
   Ghost per-thread state: arr l = number of arrivals thread l has made (= decrements of count_ it
   performed = operations of its program past their lock step, barrier_arrivals_count_ops),
   dropped l = it has performed the --threshold_ of wait_and_drop. *)
From Coq Require Import List Arith ZArith Lia Bool.
Import ListNotations.
From GV Require Import Sched Events BarrierModel BarrierProofs.
Local Open Scope Z_scope.

(* Safety.  Whenever a step of thread t emits the return event of a wait / wait_and_drop - its
   (arr l)-th - every participant u has made at least as many arrivals, or has dropped out in an
   earlier generation (its last arrival, a wait_and_drop, has a smaller number). *)
Theorem barrier_safe : forall n progs s t c l g' l' es,
  wf_prog n progs = true -> R n progs s -> nth_error (thr s) t = Some l ->
  tstep t c (gl s) l = Some (g', l', es) -> In ret_ev es ->
  forall u lu, nth_error (thr s) u = Some lu ->
    (arr l <= arr lu)%nat \/ (dropped lu = true /\ (arr lu < arr l)%nat).
Proof. exact wait_returns_after_all. Qed.

(* the ghost counter is tied to the client program: prog0 is thread u's program, and arr counts the
   operations of it whose arrival has been made (todo = the operations not yet past their lock step) *)
Theorem barrier_arrivals_count_ops : forall n progs s u l,
  wf_prog n progs = true -> R n progs s -> nth_error (thr s) u = Some l ->
  nth_error progs u = Some (prog0 l) /\ length (prog0 l) = (arr l + length (todo l))%nat.
Proof. exact arrivals_count_ops. Qed.

(* even when fast threads re-enter immediately: lGen is read under the mutex at the arrival, so a
   thread in the wait loop has lGen = arr - 1 and waits for the current generation iff arr = generation + 1 *)
Theorem barrier_lgen_is_arrival : forall n progs s u l,
  wf_prog n progs = true -> R n progs s -> nth_error (thr s) u = Some l -> waiting (at_ l) = true ->
  lgen l = Z.of_nat (arr l) - 1 /\ Z.of_nat (arr l) <= generation (gl s) + 1 /\ (lgen l = generation (gl s) <-> Z.of_nat (arr l) = generation (gl s) + 1).
Proof. exact lgen_is_arrival. Qed.

(* Drop bookkeeping.  threshold_ is the number of participants that have not dropped; count_ is the
   number of those that have not yet arrived in the current generation; 0 <= count <= threshold and
   1 <= count whenever a participant is left; neither unsigned decrement ever wrapped. *)
Theorem barrier_drop : forall n progs s, wf_prog n progs = true -> R n progs s ->
  threshold (gl s) = Z.of_nat (num_active (thr s)) /\
  count (gl s) = Z.of_nat (num_pending (generation (gl s)) (thr s)) /\
  0 <= count (gl s) <= threshold (gl s) /\
  (1 <= threshold (gl s) -> 1 <= count (gl s)) /\
  wrapped (gl s) = false.
Proof. exact drop_counts. Qed.

(* One arrival (the step at the lock): it is the thread's (generation+1)-th arrival, made by a
   participant that has not dropped; wait_and_drop lowers the threshold by one *before* counting,
   so it counts as an arrival now and every later generation needs one arrival fewer; the last
   arriver (count = 1) bumps the generation and resets count to the new threshold, every other
   arriver lowers count by one and goes to sleep in the current generation. *)
Theorem barrier_arrival_step : forall n progs s t c l k g' l' es,
  wf_prog n progs = true -> R n progs s -> nth_error (thr s) t = Some l -> at_ l = B_lock k ->
  tstep t c (gl s) l = Some (g', l', es) ->
  arr l' = S (arr l) /\ lgen l' = generation (gl s) /\ dropped l = false /\ dropped l' = is_drop k /\
  Z.of_nat (arr l) = generation (gl s) /\
  threshold g' = threshold (gl s) - (if is_drop k then 1 else 0) /\ 0 <= threshold g' /\
  ((count (gl s) = 1 /\ generation g' = generation (gl s) + 1 /\ count g' = threshold g' /\ at_ l' = B_notify) \/
   (1 < count (gl s) /\ generation g' = generation (gl s) /\ count g' = count (gl s) - 1 /\ at_ l' = B_sleep)).
Proof. exact arrival_step. Qed.

(* No lost wake-up.  A thread blocked in cv.wait whose generation has passed (lGen <> generation_)
   has been notified, or the owner of the mutex is the last arriver, about to notify_all, and it can move. *)
Theorem barrier_no_lost_wakeup : forall n progs s u l,
  wf_prog n progs = true -> R n progs s ->
  nth_error (thr s) u = Some l -> at_ l = B_woken -> lgen l <> generation (gl s) ->
  ~ In u (sleepers (gl s)) \/
  exists a, mtx (gl s) = Some a /\ is_notify (pcof (thr s) a) = true /\ enabled glob loc tstep s a 0.
Proof. exact no_lost_wakeup. Qed.

(* ... a notified waiter can move as soon as the mutex is free, and its wake-up step leaves the
   predicate loop (it does not go back to sleep) once its generation has passed *)
Theorem barrier_notified_enabled : forall (s : sys glob loc) t l,
  nth_error (thr s) t = Some l -> at_ l = B_woken ->
  ~ In t (sleepers (gl s)) -> mtx (gl s) = None -> enabled glob loc tstep s t 0.
Proof. exact notified_enabled. Qed.
Theorem barrier_waiter_exits : forall t c g l g' l' es,
  at_ l = B_woken -> lgen l <> generation g -> tstep t c g l = Some (g', l', es) -> at_ l' = B_unlock.
Proof. exact woken_exits. Qed.

Theorem barrier_mutex_holder_moves : forall n progs s a c,
  wf_prog n progs = true -> R n progs s -> mtx (gl s) = Some a -> enabled glob loc tstep s a c.
Proof. exact holder_enabled. Qed.

(* Shape of the states in which nothing can move (except by a spurious wake-up): every thread has
   finished its program, or sleeps un-notified in the current generation and there is a participant
   that has not dropped, has finished its program, and has made fewer arrivals: the only deadlocks
   are the client's (a participant whose program ended early). *)
Theorem barrier_deadlock_shape : forall n progs s t l,
  wf_prog n progs = true -> R n progs s -> quiescent glob loc tstep s -> nth_error (thr s) t = Some l ->
  fin l = true \/
  (at_ l = B_woken /\ In t (sleepers (gl s)) /\ lgen l = generation (gl s) /\
   exists u lu, nth_error (thr s) u = Some lu /\ fin lu = true /\ dropped lu = false /\ (arr lu < arr l)%nat).
Proof. exact quiescent_shape. Qed.

(* When the last one arrives all are released: in such a state a thread t is not left inside a wait
   once every participant that has not dropped has made as many arrivals as t. *)
Theorem barrier_releases_all : forall n progs s t l,
  wf_prog n progs = true -> R n progs s -> quiescent glob loc tstep s -> nth_error (thr s) t = Some l ->
  (forall u lu, nth_error (thr s) u = Some lu -> dropped lu = false -> (arr l <= arr lu)%nat) ->
  fin l = true.
Proof. exact released_when_all_arrived. Qed.

(* Generation after generation: when every participant performs the same number K of generations
   unless it drops out earlier (balanced), a state in which nothing moves is one in which every
   program has finished ... *)
Theorem barrier_generation_completes : forall n progs K s,
  wf_prog n progs = true -> balanced K progs = true ->
  R n progs s -> quiescent glob loc tstep s -> all_fin glob loc fin s = true.
Proof. exact generation_completes. Qed.

(* ... and such a state is reached: schedules without spurious wake-ups make at most mu(s) moves *)
Theorem barrier_bounded_work : forall n progs s sc,
  wf_prog n progs = true -> R n progs s -> sched_ok no_spurious sc -> (moves glob loc tstep s sc <= mu s)%nat.
Proof. exact bounded_work. Qed.

(* The bump of generation_, the re-arm of count_ and the notify_all of the last arriver form one
   critical section: the step that emits notify_all is taken by the owner of the mutex, which still
   owns it afterwards (monitor barrier.rearm_outside_lock checks the same discipline on the code). *)
Theorem barrier_notify_under_mutex : forall n progs s t c l g' l' es,
  wf_prog n progs = true -> R n progs s -> nth_error (thr s) t = Some l ->
  tstep t c (gl s) l = Some (g', l', es) -> In (E K_NOTIFY_ALL O_CV 0) es ->
  mtx (gl s) = Some t /\ mtx g' = Some t.
Proof. exact notify_under_mutex. Qed.

(* Existence form of termination.  From every reachable state of a well-formed program some
   schedule of at most mu(s) work-choices, without any spurious wake-up, reaches a state in which
   nothing can move (whose shape is barrier_deadlock_shape) ... *)
Theorem barrier_eventually_settles : forall n progs s,
  wf_prog n progs = true -> R n progs s ->
  exists sc, sched_ok no_spurious sc /\ (length sc <= mu s)%nat /\
             R n progs (run glob loc tstep s sc) /\ quiescent glob loc tstep (run glob loc tstep s sc).
Proof. exact eventually_settles. Qed.

(* ... and for balanced programs (the hypothesis of barrier_generation_completes: without it a
   participant whose program ends early legitimately blocks the others, ex_quiescent_deadlock)
   that schedule finishes every thread: every generation completes and every waiter returns. *)
Theorem barrier_eventually_finishes : forall n progs K s,
  wf_prog n progs = true -> balanced K progs = true -> R n progs s ->
  exists sc, sched_ok no_spurious sc /\ (length sc <= mu s)%nat /\
             all_fin glob loc fin (run glob loc tstep s sc) = true.
Proof. exact eventually_finishes. Qed.

(* ---------- non-vacuity: the hypotheses are met by concrete programs and reachable states ---------- *)
(* three participants; thread 1 drops out in generation 2, thread 2 in generation 1 *)
Definition ex_progs := [[Wait; Wait; Wait]; [Wait; WaitAndDrop]; [WaitAndDrop]].
Example ex_wf : wf_prog 3 ex_progs = true /\ balanced 3 ex_progs = true.
Proof. vm_compute. split; reflexivity. Qed.
Example ex_not_wf : wf_prog 2 ex_progs = false /\ wf_prog 2 [[WaitAndDrop; Wait]; [Wait]] = false.
Proof. vm_compute. split; reflexivity. Qed.

Definition rep {A} (k : nat) (x : A) : list A := repeat x k.
(* threads 0 and 1 arrive and sleep, thread 2 arrives last (dropping) and is about to notify *)
Definition ex_sched : list (nat * nat) := (rep 3 (0,0) ++ rep 3 (1,0) ++ rep 2 (2,0))%nat.
Definition ex_state := run glob loc tstep (init 3 ex_progs) ex_sched.

Example ex_sleepers_and_notifier :
  pcof (thr ex_state) 0 = B_woken /\ In 0%nat (sleepers (gl ex_state)) /\
  (exists l, nth_error (thr ex_state) 0 = Some l /\ lgen l <> generation (gl ex_state)) /\
  mtx (gl ex_state) = Some 2%nat /\ pcof (thr ex_state) 2 = B_notify /\
  threshold (gl ex_state) = 2 /\ count (gl ex_state) = 2 /\ generation (gl ex_state) = 1.
Proof. vm_compute. repeat split; auto. eexists; split; [reflexivity|discriminate]. Qed.

(* thread 2 notifies and unlocks; thread 0 wakes up and is about to return from its first wait *)
Example ex_wait_returns :
  let s := run glob loc tstep ex_state [(2,0);(2,0);(0,0)]%nat in
  exists l, nth_error (thr s) 0 = Some l /\
            exists r, tstep 0 0 (gl s) l = Some r /\ In ret_ev (snd r) /\ arr l = 1%nat.
Proof. vm_compute. eexists; split; [reflexivity|]. eexists; split; [reflexivity|]. cbn. auto. Qed.

(* the fast thread 0 laps thread 1: it returns, re-enters and sleeps in generation 1 while thread 1
   is still asleep (notified) in generation 0 *)
Example ex_lapping :
  let s := run glob loc tstep ex_state ([(2,0);(2,0)] ++ rep 6 (0,0))%nat in
  (exists l0 l1, nth_error (thr s) 0 = Some l0 /\ nth_error (thr s) 1 = Some l1 /\
     at_ l0 = B_woken /\ lgen l0 = 1 /\ arr l0 = 2%nat /\ at_ l1 = B_woken /\ lgen l1 = 0 /\ arr l1 = 1%nat) /\
  generation (gl s) = 1 /\ count (gl s) = 1.
Proof. vm_compute. split; [do 2 eexists; repeat split|split; reflexivity]. Qed.

(* a complete run: three generations with 3, 2 and 1 participants *)
Example ex_complete_run :
  let s := run glob loc tstep (init 3 ex_progs) (rep 40 (0,0) ++ rep 40 (1,0) ++ rep 40 (2,0) ++ rep 40 (0,0) ++ rep 40 (1,0) ++ rep 40 (0,0))%nat in
  all_fin glob loc fin s = true /\ threshold (gl s) = 1 /\ count (gl s) = 1 /\ generation (gl s) = 3.
Proof. vm_compute. repeat split; reflexivity. Qed.

(* a legitimate deadlock of an unbalanced (but wf) program: participant 1 stops after one generation *)
Example ex_quiescent_deadlock :
  let progs := [[Wait; Wait]; [Wait]] in
  let s := run glob loc tstep (init 2 progs) (rep 3 (0,0) ++ rep 4 (1,0) ++ rep 6 (0,0))%nat in
  wf_prog 2 progs = true /\
  pcof (thr s) 0 = B_woken /\ In 0%nat (sleepers (gl s)) /\ mtx (gl s) = None /\
  (exists l1, nth_error (thr s) 1 = Some l1 /\ fin l1 = true /\ dropped l1 = false /\ arr l1 = 1%nat) /\
  (exists l0, nth_error (thr s) 0 = Some l0 /\ arr l0 = 2%nat /\ lgen l0 = generation (gl s)).
Proof. vm_compute. repeat split; auto; eexists; repeat split. Qed.

(* the hypotheses of barrier_eventually_finishes at a non-trivial state (two sleepers, the last
   arriver about to notify, two more generations to go), with a witness schedule within the bound *)
Example ex_eventually_finishes :
  wf_prog 3 ex_progs = true /\ balanced 3 ex_progs = true /\ R 3 ex_progs ex_state /\
  all_fin glob loc fin ex_state = false /\ mu ex_state = 26%nat /\
  let sc := (rep 2 (2,0) ++ rep 8 (0,0) ++ rep 8 (1,0) ++ rep 8 (0,0))%nat in
  sched_ok no_spurious sc /\ (length sc <= mu ex_state)%nat /\
  all_fin glob loc fin (run glob loc tstep ex_state sc) = true.
Proof.
  split; [vm_compute; reflexivity|]. split; [vm_compute; reflexivity|].
  split; [exists ex_sched; reflexivity|]. vm_compute. repeat split; auto.
Qed.
