From Coq Require Import List Arith ZArith Lia Bool.
Import ListNotations.
From GV Require Import Sched Events BarrierModel BarrierProofs.
Local Open Scope Z_scope.
Example barrier_wf_example : wf_prog 3 [[Wait; Wait]; [Wait; WaitAndDrop]; [WaitAndDrop]] = true.
Proof. vm_compute. reflexivity. Qed.
