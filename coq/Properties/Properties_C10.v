(* C10 - Latch opens exactly when the count is reached and never loses a wake-up.
   Statements only; every proof is `exact <lemma>` into Proofs/LatchProofs.v.
   All theorems quantify over the initial count n, any number of threads with any
   programs over {arrive, wait, arrive_and_wait}, and every schedule (including
   spurious wake-ups, choice 1). *)
From Coq Require Import List Arith ZArith Lia Bool.
Import ListNotations.
From GV Require Import Sched Events LatchModel LatchProofs.
Local Open Scope Z_scope.

(* wait / arrive_and_wait return only after at least n arrive calls took place:
   whenever a step of a thread inside wait() emits the return event, the state it
   is taken from has n <= arrivals. *)
Theorem latch_safe : forall n progs s t c l g' l' es,
  R n progs s -> nth_error (thr s) t = Some l -> in_wait (at_ l) = true ->
  tstep t c (gl s) l = Some (g', l', es) -> In ret_ev es -> n <= Z.of_nat (arrivals (gl s)).
Proof. exact wait_returns_after_count. Qed.

(* the ghost `arrivals` is exactly the number of decrement events of the observable trace *)
Theorem latch_arrivals_are_trace_events : forall sched (s : sys glob loc),
  arrivals (gl (fst (run_lines glob loc tstep s sched))) =
  (arrivals (gl s) + count_rmw (snd (run_lines glob loc tstep s sched)))%nat.
Proof. exact arrivals_counts_trace. Qed.

Theorem latch_counter : forall n progs s, R n progs s -> counter (gl s) = n - Z.of_nat (arrivals (gl s)).
Proof. exact counter_is_start_minus_arrivals. Qed.

(* no lost wake-up: once the count is reached, a thread still blocked in cv.wait has
   either been notified, or the thread that owns the mutex is the one that will
   notify, and that thread can move. *)
Theorem latch_no_lost_wakeup : forall n progs s u,
  R n progs s -> counter (gl s) <= 0 -> is_woken (pcof (thr s) u) = true ->
  ~ In u (sleepers (gl s)) \/
  exists a, mtx (gl s) = Some a /\ will_notify (gl s) (pcof (thr s) a) = true /\ enabled glob loc tstep s a 0.
Proof. exact no_lost_wakeup. Qed.

(* when nothing can move (without a spurious wake-up), every thread has finished its
   program or sleeps un-notified with the count not yet reached *)
Theorem latch_deadlock_shape : forall n progs s t l,
  R n progs s -> quiescent glob loc tstep s -> nth_error (thr s) t = Some l ->
  fin l = true \/ (is_woken (at_ l) = true /\ In t (sleepers (gl s)) /\ 0 < counter (gl s)).
Proof. exact quiescent_shape. Qed.

(* once n arrivals have taken place every current and future waiter returns: a state
   in which nothing moves has every program finished *)
Theorem latch_opens : forall n progs s,
  R n progs s -> quiescent glob loc tstep s -> n <= Z.of_nat (arrivals (gl s)) -> all_fin glob loc fin s = true.
Proof. exact opens_when_count_reached. Qed.

(* ... and such a state is reached: schedules without spurious wake-ups make at most mu(s) moves *)
Theorem latch_bounded_work : forall n progs s sc,
  R n progs s -> sched_ok no_spurious sc -> (moves glob loc tstep s sc <= mu s)%nat.
Proof. exact bounded_work. Qed.

(* ... and is reached: from every reachable state in which n arrivals have happened there is a schedule
   of at most mu(s) steps, with no spurious wake-up, after which every thread has finished *)
Theorem latch_opens_eventually : forall n progs s,
  R n progs s -> n <= Z.of_nat (arrivals (gl s)) ->
  exists sc, sched_ok no_spurious sc /\ (length sc <= mu s)%nat /\
             all_fin glob loc fin (run glob loc tstep s sc) = true.
Proof. exact opens_eventually. Qed.

(* arrive() never waits for other arrivals or for the latch to open: the only pc at which
   it can be disabled is the mutex acquisition, and the owner of the mutex can always move *)
Theorem latch_arrive_nonblocking : forall n progs s t c l,
  R n progs s -> nth_error (thr s) t = Some l -> in_arrive (at_ l) = true ->
  tstep t c (gl s) l = None ->
  exists k a, at_ l = A_lock k /\ mtx (gl s) = Some a /\ a <> t /\ enabled glob loc tstep s a 0.
Proof. exact arrive_blocks_only_on_mutex. Qed.

Theorem latch_mutex_holder_moves : forall n progs s a c,
  R n progs s -> mtx (gl s) = Some a -> enabled glob loc tstep s a c.
Proof. exact holder_enabled. Qed.

(* ---------- non-vacuity: the hypotheses are met by concrete reachable states ---------- *)
Definition ex_progs := [[Wait]; [Arrive]; [ArriveWait]].
(* thread 0 runs into cv.wait, thread 1 arrives, thread 2 arrives and is about to return from its wait *)
Definition ex_sched : list (nat * nat) :=
  ([(0,0);(0,0);(0,0);(0,0);(0,0)] ++ [(1,0);(1,0);(1,0);(1,0);(1,0)] ++ [(2,0);(2,0);(2,0);(2,0)])%nat.
Definition ex_state := run glob loc tstep (init 2 ex_progs) ex_sched.

Example ex_sleeper_and_notifier :
  is_woken (pcof (thr ex_state) 0) = true /\ counter (gl ex_state) = 0 /\
  In 0%nat (sleepers (gl ex_state)) /\ mtx (gl ex_state) = Some 2%nat.
Proof. vm_compute. repeat split; auto. Qed.

Example ex_wait_returns :
  let s := run glob loc tstep ex_state [(2,0);(2,0);(0,0);(0,0)]%nat in
  exists l, nth_error (thr s) 0 = Some l /\ in_wait (at_ l) = true /\
            exists r, tstep 0 0 (gl s) l = Some r /\ In ret_ev (snd r).
Proof. vm_compute. eexists; repeat split. eexists; split; [reflexivity|]. cbn. auto. Qed.

Example ex_quiescent_deadlock : (* one waiter, count never reached: the only quiescent non-finished shape *)
  let s := run glob loc tstep (init 1 [[Wait]]) [(0,0);(0,0);(0,0);(0,0);(0,0)]%nat in
  is_woken (pcof (thr s) 0) = true /\ In 0%nat (sleepers (gl s)) /\ 0 < counter (gl s).
Proof. vm_compute. repeat split; auto. Qed.
