(* C01 - exclusive handles and whole-object operations are mutually exclusive.
   Statements only; every proof is `exact <lemma>` into Proofs/WrapperProofs.v.
   All theorems quantify over the configuration cf (flavour guarded / guarded_opt / shared_guarded /
   shared_guarded_opt / ordered_guarded / atomic_guarded, mutex kind mutex / timed_mutex / shared_mutex /
   shared_timed_mutex, enable flag, initial value, throw plan), any number of threads with any programs over
   the whole API (progs : list (list op)), and every schedule (R cf progs s: s is reachable).

   Vocabulary (Proofs/WrapperProofs.v):
     lx cf l / lsh cf l   number of exclusive / shared locks of the wrapper's mutex that thread-state l owns:
                          through live handles in its slots, through the new handle of an acquisition in
                          progress, or through the lock_guard / shared lock of a whole-object operation
     in_excl_access cf s t    1 <= lx: t owns a handle holding the mutex exclusively, or is inside the guarded
                              region of load / store / operator= / modify / exchange / compare_exchange / operator T
     in_any_access s u        u is executing accesses of the wrapped object (pc Run: through a handle's
                              operator->, or inside a whole-object operation)
     safe cf g                locking is enabled (every flavour except an _opt one constructed with false) and
                              the clients never dereferenced a non-null handle that owns nothing (a moved-from
                              handle: ghost counter misuse = 0).  C01 is restricted to such runs, as its
                              statement says ("locking enabled"); the moved-from case is the Observation of C08. *)
From Coq Require Import List Arith ZArith Lia Bool.
Import ListNotations.
From GV Require Import Sched Events WrapperModel WrapperProofs Wrapper2Model Wrapper2Proofs.
Local Open Scope Z_scope.

(* while t has exclusive access no other thread holds the mutex in any mode (every configuration), and -
   locking enabled - no other thread is inside any access of the wrapped object *)
Theorem excl_invariant : forall cf progs s t u,
  R cf progs s -> in_excl_access cf s t -> u <> t ->
  ~ holds_lock cf s u /\ (safe cf (gl s) -> ~ in_any_access s u).
Proof. exact excl_invariant_l. Qed.

(* no two conflicting access windows of the wrapped object are ever open at once *)
Theorem windows_disjoint : forall cf progs s,
  R cf progs s -> safe cf (gl s) ->
  ~ (exists t u, t <> u /\ open_window s t /\ open_write_window s u).
Proof. exact windows_disjoint_l. Qed.

(* ... so the instrumented payload never reports an overlapping / torn access: the fault counter consists of
   the clients' null-handle dereferences only *)
Theorem no_window_fault : forall cf progs s,
  R cf progs s -> safe cf (gl s) -> faults (gl s) = nderef (gl s).
Proof. exact no_window_fault_l. Qed.

(* no lost update: as long as every completed write was a read-increment-write (Use incr under a handle, or
   modify), the payload is the initial value plus the number of completed increments.  Each increment is a
   read window followed by a write window (four scheduling points, MIncr in the model). *)
Theorem no_lost_update : forall cf progs s,
  R cf progs s -> safe cf (gl s) -> owrites (gl s) = 0%nat ->
  val (gl s) = init_val cf + Z.of_nat (incrs (gl s)).
Proof. exact no_lost_update_l. Qed.

(* the value an increment has read is still the current value when it writes *)
Theorem incr_reads_current : forall cf progs s u fr rest ph r ok,
  R cf progs s -> safe cf (gl s) ->
  at_ (locof (thr s) u) = Run fr (MIncr :: rest) ph r ok -> (2 <= ph)%nat -> r = val (gl s).
Proof. exact incr_reads_current_l. Qed.

(* no leaked lock: the mutex is owned by t exactly when t holds exactly one owning exclusive guard (never two);
   the sharers are exactly the owning shared guards *)
Theorem no_leaked_lock : forall cf progs s t,
  R cf progs s ->
  (owner (gl s) = Some t <-> lx cf (locof (thr s) t) = 1%nat) /\
  (lx cf (locof (thr s) t) <= 1)%nat /\
  count_occ Nat.eq_dec (sharers (gl s)) t = lsh cf (locof (thr s) t).
Proof. exact no_leaked_lock_l. Qed.

(* when every thread is between operations and no live handle owns a lock, the mutex is free *)
Theorem mutex_free_when_idle : forall cf progs s,
  R cf progs s -> (forall u l, nth_error (thr s) u = Some l -> owns_nothing l) ->
  owner (gl s) = None /\ sharers (gl s) = [].
Proof. exact mutex_free_when_idle_l. Qed.

(* no deadlock, shape of the states in which nothing can move (not even by a time-out): every unfinished
   thread is blocked in a blocking acquisition, and the mutex is held - through a handle kept in a slot - by a
   thread that has finished its program or is itself blocked acquiring while holding that handle *)
Theorem no_deadlock_shape : forall cf progs s t l,
  R cf progs s -> quiescent glob loc (tstep cf) s -> nth_error (thr s) t = Some l ->
  fin l = true \/
  (blocked cf l /\ exists a la, nth_error (thr s) a = Some la /\ holds_in_slots cf la /\ (fin la = true \/ blocked cf la)).
Proof. exact quiescent_shape_l. Qed.

(* hence: absent handles kept for ever and blocking acquisitions made while holding a handle, a state in
   which nothing moves is one in which every program has finished (blocked acquirers proceed after release) *)
Theorem no_deadlock : forall cf progs s,
  R cf progs s -> quiescent glob loc (tstep cf) s -> ~ keeps_or_nests cf s -> all_fin glob loc fin s = true.
Proof. exact no_deadlock_l. Qed.

(* the static client obligation that rules those two situations out *)
Theorem wf_prog_no_nesting : forall cf progs s,
  wf_progs cf progs = true -> R cf progs s -> ~ keeps_or_nests cf s.
Proof. exact wf_no_nesting_l. Qed.

(* a thread that holds the lock inside an operation (lock_guard, or the new handle of an acquisition that is
   still releasing the old one) can always take its next step: the lock is never held across a wait *)
Theorem holder_in_op_moves : forall cf progs s a la c,
  R cf progs s -> nth_error (thr s) a = Some la -> (1 <= pcx cf (at_ la) + pcs cf (at_ la))%nat ->
  enabled glob loc (tstep cf) s a c.
Proof. exact holder_in_op_enabled_l. Qed.

(* termination, existence form (Common/Progress.v): from every reachable state some schedule of at most mu(s)
   steps leads to a state in which nothing can move; mu (14 per remaining client operation + the remaining
   steps of the current one) drops at every enabled step under every choice - no choice of this component is a
   retry - so every schedule makes at most mu(s) moves *)
Theorem wr_eventually_settles : forall cf progs s, R cf progs s ->
  exists sc, sched_ok any_choice sc /\ (length sc <= mu s)%nat /\
             quiescent glob loc (tstep cf) (run glob loc (tstep cf) s sc).
Proof. exact WrapperProofs.wr_eventually_settles. Qed.
Theorem wr_bounded_work : forall cf (s : sys glob loc) sc, (moves glob loc (tstep cf) s sc <= mu s)%nat.
Proof. exact WrapperProofs.wr_bounded_work. Qed.
(* well-formed clients (wf_progs, decidable: no blocking acquisition while a handle of the thread may own a lock,
   every handle released by its thread before the program ends) always finish *)
Theorem wr_eventually_finishes : forall cf progs s, wf_progs cf progs = true -> R cf progs s ->
  exists sc, sched_ok any_choice sc /\ (length sc <= mu s)%nat /\
             all_fin glob loc fin (run glob loc (tstep cf) s sc) = true.
Proof. exact WrapperProofs.wr_eventually_finishes. Qed.

(* ---------- non-vacuity ---------- *)
Definition cf_g : config := Cfg FGuarded MTimed true 5 [] false.
Definition cf_o : config := Cfg FOrdered MSharedTimed true 5 [] false.
Definition rep (t n : nat) : list (nat * nat) := repeat (t, 0%nat) n.

(* two threads increment under an exclusive handle; thread 0 is inside its write window, thread 1 is
   blocked in lock() *)
Definition ex_progs := [[Lock 0; Use 0 AIncr false; Destroy 0]; [Lock 0; Use 0 AIncr false; Destroy 0]].
Definition ex_mid := run glob loc (tstep cf_g) (init cf_g ex_progs) (rep 0 6 ++ rep 1 3).
Example ex_exclusive_writer_and_blocked_acquirer :
  in_excl_access cf_g ex_mid 0 /\ open_write_window ex_mid 0 /\ safe cf_g (gl ex_mid) /\
  at_ (locof (thr ex_mid) 1) = HAcq 0 ABlock false /\ tstep cf_g 1 0 (gl ex_mid) (locof (thr ex_mid) 1) = None.
Proof. vm_compute. repeat split; auto. Qed.

Definition ex_end := run glob loc (tstep cf_g) ex_mid (rep 0 4 ++ rep 1 12).
Example ex_no_lost_update :
  all_fin glob loc fin ex_end = true /\ safe cf_g (gl ex_end) /\ owrites (gl ex_end) = 0%nat /\
  incrs (gl ex_end) = 2%nat /\ val (gl ex_end) = 7 /\ owner (gl ex_end) = None.
Proof. vm_compute. repeat split; auto. Qed.
Example ex_wf : wf_progs cf_g ex_progs = true.
Proof. reflexivity. Qed.

(* modify against a reader on ordered_guarded: the reader holds the shared lock inside its read window,
   the modifier is blocked in its lock_guard *)
Definition ex_mid_o := run glob loc (tstep cf_o) (init cf_o [[ReadF 3]; [Modify 4]]) (rep 0 4 ++ rep 1 2).
Example ex_reader_blocks_modifier :
  open_window ex_mid_o 0 /\ holds_lock cf_o ex_mid_o 0 /\ at_ (locof (thr ex_mid_o) 1) = GAcq (Modify 4) /\
  tstep cf_o 1 0 (gl ex_mid_o) (locof (thr ex_mid_o) 1) = None.
Proof. vm_compute. repeat split; auto. Qed.

(* a handle kept for ever: the only way a run gets stuck *)
Definition ex_stuck := run glob loc (tstep cf_g) (init cf_g [[Lock 0]; [Load]]) (rep 0 2 ++ rep 1 2).
Example ex_kept_handle_blocks : keeps_or_nests cf_g ex_stuck /\ wf_progs cf_g [[Lock 0]; [Load]] = false.
Proof.
  split; [|reflexivity]. exists 0%nat, (locof (thr ex_stuck) 0). vm_compute. repeat split; auto.
Qed.

(* the plain payload kind (guarded<long, timed_mutex>): the accesses of the wrapped object are invisible, they run
   in the step of the preceding visible operation - after its lock step a load is already at the destructor of
   its lock_guard with the value read, and it excludes the store exactly as before *)
Definition cf_pl : config := Cfg FGuarded MTimed true 5 [] true.
Definition ex_plain := run glob loc (tstep cf_pl) (init cf_pl [[Load]; [Store 3]]) (rep 0 2 ++ rep 1 2).
Example ex_plain_load :
  at_ (locof (thr ex_plain) 0) = GRel Load 1 5 false /\ in_excl_access cf_pl ex_plain 0 /\
  at_ (locof (thr ex_plain) 1) = GAcq (Store 3) /\ tstep cf_pl 1 0 (gl ex_plain) (locof (thr ex_plain) 1) = None /\
  val (gl (run glob loc (tstep cf_pl) ex_plain (rep 0 1 ++ rep 1 2))) = 3.
Proof. vm_compute. repeat split; auto. Qed.

(* wf_progs is satisfiable by non-trivial programs (handles of both kinds, a move, unlock, whole-object operations
   between the critical sections) and false for a program that keeps a handle or blocks while holding one *)
Definition cf_w : config := Cfg FShared MSharedTimed true 0 [] false.
Example ex_wf_nontrivial :
  wf_progs cf_w [[Lock 0; Use 0 AIncr false; MoveCtor 0 1; Use 1 ARead false; Destroy 1; Destroy 0; LockShared 2; Unlock 2];
                 [TryLockFor 0; Use 0 (AWrite 3) true; TryLockShared 1; Destroy 0; Destroy 1];
                 [LockShared 0; Use 0 ARead false; Destroy 0; Lock 1; Destroy 1]] = true /\
  wf_progs cf_w [[Lock 0; Lock 1; Destroy 0; Destroy 1]] = false /\
  wf_progs cf_w [[LockShared 0; Use 0 ARead false]] = false /\
  mu (init cf_w [[Lock 0; Destroy 0]; [LockShared 0]]) = 42%nat.
Proof. vm_compute. repeat split. Qed.

(* ---------- two objects of one instantiation, nested calls X -> Y (Model/Wrapper2Model.v) ----------
   Every step of the product is a step of the single-object model in X or in Y (the invocation of a nested functor
   is fused with the entry of its inner call), R2 cx cy progs s: s is reachable in the product.  sysX / sysY are
   the two single-object views.  The theorems above hold for each object, whoever calls - in particular an
   operation of Y made from inside the functor of X.modify excludes every other access of Y. *)
Theorem wrapper2_excl_invariant : forall cx cy progs s t u, R2 cx cy progs s -> u <> t ->
  (in_excl_access cy (sysY s) t -> ~ holds_lock cy (sysY s) u /\ (safe cy (gY (gl s)) -> ~ in_any_access (sysY s) u)) /\
  (in_excl_access cx (sysX s) t -> ~ holds_lock cx (sysX s) u /\ (safe cx (gX (gl s)) -> ~ in_any_access (sysX s) u)).
Proof. exact wrapper2_excl_invariant_l. Qed.
Theorem wrapper2_windows_disjoint : forall cx cy progs s, R2 cx cy progs s ->
  (safe cy (gY (gl s)) -> ~ (exists t u, t <> u /\ open_window (sysY s) t /\ open_write_window (sysY s) u)) /\
  (safe cx (gX (gl s)) -> ~ (exists t u, t <> u /\ open_window (sysX s) t /\ open_write_window (sysX s) u)).
Proof. exact wrapper2_windows_disjoint_l. Qed.
Theorem wrapper2_no_lost_update : forall cx cy progs s, R2 cx cy progs s ->
  (safe cy (gY (gl s)) -> owrites (gY (gl s)) = 0%nat -> val (gY (gl s)) = init_val cy + Z.of_nat (incrs (gY (gl s)))) /\
  (safe cx (gX (gl s)) -> owrites (gX (gl s)) = 0%nat -> val (gX (gl s)) = init_val cx + Z.of_nat (incrs (gX (gl s)))) /\
  (safe cy (gY (gl s)) -> faults (gY (gl s)) = nderef (gY (gl s))) /\
  (safe cx (gX (gl s)) -> faults (gX (gl s)) = nderef (gX (gl s))).
Proof. exact wrapper2_no_lost_update_l. Qed.
Theorem wrapper2_no_leaked_lock : forall cx cy progs s t, R2 cx cy progs s ->
  (owner (gY (gl s)) = Some t <-> lx cy (locof (projY (thr s)) t) = 1%nat) /\
  (owner (gX (gl s)) = Some t <-> lx cx (locof (projX (thr s)) t) = 1%nat).
Proof. exact wrapper2_no_leaked_lock_l. Qed.

(* thread 0 is inside Y.modify called from the functor of X.modify (it owns both mutexes, its write window of Y
   is open); thread 1's Y.modify waits; afterwards both finish and no increment is lost *)
Definition cx2 : config := Cfg FOrdered MShared true 5 [] false.
Definition cy2 : config := Cfg FOrdered MShared true 1 [] false.
Definition progs2 := [[Nested 3 (Modify 4)]; [OnY (Modify 6)]].
Definition ex_nested := run glob2 loc2 (tstep2 cx2 cy2) (init2 cx2 cy2 progs2) (rep 0 8 ++ rep 1 2).
Example ex_nested_inner_excludes :
  owner (gX (gl ex_nested)) = Some 0%nat /\ owner (gY (gl ex_nested)) = Some 0%nat /\
  in_excl_access cy2 (sysY ex_nested) 0 /\ open_write_window (sysY ex_nested) 0 /\
  at_ (lY (nth 1 (thr ex_nested) (Loc2 [] init_loc init_loc None false))) = GAcq (Modify 6) /\
  tstep2 cx2 cy2 1 0 (gl ex_nested) (nth 1 (thr ex_nested) (Loc2 [] init_loc init_loc None false)) = None.
Proof. vm_compute. repeat split; auto. Qed.
Example ex_nested_finishes :
  let s := run glob2 loc2 (tstep2 cx2 cy2) ex_nested (rep 0 8 ++ rep 1 8) in
  forallb fin2 (thr s) = true /\ val (gX (gl s)) = 6 /\ val (gY (gl s)) = 3 /\ owner (gY (gl s)) = None.
Proof. vm_compute. repeat split; auto. Qed.
