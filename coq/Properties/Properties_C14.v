(* C14 - Reads on lr_guarded, cow_guarded and rcu lists never wait for writers.
   A multi-component property: each clause is the theorem of the component that owns the code (the statement of
   each theorem is, verbatim, the type of the named lemma).  "As long as the reader itself is scheduled it
   completes" is rendered by the scheduler-independent facts: every step of a read acquisition is enabled in
   EVERY state under EVERY choice (so no state of any writer, suspended anywhere, can disable it), the
   acquisition is a fixed number of the reader's own steps, and no reader step is a mutex operation.  "A writer
   is delayed only by read handles that are still held" is rendered by: the drain loop's next step leaves the
   loop as soon as the awaited counter is zero, a non-zero counter is always accounted for by a registered
   (held or in-flight) reader, new readers register in the other counter, and quiescent states are finished
   (no deadlock or livelock between readers and writers). *)
From GV Require LRProofs CowProofs RcuReadProofs RcuLiveProofs.

(* ---------- lr_guarded ---------- *)
(* wait-free read acquisition: any reader pc is enabled in ANY global state under ANY choice *)
Theorem lr_read_wait_free : ltac:(let T := type of LRProofs.read_wait_free in exact T).
Proof. exact LRProofs.read_wait_free. Qed.
(* exactly three own steps (load countingLeft, RMW +1, load readingLeft), whatever the other threads do in
   between (the intermediate global states g1, g2 are arbitrary) *)
Theorem lr_acquire_three_steps : ltac:(let T := type of LRProofs.acquire_three_steps in exact T).
Proof. exact LRProofs.acquire_three_steps. Qed.
(* no reader step touches the write mutex or emits a blocking kind of event *)
Theorem lr_readers_take_no_mutex : ltac:(let T := type of LRProofs.readers_take_no_mutex in exact T).
Proof. exact LRProofs.readers_take_no_mutex. Qed.
(* the writer waits only for held handles: counter = 0 => the next drain step leaves the loop *)
Theorem lr_writer_drain_exits : ltac:(let T := type of LRProofs.writer_drain_exits in exact T).
Proof. exact LRProofs.writer_drain_exits. Qed.
(* a non-zero counter is accounted for by a thread that holds a handle registered there or is mid-acquisition *)
Theorem lr_spinning_means_registered : ltac:(let T := type of LRProofs.spinning_means_registered in exact T).
Proof. exact LRProofs.spinning_means_registered. Qed.
(* new readers do not delay the writer: they register in the counter that is not being awaited *)
Theorem lr_new_readers_other_counter : ltac:(let T := type of LRProofs.new_readers_other_counter in exact T).
Proof. exact LRProofs.new_readers_other_counter. Qed.
(* once every handle registered in a counter is released, it is zero *)
Theorem lr_counters_zero_when_released : ltac:(let T := type of LRProofs.counters_zero_when_released in exact T).
Proof. exact LRProofs.counters_zero_when_released. Qed.
(* no deadlock between readers and writers: a state in which nothing can move has every program finished *)
Theorem lr_writer_completes : ltac:(let T := type of LRProofs.quiescent_finished in exact T).
Proof. exact LRProofs.quiescent_finished. Qed.
(* no livelock: every step decreases the measure except a drain load that sees a non-zero counter *)
Theorem lr_bounded_work : ltac:(let T := type of LRProofs.bounded_work in exact T).
Proof. exact LRProofs.bounded_work. Qed.

(* existence form of termination: from every reachable state of programs that
   release every handle they take (and never call modify under one), some
   schedule of at most [mu s] steps finishes every thread *)
Theorem lr_progress_step : ltac:(let T := type of LRProofs.progress_step in exact T).
Proof. exact LRProofs.progress_step. Qed.

Theorem lr_eventually_finishes : ltac:(let T := type of LRProofs.eventually_finishes in exact T).
Proof. exact LRProofs.eventually_finishes. Qed.

(* ---------- cow_guarded ---------- *)
(* lock_shared and snapshot reads: every step enabled in ANY state under ANY choice *)
Theorem cow_read_wait_free : ltac:(let T := type of CowProofs.cow_read_wait_free in exact T).
Proof. exact CowProofs.cow_read_wait_free. Qed.
(* exactly four own steps (load countingLeft, RMW +1, load readingLeft, RMW -1 + return) with arbitrary
   interleaved global states; the slot ends holding the committed version's snapshot *)
Theorem cow_lock_shared_steps : ltac:(let T := type of CowProofs.cow_lock_shared_steps in exact T).
Proof. exact CowProofs.cow_lock_shared_steps. Qed.
(* no reader step touches the outer or the inner mutex, or yields / sleeps *)
Theorem cow_readers_take_no_mutex : ltac:(let T := type of CowProofs.cow_readers_take_no_mutex in exact T).
Proof. exact CowProofs.cow_readers_take_no_mutex. Qed.
(* the committing writer's drains: exit at zero; a non-zero counter is a thread INSIDE lock_shared / lock()
   (never a held snapshot: held_snapshot_not_registered), which is itself always enabled; new readers use the
   other counter *)
Theorem cow_writer_drain_exits : ltac:(let T := type of CowProofs.cow_writer_drain_exits in exact T).
Proof. exact CowProofs.cow_writer_drain_exits. Qed.
Theorem cow_spinning_means_registered : ltac:(let T := type of CowProofs.cow_spinning_means_registered in exact T).
Proof. exact CowProofs.cow_spinning_means_registered. Qed.
Theorem cow_held_snapshot_not_registered : ltac:(let T := type of CowProofs.held_snapshot_not_registered in exact T).
Proof. exact CowProofs.held_snapshot_not_registered. Qed.
Theorem cow_registered_enabled : ltac:(let T := type of CowProofs.cow_registered_enabled in exact T).
Proof. exact CowProofs.cow_registered_enabled. Qed.
Theorem cow_new_readers_other_counter : ltac:(let T := type of CowProofs.cow_new_readers_other_counter in exact T).
Proof. exact CowProofs.cow_new_readers_other_counter. Qed.
(* no deadlock: a quiescent state is finished unless a write handle is kept for ever; no livelock: every step
   but a drain load seeing a registered reader decreases the measure *)
Theorem cow_quiescent_shape : ltac:(let T := type of CowProofs.cow_quiescent_shape in exact T).
Proof. exact CowProofs.cow_quiescent_shape. Qed.
Theorem cow_commit_completes : ltac:(let T := type of CowProofs.cow_commit_completes in exact T).
Proof. exact CowProofs.cow_commit_completes. Qed.
Theorem cow_bounded_work : ltac:(let T := type of CowProofs.cow_bounded_work in exact T).
Proof. exact CowProofs.cow_bounded_work. Qed.
(* existence form: from every reachable state of programs that give back every write handle they take and do not
   call lock() while holding one (CowProofs.releases_writes, decidable; snapshots may be kept for ever) some schedule
   of at most mu(s) steps finishes every thread *)
Theorem cow_eventually_finishes : ltac:(let T := type of CowProofs.cow_eventually_finishes in exact T).
Proof. exact CowProofs.cow_eventually_finishes. Qed.

(* ---------- rcu_guarded / rcu_list ---------- *)
(* every step of a read operation - registration (lock_read's lazy rcu_read_lock), begin, ++, *, and the whole
   release / reclaim path - is enabled in ANY state under ANY choice *)
Theorem rcu_read_nonblocking : ltac:(let T := type of RcuReadProofs.read_nonblocking in exact T).
Proof. exact RcuReadProofs.read_nonblocking. Qed.
Theorem rcu_idle_enabled : ltac:(let T := type of RcuReadProofs.idle_enabled in exact T).
Proof. exact RcuReadProofs.idle_enabled. Qed.
(* the only blocking points of the whole component are the two acquisitions of the write mutex (push / erase) *)
Theorem rcu_blocked_only_at_write_mutex : ltac:(let T := type of RcuReadProofs.blocked_only_at_write_mutex in exact T).
Proof. exact RcuReadProofs.blocked_only_at_write_mutex. Qed.
(* no reader step touches the write mutex *)
Theorem rcu_readers_take_no_mutex : ltac:(let T := type of RcuReadProofs.readers_take_no_mutex in exact T).
Proof. exact RcuReadProofs.readers_take_no_mutex. Qed.
(* run alone, registration completes in five steps (allocate, construct, load head, store next, one CAS);
   the CAS retries only when the log head changed, and the head changes only by a successful CAS of another thread *)
Theorem rcu_register_solo : ltac:(let T := type of RcuReadProofs.register_solo in exact T).
Proof. exact RcuReadProofs.register_solo. Qed.
Theorem rcu_zhead_changes_by_cas : ltac:(let T := type of RcuReadProofs.zhead_changes_by_cas in exact T).
Proof. exact RcuReadProofs.zhead_changes_by_cas. Qed.

(* no deadlock, no livelock: in every reachable unfinished state some retry-free step is enabled, and from every
   reachable state a schedule of at most [mu s] steps (the mutex holder first, then every thread alone: a stale
   CAS fails at most once and the solo retry succeeds) finishes every thread - for all programs, including
   those that never release their handles *)
Theorem rcu_progress_step : ltac:(let T := type of RcuLiveProofs.progress_step in exact T).
Proof. exact RcuLiveProofs.progress_step. Qed.
Theorem rcu_eventually_finishes : ltac:(let T := type of RcuLiveProofs.eventually_finishes in exact T).
Proof. exact RcuLiveProofs.eventually_finishes. Qed.
