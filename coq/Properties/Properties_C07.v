(* C07 - No data races: every granted access happens-after conflicting earlier ones; the memory orders used
   for the library's atomics are strong enough for its lock-free protocols.

   A multi-component property; the statement of each theorem below is, verbatim, the type of the named lemma.
   Three layers (DESIGN.md, section 5 / C07):
   (1) data protected by a mutex: lock discipline  =>  vector-clock (happens-before) race freedom, proved once
       for any number of threads, locks and locations (Common/Lockset.v), and the discipline itself - "the
       protected fields change only in steps of the thread that owns the mutex", "at most one thread is inside
       a critical section", "payload windows open only under the guard" - per component;
   (2) lock-free protocols whose atomics are all seq_cst: no two conflicting non-atomic access windows are ever
       open at once in the interleaving model, and every atomic event of the model carries seq_cst (the
       correspondence check compares the memory-order argument of every atomic operation of the source with the
       model on every run, so a weakened order in the source breaks the tie even on x86);
   (3) the protocols proved directly in the Views semantics (Common/Views.v: vector clocks, release sequences,
       coherence; loads may read any coherence-allowed message): trip line (release/acquire), Latch fast path,
       and the whole left-right protocol, each with machine-checked refutations for the weakened orders. *)
From GV Require Lockset TraceActs.
From GV Require LatchProofs LatchViews LRProofs LRViews DeferredProofs TriggerMO WrapperTrace CowProofs CowMO Properties_C04 RcuReadProofs Properties_C05 Properties_C12 RcuViews.
From GV Require Properties_C19 Properties_C18 Properties_C17 Properties_C16.

(* ================= layer 1: mutex-protected data ================= *)
(* lock discipline implies happens-before race freedom (any threads, locks, locations, trace length) *)
Theorem lockset_race_free : ltac:(let T := type of Lockset.lockset_race_free in exact T).
Proof. exact Lockset.lockset_race_free. Qed.
Theorem lockset_race_free_init : ltac:(let T := type of Lockset.lockset_race_free_init in exact T).
Proof. exact Lockset.lockset_race_free_init. Qed.
(* guarded / guarded_opt / shared_guarded(_opt) / ordered_guarded / atomic_guarded: the OBSERVABLE trace of every
   run (the very lines the correspondence check compares with the implementation), read as lock / unlock /
   shared lock / access actions, obeys the lock discipline - every payload window edge happens while the acting
   thread holds the wrapper's mutex, exclusively for writes - for every flavour, mutex kind, payload kind, throw
   plan, program and schedule (under `safe`: locking enabled and no client dereferenced a handle that owns
   nothing); hence no access is a happens-before race *)
Theorem wr_trace_discipline : ltac:(let T := type of WrapperTrace.wr_trace_discipline in exact T).
Proof. exact WrapperTrace.wr_trace_discipline. Qed.
Theorem wr_hb_race_free : ltac:(let T := type of WrapperTrace.wr_hb_race_free in exact T).
Proof. exact WrapperTrace.wr_hb_race_free. Qed.
(* DelayedObjects: the four maps change only inside the owner's critical section; one thread inside at a time *)
Theorem do_atomic_sections : ltac:(let T := type of Properties_C18.do_atomic_sections in exact T).
Proof. exact Properties_C18.do_atomic_sections. Qed.
Theorem do_mutual_exclusion : ltac:(let T := type of Properties_C18.do_mutual_exclusion in exact T).
Proof. exact Properties_C18.do_mutual_exclusion. Qed.
(* SearchableObjectHolder: likewise, and every copy / destruction of a map node's shared_ptr happens inside it *)
Theorem soh_changes_inside_section : ltac:(let T := type of Properties_C17.soh_changes_inside_section in exact T).
Proof. exact Properties_C17.soh_changes_inside_section. Qed.
Theorem soh_mutual_exclusion : ltac:(let T := type of Properties_C17.soh_mutual_exclusion in exact T).
Proof. exact Properties_C17.soh_mutual_exclusion. Qed.
Theorem soh_ptr_windows_disjoint : ltac:(let T := type of Properties_C17.soh_ptr_windows_disjoint in exact T).
Proof. exact Properties_C17.soh_ptr_windows_disjoint. Qed.
(* DelayedDestructor: one thread inside destructionLock at a time; user code (callbacks, destructors) outside it *)
Theorem dd_mutual_exclusion : ltac:(let T := type of Properties_C16.dd_mutual_exclusion in exact T).
Proof. exact Properties_C16.dd_mutual_exclusion. Qed.

(* ================= layer 2: seq_cst-only protocols ================= *)
(* lr_guarded: a write window on a copy excludes every read window on it and every other write window *)
Theorem lr_windows_disjoint : ltac:(let T := type of LRProofs.windows_disjoint in exact T).
Proof. exact LRProofs.windows_disjoint. Qed.
Theorem lr_all_atomics_seq_cst : ltac:(let T := type of LRProofs.all_atomics_seq_cst in exact T).
Proof. exact LRProofs.all_atomics_seq_cst. Qed.
(* deferred_guarded: payload windows disjoint; its only atomic (the pending flag) is seq_cst; the queue is
   protected by its own mutex *)
Theorem def_windows_disjoint : ltac:(let T := type of DeferredProofs.def_windows_disjoint in exact T).
Proof. exact DeferredProofs.def_windows_disjoint. Qed.
Theorem def_all_atomics_seq_cst : ltac:(let T := type of DeferredProofs.def_all_atomics_seq_cst in exact T).
Proof. exact DeferredProofs.def_all_atomics_seq_cst. Qed.
(* cow_guarded: the invisible shared_ptr accesses to the two copies of the inner left-right never overlap
   (reader window vs. writer window), and every inner atomic is seq_cst *)
Theorem cow_inner_exclusion : ltac:(let T := type of Properties_C04.cow_inner_exclusion in exact T).
Proof. exact Properties_C04.cow_inner_exclusion. Qed.
Theorem cow_all_atomics_seq_cst : ltac:(let T := type of CowMO.cow_all_atomics_seq_cst in exact T).
Proof. exact CowMO.cow_all_atomics_seq_cst. Qed.
(* Latch: the counter is the only atomic, always seq_cst; TriggerVariable: all seq_cst but the acquire load
   of reset()'s retry loop, through which nothing is published *)
Theorem latch_all_atomics_seq_cst : ltac:(let T := type of LatchProofs.all_atomics_seq_cst in exact T).
Proof. exact LatchProofs.all_atomics_seq_cst. Qed.
Theorem trigger_mo_table : ltac:(let T := type of TriggerMO.trigger_mo_table in exact T).
Proof. exact TriggerMO.trigger_mo_table. Qed.
(* every notify_all is issued while the notifier owns the condition variable's mutex (so a waiter can return only
   after the notifier's last access to the members: no lifetime race when the consumer then destroys the variable);
   and the unlocked fast path of wait() needs a releasing reset store and an acquiring load (Views fragment) *)
Theorem trigger_notify_under_lock : ltac:(let T := type of TriggerMO.notify_under_lock in exact T).
Proof. exact TriggerMO.notify_under_lock. Qed.
Theorem trigger_section_exclusive : ltac:(let T := type of TriggerMO.trigger_section_exclusive in exact T).
Proof. exact TriggerMO.trigger_section_exclusive. Qed.
Theorem trigger_fast_path_ordered : ltac:(let T := type of TriggerMO.fast_path_ordered in exact T).
Proof. exact TriggerMO.fast_path_ordered. Qed.
Theorem trigger_reset_store_relaxed_refuted : ltac:(let T := type of TriggerMO.reset_store_relaxed_refuted in exact T).
Proof. exact TriggerMO.reset_store_relaxed_refuted. Qed.
Theorem trigger_fast_path_load_relaxed_refuted : ltac:(let T := type of TriggerMO.fast_path_load_relaxed_refuted in exact T).
Proof. exact TriggerMO.fast_path_load_relaxed_refuted. Qed.

(* rcu_list: the memory order of every atomic site (relaxed at exactly three: the load of the log head before
   the validating seq_cst CAS, the store into a record's next before the record is published by that CAS, the
   load of m_tail under the write mutex; every other site seq_cst); the plain fields (deleted, zombie_node,
   data) change only under the write mutex; no access ever touches a destroyed or freed cell *)
Theorem rcu_mo_table : ltac:(let T := type of RcuReadProofs.mo_table in exact T).
Proof. exact RcuReadProofs.mo_table. Qed.
Theorem rcu_mutators_hold_mutex : ltac:(let T := type of Properties_C12.rcu_mutators_hold_mutex in exact T).
Proof. exact Properties_C12.rcu_mutators_hold_mutex. Qed.
Theorem rcu_no_uaf : ltac:(let T := type of Properties_C05.rcu_no_uaf in exact T).
Proof. exact Properties_C05.rcu_no_uaf. Qed.

(* ================= layer 3: Views semantics ================= *)
(* trip line: release store / acquire load publish what the triggering thread wrote; relaxed on either side races *)
Theorem tw_publishes : ltac:(let T := type of Properties_C19.tw_publishes in exact T).
Proof. exact Properties_C19.tw_publishes. Qed.
Theorem tw_source_orders : ltac:(let T := type of Properties_C19.tw_source_orders in exact T).
Proof. exact Properties_C19.tw_source_orders. Qed.
Theorem tw_relaxed_refuted : ltac:(let T := type of Properties_C19.tw_relaxed_refuted in exact T).
Proof. exact Properties_C19.tw_relaxed_refuted. Qed.
(* Latch fast path: a wait() that returns after one unlocked load happens-after >= start arrive() calls, and
   reading what those arrivers wrote before arriving is race-free; a relaxed load or a relaxed RMW races *)
Theorem latch_fast_path_publishes : ltac:(let T := type of LatchViews.fast_path_publishes in exact T).
Proof. exact LatchViews.fast_path_publishes. Qed.
Theorem latch_fast_path_count : ltac:(let T := type of LatchViews.fast_path_count in exact T).
Proof. exact LatchViews.fast_path_count. Qed.
Theorem latch_fast_path_relaxed_refuted : ltac:(let T := type of LatchViews.fast_path_relaxed_refuted in exact T).
Proof. exact LatchViews.fast_path_relaxed_refuted. Qed.
Theorem latch_fast_path_relaxed_rmw_refuted : ltac:(let T := type of LatchViews.fast_path_relaxed_rmw_refuted in exact T).
Proof. exact LatchViews.fast_path_relaxed_rmw_refuted. Qed.
(* left-right: with the source's orders (all seq_cst) no access to either copy is a data race, from the atomics
   and the write mutex alone; readers read the committed sequence; each weakened site has a racy history *)
Theorem lr_hb_race_free : ltac:(let T := type of LRViews.lr_hb_race_free in exact T).
Proof. exact LRViews.lr_hb_race_free. Qed.
Theorem lr_hb_reads_after_write : ltac:(let T := type of LRViews.lr_hb_reads_after_write in exact T).
Proof. exact LRViews.lr_hb_reads_after_write. Qed.
Theorem lr_hb_write_after_reads : ltac:(let T := type of LRViews.lr_hb_write_after_reads in exact T).
Proof. exact LRViews.lr_hb_write_after_reads. Qed.
Theorem lr_hb_values : ltac:(let T := type of LRViews.lr_hb_values in exact T).
Proof. exact LRViews.lr_hb_values. Qed.
Theorem lr_relaxed_rl_load_refuted : ltac:(let T := type of LRViews.lr_relaxed_rl_load_refuted in exact T).
Proof. exact LRViews.lr_relaxed_rl_load_refuted. Qed.
Theorem lr_relaxed_dec_refuted : ltac:(let T := type of LRViews.lr_relaxed_dec_refuted in exact T).
Proof. exact LRViews.lr_relaxed_dec_refuted. Qed.
Theorem lr_relaxed_drain_refuted : ltac:(let T := type of LRViews.lr_relaxed_drain_refuted in exact T).
Proof. exact LRViews.lr_relaxed_drain_refuted. Qed.
Theorem lr_relacq_flip_refuted : ltac:(let T := type of LRViews.lr_relacq_flip_refuted in exact T).
Proof. exact LRViews.lr_relacq_flip_refuted. Qed.

(* RCU reclaim log: with the source's orders (relaxed guess of the log head, relaxed pre-publication store to the
   private record's next, seq_cst CAS; seq_cst owner.store(nullptr) and scan loads) no plain access to a record's
   fields or to an erased node is a data race - every other thread reaches a record only through a value
   published by a successful CAS, and a reclaimer frees only after every released reader's last access.  Indeed
   only four sites matter: the two CASes (release+acquire), owner.store(nullptr) (release) and the scan's owner
   load (acquire): every other site may have ANY order.  Each of those four, weakened to relaxed, has a racy
   history.  The relaxed load of m_tail under the write mutex reads the newest store. *)
Theorem rcu_log_publication : ltac:(let T := type of RcuViews.rcu_log_publication in exact T).
Proof. exact RcuViews.rcu_log_publication. Qed.
Theorem rcu_log_sufficient_orders : ltac:(let T := type of RcuViews.rcu_log_sufficient_orders in exact T).
Proof. exact RcuViews.rcu_log_sufficient_orders. Qed.
Theorem rcu_scan_reads_newest : ltac:(let T := type of RcuViews.rcu_scan_reads_newest in exact T).
Proof. exact RcuViews.rcu_scan_reads_newest. Qed.
Theorem rcu_tail_relaxed_ok : ltac:(let T := type of RcuViews.rcu_tail_relaxed_ok in exact T).
Proof. exact RcuViews.rcu_tail_relaxed_ok. Qed.
Theorem rcu_relaxed_cas_refuted : ltac:(let T := type of RcuViews.rcu_relaxed_cas_refuted in exact T).
Proof. exact RcuViews.rcu_relaxed_cas_refuted. Qed.
Theorem rcu_relaxed_erase_cas_refuted : ltac:(let T := type of RcuViews.rcu_relaxed_erase_cas_refuted in exact T).
Proof. exact RcuViews.rcu_relaxed_erase_cas_refuted. Qed.
Theorem rcu_relaxed_owner_store_refuted : ltac:(let T := type of RcuViews.rcu_relaxed_owner_store_refuted in exact T).
Proof. exact RcuViews.rcu_relaxed_owner_store_refuted. Qed.
Theorem rcu_relaxed_scan_owner_refuted : ltac:(let T := type of RcuViews.rcu_relaxed_scan_owner_refuted in exact T).
Proof. exact RcuViews.rcu_relaxed_scan_owner_refuted. Qed.
