(* C05 - rcu_list never frees an element a live handle may still reach.
   Statements only; every proof is `exact <lemma>`. *)
From Coq Require Import List Arith ZArith Lia Bool.
Import ListNotations.
From GV Require Import Sched Events RcuModel RcuBase RcuListProofs.
Local Open Scope Z_scope.

(* every node reference held by a thread (iterator slots, registers of the operation in progress) is a
   node cell that was published: in the list, or erased from it - never a log record, never a node
   that is still being constructed *)
Theorem rcu_refs_are_published_nodes : forall unf progs s t l c,
  R unf progs s -> nth_error (thr s) t = Some l -> In c (nrefs l) -> pubn (gl s) c.
Proof. exact refs_published. Qed.
