(* C05 - rcu_list never frees an element a live handle may still reach.
   Statements only; every proof is `exact <lemma>`.
   Model: coq/Model/RcuModel.v ([init false] = the repaired source).  All theorems quantify over any
   number of threads, any client programs over the rcu_guarded / rcu_list API and every schedule,
   including spurious failures of the weak CAS (choice 3).  Client operations that make no sense (no
   handle, unknown iterator slot, mutation through a read handle) are skipped by the model and by the
   driver alike and touch nothing, so no well-formedness hypothesis is needed for safety. *)
From Coq Require Import List Arith ZArith Lia Bool.
Import ListNotations.
From GV Require Import Sched Events RcuModel RcuBase RcuListProofs RcuLogProofs RcuSafetyProofs.

(* The fault flag is set by: an access (atomic operation on a node / record field, read of an element)
   to a cell whose allocator state is not Constructed, by an allocator call that is not the next one of
   the cell's ledger (construct of a non-allocated cell, destroy of a non-constructed one, deallocate of
   a non-destroyed one) and by destroy / deallocate of a null pointer.  It is never set. *)
Theorem rcu_no_uaf : forall progs s, R false progs s -> fault (gl s) = false.
Proof. exact no_fault. Qed.

(* every node an iterator slot or a register of any thread refers to is a constructed node cell: an
   iterator obtained through a live handle can always be dereferenced and advanced *)
Theorem rcu_reachable_alive : forall unf progs s t l c,
  R unf progs s -> nth_error (thr s) t = Some l -> In c (nrefs l) -> okn (gl s) c = true.
Proof. exact reachable_alive. Qed.

(* [covers g ls r k]: node k is in the list, or is being erased right now, or was erased and its log
   record is newer than the registration record r.  While r is owned (its handle is alive) the next
   pointer of a covered node leads to a covered, constructed node - whatever is erased concurrently *)
Theorem rcu_covered_closed : forall unf progs s r k m, R unf progs s ->
  inlog (gl s) r -> zown (gl s) r <> None -> covers (gl s) (thr s) r k -> nx (gl s) k = Some m ->
  covers (gl s) (thr s) r m /\ okn (gl s) m = true.
Proof. exact covered_closed. Qed.

(* ... and what a thread refers to is covered by the thread's own record: see c_refs in InvC; the
   consequence for reclamation: a node about to be destroyed is covered by no owned record, i.e. every
   handle that was in use when it was erased has been released *)
Theorem rcu_destroy_only_unprotected : forall unf progs s t l n d r, R unf progs s ->
  nth_error (thr s) t = Some l -> at_ l = U_dd n (Some d) ->
  inlog (gl s) r -> zown (gl s) r <> None -> ~ covers (gl s) (thr s) r d.
Proof. exact destroy_only_unprotected. Qed.

(* the log protocol: a releaser reclaims only when every record older than its own is unowned ... *)
Theorem rcu_reclaim_needs_all_older_released : forall unf progs s t l n c, R unf progs s ->
  nth_error (thr s) t = Some l -> region_pc (at_ l) = Some n ->
  inlog (gl s) c -> zsq (gl s) c < zsq (gl s) (own_rec l) -> zown (gl s) c = None.
Proof. exact reclaim_needs_all_older_released. Qed.
(* ... hence at most one thread is reclaiming at any time ... *)
Theorem rcu_single_reclaimer : forall unf progs s u v lu lv n m, R unf progs s ->
  nth_error (thr s) u = Some lu -> nth_error (thr s) v = Some lv ->
  region_pc (at_ lu) = Some n -> region_pc (at_ lv) = Some m -> u = v.
Proof. exact single_reclaimer. Qed.
(* ... and the record of a live registered handle is on the log, constructed and owned by it *)
Theorem rcu_own_record_alive : forall unf progs s u w z, R unf progs s ->
  hnd (locof (thr s) u) = Some (w, Some z) ->
  In z (zlog (gl s)) /\ cs_of (gl s) z = Some Constr /\ zown (gl s) z = Some (guard_of u w).
Proof. exact own_record_alive. Qed.
(* the log is never walked after it was freed (the sub-protocol with nodes abstracted) *)
Theorem rcu_no_uaf_log : forall unf progs s t l z,
  R unf progs s -> nth_error (thr s) t = Some l -> rec_access l = Some z -> okz (gl s) z = true.
Proof. exact no_uaf_log. Qed.

(* ---------- non-vacuity ---------- *)
(* thread 0 pushes 10, 20, 30 and releases; thread 1 registers and pauses on 20; thread 0 erases 20 and
   releases; thread 2 registers after the erase and is in the middle of its release: it scans, finds
   thread 1's record owned and does not reclaim.  Thread 1's iterator still refers to the erased,
   constructed node. *)
Definition ex_progs : list (list op) :=
  [[LockWrite; PushBack 10; PushBack 20; PushBack 30; Release; LockWrite; Begin 0; Next 0; Erase 0; Release];
   [LockRead; Begin 0; Next 0; Deref 0; Next 0; Deref 0; Release];
   [LockRead; Begin 0; Release]].
Definition ex_sched : list (nat * nat) :=
  repeat (0, 0) 36 ++ repeat (1, 0) 10 ++ repeat (0, 0) 27 ++ repeat (2, 0) 15.
Definition ex_state := run glob loc tstep (init false ex_progs) ex_sched.
Example ex_paused_reader_protected :
  lst (gl ex_state) = [1; 3] /\ dl (gl ex_state) 2 = true /\ cs_of (gl ex_state) 2 = Some Constr /\
  (exists l, nth_error (thr ex_state) 1 = Some l /\ In 2 (nrefs l) /\ hnd l = Some (false, Some 4)) /\
  (exists l, nth_error (thr ex_state) 2 = Some l /\ at_ l = U_sto) /\
  covers (gl ex_state) (thr ex_state) 4 2 /\ fault (gl ex_state) = false.
Proof.
  vm_compute. repeat split; auto.
  - eexists. split; [reflexivity|]. cbn. auto.
  - eexists. split; reflexivity.
  - right. right. exists 6. vm_compute. repeat split; auto; try discriminate.
Qed.
