(* C19 - a trip line is one-way, per line, and publishes what preceded it.
   Statements only; every proof is `exact <lemma>` into Proofs/TripWireProofs.v.

   All theorems quantify over the parameter record P (number of indexed / explicit lines and
   data, the memory orders of the two atomic sites, interleaving or Views semantics, repaired
   or pre-repair destructor) unless a hypothesis fixes a field, over any number of threads
   with any programs over the thirteen operations of Model/TripWireModel.v, and over every
   schedule; in the Views semantics the schedule's choice also selects which
   coherence-allowed message each load reads.

   Reading the event-based statements: a step of thread t is
     nth_error (thr s) t = Some lc  and  tstep P t c (gl s) lc = Some (g', lc', es);
   `Ev K_LOAD (lobj l) v m` in es is "isTripped on line l read v", `Ev K_STORE (lobj l) v m`
   is "~TripWireTrigger stored v to line l" - exactly the lines the instrumented build logs. *)
From Coq Require Import List Arith ZArith Lia Bool.
Import ListNotations.
From GV Require Import Sched Events Views TripWireModel TripWireProofs.
Local Open Scope Z_scope.

(* ---- "Detectors report false until the first trigger attached to their line is destroyed" ---- *)
(* a load that returns true is preceded by the destruction of a trigger attached to that line
   ([destroyed] counts exactly the Destroy operations on slots holding that line) *)
Theorem tw_false_until : forall P progs s t c lc g' lc' es l m,
  R P progs s -> nth_error (thr s) t = Some lc -> tstep P t c (gl s) lc = Some (g', lc', es) ->
  In (Ev K_LOAD (lobj l) 1 m) es -> (0 < destroyed (gl s) l)%nat.
Proof. exact false_until. Qed.

(* ---- one-way: the modification order of a line is  false, then only true ---- *)
Theorem tw_one_way : forall P progs s l m, R P progs s -> In m (hs (gl s) l) -> mval m = 1.
Proof. exact one_way. Qed.
(* ... no step ever stores anything but true (moves, assignments and moved-from objects included) *)
Theorem tw_only_true_is_stored : forall P t c g lc g' lc' es ob v m,
  tstep P t c g lc = Some (g', lc', es) -> In (Ev K_STORE ob v m) es -> v = 1.
Proof. exact store_only_true. Qed.

(* ---- "from then on ... reports true forever" ---- *)
(* per thread, in both semantics (coherence): a thread that read true from l reads true from l ever after *)
Theorem tw_monotone : forall P progs s1 t c1 lc1 g1 lc1' es1 l m1 s2 c2 lc2 g2 lc2' es2 v m2,
  R P progs s1 -> nth_error (thr s1) t = Some lc1 -> tstep P t c1 (gl s1) lc1 = Some (g1, lc1', es1) ->
  In (Ev K_LOAD (lobj l) 1 m1) es1 ->
  reachable glob loc (tstep P) (Sys g1 (upd (thr s1) t lc1')) s2 ->
  nth_error (thr s2) t = Some lc2 -> tstep P t c2 (gl s2) lc2 = Some (g2, lc2', es2) ->
  In (Ev K_LOAD (lobj l) v m2) es2 -> v = 1.
Proof. exact monotone. Qed.

(* Views semantics: every load that happens-after a trip store (the store's epoch is in the
   reader's clock) returns true.  Under C++11 alone a thread with no happens-before relation to
   the store may still read false for a finite time ([atomics.order]/12): that is a run-time
   matter, stated here, not hidden. *)
Theorem tw_hb_true : forall P progs s t c l m,
  R P progs s -> In m (hs (gl s) l) -> known (clk (gl s) t) m = true -> load_val P t c l (gl s) = 1.
Proof. exact hb_true. Qed.

(* sequentially consistent instance (the one compared with the code): after the store step every
   isTripped on that line, by every thread, returns true *)
Theorem tw_sc_forever : forall P progs s1 t1 c1 lc1 g1 lc1' es1 l v1 m1 s2 t2 c2 lc2 g2 lc2' es2 v m2,
  views P = false ->
  R P progs s1 -> nth_error (thr s1) t1 = Some lc1 -> tstep P t1 c1 (gl s1) lc1 = Some (g1, lc1', es1) ->
  In (Ev K_STORE (lobj l) v1 m1) es1 ->
  reachable glob loc (tstep P) (Sys g1 (upd (thr s1) t1 lc1')) s2 ->
  nth_error (thr s2) t2 = Some lc2 -> tstep P t2 c2 (gl s2) lc2 = Some (g2, lc2', es2) ->
  In (Ev K_LOAD (lobj l) v m2) es2 -> v = 1.
Proof. exact sc_forever. Qed.

(* ---- "distinct indexed lines are independent" (all lines: declared, indexed, explicit) ---- *)
(* a step that does not log a store on line l' leaves l' exactly as it was; and what a detector of l'
   reads is a function of l's history and the reader's own view only *)
Theorem tw_lines_independent : forall P t c g lc g' lc' es l',
  tstep P t c g lc = Some (g', lc', es) ->
  (forall v m, ~ In (Ev K_STORE (lobj l') v m) es) -> hs g' l' = hs g l'.
Proof. exact lines_independent. Qed.
Theorem tw_detector_reads_own_line : forall P t c l g g2,
  hs g2 l = hs g l -> clk g2 t = clk g t -> seen g2 t l = seen g t l -> load_val P t c l g2 = load_val P t c l g.
Proof. exact load_depends_on_own_line. Qed.

(* ---- "an out-of-range index is rejected with an exception" (state unchanged) ---- *)
Theorem tw_index_range : forall P t c g lc s i r,
  at_ lc = Idle -> prog lc = MkTrigI s i :: r -> trg lc s = None -> (nidx P <= i)%nat ->
  tstep P t c g lc = Some (g, Loc r Idle (trg lc) (det lc), [inv_ev (MkTrigI s i); E K_CATCH 0 0]).
Proof. exact index_range_trigger. Qed.
Theorem tw_index_range_detector : forall P t c g lc s i r,
  at_ lc = Idle -> prog lc = MkDetI s i :: r -> det lc s = None -> (nidx P <= i)%nat ->
  tstep P t c g lc = Some (g, Loc r Idle (trg lc) (det lc), [inv_ev (MkDetI s i); E K_CATCH 0 0]).
Proof. exact index_range_detector. Qed.

(* ---- "moving a trigger transfers the duty to trip the line" ---- *)
(* after move construction / move assignment the source object holds no line, the target holds the
   source's line, nothing else changes, nothing is stored *)
Theorem tw_move : forall P t c g lc s d r x,
  at_ lc = Idle -> prog lc = MoveCtor s d :: r -> trg lc s = Some x -> trg lc d = None -> s <> d ->
  exists T', tstep P t c g lc = Some (g, Loc r Idle T' (det lc), [inv_ev (MoveCtor s d); ret 0]) /\
             moved (trg lc) T' s d x.
Proof. exact move_ctor. Qed.
Theorem tw_move_assign : forall P t c g lc s d r x y,
  at_ lc = Idle -> prog lc = MoveAssign s d :: r -> trg lc s = Some x -> trg lc d = Some y -> s <> d ->
  exists T', tstep P t c g lc = Some (g, Loc r Idle T' (det lc), [inv_ev (MoveAssign s d); ret 0]) /\
             moved (trg lc) T' s d x.
Proof. exact move_assign. Qed.
(* the moved-from object can be destroyed safely and trips nothing: state unchanged, no fault *)
Theorem tw_moved_from_destroy : forall P t c g lc s r,
  unfixed P = false -> at_ lc = Idle -> prog lc = Destroy s :: r -> trg lc s = Some None ->
  tstep P t c g lc = Some (g, Loc r Idle (fupd (trg lc) s None) (det lc), [inv_ev (Destroy s); ret 0]).
Proof. exact moved_from_destroy. Qed.
(* the object now holding line l trips l at its destruction: invoke step, then the store step *)
Theorem tw_attached_destroy : forall P t c g lc s r l,
  at_ lc = Idle -> prog lc = Destroy s :: r -> trg lc s = Some (Some l) ->
  tstep P t c g lc = Some (bump_destroyed g l, Loc r (P_store l) (fupd (trg lc) s None) (det lc), [inv_ev (Destroy s)]).
Proof. exact attached_destroy. Qed.
Theorem tw_store_step : forall P t c g lc l,
  at_ lc = P_store l ->
  tstep P t c g lc = Some (do_store P t l g, goto lc Idle, [EA K_STORE (lobj l) 1 (mo_code (st_mo P)); ret 0]) /\
  hs (do_store P t l g) l <> [].
Proof. exact store_step. Qed.
(* no reachable state of the repaired code has dereferenced a null line *)
Theorem tw_no_null_deref : forall P progs s, unfixed P = false -> R P progs s -> gnull (gl s) = false.
Proof. exact no_null_deref. Qed.

(* ---- "everything the triggering thread wrote before destroying the trigger is visible to a
        thread that has observed the line as tripped" (Views semantics) ---- *)
(* Discipline (decidable, [wf_pub P p L D progs]): p is the only thread attaching triggers to line L
   and the only writer of datum D, p does not write D after its first trigger destruction, and every
   other thread touches D only by "read D if my detector of L reports tripped" (op PollRead).
   Then, for any release-or-stronger store and acquire-or-stronger load, in particular the source's: *)
Theorem tw_publishes : forall P p L D, is_rel (st_mo P) = true -> is_acq (ld_mo P) = true ->
  forall progs s, wf_pub P p L D progs = true -> R P progs s -> grace (gl s) D = false.
Proof. exact publishes. Qed.
(* the happens-before fact itself: a reader that observed L tripped and is about to read D has the
   publisher's last write of D in its vector clock *)
Theorem tw_publishes_hb : forall P p L D, is_rel (st_mo P) = true -> is_acq (ld_mo P) = true ->
  forall progs s t, wf_pub P p L D progs = true -> R P progs s -> t <> p -> pcof (thr s) t = P_rbeg D ->
  hs (gl s) L <> [] /\ (fwhen (cft (cells (gl s) D)) <= clk (gl s) t p)%nat /\
  (fwhen (cft (cells (gl s) D)) = 0%nat \/ fwho (cft (cells (gl s) D)) = p).
Proof. exact publishes_hb. Qed.
(* value read = value written: once L is tripped D is complete and never changes again *)
Theorem tw_publishes_value : forall P p L D, is_rel (st_mo P) = true -> is_acq (ld_mo P) = true ->
  forall progs s, wf_pub P p L D progs = true -> R P progs s -> hs (gl s) L <> [] ->
  cdirty (cells (gl s) D) = false /\
  forall t c lc g' lc' es, nth_error (thr s) t = Some lc -> tstep P t c (gl s) lc = Some (g', lc', es) ->
    cval (cells g' D) = cval (cells (gl s) D).
Proof. exact publishes_stable. Qed.
(* the source's orders are release / acquire *)
Theorem tw_source_orders : is_rel tw_store_mo = true /\ is_acq tw_load_mo = true /\
  mo_code tw_store_mo = MO_RELEASE /\ mo_code tw_load_mo = MO_ACQUIRE.
Proof. exact (conj eq_refl (conj eq_refl (conj eq_refl eq_refl))). Qed.

(* ---- refutations (witnesses found by computation) ---- *)
(* with Relaxed on either side a disciplined program has a racy execution *)
Theorem tw_relaxed_refuted :
  (exists progs sched, wf_pub (Pviews Relaxed Acquire) 0 pub_line 0 progs = true /\
                       grace (gl (runT (Pviews Relaxed Acquire) progs sched)) 0 = true) /\
  (exists progs sched, wf_pub (Pviews Release Relaxed) 0 pub_line 0 progs = true /\
                       grace (gl (runT (Pviews Release Relaxed) progs sched)) 0 = true).
Proof. exact relaxed_refuted. Qed.
(* the destructor as it was before repair 58ffa14 dereferences null on a moved-from trigger *)
Theorem tw_unfixed_refuted : exists progs sched, gnull (gl (runT Punfixed progs sched)) = true.
Proof. exact unfixed_refuted. Qed.

(* ---------- non-vacuity and notes ---------- *)
(* the publication program satisfies the discipline; with the source's orders its reader observes
   the trip, stands at the read of the datum with the publisher's write in its clock, and reads 7 *)
Definition Psrc := Pviews tw_store_mo tw_load_mo.
Example ex_publication :
  wf_pub Psrc 0 pub_line 0 pub_progs = true /\
  (let s := runT Psrc pub_progs (firstn 9 pub_sched) in
   pcof (thr s) 1 = P_rbeg 0 /\ hs (gl s) pub_line <> [] /\ fwho (cft (cells (gl s) 0)) = 0%nat) /\
  (let s := runT Psrc pub_progs pub_sched in
   grace (gl s) 0 = false /\ cval (cells (gl s) 0) = 7 /\ forallb fin (thr s) = true).
Proof. vm_compute. repeat split; discriminate. Qed.

(* a detector reads false before the trip and true after it; the hypotheses of tw_false_until,
   tw_monotone and tw_sc_forever are met by these steps *)
Example ex_load_events :
  let P := mkP false false tw_store_mo tw_load_mo 3 1 0 2 in
  let progs := [[MkTrigE 0 0; Destroy 0]; [MkDetE 0 0; IsTripped 0; IsTripped 0]] in
  let s0 := runT P progs [(0,0);(1,0);(1,0)]%nat in
  let s1 := runT P progs [(0,0);(1,0);(1,0);(1,0);(0,0);(0,0);(1,0)]%nat in
  (exists lc r, nth_error (thr s0) 1 = Some lc /\ tstep P 1 0 (gl s0) lc = Some r /\
                In (Ev K_LOAD (lobj 4) 0 MO_ACQUIRE) (snd r)) /\
  (exists lc r, nth_error (thr s1) 1 = Some lc /\ tstep P 1 0 (gl s1) lc = Some r /\
                In (Ev K_LOAD (lobj 4) 1 MO_ACQUIRE) (snd r)) /\
  destroyed (gl s1) 4 = 1%nat.
Proof.
  vm_compute. split; [|split; [|reflexivity]]; eexists _, _; (split; [reflexivity|split; [reflexivity|]]); cbn; auto.
Qed.

(* Views semantics only: after the trip a thread without happens-before may still read false
   (choice 1 = the initial message), and having read true it cannot go back (choice 1 is then refused) *)
Example ex_stale_read_then_monotone :
  let P := mkP false true tw_store_mo tw_load_mo 3 1 0 2 in
  let progs := [[MkTrigE 0 0; Destroy 0]; [MkDetE 0 0; IsTripped 0; IsTripped 0; IsTripped 0]] in
  let s := runT P progs [(0,0);(0,0);(0,0);(1,0);(1,0)]%nat in
  hs (gl s) 4 <> [] /\ load_val P 1 1 4 (gl s) = 0 /\ load_val P 1 0 4 (gl s) = 1 /\
  (let s' := runT P progs [(0,0);(0,0);(0,0);(1,0);(1,0);(1,0);(1,0)]%nat in load_val P 1 1 4 (gl s') = 1).
Proof. vm_compute. repeat split; discriminate. Qed.

(* Observation (DESIGN C19), not a finding: tw_publishes is about the store the detector read from.
   With triggers of two threads on one line each destruction is a plain release store which does not
   continue the other's release sequence: a detector that reads the LATER store (t1's) acquires only
   t1's clock, and its read of the datum races with t0's write; reading t0's own store is fine.
   The program is outside the discipline (t1 attaches a trigger to the published line). *)
Example tw_two_triggers_note :
  let progs := [[MkTrigE 0 0; WriteData 0 7; Destroy 0]; [MkTrigE 0 0; Destroy 0]; [MkDetE 0 0; PollRead 0 0]] in
  let P := mkP false true tw_store_mo tw_load_mo 3 1 1 3 in
  let pre := [(0,0);(0,0);(0,0);(0,0);(0,0);(0,0); (1,0);(1,0);(1,0); (2,0);(2,0)]%nat in
  wf_pub P 0 4 0 progs = false /\
  grace (gl (runT P progs (pre ++ [(2,0);(2,0)]%nat))) 0 = true /\      (* reads the newest message: t1's *)
  grace (gl (runT P progs (pre ++ [(2,1);(2,0)]%nat))) 0 = false.     (* reads t0's message *)
Proof. vm_compute. repeat split. Qed.

(* Note on defaulted move assignment: `b = std::move(a)` while b still holds a line just drops b's
   shared_ptr; b's old line is not tripped, by b or by anyone: here every trigger object has been
   destroyed, explicit line 0 is tripped, explicit line 1 never is. *)
Example tw_move_assign_drops_duty :
  let P := mkP false false tw_store_mo tw_load_mo 3 2 0 1 in
  let progs := [[MkTrigE 0 0; MkTrigE 1 1; MoveAssign 0 1; Destroy 0; Destroy 1]] in
  let s := runT P progs [(0,0);(0,0);(0,0);(0,0);(0,0);(0,0)]%nat in
  forallb fin (thr s) = true /\ hs (gl s) (line_exp P 0) <> [] /\ hs (gl s) (line_exp P 1) = [] /\
  destroyed (gl s) (line_exp P 1) = 0%nat /\ faulted 0 (gl s) = false.
Proof. vm_compute. repeat split; discriminate. Qed.

(* a detector created by one thread and polled by another ("every detector on that line, in every
   thread"): the program is inside the discipline, t2 observes the trip through t1's detector and reads 7 *)
Example ex_shared_detector :
  let progs := [[MkTrigE 0 0; WriteData 0 7; Destroy 0]; [MkSDetE 0 0; SPollRead 0 0]; [SPollRead 0 0; SIsTripped 0]] in
  let P := mkP false true tw_store_mo tw_load_mo 3 1 1 3 in
  let s := runT P progs [(1,0);(1,0);(0,0);(0,0);(0,0);(0,0);(0,0);(0,0);(2,0);(2,0);(2,0);(2,0);(2,0);(2,0);(1,0);(1,0);(1,0);(1,0)]%nat in
  wf_pub P 0 4 0 progs = true /\ grace (gl s) 0 = false /\ forallb fin (thr s) = true /\ sdet (gl s) 0 = Some 4%nat.
Proof. vm_compute. repeat split. Qed.

(* the creator of an explicit line drops its own handle (ReleaseLine): the line lives on in the trigger
   and the detector that hold it, the detector still reports the trip; new attachments are refused *)
Example ex_release_line :
  let progs := [[MkDetE 0 0; MkTrigE 0 0; ReleaseLine 0; Destroy 0; IsTripped 0; MkDetE 1 0]] in
  let P := mkP false false tw_store_mo tw_load_mo 3 1 0 1 in
  let s := runT P progs [(0,0);(0,0);(0,0);(0,0);(0,0);(0,0)]%nat in
  released (gl s) 0 = true /\ load_val P 0 0 4 (gl s) = 1 /\
  (let s' := runT P progs [(0,0);(0,0);(0,0);(0,0);(0,0);(0,0);(0,0);(0,0)]%nat in
   forallb fin (thr s') = true /\ det (locof (thr s') 0) 1 = None /\ faulted 0 (gl s') = false).
Proof. vm_compute. repeat split. Qed.
