(* C19 - a trip line is one-way, per line, and publishes what preceded it. *)
From Coq Require Import List Arith ZArith Lia Bool.
Import ListNotations.
From GV Require Import Sched Events Views TripWireModel TripWireProofs.
Local Open Scope Z_scope.
