(* C17 - SearchableObjectHolder is an atomic, memory-safe name-to-object map.
   Statements only; every proof is `exact <lemma>` into Proofs/SOHProofs.v.
   All theorems quantify over the throw plan th (which predicate invocations throw), any
   number of client threads with any programs over the whole API, and every schedule. *)
From Coq Require Import List Arith ZArith Lia Bool.
Import ListNotations.
From GV Require Import Sched Events SOHModel SOHProofs.
Local Open Scope Z_scope.

(* ---------- memory safety ---------- *)
(* soh_iter_safe: no reachable state has faulted - no use of an erased map node (Fault F_ITER), no
   access to a destroyed object (Fault F_UAF) - and no step from a reachable state logs a Fault *)
Theorem soh_iter_safe : forall th progs s, R th progs s -> faulted (gl s) = false.
Proof. exact never_faulted. Qed.
Theorem soh_no_fault_event : forall th progs s t c l g' l' es,
  R th progs s -> nth_error (thr s) t = Some l -> tstep t c (gl s) l = Some (g', l', es) ->
  existsb is_fault es = false.
Proof. exact no_fault_event. Qed.
Theorem soh_fault_is_sticky_flag : forall unfixed t c g l g' l' es,
  tstep_gen unfixed t c g l = Some (g', l', es) -> existsb is_fault es = true -> faulted g' = true.
Proof. exact fault_sets_flag. Qed.

(* soh_unfixed_refuted: with the order of the original header (erase the node, then read its key)
   the one-thread program  addObject(n0, obj, tag); removeObject(pred)  faults *)
Theorem soh_unfixed_refuted :
  exists progs sched, faulted (gl (run glob loc (tstep_gen true) (init [] progs) sched)) = true.
Proof. exact unfixed_faults. Qed.

(* soh_returned_alive: an object held by a client - in a slot, or as the argument / result of a call
   in flight - has use-count >= 1 and is alive, whatever other threads removed meanwhile *)
Theorem soh_returned_alive : forall th progs s u l p,
  R th progs s -> nth_error (thr s) u = Some l ->
  (exists b, getslot b (slots l) = Some p) \/ held l = Some p ->
  (1 <= rc_of (heap (gl s)) (pid p))%nat /\ alive (heap (gl s)) p = true.
Proof. exact returned_alive. Qed.
Theorem soh_stored_alive : forall th progs s k p,
  R th progs s -> lookup k (omap (gl s)) = Some p -> (1 <= rc_of (heap (gl s)) (pid p))%nat.
Proof. exact stored_alive. Qed.
(* the use-count of every object is exactly (entries of the map that hold it) + (client references):
   nothing leaks and no reference is lost *)
Theorem soh_use_count_exact : forall th progs s id,
  R th progs s -> rc_of (heap (gl s)) id = (cnt_o id (omap (gl s)) + list_sum (map (cnt_loc id) (thr s)))%nat.
Proof. exact use_count_exact. Qed.

(* ---------- atomicity ---------- *)
(* soh_atomic_sections: a thread is between its lock and its unlock exactly when it owns mapLock;
   at most one thread is; the maps and the call counter change only in steps of the thread that
   owns the mutex after the step *)
Theorem soh_atomic_sections : forall th progs s u,
  R th progs s -> (mtx (gl s) = Some u <-> holds (pcof (thr s) u) = true).
Proof. exact mutex_iff_inside. Qed.
Theorem soh_mutual_exclusion : forall th progs s u v, R th progs s ->
  holds (pcof (thr s) u) = true -> holds (pcof (thr s) v) = true -> u = v.
Proof. exact mutual_exclusion. Qed.
Theorem soh_changes_inside_section : forall th progs s t c l g' l' es,
  R th progs s -> nth_error (thr s) t = Some l -> tstep t c (gl s) l = Some (g', l', es) ->
  (omap g' = omap (gl s) /\ tmap g' = tmap (gl s) /\ calls g' = calls (gl s)) \/
  (mtx g' = Some t /\ (mtx (gl s) = None \/ mtx (gl s) = Some t)).
Proof. exact changes_inside_section. Qed.

(* soh_linearizable.  The ghost log receives one entry (thread, method, argument, result) in the
   step that releases the mutex, which is the step that emits the method's return event with that
   result (soh_log_at_unlock).  In every reachable state the log is a legal history of the
   sequential map apply_op - every logged result is the one the method returns when run alone on
   the state produced by the entries before it - and whenever the mutex is free the two maps are
   exactly the state that history produces (soh_linearizable).  soh_section_refines is the
   per-method refinement inside a section (stepwise iteration = the method run alone).
   Not mechanised: the general meta-theorem "one linearization point inside each call interval
   implies linearizability" (Herlihy-Wing); here the point (the unlock step) lies between the
   operation's invoke and return events by construction of the pc automaton. *)
Theorem soh_linearizable : forall th progs s, R th progs s ->
  legal (throws (gl s)) st0 (log (gl s)) /\ (mtx (gl s) = None -> cur (gl s) = hist (gl s)).
Proof. exact log_is_history. Qed.
Theorem soh_log_at_unlock : forall t c g l g' l' es, tstep t c g l = Some (g', l', es) ->
  (log g' = log g /\ (holds (at_ l) = false \/ exists o k, at_ l = Call o k)) \/
  (exists o a r, at_ l = Unlock o a r /\ log g' = log g ++ [Entry t o a (Some r)] /\ mtx g' = None /\
                 In (E K_UNLOCK O_MTX 0) es /\ In (E K_RET 0 r) es) \/
  (exists o, at_ l = XUnlock o /\ log g' = log g ++ [Entry t (OP o) null_ptr None] /\ mtx g' = None /\
             In (E K_UNLOCK O_MTX 0) es /\ In (E K_CATCH 0 0) es).
Proof. exact log_step. Qed.
Theorem soh_section_refines : forall th progs s u, R th progs s -> lin_pc (gl s) (pcof (thr s) u).
Proof. exact section_refines. Qed.
Theorem soh_throw_plan_constant : forall th progs s, R th progs s -> throws (gl s) = th.
Proof. exact throws_const. Qed.

(* ---------- exception safety (used by C20) ---------- *)
(* soh_exn_safe: a method that ends with an exception leaves both maps as they were (sequential
   level); the step in which the predicate throws changes neither map and goes to the unwinding
   pc, whose only step releases the mutex (soh_log_at_unlock, third case); a thread back in client
   code owns no mutex *)
Theorem soh_exn_safe : forall thr o a s s', apply_op thr o a s = (s', None) -> m_o s' = m_o s /\ m_t s' = m_t s.
Proof. exact exn_unchanged. Qed.
Theorem soh_throw_step : forall t c g l g' l' es, tstep t c g l = Some (g', l', es) ->
  existsb is_throw es = true -> omap g' = omap g /\ tmap g' = tmap g /\ exists o, at_ l' = XUnlock o.
Proof. exact throw_step. Qed.
Theorem soh_no_lock_left : forall th progs s u,
  R th progs s -> holds (pcof (thr s) u) = false -> mtx (gl s) <> Some u.
Proof. exact top_level_owns_nothing. Qed.

(* ---------- progress ---------- *)
Theorem soh_holder_moves : forall th progs s a c, R th progs s -> mtx (gl s) = Some a -> enabled glob loc tstep s a c.
Proof. exact holder_enabled. Qed.
Theorem soh_blocks_only_on_mutex : forall th progs s t c l,
  R th progs s -> nth_error (thr s) t = Some l -> tstep t c (gl s) l = None ->
  fin l = true \/
  ((exists o, at_ l = SLock o) \/ (exists o, at_ l = PLock o)) /\
  exists a, mtx (gl s) = Some a /\ a <> t /\ enabled glob loc tstep s a 0.
Proof. exact blocks_only_on_mutex. Qed.
Theorem soh_deadlock_free : forall th progs s,
  R th progs s -> quiescent glob loc tstep s -> all_fin glob loc fin s = true.
Proof. exact quiescent_all_finished. Qed.
