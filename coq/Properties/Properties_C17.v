(* C17 - SearchableObjectHolder is an atomic, memory-safe name-to-object map.
   Statements only; every proof is `exact <lemma>` into Proofs/SOHProofs.v.
   All theorems quantify over the throw plan th (which predicate invocations throw), any
   number of client threads with any programs over the whole API, and every schedule. *)
From Coq Require Import List Arith ZArith Lia Bool.
Import ListNotations.
From GV Require Import Sched Events SOHModel SOHProofs SOHLin.
From GV Require Lin.
Local Open Scope Z_scope.

(* ---------- memory safety ---------- *)
(* soh_iter_safe: no reachable state has faulted - no use of an erased map node (Fault F_ITER), no
   access to a destroyed object (Fault F_UAF) - and no step from a reachable state logs a Fault *)
Theorem soh_iter_safe : forall th progs s, R th progs s -> faulted (gl s) = false.
Proof. exact never_faulted. Qed.
Theorem soh_no_fault_event : forall th progs s t c l g' l' es,
  R th progs s -> nth_error (thr s) t = Some l -> tstep t c (gl s) l = Some (g', l', es) ->
  existsb is_fault es = false.
Proof. exact no_fault_event. Qed.
Theorem soh_fault_is_sticky_flag : forall unfixed t c g l g' l' es,
  tstep_gen unfixed t c g l = Some (g', l', es) -> existsb is_fault es = true -> faulted g' = true.
Proof. exact fault_sets_flag. Qed.

(* soh_unfixed_refuted: with the order of the original header (erase the node, then read its key)
   the one-thread program  addObject(n0, obj, tag); removeObject(pred)  faults *)
Theorem soh_unfixed_refuted :
  exists progs sched, faulted (gl (run glob loc (tstep_gen true) (init [] progs) sched)) = true.
Proof. exact unfixed_faults. Qed.

(* soh_returned_alive: an object held by a client - in a slot, or as the argument / result of a call
   in flight - has use-count >= 1 and is alive, whatever other threads removed meanwhile *)
Theorem soh_returned_alive : forall th progs s u l p,
  R th progs s -> nth_error (thr s) u = Some l ->
  (exists b, getslot b (slots l) = Some p) \/ held l = Some p ->
  (1 <= rc_of (heap (gl s)) (pid p))%nat /\ alive (heap (gl s)) p = true.
Proof. exact returned_alive. Qed.
Theorem soh_stored_alive : forall th progs s k p,
  R th progs s -> lookup k (omap (gl s)) = Some p -> (1 <= rc_of (heap (gl s)) (pid p))%nat.
Proof. exact stored_alive. Qed.
(* the use-count of every object is exactly (entries of the map that hold it) + (client references):
   nothing leaks and no reference is lost *)
Theorem soh_use_count_exact : forall th progs s id,
  R th progs s -> rc_of (heap (gl s)) id = (cnt_o id (omap (gl s)) + list_sum (map (cnt_loc id) (thr s)))%nat.
Proof. exact use_count_exact. Qed.

(* ---------- atomicity ---------- *)
(* soh_atomic_sections: a thread is between its lock and its unlock exactly when it owns mapLock;
   at most one thread is; the maps and the call counter change only in steps of the thread that
   owns the mutex after the step *)
Theorem soh_atomic_sections : forall th progs s u,
  R th progs s -> (mtx (gl s) = Some u <-> holds (pcof (thr s) u) = true).
Proof. exact mutex_iff_inside. Qed.
Theorem soh_mutual_exclusion : forall th progs s u v, R th progs s ->
  holds (pcof (thr s) u) = true -> holds (pcof (thr s) v) = true -> u = v.
Proof. exact mutual_exclusion. Qed.
Theorem soh_changes_inside_section : forall th progs s t c l g' l' es,
  R th progs s -> nth_error (thr s) t = Some l -> tstep t c (gl s) l = Some (g', l', es) ->
  (omap g' = omap (gl s) /\ tmap g' = tmap (gl s) /\ calls g' = calls (gl s)) \/
  (mtx g' = Some t /\ (mtx (gl s) = None \/ mtx (gl s) = Some t)).
Proof. exact changes_inside_section. Qed.

(* soh_ptr_windows_disjoint.  In the instrumented build every copy of a shared_ptr instance that lives
   in the heap (the values of objectMap) is a read window on it, every destruction of a non-empty one a
   write window.  A window is open only while its thread owns mapLock (soh_open_window_owner), hence at
   most one window is open at any time: no copy from a node's pointer overlaps its destruction; and
   window edges are emitted only by steps at the window pc, which change nothing else. *)
Theorem soh_ptr_windows_disjoint : forall th progs s u v w w', R th progs s ->
  open_win (pcof (thr s) u) = Some w -> open_win (pcof (thr s) v) = Some w' -> u = v /\ w = w'.
Proof. exact ptr_windows_disjoint. Qed.
Theorem soh_open_window_owner : forall th progs s u w,
  R th progs s -> open_win (pcof (thr s) u) = Some w -> mtx (gl s) = Some u.
Proof. exact open_window_owner. Qed.
Theorem soh_window_edge_inside : forall t c g l g' l' es, tstep t c g l = Some (g', l', es) ->
  existsb is_win_ev es = true -> (exists o a r h td, at_ l = Win o a r h td) /\ g' = g.
Proof. exact window_edge_inside. Qed.

(* soh_linearizable.  The ghost log receives one entry (thread, method, argument, result) in the
   step that releases the mutex, which is the step that emits the method's return event with that
   result (soh_log_at_unlock).  In every reachable state the log is a legal history of the
   sequential map apply_op - every logged result is the one the method returns when run alone on
   the state produced by the entries before it - and whenever the mutex is free the two maps are
   exactly the state that history produces (soh_linearizable).  soh_section_refines is the
   per-method refinement inside a section (stepwise iteration = the method run alone).
   soh_linearizable_hw instantiates the Herlihy-Wing meta-theorem of Common/Lin.v (linearization points
   imply linearizability): hist_of is the history of a schedule - Inv t (method, argument) at the K_INVOKE
   step of a holder method, Lin t; Res t r at the step that releases the mutex, appends the log entry and
   emits K_RET r (r = Some z) or lets the predicate's exception leave (K_CATCH, r = None: exceptional
   outcomes are part of the history, throw plans are not excluded); Drop / ReadObj are client code and
   emit nothing (soh_hist_events_observable).  soh_hist_wf: every such history passes Lin.scan, and the
   operations in linearization-point order are a legal run of the sequential map (happly = apply_op)
   from the empty maps, each with the result it returned. *)
Theorem soh_linearizable : forall th progs s, R th progs s ->
  legal (throws (gl s)) st0 (log (gl s)) /\ (mtx (gl s) = None -> cur (gl s) = hist (gl s)).
Proof. exact log_is_history. Qed.
Theorem soh_log_at_unlock : forall t c g l g' l' es, tstep t c g l = Some (g', l', es) ->
  (log g' = log g /\ (forall o a r, at_ l <> Unlock o a r) /\ (forall o, at_ l <> XUnlock o)) \/
  (exists o a r, at_ l = Unlock o a r /\ log g' = log g ++ [Entry t o a (Some r)] /\ mtx g' = None /\
                 In (E K_UNLOCK O_MTX 0) es /\ In (E K_RET 0 r) es) \/
  (exists o, at_ l = XUnlock o /\ log g' = log g ++ [Entry t (OP o) null_ptr None] /\ mtx g' = None /\
             In (E K_UNLOCK O_MTX 0) es /\ In (E K_CATCH 0 0) es).
Proof. exact log_step. Qed.
Theorem soh_hist_wf : forall th progs sched,
  exists L, Lin.scan hop hret (hist_of th progs sched) = Some L /\
            Lin.legal hop hret mstate (happly th) st0 L.
Proof. exact hist_wf. Qed.
Theorem soh_linearizable_hw : forall th progs sched,
  Lin.linearizable hop hret mstate (happly th) st0 (hist_of th progs sched).
Proof. exact linearizable_hw. Qed.
Theorem soh_hist_events_observable : forall t c g l g' l' es, tstep t c g l = Some (g', l', es) ->
  match hevs t l l' with
  | [] => log g' = log g
  | [Lin.Inv _ _ u oa] => u = t /\ log g' = log g /\ exists o0 r0, prog l = o0 :: r0 /\ In (E K_INVOKE 0 (opcode o0)) es
  | [Lin.Lin _ _ u; Lin.Res _ _ v r] =>
    u = t /\ v = t /\ In (E K_UNLOCK O_MTX 0) es /\
    match r with
    | Some z => In (E K_RET 0 z) es /\ exists o a, log g' = log g ++ [Entry t o a (Some z)]
    | None => In (E K_CATCH 0 0) es /\ exists o a, log g' = log g ++ [Entry t o a None]
    end
  | _ => False
  end.
Proof. exact hevs_observable. Qed.
Theorem soh_section_refines : forall th progs s u, R th progs s -> lin_pc (gl s) (pcof (thr s) u).
Proof. exact section_refines. Qed.
Theorem soh_throw_plan_constant : forall th progs s, R th progs s -> throws (gl s) = th.
Proof. exact throws_const. Qed.

(* ---------- exception safety (used by C20) ---------- *)
(* soh_exn_safe: a method that ends with an exception leaves both maps as they were (sequential
   level); the step in which the predicate throws changes neither map and goes to the unwinding
   pc, whose only step releases the mutex (soh_log_at_unlock, third case); a thread back in client
   code owns no mutex *)
Theorem soh_exn_safe : forall thr o a s s', apply_op thr o a s = (s', None) -> m_o s' = m_o s /\ m_t s' = m_t s.
Proof. exact exn_unchanged. Qed.
Theorem soh_throw_step : forall t c g l g' l' es, tstep t c g l = Some (g', l', es) ->
  existsb is_throw es = true -> omap g' = omap g /\ tmap g' = tmap g /\ exists o, at_ l' = XUnlock o.
Proof. exact throw_step. Qed.
Theorem soh_no_lock_left : forall th progs s u,
  R th progs s -> holds (pcof (thr s) u) = false -> mtx (gl s) <> Some u.
Proof. exact top_level_owns_nothing. Qed.

(* ---------- progress ---------- *)
Theorem soh_holder_moves : forall th progs s a c, R th progs s -> mtx (gl s) = Some a -> enabled glob loc tstep s a c.
Proof. exact holder_enabled. Qed.
Theorem soh_blocks_only_on_mutex : forall th progs s t c l,
  R th progs s -> nth_error (thr s) t = Some l -> tstep t c (gl s) l = None ->
  fin l = true \/
  ((exists o, at_ l = SLock o) \/ (exists o, at_ l = PLock o)) /\
  exists a, mtx (gl s) = Some a /\ a <> t /\ enabled glob loc tstep s a 0.
Proof. exact blocks_only_on_mutex. Qed.
Theorem soh_deadlock_free : forall th progs s,
  R th progs s -> quiescent glob loc tstep s -> all_fin glob loc fin s = true.
Proof. exact quiescent_all_finished. Qed.
(* every schedule from every reachable state makes at most mu moves (mu: (2N+7) per remaining
   operation plus the rest of the current one, N = number of insertions in the programs):
   there is no retry loop in this class, so this is termination of every program *)
Theorem soh_bounded_work : forall th progs s sc, R th progs s ->
  (moves glob loc tstep s sc <= mu (total_ins progs) s)%nat.
Proof. exact bounded_work. Qed.

(* ... and such a schedule exists: from every reachable state some schedule of at most mu(s) steps (every
   choice is a work-choice: no step of this class depends on the scheduler's choice) ends with every thread
   finished - in particular every blocked locker gets the mutex and every scan ends *)
Theorem soh_eventually_finishes : forall th progs s, R th progs s ->
  exists sc, sched_ok any_choice sc /\ (length sc <= mu (total_ins progs) s)%nat /\
             all_fin glob loc fin (run glob loc tstep s sc) = true.
Proof. exact eventually_finishes. Qed.

(* ---------- the sequential map is the specification (soh_seq_refines) ----------
   abs turns the sorted association lists into finite maps Z -> option _.  Each method body, run
   alone (apply_sop / pscan: what one critical section does, by soh_section_refines), is the
   operation of a pair of finite maps written in spec_sop / spec_ret / pscan_post:
   addObject refuses duplicates without replacing, and on success the name's tags are exactly [type]
   (or absent); addType appends, creating the tag entry if needed (also for an absent name - such
   an entry never reaches an object: repair c9feeb7); removeObject(name) deletes the entry and its
   tags; copyObject aliases object and tags under the new name unless it exists; find / check / getObjects
   / empty read exactly the stored contents; the predicate forms act on the matching entry with the
   least key - removal deletes it and its tags - and a throwing predicate changes nothing. *)
Theorem soh_seq_refines : forall o arg om tm om' tm' r tch,
  sorted om -> sorted tm -> apply_sop o arg om tm = (om', tm', r, tch) ->
  aeq (abs om') (fst (spec_sop o arg (abs om) (abs tm))) /\
  aeq (abs tm') (snd (spec_sop o arg (abs om) (abs tm))) /\
  spec_ret o (abs om) (abs tm) r.
Proof. exact seq_refines_sop. Qed.
Theorem soh_seq_refines_pred : forall thr o om tm c s' r, sorted om ->
  pscan thr o om tm om c = (s', r) -> pscan_post o om tm s' r.
Proof. exact seq_refines_pop. Qed.
Theorem soh_seq_refines_found : forall o om tm k p om' tm' rv,
  sorted om -> sorted tm -> pfound o om tm k p = (om', tm', rv) ->
  if is_rem o then aeq (abs om') (aupd (abs om) k None) /\ aeq (abs tm') (aupd (abs tm) k None) /\ rv = 1
  else om' = om /\ tm' = tm /\ rv = Z.of_nat (pid p).
Proof. exact pfound_spec. Qed.
(* after a successful copyObject(a, b) both names hold the same object and equal tag lists (both
   absent, or both present and equal); after a successful addObject(n, obj[, type]) the name holds
   obj and its tags are exactly [type] (or absent) *)
Theorem soh_copy_aliases_tags : forall a b arg om tm om' tm' tch, sorted om -> sorted tm ->
  apply_sop (Copy a b) arg om tm = (om', tm', 1, tch) ->
  (exists p, lookup a om = Some p /\ lookup a om' = Some p /\ lookup b om' = Some p) /\
  lookup b tm' = lookup a tm' /\ lookup a tm' = lookup a tm.
Proof. exact copy_aliases_tags. Qed.
Theorem soh_add_tags_exact : forall o arg om tm om' tm' tch, sorted om -> sorted tm ->
  apply_sop o arg om tm = (om', tm', 1, tch) ->
  match o with
  | Add n _ => lookup n om' = Some arg /\ lookup n tm' = None
  | AddT n _ ty => lookup n om' = Some arg /\ lookup n tm' = Some [ty]
  | _ => True
  end.
Proof. exact add_tags_exact. Qed.
(* soh_orphan_leak_refuted: with the method bodies of the header before repair c9feeb7
   (apply_sop_leaky), addType(b,7); addObject(a,o,1); copyObject(a,b) leaves b naming the same
   object as a with a different tag list *)
Theorem soh_orphan_leak_refuted :
  let '(om, tm) := seq_run true orphan_seq [] [] in
  lookup 1 om = lookup 0 om /\ lookup 0 om <> None /\ lookup 1 tm <> lookup 0 tm.
Proof. exact orphan_leak. Qed.
Theorem soh_maps_sorted : forall th progs s, R th progs s -> sorted (omap (gl s)) /\ sorted (tmap (gl s)).
Proof. exact maps_sorted. Qed.

(* ---------- non-vacuity: the hypotheses are met by concrete reachable states ---------- *)
Definition runS := run glob loc tstep.
Definition tn (t n : nat) : list (nat * nat) := repeat (t, 0%nat) n.
Definition t3 (t : nat) : list (nat * nat) := tn t 3.

(* thread 1 obtains the object, thread 0 removes it from the map: the object is still alive, with
   exactly one owner, the client slot *)
Definition ex1_progs := [[OS (AddT 0 5 1); OS (RemName 0)]; [OS (FindName 0 false); OL (ReadObj false)]].
Definition ex1 := runS (init [] ex1_progs) (t3 0 ++ tn 1 5 ++ tn 0 5).
Example ex_alive_after_removal :
  omap (gl ex1) = [] /\ tmap (gl ex1) = [] /\
  (exists l, nth_error (thr ex1) 1 = Some l /\ getslot false (slots l) = Some (1%nat, 5)) /\
  rc_of (heap (gl ex1)) 1 = 1%nat /\ length (log (gl ex1)) = 3%nat.
Proof. vm_compute. repeat split; auto. eexists; split; reflexivity. Qed.
(* ... and it is destroyed when the client drops it *)
Example ex_destroyed_after_drop :
  let s := runS (init [] [[OS (AddT 0 5 1); OS (RemName 0)]; [OS (FindName 0 false); OL (Drop false)]])
                (t3 0 ++ tn 1 5 ++ tn 0 5 ++ [(1, 0)]%nat) in
  rc_of (heap (gl s)) 1 = 0%nat /\ faulted (gl s) = false.
Proof. vm_compute. auto. Qed.

(* the history of ex1: thread 1's find overlaps nothing, thread 0's removal is linearized after it; a throwing
   predicate appears with the exceptional result *)
Example ex_history :
  hist_of [] ex1_progs (t3 0 ++ [(1, 0); (0, 0)]%nat ++ tn 1 4 ++ tn 0 4) =
  [Lin.Inv _ _ 0%nat (OS (AddT 0 5 1), (1%nat, 5)); Lin.Lin _ _ 0%nat; Lin.Res _ _ 0%nat (Some 1);
   Lin.Inv _ _ 1%nat (OS (FindName 0 false), null_ptr); Lin.Inv _ _ 0%nat (OS (RemName 0), null_ptr);
   Lin.Lin _ _ 1%nat; Lin.Res _ _ 1%nat (Some 1); Lin.Lin _ _ 0%nat; Lin.Res _ _ 0%nat (Some 1)].
Proof. vm_compute. reflexivity. Qed.
Example ex_history_exn :
  hist_of [0] [[OS (AddT 3 7 1); OP (RemPred 7)]] (tn 0 7) =
  [Lin.Inv _ _ 0%nat (OS (AddT 3 7 1), (1%nat, 7)); Lin.Lin _ _ 0%nat; Lin.Res _ _ 0%nat (Some 1);
   Lin.Inv _ _ 0%nat (OP (RemPred 7), null_ptr); Lin.Lin _ _ 0%nat; Lin.Res _ _ 0%nat None].
Proof. vm_compute. reflexivity. Qed.

(* a thread inside a predicate scan (it owns the mutex), another one blocked on the lock *)
Definition ex2 := runS (init [] [[OS (Add 0 1); OS (Add 1 2); OP (FindPred 2 false)]; [OS (RemName 0)]])
                       (t3 0 ++ t3 0 ++ [(0, 0); (0, 0); (0, 0); (1, 0)]%nat).
Example ex_inside_scan :
  mtx (gl ex2) = Some 0%nat /\ pcof (thr ex2) 0 = Call (FindPred 2 false) 1 /\ pcof (thr ex2) 1 = SLock (RemName 0) /\
  (exists l, nth_error (thr ex2) 1 = Some l /\ tstep 1 0 (gl ex2) l = None).
Proof. vm_compute. repeat split; auto. eexists; split; reflexivity. Qed.

(* ... and then between the two edges of the copy of the found node's pointer: the window is open, its thread
   owns the mutex *)
Example ex_open_window :
  let s := runS ex2 [(0, 0); (0, 0)]%nat in
  open_win (pcof (thr s) 0) = Some (WRd, 1%nat) /\ mtx (gl s) = Some 0%nat.
Proof. vm_compute. auto. Qed.

(* from ex2 (thread 0 inside a scan owning the mutex, thread 1 blocked on the lock) 8 more steps finish both
   threads, within mu ex2 = 15 *)
Example ex_finishes_from_blocked :
  all_fin glob loc fin ex2 = false /\ mu (total_ins [[OS (Add 0 1); OS (Add 1 2); OP (FindPred 2 false)]; [OS (RemName 0)]]) ex2 = 15%nat /\
  all_fin glob loc fin (runS ex2 (tn 0 4 ++ tn 1 4)) = true.
Proof. vm_compute. auto. Qed.

(* the first predicate invocation throws: the exception leaves, the mutex is free, the maps are unchanged,
   the log records the exceptional outcome *)
Example ex_throwing_predicate :
  let s := runS (init [0] [[OS (AddT 3 7 1); OP (RemPred 7)]]) (t3 0 ++ [(0, 0); (0, 0); (0, 0); (0, 0)]%nat) in
  mtx (gl s) = None /\ omap (gl s) = [(3, (1%nat, 7))] /\ tmap (gl s) = [(3, [1])] /\
  map e_ret (log (gl s)) = [Some 1; None] /\ all_fin glob loc fin s = true.
Proof. vm_compute. repeat split; auto. Qed.

(* the program of soh_unfixed_refuted under the repaired order: no fault, entry and tags removed *)
Example ex_fixed_witness :
  let s := runS (init [] witness_progs) witness_sched in
  faulted (gl s) = false /\ omap (gl s) = [] /\ tmap (gl s) = [] /\ rc_of (heap (gl s)) 1 = 0%nat.
Proof. vm_compute. auto. Qed.

(* the sequence of soh_orphan_leak_refuted with the repaired bodies: b gets a's tags *)
Example ex_orphan_repaired :
  let '(om, tm) := seq_run false orphan_seq [] [] in
  lookup 1 om = lookup 0 om /\ lookup 1 tm = Some [1] /\ lookup 0 tm = Some [1].
Proof. vm_compute. auto. Qed.

(* removal by predicate takes the first match in key order, copyObject aliases object and tags *)
Example ex_first_match_and_copy :
  let s := runS (init [] [[OS (AddT 2 9 4); OS (Copy 2 1); OS (Add 0 8); OP (RemPred 9)]])
                (t3 0 ++ tn 0 5 ++ t3 0 ++ tn 0 7) in
  omap (gl s) = [(0, (2%nat, 8)); (2, (1%nat, 9))] /\ tmap (gl s) = [(2, [4])] /\ rc_of (heap (gl s)) 1 = 1%nat.
Proof. vm_compute. auto. Qed.
