(* C15 - atomic_guarded and whole-object load / store behave as one atomic register.
   Statements only; every proof is `exact <lemma>`.  Models: Wrapper (atomic_guarded: load, store, operator=,
   exchange, compare_exchange, operator T; guarded / guarded_opt (locking enabled) / ordered_guarded: load,
   store, operator=) and Deferred (deferred_guarded::load).

   Sequential specification: reg_apply : Z -> regop -> Z * ret (WrapperLin.v).
   Linearization log: a history variable run in lock step with the unmodified model (WrapperLin.ltstep): the
   step that closes the read window of load / operator T / a failing compare_exchange's second read, and the
   step that closes the write window of store / operator= / exchange / a succeeding compare_exchange, appends
   one entry (thread, guard id, operation, result).  RL cf progs s: s = (model state, log) is reachable;
   its projection is a reachable model state and every reachable model state has a log (log_exists).
   Hypotheses: plain cf = false (the instrumented payload kind, whose accesses are visible steps; for a plain
   `long` payload the accesses run inside the step of the preceding visible operation, the exclusion theorems of
   C01 cover it, the log theorems are stated for the instrumented kind), safe (locking enabled - guarded_opt constructed with false is excluded, as in the property -
   and no client use of a moved-from handle) and incrs = 0 (no completed read-increment-write: modify and
   incr through a handle are not register operations).

   Herlihy & Wing: Common/Lin.v proves once that linearization points imply linearizability; Proofs/WrapperHW.v
   instantiates it: hist_of (the annotated history Inv / Lin / Res of a run), reg_hist_wf (per thread: invocation,
   exactly one logging step, return - proved from the structure of the bodies - and the list the scan returns is
   a legal run of reg_apply with the returned values), reg_linearizable_hw.
   What remains modelled / assumed: the instrumented payload kind (plain cf = false); for the history theorems an
   empty throw plan and clients that modify the object only through the register operations (reg_clients);
   exchange's read of the old value is the model's silent read inside WPay's move assignment (VPay reads the
   source without a window): the theorems are about that read, which happens under the lock_guard. *)
From Coq Require Import List Arith ZArith Lia Bool.
Import ListNotations.
From GV Require Import Sched Events WrapperModel.
From GV Require Lin WrapperProofs WrapperLin WrapperHW DeferredModel DeferredProofs.
Local Open Scope Z_scope.

(* the logged runs are exactly the runs of the model *)
Theorem log_projects : forall cf progs s, WrapperLin.RL cf progs s -> WrapperProofs.R cf progs (WrapperLin.proj s).
Proof. exact WrapperLin.RL_R. Qed.
Theorem log_exists : forall cf progs s, WrapperProofs.R cf progs s ->
  exists sl, WrapperLin.RL cf progs sl /\ WrapperLin.proj sl = s.
Proof. exact WrapperLin.R_RL. Qed.

(* each method body computes reg_apply: the logging step of an operation takes the register from the current
   payload value x to fst (reg_apply x op) and records snd (reg_apply x op) - exchange records the value it
   replaced, compare_exchange succeeds exactly when current = expected and otherwise reports current *)
Theorem reg_seq_refines : forall cf progs s t c l g' l' es e,
  plain cf = false -> WrapperLin.RL cf progs s -> WrapperProofs.safe cf (fst (gl s)) -> nth_error (thr s) t = Some l ->
  tstep cf t c (fst (gl s)) l = Some (g', l', es) -> incrs g' = 0%nat ->
  WrapperLin.lin_of t (fst (gl s)) l = Some e ->
  WrapperLin.reg_apply (val (fst (gl s))) (WrapperLin.le_op e) = (val g', WrapperLin.le_ret e).
Proof. exact WrapperLin.reg_seq_refines_l. Qed.

(* the log of every reachable state is a legal sequential run of reg_apply from the initial value, ending in
   the payload (always the value of the last completed write; in particular whenever no write window is open) *)
Theorem reg_linearizable : forall cf progs s,
  plain cf = false -> WrapperLin.RL cf progs s -> WrapperProofs.safe cf (fst (gl s)) -> incrs (fst (gl s)) = 0%nat ->
  WrapperLin.legal (init_val cf) (WrapperLin.llog s) (val (fst (gl s))).
Proof. exact WrapperLin.reg_linearizable_l. Qed.

(* every completed operation returns what its own log entry records: when load / store / operator= / exchange /
   compare_exchange / operator T is about to return rv (pc GRel, no exception), the newest entry of its
   thread was logged under this operation's guard, for this operation, with result code rv - and the next
   step of the thread emits K_RET rv *)
Theorem reg_returns_logged : forall cf progs s t l o gid rv ro,
  plain cf = false -> WrapperLin.RL cf progs s -> WrapperProofs.safe cf (fst (gl s)) -> nth_error (thr s) t = Some l ->
  at_ l = GRel o gid rv false -> WrapperLin.regop_of o = Some ro ->
  (exists e, WrapperLin.head_of t (WrapperLin.llog s) = Some e /\ WrapperLin.le_gid e = gid /\
             WrapperLin.le_op e = ro /\ WrapperLin.ret_code (WrapperLin.le_ret e) = rv) /\
  forall c, exists g' l' e0, tstep cf t c (fst (gl s)) l = Some (g', l', [e0; ret_ev rv]) /\ at_ l' = Idle.
Proof. exact WrapperLin.reg_returns_logged_l. Qed.

(* the linearization point lies inside the call, in the critical section: the logging step is a step of the
   operation's body (pc Run: after the invocation step and the guard's acquisition, before the guard's
   release and the return), taken by the thread the entry names, which holds the mutex *)
Theorem reg_lin_point_inside_call : forall cf progs s t l e,
  plain cf = false -> WrapperLin.RL cf progs s -> nth_error (thr s) t = Some l -> WrapperLin.lin_of t (fst (gl s)) l = Some e ->
  WrapperLin.le_t e = t /\ (exists fr code ph r ok, at_ l = Run fr code ph r ok) /\
  (WrapperProofs.safe cf (fst (gl s)) -> (1 <= WrapperProofs.lx cf l + WrapperProofs.lsh cf l)%nat).
Proof. exact WrapperLin.reg_lin_point_inside_call_l. Qed.
Theorem reg_no_second_entry : forall t g l,
  (forall fr code ph r ok, at_ l <> Run fr code ph r ok) \/
  (exists fr b s rest ph r ok, at_ l = Run fr (MWrite (Priv b) s :: rest) ph r ok) ->
  WrapperLin.lin_of t g l = None.
Proof. exact WrapperLin.reg_no_second_entry. Qed.

(* Herlihy & Wing.  The annotated history of a run (WrapperHW.hist_of: Inv t op at the K_INVOKE step of load /
   store / operator= / exchange / compare_exchange / operator T, Lin t at the logging step, Res t r at the step
   that emits its K_RET, r decoded from the K_RET value; everything else emits nothing) is well formed and the
   list of operations Lin.scan computes from it - ordered by linearization point - is a legal sequential run of
   reg_apply from the initial value in which every completed operation has the result it returned ... *)
Theorem reg_hist_wf : forall cf progs sched,
  plain cf = false -> throws cf = [] -> WrapperHW.reg_clients progs ->
  WrapperProofs.safe cf (gl (run glob loc (tstep cf) (init cf progs) sched)) ->
  incrs (gl (run glob loc (tstep cf) (init cf progs) sched)) = 0%nat ->
  exists L, Lin.scan WrapperLin.regop WrapperLin.ret (WrapperHW.hist_of cf progs sched) = Some L /\
            Lin.legal WrapperLin.regop WrapperLin.ret Z WrapperLin.reg_apply (init_val cf) L.
Proof. exact WrapperHW.reg_hist_wf. Qed.
(* ... hence every such history is linearizable (Lin.linearization: every record describes actual events, every
   completed operation occurs, real-time order respected; Lin.legal: the sequential specification explains the results) *)
Theorem reg_linearizable_hw : forall cf progs sched,
  plain cf = false -> throws cf = [] -> WrapperHW.reg_clients progs ->
  WrapperProofs.safe cf (gl (run glob loc (tstep cf) (init cf progs) sched)) ->
  incrs (gl (run glob loc (tstep cf) (init cf progs) sched)) = 0%nat ->
  Lin.linearizable WrapperLin.regop WrapperLin.ret Z WrapperLin.reg_apply (init_val cf) (WrapperHW.hist_of cf progs sched).
Proof. exact WrapperHW.reg_linearizable_hw. Qed.

(* a load never returns a partially written value: while a read window of the wrapped object is open the
   object is not dirty and no write window is open *)
Theorem reg_no_torn_load : forall cf progs s t l,
  WrapperProofs.R cf progs s -> WrapperProofs.safe cf (gl s) -> nth_error (thr s) t = Some l ->
  WrapperProofs.rdopen (at_ l) = 1%nat ->
  dirty (gl s) = false /\ forall u, WrapperProofs.wropen (at_ (WrapperProofs.locof (thr s) u)) = false.
Proof. exact WrapperLin.reg_no_torn_load_l. Qed.

(* ---------- deferred_guarded::load ---------- *)
Theorem deferred_load_atomic : forall m th progs (s : sys DeferredModel.glob DeferredModel.loc) t l,
  DeferredProofs.R m th progs s -> nth_error (thr s) t = Some l -> DeferredModel.at_ l = DeferredModel.L_rde ->
  (1 <= DeferredProofs.shl l)%nat /\ DeferredModel.dirty (gl s) = false /\
  (forall u, DeferredProofs.wropen (DeferredProofs.pcof (thr s) u) = false) /\
  (forall u, DeferredProofs.holdsX (DeferredProofs.pcof (thr s) u) = false) /\
  DeferredModel.pay (gl s) = DeferredProofs.enc (DeferredModel.tfid (gl s)) (DeferredModel.donelog (DeferredModel.gh (gl s))) /\
  forall c, exists g' l', DeferredModel.tstep t c (gl s) l =
              Some (g', l', [E K_RD_END DeferredModel.O_PAY (DeferredModel.pay (gl s))]) /\
            DeferredModel.at_ l' = DeferredModel.L_unlock (DeferredModel.pay (gl s)).
Proof. exact DeferredProofs.def_load_atomic. Qed.
Theorem deferred_load_returns : forall (g : DeferredModel.glob) t c l v,
  DeferredModel.at_ l = DeferredModel.L_unlock v ->
  exists g' l' e0, DeferredModel.tstep t c g l = Some (g', l', [e0; DeferredModel.ret v]) /\
                   DeferredModel.at_ l' = DeferredModel.Idle.
Proof. exact DeferredProofs.def_load_returns. Qed.

(* ---------- non-vacuity: the bodies run alone, and a contended history ---------- *)
Definition cf_a : config := Cfg FAtomic MPlain true 7 [] false.
Definition rep (t n : nat) : list (nat * nat) := repeat (t, 0%nat) n.
Definition solo (o : op) := run WrapperLin.lglob loc (WrapperLin.ltstep cf_a) (WrapperLin.linit cf_a [[o]]) (rep 0 16).
Import WrapperLin.
Example solo_exchange : llog (solo (Exchange 3)) = [LE 0 1 (RXchg 3) (RVal 7)] /\ val (fst (gl (solo (Exchange 3)))) = 3.
Proof. vm_compute. split; reflexivity. Qed.
Example solo_cas_success : llog (solo (Cas 7 4)) = [LE 0 1 (RCas 7 4) (RCasRes true 7)] /\ val (fst (gl (solo (Cas 7 4)))) = 4.
Proof. vm_compute. split; reflexivity. Qed.
Example solo_cas_failure : llog (solo (Cas 2 4)) = [LE 0 1 (RCas 2 4) (RCasRes false 7)] /\ val (fst (gl (solo (Cas 2 4)))) = 7.
Proof. vm_compute. split; reflexivity. Qed.
Example solo_load_store :
  llog (solo Load) = [LE 0 1 RLoad (RVal 7)] /\ llog (solo (Store 5)) = [LE 0 1 (RStore 5) ROk] /\
  val (fst (gl (solo (Store 5)))) = 5.
Proof. vm_compute. repeat split; reflexivity. Qed.
(* three threads: exchange is inside its critical section between its two assignments; the others wait *)
Definition ex_hist := run lglob loc (ltstep cf_a)
  (linit cf_a [[Exchange 3; Load]; [Cas 3 9]; [Store 1]]) (rep 0 5 ++ rep 1 2 ++ rep 2 2 ++ rep 0 4 ++ rep 1 10).
Example contended_history :
  llog ex_hist = [LE 1 2 (RCas 3 9) (RCasRes true 3); LE 0 1 (RXchg 3) (RVal 7)] /\
  legal 7 (llog ex_hist) (val (fst (gl ex_hist))) /\ val (fst (gl ex_hist)) = 9.
Proof.
  vm_compute. repeat split; try reflexivity.
  eapply legal_cons; [eapply legal_cons; [apply legal_nil|reflexivity]|reflexivity].
Qed.

(* a two-thread run: exchange and compare_exchange overlap (thread 1 invokes while thread 0 is inside); the
   history scans to a two-element linearization, exchange first *)
Definition hw_sched := rep 0 5 ++ rep 1 2 ++ rep 0 4 ++ rep 1 10.
Definition hw_progs := [[Exchange 3]; [Cas 3 9]].
Example hw_history :
  WrapperHW.hist_of cf_a hw_progs hw_sched =
    [Lin.Inv regop ret 0 (RXchg 3); Lin.Inv regop ret 1 (RCas 3 9); Lin.Lin regop ret 0; Lin.Res regop ret 0 (RVal 7);
     Lin.Lin regop ret 1; Lin.Res regop ret 1 (RCasRes true 3)] /\
  exists L, Lin.scan regop ret (WrapperHW.hist_of cf_a hw_progs hw_sched) = Some L /\ length L = 2%nat /\
            map (Lin.o_thr regop ret) L = [0%nat; 1%nat] /\ Lin.legal regop ret Z reg_apply 7 L.
Proof.
  split; [vm_compute; reflexivity|]. eexists. split; [vm_compute; reflexivity|]. cbn. repeat split.
Qed.
Example hw_clients_ok : WrapperHW.reg_clients hw_progs /\ plain cf_a = false /\ throws cf_a = [].
Proof. split; [|split; reflexivity]. intros p [<-|[<-|[]]]; reflexivity. Qed.
