(* C03 - lr_guarded readers see only complete, current states. *)
From Coq Require Import List Arith ZArith Lia Bool.
Import ListNotations.
From GV Require Import Sched Events LRModel LRProofs.
Local Open Scope Z_scope.

Theorem lr_all_atomics_seq_cst : forall t c g l g' l' es e,
  tstep t c g l = Some (g', l', es) -> In e es ->
  emo e = (if is_atomic_kind (ek e) then MO_SEQ_CST else MO_NA).
Proof. exact all_atomics_seq_cst. Qed.
