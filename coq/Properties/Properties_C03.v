(* C03 - lr_guarded readers see only complete, current states.
   Statements only; every proof is `exact <lemma>` into Proofs/LRProofs.v.
   All theorems quantify over the number of handle slots per thread, the throw plan
   (which invocations of user code throw), any number of threads with any programs over
   {modify f, lock_shared / try_lock_shared* into a slot, read through a slot, release a slot},
   and every schedule.  R ns pl progs s  :=  s is reachable from the initial state.

   Vocabulary (Proofs/LRProofs.v):
     holds_handle l h   thread-local state l has the shared handle h in one of its slots;
                        hd h = the copy it points to, hc h = the counter its deleter decrements,
                        hsnap h = (ghost) the committed sequence when the handle was completed
     wr_target l = Some x   the thread is inside an application of the functor or inside a
                        catch block's restoring copy, and the copy it writes is x
     committed g        (ghost) the sequence of functors that have taken effect, appended at the
                        store to m_readingLeft
     cp g x             copy x (true = m_left); a payload is the list of functors applied to it *)
From Coq Require Import List Arith ZArith Lia Bool.
Import ListNotations.
From GV Require Import Sched Events LRModel LRProofs.
Local Open Scope Z_scope.

(* A thread holding a shared handle sees an object no writer touches: whenever some thread is
   anywhere inside func(copy) or a catch block's `copy = other copy` (not only while the write
   window is open), the copy it writes is not the copy of any held handle; the handle's copy is
   not half-written and still holds the state it had when the handle was taken. *)
Theorem lr_exclusion : forall ns pl progs s r lr w lw h x,
  R ns pl progs s -> nth_error (thr s) r = Some lr -> holds_handle lr h ->
  nth_error (thr s) w = Some lw -> wr_target lw = Some x ->
  hd h <> x /\ dirty (cp (gl s) (hd h)) = false /\ log (cp (gl s) (hd h)) = hsnap h.
Proof. exact exclusion. Qed.

(* ... and this holds for as long as the handle is held, writer or no writer: in every reachable
   state the copy behind a held handle is complete, equals the handle's snapshot, and the
   snapshot is a prefix of the committed sequence *)
Theorem lr_handle_state : forall ns pl progs s r lr h,
  R ns pl progs s -> nth_error (thr s) r = Some lr -> holds_handle lr h ->
  log (cp (gl s) (hd h)) = hsnap h /\ dirty (cp (gl s) (hd h)) = false /\ prefix (hsnap h) (committed (gl s)).
Proof. exact handle_state. Qed.

(* no payload access window ever overlaps a write window (no K_FAULT event is ever emitted) *)
Theorem lr_no_fault : forall ns pl progs s, R ns pl progs s -> faults (gl s) = O.
Proof. exact no_fault. Qed.

(* a read through a handle returns the complete state of the handle's snapshot: the events of
   the closing step are exactly `rd_end copy v; ret v` with v the snapshot, no fault event *)
Theorem lr_no_torn_read : forall ns pl progs s t c l g' l' es,
  R ns pl progs s -> nth_error (thr s) t = Some l -> at_ l = H_re ->
  tstep t c (gl s) l = Some (g', l', es) ->
  exists h, nth_error (slots l) (sl l) = Some (Some h) /\
            es = [E K_RD_END (o_cp (hd h)) (enc (hsnap h)); ret_ev (enc (hsnap h))].
Proof. exact read_returns_snapshot. Qed.

(* the copy new readers are directed to is always complete and is the committed sequence *)
Theorem lr_visible_is_committed : forall ns pl progs s,
  R ns pl progs s -> log (cp (gl s) (rl (gl s))) = committed (gl s) /\ dirty (cp (gl s) (rl (gl s))) = false.
Proof. exact visible_is_committed. Qed.

(* the committed (= visible) sequence only grows, by appending, along every schedule *)
Theorem lr_visible_monotone : forall (s : sys glob loc) sc,
  prefix (committed (gl s)) (committed (gl (run glob loc tstep s sc))).
Proof. exact committed_monotone. Qed.

(* the values one reader observes never go backwards: a handle completed (last step of
   lock_shared, at state s2) after some handle h1 was held (at s1, by any thread) carries the
   sequence committed at s2, which extends everything seen through h1 *)
Theorem lr_reads_monotone : forall ns pl progs s1 sc r1 lr1 h1 t c l g' l' es,
  R ns pl progs s1 -> nth_error (thr s1) r1 = Some lr1 -> holds_handle lr1 h1 ->
  let s2 := run glob loc tstep s1 sc in
  nth_error (thr s2) t = Some l -> at_ l = R_ldr -> tstep t c (gl s2) l = Some (g', l', es) ->
  exists h2, nth_error (slots l') (sl l) = Some (Some h2) /\ hsnap h2 = committed (gl s2) /\
             prefix (hsnap h1) (hsnap h2).
Proof. exact reads_monotone. Qed.

(* a lock_shared that completes (a fortiori: starts) after modify(f) reached its return observes
   f and all earlier modifications: its snapshot extends (state found by that modify) ++ [f] *)
Theorem lr_read_after_modify : forall ns pl progs s1 sc w lw t c l g' l' es,
  R ns pl progs s1 -> nth_error (thr s1) w = Some lw -> at_ lw = M_unlock ->
  let s2 := run glob loc tstep s1 sc in
  nth_error (thr s2) t = Some l -> at_ l = R_ldr -> tstep t c (gl s2) l = Some (g', l', es) ->
  exists h2, nth_error (slots l') (sl l) = Some (Some h2) /\ prefix (gold lw ++ [fid lw]) (hsnap h2).
Proof. exact read_after_modify. Qed.

(* every modify takes effect atomically, exactly once or not at all: at its exit (return, or
   exception from the second application) the committed sequence is what it found when it took
   the write mutex plus its functor; at an exception from the first application it is unchanged *)
Theorem lr_modify_effect : forall ns pl progs s w lw,
  R ns pl progs s -> nth_error (thr s) w = Some lw ->
  match at_ lw with
  | M_unlock | C_unlock false => committed (gl s) = gold lw ++ [fid lw]
  | C_unlock true => committed (gl s) = gold lw
  | _ => True
  end.
Proof. exact modify_effect. Qed.

(* modifications of different threads are applied one at a time to the same sequence of states:
   while no writer is inside modify, both copies are complete and equal the committed sequence ... *)
Theorem lr_serial : forall ns pl progs s,
  R ns pl progs s -> mtx (gl s) = None ->
  log (left (gl s)) = committed (gl s) /\ log (right (gl s)) = committed (gl s) /\
  dirty (left (gl s)) = false /\ dirty (right (gl s)) = false.
Proof. exact serial_idle. Qed.

(* ... and the committed sequence changes only by the store to m_readingLeft of the thread that
   owns the write mutex, which appends that thread's functor to the sequence it found *)
Theorem lr_commit_in_mutex_order : forall ns pl progs s t c l g' l' es,
  R ns pl progs s -> nth_error (thr s) t = Some l -> tstep t c (gl s) l = Some (g', l', es) ->
  committed g' = committed (gl s) \/
  (committed g' = committed (gl s) ++ [fid l] /\ mtx (gl s) = Some t /\ at_ l = M_str /\
   committed (gl s) = gold l).
Proof. exact commit_in_mutex_order. Qed.

(* the counters count: each reader counter equals the number of handles registered in it
   (held, or between the increment and the load of m_readingLeft) *)
Theorem lr_counters_count : forall ns pl progs s k,
  R ns pl progs s -> ctr (gl s) k = Z.of_nat (list_sum (map (reg k) (thr s))).
Proof. exact counters_count. Qed.

(* ---------- non-vacuity: concrete reachable states meeting the hypotheses ---------- *)
Definition ex_progs := [[Modify 3]; [LockShared 1 0; ReadHandle 0; Release 0; LockShared 2 0]].
Definition ex_init := init 1 [] ex_progs.
(* the reader takes a handle (4 steps), then the writer runs up to its open write window (7 steps) *)
Definition ex_s1 := run glob loc tstep ex_init ([(1,0);(1,0);(1,0);(1,0)] ++ [(0,0);(0,0);(0,0);(0,0);(0,0);(0,0);(0,0)])%nat.

Example ex_reader_and_open_write_window :
  exists lr lw h, nth_error (thr ex_s1) 1 = Some lr /\ holds_handle lr h /\ hd h = true /\
                  nth_error (thr ex_s1) 0 = Some lw /\ wr_target lw = Some false /\ at_ lw = A_we true /\
                  dirty (right (gl ex_s1)) = true.
Proof. vm_compute. do 3 eexists. split; [reflexivity|]. split; [left; reflexivity|]. repeat split. Qed.

(* the writer flips, passes the first drain, and spins in the second while the handle is held *)
Definition ex_s2 := run glob loc tstep ex_s1 [(0,0);(0,0);(0,0);(0,0);(0,0);(0,0);(0,0);(0,0);(0,0);(0,0)]%nat.
Example ex_writer_spins_while_handle_held :
  (pcof ex_s2 0 = M_d2 \/ pcof ex_s2 0 = M_y2) /\ lc (gl ex_s2) = 1 /\ committed (gl ex_s2) = [3] /\
  log (left (gl ex_s2)) = [] /\ rl (gl ex_s2) = false.
Proof. vm_compute. repeat split; auto. Qed.

(* the reader reads (still the old state, through its old handle), releases; the writer completes;
   a new handle then sees the modification *)
Definition ex_s3 := run glob loc tstep ex_s2
  ([(1,0);(1,0);(1,0)] ++ [(1,0);(1,0)] ++ [(0,0);(0,0);(0,0);(0,0);(0,0);(0,0);(0,0)])%nat.
Example ex_writer_about_to_return : pcof ex_s3 0 = M_unlock /\ log (left (gl ex_s3)) = [3] /\ log (right (gl ex_s3)) = [3].
Proof. vm_compute. auto. Qed.
Example ex_read_after_modify :
  let s4 := run glob loc tstep ex_s3 [(0,0);(1,0);(1,0);(1,0)]%nat in
  exists l, nth_error (thr s4) 1 = Some l /\ at_ l = R_ldr /\
            exists r, tstep 1 0 (gl s4) l = Some r /\
                      nth_error (slots (snd (fst r))) 0 = Some (Some (Hnd false false [3])).
Proof. vm_compute. eexists. repeat split. eexists. split; reflexivity. Qed.

(* a throwing functor: the first invocation of user code throws; on exit both copies are unchanged *)
Example ex_throw_first :
  let s := run glob loc tstep (init 1 [0] [[Modify 5]]) [(0,0);(0,0);(0,0);(0,0);(0,0);(0,0);(0,0);(0,0)]%nat in
  pcof s 0 = C_unlock true /\ log (left (gl s)) = [] /\ log (right (gl s)) = [] /\ mtx (gl s) = Some 0%nat.
Proof. vm_compute. auto. Qed.
