(* C20 - Throwing user code never leaves a wrapper locked or half-modified.
   A multi-component property: each clause is the theorem of the component that owns the code, re-exported
   here under one roof (the statement of each theorem below is, verbatim, the type of the named lemma; the
   English reading is in the comment above it).  In every model the throw plan is part of the configuration
   (cfg lists the indices of the user-code invocations that throw) and the theorems are universally
   quantified over it: every choice of which invocation throws, combined with every schedule. *)
From GV Require LRProofs DeferredProofs SOHProofs DelayedDestructorProofs.
From GV Require Properties_C03 Properties_C06 Properties_C16 Properties_C17.

(* ---------- lr_guarded: all-or-nothing ---------- *)
(* on leaving modify() by the exceptional path after a throw from the FIRST application (C_unlock true) both
   copies hold the old value (gold); after a throw from the SECOND application (C_unlock false), and on the
   normal exit (M_unlock), both hold the new value gold ++ [fid]; in all three cases neither copy is dirty and
   the committed log is that value *)
Theorem lr_all_or_nothing : ltac:(let T := type of LRProofs.exit_state in exact T).
Proof. exact LRProofs.exit_state. Qed.
(* the catch block is: read window on the intact copy, write window on the damaged one, then unlock + K_CATCH
   with the mutex free afterwards *)
Theorem lr_catch_path : ltac:(let T := type of LRProofs.catch_path in exact T).
Proof. exact LRProofs.catch_path. Qed.
(* a planned throw at either application enters that catch block *)
Theorem lr_throw_enters_catch : ltac:(let T := type of LRProofs.throw_enters_catch in exact T).
Proof. exact LRProofs.throw_enters_catch. Qed.
(* the exclusion invariant of C03 holds through the catch blocks' copy windows (wr_target covers the C_* pcs):
   a held reader handle is never on the copy being restored, so concurrent readers see one consistent value *)
Theorem lr_exclusion_through_catch : ltac:(let T := type of LRProofs.exclusion in exact T).
Proof. exact LRProofs.exclusion. Qed.
(* after the throw nobody owns the write mutex and the next modify can take it *)
Theorem lr_exn_releases_lock : ltac:(let T := type of LRProofs.nonholder_owns_nothing in exact T).
Proof. exact LRProofs.nonholder_owns_nothing. Qed.
Theorem lr_lock_enabled_when_free : ltac:(let T := type of LRProofs.lock_enabled_when_free in exact T).
Proof. exact LRProofs.lock_enabled_when_free. Qed.
(* and every program still finishes (no deadlock whatever throws) *)
Theorem lr_exn_usable : ltac:(let T := type of LRProofs.quiescent_finished in exact T).
Proof. exact LRProofs.quiescent_finished. Qed.

(* ---------- deferred_guarded ---------- *)
(* direct path of modify_detach: the exception propagates (K_CATCH), the outer mutex is released on the way *)
Theorem def_exn_direct : ltac:(let T := type of DeferredProofs.def_exn_direct in exact T).
Proof. exact DeferredProofs.def_exn_direct. Qed.
(* modify_async (direct or queued) and queued modify_detach: the exception is captured in the task's future *)
Theorem def_exn_captured : ltac:(let T := type of DeferredProofs.def_exn_captured in exact T).
Proof. exact DeferredProofs.def_exn_captured. Qed.
(* ... and the drain continues with the next task, releasing the task's own mutex *)
Theorem def_drain_continues : ltac:(let T := type of DeferredProofs.def_drain_continues in exact T).
Proof. exact DeferredProofs.def_drain_continues. Qed.
(* a thread back in client code holds neither the list mutex nor a task mutex nor (shared-capable kinds) the outer mutex *)
Theorem def_idle_holds_nothing : ltac:(let T := type of DeferredProofs.def_idle_holds_nothing in exact T).
Proof. exact DeferredProofs.def_idle_holds_nothing. Qed.

(* ---------- SearchableObjectHolder: throwing predicates ---------- *)
Theorem soh_exn_safe : ltac:(let T := type of Properties_C17.soh_exn_safe in exact T).
Proof. exact Properties_C17.soh_exn_safe. Qed.
Theorem soh_throw_step : ltac:(let T := type of Properties_C17.soh_throw_step in exact T).
Proof. exact Properties_C17.soh_throw_step. Qed.
Theorem soh_no_lock_left : ltac:(let T := type of Properties_C17.soh_no_lock_left in exact T).
Proof. exact Properties_C17.soh_no_lock_left. Qed.

(* ---------- DelayedDestructor: throwing callbacks ---------- *)
(* destroyObjects returns normally; the throwing step leaves the thread outside the lock with the whole batch
   still to be released (destroyed exactly once, outside the lock) and the later callbacks of the batch skipped *)
Theorem dd_callback_throw : ltac:(let T := type of Properties_C16.dd_callback_throw in exact T).
Proof. exact Properties_C16.dd_callback_throw. Qed.
Theorem dd_user_code_outside_lock : ltac:(let T := type of Properties_C16.dd_user_code_outside_lock in exact T).
Proof. exact Properties_C16.dd_user_code_outside_lock. Qed.
Theorem dd_once : ltac:(let T := type of Properties_C16.dd_once in exact T).
Proof. exact Properties_C16.dd_once. Qed.
