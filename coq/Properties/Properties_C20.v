(* C20 - Throwing user code never leaves a wrapper locked or half-modified.
   A multi-component property: each clause is the theorem of the component that owns the code, re-exported
   here under one roof (the statement of each theorem below is, verbatim, the type of the named lemma; the
   English reading is in the comment above it).  In every model the throw plan is part of the configuration
   (cfg lists the indices of the user-code invocations that throw) and the theorems are universally
   quantified over it: every choice of which invocation throws, combined with every schedule. *)
From GV Require LRProofs DeferredProofs SOHProofs DelayedDestructorProofs WrapperProofs CowProofs.
From GV Require Properties_C03 Properties_C06 Properties_C16 Properties_C17.

(* ---------- guarded / guarded_opt / shared_guarded(_opt) / ordered_guarded / atomic_guarded ---------- *)
(* a throwing functor (modify / read) or a throwing copy / assignment of the wrapped type (store, operator=,
   load, exchange, compare_exchange): the throwing call changes only the call counter and goes straight to the
   guard's release with the exception pending *)
Theorem wr_throw_step : ltac:(let T := type of WrapperProofs.wr_throw_step_t in exact T).
Proof. exact WrapperProofs.wr_throw_step_t. Qed.
(* K_CATCH is emitted only by the release of the operation's guard *)
Theorem wr_catch_only_from_guard_release : ltac:(let T := type of WrapperProofs.catch_only_from in exact T).
Proof. exact WrapperProofs.catch_only_from. Qed.
(* the catching step emits [unlock; catch], ends at top level with the handle slots unchanged, and the thread's
   lock counts equal what its handles own: the operation's own guard is released, nothing is left locked *)
Theorem wr_exn_no_lock_left : ltac:(let T := type of WrapperProofs.wr_exn_no_lock_left in exact T).
Proof. exact WrapperProofs.wr_exn_no_lock_left. Qed.
(* afterwards the wrapper is usable: the state is an ordinary reachable state, a thread keeping no handle owns
   nothing, an exclusive guard leaves the mutex free *)
Theorem wr_exn_usable : ltac:(let T := type of WrapperProofs.wr_exn_usable in exact T).
Proof. exact WrapperProofs.wr_exn_usable. Qed.
(* never half-modified: in every operation body every user call precedes every write of the wrapped object, the
   throwing call leaves the payload untouched, and at the release the payload is not dirty and no write window is open *)
Theorem wr_exn_calls_first : ltac:(let T := type of WrapperProofs.wr_exn_calls_first in exact T).
Proof. exact WrapperProofs.wr_exn_calls_first. Qed.
Theorem wr_throw_payload_untouched : ltac:(let T := type of WrapperProofs.wr_throw_payload_untouched in exact T).
Proof. exact WrapperProofs.wr_throw_payload_untouched. Qed.
Theorem wr_exn_state : ltac:(let T := type of WrapperProofs.wr_exn_state in exact T).
Proof. exact WrapperProofs.wr_exn_state. Qed.

(* ---------- cow_guarded: a throwing copy in lock() ---------- *)
(* unwinding order is the real one (~data before ~guard): the inner read registration is given back (counter
   decremented), then the outer mutex is released with K_CATCH *)
Theorem cow_throw_path : ltac:(let T := type of CowProofs.cow_throw_path in exact T).
Proof. exact CowProofs.cow_throw_path. Qed.
(* after the throw: outer mutex free, inner mutex and both copies and the committed version and the heap
   unchanged, the thread registered nowhere and owning nothing *)
Theorem cow_lock_copy_throw : ltac:(let T := type of CowProofs.cow_lock_copy_throw in exact T).
Proof. exact CowProofs.cow_lock_copy_throw. Qed.
Theorem cow_lock_enabled_when_free : ltac:(let T := type of CowProofs.cow_lock_enabled_when_free in exact T).
Proof. exact CowProofs.cow_lock_enabled_when_free. Qed.
Theorem cow_nonowner_owns_nothing : ltac:(let T := type of CowProofs.cow_nonowner_owns_nothing in exact T).
Proof. exact CowProofs.cow_nonowner_owns_nothing. Qed.

(* ---------- lr_guarded: all-or-nothing ---------- *)
(* on leaving modify() by the exceptional path after a throw from the FIRST application (C_unlock true) both
   copies hold the old value (gold); after a throw from the SECOND application (C_unlock false), and on the
   normal exit (M_unlock), both hold the new value gold ++ [fid]; in all three cases neither copy is dirty and
   the committed log is that value *)
Theorem lr_all_or_nothing : ltac:(let T := type of LRProofs.exit_state in exact T).
Proof. exact LRProofs.exit_state. Qed.
(* the catch block is: read window on the intact copy, write window on the damaged one, then unlock + K_CATCH
   with the mutex free afterwards *)
Theorem lr_catch_path : ltac:(let T := type of LRProofs.catch_path in exact T).
Proof. exact LRProofs.catch_path. Qed.
(* a planned throw at either application enters that catch block *)
Theorem lr_throw_enters_catch : ltac:(let T := type of LRProofs.throw_enters_catch in exact T).
Proof. exact LRProofs.throw_enters_catch. Qed.
(* the exclusion invariant of C03 holds through the catch blocks' copy windows (wr_target covers the C_* pcs):
   a held reader handle is never on the copy being restored, so concurrent readers see one consistent value *)
Theorem lr_exclusion_through_catch : ltac:(let T := type of LRProofs.exclusion in exact T).
Proof. exact LRProofs.exclusion. Qed.
(* after the throw nobody owns the write mutex and the next modify can take it *)
Theorem lr_exn_releases_lock : ltac:(let T := type of LRProofs.nonholder_owns_nothing in exact T).
Proof. exact LRProofs.nonholder_owns_nothing. Qed.
Theorem lr_lock_enabled_when_free : ltac:(let T := type of LRProofs.lock_enabled_when_free in exact T).
Proof. exact LRProofs.lock_enabled_when_free. Qed.
(* and every program still finishes (no deadlock whatever throws) *)
Theorem lr_exn_usable : ltac:(let T := type of LRProofs.quiescent_finished in exact T).
Proof. exact LRProofs.quiescent_finished. Qed.

(* ---------- deferred_guarded ---------- *)
(* direct path of modify_detach: the exception propagates (K_CATCH), the outer mutex is released on the way *)
Theorem def_exn_direct : ltac:(let T := type of DeferredProofs.def_exn_direct in exact T).
Proof. exact DeferredProofs.def_exn_direct. Qed.
(* modify_async (direct or queued) and queued modify_detach: the exception is captured in the task's future *)
Theorem def_exn_captured : ltac:(let T := type of DeferredProofs.def_exn_captured in exact T).
Proof. exact DeferredProofs.def_exn_captured. Qed.
(* ... and the drain continues with the next task, releasing the task's own mutex *)
Theorem def_drain_continues : ltac:(let T := type of DeferredProofs.def_drain_continues in exact T).
Proof. exact DeferredProofs.def_drain_continues. Qed.
(* a thread back in client code holds neither the list mutex nor a task mutex nor (shared-capable kinds) the outer mutex *)
Theorem def_idle_holds_nothing : ltac:(let T := type of DeferredProofs.def_idle_holds_nothing in exact T).
Proof. exact DeferredProofs.def_idle_holds_nothing. Qed.

(* ---------- SearchableObjectHolder: throwing predicates ---------- *)
Theorem soh_exn_safe : ltac:(let T := type of Properties_C17.soh_exn_safe in exact T).
Proof. exact Properties_C17.soh_exn_safe. Qed.
Theorem soh_throw_step : ltac:(let T := type of Properties_C17.soh_throw_step in exact T).
Proof. exact Properties_C17.soh_throw_step. Qed.
Theorem soh_no_lock_left : ltac:(let T := type of Properties_C17.soh_no_lock_left in exact T).
Proof. exact Properties_C17.soh_no_lock_left. Qed.

(* ---------- DelayedDestructor: throwing callbacks ---------- *)
(* destroyObjects returns normally; the throwing step leaves the thread outside the lock with the whole batch
   still to be released (destroyed exactly once, outside the lock) and the later callbacks of the batch skipped *)
Theorem dd_callback_throw : ltac:(let T := type of Properties_C16.dd_callback_throw in exact T).
Proof. exact Properties_C16.dd_callback_throw. Qed.
Theorem dd_user_code_outside_lock : ltac:(let T := type of Properties_C16.dd_user_code_outside_lock in exact T).
Proof. exact Properties_C16.dd_user_code_outside_lock. Qed.
Theorem dd_once : ltac:(let T := type of Properties_C16.dd_once in exact T).
Proof. exact Properties_C16.dd_once. Qed.
