(* C16 - DelayedDestructor destroys late, once, and never under its own lock
   (and the dd_callback_throw clause of C20).
   Statements only; every proof is `exact <lemma>` into Proofs/DelayedDestructorProofs.v.
   All theorems quantify over the configuration c (locked class / single-thread class, callback or not, which
   callback invocations throw), any number of threads with any programs over
   {Add, Drop, DestroyObjects, DestroyObjectsDelay d, Size, DestroyContainer, Readd} whose element destructors and
   callbacks re-enter the container (size / add / destroyObjects / destroyObjects(delay)), and every schedule
   including lock time-outs (choice 2).  Vocabulary:
     rc g o        use_count of object o            ext g o     client references (slots)
     dcnt g o      destructor calls so far          cbc g o     callback calls so far
     tot irefs o ls   references held by local vectors / parameters of all threads
     tot idtor o ls   destructors of o about to run (the thread's next user-code step)
     head_is s t i    the next instruction of thread t is i. *)
From Coq Require Import List Arith ZArith Lia Bool.
Import ListNotations.
From GV Require Import Sched Events DelayedDestructorModel DelayedDestructorProofs.

(* ---------- destroyed once, late, not while owned ---------- *)
Theorem dd_once : forall c progs s o, R c progs s -> dcnt (gl s) o <= 1.
Proof. exact destroyed_once. Qed.

(* when the destructor of o is about to run nobody owns o: no client slot, no vector entry, no local copy
   in any thread; it has not run before and no other destructor call of o is pending *)
Theorem dd_not_while_owned : forall c progs s t src o, R c progs s -> head_is s t (IDtor src o) ->
  rc (gl s) o = 0 /\ ext (gl s) o = 0 /\ cnt o (vec (gl s)) = 0 /\ tot irefs o (thr s) = 0 /\
  dcnt (gl s) o = 0 /\ tot idtor o (thr s) = 1.
Proof. exact dtor_not_while_owned. Qed.
Theorem dd_owned_not_destroyed : forall c progs s o, R c progs s -> ext (gl s) o >= 1 ->
  dcnt (gl s) o = 0 /\ tot idtor o (thr s) = 0.
Proof. exact client_owned_not_destroyed. Qed.

(* once the container is destroyed, an object without client owner and without pending local reference
   has been destroyed (or its destructor is the very next step of the releasing thread) *)
Theorem dd_latest : forall c progs s o, R c progs s -> cstate (gl s) = 2 -> created (gl s) o = true ->
  ext (gl s) o = 0 -> tot irefs o (thr s) = 0 -> dcnt (gl s) o + tot idtor o (thr s) = 1.
Proof. exact destroyed_at_the_latest. Qed.
Theorem dd_latest_done : forall c progs s o, R c progs s -> all_fin glob loc fin s = true -> cstate (gl s) = 2 ->
  created (gl s) o = true -> ext (gl s) o = 0 -> dcnt (gl s) o = 1.
Proof. exact destroyed_when_done. Qed.

(* ---------- use_count is exact; nothing is lost or duplicated ---------- *)
Theorem dd_use_count_exact : forall c progs s o, R c progs s ->
  rc (gl s) o = cnt o (vec (gl s)) + ext (gl s) o + tot irefs o (thr s).
Proof. exact use_count_exact. Qed.
(* every push into the vector (with multiplicity: the same object may be added twice) is a vector entry, an entry
   of some thread's local vector, or a reference the container has released *)
Theorem dd_conservation : forall c progs s o, R c progs s ->
  cnt o (addlog (gh (gl s))) = cnt o (vec (gl s)) + tot crefs o (thr s) + cnt o (rlog (gh (gl s))).
Proof. exact conservation. Qed.
(* ... and an object whose last reference is gone is destroyed: no leak *)
Theorem dd_no_leak : forall c progs s o, R c progs s -> created (gl s) o = true -> rc (gl s) o = 0 ->
  dcnt (gl s) o + tot idtor o (thr s) = 1.
Proof. exact no_leak. Qed.
(* an object selected by destroyObjects has left the vector, has no client owner, and is held by exactly the
   selecting thread's local vector *)
Theorem dd_reaped_is_local : forall c progs s o, R c progs s -> In o (reaped (gh (gl s))) ->
  cnt o (vec (gl s)) = 0 /\ ext (gl s) o = 0 /\ tot arefs o (thr s) = 0 /\ rc (gl s) o <= 1.
Proof. exact reaped_is_local. Qed.

(* ---------- the callback ---------- *)
Theorem dd_callback_once_before : forall c progs s t o, R c progs s -> hascb (cf (gl s)) = true ->
  head_is s t (IDtor SRC_CLEAR o) -> cbc (gl s) o = 1.
Proof. exact callback_once_before_dtor. Qed.
Theorem dd_callback_at_most_once : forall c progs s o, R c progs s -> cbc (gl s) o <= 1.
Proof. exact callback_at_most_once. Qed.
Theorem dd_callback_only_reaped : forall c progs s o, R c progs s -> cbc (gl s) o >= 1 -> In o (reaped (gh (gl s))).
Proof. exact callback_only_reaped. Qed.
Theorem dd_callback_before_dtor : forall c progs s t o rest ec esz, R c progs s -> head_is s t (ICb o rest ec esz) ->
  cbc (gl s) o = 0 /\ dcnt (gl s) o = 0 /\ tot idtor o (thr s) = 0 /\ rc (gl s) o = 1 /\ In o (reaped (gh (gl s))).
Proof. exact callback_before_dtor. Qed.
Theorem dd_no_callback_without_function : forall c progs s, R c progs s -> hascb (cf (gl s)) = false -> cblog (gh (gl s)) = [].
Proof. exact no_callback_without_function. Qed.

(* C20: a throwing callback is swallowed by destroyObjects(): the remaining callbacks of the batch are skipped (their
   count stays 0), the complete local vector is still released (outside the lock, the thread does not own the mutex),
   and the function returns elementSize; dd_once / dd_no_leak then give "destroyed exactly once" *)
Theorem dd_callback_throw : forall c progs s t o rest ec esz cc r, R c progs s -> head_is s t (ICb o rest ec esz) ->
  memn (ncb (gl s)) (throws (cf (gl s))) = true ->
  exists g', exec t cc (gl s) r (ICb o rest ec esz) =
             Some (g', r, [IClear SRC_UNWIND ec; ISetRv (zn esz)], [E K_CALL 0 (fid_cb o); E K_THROW 0 (zn (ncb (gl s)))]) /\
             mtx g' = mtx (gl s) /\ mtx (gl s) <> Some t /\
             incl (o :: rest) ec /\ (forall y, In y rest -> cbc g' y = 0) /\ (forall y, In y ec -> In y (reaped (gh g'))).
Proof. exact callback_throw. Qed.

(* ---------- user code runs outside the lock; re-entrancy is safe ---------- *)
Theorem dd_user_code_outside_lock : forall c progs s t i, R c progs s -> head_is s t i -> is_user i = true ->
  mtx (gl s) <> Some t.
Proof. exact user_code_outside_lock. Qed.
(* no self-deadlock: a thread never tries to acquire destructionLock while owning it, whatever its destructors and
   callbacks call back into *)
Theorem dd_reentrancy_safe : forall c progs s t i, R c progs s -> head_is s t i -> is_acquire i = true ->
  mtx (gl s) <> Some t.
Proof. exact never_relocks_own_mutex. Qed.
Theorem dd_mutual_exclusion : forall c progs s t u, R c progs s -> locked (cf (gl s)) = true ->
  holds (stk_of (thr s) t) = true -> holds (stk_of (thr s) u) = true -> t = u.
Proof. exact mutual_exclusion. Qed.

(* ---------- deadlock freedom ---------- *)
Theorem dd_holder_moves : forall c progs s a cc, R c progs s -> mtx (gl s) = Some a -> enabled glob loc tstep s a cc.
Proof. exact holder_enabled. Qed.
Theorem dd_timed_completes : forall (s : sys glob loc) t i, head_is s t i -> is_timed i = true -> enabled glob loc tstep s t 2.
Proof. exact timed_enabled. Qed.
Theorem dd_blocked_shape : forall c progs s t l, R c progs s -> nth_error (thr s) t = Some l -> tstep t 0 (gl s) l = None ->
  fin l = true \/
  (exists i st a, stk l = i :: st /\ is_acquire i = true /\ mtx (gl s) = Some a /\ a <> t /\ enabled glob loc tstep s a 0) \/
  (exists st, stk l = IDcGate :: st /\ busy (gl s) <> 1).
Proof. exact blocked_shape. Qed.
Theorem dd_deadlock_shape : forall c progs s t l, R c progs s -> quiescent glob loc tstep s -> nth_error (thr s) t = Some l ->
  fin l = true \/ (exists st, stk l = IDcGate :: st /\ busy (gl s) <> 1).
Proof. exact quiescent_shape. Qed.
Theorem dd_gate_opens : forall c progs s t l st cc, R c progs s -> nth_error (thr s) t = Some l -> stk l = IDcGate :: st ->
  list_sum (map wloc (thr s)) = 1 -> enabled glob loc tstep s t cc.
Proof. exact gate_opens. Qed.
Theorem dd_no_deadlock : forall c progs s, R c progs s -> quiescent glob loc tstep s ->
  (forall t l st, nth_error (thr s) t = Some l -> stk l = IDcGate :: st ->
     wloc l = 1 /\ forall u l', u <> t -> nth_error (thr s) u = Some l' -> ~ (exists st', stk l' = IDcGate :: st')) ->
  all_fin glob loc fin s = true.
Proof. exact no_deadlock. Qed.

(* ---------- bounded work, termination ---------- *)
(* mu: budget of the objects (what their callback / destructor may still cause, re-entrant chains included)
   + 4 per vector entry + the weights of the pending instructions and of the operations still to be invoked.
   Every enabled step, under any choice (time-outs included), lowers it: no schedule makes more than mu(s) moves *)
Theorem dd_bounded_work : forall c progs s sc, R c progs s -> (moves glob loc tstep s sc <= mu s)%nat.
Proof. exact bounded_work. Qed.
(* existence form: from every reachable state there is a schedule of at most mu(s) steps after which every thread
   has finished, provided the programs meet the client obligation about DestroyContainer, a decidable condition:
   dc_wf progs = at most one DestroyContainer in all the programs, and in its thread only Drop operations after it *)
Theorem dd_eventually_finishes : forall c progs s, R c progs s -> dc_wf progs = true ->
  exists sc, sched_ok any_choice sc /\ (length sc <= mu s)%nat /\
             all_fin glob loc fin (run glob loc tstep s sc) = true.
Proof. exact eventually_finishes_wf. Qed.
(* the same from the semantic form of the obligation (gate_ok = the hypothesis of dd_no_deadlock: a thread waiting at
   the gate has no later container operation and is the only one there), required of the states passed through *)
Theorem dd_eventually_finishes_gate : forall c progs s, R c progs s ->
  (forall s', reachable glob loc tstep s s' -> gate_ok s') ->
  exists sc, sched_ok any_choice sc /\ (length sc <= mu s)%nat /\
             all_fin glob loc fin (run glob loc tstep s sc) = true.
Proof. exact eventually_finishes. Qed.
(* dc_wf programs never deadlock: a state in which nothing can move has every program finished *)
Theorem dd_no_deadlock_wf : forall c progs s, R c progs s -> dc_wf progs = true -> quiescent glob loc tstep s ->
  all_fin glob loc fin s = true.
Proof. exact no_deadlock_wf. Qed.

(* ---------- non-vacuity: the hypotheses are met by concrete reachable states ---------- *)
Definition one (n : nat) : list (nat * nat) := repeat (0, 0)%nat n.
Definition cfg_cb := Config true true [].
Definition st_of c progs sc := run glob loc tstep (init c progs) sc.

(* add one object and call destroyObjects(): after 6 steps the callback is the next step, after 7 the destructor *)
Example ex_callback_next : head_is (st_of cfg_cb [[Add 0 0 0; DestroyObjects]] (one 6)) 0 (ICb 1 [] [1] 0).
Proof. vm_compute. eexists; eexists; split; reflexivity. Qed.
Example ex_dtor_next : head_is (st_of cfg_cb [[Add 0 0 0; DestroyObjects]] (one 7)) 0 (IDtor SRC_CLEAR 1).
Proof. vm_compute. eexists; eexists; split; reflexivity. Qed.
(* the first callback of a batch of two throws *)
Example ex_throwing_callback :
  let s := st_of (Config true true [0]) [[Add 0 0 0; Add 0 0 0; DestroyObjects]] (one 9) in
  head_is s 0 (ICb 1 [2] [1; 2] 0) /\ memn (ncb (gl s)) (throws (cf (gl s))) = true.
Proof. vm_compute. split; [eexists; eexists; split; reflexivity|reflexivity]. Qed.
(* destructors and callbacks that re-enter (destroyObjects, size, add, destroyObjects(150ms)): everything finishes,
   both objects are destroyed after their callback; the object added by a destructor is left in the vector *)
Example ex_reentrant_run :
  let s := st_of cfg_cb [[Add 0 3 1; Add 0 2 4; DestroyObjects; Size]] (one 80) in
  all_fin glob loc fin s = true /\ dlog (gh (gl s)) = [2; 1] /\ cblog (gh (gl s)) = [2; 1] /\ vec (gl s) = [3].
Proof. vm_compute. repeat split. Qed.
(* the same object added twice: once its client owner is gone it has two vector entries and use_count 2, so
   destroyObjects() never selects it (size stays 2) ... *)
Example ex_double_add_not_reaped :
  let s := st_of cfg_cb [[Add 1 0 0; Readd 1; Drop 1; DestroyObjects; Size]] (one 40) in
  all_fin glob loc fin s = true /\ dlog (gh (gl s)) = [] /\ vec (gl s) = [1; 1] /\ rc (gl s) 1 = 2 /\
  ext (gl s) 1 = 0 /\ rv (hd (Loc [] [] 0%Z) (thr s)) = 2%Z.
Proof. vm_compute. repeat split. Qed.
(* ... it is destroyed (once, without callback) only when the container is *)
Example ex_double_add_destroyed_with_container :
  let s := st_of cfg_cb [[Add 1 0 0; Readd 1; Drop 1; DestroyObjects; DestroyContainer]] (one 80) in
  all_fin glob loc fin s = true /\ cstate (gl s) = 2 /\ dlog (gh (gl s)) = [1] /\ cblog (gh (gl s)) = [].
Proof. vm_compute. repeat split. Qed.
(* a thread blocked at the gate because another container operation is still to come *)
Example ex_gate_waits :
  let s := st_of cfg_cb [[DestroyContainer]; [Size]] (one 5) in
  head_is s 0 IDcGate /\ busy (gl s) = 2.
Proof. vm_compute. split; [eexists; eexists; split; reflexivity|reflexivity]. Qed.
(* a timed acquisition facing a held mutex *)
Example ex_timed_blocked :
  let s := st_of cfg_cb [[DestroyObjects]; [Size]] [(1,0); (1,0); (0,0)]%nat in
  head_is s 0 IDoTry /\ mtx (gl s) = Some 1 /\ tstep 0 0 (gl s) (Loc [] [IDoTry; IEndOp true] 0%Z) = None.
Proof. vm_compute. split; [eexists; eexists; split; reflexivity|split; reflexivity]. Qed.
(* the container is destroyed while a client still owns an object: it survives until the client drops it *)
Example ex_survives_container :
  let s := st_of cfg_cb [[Add 1 0 0; DestroyContainer]] (one 60) in
  let s' := st_of cfg_cb [[Add 1 0 0; DestroyContainer; Drop 1]] (one 60) in
  cstate (gl s) = 2 /\ dcnt (gl s) 1 = 0 /\ ext (gl s) 1 = 1 /\ dcnt (gl s') 1 = 1 /\ all_fin glob loc fin s' = true.
Proof. vm_compute. repeat split. Qed.

(* a sweep in progress with re-entrant chains pending: thread 1 is between the callbacks of a batch of two (object 1's
   destructor hands over a chain of three generations, object 2's callback a chain of two), thread 0 waits at
   the gate of DestroyContainer.  mu is 111 (127 initially); 9 steps of thread 1 and 31 of thread 0 finish the run,
   all seven objects destroyed after their callback *)
Definition ex_chain_progs := [[Add 0 6 0; DestroyContainer]; [Add 0 0 5; DestroyObjects]].
Definition ex_chain_sched := (one 3 ++ repeat (1, 0) 7 ++ one 4)%nat.
Example ex_bounded_work_chain :
  let s := st_of cfg_cb ex_chain_progs ex_chain_sched in
  let sc := (repeat (1, 0) 9 ++ one 31)%nat in
  let s' := run glob loc tstep s sc in
  head_is s 0 IDcGate /\ head_is s 1 (ICb 2 [] [1; 2] 0) /\ mu (init cfg_cb ex_chain_progs) = 127 /\ mu s = 111 /\
  moves glob loc tstep s sc = 40 /\ length sc <= mu s /\ all_fin glob loc fin s' = true /\
  dlog (gh (gl s')) = [7; 6; 5; 4; 3; 2; 1] /\ cblog (gh (gl s')) = [7; 6; 5; 4; 3; 2; 1] /\ mu s' = 0.
Proof. vm_compute. repeat split; try (eexists; eexists; split; reflexivity); auto; lia. Qed.

(* the condition on the programs: true for the chain example (one DestroyContainer, last operation of its thread),
   false when a container operation follows DestroyContainer in its thread or when two threads destroy the container *)
Example ex_dc_wf : dc_wf ex_chain_progs = true /\ dc_wf [[Add 1 0 0; DestroyContainer; Drop 1]; [Size; Drop 1]] = true /\
  dc_wf [[DestroyContainer; Size]] = false /\ dc_wf [[DestroyContainer]; [DestroyContainer]] = false.
Proof. vm_compute. repeat split. Qed.
(* ... and the violating program really gets stuck: the gate waits for the Size that comes after it *)
Example ex_dc_wf_needed :
  let s := st_of cfg_cb [[DestroyContainer; Size]] (one 3) in
  quiescent glob loc tstep s /\ all_fin glob loc fin s = false /\ head_is s 0 IDcGate /\ busy (gl s) = 2.
Proof.
  split; [|vm_compute; split; [reflexivity|split; [eexists; eexists; split; reflexivity|reflexivity]]].
  intros t c _ [l [r [Hl Hs]]]. destruct t as [|t]; [|destruct t; discriminate Hl].
  vm_compute in Hl. inversion Hl; subst. discriminate Hs.
Qed.
