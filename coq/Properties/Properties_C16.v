(* C16 - DelayedDestructor destroys late, once, and never under its own lock. *)
From Coq Require Import List Arith ZArith Lia Bool.
Import ListNotations.
From GV Require Import Sched Events DelayedDestructorModel DelayedDestructorProofs.
Local Open Scope Z_scope.
