(* C02 - readers and writers never overlap; readers can share.
   Statements only; every proof is `exact <lemma>`.  Two models:
     Wrapper  (Proofs/WrapperProofs.v): shared_guarded, shared_guarded_opt (enabled), ordered_guarded, and the
              handle classes of handles.hpp, for the four mutex kinds;
     Deferred (Proofs/DeferredProofs.v): deferred_guarded;
     Deferred2 (Proofs/Deferred2Proofs.v): two deferred_guarded objects A, B of one type, with modification
              functions of A that submit a modification to B - or to A itself - while they run (x = false: A,
              x = true: B; objls x = the pcs of all threads in x's automaton, objpcs x l = those of one thread).
   The Wrapper theorems quantify over the configuration cf, any number of threads with any programs over the
   whole API and every schedule (R cf progs s).  Vocabulary (WrapperProofs): lx / lsh = exclusive / shared locks
   of the wrapper's mutex owned by a thread (live handles, guards of read / modify / load / store);
   holds_shared = 1 <= lsh (a live shared handle or inside read / ordered load, shared-capable mutex);
   wropen = a modification (write window of the wrapped object) is open; safe = locking enabled and no client
   dereference of a moved-from handle.
   Partial: writer-preference policies of real shared_mutex implementations (a pending writer may delay new
   readers) are outside the model; "never blocked merely by another reader" is proved for the standard's
   minimal semantics, which is what harness/vstd.hpp implements. *)
From Coq Require Import List Arith ZArith Lia Bool.
Import ListNotations.
From GV Require Import Sched Events WrapperModel.
From GV Require WrapperProofs DeferredModel DeferredProofs Deferred2Model Deferred2Proofs.
Local Open Scope Z_scope.

(* while a thread holds the mutex in shared mode nobody holds it exclusively (no exclusive handle, nobody
   inside modify / store / operator=) and - locking enabled - no modification window is open *)
Theorem rw_exclusion : forall cf progs s t,
  WrapperProofs.R cf progs s -> WrapperProofs.holds_shared cf s t ->
  (forall u, WrapperProofs.lx cf (WrapperProofs.locof (thr s) u) = 0%nat) /\
  (WrapperProofs.safe cf (gl s) -> forall u, WrapperProofs.wropen (at_ (WrapperProofs.locof (thr s) u)) = false).
Proof. exact WrapperProofs.rw_exclusion_l. Qed.

(* no modification starts while a shared handle is alive: after any step of any thread u there is still no
   exclusive holder and no open modification window ... *)
Theorem no_mod_starts : forall cf progs s t u c,
  WrapperProofs.R cf progs s -> WrapperProofs.holds_shared cf s t ->
  let s' := step glob loc (tstep cf) s (u, c) in
  (forall v, WrapperProofs.lx cf (WrapperProofs.locof (thr s') v) = 0%nat) /\
  (WrapperProofs.safe cf (gl s') -> forall v, WrapperProofs.wropen (at_ (WrapperProofs.locof (thr s') v)) = false).
Proof. exact WrapperProofs.no_mod_starts_l. Qed.
(* ... because the step that would take the exclusive lock (lock(), the lock_guard of modify / store /
   operator=) is disabled *)
Theorem writer_blocked : forall cf progs s t u c l,
  WrapperProofs.R cf progs s -> WrapperProofs.holds_shared cf s t ->
  nth_error (thr s) u = Some l -> WrapperProofs.blocked_on cf l false -> tstep cf u c (gl s) l = None.
Proof. exact WrapperProofs.writer_blocked_l. Qed.

(* readers share: with shared_mutex / shared_timed_mutex a shared acquisition - lock_shared, try_lock_shared,
   the timed forms, lock() const - is enabled in every state without an exclusive owner, whatever the other
   sharers, under every choice; so are read and ordered_guarded::load *)
Theorem readers_share : forall cf t c g pr sl h am,
  shcap cf = true -> owner g = None -> exists r, tstep cf t c g (Loc pr (HAcq h am true) sl) = Some r.
Proof. exact WrapperProofs.readers_share_handle_t. Qed.
Theorem readers_share_read : forall cf t c g pr sl o code,
  shcap cf = true -> owner g = None -> wop_code cf o = Some (true, code) ->
  exists r, tstep cf t c g (Loc pr (GAcq o) sl) = Some r.
Proof. exact WrapperProofs.readers_share_guard_t. Qed.

(* mutex / timed_mutex: shared access degrades to exclusive access and stays safe - a thread with a live
   owning shared handle (or inside read / ordered load) has exclusive access: no other thread holds the mutex
   in any mode or is inside any access *)
Theorem plain_degrades_safely : forall cf progs s t l u,
  WrapperProofs.R cf progs s -> shcap cf = false -> nth_error (thr s) t = Some l ->
  WrapperProofs.holds_shared_type cf l -> u <> t ->
  WrapperProofs.in_excl_access cf s t /\ ~ WrapperProofs.holds_lock cf s u /\
  (WrapperProofs.safe cf (gl s) -> ~ WrapperProofs.in_any_access s u).
Proof. exact WrapperProofs.plain_degrades_safely_l. Qed.

(* reader and writer windows never overlap (both directions), any mutex kind: from C01 *)
Theorem rw_windows_disjoint : forall cf progs s,
  WrapperProofs.R cf progs s -> WrapperProofs.safe cf (gl s) ->
  ~ (exists t u, t <> u /\ WrapperProofs.open_window s t /\ WrapperProofs.open_write_window s u).
Proof. exact WrapperProofs.windows_disjoint_l. Qed.

(* ---------- deferred_guarded ---------- *)
Theorem deferred_rw_exclusion : forall m th progs (s : sys DeferredModel.glob DeferredModel.loc) t,
  DeferredProofs.R m th progs s -> (1 <= DeferredProofs.shl (DeferredProofs.locof (thr s) t))%nat ->
  (forall u, DeferredProofs.holdsX (DeferredProofs.pcof (thr s) u) = false) /\
  (forall u c l g' l' es, nth_error (thr s) u = Some l -> DeferredModel.tstep u c (gl s) l = Some (g', l', es) ->
     DeferredProofs.holdsX (DeferredModel.at_ l') = false).
Proof. exact DeferredProofs.def_rw_exclusion. Qed.
Theorem deferred_readers_share : forall (g : DeferredModel.glob) t c l a,
  DeferredModel.shcap g = true -> DeferredModel.owner g = None -> DeferredModel.at_ l = DeferredModel.S_acq a ->
  exists r, DeferredModel.tstep t c g l = Some r.
Proof. exact DeferredProofs.def_readers_share. Qed.
Theorem deferred_windows_disjoint : forall m th progs (s : sys DeferredModel.glob DeferredModel.loc) u v,
  DeferredProofs.R m th progs s -> u <> v -> DeferredProofs.wropen (DeferredProofs.pcof (thr s) u) = true ->
  DeferredProofs.rdopen (DeferredProofs.pcof (thr s) v) = false /\
  DeferredProofs.wropen (DeferredProofs.pcof (thr s) v) = false.
Proof. exact DeferredProofs.def_windows_disjoint. Qed.
Theorem deferred_no_fault : forall m th progs (s : sys DeferredModel.glob DeferredModel.loc),
  DeferredProofs.R m th progs s -> DeferredModel.faulted (gl s) = false.
Proof. exact DeferredProofs.def_no_fault. Qed.

(* ---------- two deferred_guarded objects, nested submissions ---------- *)
(* while a shared handle on object x is alive, no thread is inside an exclusive section of x: no functor runs on x,
   whoever submitted it - also not the inner submission made by a modification function of the other object *)
Theorem deferred2_rw_exclusion : forall m progs (s : sys Deferred2Model.glob2 Deferred2Model.loc2) x t,
  Deferred2Proofs.R2 m progs s ->
  (1 <= DeferredProofs.shl (DeferredProofs.locof (Deferred2Proofs.objls x (thr s)) t))%nat ->
  forall u, DeferredProofs.holdsX (DeferredProofs.pcof (Deferred2Proofs.objls x (thr s)) u) = false.
Proof. exact Deferred2Proofs.rw_exclusion2. Qed.
(* ... and no step of any thread enters one: no modification of x starts while the handle is alive *)
Theorem deferred2_no_mod_starts : forall m progs (s : sys Deferred2Model.glob2 Deferred2Model.loc2) x t u c l g' l' es,
  Deferred2Proofs.R2 m progs s ->
  (1 <= DeferredProofs.shl (DeferredProofs.locof (Deferred2Proofs.objls x (thr s)) t))%nat ->
  nth_error (thr s) u = Some l -> Deferred2Model.tstep2 u c (gl s) l = Some (g', l', es) ->
  forall lx, In lx (Deferred2Proofs.objpcs x l') -> DeferredProofs.holdsX (DeferredModel.at_ lx) = false.
Proof. exact Deferred2Proofs.no_exclusive_starts2. Qed.
(* a functor running on x owns x's mutex exclusively; nobody shares x, no other window on x's payload is open *)
Theorem deferred2_exclusive : forall m progs (s : sys Deferred2Model.glob2 Deferred2Model.loc2) x t,
  Deferred2Proofs.R2 m progs s ->
  DeferredProofs.inbody (DeferredProofs.pcof (Deferred2Proofs.objls x (thr s)) t) = true ->
  DeferredModel.owner (Deferred2Proofs.objg x (gl s)) = Some t /\
  (forall u, DeferredProofs.shl (DeferredProofs.locof (Deferred2Proofs.objls x (thr s)) u) = 0%nat) /\
  (forall u, DeferredProofs.inbody (DeferredProofs.pcof (Deferred2Proofs.objls x (thr s)) u) = true -> u = t) /\
  (forall u, u <> t -> DeferredProofs.rdopen (DeferredProofs.pcof (Deferred2Proofs.objls x (thr s)) u) = false /\
                       DeferredProofs.wropen (DeferredProofs.pcof (Deferred2Proofs.objls x (thr s)) u) = false).
Proof. exact Deferred2Proofs.running_exclusive2. Qed.
Theorem deferred2_no_fault : forall m progs (s : sys Deferred2Model.glob2 Deferred2Model.loc2) x,
  Deferred2Proofs.R2 m progs s -> DeferredModel.faulted (Deferred2Proofs.objg x (gl s)) = false.
Proof. exact Deferred2Proofs.no_fault2. Qed.

(* ---------- non-vacuity ---------- *)
Definition cf_s : config := Cfg FShared MShared true 3 [] false.
Definition cf_p : config := Cfg FShared MPlain true 3 [] false.
Definition cf_o : config := Cfg FOrdered MSharedTimed true 3 [] false.
Definition rep (t n : nat) : list (nat * nat) := repeat (t, 0%nat) n.
Definition rd_prog := [LockShared 0; Use 0 ARead false; Destroy 0].

(* two readers with live shared handles, both inside their read windows; the writer is blocked in lock() *)
Definition two_readers := run glob loc (tstep cf_s) (init cf_s [rd_prog; rd_prog; [Lock 0]]) (rep 0 4 ++ rep 1 4 ++ rep 2 2).
Example two_readers_inside :
  WrapperProofs.holds_shared cf_s two_readers 0 /\ WrapperProofs.holds_shared cf_s two_readers 1 /\
  WrapperProofs.rdopen (at_ (WrapperProofs.locof (thr two_readers) 0)) = 1%nat /\
  WrapperProofs.rdopen (at_ (WrapperProofs.locof (thr two_readers) 1)) = 1%nat /\
  sharers (gl two_readers) = [0%nat; 1%nat] /\ WrapperProofs.safe cf_s (gl two_readers) /\
  WrapperProofs.blocked_on cf_s (WrapperProofs.locof (thr two_readers) 2) false /\
  tstep cf_s 2 0 (gl two_readers) (WrapperProofs.locof (thr two_readers) 2) = None.
Proof.
  vm_compute. repeat split; auto. left. exists 0%nat, false. split; reflexivity.
Qed.
(* ... and everything finishes once the readers leave *)
Example two_readers_then_writer :
  all_fin glob loc fin (run glob loc (tstep cf_s) two_readers (rep 0 4 ++ rep 1 4 ++ rep 2 2)) = true.
Proof. vm_compute. reflexivity. Qed.

(* the same readers on a plain mutex: the second one waits (degrades to exclusive, stays safe) *)
Definition plain_readers := run glob loc (tstep cf_p) (init cf_p [rd_prog; rd_prog]) (rep 0 4 ++ rep 1 2).
Example plain_second_reader_waits :
  WrapperProofs.holds_shared_type cf_p (WrapperProofs.locof (thr plain_readers) 0) /\
  owner (gl plain_readers) = Some 0%nat /\
  tstep cf_p 1 0 (gl plain_readers) (WrapperProofs.locof (thr plain_readers) 1) = None.
Proof.
  vm_compute. repeat split; auto. left. exists 0%nat, (H true true true 1). repeat split.
Qed.

(* ordered_guarded: a reader inside read(f) and a second one inside load; modify waits *)
Definition ord_readers := run glob loc (tstep cf_o) (init cf_o [[ReadF 3]; [Load]; [Modify 2]]) (rep 0 4 ++ rep 1 4 ++ rep 2 2).
Example ordered_read_and_load_share :
  WrapperProofs.holds_shared cf_o ord_readers 0 /\ WrapperProofs.holds_shared cf_o ord_readers 1 /\
  length (sharers (gl ord_readers)) = 2%nat /\
  tstep cf_o 2 0 (gl ord_readers) (WrapperProofs.locof (thr ord_readers) 2) = None.
Proof. vm_compute. repeat split; auto. Qed.

(* two objects: thread 0 holds a shared handle on B; thread 1 runs a nested modification function on A (its
   functor has been invoked, A's mutex is its own) whose inner B.modify_detach found B busy and is being queued *)
Definition nested_state :=
  run Deferred2Model.glob2 Deferred2Model.loc2 Deferred2Model.tstep2
      (Deferred2Model.init2 0 [[Deferred2Model.OnB (DeferredModel.LockShared 0)];
                               [Deferred2Model.Nested 12 (DeferredModel.ModifyDetach 1) false false 2]])
      (rep 0 3 ++ rep 1 6).
Example nested_submission_queued_behind_reader :
  (1 <= DeferredProofs.shl (DeferredProofs.locof (Deferred2Proofs.objls true (thr nested_state)) 0))%nat /\
  DeferredProofs.inbody (DeferredProofs.pcof (Deferred2Proofs.objls false (thr nested_state)) 1) = true /\
  DeferredModel.owner (Deferred2Model.gA (gl nested_state)) = Some 1%nat /\
  DeferredModel.owner (Deferred2Model.gB (gl nested_state)) = None /\
  DeferredModel.queue (Deferred2Model.gB (gl nested_state)) = [0%nat] /\
  DeferredProofs.holdsX (DeferredProofs.pcof (Deferred2Proofs.objls true (thr nested_state)) 1) = false.
Proof. vm_compute. repeat split; auto. Qed.
