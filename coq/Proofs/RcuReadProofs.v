(* rcu part of C14 (reads never block) and of C07 (memory-order table of the atomic sites). *)
From Coq Require Import List Arith ZArith Lia Bool.
Import ListNotations.
From GV Require Import Sched Events RcuModel RcuBase RcuListProofs.
Local Open Scope Z_scope.

(* pcs inside lock_read / lock_write registration, begin, ++, *, and inside the release of a handle *)
Definition in_read (p : pc) : bool :=
  match p with
  | R_alloc _ | R_constr _ _ | R_ldh _ _ | R_st _ _ _ | R_cas _ _ _ | B_ld _ | N_ld _ _ | D_rd _ _
  | U_ld | U_own _ _ | U_nx _ _ | U_dd _ _ | U_df _ _ | U_ln _ | U_zd _ _ | U_zf _ _ | U_stn | U_sto => true
  | _ => false
  end.
Definition is_mutex_kind (k : Z) : bool :=
  (K_LOCK <=? k) && (k <=? K_TRYLOCK_SH_FOR) || (K_CV_SLEEP <=? k) && (k <=? K_NOTIFY_ONE).

Ltac open_step :=
  unfold tstep; cbn [at_ prog hnd its];
  repeat match goal with
         | |- context [chk ?b _ _] => destruct b; cbn [chk]
         | |- context [let '(_, _) := ?x in _] => destruct x
         | |- context [match ?x with _ => _ end] => destruct x
         end.

(* C14: in every state whatsoever (a fortiori in every reachable one), under every choice, a thread
   inside a read-side operation can take its next step: nothing in registration, begin, ++, * or
   release waits for any other thread *)
Lemma read_nonblocking t c g l : in_read (at_ l) = true -> exists r, tstep t c g l = Some r.
Proof.
  intros H. destruct l as [pr p h its0]. destruct p; try discriminate; open_step; eexists; reflexivity.
Qed.
(* ... and an idle thread can always start its next operation (the operations that can block do so
   only at their P_lock / E_lock pc, i.e. push / erase at the write mutex) *)
Lemma idle_enabled t c g l o r : at_ l = Idle -> prog l = o :: r -> exists x, tstep t c g l = Some x.
Proof.
  intros H1 H2. destruct l as [pr p h its0]. cbn in *. subst. open_step; eexists; reflexivity.
Qed.
(* the only pcs at which a thread can be disabled *)
Lemma blocked_only_at_write_mutex t c g l : tstep t c g l = None ->
  (at_ l = Idle /\ prog l = []) \/ (exists o, at_ l = P_lock o) \/ (exists it cu, at_ l = E_lock it cu) \/
  (exists it cu, at_ l = EF_lock it cu).
Proof.
  intros H. destruct l as [pr p h its0]. destruct p; cbn [at_ prog]; eauto 6.
  all: try (exfalso; unfold tstep in H; cbn [at_ prog hnd its] in H;
            repeat match type of H with
                   | context [chk ?b _ _] => destruct b; cbn [chk] in H
                   | context [let '(_, _) := ?x in _] => destruct x
                   | context [match ?x with _ => _ end] => destruct x
                   end; discriminate).
  destruct pr; [auto|]. exfalso. unfold tstep in H; cbn [at_ prog hnd its] in H.
  repeat match type of H with
         | context [match ?x with _ => _ end] => destruct x
         end; discriminate.
Qed.

(* C14: read-side steps never touch the write mutex (no mutex / condition-variable event, owner unchanged) *)
Lemma readers_take_no_mutex t c g l g' l' es :
  in_read (at_ l) = true -> tstep t c g l = Some (g', l', es) ->
  wmtx g' = wmtx g /\ forall e, In e es -> is_mutex_kind (ek e) = false.
Proof.
  intros H Hs. destruct l as [pr p h its0]. destruct p; try discriminate.
  all: step_cases2 Hs; fold_fst.
  all: split; [autorewrite with wm; reflexivity|].
  all: intros e He; cbn [In app] in He.
  all: unfold do_construct, do_destroy, do_dealloc, do_dealloc_raw, do_alloc, null_call, lfault in *.
  all: repeat match goal with
         | H : context [let '(_, _) := ?x in _] |- _ => destruct x eqn:?
         | H : context [if ?b then _ else _] |- _ => destruct b eqn:?
         | H : (_, _) = (_, _) |- _ => inversion H; subst; clear H
         end; cbn [fst snd In app] in *.
  all: repeat match goal with
         | H : _ \/ _ |- _ => destruct H
         | H : In _ (_ ++ _) |- _ => apply in_app_or in H
         | H : In _ (_ :: _) |- _ => cbn [In] in H
         | H : In _ [] |- _ => destruct H
         | H : False |- _ => destruct H
         end; subst; try reflexivity.
Qed.

(* ---------- registration alone ---------- *)
Lemma step_at (s : sysR) t c l g' l' es :
  nth_error (thr s) t = Some l -> tstep t c (gl s) l = Some (g', l', es) ->
  stepR s (t, c) = Sys g' (upd (thr s) t l').
Proof. intros Hl Hs. unfold step, sys_step. rewrite Hl, Hs. reflexivity. Qed.

Lemma opt_eqb_refl (o : option nat) :
  (match o, o with Some a, Some b => Nat.eqb a b | None, None => true | _, _ => false end) = true.
Proof. destruct o; [apply Nat.eqb_refl|reflexivity]. Qed.

(* C14: a thread that runs alone completes its registration in exactly five steps (allocate, construct,
   load the log head, store next, one CAS), whatever state the other threads were suspended in
   (unless the operation is one whose allocation is made to fail: then it ends at once, unregistered) *)
Lemma register_solo (s : sysR) t pr o w its0 : ofails o = false ->
  nth_error (thr s) t = Some (Loc pr (R_alloc o) (Some (w, None)) its0) ->
  let s' := runR s [(t, 0); (t, 0); (t, 0); (t, 0); (t, 0)]%nat in
  exists z, nth_error (thr s') t = Some (Loc pr (body_pc o) (Some (w, Some z)) its0) /\ zhead (gl s') = Some z.
Proof.
  intros Hof Hl s'. unfold s', run. cbn [fold_left].
  (* allocate *)
  destruct (do_alloc (gl s) (BRec drec)) as [g1 z] eqn:E1.
  erewrite (step_at s t 0 _ g1 (Loc pr (R_constr o z) (Some (w, None)) its0)); [|exact Hl|unfold tstep; cbn [at_ prog hnd its]; rewrite Hof, E1; reflexivity].
  set (s1 := Sys g1 (upd (thr s) t (Loc pr (R_constr o z) (Some (w, None)) its0))).
  assert (H1 : nth_error (thr s1) t = Some (Loc pr (R_constr o z) (Some (w, None)) its0)) by (apply (nth_upd_eq _ _ _ _ Hl)).
  (* construct *)
  destruct (do_construct g1 z (BRec (ZRec None (Some (guard_of t w)) None))) as [g2 e2] eqn:E2.
  erewrite (step_at s1 t 0 _ g2 (Loc pr (R_ldh o z) (Some (w, None)) its0)); [|exact H1|unfold tstep; cbn [at_ prog hnd its gl s1 own_w]; rewrite E2; reflexivity].
  set (s2 := Sys g2 (upd (thr s1) t (Loc pr (R_ldh o z) (Some (w, None)) its0))).
  assert (H2 : nth_error (thr s2) t = Some (Loc pr (R_ldh o z) (Some (w, None)) its0)) by (apply (nth_upd_eq _ _ _ _ H1)).
  (* load the head *)
  erewrite (step_at s2 t 0 _ g2 (Loc pr (R_st o z (zhead g2)) (Some (w, None)) its0)); [|exact H2|reflexivity].
  set (s3 := Sys g2 (upd (thr s2) t (Loc pr (R_st o z (zhead g2)) (Some (w, None)) its0))).
  assert (H3 : nth_error (thr s3) t = Some (Loc pr (R_st o z (zhead g2)) (Some (w, None)) its0)) by (apply (nth_upd_eq _ _ _ _ H2)).
  (* store next *)
  destruct (chk (okz g2 z) z (setz g2 z (z_next (grec g2 z) (zhead g2)))) as [g4 e4] eqn:E4.
  erewrite (step_at s3 t 0 _ g4 (Loc pr (R_cas o z (zhead g2)) (Some (w, None)) its0)); [|exact H3|unfold tstep; cbn [at_ prog hnd its gl s3]; rewrite E4; reflexivity].
  set (s4 := Sys g4 (upd (thr s3) t (Loc pr (R_cas o z (zhead g2)) (Some (w, None)) its0))).
  assert (H4 : nth_error (thr s4) t = Some (Loc pr (R_cas o z (zhead g2)) (Some (w, None)) its0)) by (apply (nth_upd_eq _ _ _ _ H3)).
  assert (Ez : zhead g4 = zhead g2).
  { assert (g4 = fst (chk (okz g2 z) z (setz g2 z (z_next (grec g2 z) (zhead g2))))) as -> by (rewrite E4; reflexivity).
    destruct (chk_fields (okz g2 z) z (setz g2 z (z_next (grec g2 z) (zhead g2)))) as (_ & _ & Hz & _). cbn zeta in Hz. rewrite Hz.
    apply modc_fields. }
  (* the CAS succeeds: nobody else moved *)
  erewrite (step_at s4 t 0 _ (with_zlog (with_zhead g4 (Some z)) (z :: zlog g4)) (Loc pr (body_pc o) (Some (w, Some z)) its0)); [|exact H4|].
  - exists z. split; [apply (nth_upd_eq _ _ _ _ H4)|reflexivity].
  - unfold tstep; cbn [at_ prog hnd its gl s4 own_w]. rewrite Ez. destruct (zhead g2); cbn; rewrite ?Nat.eqb_refl; reflexivity.
Qed.

(* a CAS on the log head fails (under a non-spurious choice) only if the head changed, and the head
   changes only by a successful CAS: the retry loop of registration is lock-free *)
Lemma zhead_changes_by_cas t c g l g' l' es :
  tstep t c g l = Some (g', l', es) -> zhead g' <> zhead g ->
  exists z, zhead g' = Some z /\ In (EA CASOK O_ZHEAD (cbase z) MO_SEQ_CST) es.
Proof.
  intros Hs Hz. destruct l as [pr p h its0]. destruct p; step_cases2 Hs; fold_fst.
  all: try (eexists; split; [reflexivity|left; reflexivity]).
  all: try (exfalso; apply Hz; clear Hz).
  all: try reflexivity.
  all: try (cbn [zhead with_fault with_misuse with_mtx with_head with_tail with_pos commit]; try reflexivity).
  all: try apply modc_fields.
  all: try apply construct_fields.
  all: try apply destroy_fields.
  all: try apply dealloc_fields.
  all: try apply dealloc_raw_fields.
  all: try (etransitivity; [apply modc_fields|]; reflexivity).
Qed.

(* ---------- C07: the memory order of every atomic site ---------- *)
(* Expected order of the (single) atomic operation performed at each pc.  The three relaxed sites:
   - R_ldh (rcu_read_lock: m_zombie_head.load(relaxed)) and R_st (m_zombie->next.store(oldNext, relaxed)):
     the value loaded is only a guess for the CAS that follows and the store goes to a record no other
     thread can reach yet; the seq_cst compare_exchange (R_cas) both validates the guess (it fails and
     reloads if the head moved) and publishes the record together with its next field: every thread
     that later reads the record pointer from m_zombie_head (seq_cst load or CAS) synchronises with
     that CAS, so the relaxed store happens-before all its reads of next / owner.
   - P_ld for push_back / emplace_back (m_tail.load(relaxed)): every store to m_tail is made by a
     thread holding m_write_mutex and so is this load; the mutex orders them, coherence then forces
     the relaxed load to return the last store.
   Every other site is seq_cst.  The correspondence check compares this table with the order argument
   the instrumented atomics actually received, so weakening or strengthening a site in the source
   breaks the tie even on x86. *)
Definition site_mo (p : pc) : Z :=
  match p with
  | R_ldh _ _ => mo_reg_load_zhead
  | R_st _ _ _ => mo_reg_store_next
  | R_cas _ _ _ => mo_reg_cas
  | P_ld o _ => if is_front o then mo_default else mo_push_load_tail
  | _ => mo_default
  end.
Definition is_atomic_kind (k : Z) : bool :=
  (K_LOAD <=? k) && (k <=? K_XCHG) || (K_LOAD + K_PTR <=? k) && (k <=? K_XCHG + K_PTR).

Lemma mo_table t c g l g' l' es e :
  tstep t c g l = Some (g', l', es) -> In e es ->
  if is_atomic_kind (ek e) then emo e = site_mo (at_ l) else emo e = MO_NA.
Proof.
  intros Hs He. destruct l as [pr p h its0]. destruct p; step_cases2 Hs.
  all: unfold do_construct, do_destroy, do_dealloc, do_dealloc_raw, do_alloc, null_call, lfault in *.
  all: repeat match goal with
         | H : context [let '(_, _) := ?x in _] |- _ => destruct x eqn:?
         | H : context [if ?b then _ else _] |- _ => destruct b eqn:?
         | H : (_, _) = (_, _) |- _ => inversion H; subst; clear H
         end; cbn [fst snd In app] in *.
  all: repeat match goal with
         | H : _ \/ _ |- _ => destruct H
         | H : In _ (_ ++ _) |- _ => apply in_app_or in H
         | H : In _ (_ :: _) |- _ => cbn [In] in H
         | H : In _ [] |- _ => destruct H
         | H : False |- _ => destruct H
         end; subst; try reflexivity.
  all: cbn; try reflexivity.
  all: try match goal with H : is_front _ = _ |- _ => rewrite H; reflexivity end.
Qed.
