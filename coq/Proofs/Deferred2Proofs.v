(* Two deferred_guarded objects with nested submissions (Model/Deferred2Model.v): the invariant of the single-object
   model holds in each object of the product, and with it the exclusion facts of C02 / C06 / C07, per object. *)
From Coq Require Import List Arith ZArith Lia Bool Setoid.
Import ListNotations.
From GV Require Import Sched Events DeferredModel DeferredProofs Deferred2Model.
Local Open Scope Z_scope.

(* ================================================================== *)
(* 1. Consequences of the single-object invariant, stated on (g, ls)    *)
(* ================================================================== *)
Lemma rw_exclusion_inv g ls t : Inv g ls -> (1 <= shl (locof ls t))%nat -> forall u, holdsX (pcof ls u) = false.
Proof.
  intros [H1 _ _ _ _] Hs u. destruct (holdsX (pcof ls u)) eqn:Hx; [exfalso|reflexivity].
  destruct (excl_facts _ _ _ H1 Hx t) as [E _]. lia.
Qed.

Lemma no_exclusive_starts_inv g ls t u c l g' l' es : Inv g ls -> (1 <= shl (locof ls t))%nat ->
  nth_error ls u = Some l -> tstep u c g l = Some (g', l', es) -> holdsX (at_ l') = false.
Proof.
  intros HI Hs Hl Hst. pose proof (rw_exclusion_inv g ls t HI Hs u) as Hxu. rewrite (pcof_at _ _ _ Hl) in Hxu.
  destruct HI as [H1 HW HS HP HF]. pose proof (I1X _ _ H1) as HX.
  assert (free_x g = false) as Hfx.
  { destruct (free_x g) eqn:E; [exfalso|reflexivity]. apply free_x_true in E as [E1 E2].
    destruct (shcap g) eqn:Hc.
    - specialize (E2 eq_refl). rewrite (X3 _ _ HX Hc) in E2. pose proof (sum_term_le shl ls t eq_refl). lia.
    - destruct (X5 _ _ HX Hc t Hs) as [C _]. congruence. }
  destruct l as [pr p hd fu]. cbn [at_] in Hxu.
  step_cases Hst; cbn [at_]; try reflexivity; try discriminate; try congruence.
Qed.

Lemma running_exclusive_inv g ls t : Inv g ls -> inbody (pcof ls t) = true ->
  owner g = Some t /\
  (forall u, shl (locof ls u) = O) /\
  (forall u, inbody (pcof ls u) = true -> u = t) /\
  (forall u, u <> t -> rdopen (pcof ls u) = false /\ wropen (pcof ls u) = false).
Proof.
  intros [H1 HW HS HP HF] Hb.
  pose proof (inbody_holdsX _ Hb) as Hx. pose proof (excl_facts _ _ _ H1 Hx) as E.
  split; [apply (X1 _ _ (I1X _ _ H1) t Hx)|]. split; [intros u; apply E|]. split.
  - intros u Hu. apply E. apply inbody_holdsX. exact Hu.
  - intros u Hne. destruct (E u) as [E1 E2]. split.
    + destruct (rdopen (pcof ls u)) eqn:Er; [exfalso|reflexivity].
      destruct (rd_holds _ u (I1H _ _ H1) Er) as [C|C]; [auto|lia].
    + destruct (wropen (pcof ls u)) eqn:Ew; [exfalso|reflexivity]. apply wropen_holdsX in Ew. auto.
Qed.

(* ================================================================== *)
(* 2. The invariant does not look at a thread's remaining program       *)
(* ================================================================== *)
Section Reloc.
  Variables (g : glob) (ls : list loc) (t : nat) (l l' : loc).
  Hypothesis Hl : nth_error ls t = Some l.
  Hypothesis Ha : at_ l' = at_ l.
  Hypothesis Hh : hand l' = hand l.

  Lemma pcof_reloc u : pcof (upd ls t l') u = pcof ls u.
  Proof.
    rewrite (pcof_upd _ _ _ _ _ Hl). destruct (Nat.eqb_spec u t) as [->|_]; [|reflexivity].
    rewrite (pcof_at _ _ _ Hl). exact Ha.
  Qed.

  Lemma Inv_reloc : Inv g ls -> Inv g (upd ls t l').
  Proof.
    intros [[HX HL HT HH] HW HS HP HF].
    assert (E : forall u, pcof (upd ls t l') u = pcof ls u) by apply pcof_reloc.
    constructor.
    - constructor.
      + apply (XK_same g g ls t l l' HX Hl); try reflexivity; [rewrite Ha; reflexivity|unfold shl; rewrite Ha, Hh; reflexivity].
      + apply (LK_same g g ls t l l' Hl HL); [reflexivity|rewrite Ha; reflexivity].
      + apply (TK_same g g ls t l l' Hl HT); [reflexivity|rewrite Ha; reflexivity].
      + apply (HK_step ls t l l' Hl HH). pose proof (HH t) as Ht. rewrite (locof_at _ _ _ Hl) in Ht.
        unfold hand_ok in *. rewrite Ha, Hh. exact Ht.
    - apply (WK_same g g ls t l l' HW Hl); try reflexivity; rewrite Ha; reflexivity.
    - destruct HS. constructor; try setoid_rewrite E; assumption.
    - exact HP.
    - destruct HF. constructor; try setoid_rewrite E; assumption.
  Qed.
End Reloc.

(* ================================================================== *)
(* 3. The product: each object satisfies the single-object invariant    *)
(* ================================================================== *)
Lemma map_upd {A B} (f : A -> B) (l : list A) t x : map f (upd l t x) = upd (map f l) t (f x).
Proof. revert t; induction l as [|h r IH]; destruct t; cbn; auto. rewrite IH. reflexivity. Qed.
Lemma upd_same {A} (l : list A) t x : nth_error l t = Some x -> upd l t x = l.
Proof. revert t; induction l as [|h r IH]; destruct t; cbn; intros H; try discriminate; [inversion H; reflexivity|]. rewrite (IH _ H). reflexivity. Qed.
Lemma upd_upd {A} (l : list A) t x y : upd (upd l t x) t y = upd l t y.
Proof. revert t; induction l as [|h r IH]; destruct t; cbn; auto. rewrite IH. reflexivity. Qed.
Lemma upd_app_l {A} (l1 l2 : list A) t x y : nth_error l1 t = Some x -> upd (l1 ++ l2) t y = upd l1 t y ++ l2.
Proof. revert t; induction l1 as [|h r IH]; destruct t; cbn; intros H; try discriminate; auto. rewrite (IH _ H). reflexivity. Qed.
Lemma upd_app_r {A} (l1 l2 : list A) t y : upd (l1 ++ l2) (length l1 + t) y = l1 ++ upd l2 t y.
Proof. induction l1 as [|h r IH]; cbn; auto. rewrite IH. reflexivity. Qed.
Lemma nth_app_l {A} (l1 l2 : list A) t x : nth_error l1 t = Some x -> nth_error (l1 ++ l2) t = Some x.
Proof. intros H. rewrite nth_error_app1; [exact H|]. apply nth_error_Some. congruence. Qed.
Lemma nth_app_r {A} (l1 l2 : list A) t : nth_error (l1 ++ l2) (length l1 + t) = nth_error l2 t.
Proof. rewrite nth_error_app2 by lia. f_equal. lia. Qed.

Lemma idle_at l : idle l = true -> at_ l = Idle.
Proof. unfold idle. destruct (at_ l); congruence. Qed.

(* an object's automaton is handed an operation and takes its first step *)
Lemma Inv_start g ls t l o c g' l' es : Inv g ls -> nth_error ls t = Some l -> idle l = true ->
  tstep t c g (with_op l o) = Some (g', l', es) -> Inv g' (upd ls t l').
Proof.
  intros HI Hl Hi Hs. apply idle_at in Hi.
  assert (Inv g (upd ls t (with_op l o))) as HI' by (apply (Inv_reloc g ls t l _ Hl); [cbn; congruence|reflexivity|exact HI]).
  pose proof (Inv_step _ _ _ _ _ _ _ _ HI' (nth_upd_eq _ _ _ _ Hl) Hs) as H. rewrite upd_upd in H. exact H.
Qed.

(* the threads of A's automaton: thread t's own pc, then (under the id nthr + t) its second pc in A *)
Definition lsA (ls : list loc2) : list loc := map lA ls ++ map lA2 ls.
Definition Inv2 (g : glob2) (ls : list loc2) : Prop :=
  Inv (gA g) (lsA ls) /\ Inv (gB g) (map lB ls) /\ nthr g = length ls.

Section LsA.
  Variables (ls : list loc2) (t : nat) (l : loc2).
  Hypothesis Hl : nth_error ls t = Some l.
  Lemma lsA_nth1 : nth_error (lsA ls) t = Some (lA l).
  Proof. apply nth_app_l. apply map_nth_error. exact Hl. Qed.
  Lemma lsA_nth2 : nth_error (lsA ls) (length ls + t) = Some (lA2 l).
  Proof. unfold lsA. rewrite <- (map_length lA ls), nth_app_r. apply map_nth_error. exact Hl. Qed.
  Lemma lsA_upd l' : lsA (upd ls t l') = upd (upd (lsA ls) t (lA l')) (length ls + t) (lA2 l').
  Proof.
    unfold lsA. rewrite !map_upd. rewrite (upd_app_l _ _ _ (lA l) _ (map_nth_error lA _ _ Hl)).
    rewrite <- (map_length lA ls) at 1. rewrite <- (upd_length (map lA ls) t (lA l')), upd_app_r. reflexivity.
  Qed.
  Lemma lsA_upd1 l' : lA2 l' = lA2 l -> lsA (upd ls t l') = upd (lsA ls) t (lA l').
  Proof.
    intros E. rewrite lsA_upd, E. apply upd_same. rewrite nth_upd_ne; [apply lsA_nth2|].
    assert (t < length ls)%nat by (apply nth_error_Some; congruence). lia.
  Qed.
  Lemma lsA_upd2 l' : lA l' = lA l -> lsA (upd ls t l') = upd (lsA ls) (length ls + t) (lA2 l').
  Proof. intros E. rewrite lsA_upd, E, (upd_same _ _ _ lsA_nth1). reflexivity. Qed.
  Lemma lsA_upd0 l' : lA l' = lA l -> lA2 l' = lA2 l -> lsA (upd ls t l') = lsA ls.
  Proof. intros E1 E2. rewrite (lsA_upd2 _ E1), E2. apply upd_same. apply lsA_nth2. Qed.
  Lemma lsA_nth2_after x : nth_error (upd (lsA ls) t x) (length ls + t) = Some (lA2 l).
  Proof.
    rewrite nth_upd_ne; [apply lsA_nth2|]. assert (t < length ls)%nat by (apply nth_error_Some; congruence). lia.
  Qed.
End LsA.

Lemma Inv2_step g ls t c l g' l' es :
  Inv2 g ls -> nth_error ls t = Some l -> tstep2 t c g l = Some (g', l', es) -> Inv2 g' (upd ls t l').
Proof.
  intros (HA & HB & Hn) Hl Hs. unfold Inv2. rewrite map_upd, upd_length.
  pose proof (lsA_nth1 _ _ _ Hl) as Hl1. pose proof (lsA_nth2 _ _ _ Hl) as Hl2. rewrite <- Hn in Hl2.
  pose proof (map_nth_error lB _ _ Hl) as HlB.
  assert (KeepB : forall lx, lx = lB l -> upd (map lB ls) t lx = map lB ls) by (intros lx ->; apply upd_same; exact HlB).
  unfold tstep2 in Hs.
  destruct (idle (lA2 l)) eqn:I2; cbn [negb] in Hs.
  2:{ destruct (tstep (nthr g + t) c (gA g) (lA2 l)) as [[[gA' lA2'] es0]|] eqn:E; [|discriminate]. inversion Hs; subst; clear Hs.
      cbn [gA gB nthr lA lA2 lB]. rewrite (lsA_upd2 _ _ _ Hl) by reflexivity. cbn [lA2]. rewrite <- Hn.
      split; [eapply Inv_step; eauto|]. split; [rewrite KeepB by reflexivity; exact HB|first [exact Hn|reflexivity]]. }
  destruct (idle (lB l)) eqn:IB; cbn [negb] in Hs.
  2:{ destruct (tstep t c (gB g) (lB l)) as [[[gB' lB'] es0]|] eqn:E; [|discriminate]. inversion Hs; subst; clear Hs.
      cbn [gA gB nthr lA lA2 lB]. rewrite (lsA_upd0 _ _ _ Hl) by reflexivity.
      split; [exact HA|]. split; [eapply Inv_step; eauto|first [exact Hn|reflexivity]]. }
  destruct (idle (lA l)) eqn:IA; cbn [negb] in Hs.
  2:{ destruct (tstep t c (gA g) (lA l)) as [[[gA' lA'] es0]|] eqn:E; [|discriminate].
      assert (HA' : Inv gA' (upd (lsA ls) t lA')) by (eapply Inv_step; eauto).
      assert (Plain : forall gn, Inv2 (Glob2 gA' (gB g) gn (nthr g)) (upd ls t (Loc2 (prog2 l) lA' (lA2 l) (lB l)))).
      { intros gn. unfold Inv2. rewrite map_upd, upd_length. cbn [gA gB nthr lA lA2 lB].
        rewrite (lsA_upd1 _ _ _ Hl) by reflexivity. cbn [lA]. rewrite KeepB by reflexivity. auto. }
      unfold Inv2 in Plain. rewrite map_upd, upd_length in Plain.
      destruct (at_ (lA l)); try (inversion Hs; subst; clear Hs; apply Plain).
      destruct (nlookup (btask b) (nest g)) as [[[[|] ia] fid2]|]; [| |inversion Hs; subst; clear Hs; apply Plain].
      - destruct (tstep (nthr g + t) c gA' (with_op (lA2 l) (inner_op ia fid2))) as [[[gA'' lA2'] esA]|] eqn:E2; [|discriminate].
        inversion Hs; subst; clear Hs. cbn [gA gB nthr lA lA2 lB]. rewrite (lsA_upd _ _ _ Hl). cbn [lA lA2]. rewrite <- Hn.
        split; [|split; [rewrite KeepB by reflexivity; exact HB|first [exact Hn|reflexivity]]].
        eapply Inv_start; [exact HA'| |exact I2|exact E2]. rewrite Hn. apply (lsA_nth2_after _ _ _ Hl).
      - destruct (tstep t c (gB g) (with_op (lB l) (inner_op ia fid2))) as [[[gB' lB'] esB]|] eqn:E2; [|discriminate].
        inversion Hs; subst; clear Hs. cbn [gA gB nthr lA lA2 lB]. rewrite (lsA_upd1 _ _ _ Hl) by reflexivity. cbn [lA].
        split; [exact HA'|]. split; [eapply Inv_start; eauto|first [exact Hn|reflexivity]]. }
  (* the next operation of the program starts *)
  destruct (prog2 l) as [|[o|o|code o self ia fid2] r]; [discriminate| | |].
  - destruct (tstep t c (gA g) (with_op (lA l) o)) as [[[gA' lA'] es0]|] eqn:E; [|discriminate]. inversion Hs; subst; clear Hs.
    cbn [gA gB nthr lA lA2 lB]. rewrite (lsA_upd1 _ _ _ Hl) by reflexivity. cbn [lA]. rewrite KeepB by reflexivity.
    split; [eapply Inv_start; eauto|auto].
  - destruct (tstep t c (gB g) (with_op (lB l) o)) as [[[gB' lB'] es0]|] eqn:E; [|discriminate]. inversion Hs; subst; clear Hs.
    cbn [gA gB nthr lA lA2 lB]. rewrite (lsA_upd0 _ _ _ Hl) by reflexivity.
    split; [exact HA|]. split; [eapply Inv_start; eauto|first [exact Hn|reflexivity]].
  - destruct (tstep t c (gA g) (with_op (lA l) o)) as [[[gA' lA'] es0]|] eqn:E; [|discriminate]. inversion Hs; subst; clear Hs.
    cbn [gA gB nthr lA lA2 lB]. rewrite (lsA_upd1 _ _ _ Hl) by reflexivity. cbn [lA]. rewrite KeepB by reflexivity.
    split; [eapply Inv_start; eauto|auto].
Qed.

Lemma Inv2_init m progs : Inv2 (gl (init2 m progs)) (thr (init2 m progs)).
Proof.
  unfold init2, Inv2, lsA; cbn [gl thr gA gB nthr]. rewrite !map_map, map_length. cbn [lA lA2 lB].
  assert (E : forall ps : list (list op2), map (fun _ : list op2 => init_loc) ps = map (fun p => Loc p Idle [] []) (map (fun _ => @nil op) ps)).
  { intros ps. rewrite map_map. reflexivity. }
  split; [|split; [|reflexivity]].
  - rewrite E, <- map_app. apply (Inv_init m [] (map (fun _ => []) progs ++ map (fun _ => []) progs)).
  - rewrite E. apply (Inv_init m [] (map (fun _ => []) progs)).
Qed.

Definition R2 (m : Z) (progs : list (list op2)) (s : sys glob2 loc2) : Prop :=
  reachable glob2 loc2 tstep2 (init2 m progs) s.

Lemma R2_inv m progs s : R2 m progs s -> Inv2 (gl s) (thr s).
Proof. intros H. eapply reachable_inv; [apply Inv2_step|apply Inv2_init|exact H]. Qed.

(* ================================================================== *)
(* 4. Per-object exclusion facts in the product (x = false: object A, x = true: object B) *)
(* ================================================================== *)
Definition objg (x : bool) (g : glob2) : glob := if x then gB g else gA g.
Definition objls (x : bool) (ls : list loc2) : list loc := if x then map lB ls else lsA ls.
(* the pcs a thread has in object x *)
Definition objpcs (x : bool) (l : loc2) : list loc := if x then [lB l] else [lA l; lA2 l].

Lemma R2_obj_inv m progs s x : R2 m progs s -> Inv (objg x (gl s)) (objls x (thr s)).
Proof. intros HR. destruct (R2_inv _ _ _ HR) as (HA & HB & _). destruct x; assumption. Qed.

(* while a shared handle on object x is alive (a client's, or the one inside load), no thread is inside an
   exclusive section of x - in particular no functor runs on x, whoever submitted it and from wherever *)
Lemma rw_exclusion2 m progs s x t : R2 m progs s -> (1 <= shl (locof (objls x (thr s)) t))%nat ->
  forall u, holdsX (pcof (objls x (thr s)) u) = false.
Proof. intros HR. apply (rw_exclusion_inv (objg x (gl s))). apply (R2_obj_inv m progs). exact HR. Qed.

Lemma inner_start_pc t c g l ia fid2 g' l' es :
  tstep t c g (with_op l (inner_op ia fid2)) = Some (g', l', es) -> holdsX (at_ l') = false.
Proof. unfold tstep, tstep0, with_op, inner_op. destruct ia; cbn; intros H; inversion H; reflexivity. Qed.

(* ... and no step of the product enters one: no modification of x can start, not even the inner submission of
   a modification function (of the other object, or of x itself) *)
Lemma no_exclusive_starts2 m progs s x t u c l g' l' es : R2 m progs s -> (1 <= shl (locof (objls x (thr s)) t))%nat ->
  nth_error (thr s) u = Some l -> tstep2 u c (gl s) l = Some (g', l', es) ->
  forall lx, In lx (objpcs x l') -> holdsX (at_ lx) = false.
Proof.
  intros HR Hs Hl Hst. pose proof (R2_obj_inv m progs s x HR) as HI.
  destruct (R2_inv _ _ _ HR) as (_ & _ & Hn).
  pose proof (rw_exclusion_inv _ _ t HI Hs) as Hold.
  pose proof (lsA_nth1 _ _ _ Hl) as Hl1. pose proof (lsA_nth2 _ _ _ Hl) as Hl2. rewrite <- Hn in Hl2.
  pose proof (map_nth_error lB _ _ Hl) as HlB.
  (* a step of object x's automaton by the thread with index i there, from its stored state (possibly handed an operation) *)
  assert (Step : forall i lx0 lx c0 gx' lx' esx, nth_error (objls x (thr s)) i = Some lx0 ->
                 tstep i c0 (objg x (gl s)) lx = Some (gx', lx', esx) ->
                 at_ lx = at_ lx0 -> hand lx = hand lx0 -> holdsX (at_ lx') = false).
  { intros i lx0 lx c0 gx' lx' esx Hi Hx Ea Eh.
    assert (Inv (objg x (gl s)) (upd (objls x (thr s)) i lx)) as HI' by (apply (Inv_reloc _ _ _ _ _ Hi Ea Eh HI)).
    apply (no_exclusive_starts_inv _ _ t i c0 lx gx' lx' esx HI'); [|apply (nth_upd_eq _ _ _ _ Hi)|exact Hx].
    rewrite (locof_upd _ _ _ _ _ Hi). destruct (Nat.eqb_spec t i) as [->|_]; [|exact Hs].
    rewrite (locof_at _ _ _ Hi) in Hs. unfold shl in *. rewrite Ea, Eh. exact Hs. }
  assert (OA : x = false -> holdsX (at_ (lA l)) = false /\ holdsX (at_ (lA2 l)) = false).
  { intros ->. cbn [objls] in Hold. split.
    - rewrite <- (pcof_at _ _ _ Hl1). apply Hold.
    - rewrite <- (pcof_at _ _ _ Hl2). apply Hold. }
  assert (OB : x = true -> holdsX (at_ (lB l)) = false).
  { intros ->. cbn [objls] in Hold. rewrite <- (pcof_at _ _ _ HlB). apply Hold. }
  assert (Fin : forall a a2 b, (x = false -> holdsX (at_ a) = false /\ holdsX (at_ a2) = false) ->
                (x = true -> holdsX (at_ b) = false) ->
                forall lx, In lx (objpcs x (Loc2 (prog2 l') a a2 b)) -> holdsX (at_ lx) = false).
  { intros a a2 b FA FB lx. destruct x; cbn; intros [<-|[<-|[]]] || intros [<-|[]]; try (apply FB; reflexivity);
      destruct (FA eq_refl); assumption. }
  unfold tstep2 in Hst.
  destruct (idle (lA2 l)) eqn:I2; cbn [negb] in Hst.
  2:{ destruct (tstep (nthr (gl s) + u) c (gA (gl s)) (lA2 l)) as [[[gA' lA2'] es0]|] eqn:E; [|discriminate]. inversion Hst; subst; clear Hst.
      apply Fin; [|exact OB]. intros ->. split; [apply OA; reflexivity|]. eapply (Step _ (lA2 l) (lA2 l)); eauto. }
  destruct (idle (lB l)) eqn:IB; cbn [negb] in Hst.
  2:{ destruct (tstep u c (gB (gl s)) (lB l)) as [[[gB' lB'] es0]|] eqn:E; [|discriminate]. inversion Hst; subst; clear Hst.
      apply Fin; [exact OA|]. intros ->. eapply (Step _ (lB l) (lB l)); eauto. }
  destruct (idle (lA l)) eqn:IA; cbn [negb] in Hst.
  2:{ destruct (tstep u c (gA (gl s)) (lA l)) as [[[gA' lA'] es0]|] eqn:E; [|discriminate].
      assert (SA : x = false -> holdsX (at_ lA') = false) by (intros ->; eapply (Step _ (lA l) (lA l)); eauto).
      assert (Plain : forall lx, In lx (objpcs x (Loc2 (prog2 l) lA' (lA2 l) (lB l))) -> holdsX (at_ lx) = false).
      { apply (Fin lA' (lA2 l) (lB l)); [|exact OB]. intros Hx. split; [auto|apply OA; exact Hx]. }
      destruct (at_ (lA l)) eqn:EA; try (inversion Hst; subst; clear Hst; exact Plain).
      destruct (nlookup (btask b) (nest (gl s))) as [[[[|] ia] fid2]|]; [| |inversion Hst; subst; clear Hst; exact Plain].
      - destruct (tstep (nthr (gl s) + u) c gA' (with_op (lA2 l) (inner_op ia fid2))) as [[[gA'' lA2'] esA]|] eqn:E2; [|discriminate].
        inversion Hst; subst; clear Hst. apply Fin; [|exact OB]. intros Hx. split; [auto|]. eapply inner_start_pc; eauto.
      - destruct (tstep u c (gB (gl s)) (with_op (lB l) (inner_op ia fid2))) as [[[gB' lB'] esB]|] eqn:E2; [|discriminate].
        inversion Hst; subst; clear Hst. apply Fin; [|intros _; eapply inner_start_pc; eauto].
        intros Hx. split; [auto|apply OA; exact Hx]. }
  apply idle_at in IA. apply idle_at in IB.
  destruct (prog2 l) as [|[o|o|code o self ia fid2] r]; [discriminate| | |].
  - destruct (tstep u c (gA (gl s)) (with_op (lA l) o)) as [[[gA' lA'] es0]|] eqn:E; [|discriminate]. inversion Hst; subst; clear Hst.
    apply Fin; [|exact OB]. intros ->. split; [|apply OA; reflexivity].
    eapply (Step _ (lA l) (with_op (lA l) o)); eauto; cbn; congruence.
  - destruct (tstep u c (gB (gl s)) (with_op (lB l) o)) as [[[gB' lB'] es0]|] eqn:E; [|discriminate]. inversion Hst; subst; clear Hst.
    apply Fin; [exact OA|]. intros ->. eapply (Step _ (lB l) (with_op (lB l) o)); eauto; cbn; congruence.
  - destruct (tstep u c (gA (gl s)) (with_op (lA l) o)) as [[[gA' lA'] es0]|] eqn:E; [|discriminate]. inversion Hst; subst; clear Hst.
    apply Fin; [|exact OB]. intros ->. split; [|apply OA; reflexivity].
    eapply (Step _ (lA l) (with_op (lA l) o)); eauto; cbn; congruence.
Qed.

(* a functor running on object x - directly, out of x's queue, or as the inner submission of a nested functor -
   runs while its thread owns x's mutex exclusively: nobody holds a shared lock of x, nobody else is in a functor
   of x, no other window on x's payload is open *)
Lemma running_exclusive2 m progs s x t : R2 m progs s -> inbody (pcof (objls x (thr s)) t) = true ->
  owner (objg x (gl s)) = Some t /\
  (forall u, shl (locof (objls x (thr s)) u) = O) /\
  (forall u, inbody (pcof (objls x (thr s)) u) = true -> u = t) /\
  (forall u, u <> t -> rdopen (pcof (objls x (thr s)) u) = false /\ wropen (pcof (objls x (thr s)) u) = false).
Proof. intros HR. apply (running_exclusive_inv (objg x (gl s))). apply (R2_obj_inv m progs). exact HR. Qed.

Lemma no_fault2 m progs s x : R2 m progs s -> faulted (objg x (gl s)) = false.
Proof. intros HR. apply (W4 _ _ (I_W _ _ (R2_obj_inv m progs s x HR))). Qed.

(* each submitted functor of either object is invoked at most once *)
Lemma exactly_once_le2 m progs s x tk : R2 m progs s -> (tcount (gh (objg x (gl s))) tk <= 1)%nat.
Proof.
  intros HR. rewrite (S9 _ _ (I_S _ _ (R2_obj_inv m progs s x HR))). destruct (texec (gh (objg x (gl s))) tk); lia.
Qed.
