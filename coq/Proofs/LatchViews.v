(* C07 for the Latch fast path, in the Views semantics (Common/Views.v).

   Latch::wait() may return after one unlocked load of counter_ (the fast path), so
   the mutex orders nothing there: what the arrivers wrote before arrive() must reach
   the waiter through the atomic alone.  Every arrive() is an RMW (--counter_); RMWs
   continue the release sequences of the earlier ones, so a load that reads the k-th
   decrement synchronises with all k arrivers - provided the RMW releases and the load
   acquires (both are seq_cst in the source; the correspondence check pins that).

   Model: any number of threads; actions in any interleaving; the load may read any
   coherence-allowed message (choice).  Theorems:
     latch_fast_path_publishes : under the client discipline no access is a data race;
     latch_fast_path_count     : a load that returns <= 0 happens-after at least `start`
                                 arrive() calls (all the arrivals it observed);
     latch_fast_path_relaxed_refuted : with a relaxed load there is a racy history. *)
From Coq Require Import List Arith ZArith Lia Bool.
Import ListNotations.
From GV Require Import Sched Events Views.

Inductive act :=
| AWrite (u : nat)              (* u writes its own datum (before it arrives) *)
| AArrive (u : nat)             (* --counter_ *)
| ALoad (w : nat) (ch : nat)    (* the unlocked load of wait(); ch = which coherence-allowed message *)
| ARead (w u : nat).            (* w reads u's datum (after its wait returned having observed u's arrival) *)

Record st := St {
  clk : nat -> vc;
  ctr : hist;
  seen : nat -> nat;
  dat : nat -> ft;
  race : bool;
  opened : nat -> option nat;     (* stamp of the message whose value <= 0 the thread read *)
  arrived : nat -> option nat;    (* ghost: stamp of the thread's own decrement *)
  aclk : nat -> vc                (* ghost: the thread's clock when it arrived *)
}.

Section LatchViews.
  Variable N : nat.               (* number of threads (bound used by the FastTrack read check) *)
  Variable start : Z.
  Variables rmw_mo load_mo : mo.

  Definition init : st :=
    St clk0 [] (fun _ => 0) (fun _ => ft0) false (fun _ => None) (fun _ => None) (fun _ => vzero).

  Definition step (s : st) (a : act) : st :=
    match a with
    | AWrite u =>
      let (f, ok) := ft_write N u (clk s u) (dat s u) in
      St (fupd (clk s) u (vinc (clk s u) u)) (ctr s) (seen s) (fupd (dat s) u f) (race s || negb ok)
         (opened s) (arrived s) (aclk s)
    | AArrive u =>
      let c := clk s u in
      let prev := nth_error (ctr s) 0 in
      let v := (read_val start (ctr s) 0 - 1)%Z in
      let m := rmw_msg rmw_mo u c prev v in
      let c' := match prev with
                | Some p => match mrel p with Some r => if is_acq rmw_mo then vjoin c r else c | None => c end
                | None => c end in
      St (fupd (clk s) u (vinc c' u)) (m :: ctr s) (fupd (seen s) u (S (length (ctr s)))) (dat s) (race s)
         (opened s) (fupd (arrived s) u (Some (S (length (ctr s))))) (fupd (aclk s) u c)
    | ALoad w ch =>
      let i := pick true (ctr s) (clk s w) (seen s w) ch in
      let v := read_val start (ctr s) i in
      St (fupd (clk s) w (read_clock load_mo (ctr s) i (clk s w))) (ctr s) (fupd (seen s) w (read_stamp (ctr s) i))
         (dat s) (race s)
         (if (v <=? 0)%Z then fupd (opened s) w (Some (read_stamp (ctr s) i)) else opened s) (arrived s) (aclk s)
    | ARead w u =>
      let (f, ok) := ft_read w (clk s w) (dat s u) in
      St (clk s) (ctr s) (seen s) (fupd (dat s) u f) (race s || negb ok) (opened s) (arrived s) (aclk s)
    end.

  (* client discipline *)
  Definition ok (s : st) (a : act) : Prop :=
    match a with
    | AWrite u => u < N /\ arrived s u = None
    | AArrive u => u < N /\ arrived s u = None
    | ALoad w _ => w < N
    | ARead w u => w < N /\ u < N /\ exists so sa, opened s w = Some so /\ arrived s u = Some sa /\ sa <= so
    end.

  Fixpoint trace_ok (s : st) (tr : list act) : Prop :=
    match tr with [] => True | a :: r => ok s a /\ trace_ok (step s a) r end.
  Definition run (s : st) (tr : list act) : st := fold_left step tr s.

  Hypothesis Hrel : is_rel rmw_mo = true.
  Hypothesis Hacq : is_acq load_mo = true.

  Record Inv (s : st) : Prop := {
    I_seen : forall t, seen s t <= length (ctr s);
    I_val : forall j m, nth_error (ctr s) j = Some m -> mval m = (start - Z.of_nat (length (ctr s) - j))%Z;
    I_rel : forall j m, nth_error (ctr s) j = Some m ->
            exists r, mrel m = Some r /\
              forall u a, arrived s u = Some a -> a <= length (ctr s) - j -> vle (aclk s u) r;
    I_arr : forall u a, arrived s u = Some a -> 1 <= a <= length (ctr s) /\ vle (aclk s u) (clk s u);
    I_all : forall k, 1 <= k <= length (ctr s) -> exists u, u < N /\ arrived s u = Some k;
    I_dat : forall u, (fwhen (dat s u) = 0 \/ fwho (dat s u) = u) /\ fwhen (dat s u) <= clk s u u /\
                      (arrived s u = None -> forall x, fR (dat s u) x = 0) /\
                      (forall a, arrived s u = Some a -> fwhen (dat s u) <= aclk s u u);
    I_open : forall w so, opened s w = Some so ->
             so <= seen s w /\ (start - Z.of_nat so <= 0)%Z /\
             forall u a, arrived s u = Some a -> a <= so -> vle (aclk s u) (clk s w);
    I_race : race s = false
  }.

  Lemma Inv_init : Inv init.
  Proof.
    constructor; cbn; intros; try lia; try discriminate; auto;
      try (destruct j; discriminate).
    repeat split; auto; try lia; intros; try discriminate; reflexivity.
  Qed.

  Ltac eqd a b := let E := fresh "E" in destruct (Nat.eqb_spec a b) as [E|E]; [first [subst a | subst b]|].

  Lemma acq_clock_ge (s : st) u :
    vle (clk s u)
        match nth_error (ctr s) 0 with
        | Some p => match mrel p with Some r => if is_acq rmw_mo then vjoin (clk s u) r else clk s u | None => clk s u end
        | None => clk s u end.
  Proof.
    destruct (nth_error (ctr s) 0) as [p|]; [|apply vle_refl].
    destruct (mrel p); [|apply vle_refl]. destruct (is_acq rmw_mo); [apply vle_join_l|apply vle_refl].
  Qed.

  Lemma step_inv s a : Inv s -> ok s a -> Inv (step s a).
  Proof.
    intros [Hseen Hval Hrl Harr Hall Hdat Hop Hrace] Hok.
    destruct a as [u|u|w ch|w u]; cbn [step ok] in *.
    - (* AWrite *)
      destruct Hok as [Hu Hna].
      destruct (Hdat u) as (Hd1 & Hd2 & Hd3 & Hd4).
      assert (Hwok : snd (ft_write N u (clk s u) (dat s u)) = true).
      { apply ft_write_ok.
        - destruct Hd1 as [E|E]; [rewrite E; lia|rewrite E; exact Hd2].
        - intros x _. rewrite (Hd3 Hna x). lia. }
      destruct (ft_write N u (clk s u) (dat s u)) as [f okb] eqn:Ew. cbn in Hwok. subst okb.
      assert (Ef : f = Ft u (clk s u u) vzero) by (unfold ft_write in Ew; inversion Ew; reflexivity).
      constructor; cbn; auto.
      + intros x a Ha. destruct (Harr x a Ha) as [A B]. split; auto.
        unfold fupd. eqd x u; auto. eapply vle_trans; [exact B|apply vle_inc].
      + intros x. unfold fupd. eqd x u.
        * subst f. cbn. rewrite vinc_self. repeat split; auto; try lia. intros a Ha. congruence.
        * apply Hdat.
      + intros w so Ho. destruct (Hop w so Ho) as (A & B & C). repeat split; auto.
        intros x a Ha Hle. specialize (C x a Ha Hle). unfold fupd. eqd w u; auto.
        eapply vle_trans; [exact C|apply vle_inc].
      + rewrite Hrace. reflexivity.
    - (* AArrive *)
      destruct Hok as [Hu Hna].
      remember (nth_error (ctr s) 0) as prev eqn:Eprev in *.
      remember (length (ctr s)) as L eqn:HL0 in *.
      constructor; cbn [clk ctr seen dat race opened arrived aclk length]; auto.
      all: rewrite <- ?HL0.
      + intros t. unfold fupd. eqd t u; [lia|]. specialize (Hseen t). lia.
      + intros j m Hn. destruct j as [|j]; cbn in Hn.
        * inversion Hn; subst m. unfold rmw_msg. cbn [mval].
          unfold read_val. rewrite <- Eprev. destruct prev as [p|]; symmetry in Eprev; pose proof Eprev as Ep.
          -- rewrite (Hval 0 p Ep). try fold L. lia.
          -- assert (L = 0) as HL by (rewrite HL0; destruct (ctr s); [reflexivity|discriminate]). rewrite HL. cbn. lia.
        * rewrite (Hval j m Hn). try fold L. try (f_equal; lia).
      + intros j m Hn. destruct j as [|j]; cbn in Hn.
        * inversion Hn; subst m. unfold rmw_msg. cbn [mrel]. rewrite Hrel.
          destruct prev as [p|]; symmetry in Eprev; pose proof Eprev as Ep.
          -- destruct (Hrl 0 p Ep) as [r [Er Hr]]. rewrite Er. eexists; split; [reflexivity|].
             intros x a Ha Hle. unfold fupd in Ha |- *. eqd x u.
             ++ apply vle_join_l.
             ++ eapply vle_trans; [|apply vle_join_r]. apply (Hr x a Ha).
                destruct (Harr x a Ha) as [[_ B] _]. lia.
          -- eexists; split; [reflexivity|].
             intros x a Ha Hle. unfold fupd in Ha |- *. eqd x u; [apply vle_refl|].
             destruct (Harr x a Ha) as [[A B] _].
             assert (L = 0) as HL by (rewrite HL0; destruct (ctr s); [reflexivity|discriminate]).
             try fold L in B. lia.
        * destruct (Hrl j m Hn) as [r [Er Hr]]. exists r. split; auto.
          intros x a Ha Hle. unfold fupd in Ha |- *. eqd x u.
          -- inversion Ha; subst a. try fold L in Hle.
             assert (j < L) by (rewrite HL0; apply nth_error_Some; congruence). lia.
          -- apply (Hr x a Ha). lia.
      + intros x a Ha. unfold fupd in *. eqd x u.
        * inversion Ha; subst a. try fold L. split; [lia|].
          eapply vle_trans; [|apply vle_inc]. rewrite Eprev. apply acq_clock_ge.
        * destruct (Harr x a Ha) as [A B]. split; [lia|exact B].
      + intros k Hk. try fold L in Hk.
        destruct (Nat.eq_dec k (S L)) as [->|Hne].
        * exists u. split; auto. unfold fupd. rewrite Nat.eqb_refl. reflexivity.
        * destruct (Hall k) as [x [Hx Ha]]; [try fold L; lia|]. exists x. split; auto.
          unfold fupd. eqd x u; [congruence|exact Ha].
      + intros x. destruct (Hdat x) as (Hd1 & Hd2 & Hd3 & Hd4). unfold fupd. eqd x u.
        * repeat split; auto; try (intros; discriminate).
          eapply Nat.le_trans; [exact Hd2|]. rewrite vinc_self.
          pose proof (acq_clock_ge s u u) as G. rewrite <- Eprev in G. lia.
        * repeat split; auto.
      + intros w so Ho. destruct (Hop w so Ho) as (A & B & C).
        assert (so <= L) as HsoL by (specialize (Hseen w); lia).
        repeat split; auto.
        * unfold fupd. eqd w u; lia.
        * intros x a Ha Hle. unfold fupd in Ha |- *. eqd x u.
          -- inversion Ha; subst a. lia.
          -- specialize (C x a Ha Hle). eqd w u; auto.
             eapply vle_trans; [exact C|]. eapply vle_trans; [|apply vle_inc]. rewrite Eprev. apply acq_clock_ge.
    - (* ALoad *)
      rename Hok into Hw.
      set (i := pick true (ctr s) (clk s w) (seen s w) ch).
      destruct (pick_bounds true (ctr s) (clk s w) (seen s w) ch (Hseen w)) as [Hi1 Hi2]. fold i in Hi1, Hi2.
      assert (Hmono : vle (clk s w) (read_clock load_mo (ctr s) i (clk s w))) by apply read_clock_mono.
      assert (Hbase : Inv (St (fupd (clk s) w (read_clock load_mo (ctr s) i (clk s w))) (ctr s)
                              (fupd (seen s) w (read_stamp (ctr s) i)) (dat s) (race s) (opened s) (arrived s) (aclk s))).
      { constructor; cbn; auto.
        - intros t. unfold fupd, read_stamp. eqd t w; [lia|apply Hseen].
        - intros x a Ha. destruct (Harr x a Ha) as [A B]. split; auto.
          unfold fupd. eqd x w; auto. eapply vle_trans; eauto.
        - intros x. destruct (Hdat x) as (Hd1 & Hd2 & Hd3 & Hd4). unfold fupd. eqd x w; repeat split; auto.
          specialize (Hmono w). lia.
        - intros w' so Ho. destruct (Hop w' so Ho) as (A & B & C). unfold fupd, read_stamp. eqd w' w.
          + repeat split; auto; [lia|]. intros x a Ha Hle. eapply vle_trans; [apply (C x a Ha Hle)|exact Hmono].
          + repeat split; auto. }
      destruct ((read_val start (ctr s) i <=? 0)%Z) eqn:Ev; [|exact Hbase].
      destruct Hbase as [B1 B2 B3 B4 B5 B6 B7 B8]. constructor; cbn in *; auto.
      intros w' so Ho. unfold fupd in Ho. eqd w' w; [|apply B7; exact Ho].
      inversion Ho; subst so. unfold fupd. rewrite Nat.eqb_refl. unfold read_stamp.
      apply Z.leb_le in Ev. unfold read_val in Ev.
      destruct (nth_error (ctr s) i) as [m|] eqn:Em.
      + rewrite (Hval i m Em) in Ev. repeat split; auto.
        intros x a Ha Hle. destruct (Hrl i m Em) as [r [Er Hr]].
        eapply vle_trans; [apply (Hr x a Ha Hle)|]. eapply read_clock_acq; eauto.
      + assert (length (ctr s) <= i) by (apply nth_error_None; exact Em).
        replace (length (ctr s) - i) with 0 by lia. repeat split; auto; [cbn; lia|].
        intros x a Ha Hle. destruct (Harr x a Ha) as [[A _] _]. lia.
    - (* ARead *)
      destruct Hok as (Hw & Hu & so & sa & Ho & Ha & Hle).
      destruct (Hdat u) as (Hd1 & Hd2 & Hd3 & Hd4).
      destruct (Hop w so Ho) as (_ & _ & C). specialize (C u sa Ha Hle).
      assert (Hrok : snd (ft_read w (clk s w) (dat s u)) = true).
      { apply ft_read_ok. destruct Hd1 as [E|E]; [rewrite E; lia|]. rewrite E.
        specialize (Hd4 sa Ha). specialize (C u). lia. }
      destruct (ft_read w (clk s w) (dat s u)) as [f okb] eqn:Er. cbn in Hrok. subst okb.
      assert (Ef : f = Ft (fwho (dat s u)) (fwhen (dat s u)) (fupd (fR (dat s u)) w (clk s w w)))
        by (unfold ft_read in Er; inversion Er; reflexivity).
      constructor; cbn; auto.
      + intros x. unfold fupd at 1 2 3 4 5. eqd x u; [|apply Hdat].
        subst f. cbn. repeat split; auto. intros Hn. congruence.
      + rewrite Hrace. reflexivity.
  Qed.

  Lemma run_inv tr : forall s, Inv s -> trace_ok s tr -> Inv (run s tr).
  Proof.
    induction tr as [|a r IH]; intros s HI Hok; cbn; [exact HI|].
    destruct Hok as [Ha Hr]. apply IH; [apply step_inv; auto|exact Hr].
  Qed.

  (* C07 for the fast path: whatever the interleaving and whichever coherence-allowed message
     each unlocked load reads, no access to the arrivers' data is a data race *)
  Theorem fast_path_publishes tr : trace_ok init tr -> race (run init tr) = false.
  Proof. intros H. apply (I_race _ (run_inv tr init Inv_init H)). Qed.

  (* a load that returned a value <= 0 happens-after at least `start` arrive() calls: for every
     k in 1..so (and start <= so) the k-th arriver's clock at its arrival is below the reader's *)
  Theorem fast_path_count tr w so : trace_ok init tr -> opened (run init tr) w = Some so ->
    (start <= Z.of_nat so)%Z /\
    forall k, 1 <= k <= so -> exists u, u < N /\ arrived (run init tr) u = Some k /\
                                       vle (aclk (run init tr) u) (clk (run init tr) w).
  Proof.
    intros H Ho. pose proof (run_inv tr init Inv_init H) as HI.
    destruct (I_open _ HI w so Ho) as (A & B & C). split; [lia|].
    intros k Hk. destruct (I_all _ HI k) as [u [Hu Ha]].
    - pose proof (I_seen _ HI w). lia.
    - exists u. repeat split; auto. apply (C u k Ha). lia.
  Qed.
End LatchViews.

(* with a relaxed fast-path load the same disciplined client races: the publication needs the acquire *)
Definition relaxed_witness : list act := [AWrite 0; AArrive 0; ALoad 1 0; ARead 1 0].
Lemma fast_path_relaxed_refuted :
  trace_ok 2 1%Z SeqCst Relaxed init relaxed_witness /\
  race (run 2 1%Z SeqCst Relaxed init relaxed_witness) = true /\
  race (run 2 1%Z SeqCst SeqCst init relaxed_witness) = false.
Proof.
  split; [|split; vm_compute; reflexivity].
  cbn. repeat split; auto. exists 1, 1. repeat split; auto.
Qed.

(* and with a relaxed RMW (no release) likewise *)
Lemma fast_path_relaxed_rmw_refuted :
  trace_ok 2 1%Z Relaxed SeqCst init relaxed_witness /\
  race (run 2 1%Z Relaxed SeqCst init relaxed_witness) = true.
Proof.
  split; [|vm_compute; reflexivity].
  cbn. repeat split; auto. exists 1, 1. repeat split; auto.
Qed.
