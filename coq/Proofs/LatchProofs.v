(* Invariants and progress facts for the Latch model (property C10). *)
From Coq Require Import List Arith ZArith Lia Bool.
Import ListNotations.
From GV Require Import Sched Events LatchModel.
Local Open Scope Z_scope.

Notation sysL := (sys glob loc).
Notation runL := (run glob loc tstep).
Notation stepL := (step glob loc tstep).

(* ---------- pc classification ---------- *)
Definition holds (p : pc) : bool :=
  match p with
  | A_dec _ | A_test _ | A_notify _ | A_unlock _ | W_test _ | W_sleep _ | W_unlock _ => true
  | _ => false
  end.
Definition in_wait (p : pc) : bool :=
  match p with W_fast _ | W_lock _ | W_test _ | W_sleep _ | W_woken _ | W_unlock _ => true | _ => false end.
Definition in_arrive (p : pc) : bool :=
  match p with A_lock _ | A_dec _ | A_test _ | A_notify _ | A_unlock _ => true | _ => false end.
Definition is_woken (p : pc) : bool := match p with W_woken _ => true | _ => false end.
Definition is_sleep (p : pc) : bool := match p with W_sleep _ => true | _ => false end.
Definition is_wunlock (p : pc) : bool := match p with W_unlock _ => true | _ => false end.
Definition is_notify (p : pc) : bool := match p with A_notify _ => true | _ => false end.
Definition will_notify (g : glob) (p : pc) : bool :=
  match p with A_test _ => counter g =? 0 | A_notify _ => true | _ => false end.

Lemma mem_In t l : mem t l = true <-> In t l.
Proof.
  unfold mem. rewrite existsb_exists. split.
  - intros [x [Hx He]]. apply Nat.eqb_eq in He. subst. exact Hx.
  - intros H. exists t. split; [exact H|apply Nat.eqb_refl].
Qed.
Lemma In_rem t u l : In u (rem t l) <-> In u l /\ u <> t.
Proof.
  unfold rem. rewrite filter_In. split; intros [H1 H2]; split; auto.
  - intros ->. rewrite Nat.eqb_refl in H2. discriminate.
  - apply negb_true_iff. apply Nat.eqb_neq. auto.
Qed.

(* ---------- the invariant ---------- *)
Definition pcof (ls : list loc) (u : nat) : pc :=
  match nth_error ls u with Some l => at_ l | None => Idle end.
Lemma pcof_upd ls t l l' u : nth_error ls t = Some l ->
  pcof (upd ls t l') u = if Nat.eqb u t then at_ l' else pcof ls u.
Proof.
  intros H. unfold pcof. destruct (Nat.eqb_spec u t) as [->|Hne].
  - rewrite (nth_upd_eq _ _ _ _ H). reflexivity.
  - rewrite nth_upd_ne by auto. reflexivity.
Qed.
Lemma pcof_at ls t l : nth_error ls t = Some l -> pcof ls t = at_ l.
Proof. intros H. unfold pcof. rewrite H. reflexivity. Qed.

Arguments pcof : simpl never.

Record Inv (g : glob) (ls : list loc) : Prop := {
  I_count : counter g = start g - Z.of_nat (arrivals g);
  I_owner : forall u, holds (pcof ls u) = true -> mtx g = Some u;
  I_held  : forall a, mtx g = Some a -> holds (pcof ls a) = true;
  I_wunl  : forall u, is_wunlock (pcof ls u) = true -> counter g <= 0;
  I_sleep : forall u, is_sleep (pcof ls u) = true -> 0 < counter g;
  I_slprs : forall u, In u (sleepers g) -> is_woken (pcof ls u) = true;
  I_ntfy  : forall u, is_notify (pcof ls u) = true -> counter g = 0;
  I_ntfd  : forall u, is_woken (pcof ls u) = true -> ~ In u (sleepers g) -> counter g <= 0;
  I_wake  : counter g <= 0 -> sleepers g <> [] ->
            exists a, mtx g = Some a /\ will_notify g (pcof ls a) = true
}.

Ltac step_cases Hs :=
  unfold tstep in Hs; cbn [at_ prog] in Hs;
  repeat match type of Hs with
         | context [match ?x with _ => _ end] => destruct x eqn:?; cbn in Hs
         | context [if ?x then _ else _] => destruct x eqn:?; cbn in Hs
         end;
  try discriminate; inversion Hs; subst; clear Hs.

Lemma Inv_init n progs : Inv (gl (init n progs)) (thr (init n progs)).
Proof.
  assert (P : forall u, pcof (map (fun p => Loc p Idle) progs) u = Idle).
  { intros u. unfold pcof. rewrite nth_error_map. destruct (nth_error progs u); reflexivity. }
  unfold init; cbn. constructor; cbn; intros; rewrite ?P in *; try discriminate; try lia; try contradiction.
Qed.

Lemma Inv_step : forall g ls t c l g' l' es,
  Inv g ls -> nth_error ls t = Some l -> tstep t c g l = Some (g', l', es) -> Inv g' (upd ls t l').
Proof.
  intros g ls t c l g' l' es HI Hl Hs.
  destruct l as [pr p].
  pose proof (I_count _ _ HI) as HC.
  pose proof (I_owner _ _ HI) as HO.
  pose proof (I_held _ _ HI) as HH.
  pose proof (I_wunl _ _ HI) as HWU.
  pose proof (I_sleep _ _ HI) as HSL.
  pose proof (I_slprs _ _ HI) as HSP.
  pose proof (I_wake _ _ HI) as HWK.
  pose proof (I_ntfy _ _ HI) as HNY.
  pose proof (I_ntfd _ _ HI) as HND.
  step_cases Hs; cbn [prog at_] in *.
  all: repeat match goal with H : ?x = _ |- _ => subst x end.
  all: pose proof (pcof_at _ _ _ Hl) as Hp; cbn in Hp.
  all: constructor; cbn [counter mtx sleepers arrivals start set_mtx at_ prog]; try lia.
  all: try (intros u; rewrite (pcof_upd _ _ _ _ _ Hl); cbn [at_];
            pose proof (HO t) as HOt; pose proof (HH t) as HHt; pose proof (HWU t) as HWUt;
            pose proof (HSL t) as HSLt; pose proof (HSP t) as HSPt; pose proof (HNY t) as HNYt; pose proof (HND t) as HNDt;
            pose proof (HNY u) as HNYu; pose proof (HND u) as HNDu;
            pose proof (HO u) as HOu; pose proof (HH u) as HHu; pose proof (HWU u) as HWUu;
            pose proof (HSL u) as HSLu; pose proof (HSP u) as HSPu;
            destruct (Nat.eqb_spec u t) as [->|Hne]; cbn; intros;
            rewrite ?Hp in *; cbn in *;
            try match goal with H : In _ (rem _ _) |- _ => apply In_rem in H; destruct H end;
            try match goal with H : ~ In _ (rem _ _) |- _ => rewrite In_rem in H end;
            try match goal with H : (0 <? _) = false |- _ => apply Z.ltb_ge in H end;
            try match goal with H : (0 <? _) = true |- _ => apply Z.ltb_lt in H end;
            try match goal with H : (_ =? 0) = true |- _ => apply Z.eqb_eq in H end;
            intuition (discriminate || congruence || lia || eauto); fail).
  all: try (intros Hc Hne0;
            let a := fresh "a" in let Ha := fresh "Ha" in let Hn := fresh "Hn" in
            destruct HWK as [a [Ha Hn]]; [lia|congruence|];
            exists a; rewrite (pcof_upd _ _ _ _ _ Hl); cbn [at_];
            pose proof (HO t) as HOt; pose proof (HH t) as HHt; pose proof (HH a) as HHa;
            destruct (Nat.eqb_spec a t) as [->|Hne]; rewrite ?Hp in *; cbn in *;
            intuition (discriminate || congruence || lia || eauto); fail).
  - (* A_dec -> A_test: nobody else is at W_sleep, t owns the mutex *)
    intros u; rewrite (pcof_upd _ _ _ _ _ Hl); cbn [at_].
    destruct (Nat.eqb_spec u t) as [->|Hne]; cbn; [discriminate|].
    intros Hs. exfalso. apply Hne.
    assert (holds (pcof ls u) = true) as Hu by (destruct (pcof ls u); try discriminate; reflexivity).
    pose proof (HO u Hu) as E1. pose proof (HO t) as E2. rewrite Hp in E2. specialize (E2 eq_refl). congruence.
  - (* A_dec -> A_test: nobody else is at A_notify either *)
    intros u; rewrite (pcof_upd _ _ _ _ _ Hl); cbn [at_].
    destruct (Nat.eqb_spec u t) as [->|Hne]; cbn; [discriminate|].
    intros Hs. exfalso. apply Hne.
    assert (holds (pcof ls u) = true) as Hu by (destruct (pcof ls u); try discriminate; reflexivity).
    pose proof (HO u Hu) as E1. pose proof (HO t) as E2. rewrite Hp in E2. specialize (E2 eq_refl). congruence.
  - (* A_dec -> A_test: the decrement that reaches 0 is the one that will notify *)
    intros Hc Hne0. exists t. pose proof (HO t) as E2. rewrite Hp in E2. specialize (E2 eq_refl).
    split; [exact E2|]. rewrite (pcof_upd _ _ _ _ _ Hl), Nat.eqb_refl. cbn.
    destruct (Z.eq_dec (counter g - 1) 0) as [E|E]; [apply Z.eqb_eq; exact E|].
    exfalso. destruct HWK as [a [Ha Hn]]; [lia|exact Hne0|].
    assert (a = t) by congruence. subst a. rewrite Hp in Hn. discriminate.
  - (* W_sleep with counter <= 0 is impossible *)
    intros Hc _. pose proof (HSL t) as E. rewrite Hp in E. specialize (E eq_refl). lia.
  - (* wake-up: the mutex was free, so nobody was about to notify, so no sleeper is left behind *)
    intros Hc Hne0. exfalso.
    assert (sleepers g <> []) as Hs by (intros E; rewrite E in Hne0; apply Hne0; reflexivity).
    destruct HWK as [a [Ha Hn]]; [lia|exact Hs|]. congruence.
Qed.

(* ---------- reachable states ---------- *)
Definition R (n : Z) (progs : list (list op)) (s : sysL) : Prop := reachable glob loc tstep (init n progs) s.

Lemma R_inv n progs s : R n progs s -> Inv (gl s) (thr s).
Proof. intros H. eapply reachable_inv; [apply Inv_step|apply Inv_init|exact H]. Qed.

Lemma R_start n progs s : R n progs s -> start (gl s) = n.
Proof.
  intros H. refine (reachable_inv glob loc tstep (fun g _ => start g = n) _ (init n progs) s eq_refl H).
  intros g ls t c l g' l' es Hg Hl Hs. destruct l as [pr p]. step_cases Hs; cbn; auto.
Qed.

(* ---------- C10, safety: a wait returns only after `start` arrivals ---------- *)
Lemma wait_returns_after_count n progs s t c l g' l' es :
  R n progs s -> nth_error (thr s) t = Some l -> in_wait (at_ l) = true ->
  tstep t c (gl s) l = Some (g', l', es) -> In ret_ev es -> n <= Z.of_nat (arrivals (gl s)).
Proof.
  intros HR Hl Hw Hs Hret.
  pose proof (R_inv _ _ _ HR) as HI. pose proof (R_start _ _ _ HR) as Hst.
  pose proof (I_count _ _ HI) as HC. pose proof (I_wunl _ _ HI t) as HWU.
  rewrite (pcof_at _ _ _ Hl) in HWU.
  destruct l as [pr p]. cbn [at_] in *.
  step_cases Hs; cbn in Hw; try discriminate;
    cbn in Hret; repeat (destruct Hret as [Hret|Hret]; try discriminate); try contradiction.
  all: try (specialize (HWU eq_refl)).
  all: try match goal with H : (0 <? _) = false |- _ => apply Z.ltb_ge in H end; try lia.
Qed.

Lemma counter_is_start_minus_arrivals n progs s :
  R n progs s -> counter (gl s) = n - Z.of_nat (arrivals (gl s)).
Proof. intros HR. rewrite <- (R_start _ _ _ HR). apply (I_count _ _ (R_inv _ _ _ HR)). Qed.

(* the ghost counter is the number of decrement events in the observable trace *)
Definition is_rmw (l : line) : bool := match l with [_; k; _; _; _] => Z.eqb k K_RMW | _ => false end.
Definition count_rmw (ls : list line) : nat := length (filter is_rmw ls).

Lemma tstep_arrivals t c g l g' l' es : tstep t c g l = Some (g', l', es) ->
  arrivals g' = (arrivals g + count_rmw (map (ev_line t) es))%nat.
Proof. intros Hs. destruct l as [pr p]. step_cases Hs; cbn; lia. Qed.

Lemma arrivals_counts_trace sched : forall (s : sysL),
  arrivals (gl (fst (run_lines glob loc tstep s sched))) =
  (arrivals (gl s) + count_rmw (snd (run_lines glob loc tstep s sched)))%nat.
Proof.
  induction sched as [|[t c] r IH]; intros s; cbn [run_lines]; [cbn; lia|].
  destruct (sys_step glob loc tstep s (t, c)) as [s' o] eqn:E.
  specialize (IH s'). destruct (run_lines glob loc tstep s' r) as [s'' ls]. cbn [fst snd] in *.
  rewrite IH. unfold count_rmw. rewrite filter_app, app_length.
  unfold sys_step in E. destruct (nth_error (thr s) t) as [l|] eqn:Hl.
  - destruct (tstep t c (gl s) l) as [[[g' l'] es]|] eqn:Hs; inversion E; subst; cbn.
    + rewrite (tstep_arrivals _ _ _ _ _ _ _ Hs). unfold count_rmw. lia.
    + lia.
  - inversion E; subst; cbn. lia.
Qed.

(* ---------- C10, liveness ---------- *)
Notation enabledL := (enabled glob loc tstep).
Notation quiescentL := (quiescent glob loc tstep).

(* a thread that owns the mutex can always take its next step: the mutex is
   never held across a wait, so arrive() cannot block on anything else *)
Lemma holder_enabled n progs s a c : R n progs s -> mtx (gl s) = Some a -> enabledL s a c.
Proof.
  intros HR Hm. pose proof (R_inv _ _ _ HR) as HI.
  pose proof (I_held _ _ HI a Hm) as Hh. unfold pcof in Hh.
  destruct (nth_error (thr s) a) as [l|] eqn:Hl; [|discriminate].
  assert (exists r, tstep a c (gl s) l = Some r) as [r Hr]; [|exists l, r; auto].
  destruct l as [pr p]. cbn in Hh. unfold tstep. cbn [at_ prog].
  destruct p; try discriminate; try (eexists; reflexivity).
  destruct k; eexists; reflexivity.
Qed.

Lemma arrive_blocks_only_on_mutex n progs s t c l :
  R n progs s -> nth_error (thr s) t = Some l -> in_arrive (at_ l) = true ->
  tstep t c (gl s) l = None -> exists k a, at_ l = A_lock k /\ mtx (gl s) = Some a /\ a <> t /\ enabledL s a 0.
Proof.
  intros HR Hl Ha Hs. destruct l as [pr p]. cbn in Ha.
  destruct p; try discriminate; cbn in Hs; try discriminate.
  - destruct (mtx (gl s)) as [a|] eqn:Hm; [|discriminate].
    exists k, a. repeat split; auto.
    + intros ->. pose proof (I_held _ _ (R_inv _ _ _ HR) t Hm) as Hh.
      rewrite (pcof_at _ _ _ Hl) in Hh. discriminate.
    + eapply holder_enabled; eauto.
  - destruct k; discriminate.
Qed.

Lemma no_lost_wakeup n progs s u :
  R n progs s -> counter (gl s) <= 0 -> is_woken (pcof (thr s) u) = true ->
  ~ In u (sleepers (gl s)) \/
  exists a, mtx (gl s) = Some a /\ will_notify (gl s) (pcof (thr s) a) = true /\ enabledL s a 0.
Proof.
  intros HR Hc Hw. destruct (in_dec Nat.eq_dec u (sleepers (gl s))) as [Hin|Hnin]; [right|left; exact Hnin].
  destruct (I_wake _ _ (R_inv _ _ _ HR) Hc) as [a [Ha Hn]].
  - intros E. rewrite E in Hin. exact Hin.
  - exists a. repeat split; auto. eapply holder_enabled; eauto.
Qed.

(* what a state looks like when nothing can move without a spurious wake-up *)
Lemma quiescent_shape n progs s t l :
  R n progs s -> quiescentL s -> nth_error (thr s) t = Some l ->
  fin l = true \/ (is_woken (at_ l) = true /\ In t (sleepers (gl s)) /\ 0 < counter (gl s)).
Proof.
  intros HR HQ Hl. pose proof (R_inv _ _ _ HR) as HI.
  assert (Hfree : mtx (gl s) = None).
  { destruct (mtx (gl s)) as [a|] eqn:Hm; [|reflexivity].
    exfalso. apply (HQ a 0%nat); [lia|]. eapply holder_enabled; eauto. }
  assert (Hdis : tstep t 0 (gl s) l = None).
  { destruct (tstep t 0 (gl s) l) as [r|] eqn:Hs; [|reflexivity].
    exfalso. apply (HQ t 0%nat); [lia|]. exists l, r. auto. }
  destruct l as [pr p]. unfold tstep in Hdis. cbn [at_ prog] in Hdis.
  destruct p; try discriminate; try (rewrite Hfree in Hdis; discriminate).
  - destruct pr; [left; reflexivity|discriminate].
  - destruct k; discriminate.
  - destruct (0 <? counter (gl s)); discriminate.
  - right. cbn. rewrite Hfree in Hdis. rewrite orb_false_r in Hdis.
    destruct (mem t (sleepers (gl s))) eqn:Hm; [|discriminate].
    apply mem_In in Hm. repeat split; auto.
    destruct (Z_lt_le_dec 0 (counter (gl s))) as [Hpos|Hle]; [exact Hpos|exfalso].
    destruct (I_wake _ _ HI Hle) as [a [Ha _]]; [intros E; rewrite E in Hm; exact Hm|congruence].
Qed.

(* once the count is reached, a state in which nothing moves is one in which
   every wait has returned: no waiter is left behind *)
Lemma opens_when_count_reached n progs s :
  R n progs s -> quiescentL s -> n <= Z.of_nat (arrivals (gl s)) -> all_fin glob loc fin s = true.
Proof.
  intros HR HQ Hn. unfold all_fin. apply forallb_forall. intros l Hin.
  apply In_nth_error in Hin. destruct Hin as [t Hl].
  destruct (quiescent_shape _ _ _ _ _ HR HQ Hl) as [Hf|[_ [_ Hc]]]; [exact Hf|].
  rewrite (counter_is_start_minus_arrivals _ _ _ HR) in Hc. lia.
Qed.

(* ---------- bounded work: without spurious wake-ups every run is finite ---------- *)
Definition wpc (g : glob) (p : pc) : nat :=
  (match p with
  | Idle => 0
  | A_lock _ => 13 | A_dec _ => 12 | A_test _ => 11 | A_notify _ => 10 | A_unlock _ => 9
  | W_fast _ => 8 | W_lock _ => 7
  | W_test _ => if (0 <? counter g)%Z then 6 else 3
  | W_sleep _ => 5 | W_woken _ => 4 | W_unlock _ => 1
  end)%nat.
Definition wloc (g : glob) (l : loc) : nat := (14 * length (prog l) + wpc g (at_ l))%nat.
Definition mu (s : sysL) : nat := list_sum (map (wloc (gl s)) (thr s)).
Definition no_spurious (c : nat) : bool := negb (Nat.eqb c 1).

Lemma wpc_mono g g' p : counter g' <= counter g -> (wpc g' p <= wpc g p)%nat.
Proof.
  intros H. destruct p; cbn; try lia.
  destruct (Z.ltb_spec 0 (counter g')), (Z.ltb_spec 0 (counter g)); lia.
Qed.

Lemma mu_dec s t c : Inv (gl s) (thr s) -> no_spurious c = true -> enabledL s t c ->
  (mu (stepL s (t, c)) < mu s)%nat.
Proof.
  intros HI Hc [l [r [Hl Hs]]]. destruct r as [[g' l'] es].
  unfold step, sys_step. rewrite Hl, Hs. cbn [fst]. unfold mu. cbn [gl thr].
  apply (sum_step_dec (wloc (gl s)) (wloc g') (thr s) t l l' Hl).
  - (* the counter never grows *)
    intros z. unfold wloc. apply Nat.add_le_mono_l. apply wpc_mono.
    clear -Hs. destruct l as [pr p]. step_cases Hs; cbn; lia.
  - pose proof (I_ntfd _ _ HI t) as HND. rewrite (pcof_at _ _ _ Hl) in HND.
    unfold no_spurious in Hc. apply negb_true_iff in Hc.
    destruct l as [pr p]. unfold wloc. step_cases Hs; cbn [prog at_ length wpc counter set_mtx] in *; try lia.
    all: repeat match goal with
                | |- context [0 <? ?x] => destruct (Z.ltb_spec 0 x)
                | H : (0 <? _) = true |- _ => apply Z.ltb_lt in H
                | H : (0 <? _) = false |- _ => apply Z.ltb_ge in H
                end; try lia.
    (* the wake-up step under a non-spurious choice: the thread was notified, so the count was reached *)
    match goal with H : negb (mem _ _) || _ = true |- _ => rewrite Hc, orb_false_r in H; apply negb_true_iff in H; rename H into Hm end.
    assert (~ In t (sleepers (gl s))) as Hnin by (intros Hin; apply mem_In in Hin; congruence).
    specialize (HND eq_refl Hnin). lia.
Qed.

Lemma bounded_work n progs s sc : R n progs s ->
  sched_ok no_spurious sc -> (moves glob loc tstep s sc <= mu s)%nat.
Proof.
  intros HR Hok. eapply (moves_le_mu glob loc tstep mu Inv Inv_step no_spurious); eauto.
  - intros s0 t c. apply mu_dec.
  - apply (R_inv _ _ _ HR).
Qed.

(* ---------- every run without spurious wake-ups ends, and ends well ---------- *)
From GV Require Import Progress.

Lemma tstep_choice t c g l : c <> 1%nat -> tstep t c g l = tstep t 0 g l.
Proof.
  intros Hc. unfold tstep. destruct (at_ l); try reflexivity.
  destruct (Nat.eqb_spec c 1); [contradiction|reflexivity].
Qed.

Lemma settled_quiescent s : settled glob loc tstep no_spurious s <-> quiescentL s.
Proof.
  unfold settled, quiescent, no_spurious. split; intros H t c Hc.
  - apply H. apply negb_true_iff, Nat.eqb_neq. exact Hc.
  - apply H. apply negb_true_iff, Nat.eqb_neq in Hc. exact Hc.
Qed.

Lemma pick_move s : (exists t c, no_spurious c = true /\ enabledL s t c) \/ settled glob loc tstep no_spurious s.
Proof.
  destruct (enabled_choice_dec glob loc tstep s 0) as [[t He]|Hn].
  - left. exists t, 0%nat. split; [reflexivity|exact He].
  - right. intros t c Hc [l [r [Hl Hs]]]. apply (Hn t). exists l, r. split; [exact Hl|].
    rewrite <- Hs. symmetry. apply tstep_choice.
    unfold no_spurious in Hc. apply negb_true_iff, Nat.eqb_neq in Hc. exact Hc.
Qed.

Lemma arrivals_mono_run sc : forall (s : sysL), (arrivals (gl s) <= arrivals (gl (runL s sc)))%nat.
Proof.
  induction sc as [|[t c] r IH]; intros s; cbn [run fold_left]; [lia|].
  etransitivity; [|apply IH]. unfold step, sys_step.
  destruct (nth_error (thr s) t) as [l|]; [|cbn; lia].
  destruct (tstep t c (gl s) l) as [[[g' l'] es]|] eqn:Hs; [|cbn; lia].
  cbn. rewrite (tstep_arrivals _ _ _ _ _ _ _ Hs). lia.
Qed.

(* from every reachable state in which the count has been reached there is a schedule of at
   most mu(s) steps, without any spurious wake-up, after which every thread has finished:
   every current and future waiter returns *)
Lemma opens_eventually n progs s :
  R n progs s -> n <= Z.of_nat (arrivals (gl s)) ->
  exists sc, sched_ok no_spurious sc /\ (length sc <= mu s)%nat /\ all_fin glob loc fin (runL s sc) = true.
Proof.
  intros HR Hn.
  destruct (settles glob loc tstep mu Inv Inv_step no_spurious (fun s0 t c => mu_dec s0 t c) pick_move s (R_inv _ _ _ HR))
    as [sc [Hok [Hlen Hset]]].
  exists sc. repeat split; auto.
  apply (opens_when_count_reached n progs).
  - destruct HR as [sc0 ->]. exists (sc0 ++ sc). symmetry. apply run_app.
  - apply settled_quiescent. exact Hset.
  - pose proof (arrivals_mono_run sc s). lia.
Qed.

(* ---------- C07: every atomic operation of Latch is seq_cst (the correspondence pins the source) ---------- *)
Definition is_atomic_kind (k : Z) : bool :=
  (k =? K_LOAD) || (k =? K_STORE) || (k =? K_RMW) || (k =? K_CAS_OK) || (k =? K_CAS_FAIL) || (k =? K_XCHG).
Lemma all_atomics_seq_cst t c g l g' l' es e :
  tstep t c g l = Some (g', l', es) -> In e es ->
  emo e = (if is_atomic_kind (ek e) then MO_SEQ_CST else MO_NA).
Proof.
  intros Hs Hin. destruct l as [pr p].
  step_cases Hs; cbn in Hin;
    repeat (destruct Hin as [Hin|Hin]; [subst e; reflexivity|]); contradiction.
Qed.
(* the only shared datum besides the atomic counter and the condition variable is the mutex itself:
   there is no non-atomic shared field, so the slow path orders through the mutex and the fast path
   through the atomic (LatchViews.v) *)
