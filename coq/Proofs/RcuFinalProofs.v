(* C13, no leak: every constructed cell is accounted for (InvK), so that ~rcu_list, run after all
   handles are released and all threads have finished, leaves every cell deallocated. *)
From Coq Require Import List Arith ZArith Lia Bool.
Import ListNotations.
From GV Require Import Sched Events RcuModel RcuBase RcuListProofs RcuRawProofs RcuLogProofs RcuSafetyProofs RcuLedgerProofs.
Local Open Scope nat_scope.

Record InvK (g : glob) (ls : list loc) : Prop := {
  k_alloc : forall k, isnode g k = true -> cs_of g k = Some Alloc -> exists o, hpc g ls = P_constr o k;
  k_constr : forall k, isnode g k = true -> cs_of g k = Some Constr ->
             In k (lst g) \/ pnode (hpc g ls) = Some k \/ enode g ls = Some k \/ exists z, inlog g z /\ znd g z = Some k;
  k_destr : forall k, isnode g k = true -> cs_of g k = Some Destr -> exists u z, pcof ls u = U_df z (Some k);
  k_rec : forall z, isrec g z = true -> In z (zlog g) \/ exists u, priv_rec (pcof ls u) = Some z
}.

Lemma InvK_frame g g' ls t l l' :
  InvK g ls -> nth_error ls t = Some l ->
  (forall k, isnode g' k = true -> isnode g k = true /\ cs_of g' k = cs_of g k) ->
  lst g' = lst g -> (forall z, In z (zlog g) -> In z (zlog g')) ->
  (forall z, In z (zlog g) -> (inlog g z -> inlog g' z) /\ znd g' z = znd g z) ->
  (forall o k, hpc g ls = P_constr o k -> hpc g' (upd ls t l') = P_constr o k) ->
  (forall k, pnode (hpc g ls) = Some k -> pnode (hpc g' (upd ls t l')) = Some k) ->
  (forall k, enode g ls = Some k -> enode g' (upd ls t l') = Some k) ->
  (forall z d, at_ l = U_df z (Some d) -> at_ l' = U_df z (Some d)) ->
  (forall z, isrec g' z = true -> isrec g z = true \/ priv_rec (at_ l') = Some z) ->
  (forall z, priv_rec (at_ l) = Some z -> priv_rec (at_ l') = Some z \/ In z (zlog g')) ->
  InvK g' (upd ls t l').
Proof.
  intros [K1 K2 K3 K4] Hl Hn EL EZ Hz Hpc Hpn Hen Hdf Hr Hp.
  assert (EZ' : True) by exact I.
  assert (Hpcs : forall u, pcof (upd ls t l') u = if Nat.eqb u t then at_ l' else pcof ls u) by (intros u; apply (pcof_upd _ _ _ _ _ Hl)).
  constructor.
  - intros k Hk Hc. destruct (Hn k Hk) as [A B]. rewrite B in Hc. destruct (K1 k A Hc) as [o E]. exists o. apply Hpc. exact E.
  - intros k Hk Hc. destruct (Hn k Hk) as [A B]. rewrite B in Hc. rewrite EL.
    destruct (K2 k A Hc) as [E|[E|[E|(z & Z1 & Z2)]]]; auto.
    right. right. right. exists z. destruct (Hz z (inlog_In _ _ Z1)) as [P Q]. rewrite Q. auto.
  - intros k Hk Hc. destruct (Hn k Hk) as [A B]. rewrite B in Hc. destruct (K3 k A Hc) as (u & z & E). exists u, z.
    rewrite Hpcs. destruct (Nat.eqb_spec u t) as [->|]; [|exact E]. apply Hdf. rewrite <- (pcof_at _ _ _ Hl). exact E.
  - intros z Hzr. destruct (Hr z Hzr) as [A|A].
    + destruct (K4 z A) as [B|(u & B)]; [left; apply EZ; exact B|].
      destruct (Nat.eq_dec u t) as [->|Hu].
      * rewrite (pcof_at _ _ _ Hl) in B. destruct (Hp z B) as [C|C]; [right; exists t; rewrite Hpcs, Nat.eqb_refl; exact C|left; exact C].
      * right. exists u. rewrite Hpcs. destruct (Nat.eqb_spec u t); [contradiction|exact B].
    + right. exists t. rewrite Hpcs, Nat.eqb_refl. exact A.
Qed.

(* ---------- node cells keep their kind and ledger state / record cells are accounted for ---------- *)
Definition nodes_same (g g' : glob) : Prop :=
  forall k, isnode g' k = true -> isnode g k = true /\ cs_of g' k = cs_of g k.
Definition recs_old (g g' : glob) : Prop := forall z, isrec g' z = true -> isrec g z = true.

Lemma ns_heap g g' : heap g' = heap g -> nodes_same g g' /\ recs_old g g'.
Proof.
  intros H. assert (forall k, getc g' k = getc g k) as G by (intros k; unfold getc; rewrite H; reflexivity).
  split; intros k; unfold isnode, isrec, cs_of; rewrite G; auto.
Qed.
Lemma ns_wrap g x y : nodes_same g x /\ recs_old g x -> heap y = heap x -> nodes_same g y /\ recs_old g y.
Proof.
  intros [A B] H. destruct (ns_heap x y H) as [A' B']. split.
  - intros k Hk. destruct (A' k Hk) as [P Q]. destruct (A k P) as [P' Q']. split; [exact P'|congruence].
  - intros z Hz. apply B, B'. exact Hz.
Qed.
Lemma ns_setn g k n : isnode g k = true -> nodes_same g (setn g k n) /\ recs_old g (setn g k n).
Proof.
  intros H. split.
  - intros j. rewrite isnode_setn, cs_of_setn by exact H. auto.
  - intros j. rewrite isrec_setn by exact H. auto.
Qed.
Lemma ns_setz g z r : isrec g z = true -> nodes_same g (setz g z r) /\ recs_old g (setz g z r).
Proof.
  intros H. split.
  - intros j. rewrite isnode_setz, cs_of_setz by exact H. auto.
  - intros j. rewrite isrec_setz by exact H. auto.
Qed.
Lemma ns_construct_rec g z r : isrec g z = true -> nodes_same g (fst (do_construct g z (BRec r))) /\ recs_old g (fst (do_construct g z (BRec r))).
Proof.
  intros H. split.
  - intros j. rewrite isnode_construct_rec, cs_of_construct by exact H. intros Hj. split; [exact Hj|].
    destruct (Nat.eqb_spec j z) as [->|]; [|reflexivity]. rewrite (isrec_isnode _ _ H) in Hj. discriminate.
  - intros j. rewrite isrec_construct_rec by exact H. auto.
Qed.
Lemma ns_destroy_rec g n : isrec g n = true -> nodes_same g (fst (do_destroy g n)) /\ recs_old g (fst (do_destroy g n)).
Proof.
  intros H. split.
  - intros j. rewrite isnode_destroy, cs_of_destroy. intros Hj. split; [exact Hj|].
    destruct (Nat.eqb_spec j n) as [->|]; [|reflexivity]. rewrite (isrec_isnode _ _ H) in Hj. discriminate.
  - intros j. rewrite isrec_destroy. auto.
Qed.
Lemma ns_dealloc_rec g n : isrec g n = true -> nodes_same g (fst (do_dealloc g n)) /\ recs_old g (fst (do_dealloc g n)).
Proof.
  intros H. split.
  - intros j. rewrite isnode_dealloc, cs_of_dealloc. intros Hj. split; [exact Hj|].
    destruct (Nat.eqb_spec j n) as [->|]; [|reflexivity]. rewrite (isrec_isnode _ _ H) in Hj. discriminate.
  - intros j. rewrite isrec_dealloc. auto.
Qed.
Lemma ns_alloc_rec g r : nodes_same g (fst (do_alloc g (BRec r))) /\
  (forall z, isrec (fst (do_alloc g (BRec r))) z = true -> isrec g z = true \/ z = nheap g).
Proof.
  split.
  - intros j. rewrite isnode_alloc, cs_of_alloc. destruct (Nat.eqb_spec j (nheap g)); [discriminate|auto].
  - intros z. rewrite isrec_alloc. destruct (Nat.eqb_spec z (nheap g)); auto.
Qed.

Lemma ns_alloc_raw g : nodes_same g (fst (do_alloc g BRaw)) /\ recs_old g (fst (do_alloc g BRaw)).
Proof.
  split.
  - intros j. rewrite isnode_alloc, cs_of_alloc. destruct (Nat.eqb_spec j (nheap g)); [discriminate|auto].
  - intros z. rewrite isrec_alloc. destruct (Nat.eqb_spec z (nheap g)); [discriminate|auto].
Qed.
Lemma ns_dealloc_raw g n : nodes_same g (fst (do_dealloc_raw g n)) /\ recs_old g (fst (do_dealloc_raw g n)).
Proof.
  split.
  - intros j. rewrite isnode_dealloc_raw. intros Hj. split; [exact Hj|]. apply cs_of_dealloc_raw. left. exact Hj.
  - intros z. rewrite isrec_dealloc_raw. auto.
Qed.

Lemma InvK_frame2 g g' ls t l l' x :
  InvK g ls -> nth_error ls t = Some l -> sameV g g' x -> nodes_same g g' ->
  (forall z, isrec g' z = true -> isrec g z = true \/ priv_rec (at_ l') = Some z) ->
  (forall o k, hpc g ls = P_constr o k -> hpc g' (upd ls t l') = P_constr o k) ->
  (forall k, pnode (hpc g ls) = Some k -> pnode (hpc g' (upd ls t l')) = Some k) ->
  enode g' (upd ls t l') = enode g ls ->
  (forall z d, at_ l = U_df z (Some d) -> at_ l' = U_df z (Some d)) ->
  (forall z, priv_rec (at_ l) = Some z -> priv_rec (at_ l') = Some z \/ In z (zlog g')) ->
  InvK g' (upd ls t l').
Proof.
  intros IK Hl SV NS HR H1 H2 H3 H4 H5.
  apply (InvK_frame g g' ls t l l' IK Hl NS (v_lst _ _ _ SV)); auto.
  - intros z Hz. rewrite (v_zlog _ _ _ SV). exact Hz.
  - intros z Hz. destruct (v_rec _ _ _ SV z Hz) as (A & B & _). split; [apply A|exact B].
  - intros k Hk. rewrite H3. exact Hk.
Qed.

(* ---------- the steps that move the accounting ---------- *)
Section StepK.
  Variables (g : glob) (ls : list loc) (t : nat).
  Hypothesis IA : InvA g ls.
  Hypothesis IB : InvB g ls.
  Hypothesis IC : InvC g ls.
  Hypothesis IK : InvK g ls.

  Lemma pcs_upd l l' u : nth_error ls t = Some l -> pcof (upd ls t l') u = if Nat.eqb u t then at_ l' else pcof ls u.
  Proof. intros Hl. apply (pcof_upd _ _ _ _ _ Hl). Qed.

  Lemma stepK_alloc_rec l l' : nth_error ls t = Some l ->
    priv_rec (at_ l') = Some (nheap g) -> priv_rec (at_ l) = None -> (forall z d, at_ l <> U_df z (Some d)) ->
    let g' := fst (do_alloc g (BRec drec)) in
    (forall o k, hpc g ls = P_constr o k -> hpc g' (upd ls t l') = P_constr o k) ->
    (forall k, pnode (hpc g ls) = Some k -> pnode (hpc g' (upd ls t l')) = Some k) ->
    enode g' (upd ls t l') = enode g ls ->
    InvK g' (upd ls t l').
  Proof.
    intros Hl Hp' Hp Hdf g' E1 E2 E3.
    assert (SV : sameV g g' None).
    { apply sameV_alloc; [intros z Hz; apply (zlog_lt g ls z IB Hz)|right; eexists; reflexivity]. }
    destruct (ns_alloc_rec g drec) as [NS HR]. fold g' in NS, HR.
    apply (InvK_frame2 g g' ls t l l' None IK Hl SV NS); auto.
    - intros z Hz. destruct (HR z Hz) as [A| ->]; [left; exact A|right; exact Hp'].
    - intros z d E. exfalso. apply (Hdf z d E).
    - intros z E. congruence.
  Qed.

  Lemma stepK_rpush l l' z : nth_error ls t = Some l ->
    priv_rec (at_ l) = Some z -> priv_rec (at_ l') = None -> holds (at_ l) = false ->
    let g' := with_zlog (with_zhead g (Some z)) (z :: zlog g) in
    InvK g' (upd ls t l').
  Proof.
    intros Hl Hp Hp' Hh g'. destruct (ns_heap g g' eq_refl) as [NS RO].
    assert (Ehp : hpc g' (upd ls t l') = hpc g ls) by (apply (hpc_other g g' ls t l l' IA Hl Hh eq_refl)).
    apply (InvK_frame g g' ls t l l' IK Hl NS); auto.
    - intros x Hx. right. exact Hx.
    - intros x Hx. split; [|reflexivity]. unfold inlog. intros [A B]. split; [right; exact A|exact B].
    - intros o k E. rewrite Ehp. exact E.
    - intros k E. rewrite Ehp. exact E.
    - intros k E. unfold enode in *. rewrite Ehp. exact E.
    - intros x d E. rewrite E in Hp. discriminate.
    - intros x E. rewrite Hp in E. inversion E; subst x. right. left. reflexivity.
  Qed.

  Lemma stepK_epush pr it nx0 z old h its0 : nth_error ls t = Some (Loc pr (E_cas it nx0 z old) h its0) ->
    let g' := with_zlog (with_zhead g (Some z)) (z :: zlog g) in
    InvK g' (upd ls t (Loc pr (E_unlock it nx0) h its0)).
  Proof.
    intros Hl g'. set (l := Loc pr (E_cas it nx0 z old) h its0) in *. set (l' := Loc pr (E_unlock it nx0) h its0).
    destruct (h_views g g' ls t l l' IA Hl eq_refl eq_refl) as (Hp1 & Hp2 & Hm).
    pose proof (b_thr _ _ IB t l Hl) as T. unfold thrB in T. cbn [at_ l] in T. destruct T as ([Q1 Q2] & Q3 & Q4 & Q5 & (k1 & Q6 & Q7)).
    destruct IK as [K1 K2 K3 K4].
    assert (Il : forall x, inlog g x -> inlog g' x) by (intros x [A B]; split; [right; exact A|exact B]).
    constructor.
    - intros k Hk Hc. destruct (K1 k Hk Hc) as [o E]. rewrite Hp1 in E. discriminate.
    - intros k Hk Hc. destruct (K2 k Hk Hc) as [E|[E|[E|(x & X1 & X2)]]].
      + left. exact E.
      + rewrite Hp1 in E. discriminate.
      + right. right. right. exists z. unfold enode in E. rewrite Hp1 in E. cbn in E. split; [split; [left; reflexivity|change (cs_of g' z) with (cs_of g z); congruence]|exact E].
      + right. right. right. exists x. split; [apply Il; exact X1|exact X2].
    - intros k Hk Hc. destruct (K3 k Hk Hc) as (u & x & E). exists u, x. rewrite (pcs_upd l l' u Hl).
      destruct (Nat.eqb_spec u t) as [->|]; [rewrite (pcof_at _ _ _ Hl) in E; discriminate|exact E].
    - intros x Hx. destruct (K4 x Hx) as [A|(u & A)]; [left; right; exact A|].
      destruct (Nat.eq_dec u t) as [->|Hu].
      + rewrite (pcof_at _ _ _ Hl) in A. cbn in A. inversion A; subst x. left. left. reflexivity.
      + right. exists u. rewrite (pcs_upd l l' u Hl). destruct (Nat.eqb_spec u t); [contradiction|exact A].
  Qed.
End StepK.

Section StepK2.
  Variables (g : glob) (ls : list loc) (t : nat).
  Hypothesis IA : InvA g ls.
  Hypothesis IB : InvB g ls.
  Hypothesis IC : InvC g ls.
  Hypothesis IK : InvK g ls.

  (* generic: only the accounting of node cells moves; record cells and other threads' pcs are untouched *)
  Lemma InvK_nodes' g' l l' :
    nth_error ls t = Some l ->
    (forall z, isrec g' z = true -> isrec g z = true) -> zlog g' = zlog g ->
    priv_rec (at_ l') = priv_rec (at_ l) ->
    (forall k, isnode g' k = true -> cs_of g' k = Some Alloc -> exists o, hpc g' (upd ls t l') = P_constr o k) ->
    (forall k, isnode g' k = true -> cs_of g' k = Some Constr ->
       In k (lst g') \/ pnode (hpc g' (upd ls t l')) = Some k \/ enode g' (upd ls t l') = Some k \/ exists z, inlog g' z /\ znd g' z = Some k) ->
    (forall k, isnode g' k = true -> cs_of g' k = Some Destr -> exists u z, pcof (upd ls t l') u = U_df z (Some k)) ->
    InvK g' (upd ls t l').
  Proof.
    intros Hl Hr EZ Hp H1 H2 H3. constructor; auto.
    intros z Hz. rewrite EZ. destruct (k_rec _ _ IK z (Hr z Hz)) as [A|(u & A)]; [left; exact A|right].
    exists u. rewrite (pcs_upd ls t l l' u Hl). destruct (Nat.eqb_spec u t) as [->|]; [|exact A].
    rewrite (pcof_at _ _ _ Hl) in A. congruence.
  Qed.
  Lemma InvK_nodes g' l l' :
    nth_error ls t = Some l ->
    (forall z, isrec g' z = true -> isrec g z = true) -> zlog g' = zlog g ->
    priv_rec (at_ l) = None -> priv_rec (at_ l') = None ->
    (forall k, isnode g' k = true -> cs_of g' k = Some Alloc -> exists o, hpc g' (upd ls t l') = P_constr o k) ->
    (forall k, isnode g' k = true -> cs_of g' k = Some Constr ->
       In k (lst g') \/ pnode (hpc g' (upd ls t l')) = Some k \/ enode g' (upd ls t l') = Some k \/ exists z, inlog g' z /\ znd g' z = Some k) ->
    (forall k, isnode g' k = true -> cs_of g' k = Some Destr -> exists u z, pcof (upd ls t l') u = U_df z (Some k)) ->
    InvK g' (upd ls t l').
  Proof. intros Hl Hr EZ Hp Hp'. apply (InvK_nodes' g' l l'); auto. congruence. Qed.

  Lemma stepK_P_alloc pr o h its0 lo' hi' : nth_error ls t = Some (Loc pr (P_alloc o) h its0) ->
    let g' := with_pos (fst (do_alloc g (BNode dnode))) lo' hi' in
    InvK g' (upd ls t (Loc pr (P_constr o (nheap g)) h its0)).
  Proof.
    intros Hl g'. set (l := Loc pr (P_alloc o) h its0) in *. set (l' := Loc pr (P_constr o (nheap g)) h its0).
    destruct (h_views g g' ls t l l' IA Hl eq_refl eq_refl) as (Hp1 & Hp2 & Hm).
    assert (EI : forall k, isnode g' k = if Nat.eqb k (nheap g) then true else isnode g k).
    { intros k. change (isnode g' k) with (isnode (fst (do_alloc g (BNode dnode))) k). apply isnode_alloc. }
    assert (EC : forall k, cs_of g' k = if Nat.eqb k (nheap g) then Some Alloc else cs_of g k).
    { intros k. change (cs_of g' k) with (cs_of (fst (do_alloc g (BNode dnode))) k). apply cs_of_alloc. }
    apply (InvK_nodes g' l l' Hl); try reflexivity.
    - intros z. change (isrec g' z) with (isrec (fst (do_alloc g (BNode dnode))) z). rewrite isrec_alloc.
      destruct (Nat.eqb z (nheap g)); [discriminate|auto].
    - intros k Hk Hc. rewrite EI in Hk. rewrite EC in Hc. rewrite Hp2. destruct (Nat.eqb_spec k (nheap g)) as [Ek|]; [try subst k; exists o; reflexivity|].
      destruct (k_alloc _ _ IK k Hk Hc) as [o' E]. rewrite Hp1 in E. discriminate.
    - intros k Hk Hc. rewrite EI in Hk. rewrite EC in Hc. destruct (Nat.eqb_spec k (nheap g)) as [Ek|]; [try subst k; discriminate|].
      destruct (k_constr _ _ IK k Hk Hc) as [E|[E|[E|(z & Z1 & Z2)]]]; [left; exact E|rewrite Hp1 in E; discriminate|unfold enode in E; rewrite Hp1 in E; discriminate|].
      right. right. right. exists z. split; [|unfold znd; change (grec g' z) with (grec (fst (do_alloc g (BNode dnode))) z); rewrite grec_alloc_node; exact Z2].
      destruct Z1 as [A B]. split; [exact A|].
      rewrite EC. destruct (Nat.eqb_spec z (nheap g)) as [Ek|]; [|exact B]. subst z. pose proof (zlog_lt g ls _ IB A). lia.
    - intros k Hk Hc. rewrite EI in Hk. rewrite EC in Hc. destruct (Nat.eqb_spec k (nheap g)) as [Ek|]; [try subst k; discriminate|].
      destruct (k_destr _ _ IK k Hk Hc) as (u & z & E). exists u, z. rewrite (pcs_upd ls t l l' u Hl).
      destruct (Nat.eqb_spec u t) as [->|]; [rewrite (pcof_at _ _ _ Hl) in E; discriminate|exact E].
  Qed.

  Lemma stepK_P_constr pr o n v h its0 : nth_error ls t = Some (Loc pr (P_constr o n) h its0) ->
    let g' := fst (do_construct g n (BNode v)) in
    InvK g' (upd ls t (Loc pr (P_ld o n) h its0)).
  Proof.
    intros Hl g'. set (l := Loc pr (P_constr o n) h its0) in *. set (l' := Loc pr (P_ld o n) h its0).
    destruct (h_views g g' ls t l l' IA Hl eq_refl (wmtx_construct g n (BNode v))) as (Hp1 & Hp2 & Hm).
    pose proof (gs_hold _ _ (a_gs _ _ IA)) as H. rewrite Hp1 in H. cbn [at_ l hold_ok] in H. destruct H as (Ha & _ & Hi & _).
    assert (EI : forall k, isnode g' k = isnode g k) by (intros k; apply isnode_construct_node; exact Hi).
    assert (EC : forall k, cs_of g' k = if Nat.eqb k n then Some Constr else cs_of g k).
    { intros k. unfold g'. rewrite cs_of_construct. destruct (Nat.eqb k n); [rewrite Ha|]; reflexivity. }
    destruct (construct_fields g n (BNode v)) as (F1 & F2 & F3 & F4 & F5 & F6 & F7 & F8 & F9 & F10 & F11 & F12). fold g' in F10, F11.
    apply (InvK_nodes g' l l' Hl); try reflexivity; auto.
    - intros z. unfold g'. rewrite isrec_construct_node by exact Hi. auto.
    - intros k Hk Hc. rewrite EI in Hk. rewrite EC in Hc. destruct (Nat.eqb_spec k n) as [->|Hkn]; [discriminate|].
      destruct (k_alloc _ _ IK k Hk Hc) as [o' E]. rewrite Hp1 in E. cbn in E. inversion E. congruence.
    - intros k Hk Hc. rewrite EI in Hk. rewrite EC in Hc. rewrite Hp2, F10. destruct (Nat.eqb_spec k n) as [->|Hkn]; [right; left; reflexivity|].
      destruct (k_constr _ _ IK k Hk Hc) as [E|[E|[E|(z & Z1 & Z2)]]]; [left; exact E|rewrite Hp1 in E; discriminate|unfold enode in E; rewrite Hp1 in E; discriminate|].
      right. right. right. exists z. assert (z <> n) as Hzn.
      { intros ->. pose proof (b_rec _ _ IB n (inlog_In _ _ Z1)) as R. rewrite (isnode_isrec _ _ Hi) in R. discriminate. }
      split.
      + destruct Z1 as [A B]. split; [rewrite F11; exact A|rewrite EC; destruct (Nat.eqb_spec z n); [contradiction|exact B]].
      + unfold znd, g'. rewrite grec_construct_node by exact Hi. exact Z2.
    - intros k Hk Hc. rewrite EI in Hk. rewrite EC in Hc. destruct (Nat.eqb_spec k n) as [->|]; [discriminate|].
      destruct (k_destr _ _ IK k Hk Hc) as (u & z & E). exists u, z. rewrite (pcs_upd ls t l l' u Hl).
      destruct (Nat.eqb_spec u t) as [->|]; [rewrite (pcof_at _ _ _ Hl) in E; discriminate|exact E].
  Qed.
End StepK2.

Section StepK3.
  Variables (g : glob) (ls : list loc) (t : nat).
  Hypothesis IA : InvA g ls.
  Hypothesis IB : InvB g ls.
  Hypothesis IC : InvC g ls.
  Hypothesis IK : InvK g ls.

  (* a step of the mutex holder that moves a node between "private", "in the list" and "being erased" *)
  Lemma stepK_holder g' l l' : nth_error ls t = Some l -> holds (at_ l) = true -> wmtx g' = wmtx g ->
    (forall k, isnode g' k = isnode g k) -> (forall k, cs_of g' k = cs_of g k) -> (forall k, isrec g' k = isrec g k) ->
    zlog g' = zlog g -> (forall z, grec g' z = grec g z) ->
    (forall o k, at_ l <> P_constr o k) -> priv_rec (at_ l') = priv_rec (at_ l) ->
    (forall k, In k (lst g) \/ pnode (at_ l) = Some k \/ erasing_node g (at_ l) = Some k ->
               In k (lst g') \/ pnode (at_ l') = Some k \/ erasing_node g' (at_ l') = Some k) ->
    InvK g' (upd ls t l').
  Proof.
    intros Hl Hh Hm EI EC ER EZ EG Hnc Hp Hacc.
    destruct (h_views g g' ls t l l' IA Hl Hh Hm) as (Hp1 & Hp2 & Hmt).
    apply (InvK_nodes' g ls t IK g' l l' Hl); auto.
    - intros z. rewrite ER. auto.
    - intros k Hk Hc. rewrite EI in Hk. rewrite EC in Hc. destruct (k_alloc _ _ IK k Hk Hc) as [o E]. rewrite Hp1 in E. exfalso. apply (Hnc o k E).
    - intros k Hk Hc. rewrite EI in Hk. rewrite EC in Hc. rewrite Hp2. unfold enode. rewrite Hp2.
      destruct (k_constr _ _ IK k Hk Hc) as [E|[E|[E|(z & Z1 & Z2)]]].
      + destruct (Hacc k (or_introl E)) as [A|[A|A]]; auto.
      + rewrite Hp1 in E. destruct (Hacc k (or_intror (or_introl E))) as [A|[A|A]]; auto.
      + unfold enode in E. rewrite Hp1 in E. destruct (Hacc k (or_intror (or_intror E))) as [A|[A|A]]; auto.
      + right. right. right. exists z. unfold inlog, znd in *. rewrite EZ, EC, EG. auto.
    - intros k Hk Hc. rewrite EI in Hk. rewrite EC in Hc. destruct (k_destr _ _ IK k Hk Hc) as (u & z & E). exists u, z.
      rewrite (pcs_upd ls t l l' u Hl). destruct (Nat.eqb_spec u t) as [Eu|]; [|exact E]. subst u. rewrite (pcof_at _ _ _ Hl) in E.
      rewrite E in Hh. discriminate.
  Qed.

  (* the reclaimer destroys / deallocates a node: d leaves the class Constr, resp. Destr *)
  Lemma stepK_nodecs g' l l' n d s1 s2 : nth_error ls t = Some l -> region_pc (at_ l) = Some n -> znd g n = Some d ->
    cs_of g d = Some s1 -> cs_of g' d = Some s2 -> s2 <> Constr -> s2 <> Alloc ->
    (s2 = Destr -> at_ l' = U_df n (Some d)) -> (s1 = Destr -> at_ l = U_df n (Some d)) ->
    (forall k, k <> d -> cs_of g' k = cs_of g k) ->
    (forall k, isnode g' k = isnode g k) -> (forall k, isrec g' k = isrec g k) ->
    zlog g' = zlog g -> lst g' = lst g -> (forall z, grec g' z = grec g z) -> wmtx g' = wmtx g ->
    priv_rec (at_ l) = None -> priv_rec (at_ l') = None -> holds (at_ l') = false ->
    InvK g' (upd ls t l').
  Proof.
    intros Hl Hrn Hd Hs1 Hs2 Hn1 Hn2 Hdf Hdf0 EC EI ER EZ EL EG Hm Hp Hp' Hh'.
    assert (Hh : holds (at_ l) = false) by (destruct (at_ l); try discriminate; reflexivity).
    pose proof (hpc_other g g' ls t l l' IA Hl Hh Hm) as Ehp.
    pose proof (region_of g t l n (b_thr _ _ IB t l Hl) Hrn) as (Rn & _).
    destruct (c_recn _ _ IC n d (inlog_In _ _ Rn) Hd) as (D1 & D2 & D3).
    assert (Hdz : ~ In d (zlog g)) by (intros A; pose proof (b_rec _ _ IB d A) as B; rewrite (isnode_isrec _ _ D1) in B; discriminate).
    apply (InvK_nodes g ls t IK g' l l' Hl); auto.
    - intros z. rewrite ER. auto.
    - intros k Hk Hc. rewrite EI in Hk. assert (k <> d) as Hkd by (intros ->; congruence). rewrite (EC k Hkd) in Hc.
      destruct (k_alloc _ _ IK k Hk Hc) as [o E]. exists o. rewrite Ehp. exact E.
    - intros k Hk Hc. rewrite EI in Hk. assert (k <> d) as Hkd by (intros ->; congruence). rewrite (EC k Hkd) in Hc.
      rewrite EL, Ehp. unfold enode. rewrite Ehp.
      assert (erasing_node g' (hpc g ls) = erasing_node g (hpc g ls)) as Een.
      { unfold erasing_node, znd. destruct (hpc g ls); auto; rewrite EG; reflexivity. }
      rewrite Een. destruct (k_constr _ _ IK k Hk Hc) as [E|[E|[E|(z & Z1 & Z2)]]]; auto.
      right. right. right. exists z. unfold inlog, znd in *. rewrite EZ, EG. split; [|exact Z2]. destruct Z1 as [A B]. split; [exact A|].
      rewrite EC; [exact B|]. intros ->. auto.
    - intros k Hk Hc. rewrite EI in Hk. destruct (Nat.eq_dec k d) as [->|Hkd].
      + assert (s2 = Destr) by congruence. exists t, n. rewrite (pcs_upd ls t l l' t Hl), Nat.eqb_refl. auto.
      + rewrite (EC k Hkd) in Hc. destruct (k_destr _ _ IK k Hk Hc) as (u & z & E). exists u, z. rewrite (pcs_upd ls t l l' u Hl).
        destruct (Nat.eqb_spec u t) as [Eu|]; [|exact E]. subst u. rewrite (pcof_at _ _ _ Hl) in E. exfalso.
        rewrite E in Hrn. cbn in Hrn. inversion Hrn; subst z.
        (* t was at U_df n (Some k): then k = znd n = d *)
        pose proof (b_thr _ _ IB t l Hl) as T. unfold thrB in T. rewrite E in T. destruct T as (_ & _ & Ed). congruence.
  Qed.
End StepK3.

Section StepK4.
  Variables (g : glob) (ls : list loc) (t : nat).
  Hypothesis IA : InvA g ls.
  Hypothesis IB : InvB g ls.
  Hypothesis IC : InvC g ls.
  Hypothesis IK : InvK g ls.

  Lemma stepK_zf pr n nxt h its0 p' : nth_error ls t = Some (Loc pr (U_zf n nxt) h its0) ->
    priv_rec p' = None -> holds p' = false -> (forall z d, p' <> U_df z (Some d)) ->
    InvK (fst (do_dealloc g n)) (upd ls t (Loc pr p' h its0)).
  Proof.
    intros Hl Hp' Hh' Hndf. set (l := Loc pr (U_zf n nxt) h its0) in *. set (l' := Loc pr p' h its0). set (g' := fst (do_dealloc g n)).
    pose proof (b_thr _ _ IB t l Hl) as T. unfold thrB in T. cbn [at_ l] in T. destruct T as ((Rn & _) & Cs & _).
    pose proof (c_thr _ _ IC t l Hl) as Tc. unfold thrC in Tc. cbn [at_ l] in Tc.
    assert (Hnr : isrec g n = true) by (apply (b_rec _ _ IB n (inlog_In _ _ Rn))).
    destruct (dealloc_fields g n) as (F1 & F2 & F3 & F4 & F5 & F6 & F7 & F8 & F9 & F10 & F11 & F12). fold g' in F4, F10, F11.
    pose proof (hpc_other g g' ls t l l' IA Hl eq_refl F4) as Ehp.
    assert (EI : forall k, isnode g' k = isnode g k) by (intros k; apply isnode_dealloc).
    assert (ECn : forall k, isnode g k = true -> cs_of g' k = cs_of g k).
    { intros k Hk. unfold g'. rewrite cs_of_dealloc. destruct (Nat.eqb_spec k n) as [Ek|]; [|reflexivity]. subst k. rewrite (isrec_isnode _ _ Hnr) in Hk. discriminate. }
    assert (EG : forall z, grec g' z = grec g z) by (intros z; apply grec_dealloc).
    assert (Een : erasing_node g' (hpc g ls) = erasing_node g (hpc g ls)).
    { unfold erasing_node, znd. destruct (hpc g ls); auto; rewrite EG; reflexivity. }
    apply (InvK_nodes g ls t IK g' l l' Hl); auto.
    - intros z. unfold g'. rewrite isrec_dealloc. auto.
    - intros k Hk Hc. rewrite EI in Hk. rewrite (ECn k Hk) in Hc. destruct (k_alloc _ _ IK k Hk Hc) as [o E]. exists o. rewrite Ehp. exact E.
    - intros k Hk Hc. rewrite EI in Hk. rewrite (ECn k Hk) in Hc. rewrite F10, Ehp. unfold enode. rewrite Ehp, Een.
      destruct (k_constr _ _ IK k Hk Hc) as [E|[E|[E|(z & Z1 & Z2)]]]; auto.
      right. right. right. exists z. unfold znd. rewrite EG. split; [|exact Z2].
      destruct (Nat.eq_dec z n) as [Ez|Hzn].
      + exfalso. subst z. rewrite (Tc k Z2) in Hc. discriminate.
      + destruct Z1 as [A B]. split; [rewrite F11; exact A|]. unfold g'. rewrite cs_of_dealloc. destruct (Nat.eqb_spec z n); [contradiction|exact B].
    - intros k Hk Hc. rewrite EI in Hk. rewrite (ECn k Hk) in Hc. destruct (k_destr _ _ IK k Hk Hc) as (u & z & E). exists u, z.
      rewrite (pcs_upd ls t l l' u Hl). destruct (Nat.eqb_spec u t) as [Eu|]; [|exact E]. subst u. rewrite (pcof_at _ _ _ Hl) in E. discriminate.
  Qed.
End StepK4.

Lemma reclaim_at_not_df g m z d : reclaim_at g m <> U_df z (Some d).
Proof. unfold reclaim_at. destruct (znode (grec g m)); [discriminate|destruct (unfixed g); discriminate]. Qed.

(* ---------- the step lemma ---------- *)
Ltac ns_unwrap :=
  repeat match goal with
  | |- nodes_same ?g (with_fault ?x) /\ _ => apply (ns_wrap g x); [|reflexivity]
  | |- nodes_same ?g (with_misuse ?x) /\ _ => apply (ns_wrap g x); [|reflexivity]
  | |- nodes_same ?g (with_mtx ?x _) /\ _ => apply (ns_wrap g x); [|reflexivity]
  | |- nodes_same ?g (with_head ?x _) /\ _ => apply (ns_wrap g x); [|reflexivity]
  | |- nodes_same ?g (with_tail ?x _) /\ _ => apply (ns_wrap g x); [|reflexivity]
  | |- nodes_same ?g (with_pos ?x _ _) /\ _ => apply (ns_wrap g x); [|reflexivity]
  | |- nodes_same ?g (with_zhead ?x _) /\ _ => apply (ns_wrap g x); [|reflexivity]
  | |- nodes_same ?g (with_zlog ?x _) /\ _ => apply (ns_wrap g x); [|reflexivity]
  | |- nodes_same ?g (commit ?x _) /\ _ => apply (ns_wrap g x); [|reflexivity]
  end.
Lemma InvK_step : forall g ls t c l g' l' es,
  Inv3 g ls -> InvK g ls -> nth_error ls t = Some l -> tstep t c g l = Some (g', l', es) -> InvK g' (upd ls t l').
Proof.
  intros g ls t c l g' l' es (IA & IB & IC) IK Hl Hs.
  pose proof (b_thr _ _ IB t l Hl) as Tt. pose proof (a_thr _ _ IA t l Hl) as Ta. pose proof (c_thr _ _ IC t l Hl) as Tc.
  destruct l as [pr p h its0]. destruct p.
  all: try (destruct (t_unl _ _ Ta eq_refl) as (w0 & z0 & Eh0); cbn [hnd] in Eh0; subst h).
  all: step_cases2 Hs; fold_fst; cbn [own_rec own_w hnd] in *.
  all: try (match goal with H : okn _ ?k = false |- _ =>
              exfalso; rewrite (node_access_ok _ ls t _ k IA IB IC Hl eq_refl) in H; discriminate end).
  all: try (match goal with H : okz _ ?k = false |- _ =>
              exfalso; rewrite (log_access_ok _ ls t _ k (conj IA IB) Hl eq_refl) in H; discriminate end).
  (* 1. non-holder steps, heap untouched *)
  all: try (
    match type of IA with InvA ?g _ => match goal with |- InvK ?gg (upd _ _ ?ll) =>
      assert (SV : sameV g gg None) by (repeat first [apply sameV_fault | apply sameV_misuse]; first [apply sameV_refl | apply sameV_null]);
      assert (NS : nodes_same g gg /\ recs_old g gg) by (apply ns_heap; reflexivity);
      destruct (nh_views2 g gg ls t _ ll IA IB IC Hl eq_refl (ltac:(cbn [at_]; rewrite ?holds_body, ?holds_reclaim; reflexivity))
                  (ltac:(autorewrite with wm; reflexivity)) (fun z1 _ => eq_refl)
                  (fun k Hk => v_cs _ _ _ SV k Hk (ltac:(discriminate)))) as (En & Pn & Ehp);
      apply (InvK_frame2 g gg ls t _ ll None IK Hl SV (proj1 NS))
    end end;
    [ intros z1 Hz1; left; apply (proj2 NS); exact Hz1
    | intros o1 k1 E1; rewrite Ehp; exact E1
    | intros k1 E1; rewrite Ehp; exact E1
    | exact En
    | cbn [at_]; intros; discriminate
    | cbn [at_ priv_rec]; rewrite ?priv_rec_body, ?priv_rec_reclaim; intros z1 E1; first [discriminate | left; exact E1] ]).
  (* 2. non-holder steps on a private record, or on the own / pointer record *)
  all: try (
    unfold thrB in Tt; cbn [at_ hnd] in Tt; try unfold privR in Tt;
    match type of IA with InvA ?g _ => match goal with |- InvK ?gg (upd _ _ ?ll) =>
      assert (SV : sameV g gg None) by
        (first [ apply sameV_construct_rec; tauto
               | apply sameV_setz_priv; tauto
               | (destruct Tt as ((Rn0 & _) & Cs0 & _); apply sameV_destroy_rec; [apply (b_rec _ _ IB); apply inlog_In; exact Rn0|exact Cs0])
               | apply sameV_setz_own; [apply (b_rec _ _ IB); apply (own_in_log g ls t _ IA IB Hl eq_refl)|reflexivity|cbn; auto] ]);
      assert (NS : nodes_same g gg /\ recs_old g gg) by
        (first [ apply ns_construct_rec; tauto | apply ns_setz; tauto
               | (destruct Tt as ((Rn0 & _) & _); apply ns_destroy_rec; apply (b_rec _ _ IB); apply inlog_In; exact Rn0)
               | apply ns_setz; apply (b_rec _ _ IB); apply (own_in_log g ls t _ IA IB Hl eq_refl) ]);
      assert (HZ : forall z1, priv_rec (hpc g ls) = Some z1 -> znd gg z1 = znd g z1) by
        (first [ eapply (znd_other_priv g gg ls t _ _ IA IB Hl eq_refl);
                 [ first [ apply recsame_construct_rec; tauto | apply recsame_setz; tauto ] | right; right; reflexivity ]
               | intros z1 H1; destruct (holder_priv_notin g ls z1 IB H1) as [N1 N2]; unfold znd;
                 first [ rewrite grec_destroy; reflexivity
                       | (rewrite grec_setz_ne; [reflexivity|]; intros ->; apply N1; apply (own_in_log g ls t _ IA IB Hl eq_refl)) ] ]);
      destruct (nh_views2 g gg ls t _ ll IA IB IC Hl eq_refl eq_refl (ltac:(autorewrite with wm; reflexivity)) HZ
                  (fun k Hk => v_cs _ _ _ SV k Hk (ltac:(discriminate)))) as (En & Pn & Ehp);
      apply (InvK_frame2 g gg ls t _ ll None IK Hl SV (proj1 NS))
    end end;
    [ intros z1 Hz1; left; apply (proj2 NS); exact Hz1
    | intros o1 k1 E1; rewrite Ehp; exact E1
    | intros k1 E1; rewrite Ehp; exact E1
    | exact En
    | cbn [at_]; intros; discriminate
    | cbn [at_ priv_rec]; intros z1 E1; first [discriminate | left; exact E1] ]).
  (* 3. lock / unlock *)
  all: try (
    match type of Hl with nth_error _ _ = Some {| prog := _; at_ := ?pp; hnd := _; its := _ |} =>
      match pp with P_lock _ => idtac | E_lock _ _ => idtac | EF_lock _ _ => idtac end end;
    match goal with |- InvK ?gg (upd _ _ ?ll) =>
      assert (SV : sameV g gg None) by (apply sameV_mtx, sameV_refl);
      assert (NS : nodes_same g gg /\ recs_old g gg) by (apply ns_heap; reflexivity);
      assert (Hp1 : hpc g ls = Idle) by (apply hpc_free; assumption);
      assert (Hp2 : hpc gg (upd ls t ll) = at_ ll) by (apply (hpc_self gg ls t _ ll Hl); reflexivity);
      apply (InvK_frame2 g gg ls t _ ll None IK Hl SV (proj1 NS))
    end;
    [ intros z1 Hz1; left; apply (proj2 NS); exact Hz1
    | intros o1 k1 E1; rewrite Hp1 in E1; discriminate
    | intros k1 E1; rewrite Hp1 in E1; discriminate
    | unfold enode; rewrite Hp1, Hp2; reflexivity
    | cbn [at_]; intros; discriminate
    | cbn [at_ priv_rec]; intros z1 E1; discriminate ]).
  all: try (
    match type of Hl with nth_error _ _ = Some {| prog := _; at_ := ?pp; hnd := _; its := _ |} =>
      match pp with P_unlock => idtac | E_unlock _ _ => idtac | PX_unl => idtac end end;
    match goal with |- InvK ?gg (upd _ _ ?ll) =>
      assert (SV : sameV g gg None) by (apply sameV_mtx, sameV_refl);
      assert (NS : nodes_same g gg /\ recs_old g gg) by (apply ns_heap; reflexivity);
      destruct (hpc_holder g ls t _ IA Hl eq_refl) as [Hp1 Hm];
      assert (Hp2 : hpc gg (upd ls t ll) = Idle) by (apply hpc_free; reflexivity);
      apply (InvK_frame2 g gg ls t _ ll None IK Hl SV (proj1 NS))
    end;
    [ intros z1 Hz1; left; apply (proj2 NS); exact Hz1
    | intros o1 k1 E1; rewrite Hp1 in E1; discriminate
    | intros k1 E1; rewrite Hp1 in E1; discriminate
    | unfold enode; rewrite Hp1, Hp2; reflexivity
    | cbn [at_]; intros; discriminate
    | cbn [at_ priv_rec]; intros z1 E1; discriminate ]).
  (* 4. holder steps that neither allocate nor change the ledger state of a node *)
  all: try (
    match type of Hl with nth_error _ _ = Some {| prog := _; at_ := ?pp; hnd := _; its := _ |} =>
      match pp with P_alloc _ => fail 1 | P_constr _ _ => fail 1 | P_e1 _ _ => fail 1 | PF_head _ => fail 1 | PB_next _ _ => fail 1
                  | E_s1 _ _ _ _ _ _ => fail 1 | E_alloc _ _ _ => fail 1 | _ => idtac end end;
    match type of IA with InvA ?g _ => match goal with |- InvK ?gg (upd _ _ ?ll) =>
      assert (SVx : exists x, sameV g gg x) by
        (unfold thrB in Tt; cbn [at_ hnd] in Tt; try unfold privR in Tt;
         first [ exists None; repeat first [apply sameV_tail];
                 first [ apply sameV_refl
                       | apply sameV_alloc_raw; intros z1 H1; apply (zlog_lt _ ls z1 IB H1)
                       | apply sameV_dealloc_raw; apply (b_rec _ _ IB)
                       | apply sameV_construct_rec; tauto
                       | apply sameV_setz_priv; tauto
                       | (apply sameV_setn; [apply (wtarget_isnode g ls t _ _ IA Hl); reflexivity|right; reflexivity|cbn; auto])
                       | (apply sameV_heap; [reflexivity| |reflexivity|reflexivity]; cbn [lst commit apply_m]; apply remove_nat_notin;
                          match goal with H : ndel (gnode _ ?cc) = true |- _ =>
                            let G0 := fresh "G0" in
                            destruct (hpc_holder g ls t _ IA Hl eq_refl) as [Ehp _]; pose proof (a_gs _ _ IA) as G0; rewrite Ehp in G0; cbn [at_] in G0;
                            assert (Pc0 : pubn g cc) by (apply (t_refs _ _ (a_thr _ _ IA t _ Hl)); apply in_or_app; right; left; reflexivity);
                            apply (step_E_ld0_noop g _ cc G0 eq_refl Pc0 H) end) ]
               | (eexists; apply sameV_setn; [apply (wtarget_isnode g ls t _ _ IA Hl); reflexivity|left; reflexivity|cbn; auto]) ]);
      destruct SVx as [x0 SV];
      assert (NS : nodes_same g gg /\ recs_old g gg) by
        (unfold thrB in Tt; cbn [at_ hnd] in Tt; try unfold privR in Tt; ns_unwrap;
         first [ apply ns_heap; reflexivity | apply ns_alloc_raw | apply ns_dealloc_raw | apply ns_construct_rec; tauto | apply ns_setz; tauto
               | apply ns_setn; apply (wtarget_isnode g ls t _ _ IA Hl); reflexivity ]);
      destruct (h_views g gg ls t _ ll IA Hl eq_refl (ltac:(autorewrite with wm; reflexivity))) as (Hp1 & Hp2 & Hm);
      apply (InvK_frame2 g gg ls t _ ll x0 IK Hl SV (proj1 NS))
    end end;
    [ intros z1 Hz1; left; apply (proj2 NS); exact Hz1
    | intros o1 k1 E1; rewrite Hp1 in E1; cbn [at_] in E1; discriminate
    | intros k1 E1; rewrite Hp1 in E1; rewrite Hp2; cbn [at_ pnode priv_node] in *; first [discriminate | exact E1]
    | 
    | cbn [at_]; intros; discriminate
    | cbn [at_ priv_rec]; intros z1 E1; first [discriminate | left; exact E1] ]).
  all: try (match goal with |- enode _ _ = enode _ _ => unfold enode; rewrite Hp1, Hp2; cbn [at_ erasing_node] end;
            first [ reflexivity
                  | (unfold thrB in Tt; cbn [at_] in Tt; unfold privR in Tt; destruct Tt as ([Q1 Q2] & Q3 & Q4);
                     match goal with |- context [do_construct ?g0 ?zz (BRec ?r)] => destruct (views_construct_rec g0 zz r Q1 Q3) as (V1 & V2 & V3 & V4) end;
                     unfold znd; rewrite V3; reflexivity)
                  | (unfold thrB in Tt; cbn [at_] in Tt; unfold privR in Tt; destruct Tt as ([Q1 Q2] & _);
                     unfold znd; rewrite ?grec_setz_eq by (apply isrec_lt; exact Q1); reflexivity) ]).
  (* 5. the steps that move the accounting *)
  (* record allocation: registration (non-holder) and erase (holder) *)
  all: try (
    match goal with |- InvK (fst (do_alloc ?g (BRec drec))) (upd _ _ ?ll) =>
      match ll with {| prog := _; at_ := R_constr _ _; hnd := _; its := _ |} => idtac end;
      assert (SV : sameV g (fst (do_alloc g (BRec drec))) None) by
        (apply sameV_alloc; [intros z1 Hz1; apply (zlog_lt g ls z1 IB Hz1)|right; eexists; reflexivity]);
      assert (HZ : forall z1, priv_rec (hpc g ls) = Some z1 -> znd (fst (do_alloc g (BRec drec))) z1 = znd g z1) by
        (intros z1 H1; unfold znd; rewrite grec_alloc_old; [reflexivity|apply isrec_lt; apply (holder_priv_notin g ls z1 IB H1)]);
      destruct (nh_views2 g (fst (do_alloc g (BRec drec))) ls t _ ll IA IB IC Hl eq_refl eq_refl eq_refl HZ
                  (fun k Hk => v_cs _ _ _ SV k Hk (ltac:(discriminate)))) as (En & Pn & Ehp);
      apply (stepK_alloc_rec g ls t IB IK _ ll Hl eq_refl eq_refl (ltac:(intros; discriminate)));
      [ intros o1 k1 E1; rewrite Ehp; exact E1 | intros k1 E1; rewrite Ehp; exact E1 | exact En ]
    end).
  all: try (
    match goal with |- InvK (fst (do_alloc ?g (BRec drec))) (upd _ _ ?ll) =>
      match ll with {| prog := _; at_ := E_constr _ _ _ _; hnd := _; its := _ |} => idtac end;
      destruct (h_views g (fst (do_alloc g (BRec drec))) ls t _ ll IA Hl eq_refl eq_refl) as (Hp1 & Hp2 & Hm);
      apply (stepK_alloc_rec g ls t IB IK _ ll Hl eq_refl eq_refl (ltac:(intros; discriminate)));
      [ intros o1 k1 E1; rewrite Hp1 in E1; discriminate
      | intros k1 E1; rewrite Hp1 in E1; discriminate
      | unfold enode; rewrite Hp1, Hp2; reflexivity ]
    end).
  (* pushes *)
  all: try (match goal with |- InvK (with_zlog _ _) (upd _ _ ?ll) => apply (stepK_rpush g ls t IA IK _ ll z Hl eq_refl (priv_rec_body o) eq_refl) end).
  all: try (apply (stepK_epush g ls t IA IB IK pr it nx0 z old _ its0 Hl)).
  (* node allocation / construction *)
  all: try (apply (stepK_P_alloc g ls t IA IB IK pr o _ its0 _ _ Hl)).
  all: try (apply (stepK_P_constr g ls t IA IB IK pr o n _ _ its0 Hl)).
  (* publication and unlink *)
  all: try (
    match goal with |- InvK ?gg (upd _ _ ?ll) =>
      apply (stepK_holder g ls t IA IK gg _ ll Hl eq_refl); try reflexivity;
      try (intros; discriminate)
    end;
    [ intros k1 [H1|[H1|H1]]; cbn [at_ pnode priv_node erasing_node] in *;
      first [ discriminate
            | (inversion H1; subst; left; cbn; first [left; reflexivity | apply in_or_app; right; left; reflexivity])
            | (left; cbn; first [right; exact H1 | apply in_or_app; left; exact H1]) ] ]).
  (* the same through a node field write *)
  all: try (
    match goal with |- InvK (commit (setn ?g ?kk ?nn) ?mm) (upd _ _ ?ll) =>
      assert (Hio : isnode g kk = true) by (apply (wtarget_isnode g ls t _ _ IA Hl); reflexivity);
      apply (stepK_holder g ls t IA IK (commit (setn g kk nn) mm) _ ll Hl eq_refl);
      [ apply wmtx_setn
      | intros k1; change (isnode (commit (setn g kk nn) mm) k1) with (isnode (setn g kk nn) k1); apply isnode_setn; exact Hio
      | intros k1; change (cs_of (commit (setn g kk nn) mm) k1) with (cs_of (setn g kk nn) k1); apply cs_of_setn
      | intros k1; change (isrec (commit (setn g kk nn) mm) k1) with (isrec (setn g kk nn) k1); apply isrec_setn; exact Hio
      | change (zlog (commit (setn g kk nn) mm)) with (zlog (setn g kk nn)); apply modc_fields
      | intros z1; change (grec (commit (setn g kk nn) mm) z1) with (grec (setn g kk nn) z1); apply grec_setn; exact Hio
      | intros; discriminate | reflexivity
      | change (lst (commit (setn g kk nn) mm)) with (apply_m (lst (setn g kk nn)) mm);
        replace (lst (setn g kk nn)) with (lst g) by (symmetry; apply modc_fields) ]
    end).
  all: try (
    match goal with |- InvK (commit (with_head ?g ?hh) ?mm) (upd _ _ ?ll) =>
      apply (stepK_holder g ls t IA IK (commit (with_head g hh) mm) _ ll Hl eq_refl); try reflexivity; try (intros; discriminate);
      change (lst (commit (with_head g hh) mm)) with (apply_m (lst g) mm)
    end).
  all: try (intros k1 [H1|[H1|H1]]; cbn [at_ pnode priv_node erasing_node apply_m] in *;
            first [ discriminate
                  | (inversion H1; subst; left; apply in_or_app; right; left; reflexivity)
                  | (left; apply in_or_app; left; exact H1)
                  | (destruct (Nat.eq_dec k1 c0) as [->|Hkc]; [right; right; reflexivity|left; apply remove_nat_In; auto]) ]).
  (* the reclaimer: node destroyed, node deallocated, record deallocated *)
  all: try (
    match goal with |- InvK (fst (do_destroy ?g ?dd)) (upd _ _ ?ll) =>
      unfold thrB in Tt; cbn [at_] in Tt; destruct Tt as (_ & _ & Ed); symmetry in Ed;
      pose proof (dd_constr g ls t _ n dd IA IB IC Hl eq_refl) as Hcd;
      destruct (destroy_fields g dd) as (F1 & F2 & F3 & F4 & F5 & F6 & F7 & F8 & F9 & F10 & F11 & F12);
      apply (stepK_nodecs g ls t IA IB IC IK (fst (do_destroy g dd)) _ ll n dd Constr Destr Hl eq_refl Ed Hcd);
      [ rewrite cs_of_destroy, Nat.eqb_refl, Hcd; reflexivity | discriminate | discriminate | reflexivity | discriminate
      | intros k1 Hk1; rewrite cs_of_destroy; destruct (Nat.eqb_spec k1 dd); [contradiction|reflexivity]
      | intros k1; apply isnode_destroy | intros k1; apply isrec_destroy | exact F11 | exact F10 | intros z1; apply grec_destroy | exact F4
      | reflexivity | reflexivity | reflexivity ]
    end).
  all: try (
    match goal with |- InvK (fst (do_dealloc ?g ?dd)) (upd _ _ {| prog := _; at_ := U_ln _; hnd := _; its := _ |}) =>
      unfold thrB in Tt; cbn [at_] in Tt; destruct Tt as (_ & _ & Ed); symmetry in Ed;
      unfold thrC in Tc; cbn [at_] in Tc;
      destruct (dealloc_fields g dd) as (F1 & F2 & F3 & F4 & F5 & F6 & F7 & F8 & F9 & F10 & F11 & F12);
      apply (stepK_nodecs g ls t IA IB IC IK (fst (do_dealloc g dd)) _ {| prog := pr; at_ := U_ln n; hnd := Some (w0, Some z0); its := its0 |} n dd Destr Freed Hl eq_refl Ed Tc);
      [ rewrite cs_of_dealloc, Nat.eqb_refl, Tc; reflexivity | discriminate | discriminate | discriminate | reflexivity
      | intros k1 Hk1; rewrite cs_of_dealloc; destruct (Nat.eqb_spec k1 dd); [contradiction|reflexivity]
      | intros k1; apply isnode_dealloc | intros k1; apply isrec_dealloc | exact F11 | exact F10 | intros z1; apply grec_dealloc | exact F4
      | reflexivity | reflexivity | reflexivity ]
    end).
  all: try (apply (stepK_zf g ls t IA IB IC IK pr n _ _ its0 _ Hl);
            [ first [apply priv_rec_reclaim | reflexivity] | first [apply holds_reclaim | reflexivity]
            | intros z1 d1; first [apply reclaim_at_not_df | discriminate] ]).
  all: try (unfold enode; rewrite Hp1, Hp2; cbn [at_ erasing_node]; unfold thrB in Tt; cbn [at_] in Tt;
            destruct Tt as (_ & _ & _ & Ez & _); unfold znd in *;
            rewrite ?grec_setn by (apply (wtarget_isnode g ls t _ _ IA Hl); reflexivity); exact Ez).
Qed.

(* ---------- ~rcu_list ---------- *)
(* g' is g with the cells in S destroyed and deallocated, nothing else touched *)
Record freed_upto (g g' : glob) (S : list nat) : Prop := {
  fu_fault : fault g' = fault g; fu_unf : unfixed g' = unfixed g;
  fu_zhead : zhead g' = zhead g; fu_zlog : zlog g' = zlog g; fu_lst : lst g' = lst g; fu_n : nheap g' = nheap g;
  fu_in : forall k, In k S -> cs_of g' k = Some Freed;
  fu_out : forall k, ~ In k S -> cs_of g' k = cs_of g k;
  fu_gnode : forall k, gnode g' k = gnode g k; fu_grec : forall k, grec g' k = grec g k;
  fu_isnode : forall k, isnode g' k = isnode g k; fu_isrec : forall k, isrec g' k = isrec g k;
  fu_led : fault g = false -> ledger_ok g -> ledger_ok g'
}.
Lemma fu_refl g : freed_upto g g [].
Proof. constructor; auto; intros k []. Qed.
Lemma fu_trans g g1 g2 S1 S2 : freed_upto g g1 S1 -> freed_upto g1 g2 S2 -> freed_upto g g2 (S1 ++ S2).
Proof.
  intros [A B C D E F G0 H0 I0 J K L M] [A' B' C' D' E' F' G' H' I' J' K' L' M']. constructor; try congruence.
  - intros k Hk. destruct (in_dec Nat.eq_dec k S2) as [H2|H2]; [apply G'; exact H2|].
    rewrite (H' k H2). apply G0. apply in_app_or in Hk. tauto.
  - intros k Hk. rewrite H', H0; auto; intros H; apply Hk; apply in_or_app; auto.
  - intros Hf HL. apply M'; [congruence|apply M; auto].
Qed.
(* destroy + deallocate of one constructed cell *)
Lemma fu_one g k : cs_of g k = Some Constr ->
  freed_upto g (fst (do_dealloc (fst (do_destroy g k)) k)) [k].
Proof.
  intros H. set (g1 := fst (do_destroy g k)). set (g2 := fst (do_dealloc g1 k)).
  destruct (destroy_fields g k) as (F1 & F2 & F3 & F4 & F5 & F6 & F7 & F8 & F9 & F10 & F11 & F12). fold g1 in F1, F2, F3, F4, F5, F6, F7, F8, F9, F10, F11, F12.
  destruct (dealloc_fields g1 k) as (E1 & E2 & E3 & E4 & E5 & E6 & E7 & E8 & E9 & E10 & E11 & E12). fold g2 in E1, E2, E3, E4, E5, E6, E7, E8, E9, E10, E11, E12.
  assert (C1 : cs_of g1 k = Some Destr) by (unfold g1; rewrite cs_of_destroy, Nat.eqb_refl, H; reflexivity).
  assert (Hk1 : cs_is g k Constr = true) by (apply cs_is_iff; exact H).
  assert (Hk2 : cs_is g1 k Destr = true) by (apply cs_is_iff; exact C1).
  constructor; try congruence.
  - rewrite E12, F12, Hk1, Hk2. cbn. rewrite !orb_false_r. reflexivity.
  - destruct (same_but_dealloc g1 k) as [N1 _]. destruct (same_but_destroy g k) as [N2 _]. fold g1 in N2. fold g2 in N1. congruence.
  - intros j [<-|[]]. unfold g2. rewrite cs_of_dealloc, Nat.eqb_refl, C1. reflexivity.
  - intros j Hj. assert (j <> k) as Hjk by (intros ->; apply Hj; left; reflexivity).
    unfold g2. rewrite cs_of_dealloc. destruct (Nat.eqb_spec j k); [contradiction|]. unfold g1. rewrite cs_of_destroy. destruct (Nat.eqb_spec j k); [contradiction|reflexivity].
  - intros j. unfold g2. rewrite gnode_dealloc. apply gnode_destroy.
  - intros j. unfold g2. rewrite grec_dealloc. apply grec_destroy.
  - intros j. unfold g2. rewrite isnode_dealloc. apply isnode_destroy.
  - intros j. unfold g2. rewrite isrec_dealloc. apply isrec_destroy.
  - intros Hf HL.
    assert (fault g1 = false) as Hf1 by (rewrite F12, Hk1, Hf; reflexivity).
    assert (fault g2 = false) as Hf2 by (rewrite E12, Hk2, Hf1; reflexivity).
    apply ledger_dealloc; auto. apply ledger_destroy; auto.
Qed.

Lemma okn_fu g g' S k : freed_upto g g' S -> ~ In k S -> okn g' k = okn g k.
Proof.
  intros F Hk. apply eq_true_iff_eq. rewrite !okn_iff, (fu_out _ _ _ F k Hk), (fu_isnode _ _ _ F). reflexivity.
Qed.
Lemma okz_fu g g' S k : freed_upto g g' S -> ~ In k S -> okz g' k = okz g k.
Proof.
  intros F Hk. apply eq_true_iff_eq. rewrite !okz_iff, (fu_out _ _ _ F k Hk), (fu_isrec _ _ _ F). reflexivity.
Qed.

Lemma dl_nodes_spec l : forall fuel g, chn g l None -> NoDup l -> (forall k, In k l -> okn g k = true) -> length l < fuel ->
  freed_upto g (fst (dl_nodes fuel g (hd_opt l))) l.
Proof.
  induction l as [|a r IH]; intros fuel g Hc ND Hok Hf.
  - destruct fuel; cbn; apply fu_refl.
  - destruct fuel as [|f]; [cbn in Hf; lia|]. cbn [hd_opt hd_or dl_nodes].
    rewrite (Hok a (or_introl eq_refl)). cbn [acc_line].
    destruct (do_destroy g a) as [g1 e1] eqn:E1. destruct (do_dealloc g1 a) as [g2 e2] eqn:E2.
    destruct (dl_nodes f g2 (nnext (gnode g a))) as [g3 l3] eqn:E3. cbn [fst].
    assert (Hca : cs_of g a = Some Constr) by (apply okn_iff; apply Hok; left; reflexivity).
    pose proof (fu_one g a Hca) as F1. rewrite E1 in F1. cbn [fst] in F1. rewrite E2 in F1. cbn [fst] in F1.
    cbn [chn] in Hc. destruct Hc as [Hn Hc]. apply NoDup_cons_iff in ND. destruct ND as [Ha ND].
    assert (nnext (gnode g a) = hd_opt r) as En by exact Hn.
    specialize (IH f g2). rewrite <- En in IH. rewrite E3 in IH. cbn [fst] in IH.
    change (a :: r) with ([a] ++ r). apply (fu_trans g g2 g3 [a] r F1). apply IH.
    + eapply chn_ext; [|exact Hc]. intros k _. unfold nx. rewrite (fu_gnode _ _ _ F1). reflexivity.
    + exact ND.
    + intros k Hk. rewrite (okn_fu g g2 [a] k F1); [apply Hok; right; exact Hk|]. intros [<-|[]]. auto.
    + cbn in Hf. lia.
Qed.

Fixpoint rchn (g : glob) (ch : list nat) : Prop :=
  match ch with [] => True | a :: r => znx g a = hd_opt r /\ rchn g r end.
Definition dset (g : glob) (ch : list nat) : list nat := flat_map (fun z => o2l (znd g z) ++ [z]) ch.

Lemma dset_ext g g' ch : (forall z, grec g' z = grec g z) -> dset g' ch = dset g ch.
Proof. intros H. unfold dset, znd. induction ch as [|a r IH]; cbn; [reflexivity|]. rewrite H, IH. reflexivity. Qed.
Lemma rchn_ext g g' ch : (forall z, grec g' z = grec g z) -> rchn g ch -> rchn g' ch.
Proof. intros H. induction ch as [|a r IH]; cbn; [auto|]. unfold znx. rewrite H. tauto. Qed.
Lemma dset_In g ch k : In k (dset g ch) <-> In k ch \/ exists z, In z ch /\ znd g z = Some k.
Proof.
  unfold dset. rewrite in_flat_map. split.
  - intros (z & Hz & Hk). apply in_app_or in Hk. destruct Hk as [Hk|[<-|[]]]; [|left; exact Hz].
    right. exists z. split; [exact Hz|]. destruct (znd g z); cbn in Hk; [destruct Hk as [<-|[]]; reflexivity|destruct Hk].
  - intros [Hk|(z & Hz & E)]; [exists k; split; [exact Hk|apply in_or_app; right; left; reflexivity]|].
    exists z. split; [exact Hz|]. apply in_or_app. left. rewrite E. left. reflexivity.
Qed.


Lemma NoDup_app_parts {A} (a b : list A) : NoDup (a ++ b) -> NoDup a /\ NoDup b /\ forall x, In x a -> ~ In x b.
Proof.
  induction a as [|x r IH]; cbn; intros H.
  - repeat split; auto. constructor.
  - apply NoDup_cons_iff in H. destruct H as [Hx H]. destruct (IH H) as (A1 & A2 & A3). repeat split; auto.
    + constructor; [intros Hi; apply Hx; apply in_or_app; auto|exact A1].
    + intros y [<-|Hy] Hb; [apply Hx; apply in_or_app; auto|apply (A3 y Hy Hb)].
Qed.

Lemma dl_recs_spec ch : forall fuel g, rchn g ch -> NoDup (dset g ch) ->
  (forall z, In z ch -> okz g z = true /\ zown g z = None) ->
  (forall z d, In z ch -> znd g z = Some d -> okn g d = true) ->
  unfixed g = false -> length ch < fuel ->
  freed_upto g (fst (dl_recs fuel g (hd_opt ch))) (dset g ch).
Proof.
  induction ch as [|a r IH]; intros fuel g Hc ND Hz Hd Hu Hf.
  - destruct fuel; cbn; apply fu_refl.
  - destruct fuel as [|f]; [cbn in Hf; lia|]. cbn [hd_opt hd_or dl_recs].
    destruct (Hz a (or_introl eq_refl)) as [Oa Wa]. rewrite Oa. cbn [acc_line]. unfold zown in Wa. rewrite Wa.
    cbn [rchn] in Hc. destruct Hc as [Hn Hc]. unfold znx in Hn.
    assert (Hca : cs_of g a = Some Constr) by (apply okz_iff; exact Oa).
    assert (Hds : dset g (a :: r) = (o2l (znd g a) ++ [a]) ++ dset g r) by reflexivity.
    rewrite Hds in *. destruct (NoDup_app_parts _ _ ND) as (ND1 & ND2 & ND3).
    assert (Tail : forall g4, freed_upto g g4 (o2l (znd g a) ++ [a]) ->
                   freed_upto g (fst (dl_recs f g4 (znext (grec g a)))) ((o2l (znd g a) ++ [a]) ++ dset g r)).
    { intros g4 F4. assert (EG : forall z, grec g4 z = grec g z) by (apply (fu_grec _ _ _ F4)).
      apply (fu_trans g g4 _ _ _ F4). rewrite <- (dset_ext g g4 r EG). rewrite Hn. apply IH.
      - apply (rchn_ext g g4 r EG Hc).
      - rewrite (dset_ext g g4 r EG). exact ND2.
      - intros z Hzr. destruct (Hz z (or_intror Hzr)) as [A B]. unfold zown. rewrite EG. split; [|exact B].
        rewrite (okz_fu g g4 _ z F4); [exact A|]. intros Hi. apply (ND3 z Hi). apply dset_In. left. exact Hzr.
      - intros z d Hzr Hzd. unfold znd in Hzd. rewrite EG in Hzd. rewrite (okn_fu g g4 _ d F4); [apply (Hd z d (or_intror Hzr) Hzd)|].
        intros Hi. apply (ND3 d Hi). apply dset_In. right. exists z. auto.
      - rewrite (fu_unf _ _ _ F4). exact Hu.
      - cbn in Hf. lia. }
    unfold znd in *. destruct (znode (grec g a)) as [d|] eqn:Ed.
    + assert (okn g d = true) as Od by (apply (Hd a d (or_introl eq_refl)); exact Ed).
      assert (cs_of g d = Some Constr) as Cd by (apply okn_iff; exact Od).
      pose proof (fu_one g d Cd) as F. destruct (do_destroy g d) as [ga ea]. cbn [fst] in F. destruct (do_dealloc ga d) as [gb eb]. cbn [fst] in F.
      assert (d <> a) as Hda. { intros ->. cbn in ND1. apply NoDup_cons_iff in ND1. apply (proj1 ND1). left. reflexivity. }
      assert (cs_of gb a = Some Constr) as Ca2 by (rewrite (fu_out _ _ _ F a); [exact Hca|intros [E|[]]; auto]).
      pose proof (fu_one gb a Ca2) as F3. destruct (do_destroy gb a) as [g3 e3]. cbn [fst] in F3. destruct (do_dealloc g3 a) as [g4 e4]. cbn [fst] in F3.
      pose proof (fu_trans g gb g4 _ _ F F3) as F4. cbn [o2l app] in *.
      specialize (Tail g4 F4). destruct (dl_recs f g4 (znext (grec g a))) as [g5 l5]. cbn [fst] in *. exact Tail.
    + rewrite Hu. pose proof (fu_one g a Hca) as F3. destruct (do_destroy g a) as [g3 e3]. cbn [fst] in F3. destruct (do_dealloc g3 a) as [g4 e4]. cbn [fst] in F3.
      cbn [o2l app] in *. specialize (Tail g4 F3). destruct (dl_recs f g4 (znext (grec g a))) as [g5 l5]. cbn [fst] in *. exact Tail.
Qed.

Lemma stamp_app_notin l1 l z : ~ In z l1 -> stamp (l1 ++ l) z = stamp l z.
Proof.
  induction l1 as [|x r IH]; cbn; intros H; [reflexivity|]. destruct (Nat.eqb_spec x z) as [->|]; [exfalso; auto|apply IH; tauto].
Qed.
Lemma stamp_after l1 a l2 c : NoDup (l1 ++ a :: l2) -> In c l2 -> stamp (l1 ++ a :: l2) c < stamp (l1 ++ a :: l2) a.
Proof.
  intros ND Hc. destruct (NoDup_mid _ _ _ ND) as (A1 & A2 & ND').
  assert (~ In c l1) as Hc1.
  { intros H. destruct (NoDup_app_parts _ _ ND') as (_ & _ & N3). apply (N3 c H Hc). }
  rewrite !stamp_app_notin by auto. cbn. rewrite Nat.eqb_refl. destruct (Nat.eqb_spec a c) as [->|]; [contradiction|].
  pose proof (stamp_le l2 c). lia.
Qed.
Lemma stamp_lt_after l1 a l2 c : NoDup (l1 ++ a :: l2) -> In c (l1 ++ a :: l2) ->
  stamp (l1 ++ a :: l2) c < stamp (l1 ++ a :: l2) a -> In c l2.
Proof.
  intros ND Hc Hlt. apply in_app_or in Hc. destruct Hc as [Hc|[->|Hc]]; [exfalso|lia|exact Hc].
  (* c before a: then a is after c, so stamp a < stamp c *)
  destruct (in_split _ _ Hc) as (p1 & p2 & E). subst l1. rewrite <- app_assoc in *. cbn [app] in *.
  assert (In a (p2 ++ a :: l2)) as Ha by (apply in_or_app; right; left; reflexivity).
  pose proof (stamp_after p1 c (p2 ++ a :: l2) a ND Ha). lia.
Qed.

Definition liveb (g : glob) (z : nat) : bool := match cs_of g z with Some Freed => false | _ => true end.
Lemma liveb_inlog g z : In z (zlog g) -> (liveb g z = true <-> inlog g z).
Proof. intros H. unfold liveb, inlog. destruct (cs_of g z) as [[]|]; split; intros; try tauto; try discriminate; split; auto; discriminate. Qed.

Lemma rchn_filter g : NoDup (zlog g) -> (forall a, inlog g a -> link_ok g a) ->
  forall r pre, zlog g = pre ++ r -> rchn g (filter (liveb g) r).
Proof.
  intros ND HL. induction r as [|a r IH]; intros pre E; [exact I|].
  assert (E' : zlog g = (pre ++ [a]) ++ r) by (rewrite <- app_assoc; exact E).
  specialize (IH (pre ++ [a]) E'). cbn [filter]. destruct (liveb g a) eqn:La; [|exact IH]. cbn [rchn]. split; [|exact IH].
  assert (Ha : In a (zlog g)) by (rewrite E; apply in_or_app; right; left; reflexivity).
  pose proof (HL a (proj1 (liveb_inlog g a Ha) La)) as L. unfold link_ok in L.
  assert (Hr : forall c, In c r -> In c (zlog g) /\ zsq g c < zsq g a).
  { intros c Hc. split; [rewrite E; apply in_or_app; right; right; exact Hc|]. unfold zsq. rewrite E. apply stamp_after; [rewrite <- E; exact ND|exact Hc]. }
  destruct (znx g a) as [b|] eqn:Eb.
  - destruct L as (Lb & Llt & Lbt).
    assert (In b r) as Hbr.
    { apply (stamp_lt_after pre a r b); [rewrite <- E; exact ND|rewrite <- E; apply (inlog_In _ _ Lb)|unfold zsq in Llt; rewrite E in Llt; exact Llt]. }
    assert (In b (filter (liveb g) r)) as Hbf by (apply filter_In; split; [exact Hbr|apply (liveb_inlog g b (inlog_In _ _ Lb)); exact Lb]).
    destruct (filter (liveb g) r) as [|b0 fr] eqn:Ef; [destruct Hbf|]. cbn. f_equal.
    destruct (Nat.eq_dec b b0) as [|Hne]; [assumption|exfalso].
    assert (In b0 (filter (liveb g) r)) as Hb0 by (rewrite Ef; left; reflexivity).
    apply filter_In in Hb0. destruct Hb0 as [Hb0r Hb0l]. destruct (Hr b0 Hb0r) as [Hb0z Hb0lt].
    (* b0 is before b in r, so zsq b < zsq b0 < zsq a *)
    destruct Hbf as [Hbf|Hbf]; [congruence|].
    assert (In b fr) as Hbfr by exact Hbf.
    (* split r at b0 *)
    destruct (in_split _ _ Hb0r) as (r1 & r2 & Er).
    assert (In b r2) as Hb2.
    { assert (In b (filter (liveb g) r1 ++ b0 :: filter (liveb g) r2)) as Hx.
      { rewrite Er in Ef. rewrite filter_app in Ef. cbn [filter] in Ef. rewrite Hb0l in Ef.
        assert (filter (liveb g) r1 = []) as E1.
        { destruct (filter (liveb g) r1) as [|y ys] eqn:Ey; [reflexivity|]. cbn in Ef. inversion Ef. subst y.
          (* b0 in r1 and at the split point: contradicts NoDup *)
          assert (In b0 r1) as Hy by (assert (In b0 (filter (liveb g) r1)) as Hq by (rewrite Ey; left; reflexivity); apply filter_In in Hq; tauto).
          exfalso. assert (NoDup r) as NDr by (rewrite E in ND; apply NoDup_app_parts in ND; destruct ND as (_ & N2 & _); apply NoDup_cons_iff in N2; tauto).
          rewrite Er in NDr. apply NoDup_remove_2 in NDr. apply NDr. apply in_or_app. left. exact Hy. }
        rewrite E1 in Ef |- *. cbn in Ef |- *. inversion Ef. right. rewrite H0. exact Hbfr. }
      apply in_app_or in Hx. destruct Hx as [Hx|[Hx|Hx]]; [|congruence|apply filter_In in Hx; tauto].
      exfalso. rewrite Er in Ef. rewrite filter_app in Ef. destruct (filter (liveb g) r1) as [|y ys] eqn:Ey; [destruct Hx|].
      cbn in Ef. inversion Ef. subst y.
      assert (In b0 r1) as Hy by (assert (In b0 (filter (liveb g) r1)) as Hq by (rewrite Ey; left; reflexivity); apply filter_In in Hq; tauto).
      assert (NoDup r) as NDr by (rewrite E in ND; apply NoDup_app_parts in ND; destruct ND as (_ & N2 & _); apply NoDup_cons_iff in N2; tauto).
      rewrite Er in NDr. apply NoDup_remove_2 in NDr. apply NDr. apply in_or_app. left. exact Hy. }
    assert (zsq g b < zsq g b0) as Hbb0.
    { unfold zsq. rewrite E, Er. replace (pre ++ a :: r1 ++ b0 :: r2) with ((pre ++ a :: r1) ++ b0 :: r2) by (rewrite <- app_assoc; reflexivity).
      apply stamp_after; [|exact Hb2]. rewrite <- app_assoc. cbn. rewrite <- Er, <- E. exact ND. }
    apply (Lbt b0); [apply (liveb_inlog g b0 Hb0z); exact Hb0l|lia].
  - destruct (filter (liveb g) r) as [|b0 fr] eqn:Ef; [reflexivity|exfalso].
    assert (In b0 (filter (liveb g) r)) as Hb0 by (rewrite Ef; left; reflexivity).
    apply filter_In in Hb0. destruct Hb0 as [Hb0r Hb0l]. destruct (Hr b0 Hb0r) as [Hb0z Hb0lt].
    apply (L b0); [apply (liveb_inlog g b0 Hb0z); exact Hb0l|exact Hb0lt].
Qed.

Lemma R_InvK unf progs s : R unf progs s -> InvK (gl s) (thr s).
Proof.
  intros H.
  assert (Inv3 (gl s) (thr s) /\ InvK (gl s) (thr s)) as [_ K]; [|exact K].
  eapply (reachable_inv glob loc tstep (fun g ls => Inv3 g ls /\ InvK g ls)); [| |exact H].
  - intros g ls t c l g' l' es HH Hl Hs. destruct HH as [I3 IK]. split; [eapply Inv3_step; eauto|eapply InvK_step; eauto].
  - split; [split; [apply InvA_init|split; [apply InvB_init|apply InvC_init]]|].
    constructor.
    + intros k Hk. unfold isnode, getc in Hk. cbn in Hk. destruct k; discriminate.
    + intros k Hk. unfold isnode, getc in Hk. cbn in Hk. destruct k; discriminate.
    + intros k Hk. unfold isnode, getc in Hk. cbn in Hk. destruct k; discriminate.
    + intros z Hz. unfold isrec, getc in Hz. cbn in Hz. destruct z; discriminate.
Qed.

(* all threads have finished and every handle has been released *)
Definition quiet (s : sysR) : Prop := all_fin glob loc fin s = true /\ forall l, In l (thr s) -> hnd l = None.

Section Quiet.
  Variable s : sysR.
  Let g := gl s. Let ls := thr s.
  Hypothesis I3 : Inv3 g ls.
  Hypothesis IK : InvK g ls.
  Hypothesis Hu : unfixed g = false.
  Hypothesis Q : quiet s.

  Lemma q_loc u : at_ (locof ls u) = Idle /\ hnd (locof ls u) = None.
  Proof.
    unfold locof. destruct (nth_error ls u) as [l|] eqn:E; [|split; reflexivity].
    destruct Q as [Qf Qh]. pose proof (nth_error_In _ _ E) as Hi. split; [|apply Qh; exact Hi].
    unfold all_fin in Qf. rewrite forallb_forall in Qf. specialize (Qf l Hi). unfold fin in Qf. destruct (at_ l); try discriminate. reflexivity.
  Qed.
  Lemma q_pc u : pcof ls u = Idle.
  Proof. apply q_loc. Qed.
  Lemma q_hpc : hpc g ls = Idle.
  Proof. unfold hpc. destruct (wmtx g); [apply q_pc|reflexivity]. Qed.
  Lemma q_unowned z : inlog g z -> zown g z = None.
  Proof.
    intros Hz. destruct I3 as (IA & IB & IC). destruct (zown g z) as [gd|] eqn:E; [|reflexivity].
    destruct (b_own2 _ _ IB z gd Hz E) as (u & w & _ & H). rewrite (proj2 (q_loc u)) in H. discriminate.
  Qed.
  Lemma q_link a : inlog g a -> link_ok g a.
  Proof.
    intros Ha. destruct I3 as (IA & IB & IC). apply (b_link _ _ IB a Ha). intros (u & w & H & _). rewrite (proj2 (q_loc u)) in H. discriminate.
  Qed.
  Lemma q_rec_constr z : inlog g z -> okz g z = true.
  Proof.
    intros [A B]. destruct I3 as (IA & IB & IC). apply okz_iff. split; [|apply (b_rec _ _ IB z A)].
    destruct (b_cs _ _ IB z A) as [C|[C|(C & u & nxt & D)]]; [exact C|congruence|]. rewrite q_pc in D. discriminate.
  Qed.
  Lemma q_node_of z d : inlog g z -> znd g z = Some d -> okn g d = true /\ ~ In d (lst g).
  Proof.
    intros Hz Hd. destruct I3 as (IA & IB & IC). destruct (c_recn _ _ IC z d (inlog_In _ _ Hz) Hd) as (A & B & C).
    split; [|exact C]. apply okn_iff. split; [|exact A]. apply (c_pend _ _ IC z d Hz Hd). intros u. rewrite q_pc. reflexivity.
  Qed.
End Quiet.

Lemma NoDup_dset g ch : NoDup ch ->
  (forall z z' d, In z ch -> In z' ch -> znd g z = Some d -> znd g z' = Some d -> z = z') ->
  (forall z d, In z ch -> znd g z = Some d -> ~ In d ch) ->
  NoDup (dset g ch).
Proof.
  induction ch as [|a r IH]; intros ND Hu Hn; [constructor|].
  apply NoDup_cons_iff in ND. destruct ND as [Ha ND].
  assert (NoDup (dset g r)) as NDr.
  { apply IH; auto.
    - intros z z' d Hz Hz'. apply Hu; right; auto.
    - intros z d Hz Hd Hi. apply (Hn z d (or_intror Hz) Hd). right. exact Hi. }
  change (dset g (a :: r)) with ((o2l (znd g a) ++ [a]) ++ dset g r).
  assert (Hna : ~ In a (dset g r)).
  { intros Hi. apply dset_In in Hi. destruct Hi as [Hi|(z & Hz & Hd)]; [auto|]. apply (Hn z a (or_intror Hz) Hd). left. reflexivity. }
  destruct (znd g a) as [d|] eqn:Ed; cbn [o2l app].
  - assert (d <> a) as Hda by (intros ->; apply (Hn a a (or_introl eq_refl) Ed); left; reflexivity).
    assert (~ In d (dset g r)) as Hnd.
    { intros Hi. apply dset_In in Hi. destruct Hi as [Hi|(z & Hz & Hd)].
      - apply (Hn a d (or_introl eq_refl) Ed). right. exact Hi.
      - assert (a = z) by (apply (Hu a z d (or_introl eq_refl) (or_intror Hz) Ed Hd)). subst z. auto. }
    constructor; [intros [E|Hi]; [auto|auto]|]. constructor; auto.
  - constructor; auto.
Qed.

Lemma filter_len_le {A} (f : A -> bool) l : length (filter f l) <= length l.
Proof. induction l as [|a r IH]; cbn; [lia|]. destruct (f a); cbn; lia. Qed.
Lemma hd_filter_top g : forall l h, hd_opt l = Some h -> liveb g h = true -> hd_opt (filter (liveb g) l) = Some h.
Proof. intros l h E L. destruct l as [|x r]; [discriminate|]. cbn in E. inversion E; subst x. cbn. rewrite L. reflexivity. Qed.

Theorem destroy_all (s : sysR) :
  Inv3 (gl s) (thr s) -> InvK (gl s) (thr s) -> InvR (gl s) (thr s) -> unfixed (gl s) = false -> fault (gl s) = false -> quiet s ->
  let g' := fst (destroy_list (gl s)) in
  fault g' = false /\ (ledger_ok (gl s) -> ledger_ok g') /\ forall k c, getc g' k = Some c -> cs c = Freed.
Proof.
  intros I3 IK IR Hu Hf Q.
  pose proof (q_hpc s Q) as Qh. pose proof (q_pc s Q) as Qp. pose proof (q_unowned s I3 Q) as Qu. pose proof (q_link s I3 Q) as Ql.
  pose proof (q_rec_constr s I3 Q) as Qr. pose proof (q_node_of s I3 Q) as Qn.
  set (g := gl s) in *. set (ls := thr s) in *.
  pose proof I3 as (IA & IB & IC). pose proof (a_gs _ _ IA) as G. rewrite Qh in G.
  unfold destroy_list. set (fuel := S (length (heap g))).
  (* phase 1: the nodes of the list *)
  assert (F1 : freed_upto g (fst (dl_nodes fuel g (head g))) (lst g)).
  { destruct (gs_fwd _ _ G) as [Hh Hc]. rewrite Hh. apply dl_nodes_spec; auto.
    - apply (gs_nodup _ _ G).
    - intros k Hk. apply (lst_okn g ls k IA IC Hk).
    - assert (length (lst g) <= nheap g) by (apply NoDup_length_le; [apply (gs_nodup _ _ G)|intros k Hk; apply (lst_lt g _ k G Hk)]).
      unfold fuel, nheap in *. lia. }
  destruct (dl_nodes fuel g (head g)) as [g1 l1]. cbn [fst] in F1.
  (* phase 2: the log *)
  set (ch := filter (liveb g) (zlog g)).
  assert (Hch : forall z, In z ch <-> inlog g z).
  { intros z. unfold ch. rewrite filter_In. split; [intros [A B]; apply (liveb_inlog g z A); exact B|intros H; split; [apply (inlog_In _ _ H)|apply (liveb_inlog g z (inlog_In _ _ H)); exact H]]. }
  assert (EG : forall z, grec g1 z = grec g z) by (apply (fu_grec _ _ _ F1)).
  assert (Hrl : forall z, In z ch -> ~ In z (lst g)).
  { intros z Hz Hl. apply Hch in Hz. pose proof (b_rec _ _ IB z (inlog_In _ _ Hz)) as R. pose proof (gs_nodes _ _ G z Hl) as N. rewrite (isnode_isrec _ _ N) in R. discriminate. }
  assert (Ehd : zhead g1 = hd_opt ch).
  { rewrite (fu_zhead _ _ _ F1). pose proof (b_head _ _ IB) as Eh. destruct (zhead g) as [h|] eqn:Ez.
    - symmetry. apply hd_filter_top; [symmetry; exact Eh|]. unfold liveb. rewrite (b_top _ _ IB h Ez). reflexivity.
    - unfold ch. destruct (zlog g); [reflexivity|discriminate]. }
  assert (F2 : freed_upto g1 (fst (dl_recs fuel g1 (zhead g1))) (dset g1 ch)).
  { rewrite Ehd. apply dl_recs_spec.
    - apply (rchn_ext g g1 ch EG). apply (rchn_filter g (b_nodup _ _ IB) Ql (zlog g) []). reflexivity.
    - rewrite (dset_ext g g1 ch EG). apply NoDup_dset.
      + apply NoDup_filter. apply (b_nodup _ _ IB).
      + intros z z' d Hz Hz'. apply Hch in Hz. apply Hch in Hz'. apply (c_uniq _ _ IC z z' d (inlog_In _ _ Hz) (inlog_In _ _ Hz')).
      + intros z d Hz Hd Hi. apply Hch in Hz. apply Hch in Hi.
        pose proof (b_node _ _ IB z d (inlog_In _ _ Hz) Hd) as N. pose proof (b_rec _ _ IB d (inlog_In _ _ Hi)) as R. rewrite (isnode_isrec _ _ N) in R. discriminate.
    - intros z Hz. unfold zown. rewrite EG. split; [|apply (Qu z); apply Hch; exact Hz].
      rewrite (okz_fu g g1 _ z F1 (Hrl z Hz)). apply (Qr z). apply Hch. exact Hz.
    - intros z d Hz Hd. unfold znd in Hd. rewrite EG in Hd. apply Hch in Hz. destruct (Qn z d Hz Hd) as [A B].
      rewrite (okn_fu g g1 _ d F1 B). exact A.
    - rewrite (fu_unf _ _ _ F1). exact Hu.
    - assert (length ch <= length (zlog g)) by (unfold ch; apply filter_len_le).
      assert (length (zlog g) <= nheap g) by (apply NoDup_length_le; [apply (b_nodup _ _ IB)|intros k Hk; apply (zlog_lt g ls k IB Hk)]).
      unfold fuel, nheap in *. lia. }
  destruct (dl_recs fuel g1 (zhead g1)) as [g2 l2]. cbn [fst] in *.
  rewrite (dset_ext g g1 ch EG) in F2.
  split; [rewrite (fu_fault _ _ _ F2), (fu_fault _ _ _ F1); exact Hf|].
  split; [intros HL; apply (fu_led _ _ _ F2); [rewrite (fu_fault _ _ _ F1); exact Hf|apply (fu_led _ _ _ F1); auto]|].
  intros k c Hc.
  assert (cs_of g2 k = Some Freed) as Hfr; [|unfold cs_of in Hfr; rewrite Hc in Hfr; cbn in Hfr; congruence].
  assert (k < nheap g) as Hk by (rewrite <- (fu_n _ _ _ F1), <- (fu_n _ _ _ F2); eapply getc_lt; eauto).
  destruct (in_dec Nat.eq_dec k (dset g ch)) as [Hd|Hd]; [apply (fu_in _ _ _ F2 k Hd)|].
  rewrite (fu_out _ _ _ F2 k Hd).
  destruct (in_dec Nat.eq_dec k (lst g)) as [Hl|Hl]; [apply (fu_in _ _ _ F1 k Hl)|].
  rewrite (fu_out _ _ _ F1 k Hl).
  (* k is neither in the list nor on the live log nor a node of a live record: it was freed before *)
  destruct (getc g k) as [[st [nb|rb|] a1 a2 a3]|] eqn:Eg; [| | |apply getc_ge in Eg || (exfalso; apply nth_error_None in Eg; unfold nheap in Hk; lia)].
  - assert (isnode g k = true) as Hn by (unfold isnode; rewrite Eg; reflexivity).
    assert (cs_of g k = Some st) as Hs by (unfold cs_of; rewrite Eg; reflexivity). rewrite Hs. destruct st; [| | |reflexivity]; exfalso.
    + destruct (k_alloc _ _ IK k Hn Hs) as [o E]. rewrite Qh in E. discriminate.
    + destruct (k_constr _ _ IK k Hn Hs) as [E|[E|[E|(z & Z1 & Z2)]]]; [auto|rewrite Qh in E; discriminate|unfold enode in E; rewrite Qh in E; discriminate|].
      apply Hd. apply dset_In. right. exists z. split; [apply Hch; exact Z1|exact Z2].
    + destruct (k_destr _ _ IK k Hn Hs) as (u & z & E). rewrite (Qp u) in E. discriminate.
  - assert (isrec g k = true) as Hr by (unfold isrec; rewrite Eg; reflexivity).
    assert (cs_of g k = Some st) as Hs by (unfold cs_of; rewrite Eg; reflexivity). rewrite Hs.
    destruct (k_rec _ _ IK k Hr) as [Hz|(u & E)]; [|rewrite (Qp u) in E; discriminate].
    destruct st; [| | |reflexivity]; exfalso; apply Hd; apply dset_In; left; apply Hch; split; auto; rewrite Hs; discriminate.
  - (* raw storage of a push whose constructor threw: freed by its catch block before the thread finished *)
    assert (cs_of g k = Some st) as Hs by (unfold cs_of; rewrite Eg; reflexivity). rewrite Hs.
    assert (Hst : rawst g k = match st with Alloc => 1 | Freed => 2 | _ => 3 end).
    { unfold rawst, rawsth. change (nth_error (heap g) k) with (getc g k). rewrite Eg. destruct st; reflexivity. }
    destruct st; [| | |reflexivity]; exfalso.
    + destruct (r_own _ _ IR k Hst) as (u & l & Hu' & Hn). pose proof (Qp u) as E. unfold pcof, locof in E. fold ls in Hu'. rewrite Hu' in E. rewrite E in Hn. discriminate.
    + apply (r_no3 _ _ IR k Hst).
    + apply (r_no3 _ _ IR k Hst).
Qed.

(* C13, no leak: after every thread has finished and every handle has been released, ~rcu_list frees
   everything that is still allocated, without a fault *)
Theorem exactly_once progs s : R false progs s -> quiet s ->
  let g' := fst (destroy_list (gl s)) in
  fault g' = false /\
  forall k c, getc g' k = Some c ->
    cs c = Freed /\ nfr c = 1 /\ (if israwc c then nct c = 0 /\ ndt c = 0 else nct c = 1 /\ ndt c = 1).
Proof.
  intros HR Q. destruct (R_Inv4x _ _ HR) as ((I3 & Hu & Hf) & IR).
  destruct (destroy_all s I3 (R_InvK _ _ _ HR) IR Hu Hf Q) as (A & B & C). split; [exact A|].
  intros k c Hc. pose proof (C k c Hc) as E. split; [exact E|].
  pose proof (B (R_ledger _ _ HR) k c Hc) as L. unfold cell_ok in L. rewrite E in L. exact L.
Qed.
