(* C13, no leak: every constructed cell is accounted for (InvK), so that ~rcu_list, run after all
   handles are released and all threads have finished, leaves every cell deallocated. *)
From Coq Require Import List Arith ZArith Lia Bool.
Import ListNotations.
From GV Require Import Sched Events RcuModel RcuBase RcuListProofs RcuLogProofs RcuSafetyProofs.
Local Open Scope nat_scope.

Record InvK (g : glob) (ls : list loc) : Prop := {
  k_alloc : forall k, isnode g k = true -> cs_of g k = Some Alloc -> exists o, hpc g ls = P_constr o k;
  k_constr : forall k, isnode g k = true -> cs_of g k = Some Constr ->
             In k (lst g) \/ pnode (hpc g ls) = Some k \/ enode g ls = Some k \/ exists z, inlog g z /\ znd g z = Some k;
  k_destr : forall k, isnode g k = true -> cs_of g k = Some Destr -> exists u z, pcof ls u = U_df z (Some k);
  k_rec : forall z, isrec g z = true -> In z (zlog g) \/ exists u, priv_rec (pcof ls u) = Some z
}.

Lemma InvK_frame g g' ls t l l' :
  InvK g ls -> nth_error ls t = Some l ->
  (forall k, isnode g' k = true -> isnode g k = true /\ cs_of g' k = cs_of g k) ->
  lst g' = lst g -> (forall z, In z (zlog g) -> In z (zlog g')) ->
  (forall z, In z (zlog g) -> (inlog g z -> inlog g' z) /\ znd g' z = znd g z) ->
  (forall o k, hpc g ls = P_constr o k -> hpc g' (upd ls t l') = P_constr o k) ->
  (forall k, pnode (hpc g ls) = Some k -> pnode (hpc g' (upd ls t l')) = Some k) ->
  (forall k, enode g ls = Some k -> enode g' (upd ls t l') = Some k) ->
  (forall z d, at_ l = U_df z (Some d) -> at_ l' = U_df z (Some d)) ->
  (forall z, isrec g' z = true -> isrec g z = true \/ priv_rec (at_ l') = Some z) ->
  (forall z, priv_rec (at_ l) = Some z -> priv_rec (at_ l') = Some z \/ In z (zlog g')) ->
  InvK g' (upd ls t l').
Proof.
  intros [K1 K2 K3 K4] Hl Hn EL EZ Hz Hpc Hpn Hen Hdf Hr Hp.
  assert (EZ' : True) by exact I.
  assert (Hpcs : forall u, pcof (upd ls t l') u = if Nat.eqb u t then at_ l' else pcof ls u) by (intros u; apply (pcof_upd _ _ _ _ _ Hl)).
  constructor.
  - intros k Hk Hc. destruct (Hn k Hk) as [A B]. rewrite B in Hc. destruct (K1 k A Hc) as [o E]. exists o. apply Hpc. exact E.
  - intros k Hk Hc. destruct (Hn k Hk) as [A B]. rewrite B in Hc. rewrite EL.
    destruct (K2 k A Hc) as [E|[E|[E|(z & Z1 & Z2)]]]; auto.
    right. right. right. exists z. destruct (Hz z (inlog_In _ _ Z1)) as [P Q]. rewrite Q. auto.
  - intros k Hk Hc. destruct (Hn k Hk) as [A B]. rewrite B in Hc. destruct (K3 k A Hc) as (u & z & E). exists u, z.
    rewrite Hpcs. destruct (Nat.eqb_spec u t) as [->|]; [|exact E]. apply Hdf. rewrite <- (pcof_at _ _ _ Hl). exact E.
  - intros z Hzr. destruct (Hr z Hzr) as [A|A].
    + destruct (K4 z A) as [B|(u & B)]; [left; apply EZ; exact B|].
      destruct (Nat.eq_dec u t) as [->|Hu].
      * rewrite (pcof_at _ _ _ Hl) in B. destruct (Hp z B) as [C|C]; [right; exists t; rewrite Hpcs, Nat.eqb_refl; exact C|left; exact C].
      * right. exists u. rewrite Hpcs. destruct (Nat.eqb_spec u t); [contradiction|exact B].
    + right. exists t. rewrite Hpcs, Nat.eqb_refl. exact A.
Qed.

(* ---------- node cells keep their kind and ledger state / record cells are accounted for ---------- *)
Definition nodes_same (g g' : glob) : Prop :=
  forall k, isnode g' k = true -> isnode g k = true /\ cs_of g' k = cs_of g k.
Definition recs_old (g g' : glob) : Prop := forall z, isrec g' z = true -> isrec g z = true.

Lemma ns_heap g g' : heap g' = heap g -> nodes_same g g' /\ recs_old g g'.
Proof.
  intros H. assert (forall k, getc g' k = getc g k) as G by (intros k; unfold getc; rewrite H; reflexivity).
  split; intros k; unfold isnode, isrec, cs_of; rewrite G; auto.
Qed.
Lemma ns_wrap g x y : nodes_same g x /\ recs_old g x -> heap y = heap x -> nodes_same g y /\ recs_old g y.
Proof.
  intros [A B] H. destruct (ns_heap x y H) as [A' B']. split.
  - intros k Hk. destruct (A' k Hk) as [P Q]. destruct (A k P) as [P' Q']. split; [exact P'|congruence].
  - intros z Hz. apply B, B'. exact Hz.
Qed.
Lemma ns_setn g k n : isnode g k = true -> nodes_same g (setn g k n) /\ recs_old g (setn g k n).
Proof.
  intros H. split.
  - intros j. rewrite isnode_setn, cs_of_setn by exact H. auto.
  - intros j. rewrite isrec_setn by exact H. auto.
Qed.
Lemma ns_setz g z r : isrec g z = true -> nodes_same g (setz g z r) /\ recs_old g (setz g z r).
Proof.
  intros H. split.
  - intros j. rewrite isnode_setz, cs_of_setz by exact H. auto.
  - intros j. rewrite isrec_setz by exact H. auto.
Qed.
Lemma ns_construct_rec g z r : isrec g z = true -> nodes_same g (fst (do_construct g z (BRec r))) /\ recs_old g (fst (do_construct g z (BRec r))).
Proof.
  intros H. split.
  - intros j. rewrite isnode_construct_rec, cs_of_construct by exact H. intros Hj. split; [exact Hj|].
    destruct (Nat.eqb_spec j z) as [->|]; [|reflexivity]. rewrite (isrec_isnode _ _ H) in Hj. discriminate.
  - intros j. rewrite isrec_construct_rec by exact H. auto.
Qed.
Lemma ns_destroy_rec g n : isrec g n = true -> nodes_same g (fst (do_destroy g n)) /\ recs_old g (fst (do_destroy g n)).
Proof.
  intros H. split.
  - intros j. rewrite isnode_destroy, cs_of_destroy. intros Hj. split; [exact Hj|].
    destruct (Nat.eqb_spec j n) as [->|]; [|reflexivity]. rewrite (isrec_isnode _ _ H) in Hj. discriminate.
  - intros j. rewrite isrec_destroy. auto.
Qed.
Lemma ns_dealloc_rec g n : isrec g n = true -> nodes_same g (fst (do_dealloc g n)) /\ recs_old g (fst (do_dealloc g n)).
Proof.
  intros H. split.
  - intros j. rewrite isnode_dealloc, cs_of_dealloc. intros Hj. split; [exact Hj|].
    destruct (Nat.eqb_spec j n) as [->|]; [|reflexivity]. rewrite (isrec_isnode _ _ H) in Hj. discriminate.
  - intros j. rewrite isrec_dealloc. auto.
Qed.
Lemma ns_alloc_rec g r : nodes_same g (fst (do_alloc g (BRec r))) /\
  (forall z, isrec (fst (do_alloc g (BRec r))) z = true -> isrec g z = true \/ z = nheap g).
Proof.
  split.
  - intros j. rewrite isnode_alloc, cs_of_alloc. destruct (Nat.eqb_spec j (nheap g)); [discriminate|auto].
  - intros z. rewrite isrec_alloc. destruct (Nat.eqb_spec z (nheap g)); auto.
Qed.

Lemma InvK_frame2 g g' ls t l l' x :
  InvK g ls -> nth_error ls t = Some l -> sameV g g' x -> nodes_same g g' ->
  (forall z, isrec g' z = true -> isrec g z = true \/ priv_rec (at_ l') = Some z) ->
  (forall o k, hpc g ls = P_constr o k -> hpc g' (upd ls t l') = P_constr o k) ->
  (forall k, pnode (hpc g ls) = Some k -> pnode (hpc g' (upd ls t l')) = Some k) ->
  enode g' (upd ls t l') = enode g ls ->
  (forall z d, at_ l = U_df z (Some d) -> at_ l' = U_df z (Some d)) ->
  (forall z, priv_rec (at_ l) = Some z -> priv_rec (at_ l') = Some z \/ In z (zlog g')) ->
  InvK g' (upd ls t l').
Proof.
  intros IK Hl SV NS HR H1 H2 H3 H4 H5.
  apply (InvK_frame g g' ls t l l' IK Hl NS (v_lst _ _ _ SV)); auto.
  - intros z Hz. rewrite (v_zlog _ _ _ SV). exact Hz.
  - intros z Hz. destruct (v_rec _ _ _ SV z Hz) as (A & B & _). split; [apply A|exact B].
  - intros k Hk. rewrite H3. exact Hk.
Qed.

(* ---------- the steps that move the accounting ---------- *)
Section StepK.
  Variables (g : glob) (ls : list loc) (t : nat).
  Hypothesis IA : InvA g ls.
  Hypothesis IB : InvB g ls.
  Hypothesis IC : InvC g ls.
  Hypothesis IK : InvK g ls.

  Lemma pcs_upd l l' u : nth_error ls t = Some l -> pcof (upd ls t l') u = if Nat.eqb u t then at_ l' else pcof ls u.
  Proof. intros Hl. apply (pcof_upd _ _ _ _ _ Hl). Qed.

  Lemma stepK_alloc_rec l l' : nth_error ls t = Some l ->
    priv_rec (at_ l') = Some (nheap g) -> priv_rec (at_ l) = None -> (forall z d, at_ l <> U_df z (Some d)) ->
    let g' := fst (do_alloc g (BRec drec)) in
    (forall o k, hpc g ls = P_constr o k -> hpc g' (upd ls t l') = P_constr o k) ->
    (forall k, pnode (hpc g ls) = Some k -> pnode (hpc g' (upd ls t l')) = Some k) ->
    enode g' (upd ls t l') = enode g ls ->
    InvK g' (upd ls t l').
  Proof.
    intros Hl Hp' Hp Hdf g' E1 E2 E3.
    assert (SV : sameV g g' None).
    { apply sameV_alloc; [intros z Hz; apply (zlog_lt g ls z IB Hz)|right; eexists; reflexivity]. }
    destruct (ns_alloc_rec g drec) as [NS HR]. fold g' in NS, HR.
    apply (InvK_frame2 g g' ls t l l' None IK Hl SV NS); auto.
    - intros z Hz. destruct (HR z Hz) as [A| ->]; [left; exact A|right; exact Hp'].
    - intros z d E. exfalso. apply (Hdf z d E).
    - intros z E. congruence.
  Qed.

  Lemma stepK_rpush l l' z : nth_error ls t = Some l ->
    priv_rec (at_ l) = Some z -> priv_rec (at_ l') = None -> holds (at_ l) = false ->
    let g' := with_zlog (with_zhead g (Some z)) (z :: zlog g) in
    InvK g' (upd ls t l').
  Proof.
    intros Hl Hp Hp' Hh g'. destruct (ns_heap g g' eq_refl) as [NS RO].
    assert (Ehp : hpc g' (upd ls t l') = hpc g ls) by (apply (hpc_other g g' ls t l l' IA Hl Hh eq_refl)).
    apply (InvK_frame g g' ls t l l' IK Hl NS); auto.
    - intros x Hx. right. exact Hx.
    - intros x Hx. split; [|reflexivity]. unfold inlog. intros [A B]. split; [right; exact A|exact B].
    - intros o k E. rewrite Ehp. exact E.
    - intros k E. rewrite Ehp. exact E.
    - intros k E. unfold enode in *. rewrite Ehp. exact E.
    - intros x d E. rewrite E in Hp. discriminate.
    - intros x E. rewrite Hp in E. inversion E; subst x. right. left. reflexivity.
  Qed.

  Lemma stepK_epush pr it nx0 z old h its0 : nth_error ls t = Some (Loc pr (E_cas it nx0 z old) h its0) ->
    let g' := with_zlog (with_zhead g (Some z)) (z :: zlog g) in
    InvK g' (upd ls t (Loc pr (E_unlock it nx0) h its0)).
  Proof.
    intros Hl g'. set (l := Loc pr (E_cas it nx0 z old) h its0) in *. set (l' := Loc pr (E_unlock it nx0) h its0).
    destruct (h_views g g' ls t l l' IA Hl eq_refl eq_refl) as (Hp1 & Hp2 & Hm).
    pose proof (b_thr _ _ IB t l Hl) as T. unfold thrB in T. cbn [at_ l] in T. destruct T as ([Q1 Q2] & Q3 & Q4 & Q5 & (k1 & Q6 & Q7)).
    destruct IK as [K1 K2 K3 K4].
    assert (Il : forall x, inlog g x -> inlog g' x) by (intros x [A B]; split; [right; exact A|exact B]).
    constructor.
    - intros k Hk Hc. destruct (K1 k Hk Hc) as [o E]. rewrite Hp1 in E. discriminate.
    - intros k Hk Hc. destruct (K2 k Hk Hc) as [E|[E|[E|(x & X1 & X2)]]].
      + left. exact E.
      + rewrite Hp1 in E. discriminate.
      + right. right. right. exists z. unfold enode in E. rewrite Hp1 in E. cbn in E. split; [split; [left; reflexivity|change (cs_of g' z) with (cs_of g z); congruence]|exact E].
      + right. right. right. exists x. split; [apply Il; exact X1|exact X2].
    - intros k Hk Hc. destruct (K3 k Hk Hc) as (u & x & E). exists u, x. rewrite (pcs_upd l l' u Hl).
      destruct (Nat.eqb_spec u t) as [->|]; [rewrite (pcof_at _ _ _ Hl) in E; discriminate|exact E].
    - intros x Hx. destruct (K4 x Hx) as [A|(u & A)]; [left; right; exact A|].
      destruct (Nat.eq_dec u t) as [->|Hu].
      + rewrite (pcof_at _ _ _ Hl) in A. cbn in A. inversion A; subst x. left. left. reflexivity.
      + right. exists u. rewrite (pcs_upd l l' u Hl). destruct (Nat.eqb_spec u t); [contradiction|exact A].
  Qed.
End StepK.

Section StepK2.
  Variables (g : glob) (ls : list loc) (t : nat).
  Hypothesis IA : InvA g ls.
  Hypothesis IB : InvB g ls.
  Hypothesis IC : InvC g ls.
  Hypothesis IK : InvK g ls.

  (* generic: only the accounting of node cells moves; record cells and other threads' pcs are untouched *)
  Lemma InvK_nodes g' l l' :
    nth_error ls t = Some l ->
    (forall z, isrec g' z = true -> isrec g z = true) -> zlog g' = zlog g ->
    priv_rec (at_ l) = None -> priv_rec (at_ l') = None ->
    (forall k, isnode g' k = true -> cs_of g' k = Some Alloc -> exists o, hpc g' (upd ls t l') = P_constr o k) ->
    (forall k, isnode g' k = true -> cs_of g' k = Some Constr ->
       In k (lst g') \/ pnode (hpc g' (upd ls t l')) = Some k \/ enode g' (upd ls t l') = Some k \/ exists z, inlog g' z /\ znd g' z = Some k) ->
    (forall k, isnode g' k = true -> cs_of g' k = Some Destr -> exists u z, pcof (upd ls t l') u = U_df z (Some k)) ->
    InvK g' (upd ls t l').
  Proof.
    intros Hl Hr EZ Hp Hp' H1 H2 H3. constructor; auto.
    intros z Hz. rewrite EZ. destruct (k_rec _ _ IK z (Hr z Hz)) as [A|(u & A)]; [left; exact A|right].
    exists u. rewrite (pcs_upd ls t l l' u Hl). destruct (Nat.eqb_spec u t) as [->|]; [|exact A].
    rewrite (pcof_at _ _ _ Hl) in A. congruence.
  Qed.

  Lemma stepK_P_alloc pr o h its0 lo' hi' : nth_error ls t = Some (Loc pr (P_alloc o) h its0) ->
    let g' := with_pos (fst (do_alloc g (BNode dnode))) lo' hi' in
    InvK g' (upd ls t (Loc pr (P_constr o (nheap g)) h its0)).
  Proof.
    intros Hl g'. set (l := Loc pr (P_alloc o) h its0) in *. set (l' := Loc pr (P_constr o (nheap g)) h its0).
    destruct (h_views g g' ls t l l' IA Hl eq_refl eq_refl) as (Hp1 & Hp2 & Hm).
    assert (EI : forall k, isnode g' k = if Nat.eqb k (nheap g) then true else isnode g k).
    { intros k. change (isnode g' k) with (isnode (fst (do_alloc g (BNode dnode))) k). apply isnode_alloc. }
    assert (EC : forall k, cs_of g' k = if Nat.eqb k (nheap g) then Some Alloc else cs_of g k).
    { intros k. change (cs_of g' k) with (cs_of (fst (do_alloc g (BNode dnode))) k). apply cs_of_alloc. }
    apply (InvK_nodes g' l l' Hl); try reflexivity.
    - intros z. change (isrec g' z) with (isrec (fst (do_alloc g (BNode dnode))) z). rewrite isrec_alloc.
      destruct (Nat.eqb z (nheap g)); [discriminate|auto].
    - intros k Hk Hc. rewrite EI in Hk. rewrite EC in Hc. rewrite Hp2. destruct (Nat.eqb_spec k (nheap g)) as [Ek|]; [try subst k; exists o; reflexivity|].
      destruct (k_alloc _ _ IK k Hk Hc) as [o' E]. rewrite Hp1 in E. discriminate.
    - intros k Hk Hc. rewrite EI in Hk. rewrite EC in Hc. destruct (Nat.eqb_spec k (nheap g)) as [Ek|]; [try subst k; discriminate|].
      destruct (k_constr _ _ IK k Hk Hc) as [E|[E|[E|(z & Z1 & Z2)]]]; [left; exact E|rewrite Hp1 in E; discriminate|unfold enode in E; rewrite Hp1 in E; discriminate|].
      right. right. right. exists z. split; [|unfold znd; change (grec g' z) with (grec (fst (do_alloc g (BNode dnode))) z); rewrite grec_alloc_node; exact Z2].
      destruct Z1 as [A B]. split; [exact A|].
      rewrite EC. destruct (Nat.eqb_spec z (nheap g)) as [Ek|]; [|exact B]. subst z. pose proof (zlog_lt g ls _ IB A). lia.
    - intros k Hk Hc. rewrite EI in Hk. rewrite EC in Hc. destruct (Nat.eqb_spec k (nheap g)) as [Ek|]; [try subst k; discriminate|].
      destruct (k_destr _ _ IK k Hk Hc) as (u & z & E). exists u, z. rewrite (pcs_upd ls t l l' u Hl).
      destruct (Nat.eqb_spec u t) as [->|]; [rewrite (pcof_at _ _ _ Hl) in E; discriminate|exact E].
  Qed.

  Lemma stepK_P_constr pr o n v h its0 : nth_error ls t = Some (Loc pr (P_constr o n) h its0) ->
    let g' := fst (do_construct g n (BNode v)) in
    InvK g' (upd ls t (Loc pr (P_ld o n) h its0)).
  Proof.
    intros Hl g'. set (l := Loc pr (P_constr o n) h its0) in *. set (l' := Loc pr (P_ld o n) h its0).
    destruct (h_views g g' ls t l l' IA Hl eq_refl (wmtx_construct g n (BNode v))) as (Hp1 & Hp2 & Hm).
    pose proof (gs_hold _ _ (a_gs _ _ IA)) as H. rewrite Hp1 in H. cbn [at_ l hold_ok] in H. destruct H as (Ha & _ & Hi & _).
    assert (EI : forall k, isnode g' k = isnode g k) by (intros k; apply isnode_construct_node; exact Hi).
    assert (EC : forall k, cs_of g' k = if Nat.eqb k n then Some Constr else cs_of g k).
    { intros k. unfold g'. rewrite cs_of_construct. destruct (Nat.eqb k n); [rewrite Ha|]; reflexivity. }
    destruct (construct_fields g n (BNode v)) as (F1 & F2 & F3 & F4 & F5 & F6 & F7 & F8 & F9 & F10 & F11 & F12). fold g' in F10, F11.
    apply (InvK_nodes g' l l' Hl); try reflexivity; auto.
    - intros z. unfold g'. rewrite isrec_construct_node by exact Hi. auto.
    - intros k Hk Hc. rewrite EI in Hk. rewrite EC in Hc. destruct (Nat.eqb_spec k n) as [->|Hkn]; [discriminate|].
      destruct (k_alloc _ _ IK k Hk Hc) as [o' E]. rewrite Hp1 in E. cbn in E. inversion E. congruence.
    - intros k Hk Hc. rewrite EI in Hk. rewrite EC in Hc. rewrite Hp2, F10. destruct (Nat.eqb_spec k n) as [->|Hkn]; [right; left; reflexivity|].
      destruct (k_constr _ _ IK k Hk Hc) as [E|[E|[E|(z & Z1 & Z2)]]]; [left; exact E|rewrite Hp1 in E; discriminate|unfold enode in E; rewrite Hp1 in E; discriminate|].
      right. right. right. exists z. assert (z <> n) as Hzn.
      { intros ->. pose proof (b_rec _ _ IB n (inlog_In _ _ Z1)) as R. rewrite (isnode_isrec _ _ Hi) in R. discriminate. }
      split.
      + destruct Z1 as [A B]. split; [rewrite F11; exact A|rewrite EC; destruct (Nat.eqb_spec z n); [contradiction|exact B]].
      + unfold znd, g'. rewrite grec_construct_node by exact Hi. exact Z2.
    - intros k Hk Hc. rewrite EI in Hk. rewrite EC in Hc. destruct (Nat.eqb_spec k n) as [->|]; [discriminate|].
      destruct (k_destr _ _ IK k Hk Hc) as (u & z & E). exists u, z. rewrite (pcs_upd ls t l l' u Hl).
      destruct (Nat.eqb_spec u t) as [->|]; [rewrite (pcof_at _ _ _ Hl) in E; discriminate|exact E].
  Qed.
End StepK2.

Section StepK3.
  Variables (g : glob) (ls : list loc) (t : nat).
  Hypothesis IA : InvA g ls.
  Hypothesis IB : InvB g ls.
  Hypothesis IC : InvC g ls.
  Hypothesis IK : InvK g ls.

  (* a step of the mutex holder that moves a node between "private", "in the list" and "being erased" *)
  Lemma stepK_holder g' l l' : nth_error ls t = Some l -> holds (at_ l) = true -> wmtx g' = wmtx g ->
    (forall k, isnode g' k = isnode g k) -> (forall k, cs_of g' k = cs_of g k) -> (forall k, isrec g' k = isrec g k) ->
    zlog g' = zlog g -> (forall z, grec g' z = grec g z) ->
    (forall o k, at_ l <> P_constr o k) -> priv_rec (at_ l) = None -> priv_rec (at_ l') = None ->
    (forall k, In k (lst g) \/ pnode (at_ l) = Some k \/ erasing_node g (at_ l) = Some k ->
               In k (lst g') \/ pnode (at_ l') = Some k \/ erasing_node g' (at_ l') = Some k) ->
    InvK g' (upd ls t l').
  Proof.
    intros Hl Hh Hm EI EC ER EZ EG Hnc Hp Hp' Hacc.
    destruct (h_views g g' ls t l l' IA Hl Hh Hm) as (Hp1 & Hp2 & Hmt).
    apply (InvK_nodes g ls t IK g' l l' Hl); auto.
    - intros z. rewrite ER. auto.
    - intros k Hk Hc. rewrite EI in Hk. rewrite EC in Hc. destruct (k_alloc _ _ IK k Hk Hc) as [o E]. rewrite Hp1 in E. exfalso. apply (Hnc o k E).
    - intros k Hk Hc. rewrite EI in Hk. rewrite EC in Hc. rewrite Hp2. unfold enode. rewrite Hp2.
      destruct (k_constr _ _ IK k Hk Hc) as [E|[E|[E|(z & Z1 & Z2)]]].
      + destruct (Hacc k (or_introl E)) as [A|[A|A]]; auto.
      + rewrite Hp1 in E. destruct (Hacc k (or_intror (or_introl E))) as [A|[A|A]]; auto.
      + unfold enode in E. rewrite Hp1 in E. destruct (Hacc k (or_intror (or_intror E))) as [A|[A|A]]; auto.
      + right. right. right. exists z. unfold inlog, znd in *. rewrite EZ, EC, EG. auto.
    - intros k Hk Hc. rewrite EI in Hk. rewrite EC in Hc. destruct (k_destr _ _ IK k Hk Hc) as (u & z & E). exists u, z.
      rewrite (pcs_upd ls t l l' u Hl). destruct (Nat.eqb_spec u t) as [Eu|]; [|exact E]. subst u. rewrite (pcof_at _ _ _ Hl) in E.
      rewrite E in Hh. discriminate.
  Qed.

  (* the reclaimer destroys / deallocates a node: d leaves the class Constr, resp. Destr *)
  Lemma stepK_nodecs g' l l' n d s1 s2 : nth_error ls t = Some l -> region_pc (at_ l) = Some n -> znd g n = Some d ->
    cs_of g d = Some s1 -> cs_of g' d = Some s2 -> s2 <> Constr -> s2 <> Alloc ->
    (s2 = Destr -> at_ l' = U_df n (Some d)) -> (s1 = Destr -> at_ l = U_df n (Some d)) ->
    (forall k, k <> d -> cs_of g' k = cs_of g k) ->
    (forall k, isnode g' k = isnode g k) -> (forall k, isrec g' k = isrec g k) ->
    zlog g' = zlog g -> lst g' = lst g -> (forall z, grec g' z = grec g z) -> wmtx g' = wmtx g ->
    priv_rec (at_ l) = None -> priv_rec (at_ l') = None -> holds (at_ l') = false ->
    InvK g' (upd ls t l').
  Proof.
    intros Hl Hrn Hd Hs1 Hs2 Hn1 Hn2 Hdf Hdf0 EC EI ER EZ EL EG Hm Hp Hp' Hh'.
    assert (Hh : holds (at_ l) = false) by (destruct (at_ l); try discriminate; reflexivity).
    pose proof (hpc_other g g' ls t l l' IA Hl Hh Hm) as Ehp.
    pose proof (region_of g t l n (b_thr _ _ IB t l Hl) Hrn) as (Rn & _).
    destruct (c_recn _ _ IC n d (inlog_In _ _ Rn) Hd) as (D1 & D2 & D3).
    assert (Hdz : ~ In d (zlog g)) by (intros A; pose proof (b_rec _ _ IB d A) as B; rewrite (isnode_isrec _ _ D1) in B; discriminate).
    apply (InvK_nodes g ls t IK g' l l' Hl); auto.
    - intros z. rewrite ER. auto.
    - intros k Hk Hc. rewrite EI in Hk. assert (k <> d) as Hkd by (intros ->; congruence). rewrite (EC k Hkd) in Hc.
      destruct (k_alloc _ _ IK k Hk Hc) as [o E]. exists o. rewrite Ehp. exact E.
    - intros k Hk Hc. rewrite EI in Hk. assert (k <> d) as Hkd by (intros ->; congruence). rewrite (EC k Hkd) in Hc.
      rewrite EL, Ehp. unfold enode. rewrite Ehp.
      assert (erasing_node g' (hpc g ls) = erasing_node g (hpc g ls)) as Een.
      { unfold erasing_node, znd. destruct (hpc g ls); auto; rewrite EG; reflexivity. }
      rewrite Een. destruct (k_constr _ _ IK k Hk Hc) as [E|[E|[E|(z & Z1 & Z2)]]]; auto.
      right. right. right. exists z. unfold inlog, znd in *. rewrite EZ, EG. split; [|exact Z2]. destruct Z1 as [A B]. split; [exact A|].
      rewrite EC; [exact B|]. intros ->. auto.
    - intros k Hk Hc. rewrite EI in Hk. destruct (Nat.eq_dec k d) as [->|Hkd].
      + assert (s2 = Destr) by congruence. exists t, n. rewrite (pcs_upd ls t l l' t Hl), Nat.eqb_refl. auto.
      + rewrite (EC k Hkd) in Hc. destruct (k_destr _ _ IK k Hk Hc) as (u & z & E). exists u, z. rewrite (pcs_upd ls t l l' u Hl).
        destruct (Nat.eqb_spec u t) as [Eu|]; [|exact E]. subst u. rewrite (pcof_at _ _ _ Hl) in E. exfalso.
        rewrite E in Hrn. cbn in Hrn. inversion Hrn; subst z.
        (* t was at U_df n (Some k): then k = znd n = d *)
        pose proof (b_thr _ _ IB t l Hl) as T. unfold thrB in T. rewrite E in T. destruct T as (_ & _ & Ed). congruence.
  Qed.
End StepK3.

Section StepK4.
  Variables (g : glob) (ls : list loc) (t : nat).
  Hypothesis IA : InvA g ls.
  Hypothesis IB : InvB g ls.
  Hypothesis IC : InvC g ls.
  Hypothesis IK : InvK g ls.

  Lemma stepK_zf pr n nxt h its0 p' : nth_error ls t = Some (Loc pr (U_zf n nxt) h its0) ->
    priv_rec p' = None -> holds p' = false -> (forall z d, p' <> U_df z (Some d)) ->
    InvK (fst (do_dealloc g n)) (upd ls t (Loc pr p' h its0)).
  Proof.
    intros Hl Hp' Hh' Hndf. set (l := Loc pr (U_zf n nxt) h its0) in *. set (l' := Loc pr p' h its0). set (g' := fst (do_dealloc g n)).
    pose proof (b_thr _ _ IB t l Hl) as T. unfold thrB in T. cbn [at_ l] in T. destruct T as ((Rn & _) & Cs & _).
    pose proof (c_thr _ _ IC t l Hl) as Tc. unfold thrC in Tc. cbn [at_ l] in Tc.
    assert (Hnr : isrec g n = true) by (apply (b_rec _ _ IB n (inlog_In _ _ Rn))).
    destruct (dealloc_fields g n) as (F1 & F2 & F3 & F4 & F5 & F6 & F7 & F8 & F9 & F10 & F11 & F12). fold g' in F4, F10, F11.
    pose proof (hpc_other g g' ls t l l' IA Hl eq_refl F4) as Ehp.
    assert (EI : forall k, isnode g' k = isnode g k) by (intros k; apply isnode_dealloc).
    assert (ECn : forall k, isnode g k = true -> cs_of g' k = cs_of g k).
    { intros k Hk. unfold g'. rewrite cs_of_dealloc. destruct (Nat.eqb_spec k n) as [Ek|]; [|reflexivity]. subst k. rewrite (isrec_isnode _ _ Hnr) in Hk. discriminate. }
    assert (EG : forall z, grec g' z = grec g z) by (intros z; apply grec_dealloc).
    assert (Een : erasing_node g' (hpc g ls) = erasing_node g (hpc g ls)).
    { unfold erasing_node, znd. destruct (hpc g ls); auto; rewrite EG; reflexivity. }
    apply (InvK_nodes g ls t IK g' l l' Hl); auto.
    - intros z. unfold g'. rewrite isrec_dealloc. auto.
    - intros k Hk Hc. rewrite EI in Hk. rewrite (ECn k Hk) in Hc. destruct (k_alloc _ _ IK k Hk Hc) as [o E]. exists o. rewrite Ehp. exact E.
    - intros k Hk Hc. rewrite EI in Hk. rewrite (ECn k Hk) in Hc. rewrite F10, Ehp. unfold enode. rewrite Ehp, Een.
      destruct (k_constr _ _ IK k Hk Hc) as [E|[E|[E|(z & Z1 & Z2)]]]; auto.
      right. right. right. exists z. unfold znd. rewrite EG. split; [|exact Z2].
      destruct (Nat.eq_dec z n) as [Ez|Hzn].
      + exfalso. subst z. rewrite (Tc k Z2) in Hc. discriminate.
      + destruct Z1 as [A B]. split; [rewrite F11; exact A|]. unfold g'. rewrite cs_of_dealloc. destruct (Nat.eqb_spec z n); [contradiction|exact B].
    - intros k Hk Hc. rewrite EI in Hk. rewrite (ECn k Hk) in Hc. destruct (k_destr _ _ IK k Hk Hc) as (u & z & E). exists u, z.
      rewrite (pcs_upd ls t l l' u Hl). destruct (Nat.eqb_spec u t) as [Eu|]; [|exact E]. subst u. rewrite (pcof_at _ _ _ Hl) in E. discriminate.
  Qed.
End StepK4.

Lemma reclaim_at_not_df g m z d : reclaim_at g m <> U_df z (Some d).
Proof. unfold reclaim_at. destruct (znode (grec g m)); [discriminate|destruct (unfixed g); discriminate]. Qed.
