(* RcuList, C12: what a traversal sees.
   [nstep]: what one step of any thread can do to the published nodes - their positions are fixed,
   a next pointer changes only by (a) push_back giving the last element its successor or (b) erase
   making the predecessor of the erased node skip it, and the erased node keeps its own next pointer.
   From this: a traversal (begin() loads m_head, ++ loads the next field of the current node, any
   number of steps of any threads in between) visits published nodes in strictly increasing list
   position, every node it visits was pushed, and it cannot reach end() without visiting every
   element that stayed in the list for the whole traversal ([no_skip]). *)
From Coq Require Import List Arith ZArith Lia Bool Sorted.
Import ListNotations.
From GV Require Import Sched Events RcuModel RcuBase RcuListProofs.
Local Open Scope Z_scope.

Definition pushed (ml : list mop) (k : nat) : Prop := In (MPushF k) ml \/ In (MPushB k) ml.

Record nstep (g g' : glob) : Prop := {
  ns_pub : forall a, pubn g a -> pubn g' a;
  ns_ps : forall a, pubn g a -> ps g' a = ps g a;
  ns_edge : forall a b, pubn g a -> nx g a = Some b -> nx g' a = Some b \/ (~ In b (lst g') /\ nx g' a = nx g' b);
  ns_mlog : exists ms, mlog g' = mlog g ++ ms;
  ns_new : forall k, pubn g' k -> pubn g k \/ In k (lst g')
}.

Lemma nstep_simple g g' :
  (forall a, pubn g a -> nx g' a = nx g a /\ ps g' a = ps g a /\ pubn g' a) ->
  (forall k, pubn g' k -> pubn g k \/ In k (lst g')) ->
  (exists ms, mlog g' = mlog g ++ ms) -> nstep g g'.
Proof.
  intros H1 H2 H3. constructor; auto.
  - intros a Ha. apply H1, Ha.
  - intros a Ha. apply H1, Ha.
  - intros a b Ha Hb. left. destruct (H1 a Ha) as (-> & _). exact Hb.
Qed.
Lemma nstep_sameA g g' : sameA g g' -> nstep g g'.
Proof.
  intros S. destruct (sameA_views _ _ S) as (V1 & V2 & V3 & V4).
  apply nstep_simple.
  - intros a Ha. rewrite V1, V4. split; [reflexivity|split; [reflexivity|]]. eapply pubn_sameA; eauto.
  - intros k Hk. left. eapply pubn_sameA_rev; eauto.
  - exists []. rewrite (sa_mlog _ _ S), app_nil_r. reflexivity.
Qed.
Lemma nstep_fault g x : nstep g x -> nstep g (with_fault x).
Proof. intros [A B C D E]. constructor; auto. Qed.


Lemma nstep_views g g' :
  (forall j, isnode g j = true -> isnode g' j = true) ->
  (forall j, isnode g' j = true -> dl g' j = true -> isnode g j = true) ->
  (forall j, isnode g j = true -> nx g' j = nx g j /\ ps g' j = ps g j /\ (dl g j = true -> dl g' j = true)) ->
  (forall j, dl g' j = true -> dl g j = true \/ In j (lst g')) ->
  (forall j, In j (lst g) -> In j (lst g') \/ dl g j = true) ->
  (exists ms, mlog g' = mlog g ++ ms) -> nstep g g'.
Proof.
  intros H1 H2 H3 H4 H5 H6. apply nstep_simple; auto.
  - intros a [A B]. destruct (H3 a A) as (E1 & E2 & E3). split; [exact E1|split; [exact E2|]].
    split; [auto|]. destruct B as [B|B]; [destruct (H5 a B); auto|auto].
  - intros k [A B]. destruct B as [B|B]; [auto|]. destruct (H4 k B) as [C|C]; [|auto].
    left. split; [eapply H2; eauto|auto].
Qed.
Lemma nstep_tail g x : nstep g (with_tail g x).
Proof.
  apply nstep_views; try (intros; auto; fail).
  exists []. rewrite app_nil_r. reflexivity.
Qed.
Lemma nstep_commit_push g h n m : (m = MPushF n \/ m = MPushB n) -> nstep g (commit (with_head g h) m).
Proof.
  intros Hm. apply nstep_views; try (intros; auto; fail).
  - intros j Hj. left. change (In j (apply_m (lst g) m)). destruct Hm as [->| ->]; cbn [apply_m]; [right; exact Hj|apply in_or_app; left; exact Hj].
  - exists [m]. reflexivity.
Qed.
Lemma nstep_commit_erase g h c : dl g c = true -> nstep g (commit (with_head g h) (MErase c)).
Proof.
  intros Hd. apply nstep_views; try (intros; auto; fail).
  - intros j Hj. change (In j (remove_nat c (lst g)) \/ dl g j = true). destruct (Nat.eq_dec j c) as [->|Hne]; [auto|].
    left. apply remove_nat_In. auto.
  - exists [MErase c]. reflexivity.
Qed.
Lemma nstep_commit_erase0 g c : dl g c = true -> nstep g (commit g (MErase c)).
Proof. intros Hd. apply (nstep_commit_erase g (head g) c Hd). Qed.
Lemma nstep_set_back g k x : isnode g k = true -> nstep g (setn g k (n_back (gnode g k) x)).
Proof.
  intros H. destruct (set_back_views g k x H) as (V1 & V2 & V3 & V4). destruct (nviews_setn g k (n_back (gnode g k) x) H).
  apply nstep_views.
  - intros j Hj. rewrite nv_isnode. exact Hj.
  - intros j Hj _. rewrite nv_isnode in Hj. exact Hj.
  - intros j _. rewrite V1, V3, V4. auto.
  - intros j Hj. rewrite V3 in Hj. auto.
  - intros j Hj. rewrite nv_lst. auto.
  - exists []. rewrite nv_mlog, app_nil_r. reflexivity.
Qed.
Lemma nstep_set_del g k : isnode g k = true -> In k (lst g) -> nstep g (setn g k (n_del (gnode g k))).
Proof.
  intros H Hk. destruct (set_del_views g k H) as (V1 & V2 & V3 & V4). destruct (nviews_setn g k (n_del (gnode g k)) H).
  apply nstep_views.
  - intros j Hj. rewrite nv_isnode. exact Hj.
  - intros j Hj _. rewrite nv_isnode in Hj. exact Hj.
  - intros j _. rewrite V1, V3, V4. split; [auto|split; [auto|]]. intros ->. destruct (Nat.eqb j k); reflexivity.
  - intros j Hj. rewrite V3 in Hj. rewrite nv_lst. destruct (Nat.eqb_spec j k) as [E|]; [subst j|]; auto.
  - intros j Hj. rewrite nv_lst. auto.
  - exists []. rewrite nv_mlog, app_nil_r. reflexivity.
Qed.
Lemma nstep_priv g g' k : nodeupd g g' k -> ~ pubn g k -> dl g' k = false -> nstep g g'.
Proof.
  intros U Hk Hd. destruct (nodeupd_views _ _ _ U) as (V1 & V2 & V3 & V4). destruct U.
  apply nstep_simple.
  - intros a Ha. assert (a <> k) as Hne by (intros ->; auto). rewrite V1, V4 by exact Hne.
    split; [auto|split; [auto|]]. destruct Ha as [A B]. split; [rewrite nu_isnode; exact A|]. rewrite nu_lst, V3 by exact Hne. exact B.
  - intros j [A B]. rewrite nu_isnode in A. rewrite nu_lst in *. destruct B as [B|B]; [auto|].
    destruct (Nat.eq_dec j k) as [->|Hne]; [congruence|]. rewrite V3 in B by exact Hne. left. split; auto.
  - exists []. rewrite nu_mlog, app_nil_r. reflexivity.
Qed.
Lemma nstep_alloc_node g lo' hi' : nstep g (with_pos (fst (do_alloc g (BNode dnode))) lo' hi').
Proof.
  set (g' := with_pos _ _ _). set (n := nheap g).
  assert (EI : forall k, isnode g' k = if Nat.eqb k n then true else isnode g k).
  { intros k. unfold g', isnode at 1. change (getc (with_pos ?x _ _) k) with (getc x k).
    fold (isnode (fst (do_alloc g (BNode dnode))) k). rewrite isnode_alloc. reflexivity. }
  assert (EG : forall k, gnode g' k = gnode g k).
  { intros k. unfold g', gnode at 1. change (getc (with_pos ?x _ _) k) with (getc x k).
    rewrite getc_alloc. fold n. destruct (Nat.eqb_spec k n) as [Ekn|]; [rewrite Ekn in *; clear Ekn|]; [|reflexivity].
    unfold gnode. rewrite getc_ge by (unfold n; lia). reflexivity. }
  assert (EN : forall k, nx g' k = nx g k) by (intros; unfold nx; rewrite EG; reflexivity).
  assert (ED : forall k, dl g' k = dl g k) by (intros; unfold dl; rewrite EG; reflexivity).
  assert (EP : forall k, ps g' k = ps g k) by (intros; unfold ps; rewrite EG; reflexivity).
  assert (EL : lst g' = lst g) by reflexivity.
  apply nstep_views.
  - intros j Hj. rewrite EI. destruct (Nat.eqb j n); auto.
  - intros j Hj Hd. rewrite EI in Hj. destruct (Nat.eqb_spec j n) as [Ekn|]; [|exact Hj]. exfalso.
    rewrite ED in Hd. unfold dl, gnode in Hd. rewrite getc_ge in Hd by (unfold n in Ekn; lia). discriminate.
  - intros j _. rewrite EN, EP, ED. auto.
  - intros j Hj. rewrite ED in Hj. auto.
  - intros j Hj. rewrite EL. auto.
  - exists []. rewrite app_nil_r. reflexivity.
Qed.

(* push_back takes effect: old (the last element, whose next was null) gets next = n *)
Lemma nstep_PB_next g n old : GS g (PB_next n old) -> isnode g old = true ->
  nstep g (commit (setn g old (n_next (gnode g old) (Some n))) (MPushB n)).
Proof.
  intros G H. set (g1 := setn g old _).
  destruct (set_next_views g old (Some n) H) as (V1 & V2 & V3 & V4). fold g1 in V1, V2, V3, V4.
  destruct (nviews_setn g old (n_next (gnode g old) (Some n)) H). fold g1 in nv_isnode, nv_lst, nv_mlog.
  pose proof (gs_hold _ _ G) as Hh. cbn [hold_ok] in Hh. destruct Hh as (_ & _ & _ & _ & _ & _ & _ & Hlast).
  assert (Eold : nx g old = None).
  { destruct (last_opt_split _ _ Hlast) as (l0 & El). destruct (gs_fwd _ _ G) as [_ FB]. rewrite El in FB.
    apply chn_app in FB. destruct FB as [_ FB]. cbn in FB. tauto. }
  constructor.
  - intros a [A B]. split; [change (isnode g1 a = true); rewrite nv_isnode; exact A|].
    change (In a (lst g1 ++ [n]) \/ dl g1 a = true). rewrite nv_lst, V3. destruct B; [left; apply in_or_app; auto|auto].
  - intros a _. change (ps g1 a = ps g a). apply V4.
  - intros a b _ Hb. left. change (nx g1 a = Some b). rewrite V1. destruct (Nat.eqb_spec a old) as [->|]; [congruence|exact Hb].
  - exists [MPushB n]. change (mlog g1 ++ [MPushB n] = mlog g ++ [MPushB n]). rewrite nv_mlog. reflexivity.
  - intros k [A B]. destruct B as [B|B]; [auto|]. left. change (isnode g1 k = true) in A. change (dl g1 k = true) in B.
    rewrite nv_isnode in A. rewrite V3 in B. split; auto.
Qed.

(* erase takes effect: the predecessor p of c gets next = next of c *)
Lemma nstep_E_s1 g it c nx0 p nxt z : GS g (E_s1 it c nx0 (Some p) nxt z) -> isnode g p = true ->
  nstep g (commit (setn g p (n_next (gnode g p) nxt)) (MErase c)).
Proof.
  intros G H. set (g1 := setn g p _).
  destruct (set_next_views g p nxt H) as (V1 & V2 & V3 & V4). fold g1 in V1, V2, V3, V4.
  destruct (nviews_setn g p (n_next (gnode g p) nxt) H). fold g1 in nv_isnode, nv_lst, nv_mlog.
  pose proof (gs_hold _ _ G) as Hh. cbn [hold_ok] in Hh. destruct Hh as (Hd & l1 & l2 & El & Hpv & Hnx).
  pose proof (gs_nodup _ _ G) as ND. rewrite El in ND. destruct (NoDup_mid _ _ _ ND) as (Hc1 & Hc2 & ND').
  symmetry in Hpv. destruct (last_opt_split _ _ Hpv) as (l0 & El1).
  assert (Hpc : p <> c). { intros ->. apply Hc1. rewrite El1. apply in_or_app. right. left. reflexivity. }
  destruct (gs_fwd _ _ G) as [_ FB]. rewrite El, El1 in FB. rewrite <- app_assoc in FB. cbn [app] in FB.
  apply chn_app in FB. destruct FB as [_ FB]. cbn [chn hd_or] in FB. destruct FB as (Ep & Ec & _).
  constructor.
  - intros a [A B]. split; [change (isnode g1 a = true); rewrite nv_isnode; exact A|].
    change (In a (remove_nat c (lst g1)) \/ dl g1 a = true). rewrite nv_lst, V3. destruct B as [B|B]; [|auto].
    destruct (Nat.eq_dec a c) as [->|Hne]; [auto|]. left. apply remove_nat_In. auto.
  - intros a _. change (ps g1 a = ps g a). apply V4.
  - intros a b _ Hb. change (nx g1 a = Some b \/ ~ In b (remove_nat c (lst g1)) /\ nx g1 a = nx g1 b).
    rewrite !V1. destruct (Nat.eqb_spec a p) as [->|]; [|left; exact Hb].
    right. rewrite Ep in Hb. inversion Hb; subst b. split; [rewrite remove_nat_In; tauto|].
    destruct (Nat.eqb_spec c p) as [E|_]; [congruence|]. rewrite Ec. exact Hnx.
  - exists [MErase c]. change (mlog g1 ++ [MErase c] = mlog g ++ [MErase c]). rewrite nv_mlog. reflexivity.
  - intros k [A B]. left. change (isnode g1 k = true) in A. change (In k (remove_nat c (lst g1)) \/ dl g1 k = true) in B.
    rewrite nv_isnode in A. rewrite nv_lst, V3 in B. split; [auto|]. destruct B as [B|B]; [apply remove_nat_In in B; tauto|auto].
Qed.

Ltac sameA_tac2 :=
  repeat first [apply sameA_fault | apply sameA_misuse | apply sameA_zhead | apply sameA_zlog | apply sameA_mtx];
  first [ apply sameA_refl | apply sameA_alloc_rec | apply sameA_destroy | apply sameA_dealloc | apply sameA_null
        | (apply sameA_setz; eauto) | (apply sameA_construct_rec; eauto) ].

Lemma nstep_step g ls t c l g' l' es :
  InvA g ls -> nth_error ls t = Some l -> tstep t c g l = Some (g', l', es) -> nstep g g'.
Proof.
  intros I Hl Hs.
  pose proof (a_thr _ _ I t l Hl) as Tt.
  destruct l as [pr p h its0]. destruct p.
  all: try (destruct (t_unl _ _ Tt eq_refl) as (w0 & z0 & Eh0); cbn [hnd] in Eh0; subst h).
  all: step_cases2 Hs; fold_fst.
  all: cbn [own_rec own_w hnd] in *.
  all: destruct Tt as [T1 T2 T3 T4]; cbn [at_ hnd its nrefs pc_refs priv_rec in_unlock] in T1, T2, T3, T4.
  all: try (apply nstep_sameA; sameA_tac2).
  all: repeat apply nstep_fault.
  all: try (apply nstep_sameA; sameA_tac2).
  all: try apply nstep_tail.
  all: try apply nstep_alloc_node.
  all: try (eapply nstep_commit_push; eauto; fail).
  all: try (apply nstep_set_back; eapply wtarget_isnode; [exact I|exact Hl|reflexivity]).
  all: try (apply nstep_sameA; first [apply sameA_alloc_raw | apply sameA_dealloc_raw]).
  all: pose proof (a_gs _ _ I) as G0; destruct (hpc_holder _ _ _ _ I Hl eq_refl) as [Ehp Emt]; rewrite Ehp in G0; cbn [at_] in G0.
  all: try (apply nstep_PB_next; [exact G0|eapply wtarget_isnode; [exact I|exact Hl|reflexivity]]).
  all: try (eapply nstep_E_s1; [exact G0|eapply wtarget_isnode; [exact I|exact Hl|reflexivity]]).
  all: try (apply nstep_commit_erase; pose proof (gs_hold _ _ G0) as Hh; cbn [hold_ok] in Hh; tauto).
  all: try (apply nstep_commit_erase0; assumption).
  all: try (apply nstep_set_del; [eapply wtarget_isnode; [exact I|exact Hl|reflexivity]|pose proof (gs_hold _ _ G0) as Hh; cbn [hold_ok] in Hh; tauto]).
  all: assert (isnode g n = true) as Hn by (eapply wtarget_isnode; [exact I|exact Hl|reflexivity]).
  all: pose proof (gs_hold _ _ G0) as Hh; cbn [hold_ok] in Hh.
  - destruct Hh as (_ & Hd & _ & Hnl & _).
    eapply nstep_priv; [apply nodeupd_construct; exact Hn| |].
    + intros [_ [B|B]]; [auto|]. unfold dl in B. rewrite Hd in B. discriminate.
    + unfold dl. rewrite gnode_construct_node by exact Hn. rewrite Nat.eqb_refl. destruct (cs_is g n Alloc); [reflexivity|rewrite Hd; reflexivity].
  - destruct Hh as ((_ & Hnl & _ & _ & Hd & _) & _).
    eapply nstep_priv; [apply nodeupd_setn; exact Hn| |].
    + intros [_ [B|B]]; [auto|congruence].
    + destruct (set_next_views g n (Some old) Hn) as (_ & _ & V3 & _). rewrite V3. exact Hd.
  - destruct Hh as ((_ & Hnl & _ & _ & Hd & _) & _).
    eapply nstep_priv; [apply nodeupd_setn; exact Hn| |].
    + intros [_ [B|B]]; [auto|congruence].
    + destruct (set_next_views g n (Some old) Hn) as (_ & _ & V3 & _). rewrite V3. exact Hd.
Qed.

Lemma nstep_refl g : nstep g g.
Proof. apply nstep_sameA, sameA_refl. Qed.
Lemma sys_nstep unf progs s tc : R unf progs s -> nstep (gl s) (gl (step glob loc tstep s tc)).
Proof.
  intros HR. pose proof (R_InvA _ _ _ HR) as I. unfold step, sys_step. destruct tc as [t c].
  destruct (nth_error (thr s) t) as [l|] eqn:Hl; [|apply nstep_refl].
  destruct (tstep t c (gl s) l) as [[[g' l'] es]|] eqn:Hs; [|apply nstep_refl].
  cbn. eapply nstep_step; eauto.
Qed.

(* ---------- every published node was pushed ---------- *)
Lemma pushed_app ml ms k : pushed ml k -> pushed (ml ++ ms) k.
Proof. intros [H|H]; [left|right]; apply in_or_app; auto. Qed.
Lemma lat_pushed ml : forall k, In k (fold_left apply_m ml []) -> pushed ml k.
Proof.
  induction ml as [|m ml IH] using rev_ind; intros k Hk; [destruct Hk|].
  rewrite fold_apply_app in Hk. destruct m as [j|j|j]; cbn [apply_m] in Hk.
  - destruct Hk as [<-|Hk]; [left; apply in_or_app; right; left; reflexivity|apply pushed_app, IH, Hk].
  - apply in_app_or in Hk. destruct Hk as [Hk|[<-|[]]]; [apply pushed_app, IH, Hk|right; apply in_or_app; right; left; reflexivity].
  - apply remove_nat_In in Hk. apply pushed_app, IH, Hk.
Qed.
Definition InvP (g : glob) (ls : list loc) : Prop := InvA g ls /\ forall k, pubn g k -> pushed (mlog g) k.
Lemma InvP_step : forall g ls t c l g' l' es,
  InvP g ls -> nth_error ls t = Some l -> tstep t c g l = Some (g', l', es) -> InvP g' (upd ls t l').
Proof.
  intros g ls t c l g' l' es [I P] Hl Hs. pose proof (InvA_step _ _ _ _ _ _ _ _ I Hl Hs) as I'. split; [exact I'|].
  pose proof (nstep_step _ _ _ _ _ _ _ _ I Hl Hs) as N. intros k Hk.
  destruct (ns_new _ _ N k Hk) as [H|H].
  - destruct (ns_mlog _ _ N) as [ms ->]. apply pushed_app, P, H.
  - apply lat_pushed. rewrite <- (gs_mlog _ _ (a_gs _ _ I')). exact H.
Qed.
Lemma pub_pushed unf progs s k : R unf progs s -> pubn (gl s) k -> pushed (mlog (gl s)) k.
Proof.
  intros HR. assert (InvP (gl s) (thr s)) as [_ P]; [|apply P].
  eapply reachable_inv; [apply InvP_step| |exact HR]. split; [apply InvA_init|].
  intros j [A _]. exfalso. unfold isnode in A. cbn in A. destruct j; discriminate.
Qed.

(* ---------- following next pointers ---------- *)
Inductive reach (g : glob) : nat -> nat -> Prop :=
| reach_refl k : reach g k k
| reach_next c m k : nx g c = Some m -> reach g m k -> reach g c k.

Lemma reach_nstep g g' p : GS g p -> nstep g g' ->
  forall c k, reach g c k -> pubn g c -> In k (lst g') -> reach g' c k.
Proof.
  intros G N c k H. induction H as [k|c m k Hc Hm IH]; intros Pc Hk; [constructor|].
  destruct (gs_next _ _ G c m Pc Hc) as [Pm _]. specialize (IH Pm Hk).
  destruct (ns_edge _ _ N c m Pc Hc) as [E|[E1 E2]].
  - econstructor; eauto.
  - inversion IH; subst; [contradiction|]. econstructor; [rewrite E2; eassumption|assumption].
Qed.
Lemma chn_reach g e : forall l, chn g l e -> forall k, In k l -> forall h, hd_opt l = Some h -> reach g h k.
Proof.
  induction l as [|a r IH]; intros C k Hk h Hh; [destruct Hk|].
  cbn in Hh. inversion Hh; subst h. destruct Hk as [<-|Hk]; [constructor|].
  destruct r as [|b r']; [destruct Hk|]. cbn [chn hd_or] in C. destruct C as [C1 C2].
  econstructor; [exact C1|]. apply IH; auto.
Qed.

Lemma SS_snoc_inv {A} (Rr : A -> A -> Prop) l c : StronglySorted Rr (l ++ [c]) -> forall a, In a l -> Rr a c.
Proof.
  induction l as [|b l IH]; intros H a Ha; [destruct Ha|]. cbn in H. inversion H; subst.
  destruct Ha as [<-|Ha]; [|apply IH; auto]. rewrite Forall_forall in H3. apply H3. apply in_or_app. right. left. reflexivity.
Qed.
Lemma SS_snoc {A} (Rr : A -> A -> Prop) l c : StronglySorted Rr l -> (forall a, In a l -> Rr a c) -> StronglySorted Rr (l ++ [c]).
Proof.
  induction l as [|b l IH]; intros H Hc; cbn; [constructor; constructor|]. inversion H; subst.
  constructor; [apply IH; auto; intros; apply Hc; right; auto|].
  rewrite Forall_forall in *. intros x Hx. apply in_app_or in Hx. destruct Hx as [Hx|[<-|[]]]; [auto|apply Hc; left; reflexivity].
Qed.
Lemma SS_ext {A} (R1 R2 : A -> A -> Prop) l : (forall a b, In a l -> In b l -> R1 a b -> R2 a b) -> StronglySorted R1 l -> StronglySorted R2 l.
Proof.
  induction l as [|b l IH]; intros E H; [constructor|]. inversion H; subst. constructor.
  - apply IH; auto. intros x y Hx Hy. apply E; right; auto.
  - rewrite Forall_forall in *. intros x Hx. apply E; [left; auto|right; auto|auto].
Qed.

Section Trav.
Variables (unf : bool) (progs : list (list op)).
Notation stp := (step glob loc tstep).

Inductive trav (K : list nat) : sysR -> list nat -> option nat -> Prop :=
| tr_begin s : R unf progs s -> incl K (lst (gl s)) -> trav K s [] (head (gl s))
| tr_time s v x tc : trav K s v x -> incl K (lst (gl (stp s tc))) -> trav K (stp s tc) v x
| tr_next s v c : trav K s v (Some c) -> trav K s (v ++ [c]) (nx (gl s) c).

Definition psl (g : glob) (a b : nat) : Prop := ps g a < ps g b.

Lemma trav_inv K s v x : trav K s v x ->
  R unf progs s /\
  (forall c, In c (v ++ o2l x) -> pubn (gl s) c) /\
  StronglySorted (psl (gl s)) (v ++ o2l x) /\
  (forall k, In k K -> In k (lst (gl s)) /\ (In k v \/ exists c, x = Some c /\ reach (gl s) c k)).
Proof.
  induction 1 as [s HR HK|s v x tc HT IH HK|s v c HT IH].
  - pose proof (a_gs _ _ (R_InvA _ _ _ HR)) as G. split; [exact HR|]. cbn [app]. split; [|split].
    + intros c Hc. destruct (head (gl s)) eqn:E; [|destruct Hc]. destruct Hc as [<-|[]]. eapply head_pubn; eauto.
    + destruct (head (gl s)); cbn; repeat constructor.
    + intros k Hk. specialize (HK k Hk). split; [exact HK|]. right. destruct (gs_fwd _ _ G) as [F1 F2].
      destruct (lst (gl s)) as [|a r] eqn:El; [destruct HK|]. exists a. split; [exact F1|].
      eapply chn_reach; [exact F2|exact HK|reflexivity].
  - destruct IH as (HR & HP & HS & HKK). pose proof (sys_nstep _ _ s tc HR) as N.
    pose proof (a_gs _ _ (R_InvA _ _ _ HR)) as G.
    split; [apply reachable_step; exact HR|]. split; [|split].
    + intros c Hc. apply (ns_pub _ _ N). auto.
    + eapply SS_ext; [|exact HS]. intros a b Ha Hb. unfold psl. rewrite !(ns_ps _ _ N) by auto. auto.
    + intros k Hk. split; [apply HK, Hk|]. destruct (HKK k Hk) as [_ [Hv|(c & -> & Hr)]]; [auto|].
      right. exists c. split; [reflexivity|]. eapply reach_nstep; eauto.
      apply HP. apply in_or_app. right. left. reflexivity.
  - destruct IH as (HR & HP & HS & HKK). pose proof (a_gs _ _ (R_InvA _ _ _ HR)) as G.
    cbn [o2l] in HP, HS. assert (pubn (gl s) c) as Pc by (apply HP; apply in_or_app; right; left; reflexivity).
    split; [exact HR|]. split; [|split].
    + intros a Ha. apply in_app_or in Ha. destruct Ha as [Ha|Ha]; [auto|].
      destruct (nx (gl s) c) as [m|] eqn:En; [|destruct Ha]. destruct Ha as [<-|[]]. apply (gs_next _ _ G c m Pc En).
    + destruct (nx (gl s) c) as [m|] eqn:En; cbn [o2l]; [|rewrite app_nil_r; exact HS].
      destruct (gs_next _ _ G c m Pc En) as [_ Hlt]. apply SS_snoc; [exact HS|].
      intros a Ha. apply in_app_or in Ha. destruct Ha as [Ha|[<-|[]]]; [|exact Hlt].
      pose proof (SS_snoc_inv _ _ _ HS a Ha) as H1. unfold psl in *. lia.
    + intros k Hk. destruct (HKK k Hk) as [Hl [Hv|(c' & E & Hr)]]; (split; [exact Hl|]).
      * left. apply in_or_app. auto.
      * inversion E; subst c'. inversion Hr; subst.
        -- left. apply in_or_app. right. left. reflexivity.
        -- right. exists m. split; [assumption|assumption].
Qed.

Theorem no_skip K s v : trav K s v None -> incl K v.
Proof.
  intros H k Hk. destruct (trav_inv _ _ _ _ H) as (_ & _ & _ & HKK).
  destruct (HKK k Hk) as [_ [Hv|(c & E & _)]]; [exact Hv|discriminate].
Qed.
Theorem trav_sorted K s v x : trav K s v x -> StronglySorted (psl (gl s)) (v ++ o2l x) /\ NoDup (v ++ o2l x).
Proof.
  intros H. destruct (trav_inv _ _ _ _ H) as (_ & _ & HS & _). split; [exact HS|].
  induction HS as [|a l HS IH HF]; constructor; [|exact IH].
  intros Hin. rewrite Forall_forall in HF. specialize (HF a Hin). unfold psl in HF. lia.
Qed.
Theorem trav_inserted K s v x c : trav K s v x -> In c (v ++ o2l x) -> pubn (gl s) c /\ pushed (mlog (gl s)) c.
Proof.
  intros H Hc. destruct (trav_inv _ _ _ _ H) as (HR & HP & _). split; [auto|]. eapply pub_pushed; eauto.
Qed.
End Trav.

(* the two steps by which an iterator obtains a node: begin() loads m_head, ++ loads the next field of the current node *)
Lemma begin_reads_head t c g l g' l' es it : at_ l = B_ld it -> tstep t c g l = Some (g', l', es) ->
  g' = g /\ its l' = setit (its l) it (head g).
Proof. intros E Hs. destruct l as [pr p h its0]. cbn in E. subst p. step_cases Hs. split; reflexivity. Qed.
Lemma next_reads_next t c g l g' l' es it cu : at_ l = N_ld it cu -> tstep t c g l = Some (g', l', es) ->
  its l' = setit (its l) it (nx g cu).
Proof. intros E Hs. destruct l as [pr p h its0]. cbn in E. subst p. step_cases2 Hs; reflexivity. Qed.

(* ---------- non-vacuity: a traversal that passes through a node while it is being erased ---------- *)
Fixpoint keeps (K : list nat) (s : sysR) (sched : list (nat * nat)) : bool :=
  match sched with
  | [] => true
  | tc :: r => let s' := step glob loc tstep s tc in
               forallb (fun k => existsb (Nat.eqb k) (lst (gl s'))) K && keeps K s' r
  end.
Lemma trav_run unf progs K sched : forall s v x, trav unf progs K s v x -> keeps K s sched = true ->
  trav unf progs K (run glob loc tstep s sched) v x.
Proof.
  induction sched as [|tc r IH]; intros s v x HT HK; [exact HT|]. cbn [keeps] in HK. apply andb_prop in HK. destruct HK as [H1 H2].
  cbn [run fold_left]. apply IH; [|exact H2]. apply tr_time; [exact HT|].
  intros k Hk. rewrite forallb_forall in H1. specialize (H1 k Hk). apply existsb_exists in H1. destruct H1 as (j & Hj & E).
  apply Nat.eqb_eq in E. subst j. exact Hj.
Qed.

Lemma tr_begin' unf progs K s h : R unf progs s -> incl K (lst (gl s)) -> head (gl s) = h -> trav unf progs K s [] h.
Proof. intros H1 H2 <-. apply tr_begin; auto. Qed.
Lemma tr_next' unf progs K s v c m : trav unf progs K s v (Some c) -> nx (gl s) c = m -> trav unf progs K s (v ++ [c]) m.
Proof. intros H <-. apply tr_next; auto. Qed.
Definition tex_progs : list (list op) :=
  [[LockWrite; PushBack 10; PushBack 20; PushFront 5; Begin 0; Next 0; Erase 0; Release];
   [LockRead; Begin 0; Next 0; Deref 0; Next 0; Deref 0; Release]].
Definition tex_sched1 : list (nat * nat) := repeat (0%nat, 0%nat) 36 ++ repeat (1%nat, 0%nat) 10.
Definition tex_sched2 : list (nat * nat) := repeat (0%nat, 0%nat) 8.
Definition tex_s1 := run glob loc tstep (init false tex_progs) tex_sched1.
Definition tex_s2 := run glob loc tstep tex_s1 tex_sched2.
(* the list is [3; 1; 2] (node numbers) when the traversal starts; it has moved from 3 to 1 when the
   writer unlinks 1 (list becomes [3; 2]); it still reaches 2 through the erased node's next pointer *)
Lemma tex_trav : lst (gl tex_s1) = [3; 1; 2]%nat /\ lst (gl tex_s2) = [3; 2]%nat /\
  trav false tex_progs [3; 2]%nat tex_s2 [3; 1; 2]%nat None.
Proof.
  split; [vm_compute; reflexivity|]. split; [vm_compute; reflexivity|].
  change [3; 1; 2]%nat with ([3; 1] ++ [2])%nat. eapply tr_next'; [|vm_compute; reflexivity].
  change [3; 1]%nat with ([3] ++ [1])%nat. eapply tr_next'; [|vm_compute; reflexivity].
  unfold tex_s2. apply trav_run; [|vm_compute; reflexivity].
  change [3]%nat with ([] ++ [3])%nat. eapply tr_next'; [|vm_compute; reflexivity].
  apply tr_begin'; [exists tex_sched1; reflexivity| |vm_compute; reflexivity].
  intros k Hk. vm_compute. cbn in Hk. tauto.
Qed.
