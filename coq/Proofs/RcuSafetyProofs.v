(* Layer B2 of the rcu_list proof: nodes are never destroyed while a live handle may still reach them.
   Invariant InvC, on top of InvA (list structure) and InvB (log):
   - every list node is constructed; an erased node is accounted for by exactly one log record (or by
     the eraser that has not pushed the record yet) and follows the allocator ledger of that record's
     reclaimer;
   - [covers r k]: node k is *protected by* the registration record r: it is in the list, or it is
     being erased right now, or its log record is newer than r.  For an owned record r on the log,
     every covered node is constructed and the next pointer of a covered node is covered
     (the closure that makes ++ safe);
   - every node reference a thread holds is covered by the thread's own record.
   A reclaimer only destroys nodes whose record lies in its region - below its own record, where every
   record is unowned - so no owned record covers them. *)
From Coq Require Import List Arith ZArith Lia Bool.
Import ListNotations.
From GV Require Import Sched Events RcuModel RcuBase RcuListProofs RcuRawProofs RcuLogProofs.
Local Open Scope nat_scope.

Definition erasing_node (g : glob) (p : pc) : option nat :=
  match p with
  | E_s2 _ c _ _ _ _ => Some c
  | E_ldz _ _ z | E_stz _ _ z _ | E_cas _ _ z _ => znd g z
  | _ => None
  end.
Definition enode (g : glob) (ls : list loc) : option nat := erasing_node g (hpc g ls).
(* private nodes that are already constructed *)
Definition pnode (p : pc) : option nat := match p with P_constr _ _ => None | _ => priv_node p end.

Definition covers (g : glob) (ls : list loc) (r k : nat) : Prop :=
  In k (lst g) \/ enode g ls = Some k \/ exists z, inlog g z /\ znd g z = Some k /\ zsq g r < zsq g z.

Definition past_dd (p : pc) (z : nat) : bool :=
  match p with U_df n _ | U_ln n | U_zd n _ | U_zf n _ => Nat.eqb n z | _ => false end.

Definition thrC (g : glob) (l : loc) : Prop :=
  match at_ l with
  | U_dd _ None => unfixed g = true
  | U_df _ None => unfixed g = true
  | U_df n (Some k) => cs_of g k = Some Destr
  | U_ln n | U_zd n _ | U_zf n _ => forall k, znd g n = Some k -> cs_of g k = Some Freed
  | B_ld _ => exists w r, hnd l = Some (w, Some r)
  | _ => True
  end.

Record InvC (g : glob) (ls : list loc) : Prop := {
  c_lst : forall k, In k (lst g) -> cs_of g k = Some Constr;
  c_pn : forall n, pnode (hpc g ls) = Some n -> cs_of g n = Some Constr;
  c_en : forall k, enode g ls = Some k ->
         cs_of g k = Some Constr /\ isnode g k = true /\ dl g k = true /\ ~ In k (lst g) /\
         (forall m, nx g k = Some m -> In m (lst g)) /\ (forall z, In z (zlog g) -> znd g z <> Some k);
  c_recn : forall z k, In z (zlog g) -> znd g z = Some k ->
           isnode g k = true /\ dl g k = true /\ ~ In k (lst g);
  c_uniq : forall z z' k, In z (zlog g) -> In z' (zlog g) -> znd g z = Some k -> znd g z' = Some k -> z = z';
  c_pend : forall z k, inlog g z -> znd g z = Some k -> (forall u, past_dd (pcof ls u) z = false) -> cs_of g k = Some Constr;
  c_cov : forall r, inlog g r -> zown g r <> None -> forall k m, covers g ls r k -> nx g k = Some m -> covers g ls r m;
  c_refs : forall u l w r, nth_error ls u = Some l -> hnd l = Some (w, Some r) -> forall c, In c (nrefs l) -> covers g ls r c;
  c_noref : forall u l, nth_error ls u = Some l -> (forall w r, hnd l <> Some (w, Some r)) -> nrefs l = [];
  c_thr : forall u l, nth_error ls u = Some l -> thrC g l
}.

(* ---------- basic consequences ---------- *)
Lemma chn_next_in g l e k m : chn g l e -> In k l -> nx g k = Some m -> In m l \/ e = Some m.
Proof.
  induction l as [|a r IH]; [intros _ []|]. cbn [chn]. intros [H1 H2] [->|Hk] Hm.
  - rewrite Hm in H1. destruct r as [|b r']; cbn in H1; [right; congruence|left; right; left; congruence].
  - destruct (IH H2 Hk Hm) as [A|A]; [left; right; exact A|right; exact A].
Qed.
Lemma lst_next_in g p k m : GS g p -> In k (lst g) -> nx g k = Some m -> In m (lst g).
Proof.
  intros G Hk Hm. destruct (gs_fwd _ _ G) as [_ C]. destruct (chn_next_in g _ _ k m C Hk Hm) as [A|A]; [exact A|discriminate].
Qed.

Section Basic.
  Variables (g : glob) (ls : list loc).
  Hypothesis IA : InvA g ls.
  Hypothesis IB : InvB g ls.

  (* a record newer than an owned record is in nobody's region *)
  Lemma newer_than_owned_free r z : inlog g r -> zown g r <> None -> inlog g z -> zsq g r < zsq g z ->
    forall u, past_dd (pcof ls u) z = false.
  Proof.
    intros Hr Ho Hz Hlt u. destruct (past_dd (pcof ls u) z) eqn:E; [exfalso|reflexivity].
    unfold pcof, locof in E. destruct (nth_error ls u) as [lu|] eqn:Eu; [|discriminate].
    assert (region_pc (at_ lu) = Some z) as Ru.
    { destruct (at_ lu); cbn in E; try discriminate; apply Nat.eqb_eq in E; subst; reflexivity. }
    pose proof (region_of g u lu z (b_thr _ _ IB u lu Eu) Ru) as (R1 & R2 & R3 & R4).
    apply Ho. apply R4; [exact Hr|lia].
  Qed.
End Basic.

Section Cov.
  Variables (g : glob) (ls : list loc).
  Hypothesis IA : InvA g ls.
  Hypothesis IB : InvB g ls.
  Hypothesis IC : InvC g ls.

  Lemma covered_constr r k : inlog g r -> zown g r <> None -> covers g ls r k -> cs_of g k = Some Constr /\ isnode g k = true.
  Proof.
    intros Hr Ho [H|[H|(z & Hz & Hk & Hlt)]].
    - split; [apply (c_lst _ _ IC k H)|apply (gs_nodes _ _ (a_gs _ _ IA) k H)].
    - destruct (c_en _ _ IC k H) as (A & B & _). auto.
    - split.
      + apply (c_pend _ _ IC z k Hz Hk). apply (newer_than_owned_free g ls IB r z Hr Ho Hz Hlt).
      + apply (c_recn _ _ IC z k (inlog_In _ _ Hz) Hk).
  Qed.
  (* every node reference held by a thread is a constructed node cell: dereference and ++ are safe *)
  Lemma refs_alive u l c : nth_error ls u = Some l -> In c (nrefs l) -> okn g c = true.
  Proof.
    intros Hl Hc. destruct (hnd l) as [[w [r|]]|] eqn:Eh.
    - destruct (b_own1 _ _ IB u w r) as (A & B & C); [rewrite (locof_at _ _ _ Hl); exact Eh|].
      assert (inlog g r) as Ir by (split; [exact A|congruence]).
      assert (zown g r <> None) as Or by congruence.
      destruct (covered_constr r c Ir Or (c_refs _ _ IC u l w r Hl Eh c Hc)) as [P Q]. apply okn_iff. auto.
    - rewrite (c_noref _ _ IC u l Hl) in Hc; [destruct Hc|intros w' r' E; rewrite Eh in E; discriminate].
    - rewrite (c_noref _ _ IC u l Hl) in Hc; [destruct Hc|intros w' r' E; rewrite Eh in E; discriminate].
  Qed.
End Cov.

(* ---------- frame ---------- *)
(* thread t moves from l to l'; the node world and the log keep every view InvC looks at, except that
   the contents / ledger state of one node [x] nobody can reach (the holder's private node) may change *)
Lemma InvC_frame g g' ls t l l' (x : option nat) :
  InvA g ls -> InvB g ls -> InvC g ls -> nth_error ls t = Some l ->
  lst g' = lst g -> zlog g' = zlog g -> unfixed g' = unfixed g ->
  (forall k, Some k <> x -> nx g' k = nx g k) ->
  (forall k, dl g k = true -> dl g' k = true) ->
  (forall k, isnode g k = true -> isnode g' k = true) ->
  (forall k, isnode g k = true -> Some k <> x -> cs_of g' k = cs_of g k) ->
  (forall z, In z (zlog g) -> (inlog g' z <-> inlog g z) /\ znd g' z = znd g z /\ (zown g' z <> None -> zown g z <> None)) ->
  enode g' (upd ls t l') = enode g ls ->
  (forall n, pnode (hpc g' (upd ls t l')) = Some n -> cs_of g' n = Some Constr) ->
  (forall z, past_dd (at_ l) z = true -> past_dd (at_ l') z = true) ->
  (forall k, x = Some k -> ~ In k (lst g) /\ enode g ls <> Some k /\ (forall z, In z (zlog g) -> znd g z <> Some k)) ->
  (forall w r, hnd l' = Some (w, Some r) -> hnd l = Some (w, Some r) /\ forall c, In c (nrefs l') -> covers g ls r c) ->
  ((forall w r, hnd l' <> Some (w, Some r)) -> nrefs l' = []) ->
  thrC g' l' ->
  InvC g' (upd ls t l').
Proof.
  intros IA IB IC Hl EL EZ EU Hnx Hdl Hin Hcs Hrec Hen Hpn Hpd Hx Hrefs Hnoref Ht.
  assert (Sq : forall c, zsq g' c = zsq g c) by (intros c; unfold zsq; rewrite EZ; reflexivity).
  assert (Hcov : forall r k, covers g' (upd ls t l') r k <-> covers g ls r k).
  { intros r k. unfold covers. rewrite EL, Hen, !Sq. split; (intros [A|[A|(z & Z1 & Z2 & Z3)]]; [left; exact A|right; left; exact A|right; right]).
    - assert (In z (zlog g)) as Hz by (rewrite <- EZ; apply (inlog_In _ _ Z1)). destruct (Hrec z Hz) as (R1 & R2 & _).
      exists z. rewrite Sq in Z3. rewrite <- R2. split; [apply R1; exact Z1|auto].
    - pose proof (inlog_In _ _ Z1) as Hz. destruct (Hrec z Hz) as (R1 & R2 & _).
      exists z. rewrite Sq, R2. split; [apply R1; exact Z1|auto]. }
  assert (Hxcov : forall r k, x = Some k -> ~ covers g ls r k).
  { intros r k Ek [A|[A|(z & Z1 & Z2 & Z3)]]; destruct (Hx k Ek) as (X1 & X2 & X3); auto. apply (X3 z (inlog_In _ _ Z1) Z2). }
  assert (Hpc : forall u, u <> t -> pcof (upd ls t l') u = pcof ls u).
  { intros u Hu. rewrite (pcof_upd _ _ _ _ _ Hl). destruct (Nat.eqb_spec u t); [contradiction|reflexivity]. }
  assert (Hpdd : forall z, (forall u, past_dd (pcof (upd ls t l') u) z = false) -> forall u, past_dd (pcof ls u) z = false).
  { intros z H u. destruct (Nat.eq_dec u t) as [->|Hu].
    - specialize (H t). rewrite (pcof_upd _ _ _ _ _ Hl), Nat.eqb_refl in H. rewrite (pcof_at _ _ _ Hl).
      destruct (past_dd (at_ l) z) eqn:E; [rewrite (Hpd z E) in H; discriminate|reflexivity].
    - rewrite <- (Hpc u Hu). apply H. }
  assert (Hcsrec : forall z k, In z (zlog g) -> znd g z = Some k -> cs_of g' k = cs_of g k).
  { intros z k Hz Hk. destruct (c_recn _ _ IC z k Hz Hk) as (A & _). apply Hcs; [exact A|].
    intros E. symmetry in E. destruct (Hx k E) as (_ & _ & X3). apply (X3 z Hz Hk). }
  constructor.
  - intros k Hk. rewrite EL in Hk. rewrite Hcs; [apply (c_lst _ _ IC k Hk)|apply (gs_nodes _ _ (a_gs _ _ IA) k Hk)|].
    intros E. symmetry in E. destruct (Hx k E) as (X1 & _). auto.
  - exact Hpn.
  - intros k Hk. rewrite Hen in Hk. destruct (c_en _ _ IC k Hk) as (A & B & C & D & E & F).
    assert (Some k <> x) as Hkx by (intros Ex; symmetry in Ex; destruct (Hx k Ex) as (_ & X2 & _); auto).
    rewrite (Hcs k B Hkx), EL, EZ, (Hnx k Hkx). repeat split; auto.
    intros z Hz. destruct (Hrec z Hz) as (_ & R2 & _). rewrite R2. apply F. exact Hz.
  - intros z k Hz Hk. rewrite EZ in Hz. destruct (Hrec z Hz) as (_ & R2 & _). rewrite R2 in Hk.
    destruct (c_recn _ _ IC z k Hz Hk) as (A & B & C). rewrite EL. auto.
  - intros z z' k Hz Hz' Hk Hk'. rewrite EZ in Hz, Hz'. destruct (Hrec z Hz) as (_ & R2 & _). destruct (Hrec z' Hz') as (_ & R2' & _).
    rewrite R2 in Hk. rewrite R2' in Hk'. apply (c_uniq _ _ IC z z' k); auto.
  - intros z k Hz Hk Hp. assert (In z (zlog g)) as Hzi by (rewrite <- EZ; apply (inlog_In _ _ Hz)).
    destruct (Hrec z Hzi) as (R1 & R2 & _). rewrite R2 in Hk. rewrite (Hcsrec z k Hzi Hk).
    apply (c_pend _ _ IC z k); [apply R1; exact Hz|exact Hk|apply Hpdd; exact Hp].
  - intros r Hr Ho k m Hk Hm. assert (In r (zlog g)) as Hri by (rewrite <- EZ; apply (inlog_In _ _ Hr)).
    destruct (Hrec r Hri) as (R1 & _ & R3). apply Hcov in Hk. apply Hcov.
    assert (Some k <> x) as Hkx by (intros Ex; symmetry in Ex; apply (Hxcov r k Ex Hk)).
    rewrite (Hnx k Hkx) in Hm. apply (c_cov _ _ IC r (proj1 R1 Hr) (R3 Ho) k m Hk Hm).
  - intros u lu w r Hu Hh c Hc. apply Hcov. apply nth_upd in Hu. destruct Hu as [(-> & -> & _)|(Hne & Hu)].
    + destruct (Hrefs w r Hh) as [A B]. apply B. exact Hc.
    + apply (c_refs _ _ IC u lu w r Hu Hh c Hc).
  - intros u lu Hu Hh. apply nth_upd in Hu. destruct Hu as [(-> & -> & _)|(Hne & Hu)]; [apply Hnoref; exact Hh|apply (c_noref _ _ IC u lu Hu Hh)].
  - intros u lu Hu. apply nth_upd in Hu. destruct Hu as [(-> & -> & _)|(Hne & Hu)]; [exact Ht|].
    pose proof (c_thr _ _ IC u lu Hu) as T. pose proof (b_thr _ _ IB u lu Hu) as TB. unfold thrC, thrB in *. rewrite EU.
    destruct (at_ lu) eqn:E; auto.
    + destruct d as [k|]; auto. destruct TB as ((Rn & _) & _ & Ed). rewrite (Hcsrec n k (inlog_In _ _ Rn) (eq_sym Ed)). exact T.
    + destruct TB as ((Rn & _) & _). intros k Hk. destruct (Hrec n (inlog_In _ _ Rn)) as (_ & R2 & _). rewrite R2 in Hk.
      rewrite (Hcsrec n k (inlog_In _ _ Rn) Hk). apply T. exact Hk.
    + destruct TB as ((Rn & _) & _). intros k Hk. destruct (Hrec n (inlog_In _ _ Rn)) as (_ & R2 & _). rewrite R2 in Hk.
      rewrite (Hcsrec n k (inlog_In _ _ Rn) Hk). apply T. exact Hk.
    + destruct TB as ((Rn & _) & _). intros k Hk. destruct (Hrec n (inlog_In _ _ Rn)) as (_ & R2 & _). rewrite R2 in Hk.
      rewrite (Hcsrec n k (inlog_In _ _ Rn) Hk). apply T. exact Hk.
Qed.

(* ---------- publication of a node ---------- *)
Lemma InvC_publish g g' ls t l l' n (y : option nat) :
  InvA g ls -> InvB g ls -> InvC g ls -> nth_error ls t = Some l ->
  (forall k, In k (lst g') <-> k = n \/ In k (lst g)) ->
  zlog g' = zlog g -> unfixed g' = unfixed g ->
  (forall k, Some k <> y -> nx g' k = nx g k) ->
  (forall k, y = Some k -> In k (lst g) /\ nx g' k = Some n) ->
  (forall m, nx g n = Some m -> In m (lst g)) -> Some n <> y ->
  (forall k, dl g' k = dl g k) -> (forall k, isnode g' k = isnode g k) -> (forall k, cs_of g' k = cs_of g k) ->
  (forall z, grec g' z = grec g z) ->
  cs_of g n = Some Constr -> dl g n = false -> ~ In n (lst g) ->
  enode g ls = None -> enode g' (upd ls t l') = None -> pnode (hpc g' (upd ls t l')) = None ->
  hnd l' = hnd l -> nrefs l' = nrefs l -> (forall z, past_dd (at_ l) z = false) -> (forall z, past_dd (at_ l') z = false) ->
  thrC g' l' ->
  InvC g' (upd ls t l').
Proof.
  intros IA IB IC Hl EL EZ EU Hnx Hy Hnn Hny Hdl Hin Hcs Hgr Hcn Hdn Hnl Hen Hen' Hpn Hh Hr Hpd Hpd' Ht.
  assert (Sq : forall c, zsq g' c = zsq g c) by (intros c; unfold zsq; rewrite EZ; reflexivity).
  assert (Il : forall c, inlog g' c <-> inlog g c) by (intros c; unfold inlog; rewrite EZ, Hcs; tauto).
  assert (Zd : forall c, znd g' c = znd g c) by (intros c; unfold znd; rewrite Hgr; reflexivity).
  assert (Zo : forall c, zown g' c = zown g c) by (intros c; unfold zown; rewrite Hgr; reflexivity).
  assert (Hnorec : forall z, In z (zlog g) -> znd g z <> Some n).
  { intros z Hz E. destruct (c_recn _ _ IC z n Hz E) as (_ & D & _). congruence. }
  assert (Hcov : forall r k, covers g' (upd ls t l') r k <-> (k = n \/ covers g ls r k)).
  { intros r k. unfold covers. rewrite Hen, Hen', EL. split.
    - intros [[A|A]|[A|(z & Z1 & Z2 & Z3)]]; [left; exact A|right; left; exact A|discriminate|].
      right. right. right. exists z. rewrite Sq, Sq, Zd in *. split; [apply Il; exact Z1|auto].
    - intros [A|[A|[A|(z & Z1 & Z2 & Z3)]]]; [left; left; exact A|left; right; exact A|discriminate|].
      right. right. exists z. rewrite !Sq, Zd. split; [apply Il; exact Z1|auto]. }
  assert (Hpc : forall u, pcof (upd ls t l') u = if Nat.eqb u t then at_ l' else pcof ls u) by (intros u; apply (pcof_upd _ _ _ _ _ Hl)).
  constructor.
  - intros k Hk. rewrite Hcs. apply EL in Hk. destruct Hk as [->|Hk]; [exact Hcn|apply (c_lst _ _ IC k Hk)].
  - intros k Hk. rewrite Hpn in Hk. discriminate.
  - intros k Hk. rewrite Hen' in Hk. discriminate.
  - intros z k Hz Hk. rewrite EZ in Hz. rewrite Zd in Hk. destruct (c_recn _ _ IC z k Hz Hk) as (A & B & C).
    rewrite Hin, Hdl. repeat split; auto. intros Hkl. apply EL in Hkl. destruct Hkl as [->|Hkl]; [congruence|auto].
  - intros z z' k. rewrite EZ, !Zd. apply (c_uniq _ _ IC).
  - intros z k Hz Hk Hp. rewrite Hcs. rewrite Zd in Hk. apply (c_pend _ _ IC z k); [apply Il; exact Hz|exact Hk|].
    intros u. specialize (Hp u). rewrite Hpc in Hp. destruct (Nat.eqb_spec u t) as [E|]; [|exact Hp].
    rewrite E, (pcof_at _ _ _ Hl). apply Hpd.
  - intros r Hr0 Ho k m Hk Hm. apply Il in Hr0. rewrite Zo in Ho. apply Hcov in Hk. apply Hcov.
    destruct (option_eq_dec y (Some k)) as [Ey|Ey].
    + destruct (Hy k Ey) as [_ E]. rewrite E in Hm. inversion Hm. left. reflexivity.
    + rewrite Hnx in Hm by congruence. destruct Hk as [->|Hk].
      * right. left. apply Hnn. exact Hm.
      * right. apply (c_cov _ _ IC r Hr0 Ho k m Hk Hm).
  - intros u lu w r Hu Hhu c Hc. apply Hcov. right. apply nth_upd in Hu. destruct Hu as [(E1 & E2 & _)|(Hne & Hu)]; [subst u lu|].
    + rewrite Hr in Hc. rewrite Hh in Hhu. apply (c_refs _ _ IC t l w r Hl Hhu c Hc).
    + apply (c_refs _ _ IC u lu w r Hu Hhu c Hc).
  - intros u lu Hu Hhu. apply nth_upd in Hu. destruct Hu as [(E1 & E2 & _)|(Hne & Hu)]; [subst u lu|].
    + rewrite Hr. apply (c_noref _ _ IC t l Hl). rewrite <- Hh. exact Hhu.
    + apply (c_noref _ _ IC u lu Hu Hhu).
  - intros u lu Hu. apply nth_upd in Hu. destruct Hu as [(E1 & E2 & _)|(Hne & Hu)]; [subst u lu|]; [exact Ht|].
    pose proof (c_thr _ _ IC u lu Hu) as T. unfold thrC in *. rewrite EU. destruct (at_ lu); auto.
    + destruct d; auto. rewrite Hcs. exact T.
    + intros k. rewrite Zd, Hcs. apply T.
    + intros k. rewrite Zd, Hcs. apply T.
    + intros k. rewrite Zd, Hcs. apply T.
Qed.

(* ---------- the unlink step of erase ---------- *)
Lemma InvC_unlink g g' ls t l l' c (y : option nat) :
  InvA g ls -> InvB g ls -> InvC g ls -> nth_error ls t = Some l ->
  In c (lst g) -> (forall k, In k (lst g') <-> In k (lst g) /\ k <> c) ->
  zlog g' = zlog g -> unfixed g' = unfixed g ->
  (forall k, Some k <> y -> nx g' k = nx g k) ->
  (forall k, y = Some k -> forall m, nx g' k = Some m -> In m (lst g')) ->
  (forall m, nx g c = Some m -> In m (lst g')) -> Some c <> y ->
  (forall k, dl g' k = dl g k) -> (forall k, isnode g' k = isnode g k) -> (forall k, cs_of g' k = cs_of g k) ->
  (forall z, grec g' z = grec g z) ->
  dl g c = true ->
  enode g ls = None -> enode g' (upd ls t l') = Some c -> pnode (hpc g' (upd ls t l')) = None ->
  hnd l' = hnd l -> nrefs l' = nrefs l -> (forall z, past_dd (at_ l) z = false) -> (forall z, past_dd (at_ l') z = false) ->
  thrC g' l' ->
  InvC g' (upd ls t l').
Proof.
  intros IA IB IC Hl Hcl EL EZ EU Hnx Hy Hcn Hcy Hdl Hin Hcs Hgr Hdc Hen Hen' Hpn Hh Hr Hpd Hpd' Ht.
  assert (Sq : forall k, zsq g' k = zsq g k) by (intros k; unfold zsq; rewrite EZ; reflexivity).
  assert (Il : forall k, inlog g' k <-> inlog g k) by (intros k; unfold inlog; rewrite EZ, Hcs; tauto).
  assert (Zd : forall k, znd g' k = znd g k) by (intros k; unfold znd; rewrite Hgr; reflexivity).
  assert (Zo : forall k, zown g' k = zown g k) by (intros k; unfold zown; rewrite Hgr; reflexivity).
  assert (Hnorec : forall z, In z (zlog g) -> znd g z <> Some c).
  { intros z Hz E. destruct (c_recn _ _ IC z c Hz E) as (_ & _ & D). auto. }
  assert (Hcov : forall r k, covers g' (upd ls t l') r k <-> covers g ls r k).
  { intros r k. unfold covers. rewrite Hen, Hen', EL. split.
    - intros [[A B]|[A|(z & Z1 & Z2 & Z3)]]; [left; exact A|inversion A; subst; left; exact Hcl|].
      right. right. exists z. rewrite !Sq, Zd in *. split; [apply Il; exact Z1|auto].
    - intros [A|[A|(z & Z1 & Z2 & Z3)]]; [|discriminate|].
      + destruct (Nat.eq_dec k c) as [->|Hk]; [right; left; reflexivity|left; auto].
      + right. right. exists z. rewrite !Sq, Zd. split; [apply Il; exact Z1|auto]. }
  assert (Hpc : forall u, pcof (upd ls t l') u = if Nat.eqb u t then at_ l' else pcof ls u) by (intros u; apply (pcof_upd _ _ _ _ _ Hl)).
  constructor.
  - intros k Hk. rewrite Hcs. apply EL in Hk. apply (c_lst _ _ IC k). tauto.
  - intros k Hk. rewrite Hpn in Hk. discriminate.
  - intros k Hk. rewrite Hen' in Hk. inversion Hk; subst k. rewrite Hcs, Hin, Hdl, EZ, Hnx by exact Hcy.
    split; [apply (c_lst _ _ IC c Hcl)|]. split; [apply (gs_nodes _ _ (a_gs _ _ IA) c Hcl)|]. split; [exact Hdc|].
    split; [intros A; apply EL in A; tauto|]. split; [exact Hcn|]. intros z Hz. rewrite Zd. apply Hnorec. exact Hz.
  - intros z k Hz Hk. rewrite EZ in Hz. rewrite Zd in Hk. destruct (c_recn _ _ IC z k Hz Hk) as (A & B & C).
    rewrite Hin, Hdl. repeat split; auto. intros Hkl. apply EL in Hkl. tauto.
  - intros z z' k. rewrite EZ, !Zd. apply (c_uniq _ _ IC).
  - intros z k Hz Hk Hp. rewrite Hcs. rewrite Zd in Hk. apply (c_pend _ _ IC z k); [apply Il; exact Hz|exact Hk|].
    intros u. specialize (Hp u). rewrite Hpc in Hp. destruct (Nat.eqb_spec u t) as [E|]; [|exact Hp].
    rewrite E, (pcof_at _ _ _ Hl). apply Hpd.
  - intros r Hr0 Ho k m Hk Hm. apply Il in Hr0. rewrite Zo in Ho. apply Hcov in Hk. apply Hcov.
    destruct (option_eq_dec y (Some k)) as [Ey|Ey].
    + apply Hcov. left. apply (Hy k Ey m Hm).
    + rewrite Hnx in Hm by congruence. apply (c_cov _ _ IC r Hr0 Ho k m Hk Hm).
  - intros u lu w r Hu Hhu x Hx. apply Hcov. apply nth_upd in Hu. destruct Hu as [(E1 & E2 & _)|(Hne & Hu)]; [subst u lu|].
    + rewrite Hr in Hx. rewrite Hh in Hhu. apply (c_refs _ _ IC t l w r Hl Hhu x Hx).
    + apply (c_refs _ _ IC u lu w r Hu Hhu x Hx).
  - intros u lu Hu Hhu. apply nth_upd in Hu. destruct Hu as [(E1 & E2 & _)|(Hne & Hu)]; [subst u lu|].
    + rewrite Hr. apply (c_noref _ _ IC t l Hl). rewrite <- Hh. exact Hhu.
    + apply (c_noref _ _ IC u lu Hu Hhu).
  - intros u lu Hu. apply nth_upd in Hu. destruct Hu as [(E1 & E2 & _)|(Hne & Hu)]; [subst u lu; exact Ht|].
    pose proof (c_thr _ _ IC u lu Hu) as T. unfold thrC in *. rewrite EU. destruct (at_ lu); auto.
    + destruct d; auto. rewrite Hcs. exact T.
    + intros k. rewrite Zd, Hcs. apply T.
    + intros k. rewrite Zd, Hcs. apply T.
    + intros k. rewrite Zd, Hcs. apply T.
Qed.

(* ---------- pushes on the log ---------- *)
Section Push.
  Variables (g : glob) (ls : list loc) (t : nat) (l l' : loc) (z : nat).
  Let g' := with_zlog (with_zhead g (Some z)) (z :: zlog g).
  Hypothesis IA : InvA g ls.
  Hypothesis IB : InvB g ls.
  Hypothesis IC : InvC g ls.
  Hypothesis Hl : nth_error ls t = Some l.
  Hypothesis Hz : ~ In z (zlog g).
  Hypothesis Hcz : cs_of g z = Some Constr.
  Hypothesis Hpd : forall x, past_dd (at_ l) x = false.
  Hypothesis Hpd' : forall x, past_dd (at_ l') x = false.
  Hypothesis Ht : thrC g l'.

  Lemma push_sq c : In c (zlog g) -> zsq g' c = zsq g c.
  Proof. intros Hc. unfold zsq, g'. cbn [zlog with_zlog]. apply stamp_cons_old; auto. Qed.
  Lemma push_sqz c : In c (zlog g) -> zsq g' c < zsq g' z.
  Proof.
    intros Hc. rewrite (push_sq c Hc). unfold zsq, g'. cbn [zlog with_zlog]. rewrite stamp_cons_new.
    pose proof (zsq_pos g c Hc). unfold zsq in *. lia.
  Qed.
  Lemma push_inlog c : inlog g' c <-> c = z \/ inlog g c.
  Proof.
    unfold inlog, g'. cbn [zlog with_zlog In]. change (cs_of (with_zlog (with_zhead g (Some z)) (z :: zlog g)) c) with (cs_of g c). split.
    - intros [[A|A] B]; [left; auto|right; auto].
    - intros [->|[A B]]; [split; [left; reflexivity|congruence]|split; [right; exact A|exact B]].
  Qed.
  Lemma push_pc u : pcof (upd ls t l') u = if Nat.eqb u t then at_ l' else pcof ls u.
  Proof. apply (pcof_upd _ _ _ _ _ Hl). Qed.
  Lemma push_pdd x : (forall u, past_dd (pcof (upd ls t l') u) x = false) -> forall u, past_dd (pcof ls u) x = false.
  Proof.
    intros H u. specialize (H u). rewrite push_pc in H. destruct (Nat.eqb_spec u t) as [E|]; [|exact H].
    rewrite E, (pcof_at _ _ _ Hl). apply Hpd.
  Qed.
  Lemma push_thr u lu : u <> t -> nth_error ls u = Some lu -> thrC g' lu.
  Proof. intros _ Hu. apply (c_thr _ _ IC u lu Hu). Qed.

  (* the eraser publishes the record of the node it has just unlinked *)
  Lemma InvC_epush c :
    enode g ls = Some c -> znd g z = Some c -> zown g z = None ->
    enode g' (upd ls t l') = None -> pnode (hpc g' (upd ls t l')) = None ->
    hnd l' = hnd l -> nrefs l' = nrefs l ->
    InvC g' (upd ls t l').
  Proof.
    intros Hen Hzc Hzo Hen' Hpn Hh Hr.
    destruct (c_en _ _ IC c Hen) as (E1 & E2 & E3 & E4 & E5 & E6).
    assert (Hcov : forall r k, In r (zlog g) -> (covers g' (upd ls t l') r k <-> covers g ls r k)).
    { intros r k Hr0. unfold covers. rewrite Hen, Hen'. change (lst g') with (lst g). split.
      - intros [A|[A|(x & X1 & X2 & X3)]]; [left; exact A|discriminate|].
        apply push_inlog in X1. destruct X1 as [->|X1].
        + change (znd g' z) with (znd g z) in X2. right. left. congruence.
        + right. right. exists x. rewrite (push_sq r Hr0), (push_sq x (inlog_In _ _ X1)) in X3. auto.
      - intros [A|[A|(x & X1 & X2 & X3)]]; [left; exact A| |].
        + inversion A; subst k. right. right. exists z. split; [apply push_inlog; left; reflexivity|split; [exact Hzc|apply push_sqz; exact Hr0]].
        + right. right. exists x. rewrite (push_sq r Hr0), (push_sq x (inlog_In _ _ X1)). split; [apply push_inlog; right; exact X1|auto]. }
    constructor.
    - intros k Hk. apply (c_lst _ _ IC k Hk).
    - intros k Hk. rewrite Hpn in Hk. discriminate.
    - intros k Hk. rewrite Hen' in Hk. discriminate.
    - intros x k [<-|Hx] Hk.
      + change (znd g' z) with (znd g z) in Hk. rewrite Hzc in Hk. inversion Hk; subst k. auto.
      + apply (c_recn _ _ IC x k Hx Hk).
    - intros x x' k [<-|Hx] [<-|Hx'] Hk Hk'; auto; change (znd g' ?a) with (znd g a) in *.
      + exfalso. rewrite Hzc in Hk. inversion Hk; subst k. apply (E6 x' Hx' Hk').
      + exfalso. rewrite Hzc in Hk'. inversion Hk'; subst k. apply (E6 x Hx Hk).
      + apply (c_uniq _ _ IC x x' k); auto.
    - intros x k Hx Hk Hp. apply push_inlog in Hx. change (znd g' x) with (znd g x) in Hk. change (cs_of g' k) with (cs_of g k).
      destruct Hx as [->|Hx]; [rewrite Hzc in Hk; inversion Hk; subst k; exact E1|].
      apply (c_pend _ _ IC x k Hx Hk). apply push_pdd. exact Hp.
    - intros r Hr0 Ho k m Hk Hm. apply push_inlog in Hr0. change (zown g' r) with (zown g r) in Ho. change (nx g' k) with (nx g k) in Hm.
      destruct Hr0 as [->|Hr0]; [congruence|]. pose proof (inlog_In _ _ Hr0) as Hri.
      apply (Hcov r m Hri). apply (Hcov r k Hri) in Hk. apply (c_cov _ _ IC r Hr0 Ho k m Hk Hm).
    - intros u lu w r Hu Hhu x Hx. apply nth_upd in Hu.
      assert (hnd (locof ls u) = Some (w, Some r) /\ covers g ls r x) as [Hh0 Hc0].
      { destruct Hu as [(F1 & F2 & _)|(Hne & Hu)]; [subst u lu|].
        - rewrite (locof_at _ _ _ Hl). rewrite Hh in Hhu. rewrite Hr in Hx. split; [exact Hhu|apply (c_refs _ _ IC t l w r Hl Hhu x Hx)].
        - rewrite (locof_at _ _ _ Hu). split; [exact Hhu|apply (c_refs _ _ IC u lu w r Hu Hhu x Hx)]. }
      destruct (b_own1 _ _ IB u w r Hh0) as (A & _). apply (Hcov r x A). exact Hc0.
    - intros u lu Hu Hhu. apply nth_upd in Hu. destruct Hu as [(F1 & F2 & _)|(Hne & Hu)]; [subst u lu|].
      + rewrite Hr. apply (c_noref _ _ IC t l Hl). rewrite <- Hh. exact Hhu.
      + apply (c_noref _ _ IC u lu Hu Hhu).
    - intros u lu Hu. apply nth_upd in Hu. destruct Hu as [(F1 & F2 & _)|(Hne & Hu)]; [subst u lu; exact Ht|].
      apply (c_thr _ _ IC u lu Hu).
  Qed.

  (* a handle registers *)
  Lemma InvC_rpush w :
    znd g z = None -> hpc g' (upd ls t l') = hpc g ls ->
    hnd l = Some (w, None) -> hnd l' = Some (w, Some z) -> nrefs l' = [] ->
    InvC g' (upd ls t l').
  Proof.
    intros Hzn Hhp Hh Hh' Hr.
    assert (Hen : enode g' (upd ls t l') = enode g ls).
    { unfold enode. rewrite Hhp. reflexivity. }
    assert (Hcov : forall r k, In r (zlog g) -> (covers g' (upd ls t l') r k <-> covers g ls r k)).
    { intros r k Hr0. unfold covers. rewrite Hen. change (lst g') with (lst g). split.
      - intros [A|[A|(x & X1 & X2 & X3)]]; [left; exact A|right; left; exact A|].
        apply push_inlog in X1. destruct X1 as [->|X1]; [change (znd g' z) with (znd g z) in X2; congruence|].
        right. right. exists x. rewrite (push_sq r Hr0), (push_sq x (inlog_In _ _ X1)) in X3. auto.
      - intros [A|[A|(x & X1 & X2 & X3)]]; [left; exact A|right; left; exact A|].
        right. right. exists x. rewrite (push_sq r Hr0), (push_sq x (inlog_In _ _ X1)). split; [apply push_inlog; right; exact X1|auto]. }
    assert (Hcovz : forall k, covers g' (upd ls t l') z k -> In k (lst g) \/ enode g ls = Some k).
    { intros k [A|[A|(x & X1 & X2 & X3)]]; [left; exact A|right; rewrite <- Hen; exact A|exfalso].
      apply push_inlog in X1. destruct X1 as [->|X1]; [lia|]. pose proof (push_sqz x (inlog_In _ _ X1)). lia. }
    constructor.
    - intros k Hk. apply (c_lst _ _ IC k Hk).
    - intros k Hk. rewrite Hhp in Hk. apply (c_pn _ _ IC k Hk).
    - intros k Hk. rewrite Hen in Hk. destruct (c_en _ _ IC k Hk) as (E1 & E2 & E3 & E4 & E5 & E6). repeat split; auto.
      intros x [<-|Hx]; [change (znd g' z) with (znd g z); congruence|apply E6; exact Hx].
    - intros x k [<-|Hx] Hk; [change (znd g' z) with (znd g z) in Hk; congruence|apply (c_recn _ _ IC x k Hx Hk)].
    - intros x x' k [<-|Hx] [<-|Hx'] Hk Hk'; auto; change (znd g' ?a) with (znd g a) in *; try congruence.
      apply (c_uniq _ _ IC x x' k); auto.
    - intros x k Hx Hk Hp. apply push_inlog in Hx. change (znd g' x) with (znd g x) in Hk.
      destruct Hx as [->|Hx]; [congruence|]. apply (c_pend _ _ IC x k Hx Hk). apply push_pdd. exact Hp.
    - intros r Hr0 Ho k m Hk Hm. apply push_inlog in Hr0. change (zown g' r) with (zown g r) in Ho. change (nx g' k) with (nx g k) in Hm.
      destruct Hr0 as [->|Hr0].
      + destruct (Hcovz k Hk) as [A|A].
        * left. apply (lst_next_in g _ k m (a_gs _ _ IA) A Hm).
        * left. destruct (c_en _ _ IC k A) as (_ & _ & _ & _ & E5 & _). apply E5. exact Hm.
      + pose proof (inlog_In _ _ Hr0) as Hri.
        apply (Hcov r m Hri). apply (Hcov r k Hri) in Hk. apply (c_cov _ _ IC r Hr0 Ho k m Hk Hm).
    - intros u lu w0 r Hu Hhu x Hx. apply nth_upd in Hu. destruct Hu as [(F1 & F2 & _)|(Hne & Hu)]; [subst u lu|].
      + rewrite Hr in Hx. destruct Hx.
      + assert (hnd (locof ls u) = Some (w0, Some r)) as Hh0 by (rewrite (locof_at _ _ _ Hu); exact Hhu).
        destruct (b_own1 _ _ IB u w0 r Hh0) as (A & _). apply (Hcov r x A). apply (c_refs _ _ IC u lu w0 r Hu Hhu x Hx).
    - intros u lu Hu Hhu. apply nth_upd in Hu. destruct Hu as [(F1 & F2 & _)|(Hne & Hu)]; [subst u lu; exact Hr|].
      apply (c_noref _ _ IC u lu Hu Hhu).
    - intros u lu Hu. apply nth_upd in Hu. destruct Hu as [(F1 & F2 & _)|(Hne & Hu)]; [subst u lu; exact Ht|].
      apply (c_thr _ _ IC u lu Hu).
  Qed.
End Push.

Lemma pnode_fresh g ls x : InvA g ls -> pnode (hpc g ls) = Some x -> dl g x = false /\ ~ In x (lst g) /\ isnode g x = true.
Proof.
  intros IA H. pose proof (gs_hold _ _ (a_gs _ _ IA)) as G. destruct (hpc g ls); cbn in H; try discriminate; inversion H; subst; cbn [hold_ok] in G.
  - destruct G as (A & B & _ & _ & C & _). auto.
  - destruct G as ((A & B & _ & _ & C & _) & _). auto.
  - destruct G as ((A & B & _ & _ & C & _) & _). auto.
  - destruct G as (A & B & _ & _ & C & _). auto.
  - destruct G as (old & A & B & _ & _ & C & _). auto.
  - destruct G as ((A & B & _ & _ & C & _) & _). auto.
  - destruct G as (A & B & _ & _ & C & _). auto.
Qed.

(* ---------- the reclaimer destroys / deallocates the node of the record under its pointer ---------- *)
Lemma InvC_nodecs g g' ls t l l' n d :
  InvA g ls -> InvB g ls -> InvC g ls -> nth_error ls t = Some l ->
  region_pc (at_ l) = Some n -> znd g n = Some d ->
  lst g' = lst g -> zlog g' = zlog g -> unfixed g' = unfixed g ->
  (forall k, nx g' k = nx g k) -> (forall k, dl g' k = dl g k) -> (forall k, isnode g' k = isnode g k) ->
  (forall z, grec g' z = grec g z) ->
  (forall k, k <> d -> cs_of g' k = cs_of g k) ->
  hpc g' (upd ls t l') = hpc g ls ->
  hnd l' = hnd l -> nrefs l' = nrefs l ->
  past_dd (at_ l') n = true -> (forall x, x <> n -> past_dd (at_ l) x = false /\ past_dd (at_ l') x = false) ->
  thrC g' l' ->
  InvC g' (upd ls t l').
Proof.
  intros IA IB IC Hl Hrn Hd EL EZ EU Hnx Hdl Hin Hgr Hcs Hhp Hh Hr Hpn Hpx Ht.
  pose proof (region_of g t l n (b_thr _ _ IB t l Hl) Hrn) as (Rn & Rlt & Rbt & Run).
  pose proof (inlog_In _ _ Rn) as Rni.
  destruct (c_recn _ _ IC n d Rni Hd) as (D1 & D2 & D3).
  assert (Sq : forall k, zsq g' k = zsq g k) by (intros k; unfold zsq; rewrite EZ; reflexivity).
  assert (Zd : forall k, znd g' k = znd g k) by (intros k; unfold znd; rewrite Hgr; reflexivity).
  assert (Zo : forall k, zown g' k = zown g k) by (intros k; unfold zown; rewrite Hgr; reflexivity).
  assert (Hdz : ~ In d (zlog g)).
  { intros A. pose proof (b_rec _ _ IB d A) as B. rewrite (isnode_isrec _ _ D1) in B. discriminate. }
  assert (Il : forall k, inlog g' k <-> inlog g k).
  { intros k. unfold inlog. rewrite EZ. split; intros [A B]; split; auto.
    - rewrite <- Hcs; [exact B|]. intros E. subst k. auto.
    - rewrite Hcs; [exact B|]. intros E. subst k. auto. }
  assert (Hen : enode g' (upd ls t l') = enode g ls).
  { unfold enode. rewrite Hhp. unfold erasing_node. destruct (hpc g ls); auto; apply Zd. }
  assert (Hcov : forall r k, covers g' (upd ls t l') r k <-> covers g ls r k).
  { intros r k. unfold covers. rewrite Hen, EL. split; (intros [A|[A|(z & Z1 & Z2 & Z3)]]; [left; exact A|right; left; exact A|right; right; exists z]).
    - rewrite !Sq, Zd in *. split; [apply Il; exact Z1|auto].
    - rewrite !Sq, Zd. split; [apply Il; exact Z1|auto]. }
  assert (Hpc : forall u, pcof (upd ls t l') u = if Nat.eqb u t then at_ l' else pcof ls u) by (intros u; apply (pcof_upd _ _ _ _ _ Hl)).
  constructor.
  - intros k Hk. rewrite EL in Hk. rewrite Hcs; [apply (c_lst _ _ IC k Hk)|]. intros ->. auto.
  - intros k Hk. rewrite Hhp in Hk. rewrite Hcs; [apply (c_pn _ _ IC k Hk)|]. intros ->.
    destruct (pnode_fresh g ls d IA Hk) as (A & _). congruence.
  - intros k Hk. rewrite Hen in Hk. destruct (c_en _ _ IC k Hk) as (E1 & E2 & E3 & E4 & E5 & E6).
    assert (k <> d) as Hkd by (intros ->; apply (E6 n Rni Hd)).
    rewrite (Hcs k Hkd), Hin, Hdl, EL, EZ, Hnx. repeat split; auto. intros z Hz. rewrite Zd. apply E6. exact Hz.
  - intros z k Hz Hk. rewrite EZ in Hz. rewrite Zd in Hk. rewrite Hin, Hdl, EL. apply (c_recn _ _ IC z k Hz Hk).
  - intros z z' k. rewrite EZ, !Zd. apply (c_uniq _ _ IC).
  - intros z k Hz Hk Hp. apply Il in Hz. rewrite Zd in Hk. destruct (Nat.eq_dec z n) as [->|Hzn].
    + exfalso. specialize (Hp t). rewrite Hpc, Nat.eqb_refl in Hp. congruence.
    + assert (k <> d) as Hkd by (intros ->; apply Hzn; apply (c_uniq _ _ IC z n d (inlog_In _ _ Hz) Rni Hk Hd)).
      rewrite (Hcs k Hkd). apply (c_pend _ _ IC z k Hz Hk). intros u. specialize (Hp u). rewrite Hpc in Hp.
      destruct (Nat.eqb_spec u t) as [E|]; [|exact Hp]. rewrite E, (pcof_at _ _ _ Hl). apply (Hpx z Hzn).
  - intros r Hr0 Ho k m Hk Hm. apply Il in Hr0. rewrite Zo in Ho. rewrite Hnx in Hm. apply Hcov. apply Hcov in Hk.
    apply (c_cov _ _ IC r Hr0 Ho k m Hk Hm).
  - intros u lu w r Hu Hhu x Hx. apply Hcov. apply nth_upd in Hu. destruct Hu as [(F1 & F2 & _)|(Hne & Hu)]; [subst u lu|].
    + rewrite Hr in Hx. rewrite Hh in Hhu. apply (c_refs _ _ IC t l w r Hl Hhu x Hx).
    + apply (c_refs _ _ IC u lu w r Hu Hhu x Hx).
  - intros u lu Hu Hhu. apply nth_upd in Hu. destruct Hu as [(F1 & F2 & _)|(Hne & Hu)]; [subst u lu|].
    + rewrite Hr. apply (c_noref _ _ IC t l Hl). rewrite <- Hh. exact Hhu.
    + apply (c_noref _ _ IC u lu Hu Hhu).
  - intros u lu Hu. apply nth_upd in Hu. destruct Hu as [(F1 & F2 & _)|(Hne & Hu)]; [subst u lu; exact Ht|].
    assert (region_pc (at_ lu) = None) as Hnr.
    { destruct (region_pc (at_ lu)) as [m|] eqn:E; [|reflexivity]. exfalso. apply Hne. symmetry.
      apply (one_reclaimer g ls IA IB u t lu l m n Hu Hl E Hrn). }
    pose proof (c_thr _ _ IC u lu Hu) as T. unfold thrC in *. rewrite EU. destruct (at_ lu); auto; try discriminate.
Qed.

(* ---------- the reclaimer deallocates the record under its pointer ---------- *)
Lemma InvC_zf g g' ls t l l' n nxt :
  InvA g ls -> InvB g ls -> InvC g ls -> nth_error ls t = Some l ->
  at_ l = U_zf n nxt ->
  lst g' = lst g -> zlog g' = zlog g -> unfixed g' = unfixed g ->
  (forall k, nx g' k = nx g k) -> (forall k, dl g' k = dl g k) -> (forall k, isnode g' k = isnode g k) ->
  (forall z, grec g' z = grec g z) ->
  (forall k, k <> n -> cs_of g' k = cs_of g k) -> cs_of g' n = Some Freed ->
  hpc g' (upd ls t l') = hpc g ls ->
  hnd l' = hnd l -> nrefs l' = nrefs l ->
  thrC g' l' ->
  InvC g' (upd ls t l').
Proof.
  intros IA IB IC Hl Hat EL EZ EU Hnx Hdl Hin Hgr Hcs Hfn Hhp Hh Hr Ht.
  assert (Hrn : region_pc (at_ l) = Some n) by (rewrite Hat; reflexivity).
  pose proof (region_of g t l n (b_thr _ _ IB t l Hl) Hrn) as (Rn & Rlt & Rbt & Run).
  pose proof (inlog_In _ _ Rn) as Rni.
  assert (Hnr : isrec g n = true) by (apply (b_rec _ _ IB n Rni)).
  assert (Sq : forall k, zsq g' k = zsq g k) by (intros k; unfold zsq; rewrite EZ; reflexivity).
  assert (Zd : forall k, znd g' k = znd g k) by (intros k; unfold znd; rewrite Hgr; reflexivity).
  assert (Zo : forall k, zown g' k = zown g k) by (intros k; unfold zown; rewrite Hgr; reflexivity).
  assert (Il : forall k, inlog g' k <-> inlog g k /\ k <> n).
  { intros k. unfold inlog. rewrite EZ. destruct (Nat.eq_dec k n) as [->|Hk].
    - rewrite Hfn. split; [intros [_ A]; congruence|tauto].
    - rewrite (Hcs k Hk). tauto. }
  assert (Hnode : forall k, isnode g k = true -> cs_of g' k = cs_of g k).
  { intros k Hk. apply Hcs. intros ->. rewrite (isrec_isnode _ _ Hnr) in Hk. discriminate. }
  destruct (own_facts g ls IA IB t l Hl (region_pc_unlock _ _ Hrn)) as (Ia & Oa & _).
  assert (Hen : enode g' (upd ls t l') = enode g ls).
  { unfold enode. rewrite Hhp. unfold erasing_node. destruct (hpc g ls); auto; apply Zd. }
  assert (Hcov1 : forall r k, covers g' (upd ls t l') r k -> covers g ls r k).
  { intros r k. unfold covers. rewrite Hen, EL. intros [A|[A|(z & Z1 & Z2 & Z3)]]; [left; exact A|right; left; exact A|right; right; exists z].
    rewrite !Sq, Zd in *. apply Il in Z1. tauto. }
  assert (Hcov2 : forall r k, inlog g r -> zown g r <> None -> covers g ls r k -> covers g' (upd ls t l') r k).
  { intros r k Hr0 Ho. unfold covers. rewrite Hen, EL. intros [A|[A|(z & Z1 & Z2 & Z3)]]; [left; exact A|right; left; exact A|right; right; exists z].
    rewrite !Sq, Zd. split; [apply Il; split; [exact Z1|]|auto]. intros ->. apply Ho. apply Run; [exact Hr0|lia]. }
  assert (Hpc : forall u, pcof (upd ls t l') u = if Nat.eqb u t then at_ l' else pcof ls u) by (intros u; apply (pcof_upd _ _ _ _ _ Hl)).
  constructor.
  - intros k Hk. rewrite EL in Hk. rewrite Hnode; [apply (c_lst _ _ IC k Hk)|apply (gs_nodes _ _ (a_gs _ _ IA) k Hk)].
  - intros k Hk. rewrite Hhp in Hk. rewrite Hnode; [apply (c_pn _ _ IC k Hk)|apply (pnode_fresh g ls k IA Hk)].
  - intros k Hk. rewrite Hen in Hk. destruct (c_en _ _ IC k Hk) as (E1 & E2 & E3 & E4 & E5 & E6).
    rewrite (Hnode k E2), Hin, Hdl, EL, EZ, Hnx. repeat split; auto. intros z Hz. rewrite Zd. apply E6. exact Hz.
  - intros z k Hz Hk. rewrite EZ in Hz. rewrite Zd in Hk. rewrite Hin, Hdl, EL. apply (c_recn _ _ IC z k Hz Hk).
  - intros z z' k. rewrite EZ, !Zd. apply (c_uniq _ _ IC).
  - intros z k Hz Hk Hp. apply Il in Hz. destruct Hz as [Hz Hzn]. rewrite Zd in Hk.
    destruct (c_recn _ _ IC z k (inlog_In _ _ Hz) Hk) as (K1 & _). rewrite (Hnode k K1).
    apply (c_pend _ _ IC z k Hz Hk). intros u. specialize (Hp u). rewrite Hpc in Hp.
    destruct (Nat.eqb_spec u t) as [E|]; [|exact Hp]. rewrite E, (pcof_at _ _ _ Hl), Hat. cbn. apply Nat.eqb_neq. auto.
  - intros r Hr0 Ho k m Hk Hm. apply Il in Hr0. destruct Hr0 as [Hr0 _]. rewrite Zo in Ho. rewrite Hnx in Hm.
    apply (Hcov2 r m Hr0 Ho). apply (c_cov _ _ IC r Hr0 Ho k m (Hcov1 r k Hk) Hm).
  - intros u lu w r Hu Hhu x Hx. apply nth_upd in Hu.
    assert (hnd (locof ls u) = Some (w, Some r) /\ covers g ls r x) as [Hh0 Hc0].
    { destruct Hu as [(F1 & F2 & _)|(Hne & Hu)]; [subst u lu|].
      - rewrite (locof_at _ _ _ Hl). rewrite Hh in Hhu. rewrite Hr in Hx. split; [exact Hhu|apply (c_refs _ _ IC t l w r Hl Hhu x Hx)].
      - rewrite (locof_at _ _ _ Hu). split; [exact Hhu|apply (c_refs _ _ IC u lu w r Hu Hhu x Hx)]. }
    destruct (b_own1 _ _ IB u w r Hh0) as (A & B & C). apply Hcov2; [split; [exact A|congruence]|congruence|exact Hc0].
  - intros u lu Hu Hhu. apply nth_upd in Hu. destruct Hu as [(F1 & F2 & _)|(Hne & Hu)]; [subst u lu|].
    + rewrite Hr. apply (c_noref _ _ IC t l Hl). rewrite <- Hh. exact Hhu.
    + apply (c_noref _ _ IC u lu Hu Hhu).
  - intros u lu Hu. apply nth_upd in Hu. destruct Hu as [(F1 & F2 & _)|(Hne & Hu)]; [subst u lu; exact Ht|].
    assert (region_pc (at_ lu) = None) as Hnr'.
    { destruct (region_pc (at_ lu)) as [m|] eqn:E; [|reflexivity]. exfalso. apply Hne. symmetry.
      apply (one_reclaimer g ls IA IB u t lu l m n Hu Hl E Hrn). }
    pose proof (c_thr _ _ IC u lu Hu) as T. unfold thrC in *. rewrite EU. destruct (at_ lu); auto; try discriminate.
Qed.

(* ---------- states that look the same to InvC, except for one unreachable node x ---------- *)
Record sameV (g g' : glob) (x : option nat) : Prop := {
  v_lst : lst g' = lst g; v_zlog : zlog g' = zlog g; v_unf : unfixed g' = unfixed g;
  v_nx : forall k, Some k <> x -> nx g' k = nx g k;
  v_dl : forall k, dl g k = true -> dl g' k = true;
  v_isnode : forall k, isnode g k = true -> isnode g' k = true;
  v_cs : forall k, isnode g k = true -> Some k <> x -> cs_of g' k = cs_of g k;
  v_rec : forall z, In z (zlog g) -> (inlog g' z <-> inlog g z) /\ znd g' z = znd g z /\ (zown g' z <> None -> zown g z <> None)
}.
Lemma sameV_heap g g' : heap g' = heap g -> lst g' = lst g -> zlog g' = zlog g -> unfixed g' = unfixed g -> sameV g g' None.
Proof.
  intros Hh Hl Hz Hu. assert (forall k, getc g' k = getc g k) as G by (intros k; unfold getc; rewrite Hh; reflexivity).
  assert (forall k, gnode g' k = gnode g k) as Gn by (intros k; unfold gnode; rewrite G; reflexivity).
  assert (forall k, grec g' k = grec g k) as Gr by (intros k; unfold grec; rewrite G; reflexivity).
  constructor; auto.
  - intros k _. unfold nx. rewrite Gn. reflexivity.
  - intros k. unfold dl. rewrite Gn. auto.
  - intros k. unfold isnode. rewrite G. auto.
  - intros k _ _. unfold cs_of. rewrite G. reflexivity.
  - intros z _. unfold inlog, znd, zown, cs_of. rewrite Hz, G, Gr. tauto.
Qed.
Lemma sameV_refl g : sameV g g None.
Proof. apply sameV_heap; reflexivity. Qed.
Lemma sameV_ext g g1 g2 x : sameV g g1 x -> heap g2 = heap g1 -> lst g2 = lst g1 -> zlog g2 = zlog g1 -> unfixed g2 = unfixed g1 -> sameV g g2 x.
Proof.
  intros [A B C D E F G H] Hh Hl Hz Hu.
  destruct (sameV_heap g1 g2 Hh Hl Hz Hu) as [A' B' C' D' E' F' G' H'].
  constructor; try congruence.
  - intros k Hk. rewrite D' by discriminate. auto.
  - intros k Hk. apply E'. auto.
  - intros k Hk. apply F'. auto.
  - intros k Hk Hx. rewrite G'; [auto|apply F; exact Hk|discriminate].
  - intros z Hz0. destruct (H z Hz0) as (P & Q & R). assert (In z (zlog g1)) as Hz1 by (rewrite B; exact Hz0).
    destruct (H' z Hz1) as (P' & Q' & R'). split; [tauto|split; [congruence|auto]].
Qed.
Ltac sameV_wrap := intros H; eapply sameV_ext; [exact H| | | |]; reflexivity.
Lemma sameV_fault g a x : sameV g a x -> sameV g (with_fault a) x. Proof. sameV_wrap. Qed.
Lemma sameV_misuse g a x : sameV g a x -> sameV g (with_misuse a) x. Proof. sameV_wrap. Qed.
Lemma sameV_mtx g a m x : sameV g a x -> sameV g (with_mtx a m) x. Proof. sameV_wrap. Qed.
Lemma sameV_head g a m x : sameV g a x -> sameV g (with_head a m) x. Proof. sameV_wrap. Qed.
Lemma sameV_tail g a m x : sameV g a x -> sameV g (with_tail a m) x. Proof. sameV_wrap. Qed.
Lemma sameV_pos g a p q x : sameV g a x -> sameV g (with_pos a p q) x. Proof. sameV_wrap. Qed.
Lemma sameV_zhead g a m x : sameV g a x -> sameV g (with_zhead a m) x. Proof. sameV_wrap. Qed.

Lemma sameV_setn g k n (x : option nat) : isnode g k = true ->
  (x = Some k \/ nnext n = nnext (gnode g k)) -> (ndel (gnode g k) = true -> ndel n = true) ->
  sameV g (setn g k n) x.
Proof.
  intros H Hx Hd. destruct (modc_fields g k (set_body (BNode n))) as (F1 & F2 & F3 & F4 & F5 & F6 & F7 & F8 & F9 & F10 & F11 & F12).
  pose proof (isnode_lt _ _ H) as Hlt.
  constructor; auto.
  - intros j Hj. unfold nx. rewrite (gnode_setn _ _ _ _ Hlt). destruct (Nat.eqb_spec j k) as [->|]; [|reflexivity].
    destruct Hx as [->|A]; [congruence|exact A].
  - intros j. unfold dl. rewrite (gnode_setn _ _ _ _ Hlt). destruct (Nat.eqb_spec j k) as [->|]; auto.
  - intros j Hj. rewrite isnode_setn; auto.
  - intros j _ _. apply cs_of_setn.
  - intros z Hz. unfold inlog, znd, zown. fold (setn g k n) in F12. rewrite F12, cs_of_setn, grec_setn by exact H. tauto.
Qed.

Lemma sameV_setz_priv g z r : isrec g z = true -> ~ In z (zlog g) -> sameV g (setz g z r) None.
Proof.
  intros H Hz. destruct (modc_fields g z (set_body (BRec r))) as (F1 & F2 & F3 & F4 & F5 & F6 & F7 & F8 & F9 & F10 & F11 & F12).
  fold (setz g z r) in F7, F11, F12.
  constructor; auto.
  - intros j _. unfold nx. rewrite gnode_setz by exact H. reflexivity.
  - intros j. unfold dl. rewrite gnode_setz by exact H. auto.
  - intros j Hj. rewrite isnode_setz; auto.
  - intros j _ _. apply cs_of_setz.
  - intros x Hx. assert (x <> z) as Hxz by (intros ->; auto).
    unfold inlog, znd, zown. rewrite F12, cs_of_setz, grec_setz_ne by exact Hxz. tauto.
Qed.
Lemma sameV_setz_own g a r : isrec g a = true -> znode r = znode (grec g a) -> (zowner r <> None -> zowner (grec g a) <> None) ->
  sameV g (setz g a r) None.
Proof.
  intros H Hn Ho. destruct (modc_fields g a (set_body (BRec r))) as (F1 & F2 & F3 & F4 & F5 & F6 & F7 & F8 & F9 & F10 & F11 & F12).
  fold (setz g a r) in F7, F11, F12.
  constructor; auto.
  - intros j _. unfold nx. rewrite gnode_setz by exact H. reflexivity.
  - intros j. unfold dl. rewrite gnode_setz by exact H. auto.
  - intros j Hj. rewrite isnode_setz; auto.
  - intros j _ _. apply cs_of_setz.
  - intros x Hx. unfold inlog, znd, zown. rewrite F12, cs_of_setz, (grec_setz _ _ _ _ (isrec_lt _ _ H)).
    destruct (Nat.eqb_spec x a) as [->|]; [rewrite Hn; tauto|tauto].
Qed.
Lemma sameV_alloc g b : (forall z, In z (zlog g) -> z < nheap g) -> (b = BNode dnode \/ exists r, b = BRec r) ->
  sameV g (fst (do_alloc g b)) None.
Proof.
  intros Hlt Hb.
  assert (Gn : forall k, gnode (fst (do_alloc g b)) k = gnode g k).
  { intros k. unfold gnode at 1. rewrite getc_alloc. destruct (Nat.eqb_spec k (nheap g)) as [->|]; [|reflexivity].
    unfold gnode. rewrite getc_ge by lia. destruct Hb as [->|(r & ->)]; reflexivity. }
  constructor; try reflexivity.
  - intros k _. unfold nx. rewrite Gn. reflexivity.
  - intros k. unfold dl. rewrite Gn. auto.
  - intros k Hk. rewrite isnode_alloc. destruct (Nat.eqb_spec k (nheap g)) as [->|]; [apply isnode_lt in Hk; lia|exact Hk].
  - intros k Hk _. rewrite cs_of_alloc. destruct (Nat.eqb_spec k (nheap g)) as [->|]; [apply isnode_lt in Hk; lia|reflexivity].
  - intros z Hz. specialize (Hlt z Hz). unfold inlog, znd, zown, grec. change (zlog (fst (do_alloc g b))) with (zlog g).
    rewrite cs_of_alloc, getc_alloc. destruct (Nat.eqb_spec z (nheap g)) as [->|]; [lia|tauto].
Qed.
Lemma sameV_construct_rec g z r : isrec g z = true -> ~ In z (zlog g) -> sameV g (fst (do_construct g z (BRec r))) None.
Proof.
  intros H Hz. destruct (construct_fields g z (BRec r)) as (F1 & F2 & F3 & F4 & F5 & F6 & F7 & F8 & F9 & F10 & F11 & F12).
  constructor; auto.
  - intros j _. unfold nx. rewrite gnode_construct_rec by exact H. reflexivity.
  - intros j. unfold dl. rewrite gnode_construct_rec by exact H. auto.
  - intros j Hj. rewrite isnode_construct_rec; auto.
  - intros j Hj _. rewrite cs_of_construct. destruct (Nat.eqb_spec j z) as [->|]; [|reflexivity].
    rewrite (isrec_isnode _ _ H) in Hj. discriminate.
  - intros x Hx. assert (x <> z) as Hxz by (intros ->; auto).
    unfold inlog, znd, zown. rewrite F11, cs_of_construct, grec_construct_rec by exact H.
    destruct (Nat.eqb_spec x z); [contradiction|tauto].
Qed.
Lemma sameV_construct_node g n v : isnode g n = true -> nnext v = None -> ndel v = false -> gnode g n = dnode -> ~ In n (zlog g) ->
  sameV g (fst (do_construct g n (BNode v))) (Some n).
Proof.
  intros H Hv1 Hv2 Hg Hnz. destruct (construct_fields g n (BNode v)) as (F1 & F2 & F3 & F4 & F5 & F6 & F7 & F8 & F9 & F10 & F11 & F12).
  constructor; auto.
  - intros j Hj. unfold nx. rewrite gnode_construct_node by exact H. destruct (Nat.eqb_spec j n) as [->|]; [congruence|reflexivity].
  - intros j. unfold dl. rewrite gnode_construct_node by exact H. destruct (Nat.eqb_spec j n) as [->|]; [|auto].
    rewrite Hg. cbn. discriminate.
  - intros j Hj. rewrite isnode_construct_node; auto.
  - intros j Hj Hx. rewrite cs_of_construct. destruct (Nat.eqb_spec j n) as [->|]; [congruence|reflexivity].
  - intros x Hx. unfold inlog, znd, zown. rewrite F11, cs_of_construct, grec_construct_node by exact H.
    destruct (Nat.eqb_spec x n) as [->|]; [contradiction|tauto].
Qed.
Lemma sameV_destroy_rec g n : isrec g n = true -> cs_of g n = Some Constr -> sameV g (fst (do_destroy g n)) None.
Proof.
  intros H Hc. destruct (destroy_fields g n) as (F1 & F2 & F3 & F4 & F5 & F6 & F7 & F8 & F9 & F10 & F11 & F12).
  constructor; auto.
  - intros j _. unfold nx. rewrite gnode_destroy. reflexivity.
  - intros j. unfold dl. rewrite gnode_destroy. auto.
  - intros j Hj. rewrite isnode_destroy. exact Hj.
  - intros j Hj _. rewrite cs_of_destroy. destruct (Nat.eqb_spec j n) as [->|]; [|reflexivity]. rewrite (isrec_isnode _ _ H) in Hj. discriminate.
  - intros x Hx. unfold inlog, znd, zown. rewrite F11, cs_of_destroy, grec_destroy.
    destruct (Nat.eqb_spec x n) as [->|]; [rewrite Hc; split; [split; intros [A _]; split; auto; discriminate|tauto]|tauto].
Qed.
Lemma sameV_alloc_raw g : (forall z, In z (zlog g) -> z < nheap g) -> sameV g (fst (do_alloc g BRaw)) None.
Proof.
  intros Hlt.
  constructor; try reflexivity.
  - intros k _. unfold nx. rewrite gnode_alloc_raw. reflexivity.
  - intros k. unfold dl. rewrite gnode_alloc_raw. auto.
  - intros k Hk. rewrite isnode_alloc. destruct (Nat.eqb_spec k (nheap g)) as [->|]; [apply isnode_lt in Hk; lia|exact Hk].
  - intros k Hk _. rewrite cs_of_alloc. destruct (Nat.eqb_spec k (nheap g)) as [->|]; [apply isnode_lt in Hk; lia|reflexivity].
  - intros z Hz. specialize (Hlt z Hz). unfold inlog, znd, zown, grec. change (zlog (fst (do_alloc g BRaw))) with (zlog g).
    rewrite cs_of_alloc, getc_alloc. destruct (Nat.eqb_spec z (nheap g)) as [->|]; [lia|tauto].
Qed.
Lemma sameV_dealloc_raw g n : (forall z, In z (zlog g) -> isrec g z = true) -> sameV g (fst (do_dealloc_raw g n)) None.
Proof.
  intros Hr. destruct (dealloc_raw_fields g n) as (F1 & F2 & F3 & F4 & F5 & F6 & F7 & F8 & F9 & F10 & F11 & F12).
  constructor; auto.
  - intros j _. unfold nx. rewrite gnode_dealloc_raw. reflexivity.
  - intros j. unfold dl. rewrite gnode_dealloc_raw. auto.
  - intros j Hj. rewrite isnode_dealloc_raw. exact Hj.
  - intros j Hj _. apply cs_of_dealloc_raw. left. exact Hj.
  - intros x Hx. unfold inlog, znd, zown. rewrite F11, grec_dealloc_raw, cs_of_dealloc_raw by (right; apply Hr; exact Hx). tauto.
Qed.
Lemma sameV_null g k : sameV g (fst (null_call g k)) None.
Proof. cbn. apply sameV_fault, sameV_refl. Qed.

Lemma InvC_frameV g g' ls t l l' (x : option nat) :
  InvA g ls -> InvB g ls -> InvC g ls -> nth_error ls t = Some l -> sameV g g' x ->
  enode g' (upd ls t l') = enode g ls ->
  (forall n, pnode (hpc g' (upd ls t l')) = Some n -> cs_of g' n = Some Constr) ->
  (forall z, past_dd (at_ l) z = true -> past_dd (at_ l') z = true) ->
  (forall k, x = Some k -> ~ In k (lst g) /\ enode g ls <> Some k /\ (forall z, In z (zlog g) -> znd g z <> Some k)) ->
  (forall w r, hnd l' = Some (w, Some r) -> hnd l = Some (w, Some r) /\ forall c, In c (nrefs l') -> covers g ls r c) ->
  ((forall w r, hnd l' <> Some (w, Some r)) -> nrefs l' = []) ->
  thrC g' l' ->
  InvC g' (upd ls t l').
Proof.
  intros IA IB IC Hl [V1 V2 V3 V4 V5 V6 V7 V8]. intros. eapply (InvC_frame g g' ls t l l' x); eauto.
Qed.

Lemma enode_other g g' ls t l l' : InvA g ls -> nth_error ls t = Some l ->
  holds (at_ l) = false -> wmtx g' = wmtx g ->
  (forall z, priv_rec (hpc g ls) = Some z -> znd g' z = znd g z) ->
  hpc g' (upd ls t l') = hpc g ls /\ enode g' (upd ls t l') = enode g ls.
Proof.
  intros IA Hl Hh Hm Hz. pose proof (hpc_other g g' ls t l l' IA Hl Hh Hm) as E. split; [exact E|].
  unfold enode. rewrite E. unfold erasing_node. destruct (hpc g ls) eqn:Ep; auto; apply Hz; reflexivity.
Qed.
Lemma hpc_me g ls t l l' : nth_error ls t = Some l -> wmtx g = Some t -> hpc g (upd ls t l') = at_ l'.
Proof. apply hpc_self. Qed.

Lemma znd_other_priv g g' ls t l zc : InvA g ls -> InvB g ls -> nth_error ls t = Some l ->
  holds (at_ l) = false -> recsame g g' zc ->
  (zc = None \/ zc = Some (nheap g) \/ zc = priv_rec (at_ l)) ->
  forall z, priv_rec (hpc g ls) = Some z -> znd g' z = znd g z.
Proof.
  intros IA IB Hl Hh S Hzc z Hz. unfold znd. rewrite (rs_grec _ _ _ S); [reflexivity|].
  unfold hpc in Hz. destruct (wmtx g) as [a|] eqn:Em; [|discriminate].
  pose proof (a_held _ _ IA a Em) as Ha.
  assert (a <> t) as Hat by (intros ->; rewrite (pcof_at _ _ _ Hl) in Ha; congruence).
  unfold pcof, locof in Hz, Ha. destruct (nth_error ls a) as [la|] eqn:Ea; [|discriminate].
  destruct Hzc as [-> | [-> | ->]]; [discriminate| |].
  - intros E. inversion E; subst z. pose proof (others_priv_lt g ls a la _ IB Ea Hz). lia.
  - intros E. apply Hat. apply (b_priv _ _ IB a t z); [rewrite (pcof_at _ _ _ Ea); exact Hz|rewrite (pcof_at _ _ _ Hl); auto].
Qed.

(* ---------- the references of the stepping thread ---------- *)
Lemma incl_nil_eq (a : list nat) : (forall c, In c a -> False) -> a = [].
Proof. destruct a as [|x r]; [reflexivity|]. intros H. exfalso. apply (H x). left. reflexivity. Qed.

Lemma refs_sub g ls t l l' : InvC g ls -> nth_error ls t = Some l -> hnd l' = hnd l ->
  (forall c, In c (nrefs l') -> In c (nrefs l)) ->
  (forall w r, hnd l' = Some (w, Some r) -> hnd l = Some (w, Some r) /\ forall c, In c (nrefs l') -> covers g ls r c) /\
  ((forall w r, hnd l' <> Some (w, Some r)) -> nrefs l' = []).
Proof.
  intros IC Hl Hh Hs. split.
  - intros w r E. rewrite Hh in E. split; [exact E|]. intros c Hc. apply (c_refs _ _ IC t l w r Hl E c (Hs c Hc)).
  - intros Hn. apply incl_nil_eq. intros c Hc. apply Hs in Hc. rewrite (c_noref _ _ IC t l Hl) in Hc; [destruct Hc|rewrite <- Hh; exact Hn].
Qed.

(* new references: a node of the list, or the successor of a node the thread already refers to *)
Lemma refs_new g ls t l l' : InvA g ls -> InvB g ls -> InvC g ls -> nth_error ls t = Some l -> hnd l' = hnd l ->
  (exists w r, hnd l = Some (w, Some r)) ->
  (forall c, In c (nrefs l') -> In c (nrefs l) \/ In c (lst g) \/ exists k, In k (nrefs l) /\ nx g k = Some c) ->
  (forall w r, hnd l' = Some (w, Some r) -> hnd l = Some (w, Some r) /\ forall c, In c (nrefs l') -> covers g ls r c) /\
  ((forall w r, hnd l' <> Some (w, Some r)) -> nrefs l' = []).
Proof.
  intros IA IB IC Hl Hh (w0 & r0 & Hr) Hs. split.
  - intros w r E. rewrite Hh in E. split; [exact E|]. intros c Hc.
    destruct (b_own1 _ _ IB t w r) as (A & B & C); [rewrite (locof_at _ _ _ Hl); exact E|].
    destruct (Hs c Hc) as [H|[H|(k & Hk & Hn)]].
    + apply (c_refs _ _ IC t l w r Hl E c H).
    + left. exact H.
    + assert (inlog g r) as Ir by (split; [exact A|congruence]). assert (zown g r <> None) as Or by congruence.
      apply (c_cov _ _ IC r Ir Or k c (c_refs _ _ IC t l w r Hl E k Hk) Hn).
  - intros Hn. exfalso. apply (Hn w0 r0). rewrite Hh. exact Hr.
Qed.
(* a thread that has iterators or node registers is registered *)
Lemma refs_registered g ls t l c : InvC g ls -> nth_error ls t = Some l -> In c (nrefs l) -> exists w r, hnd l = Some (w, Some r).
Proof.
  intros IC Hl Hc. destruct (hnd l) as [[w [r|]]|] eqn:E; [eauto| |];
    (rewrite (c_noref _ _ IC t l Hl) in Hc; [destruct Hc|intros w' r' E'; rewrite E in E'; discriminate]).
Qed.

Lemma InvC_frameV2 g g' ls t l l' (x : option nat) :
  InvA g ls -> InvB g ls -> InvC g ls -> nth_error ls t = Some l -> sameV g g' x ->
  enode g' (upd ls t l') = enode g ls ->
  (forall n, pnode (hpc g' (upd ls t l')) = Some n -> cs_of g' n = Some Constr) ->
  (forall z, past_dd (at_ l) z = true -> past_dd (at_ l') z = true) ->
  (forall k, x = Some k -> ~ In k (lst g) /\ enode g ls <> Some k /\ (forall z, In z (zlog g) -> znd g z <> Some k)) ->
  ((forall w r, hnd l' = Some (w, Some r) -> hnd l = Some (w, Some r) /\ forall c, In c (nrefs l') -> covers g ls r c) /\
   ((forall w r, hnd l' <> Some (w, Some r)) -> nrefs l' = [])) ->
  thrC g' l' ->
  InvC g' (upd ls t l').
Proof. intros ? ? ? ? ? ? ? ? ? [? ?] ?. eapply InvC_frameV; eauto. Qed.

(* non-holder steps: the holder's pc and everything it depends on is untouched *)
Lemma nh_views g g' ls t l l' zc : InvA g ls -> InvB g ls -> InvC g ls -> nth_error ls t = Some l ->
  holds (at_ l) = false -> holds (at_ l') = false -> wmtx g' = wmtx g -> recsame g g' zc ->
  (zc = None \/ zc = Some (nheap g) \/ zc = priv_rec (at_ l)) ->
  (forall k, isnode g k = true -> cs_of g' k = cs_of g k) ->
  enode g' (upd ls t l') = enode g ls /\ (forall n, pnode (hpc g' (upd ls t l')) = Some n -> cs_of g' n = Some Constr).
Proof.
  intros IA IB IC Hl Hh Hh' Hm S Hzc Hcs.
  destruct (enode_other g g' ls t l l' IA Hl Hh Hm (znd_other_priv g g' ls t l zc IA IB Hl Hh S Hzc)) as [E1 E2].
  split; [exact E2|]. intros n Hn. rewrite E1 in Hn. destruct (pnode_fresh g ls n IA Hn) as (_ & _ & Hi).
  rewrite (Hcs n Hi). apply (c_pn _ _ IC n Hn).
Qed.

Lemma thrC_reclaim_at g pr m h its0 : thrC g (Loc pr (reclaim_at g m) h its0).
Proof.
  unfold thrC, reclaim_at. cbn [at_]. destruct (znode (grec g m)) as [d|] eqn:E; [exact I|].
  destruct (unfixed g) eqn:U; [reflexivity|]. intros k Hk. unfold znd in Hk. congruence.
Qed.
Lemma head_in_lst g p k : GS g p -> head g = Some k -> In k (lst g).
Proof.
  intros G H. destruct (gs_fwd _ _ G) as [A _]. rewrite H in A. symmetry in A. destruct (hd_opt_In _ _ A) as [r E].
  rewrite E. left. reflexivity.
Qed.

Lemma nh_views2 g g' ls t l l' : InvA g ls -> InvB g ls -> InvC g ls -> nth_error ls t = Some l ->
  holds (at_ l) = false -> holds (at_ l') = false -> wmtx g' = wmtx g ->
  (forall z, priv_rec (hpc g ls) = Some z -> znd g' z = znd g z) ->
  (forall k, isnode g k = true -> cs_of g' k = cs_of g k) ->
  enode g' (upd ls t l') = enode g ls /\ (forall n, pnode (hpc g' (upd ls t l')) = Some n -> cs_of g' n = Some Constr) /\
  hpc g' (upd ls t l') = hpc g ls.
Proof.
  intros IA IB IC Hl Hh Hh' Hm Hz Hcs.
  destruct (enode_other g g' ls t l l' IA Hl Hh Hm Hz) as [E1 E2].
  split; [exact E2|]. split; [|exact E1]. intros n Hn. rewrite E1 in Hn. destruct (pnode_fresh g ls n IA Hn) as (_ & _ & Hi).
  rewrite (Hcs n Hi). apply (c_pn _ _ IC n Hn).
Qed.
Lemma h_views g g' ls t l l' : InvA g ls -> nth_error ls t = Some l -> holds (at_ l) = true -> wmtx g' = wmtx g ->
  hpc g ls = at_ l /\ hpc g' (upd ls t l') = at_ l' /\ wmtx g = Some t.
Proof.
  intros IA Hl Hh Hm. destruct (hpc_holder g ls t l IA Hl Hh) as [A B]. split; [exact A|]. split; [|exact B].
  apply (hpc_self g' ls t l l' Hl). congruence.
Qed.
(* the private record of the mutex holder is not on the log and differs from the cells other threads modify *)
Lemma holder_priv_notin g ls z : InvB g ls -> priv_rec (hpc g ls) = Some z -> ~ In z (zlog g) /\ isrec g z = true.
Proof.
  intros IB Hz. unfold hpc in Hz. destruct (wmtx g) as [a|]; [|discriminate].
  unfold pcof, locof in Hz. destruct (nth_error ls a) as [la|] eqn:Ea; [|discriminate].
  destruct (priv_isrec g a la z (b_thr _ _ IB a la Ea) Hz) as [A B]. auto.
Qed.

Lemma hpc_free g ls : wmtx g = None -> hpc g ls = Idle.
Proof. intros H. unfold hpc. rewrite H. reflexivity. Qed.
Lemma past_dd_body o z : past_dd (body_pc o) z = false.
Proof. destruct o; reflexivity. Qed.
Lemma thrC_body g pr o w z its0 : thrC g (Loc pr (body_pc o) (Some (w, Some z)) its0).
Proof. unfold thrC. destruct o; cbn; eauto. Qed.

(* ---------- every node a step touches is alive ---------- *)
Lemma lst_okn g ls k : InvA g ls -> InvC g ls -> In k (lst g) -> okn g k = true.
Proof. intros IA IC H. apply okn_iff. split; [apply (c_lst _ _ IC k H)|apply (gs_nodes _ _ (a_gs _ _ IA) k H)]. Qed.
Lemma pnode_okn g ls n : InvA g ls -> InvC g ls -> pnode (hpc g ls) = Some n -> okn g n = true.
Proof. intros IA IC H. apply okn_iff. split; [apply (c_pn _ _ IC n H)|apply (pnode_fresh g ls n IA H)]. Qed.

Definition node_access (p : pc) : option nat :=
  match p with
  | N_ld _ c | D_rd _ c | E_ld0 _ c | EF_ld0 _ c | E_ldb _ c _ _ | E_ldn _ c _ _ _ => Some c
  | PF_next n _ | PB_back n _ => Some n
  | PF_back _ old | PB_next _ old => Some old
  | E_s1 _ _ _ (Some p) _ _ => Some p
  | E_s2 _ _ _ _ (Some x) _ => Some x
  | _ => None
  end.
Lemma node_access_ok g ls t l k : InvA g ls -> InvB g ls -> InvC g ls -> nth_error ls t = Some l ->
  node_access (at_ l) = Some k -> okn g k = true.
Proof.
  intros IA IB IC Hl Hk.
  assert (Href : forall c, In c (pc_refs (at_ l)) -> okn g c = true).
  { intros c Hc. apply (refs_alive g ls IA IB IC t l c Hl). apply in_or_app. right. exact Hc. }
  destruct (at_ l) eqn:E; try discriminate; cbn in Hk; try (inversion Hk; subst; apply Href; left; reflexivity).
  all: assert (holds (at_ l) = true) as Hh by (rewrite E; reflexivity).
  all: destruct (hpc_holder _ _ _ _ IA Hl Hh) as [Ehp _]; pose proof (a_gs _ _ IA) as G; rewrite Ehp, E in G.
  all: pose proof (gs_hold _ _ G) as H; pose proof (gs_back _ _ G) as B; cbn [hold_ok back_ok] in H, B.
  - inversion Hk; subst. apply (pnode_okn g ls k IA IC). rewrite Ehp, E. reflexivity.
  - inversion Hk; subst. destruct H as (_ & _ & _ & _ & _ & _ & _ & Hd). destruct (hd_opt_In _ _ Hd) as [r Er].
    apply (lst_okn g ls k IA IC). rewrite Er. left. reflexivity.
  - inversion Hk; subst. apply (pnode_okn g ls k IA IC). rewrite Ehp, E. reflexivity.
  - inversion Hk; subst. destruct H as (_ & _ & _ & _ & _ & _ & _ & Hd). apply (lst_okn g ls k IA IC). apply last_opt_In. exact Hd.
  - destruct pv as [p|]; [|discriminate]. inversion Hk; subst. destruct H as (_ & l1 & l2 & El & Hp & _).
    apply (lst_okn g ls k IA IC). rewrite El. apply in_or_app. left. apply last_opt_In. auto.
  - match type of Hk with match ?v with Some _ => _ | None => _ end = _ => destruct v as [x|] end; [|discriminate]. inversion Hk; subst. destruct B as (_ & _ & _ & l1 & l2 & El & _ & Hx & _).
    symmetry in Hx. destruct (hd_opt_In _ _ Hx) as [r Er]. apply (lst_okn g ls k IA IC). rewrite El, Er. apply in_or_app. right. left. reflexivity.
Qed.

(* ---------- the concrete publication / unlink / reclaim steps ---------- *)
Section Concrete.
  Variables (g : glob) (ls : list loc) (t : nat).
  Hypothesis IA : InvA g ls.
  Hypothesis IB : InvB g ls.
  Hypothesis IC : InvC g ls.

  Lemma holder_GS l : nth_error ls t = Some l -> holds (at_ l) = true -> GS g (at_ l) /\ hpc g ls = at_ l /\ wmtx g = Some t.
  Proof.
    intros Hl Hh. destruct (hpc_holder g ls t l IA Hl Hh) as [A B]. split; [rewrite <- A; apply (a_gs _ _ IA)|auto].
  Qed.

  Lemma stepC_P_e1 pr o n h its0 m : nth_error ls t = Some (Loc pr (P_e1 o n) h its0) ->
    (m = MPushF n \/ m = MPushB n) ->
    InvC (commit (with_head g (Some n)) m) (upd ls t (Loc pr (P_e2 n) h its0)).
  Proof.
    intros Hl Hm. destruct (holder_GS _ Hl eq_refl) as (G & Ehp & Emt). cbn [at_] in *.
    pose proof (gs_hold _ _ G) as H. cbn [hold_ok] in H. destruct H as ((F1 & F2 & F3 & F4 & F5 & F6 & F7) & Hlst).
    set (g' := commit (with_head g (Some n)) m).
    assert (Hp2 : hpc g' (upd ls t (Loc pr (P_e2 n) h its0)) = P_e2 n) by (apply (hpc_self g' ls t _ (Loc pr (P_e2 n) h its0) Hl); exact Emt).
    eapply (InvC_publish g g' ls t _ _ n None IA IB IC Hl); try reflexivity; try (intros; reflexivity); try (intros; discriminate); auto.
    all: try (intros k; unfold g'; cbn [lst commit with_head]; rewrite Hlst; destruct Hm as [-> | ->]; cbn; (split; [intros [E|[]]; left; auto|intros [E|[]]; left; auto]); fail).
    all: try (intros m0 E; unfold nx in *; congruence).
    all: try (apply (c_pn _ _ IC n); rewrite Ehp; reflexivity).
    all: try (unfold enode; rewrite Ehp; reflexivity).
    all: try (unfold enode; rewrite Hp2; reflexivity).
    all: try (rewrite Hp2; reflexivity).
    all: try exact I.
  Qed.

  Lemma stepC_PF_head pr n h its0 : nth_error ls t = Some (Loc pr (PF_head n) h its0) ->
    InvC (commit (with_head g (Some n)) (MPushF n)) (upd ls t (Loc pr P_unlock h its0)).
  Proof.
    intros Hl. destruct (holder_GS _ Hl eq_refl) as (G & Ehp & Emt). cbn [at_] in *.
    pose proof (gs_hold _ _ G) as H. cbn [hold_ok] in H. destruct H as (old & F1 & F2 & F3 & F4 & F5 & F6 & F7 & F8).
    destruct (hd_opt_In _ _ F8) as [r Er].
    set (g' := commit (with_head g (Some n)) (MPushF n)).
    assert (Hp2 : hpc g' (upd ls t (Loc pr P_unlock h its0)) = P_unlock) by (apply (hpc_self g' ls t _ (Loc pr P_unlock h its0) Hl); exact Emt).
    eapply (InvC_publish g g' ls t _ _ n None IA IB IC Hl); try reflexivity; try (intros; reflexivity); try (intros; discriminate); auto.
    all: try (intros k; unfold g'; cbn; split; [intros [E|E]; auto|intros [E|E]; auto]; fail).
    all: try (intros m0 E; rewrite F3 in E; inversion E; subst; rewrite Er; left; reflexivity).
    all: try (apply (c_pn _ _ IC n); rewrite Ehp; reflexivity).
    all: try (unfold enode; rewrite Ehp; reflexivity).
    all: try (unfold enode; rewrite Hp2; reflexivity).
    all: try (rewrite Hp2; reflexivity).
    all: try exact I.
  Qed.

  Lemma stepC_PB_next pr n old h its0 : nth_error ls t = Some (Loc pr (PB_next n old) h its0) ->
    InvC (commit (setn g old (n_next (gnode g old) (Some n))) (MPushB n)) (upd ls t (Loc pr (PB_tail n) h its0)).
  Proof.
    intros Hl. destruct (holder_GS _ Hl eq_refl) as (G & Ehp & Emt). cbn [at_] in *.
    pose proof (gs_hold _ _ G) as H. cbn [hold_ok] in H. destruct H as (F1 & F2 & F3 & F4 & F5 & F6 & F7 & F8).
    assert (Hol : In old (lst g)) by (apply last_opt_In; exact F8).
    assert (Hio : isnode g old = true) by (apply (gs_nodes _ _ G); exact Hol).
    set (g1 := setn g old (n_next (gnode g old) (Some n))). set (g' := commit g1 (MPushB n)).
    destruct (set_next_views g old (Some n) Hio) as (EN & EB & ED & EP). fold g1 in EN, EB, ED, EP.
    destruct (nviews_setn g old (n_next (gnode g old) (Some n)) Hio) as [VI VR VC VH VT VL VM VLo VHi VX]. fold g1 in VI, VR, VC, VH, VT, VL, VM, VLo, VHi, VX.
    assert (Hp2 : hpc g' (upd ls t (Loc pr (PB_tail n) h its0)) = PB_tail n).
    { apply (hpc_self g' ls t _ (Loc pr (PB_tail n) h its0) Hl). change (wmtx g') with (wmtx g1). rewrite VX. exact Emt. }
    assert (Hno : n <> old) by (intros ->; auto).
    eapply (InvC_publish g g' ls t _ _ n (Some old) IA IB IC Hl); try reflexivity; auto.
    all: try (intros k; change (lst g') with (lst g1 ++ [n]); rewrite VL, in_app_iff; cbn; split; [intros [E|[E|[]]]; auto|intros [E|E]; auto]; fail).
    all: try (change (zlog g') with (zlog g1); unfold g1; apply modc_fields).
    all: try (change (unfixed g') with (unfixed g1); unfold g1; apply modc_fields).
    all: try (intros k Hk; change (nx g' k) with (nx g1 k); rewrite EN; destruct (Nat.eqb_spec k old) as [->|]; [congruence|reflexivity]).
    all: try (intros k E; inversion E; subst k; split; [exact Hol|]; change (nx g' old) with (nx g1 old); rewrite EN, Nat.eqb_refl; reflexivity).
    all: try (intros m0 E; congruence).
    all: try (intros E; inversion E; auto; fail).
    all: try (intros k; change (dl g' k) with (dl g1 k); apply ED).
    all: try (intros k; change (isnode g' k) with (isnode g1 k); apply VI).
    all: try (intros k; change (cs_of g' k) with (cs_of g1 k); apply VC).
    all: try (intros z; change (grec g' z) with (grec g1 z); unfold g1; apply grec_setn; exact Hio).
    all: try (apply (c_pn _ _ IC n); rewrite Ehp; reflexivity).
    all: try (unfold enode; rewrite Ehp; reflexivity).
    all: try (unfold enode; rewrite Hp2; reflexivity).
    all: try (rewrite Hp2; reflexivity).
    all: try exact I.
  Qed.
End Concrete.

Section Concrete2.
  Variables (g : glob) (ls : list loc) (t : nat).
  Hypothesis IA : InvA g ls.
  Hypothesis IB : InvB g ls.
  Hypothesis IC : InvC g ls.

  Lemma stepC_E_s1 pr it c nx0 pv nxt zr h its0 g1 :
    nth_error ls t = Some (Loc pr (E_s1 it c nx0 pv nxt zr) h its0) ->
    (match pv with Some p => g1 = setn g p (n_next (gnode g p) nxt) | None => g1 = with_head g nxt end) ->
    InvC (commit g1 (MErase c)) (upd ls t (Loc pr (E_s2 it c nx0 pv nxt zr) h its0)).
  Proof.
    intros Hl Hg1. destruct (holder_GS g ls t IA _ Hl eq_refl) as (G & Ehp & Emt). cbn [at_] in *.
    pose proof (gs_hold _ _ G) as H. cbn [hold_ok] in H. destruct H as (Hdc & l1 & l2 & El & Hpv & Hnxt).
    pose proof (gs_nodup _ _ G) as ND. rewrite El in ND. destruct (NoDup_mid _ _ _ ND) as (Hc1 & Hc2 & ND').
    destruct (gs_fwd _ _ G) as [_ FB]. rewrite El in FB. apply chn_app in FB. destruct FB as [_ FB]. cbn [chn] in FB. destruct FB as [FBc _].
    assert (Hcl : In c (lst g)) by (rewrite El; apply in_or_app; right; left; reflexivity).
    assert (Hl2 : forall m, hd_or l2 None = Some m -> In m (lst g) /\ m <> c).
    { intros m E. destruct l2 as [|b r]; [discriminate|]. cbn in E. inversion E; subst b. split; [rewrite El; apply in_or_app; right; right; left; reflexivity|].
      intros ->. apply Hc2. left. reflexivity. }
    set (g' := commit g1 (MErase c)). set (l' := Loc pr (E_s2 it c nx0 pv nxt zr) h its0).
    assert (Views : lst g1 = lst g /\ zlog g1 = zlog g /\ unfixed g1 = unfixed g /\ wmtx g1 = wmtx g /\
                    (forall k, dl g1 k = dl g k) /\ (forall k, isnode g1 k = isnode g k) /\ (forall k, cs_of g1 k = cs_of g k) /\
                    (forall z, grec g1 z = grec g z) /\ (forall k, pv <> Some k -> nx g1 k = nx g k) /\
                    (forall p, pv = Some p -> nx g1 p = nxt)).
    { destruct pv as [p|]; subst g1.
      - assert (Hip : isnode g p = true).
        { apply (gs_nodes _ _ G). rewrite El. apply in_or_app. left. apply last_opt_In. auto. }
        destruct (set_next_views g p nxt Hip) as (EN & EB & ED & EP).
        destruct (nviews_setn g p (n_next (gnode g p) nxt) Hip) as [VI VR VC VH VT VL VM VLo VHi VX].
        destruct (modc_fields g p (set_body (BNode (n_next (gnode g p) nxt)))) as (_ & _ & _ & _ & _ & _ & F7 & _ & _ & _ & _ & F12).
        repeat split; auto.
        + intros z. apply grec_setn. exact Hip.
        + intros k Hk. rewrite EN. destruct (Nat.eqb_spec k p) as [->|]; [congruence|reflexivity].
        + intros q Hq. inversion Hq; subst q. rewrite EN, Nat.eqb_refl. reflexivity.
      - repeat split; auto. intros p Hp. discriminate. }
    destruct Views as (V1 & V2 & V3 & V4 & V5 & V6 & V7 & V8 & V9 & V10).
    assert (Hp2 : hpc g' (upd ls t l') = E_s2 it c nx0 pv nxt zr).
    { apply (hpc_self g' ls t _ l' Hl). change (wmtx g') with (wmtx g1). rewrite V4. exact Emt. }
    eapply (InvC_unlink g g' ls t _ l' c pv IA IB IC Hl Hcl); try reflexivity.
    all: try (intros k; change (lst g') with (remove_nat c (lst g1)); rewrite V1; apply remove_nat_In).
    all: try (change (zlog g') with (zlog g1); exact V2).
    all: try (change (unfixed g') with (unfixed g1); exact V3).
    all: try (intros k Hk; change (nx g' k) with (nx g1 k); apply V9; congruence).
    all: try (intros k Hk m Hm; change (nx g' k) with (nx g1 k) in Hm; rewrite (V10 k Hk), Hnxt in Hm;
              change (lst g') with (remove_nat c (lst g1)); rewrite V1; apply remove_nat_In; apply Hl2; exact Hm).
    all: try (intros m Hm; change (lst g') with (remove_nat c (lst g1)); rewrite V1; apply remove_nat_In; apply Hl2; rewrite <- FBc; exact Hm).
    all: try (intros E; rewrite <- E in Hpv; symmetry in Hpv; apply last_opt_In in Hpv; contradiction).
    all: try (intros k; change (dl g' k) with (dl g1 k); apply V5).
    all: try (intros k; change (isnode g' k) with (isnode g1 k); apply V6).
    all: try (intros k; change (cs_of g' k) with (cs_of g1 k); apply V7).
    all: try (intros z; change (grec g' z) with (grec g1 z); apply V8).
    all: try exact Hdc.
    all: try (unfold enode; rewrite Ehp; reflexivity).
    all: try (unfold enode; rewrite Hp2; reflexivity).
    all: try (rewrite Hp2; reflexivity).
    all: try exact I.
  Qed.

  Lemma reclaimer_alone l n : nth_error ls t = Some l -> region_pc (at_ l) = Some n ->
    forall u, u <> t -> past_dd (pcof ls u) n = false.
  Proof.
    intros Hl Hn u Hu. destruct (past_dd (pcof ls u) n) eqn:E; [exfalso|reflexivity].
    unfold pcof, locof in E. destruct (nth_error ls u) as [lu|] eqn:Eu; [|discriminate].
    assert (region_pc (at_ lu) = Some n) as Ru by (destruct (at_ lu); cbn in E; try discriminate; apply Nat.eqb_eq in E; subst; reflexivity).
    apply Hu. apply (one_reclaimer g ls IA IB u t lu l n n Eu Hl Ru Hn).
  Qed.

  Lemma stepC_U_dd pr n d h its0 : nth_error ls t = Some (Loc pr (U_dd n (Some d)) h its0) ->
    InvC (fst (do_destroy g d)) (upd ls t (Loc pr (U_df n (Some d)) h its0)).
  Proof.
    intros Hl. set (l := Loc pr (U_dd n (Some d)) h its0) in *.
    pose proof (b_thr _ _ IB t l Hl) as T. unfold thrB in T. cbn [at_ l] in T. destruct T as (Rg & Cs & Ed). symmetry in Ed.
    destruct Rg as (Rn & Rg').
    assert (Hcd : cs_of g d = Some Constr).
    { apply (c_pend _ _ IC n d Rn Ed). intros u. destruct (Nat.eq_dec u t) as [->|Hu]; [rewrite (pcof_at _ _ _ Hl); reflexivity|].
      apply (reclaimer_alone l n Hl eq_refl u Hu). }
    destruct (destroy_fields g d) as (F1 & F2 & F3 & F4 & F5 & F6 & F7 & F8 & F9 & F10 & F11 & F12).
    eapply (InvC_nodecs g _ ls t l _ n d IA IB IC Hl eq_refl Ed); auto; try reflexivity.
    - intros k. unfold nx. rewrite gnode_destroy. reflexivity.
    - intros k. unfold dl. rewrite gnode_destroy. reflexivity.
    - intros k. apply isnode_destroy.
    - intros z. apply grec_destroy.
    - intros k Hk. rewrite cs_of_destroy. destruct (Nat.eqb_spec k d); [contradiction|reflexivity].
    - apply (hpc_other g _ ls t l _ IA Hl eq_refl F4).
    - cbn. apply Nat.eqb_refl.
    - intros x Hx. cbn. split; [reflexivity|apply Nat.eqb_neq; auto].
    - unfold thrC. cbn [at_]. rewrite cs_of_destroy, Nat.eqb_refl, Hcd. reflexivity.
  Qed.

  Lemma stepC_U_df pr n d h its0 : nth_error ls t = Some (Loc pr (U_df n (Some d)) h its0) ->
    InvC (fst (do_dealloc g d)) (upd ls t (Loc pr (U_ln n) h its0)).
  Proof.
    intros Hl. set (l := Loc pr (U_df n (Some d)) h its0) in *.
    pose proof (b_thr _ _ IB t l Hl) as T. unfold thrB in T. cbn [at_ l] in T. destruct T as (Rg & Cs & Ed). symmetry in Ed.
    pose proof (c_thr _ _ IC t l Hl) as Tc. unfold thrC in Tc. cbn [at_ l] in Tc.
    destruct (dealloc_fields g d) as (F1 & F2 & F3 & F4 & F5 & F6 & F7 & F8 & F9 & F10 & F11 & F12).
    eapply (InvC_nodecs g _ ls t l _ n d IA IB IC Hl eq_refl Ed); auto; try reflexivity.
    - intros k. unfold nx. rewrite gnode_dealloc. reflexivity.
    - intros k. unfold dl. rewrite gnode_dealloc. reflexivity.
    - intros k. apply isnode_dealloc.
    - intros z. apply grec_dealloc.
    - intros k Hk. rewrite cs_of_dealloc. destruct (Nat.eqb_spec k d); [contradiction|reflexivity].
    - apply (hpc_other g _ ls t l _ IA Hl eq_refl F4).
    - cbn. apply Nat.eqb_refl.
    - intros x Hx. cbn. split; apply Nat.eqb_neq; auto.
    - unfold thrC. cbn [at_]. intros k Hk. unfold znd in Hk. rewrite grec_dealloc in Hk. fold (znd g n) in Hk.
      assert (k = d) by congruence. subst k. rewrite cs_of_dealloc, Nat.eqb_refl, Tc. reflexivity.
  Qed.

  Lemma stepC_U_zf pr n nxt h its0 : nth_error ls t = Some (Loc pr (U_zf n nxt) h its0) ->
    let g' := fst (do_dealloc g n) in
    InvC g' (upd ls t (Loc pr (match nxt with Some m => reclaim_at g' m | None => U_stn end) h its0)).
  Proof.
    intros Hl g'. set (l := Loc pr (U_zf n nxt) h its0) in *.
    pose proof (b_thr _ _ IB t l Hl) as T. unfold thrB in T. cbn [at_ l] in T. destruct T as (Rg & Cs & Ed).
    destruct (dealloc_fields g n) as (F1 & F2 & F3 & F4 & F5 & F6 & F7 & F8 & F9 & F10 & F11 & F12). fold g' in F1, F2, F3, F4, F5, F6, F7, F8, F9, F10, F11, F12.
    eapply (InvC_zf g g' ls t l _ n nxt IA IB IC Hl eq_refl); auto; try reflexivity.
    - intros k. unfold nx, g'. rewrite gnode_dealloc. reflexivity.
    - intros k. unfold dl, g'. rewrite gnode_dealloc. reflexivity.
    - intros k. apply isnode_dealloc.
    - intros z. apply grec_dealloc.
    - intros k Hk. unfold g'. rewrite cs_of_dealloc. destruct (Nat.eqb_spec k n); [contradiction|reflexivity].
    - unfold g'. rewrite cs_of_dealloc, Nat.eqb_refl, Cs. reflexivity.
    - apply (hpc_other g g' ls t l _ IA Hl eq_refl F4).
    - unfold nrefs. cbn [its at_]. destruct nxt; [rewrite pc_refs_reclaim|]; reflexivity.
    - destruct nxt; [apply thrC_reclaim_at|exact I].
  Qed.
End Concrete2.

(* ---------- the step lemma ---------- *)
Ltac recsame_tac2 :=
  repeat first [apply recsame_fault | apply recsame_misuse | apply recsame_mtx | apply recsame_head | apply recsame_tail
               | apply recsame_pos | apply recsame_commit];
  first [ apply recsame_refl | apply recsame_alloc_node | apply recsame_null
        | (apply recsame_setn; eauto) | (apply recsame_construct_node; eauto)
        | (apply recsame_destroy_node; eauto) | (apply recsame_dealloc_node; eauto) ].
Lemma InvC_step : forall g ls t c l g' l' es,
  InvA g ls -> InvB g ls -> InvC g ls -> nth_error ls t = Some l -> tstep t c g l = Some (g', l', es) -> InvC g' (upd ls t l').
Proof.
  intros g ls t c l g' l' es IA IB IC Hl Hs.
  pose proof (b_thr _ _ IB t l Hl) as Tt. pose proof (a_thr _ _ IA t l Hl) as Ta. pose proof (c_thr _ _ IC t l Hl) as Tc.
  destruct l as [pr p h its0]. destruct p.
  all: try (destruct (t_unl _ _ Ta eq_refl) as (w0 & z0 & Eh0); cbn [hnd] in Eh0; subst h).
  all: step_cases2 Hs; fold_fst; cbn [own_rec own_w hnd] in *.
  (* impossible branches: every cell a step touches is alive *)
  all: try (match goal with H : okn _ ?k = false |- _ =>
              exfalso; rewrite (node_access_ok _ ls t _ k IA IB IC Hl eq_refl) in H; discriminate end).
  all: try (match goal with H : okz _ ?k = false |- _ =>
              exfalso; rewrite (log_access_ok _ ls t _ k (conj IA IB) Hl eq_refl) in H; discriminate end).
  (* impossible branches: the own record is alive *)
  all: try (exfalso; pose proof (okz_own g ls t _ IA IB Hl eq_refl) as Ok; cbn [own_rec hnd] in Ok; congruence).
  (* 1. non-holder steps that change nothing InvC can see *)
  all: try (
    match type of IA with InvA ?g _ => match goal with |- InvC ?gg (upd _ _ ?ll) =>
      assert (SV : sameV g gg None) by (repeat first [apply sameV_fault | apply sameV_misuse]; first [apply sameV_refl | apply sameV_null]);
      assert (RS : recsame g gg None) by recsame_tac2;
      destruct (nh_views g gg ls t _ ll None IA IB IC Hl eq_refl (ltac:(cbn [at_]; rewrite ?holds_body, ?holds_reclaim; reflexivity))
                  (ltac:(autorewrite with wm; reflexivity)) RS (or_introl eq_refl)
                  (fun k Hk => v_cs _ _ _ SV k Hk (ltac:(discriminate)))) as [En Pn];
      eapply (InvC_frameV2 g gg ls t _ ll None IA IB IC Hl SV En Pn)
    end end;
    [ cbn [at_ past_dd]; rewrite ?in_unlock_reclaim; intros z1 Hz1; first [discriminate | exact Hz1 | idtac]
    | intros; discriminate
    | 
    | ]).
  (* thrC of the new pc *)
  all: try (apply thrC_reclaim_at).
  all: try (unfold thrC in *; cbn [at_] in *; first [exact I | exact Tc]).
  (* references: unchanged, or an iterator value copied into a register *)
  all: try (match goal with |- (forall w r, hnd ?ll = _ -> _) /\ _ => apply (refs_sub _ ls t _ ll IC Hl eq_refl) end; unfold nrefs; cbn [its at_ pc_refs]; rewrite ?pc_refs_reclaim, ?pc_refs_body, ?app_nil_r;
            intros c1 Hc1; first [exact Hc1 | apply in_app_or in Hc1; destruct Hc1 as [Hc1|[<-|[]]]; [exact Hc1|eapply getit_In; eassumption]]).
  all: try (match goal with |- (forall w r, hnd ?ll = _ -> _) /\ _ => apply (refs_sub _ ls t _ ll IC Hl eq_refl) end; unfold nrefs; cbn [its at_ pc_refs];
            intros c1 Hc1; apply in_app_or in Hc1; destruct Hc1 as [Hc1|Hc1]; [apply in_or_app; left; exact Hc1|];
            cbn in Hc1; destruct Hc1 as [<-|[]]; apply in_or_app; left; eapply getit_In; eassumption).
  (* a handle is created / dropped without having registered: no references *)
  all: try (split; [intros w1 r1 E1; discriminate|]; intros _; cbn [nrefs its at_ pc_refs app];
            first [reflexivity | (pose proof (c_noref _ _ IC t _ Hl) as Hn0; cbn [hnd nrefs its at_ pc_refs] in Hn0; rewrite app_nil_r in *; apply Hn0; intros w1 r1 E1; discriminate)]).
  all: try (split; [intros w1 r1 E1; discriminate|intros _; pose proof (c_noref _ _ IC t _ Hl) as Hn0; apply Hn0; intros w1 r1 E1; discriminate]).
  all: try (match goal with |- (forall w r, hnd ?ll = _ -> _) /\ _ => apply (refs_sub _ ls t _ ll IC Hl eq_refl) end; unfold nrefs; cbn [its at_ pc_refs];
            intros c1 Hc1; apply in_app_or in Hc1; destruct Hc1 as [Hc1|[]]; apply in_or_app; left; exact Hc1).
  (* begin / ++ : the new iterator value is the list head, resp. the successor of the current node *)
  all: try (match goal with |- (forall w r, hnd ?ll = _ -> _) /\ _ =>
              apply (refs_new _ ls t _ ll IA IB IC Hl eq_refl) end;
            [ first [ eexists; eexists; reflexivity | exact Tc
                    | apply (refs_registered _ ls t _ c0 IC Hl); unfold nrefs; cbn [its at_ pc_refs]; apply in_or_app; right; left; reflexivity ]
            | unfold nrefs; cbn [its at_ pc_refs]; intros c1 Hc1; rewrite app_nil_r in Hc1; apply its_refs_setit in Hc1;
              destruct Hc1 as [Hc1|Hc1]; [|left; apply in_or_app; left; exact Hc1] ]).
  all: try (exact (thrC_reclaim_at g pr n0 _ its0)).
  all: try (unfold thrB in Tt; cbn [at_] in Tt; destruct Tt as (_ & _ & Ed); intros k Hk; congruence).
  all: try (right; right; exists c0; split; [apply in_or_app; right; left; reflexivity|exact Hc1]).
  all: try (right; left; apply (head_in_lst _ _ _ (a_gs _ _ IA)); exact Hc1).
  all: try (unfold thrC; cbn [at_ hnd]; eexists; eexists; reflexivity).
  all: try (unfold thrC, thrB in *; cbn [at_] in *; destruct Tt as (_ & _ & Ed); intros k Hk; change (znd (fst (null_call g K_DEALLOC)) n) with (znd g n) in Hk; congruence).
  (* 2. non-holder steps on a private record, or on the own / pointer record *)
  all: try (
    unfold thrB in Tt; cbn [at_ hnd] in Tt; try unfold privR in Tt;
    match goal with |- InvC ?gg (upd _ _ ?ll) =>
      assert (SV : sameV g gg None) by
        (repeat apply sameV_fault;
         first [ apply sameV_alloc; [intros z1 H1; apply (zlog_lt _ ls z1 IB H1)|right; eexists; reflexivity]
               | apply sameV_construct_rec; tauto
               | apply sameV_setz_priv; tauto
               | (destruct Tt as ((Rn0 & _) & Cs0 & _); apply sameV_destroy_rec; [apply (b_rec _ _ IB); apply inlog_In; exact Rn0|exact Cs0])
               | apply sameV_setz_own; [apply (b_rec _ _ IB); apply (own_in_log g ls t _ IA IB Hl eq_refl)|reflexivity|cbn; auto] ]);
      assert (HZ : forall z1, priv_rec (hpc g ls) = Some z1 -> znd gg z1 = znd g z1) by
        (first [ eapply (znd_other_priv g gg ls t _ _ IA IB Hl eq_refl);
                 [ repeat apply recsame_fault;
                   first [ apply recsame_alloc_rec; intros z2 H2; apply (zlog_lt _ ls z2 IB H2)
                         | apply recsame_construct_rec; tauto | apply recsame_setz; tauto ]
                 | first [right; left; reflexivity | right; right; reflexivity] ]
               | intros z1 H1; destruct (holder_priv_notin g ls z1 IB H1) as [N1 N2]; unfold znd;
                 first [ rewrite grec_destroy; reflexivity
                       | (rewrite grec_setz_ne; [reflexivity|]; intros ->; apply N1; apply (own_in_log g ls t _ IA IB Hl eq_refl)) ] ]);
      destruct (nh_views2 g gg ls t _ ll IA IB IC Hl eq_refl eq_refl (ltac:(autorewrite with wm; reflexivity)) HZ
                  (fun k Hk => v_cs _ _ _ SV k Hk (ltac:(discriminate)))) as (En & Pn & _);
      eapply (InvC_frameV2 g gg ls t _ ll None IA IB IC Hl SV En Pn)
    end;
    [ cbn [at_ past_dd]; intros z1 Hz1; first [discriminate | exact Hz1]
    | intros; discriminate
    | 
    | ]).
  all: try (unfold thrC; cbn [at_]; exact I).
  all: try (match goal with |- (forall w r, hnd ?ll = _ -> _) /\ _ => apply (refs_sub _ ls t _ ll IC Hl eq_refl) end;
            intros c1 Hc1; exact Hc1).
  all: try (split; [intros w1 r1 E1; discriminate|intros _; reflexivity]).
  (* 3. successful CAS on the log head *)
  all: try (
    match goal with |- InvC (with_zlog (with_zhead ?g (Some ?zz)) _) (upd _ _ {| prog := _; at_ := body_pc ?oo; hnd := _; its := _ |}) =>
      unfold thrB in Tt; cbn [at_ hnd] in Tt; destruct Tt as ([Q1 Q2] & Q3 & Q4 & Q5 & (w1 & Q6 & Q7)); subst h; cbn [own_w hnd];
      eapply (InvC_rpush g ls t _ _ zz IA IB IC Hl Q2 Q3 (fun x => eq_refl) (thrC_body g pr oo w1 zz its0) w1 Q4);
      [ apply (hpc_other g _ ls t _ _ IA Hl eq_refl eq_refl)
      | reflexivity | reflexivity
      | unfold nrefs; cbn [its at_]; rewrite pc_refs_body, app_nil_r;
        pose proof (c_noref _ _ IC t _ Hl) as Hn0; unfold nrefs in Hn0; cbn [its at_ pc_refs hnd] in Hn0; rewrite app_nil_r in Hn0;
        apply Hn0; intros w2 r2 E2; discriminate ]
    end).
  all: try (
    match goal with |- InvC (with_zlog (with_zhead ?g (Some ?zz)) _) (upd _ _ {| prog := ?pr; at_ := E_unlock ?it ?nx0; hnd := ?h; its := ?its0 |}) =>
      unfold thrB in Tt; cbn [at_ hnd] in Tt; destruct Tt as ([Q1 Q2] & Q3 & Q4 & Q5 & (k1 & Q6 & Q7));
      destruct (h_views g (with_zlog (with_zhead g (Some zz)) (zz :: zlog g)) ls t _ {| prog := pr; at_ := E_unlock it nx0; hnd := h; its := its0 |} IA Hl eq_refl eq_refl) as (Hp1 & Hp2 & Hm);
      eapply (InvC_epush g ls t _ {| prog := pr; at_ := E_unlock it nx0; hnd := h; its := its0 |} zz IB IC Hl Q2 Q3 (fun x => eq_refl) I k1);
      [ unfold enode; rewrite Hp1; exact Q6 | exact Q6 | exact Q4
      | unfold enode; rewrite Hp2; reflexivity | rewrite Hp2; reflexivity | reflexivity | reflexivity ]
    end).
  (* 4. lock / unlock *)
  all: try (
    match type of Hl with nth_error _ _ = Some {| prog := _; at_ := ?pp; hnd := _; its := _ |} =>
      match pp with P_lock _ => idtac | E_lock _ _ => idtac | EF_lock _ _ => idtac end end;
    match goal with |- InvC ?gg (upd _ _ ?ll) =>
      assert (SV : sameV g gg None) by (apply sameV_mtx, sameV_refl);
      assert (Hp1 : hpc g ls = Idle) by (apply hpc_free; assumption);
      assert (Hp2 : hpc gg (upd ls t ll) = at_ ll) by (apply (hpc_self gg ls t _ ll Hl); reflexivity);
      eapply (InvC_frameV2 g gg ls t _ ll None IA IB IC Hl SV)
    end;
    [ unfold enode; rewrite Hp1, Hp2; reflexivity
    | rewrite Hp2; cbn; intros n1 E1; discriminate
    | cbn [at_ past_dd]; intros; discriminate
    | intros; discriminate
    | match goal with |- (forall w r, hnd ?ll = _ -> _) /\ _ => apply (refs_sub _ ls t _ ll IC Hl eq_refl) end; intros c1 Hc1; exact Hc1
    | unfold thrC; cbn [at_]; exact I ]).
  all: try (
    match type of Hl with nth_error _ _ = Some {| prog := _; at_ := ?pp; hnd := _; its := _ |} =>
      match pp with P_unlock => idtac | E_unlock _ _ => idtac | PX_unl => idtac end end;
    match goal with |- InvC ?gg (upd _ _ ?ll) =>
      assert (SV : sameV g gg None) by (apply sameV_mtx, sameV_refl);
      destruct (hpc_holder g ls t _ IA Hl eq_refl) as [Hp1 Hm];
      assert (Hp2 : hpc gg (upd ls t ll) = Idle) by (apply hpc_free; reflexivity);
      eapply (InvC_frameV2 g gg ls t _ ll None IA IB IC Hl SV)
    end;
    [ unfold enode; rewrite Hp1, Hp2; reflexivity
    | rewrite Hp2; cbn; intros n1 E1; discriminate
    | cbn [at_ past_dd]; intros; discriminate
    | intros; discriminate
    | match goal with |- (forall w r, hnd ?ll = _ -> _) /\ _ => apply (refs_sub _ ls t _ ll IC Hl eq_refl) end;
      unfold nrefs; cbn [its at_ pc_refs]; intros c1 Hc1; rewrite app_nil_r in Hc1;
      first [ apply in_or_app; left; exact Hc1
            | apply its_refs_setit in Hc1; destruct Hc1 as [Hc1|Hc1]; [subst; apply in_or_app; right; left; reflexivity|apply in_or_app; left; exact Hc1] ]
    | unfold thrC; cbn [at_]; exact I ]).
  (* 5. steps of the mutex holder that keep the list and the log as InvC sees them *)
  all: try (
    match type of IA with InvA ?g _ => match goal with |- InvC ?gg (upd _ _ ?ll) =>
      assert (SV : sameV g gg None) by
        (unfold thrB in Tt; cbn [at_ hnd] in Tt; try unfold privR in Tt;
         repeat first [apply sameV_fault | apply sameV_pos | apply sameV_tail];
         first [ apply sameV_refl
               | apply sameV_alloc; [intros z1 H1; apply (zlog_lt _ ls z1 IB H1)|first [left; reflexivity|right; eexists; reflexivity]]
               | apply sameV_alloc_raw; intros z1 H1; apply (zlog_lt _ ls z1 IB H1)
               | apply sameV_dealloc_raw; apply (b_rec _ _ IB)
               | apply sameV_construct_rec; tauto
               | apply sameV_setz_priv; tauto
               | (apply sameV_setn; [apply (wtarget_isnode g ls t _ _ IA Hl); reflexivity|right; reflexivity|cbn; auto])
               | (apply sameV_heap; [reflexivity| |reflexivity|reflexivity]; cbn [lst commit apply_m]; apply remove_nat_notin;
                  match goal with H : ndel (gnode _ ?cc) = true |- _ =>
                    let G0 := fresh "G0" in
                    destruct (hpc_holder g ls t _ IA Hl eq_refl) as [Ehp _]; pose proof (a_gs _ _ IA) as G0; rewrite Ehp in G0; cbn [at_] in G0;
                    apply (step_E_ld0_noop g _ cc G0 eq_refl (t_refs _ _ (a_thr _ _ IA t _ Hl) cc (in_or_app _ _ _ (or_intror (or_introl eq_refl)))) H) end) ]);
      destruct (h_views g gg ls t _ ll IA Hl eq_refl (ltac:(autorewrite with wm; reflexivity))) as (Hp1 & Hp2 & Hm);
      eapply (InvC_frameV2 g gg ls t _ ll None IA IB IC Hl SV)
    end end;
    [ | | cbn [at_ past_dd]; intros; discriminate | intros; discriminate | | unfold thrC; cbn [at_]; exact I ]).
  (* enode *)
  all: try (match goal with |- enode _ _ = enode _ _ => unfold enode; rewrite Hp1, Hp2; cbn [at_ erasing_node] end;
            first [ reflexivity
                  | (unfold thrB in Tt; cbn [at_] in Tt; unfold privR in Tt; destruct Tt as ([Q1 Q2] & Q3 & Q4);
                     match goal with |- context [do_construct ?g0 ?zz (BRec ?r)] => destruct (views_construct_rec g0 zz r Q1 Q3) as (V1 & V2 & V3 & V4) end;
                     unfold znd; rewrite V3; reflexivity)
                  | (unfold thrB in Tt; cbn [at_] in Tt; unfold privR in Tt; destruct Tt as ([Q1 Q2] & _);
                     unfold znd; rewrite ?grec_setz_eq by (apply isrec_lt; exact Q1); reflexivity) ]).
  (* pnode *)
  all: try (match goal with |- forall n, pnode _ = Some n -> _ => rewrite Hp2; cbn [at_ pnode priv_node]; intros n1 E1 end;
            first [ discriminate
                  | (inversion E1; subst;
                     match goal with |- cs_of _ ?nn = _ =>
                       assert (pnode (hpc g ls) = Some nn) as Hpn0 by (rewrite Hp1; reflexivity);
                       rewrite (v_cs _ _ _ SV nn (proj2 (proj2 (pnode_fresh g ls nn IA Hpn0))) (ltac:(discriminate))); apply (c_pn _ _ IC nn Hpn0) end) ]).
  (* references *)
  all: try (match goal with |- (forall w r, hnd ?ll = _ -> _) /\ _ => apply (refs_sub _ ls t _ ll IC Hl eq_refl) end;
            unfold nrefs; cbn [its at_ pc_refs]; intros c1 Hc1; apply in_app_or in Hc1; destruct Hc1 as [Hc1|Hc1];
            [apply in_or_app; left; exact Hc1|apply in_or_app; right; cbn [In] in *; first [exact Hc1 | tauto]]).
  all: try (match goal with |- forall n, pnode _ = Some n -> _ => rewrite Hp2; cbn [at_ pnode priv_node]; intros n1 E1 end;
            inversion E1; subst;
            match type of IA with InvA ?g0 _ => match goal with |- cs_of _ ?nn = _ =>
              assert (pnode (hpc g0 ls) = Some nn) as Hpn0 by (rewrite Hp1; reflexivity); apply (c_pn _ _ IC nn Hpn0) end end).
  all: try (match goal with |- enode _ _ = enode _ _ => unfold enode; rewrite Hp1, Hp2; cbn [at_ erasing_node] end;
            unfold thrB in Tt; cbn [at_] in Tt; unfold privR in Tt; destruct Tt as ([Q1 Q2] & _);
            change (znd (with_fault (setz g z (z_next (grec g z) old))) z) with (znd (setz g z (z_next (grec g z) old)) z);
            unfold znd; rewrite grec_setz_eq by (apply isrec_lt; exact Q1); reflexivity).
  (* erase reads the successor of the node it is about to unlink *)
  all: try (match goal with |- (forall w r, hnd ?ll = _ -> _) /\ _ => apply (refs_new _ ls t _ ll IA IB IC Hl eq_refl) end;
            [ apply (refs_registered _ ls t _ c0 IC Hl); unfold nrefs; cbn [its at_ pc_refs]; apply in_or_app; right; left; reflexivity
            | unfold nrefs; cbn [its at_ pc_refs]; intros c1 Hc1; apply in_app_or in Hc1; destruct Hc1 as [Hc1|Hc1];
              [left; apply in_or_app; left; exact Hc1|];
              cbn [In] in Hc1; destruct Hc1 as [<-|Hc1]; [left; apply in_or_app; right; left; reflexivity|];
              right; right; exists c0; split; [apply in_or_app; right; left; reflexivity|];
              unfold nx; destruct (nnext (gnode _ c0)); cbn in Hc1; [destruct Hc1 as [<-|[]]; reflexivity|destruct Hc1] ]).
  all: try (unfold thrC in *; cbn [at_] in *; intros k1 Hk1; unfold znd in Hk1; rewrite grec_destroy in Hk1;
            unfold thrB in Tt; cbn [at_] in Tt; destruct Tt as ((Rn0 & _) & _);
            rewrite cs_of_destroy; destruct (Nat.eqb_spec k1 n) as [E1|];
            [exfalso; subst k1; pose proof (b_node _ _ IB n n (inlog_In _ _ Rn0) Hk1) as Hnn;
             rewrite (isrec_isnode _ _ (b_rec _ _ IB n (inlog_In _ _ Rn0))) in Hnn; discriminate|apply Tc; exact Hk1]).
  (* 6. erase of an already erased node *)
  all: try (
    match goal with H : ndel (gnode ?g ?cc) = true |- InvC ?gg (upd _ _ ?ll) =>
      destruct (hpc_holder g ls t _ IA Hl eq_refl) as [Ehp _]; pose proof (a_gs _ _ IA) as G0; rewrite Ehp in G0; cbn [at_] in G0;
      assert (Pc0 : pubn g cc) by (apply (t_refs _ _ Ta); apply in_or_app; right; left; reflexivity);
      destruct (step_E_ld0_noop g _ cc G0 eq_refl Pc0 H) as [Hnl _];
      assert (SV : sameV g gg None) by
        (repeat apply sameV_fault; apply sameV_heap; [reflexivity| |reflexivity|reflexivity]; cbn [lst commit apply_m]; apply remove_nat_notin; exact Hnl);
      destruct (h_views g gg ls t _ ll IA Hl eq_refl (ltac:(autorewrite with wm; reflexivity))) as (Hp1 & Hp2 & Hm);
      eapply (InvC_frameV2 g gg ls t _ ll None IA IB IC Hl SV)
    end;
    [ unfold enode; rewrite Hp1, Hp2; reflexivity
    | rewrite Hp2; cbn; intros n1 E1; discriminate
    | cbn [at_ past_dd]; intros; discriminate
    | intros; discriminate
    | match goal with |- (forall w r, hnd ?ll = _ -> _) /\ _ => apply (refs_new _ ls t _ ll IA IB IC Hl eq_refl) end;
      [ apply (refs_registered _ ls t _ c0 IC Hl); unfold nrefs; cbn [its at_ pc_refs]; apply in_or_app; right; left; reflexivity
      | unfold nrefs; cbn [its at_ pc_refs]; intros c1 Hc1; apply in_app_or in Hc1; destruct Hc1 as [Hc1|Hc1];
        [left; apply in_or_app; left; exact Hc1|];
        right; right; exists c0; split; [apply in_or_app; right; left; reflexivity|];
        unfold nx; destruct (nnext (gnode _ c0)); cbn in Hc1; [destruct Hc1 as [<-|[]]; reflexivity|destruct Hc1] ]
    | unfold thrC; cbn [at_]; exact I ]).
  (* 7. the holder writes to its private, unpublished node *)
  all: try (
    match type of Hl with nth_error _ _ = Some {| prog := _; at_ := ?pp; hnd := _; its := _ |} =>
      match pp with P_constr _ _ => idtac | PF_next _ _ => idtac end end;
    destruct (hpc_holder g ls t _ IA Hl eq_refl) as [Ehp _]; pose proof (a_gs _ _ IA) as G0; rewrite Ehp in G0; cbn [at_] in G0;
    pose proof (gs_hold _ _ G0) as Hh0; cbn [hold_ok] in Hh0; unfold fresh_node in Hh0;
    assert (Hin0 : isnode g n = true) by (apply (wtarget_isnode g ls t _ _ IA Hl); reflexivity);
    assert (Hdl0 : dl g n = false) by (first [tauto | (destruct Hh0 as (_ & Hg0 & _); unfold dl; rewrite Hg0; reflexivity)]);
    assert (Hnl0 : ~ In n (lst g)) by tauto;
    match goal with |- InvC ?gg (upd _ _ ?ll) =>
      assert (SV : sameV g gg (Some n)) by
        (repeat apply sameV_fault;
         first [ apply sameV_construct_node; [exact Hin0|reflexivity|reflexivity|tauto|];
                 intros Hz0; pose proof (b_rec _ _ IB n Hz0) as Hr0; rewrite (isnode_isrec _ _ Hin0) in Hr0; discriminate
               | apply sameV_setn; [exact Hin0|left; reflexivity|cbn; auto] ]);
      destruct (h_views g gg ls t _ ll IA Hl eq_refl (ltac:(autorewrite with wm; reflexivity))) as (Hp1 & Hp2 & Hm);
      eapply (InvC_frameV2 g gg ls t _ ll (Some n) IA IB IC Hl SV)
    end;
    [ unfold enode; rewrite Hp1, Hp2; reflexivity
    | rewrite Hp2; cbn [at_ pnode priv_node]; intros n1 E1; inversion E1; subst n1
    | cbn [at_ past_dd]; intros; discriminate
    | intros k1 E1; inversion E1; subst k1; split; [exact Hnl0|split; [unfold enode; rewrite Hp1; discriminate|]];
      intros z1 Hz1 Hk1; destruct (c_recn _ _ IC z1 n Hz1 Hk1) as (_ & D1 & _); congruence
    | match goal with |- (forall w r, hnd ?ll = _ -> _) /\ _ => apply (refs_sub _ ls t _ ll IC Hl eq_refl) end; intros c1 Hc1; exact Hc1
    | unfold thrC; cbn [at_]; exact I ]).
  all: try (rewrite cs_of_construct, Nat.eqb_refl; destruct Hh0 as (Hc0 & _); rewrite Hc0; reflexivity).
  all: try (change (cs_of (with_fault (setn g n (n_next (gnode g n) (Some old)))) n) with (cs_of (setn g n (n_next (gnode g n) (Some old))) n)).
  all: try (rewrite cs_of_setn; apply (c_pn _ _ IC n); rewrite Ehp; reflexivity).
  (* 8. publication, unlink, node reclamation, record reclamation *)
  all: try (apply (stepC_P_e1 g ls t IA IB IC pr o n _ its0 _ Hl); auto; fail).
  all: try (apply (stepC_PF_head g ls t IA IB IC pr n _ its0 Hl)).
  all: try (apply (stepC_PB_next g ls t IA IB IC pr n old _ its0 Hl)).
  all: try (apply (stepC_E_s1 g ls t IA IB IC pr it c0 nx0 _ nx z _ its0 _ Hl); reflexivity).
  all: try (apply (stepC_U_dd g ls t IA IB IC pr n n0 _ its0 Hl)).
  all: try (apply (stepC_U_df g ls t IA IB IC pr n n0 _ its0 Hl)).
  all: try (apply (stepC_U_zf g ls t IA IB IC pr n _ _ its0 Hl)).
  all: try (unfold enode; rewrite Hp1, Hp2; cbn [at_ erasing_node]; unfold thrB in Tt; cbn [at_] in Tt;
            destruct Tt as (_ & _ & _ & Ez & _); unfold znd in *;
            rewrite ?grec_setn by (apply (wtarget_isnode g ls t _ _ IA Hl); reflexivity); exact Ez).
Qed.

(* ---------- reachable states ---------- *)
Definition Inv3 (g : glob) (ls : list loc) : Prop := InvA g ls /\ InvB g ls /\ InvC g ls.
Lemma Inv3_step g ls t c l g' l' es :
  Inv3 g ls -> nth_error ls t = Some l -> tstep t c g l = Some (g', l', es) -> Inv3 g' (upd ls t l').
Proof.
  intros (IA & IB & IC) Hl Hs. split; [eapply InvA_step; eauto|split; [eapply InvB_step; eauto|eapply InvC_step; eauto]].
Qed.
Lemma InvC_init unf progs : InvC (gl (init unf progs)) (thr (init unf progs)).
Proof.
  assert (P : forall u, pcof (thr (init unf progs)) u = Idle) by (intros u; apply locof_init).
  assert (Hh : hpc (gl (init unf progs)) (thr (init unf progs)) = Idle) by reflexivity.
  constructor.
  - intros k [].
  - intros n E. rewrite Hh in E. discriminate.
  - intros k E. unfold enode in E. rewrite Hh in E. discriminate.
  - intros z k [].
  - intros z z' k [].
  - intros z k [[] _].
  - intros r [[] _].
  - intros u l w r Hu Hl. cbn [thr init] in Hu. rewrite nth_error_map in Hu. destruct (nth_error progs u); [|discriminate].
    cbn in Hu. inversion Hu; subst l. discriminate.
  - intros u l Hu _. cbn [thr init] in Hu. rewrite nth_error_map in Hu. destruct (nth_error progs u); [|discriminate].
    cbn in Hu. inversion Hu; subst l. reflexivity.
  - intros u l Hu. cbn [thr init] in Hu. rewrite nth_error_map in Hu. destruct (nth_error progs u); [|discriminate].
    cbn in Hu. inversion Hu; subst l. exact I.
Qed.
Lemma R_Inv3 unf progs s : R unf progs s -> Inv3 (gl s) (thr s).
Proof.
  intros H. eapply reachable_inv; [apply Inv3_step|split; [apply InvA_init|split; [apply InvB_init|apply InvC_init]]|exact H].
Qed.

(* ---------- no step ever faults ---------- *)
Lemma dd_constr g ls t l n d : InvA g ls -> InvB g ls -> InvC g ls -> nth_error ls t = Some l ->
  at_ l = U_dd n (Some d) -> cs_of g d = Some Constr.
Proof.
  intros IA IB IC Hl Hat. pose proof (b_thr _ _ IB t l Hl) as T. unfold thrB in T. rewrite Hat in T. destruct T as ((Rn & _) & Cs & Ed). symmetry in Ed.
  apply (c_pend _ _ IC n d Rn Ed). intros u. destruct (Nat.eq_dec u t) as [->|Hu]; [rewrite (pcof_at _ _ _ Hl), Hat; reflexivity|].
  apply (reclaimer_alone g ls t IA IB l n Hl); [rewrite Hat; reflexivity|exact Hu].
Qed.

Lemma fault_construct g k b : cs_of g k = Some Alloc -> fault (fst (do_construct g k b)) = fault g /\ unfixed (fst (do_construct g k b)) = unfixed g.
Proof.
  intros H. destruct (construct_fields g k b) as (_ & _ & _ & _ & _ & F & _ & _ & _ & _ & _ & F12).
  apply cs_is_iff in H. rewrite H in F12. rewrite F12, orb_false_r. auto.
Qed.
Lemma fault_destroy g k : cs_of g k = Some Constr -> fault (fst (do_destroy g k)) = fault g /\ unfixed (fst (do_destroy g k)) = unfixed g.
Proof.
  intros H. destruct (destroy_fields g k) as (_ & _ & _ & _ & _ & F & _ & _ & _ & _ & _ & F12).
  apply cs_is_iff in H. rewrite H in F12. rewrite F12, orb_false_r. auto.
Qed.
Lemma fault_dealloc g k : cs_of g k = Some Destr -> fault (fst (do_dealloc g k)) = fault g /\ unfixed (fst (do_dealloc g k)) = unfixed g.
Proof.
  intros H. destruct (dealloc_fields g k) as (_ & _ & _ & _ & _ & F & _ & _ & _ & _ & _ & F12).
  apply cs_is_iff in H. rewrite H in F12. rewrite F12, orb_false_r. auto.
Qed.

Lemma fault_dealloc_raw g k : rawok g k = true ->
  fault (fst (do_dealloc_raw g k)) = fault g /\ unfixed (fst (do_dealloc_raw g k)) = unfixed g.
Proof.
  intros H. destruct (dealloc_raw_fields g k) as (_ & _ & _ & _ & _ & F & _ & _ & _ & _ & _ & F12).
  rewrite H in F12. rewrite F12, orb_false_r. auto.
Qed.
Lemma step_no_fault g ls t c l g' l' es :
  Inv3 g ls -> InvX g ls -> unfixed g = false -> nth_error ls t = Some l -> tstep t c g l = Some (g', l', es) ->
  fault g' = fault g /\ unfixed g' = unfixed g.
Proof.
  intros (IA & IB & IC) IX Hu Hl Hs.
  pose proof (b_thr _ _ IB t l Hl) as Tt. pose proof (c_thr _ _ IC t l Hl) as Tc.
  pose proof (log_ledger_ok g ls t l (conj IA IB) Hl) as Tl.
  destruct l as [pr p h its0]. destruct p; step_cases2 Hs; fold_fst; cbn [at_] in *.
  all: try (match goal with H : okn _ ?k = false |- _ =>
              exfalso; rewrite (node_access_ok _ ls t _ k IA IB IC Hl eq_refl) in H; discriminate end).
  all: try (match goal with H : okz _ ?k = false |- _ =>
              exfalso; rewrite (log_access_ok _ ls t _ k (conj IA IB) Hl eq_refl) in H; discriminate end).
  all: try (split; reflexivity).
  all: try (split; [apply modc_fields|apply modc_fields]).
  all: try (apply fault_construct; exact Tl).
  all: try (apply fault_destroy; exact Tl).
  all: try (apply fault_dealloc; exact Tl).
  all: try (unfold thrC in Tc; congruence).
  all: try (apply fault_construct;
            destruct (hpc_holder g ls t _ IA Hl eq_refl) as [Ehp _]; pose proof (gs_hold _ _ (a_gs _ _ IA)) as H; rewrite Ehp in H; cbn [at_ hold_ok] in H; tauto).
  all: try (split; [etransitivity; [|apply modc_fields]; reflexivity|etransitivity; [|apply modc_fields]; reflexivity]).
  all: try (apply fault_destroy; apply (dd_constr g ls t _ n n0 IA IB IC Hl eq_refl)).
  all: try (apply fault_dealloc; unfold thrC in Tc; exact Tc).
  all: try (apply fault_dealloc_raw; apply (IX t _ n Hl); reflexivity).
Qed.

Definition Inv4 (g : glob) (ls : list loc) : Prop := Inv3 g ls /\ unfixed g = false /\ fault g = false.
Lemma Inv4_step g ls t c l g' l' es :
  Inv4 g ls -> InvX g ls -> nth_error ls t = Some l -> tstep t c g l = Some (g', l', es) -> Inv4 g' (upd ls t l').
Proof.
  intros (I3 & Hu & Hf) IX Hl Hs. destruct (step_no_fault g ls t c l g' l' es I3 IX Hu Hl Hs) as [A B].
  split; [eapply Inv3_step; eauto|split; congruence].
Qed.
Definition Inv4x (g : glob) (ls : list loc) : Prop := Inv4 g ls /\ InvR g ls.
Lemma Inv4x_step g ls t c l g' l' es :
  Inv4x g ls -> nth_error ls t = Some l -> tstep t c g l = Some (g', l', es) -> Inv4x g' (upd ls t l').
Proof.
  intros [I4 IR] Hl Hs. split; [eapply Inv4_step; eauto; apply InvR_X; exact IR|]. destruct I4 as ((IA & _) & _). eapply InvR_step; eauto.
Qed.
Lemma R_Inv4x progs s : R false progs s -> Inv4x (gl s) (thr s).
Proof.
  intros H. eapply reachable_inv; [apply Inv4x_step| |exact H].
  split; [split; [split; [apply InvA_init|split; [apply InvB_init|apply InvC_init]]|split; reflexivity]|apply InvR_init].
Qed.
Lemma R_Inv4 progs s : R false progs s -> Inv4 (gl s) (thr s).
Proof. intros H. apply (R_Inv4x _ _ H). Qed.

(* C05 / C13: for the repaired source, no program and no schedule ever reaches a fault: no access to a
   cell that is not alive, no illegal allocator call *)
Theorem no_fault progs s : R false progs s -> fault (gl s) = false.
Proof. intros H. apply (R_Inv4 _ _ H). Qed.

(* every node an iterator or a register of any thread refers to is a constructed node cell *)
Theorem reachable_alive unf progs s t l c : R unf progs s -> nth_error (thr s) t = Some l -> In c (nrefs l) -> okn (gl s) c = true.
Proof. intros HR. destruct (R_Inv3 _ _ _ HR) as (IA & IB & IC). apply (refs_alive _ _ IA IB IC). Qed.

(* the closure that makes ++ safe: while a handle's record r is owned, everything reachable through next
   pointers from a node it covers is covered, hence constructed *)
Theorem covered_closed unf progs s r k m : R unf progs s ->
  inlog (gl s) r -> zown (gl s) r <> None -> covers (gl s) (thr s) r k -> nx (gl s) k = Some m ->
  covers (gl s) (thr s) r m /\ okn (gl s) m = true.
Proof.
  intros HR Hr Ho Hk Hm. destruct (R_Inv3 _ _ _ HR) as (IA & IB & IC).
  pose proof (c_cov _ _ IC r Hr Ho k m Hk Hm) as C. split; [exact C|].
  destruct (covered_constr _ _ IA IB IC r m Hr Ho C). apply okn_iff. auto.
Qed.

(* a node is destroyed only by a reclaimer whose region contains the node's record: every record at least
   as old as that record is unowned, i.e. every handle that was registered when the node was erased
   has been released *)
Theorem destroy_only_unprotected unf progs s t l n d r : R unf progs s ->
  nth_error (thr s) t = Some l -> at_ l = U_dd n (Some d) ->
  inlog (gl s) r -> zown (gl s) r <> None -> ~ covers (gl s) (thr s) r d.
Proof.
  intros HR Hl Hat Hr Ho Hc. destruct (R_Inv3 _ _ _ HR) as (IA & IB & IC).
  pose proof (b_thr _ _ IB t l Hl) as T. unfold thrB in T. rewrite Hat in T. destruct T as ((Rn & Rlt & Rbt & Run) & Cs & Ed). symmetry in Ed.
  destruct (c_recn _ _ IC n d (inlog_In _ _ Rn) Ed) as (D1 & D2 & D3).
  destruct Hc as [A|[A|(z & Z1 & Z2 & Z3)]]; [auto| |].
  - destruct (c_en _ _ IC d A) as (_ & _ & _ & _ & _ & E6). apply (E6 n (inlog_In _ _ Rn) Ed).
  - assert (z = n) by (apply (c_uniq _ _ IC z n d (inlog_In _ _ Z1) (inlog_In _ _ Rn) Z2 Ed)). subst z.
    apply Ho. apply Run; [exact Hr|lia].
Qed.
