(* Invariants and lemmas for the lr_guarded model (C03; lr parts of C14, C20, C07). *)
From Coq Require Import List Arith ZArith Lia Bool.
Import ListNotations.
From GV Require Import Sched Events LRModel.
Local Open Scope Z_scope.

Ltac step_cases Hs :=
  unfold tstep, bad in Hs; cbn [at_ prog] in Hs;
  repeat match type of Hs with
         | context [match ?x with _ => _ end] => destruct x eqn:?; cbn in Hs
         | context [if ?x then _ else _] => destruct x eqn:?; cbn in Hs
         end;
  try discriminate; inversion Hs; subst; clear Hs.

Definition holds (p : pc) : bool :=
  match p with Idle | R_ldc | R_inc | R_ldr | H_rb | H_re | L_dec | M_lock => false | _ => true end.

Definition prefix (a b : list Z) : Prop := exists c, b = a ++ c.
Definition other (g : glob) : copy := cp g (negb (rl g)).
Definition vis (g : glob) : Prop := log (cp g (rl g)) = committed g /\ dirty (cp g (rl g)) = false.
Definition idle_ok (g : glob) : Prop := gph g = PA /\ dirty (other g) = false /\ log (other g) = committed g.

(* what the mutex holder knows at each pc *)
Definition wok (g : glob) (l : loc) : Prop :=
  let com := committed g in let f := fid l in let o := log (other g) in
  let d := dirty (other g) in
  match at_ l with
  | M_ldr => gph g = PA /\ d = false /\ o = com /\ com = gold l
  | A_call true | A_rb true | A_re true =>
      lrl l = rl g /\ gph g = PA /\ d = false /\ o = com /\ com = gold l
  | A_wb true => lrl l = rl g /\ gph g = PA /\ d = false /\ o = com /\ com = gold l /\ tmp l = com
  | A_we true => lrl l = rl g /\ gph g = PA /\ d = true /\ com = gold l /\ tmp l = com
  | A_call2 true | M_str => lrl l = rl g /\ gph g = PA /\ d = false /\ o = com ++ [f] /\ com = gold l
  | C_rb true | C_re true => lrl l = rl g /\ gph g = PA /\ d = false /\ com = gold l
  | C_wb true => lrl l = rl g /\ gph g = PA /\ d = false /\ com = gold l /\ tmp l = com
  | C_we true => lrl l = rl g /\ gph g = PA /\ d = true /\ com = gold l /\ tmp l = com
  | C_unlock true => gph g = PA /\ d = false /\ o = com /\ com = gold l
  | M_ldc => lrl l = negb (rl g) /\ gph g = PC1 /\ d = false /\ com = o ++ [f] /\ com = gold l ++ [f]
  | M_d1 | M_y1 =>
      lrl l = negb (rl g) /\ gph g = PC1 /\ d = false /\ com = o ++ [f] /\ com = gold l ++ [f] /\ cl g = lcl l
  | M_stc =>
      lrl l = negb (rl g) /\ gph g = PC2 /\ d = false /\ com = o ++ [f] /\ com = gold l ++ [f] /\
      cl g = lcl l /\ glcl g = lcl l
  | M_d2 | M_y2 =>
      lrl l = negb (rl g) /\ gph g = PC2 /\ d = false /\ com = o ++ [f] /\ com = gold l ++ [f] /\
      cl g = negb (lcl l) /\ glcl g = lcl l
  | A_call false | A_rb false | A_re false =>
      lrl l = negb (rl g) /\ gph g = PA /\ d = false /\ com = o ++ [f] /\ com = gold l ++ [f]
  | A_wb false =>
      lrl l = negb (rl g) /\ gph g = PA /\ d = false /\ com = o ++ [f] /\ com = gold l ++ [f] /\ tmp l ++ [f] = com
  | A_we false => lrl l = negb (rl g) /\ gph g = PA /\ d = true /\ com = gold l ++ [f] /\ tmp l ++ [f] = com
  | A_call2 false | M_unlock => lrl l = negb (rl g) /\ gph g = PA /\ d = false /\ o = com /\ com = gold l ++ [f]
  | C_rb false | C_re false => lrl l = negb (rl g) /\ gph g = PA /\ d = false /\ com = gold l ++ [f]
  | C_wb false => lrl l = negb (rl g) /\ gph g = PA /\ d = false /\ com = gold l ++ [f] /\ tmp l = com
  | C_we false => lrl l = negb (rl g) /\ gph g = PA /\ d = true /\ com = gold l ++ [f] /\ tmp l = com
  | C_unlock false => gph g = PA /\ d = false /\ o = com /\ com = gold l ++ [f]
  | _ => True
  end.

(* what is known about a held handle *)
Definition hok (g : glob) (h : hnd) : Prop :=
  match gph g with PA => hd h = rl g | PC1 => True | PC2 => hd h = rl g \/ hc h = glcl g end /\
  log (cp g (hd h)) = hsnap h /\ dirty (cp g (hd h)) = false /\ prefix (hsnap h) (committed g).

Lemma prefix_refl a : prefix a a.
Proof. exists []. symmetry. apply app_nil_r. Qed.
Lemma prefix_app a b c : prefix a b -> prefix a (b ++ c).
Proof. intros [x ->]. exists (x ++ c). symmetry. apply app_assoc. Qed.
Lemma prefix_trans a b c : prefix a b -> prefix b c -> prefix a c.
Proof. intros [x ->] [y ->]. exists (x ++ y). symmetry. apply app_assoc. Qed.

Ltac splits := repeat match goal with |- _ /\ _ => split end.
Ltac destr_and := repeat match goal with H : _ /\ _ |- _ => destruct H end.
(* case analysis on the boolean flags that select a copy / counter *)
Ltac bools :=
  repeat (match goal with
          | H : context [if ?b then _ else _] |- _ => destruct b eqn:?
          | |- context [if ?b then _ else _] => destruct b eqn:?
          | H : context [negb ?b] |- _ => is_var b; destruct b
          | |- context [negb ?b] => is_var b; destruct b
          end; cbn in *; subst; try discriminate).

Ltac prep Hw :=
  unfold vis, idle_ok, wok, hok, other, cp, ctr, tgt in *; cbn in *;
  repeat match goal with ph : bool |- _ => match type of Hw with context [if ph then _ else _] => destruct ph end end;
  cbn in *; try (specialize (Hw eq_refl)); destr_and; subst.

Lemma vis_step t c g l g' l' es :
  tstep t c g l = Some (g', l', es) -> (holds (at_ l) = true -> wok g l) -> vis g -> vis g'.
Proof.
  intros Hs Hw Hv. destruct l as [pr p sls s rcn f lr lc tm go].
  step_cases Hs; prep Hw; try exact Hv.
  all: try (bools; splits; congruence).
Qed.

Ltac close := solve [ exact I | congruence | apply prefix_app; assumption | left; congruence | right; congruence
                    | exfalso; congruence ].

Lemma wok_step t c g l g' l' es :
  tstep t c g l = Some (g', l', es) -> (holds (at_ l) = true -> wok g l) ->
  (mtx g = None -> idle_ok g) -> vis g -> holds (at_ l') = true -> wok g' l'.
Proof.
  intros Hs Hw Hi Hv Hh. destruct l as [pr p sls s rcn f lr lc tm go].
  step_cases Hs; cbn in Hh; try discriminate; prep Hw.
  all: try (specialize (Hi eq_refl)); destr_and.
  all: try (bools; splits; close).
Qed.

Lemma idle_step t c g l g' l' es :
  tstep t c g l = Some (g', l', es) -> (holds (at_ l) = true -> wok g l) ->
  (holds (at_ l) = true -> mtx g = Some t) ->
  (mtx g = None -> idle_ok g) -> mtx g' = None -> idle_ok g'.
Proof.
  intros Hs Hw Hm Hi Hn. destruct l as [pr p sls s rcn f lr lc tm go].
  step_cases Hs; cbn in Hn, Hm; try discriminate; try (specialize (Hm eq_refl); congruence); prep Hw.
  all: try (specialize (Hi Hn)); destr_and.
  all: try (bools; splits; close).
Qed.

Ltac usephase :=
  repeat match goal with
         | E : gph ?g = _, H : context [match gph ?g with _ => _ end] |- _ => rewrite E in H
         | E : gph ?g = _ |- context [match gph ?g with _ => _ end] => rewrite E
         end; cbn in *.

Lemma hok_step t c g l g' l' es h :
  tstep t c g l = Some (g', l', es) -> (holds (at_ l) = true -> wok g l) -> vis g ->
  hok g h -> (forall k, ctr g k = 0 -> hc h <> k) -> hok g' h.
Proof.
  intros Hs Hw Hv Hh Hz. destruct l as [pr p sls s rcn f lr lc tm go].
  step_cases Hs; prep Hw; try exact Hh; usephase.
  all: try (bools; splits; close).
  all: match goal with H : (_ =? 0) = true |- _ => apply Z.eqb_eq in H; rename H into Hc end.
  all: pose proof (Hz _ Hc) as Hne; splits; try assumption.
  - right. destruct (hc h), (cl g); cbn in *; congruence.
  - destruct H as [H|H]; congruence.
Qed.

(* a thread that does not hold the mutex changes nothing the writer or a handle depends on *)
Definition same_w (g g' : glob) : Prop :=
  rl g' = rl g /\ cl g' = cl g /\ gph g' = gph g /\ glcl g' = glcl g /\ committed g' = committed g /\
  forall x, log (cp g' x) = log (cp g x) /\ dirty (cp g' x) = dirty (cp g x).

Lemma nonholder_same t c g l g' l' es :
  tstep t c g l = Some (g', l', es) -> holds (at_ l) = false -> same_w g g'.
Proof.
  intros Hs Hh. destruct l as [pr p sls s rcn f lr lc tm go].
  step_cases Hs; cbn in Hh; try discriminate; unfold same_w, cp; cbn; splits; try reflexivity.
  all: intros x; destruct x; bools; auto.
Qed.

Lemma wok_same g g' l : same_w g g' -> wok g l -> wok g' l.
Proof.
  intros (E1 & E2 & E3 & E4 & E5 & E6). unfold wok, other. rewrite E1, E2, E3, E4, E5.
  destruct (E6 (negb (rl g))) as [-> ->]. auto.
Qed.
Lemma hok_same g g' h : same_w g g' -> hok g h -> hok g' h.
Proof.
  intros (E1 & E2 & E3 & E4 & E5 & E6). unfold hok. rewrite E1, E3, E4, E5.
  destruct (E6 (hd h)) as [-> ->]. auto.
Qed.


Lemma mtx_step t c g l g' l' es :
  tstep t c g l = Some (g', l', es) -> (holds (at_ l) = true -> mtx g = Some t) ->
  (holds (at_ l') = true -> mtx g' = Some t) /\
  (holds (at_ l') = false -> holds (at_ l) = true -> mtx g' = None) /\
  (holds (at_ l') = holds (at_ l) -> mtx g' = mtx g) /\
  (holds (at_ l) = false -> holds (at_ l') = true -> mtx g = None).
Proof.
  intros Hs Hm. destruct l as [pr p sls s rcn f lr lc tm go].
  step_cases Hs; cbn in *; splits; intros; try discriminate; try reflexivity; auto.
  all: try (destruct ph; cbn in *; try discriminate; auto).
Qed.

(* ---------- thread-local facts about the handle slots ---------- *)
Definition lok (l : loc) : Prop :=
  match at_ l with
  | R_ldc | R_inc | R_ldr => nth_error (slots l) (sl l) = Some None
  | H_rb | H_re | L_dec => exists h, nth_error (slots l) (sl l) = Some (Some h)
  | _ => True
  end.

Lemma cur_hnd_nth l h : cur_hnd l = Some h <-> nth_error (slots l) (sl l) = Some (Some h).
Proof.
  unfold cur_hnd. destruct (nth_error (slots l) (sl l)) as [[x|]|]; split; intros H; inversion H; reflexivity.
Qed.

Lemma lok_step t c g l g' l' es : tstep t c g l = Some (g', l', es) -> lok l -> lok l'.
Proof.
  intros Hs Hk. destruct l as [pr p sls s rcn f lr lc tm go].
  step_cases Hs; unfold lok in *; cbn in *; auto; eauto.
Qed.

Lemma In_upd {A} (l : list A) i x y : In y (upd l i x) -> y = x \/ In y l.
Proof.
  revert i; induction l as [|a r IH]; destruct i; cbn; intros H; auto.
  - destruct H; auto.
  - destruct H as [H|H]; auto. destruct (IH _ H); auto.
Qed.

Lemma slots_step t c g l g' l' es h :
  tstep t c g l = Some (g', l', es) -> In (Some h) (slots l') ->
  In (Some h) (slots l) \/ (g' = g /\ h = Hnd (rl g) (rcnt l) (committed g)).
Proof.
  intros Hs Hin. destruct l as [pr p sls s rcn f lr lc tm go].
  step_cases Hs; cbn in *; auto.
  all: apply In_upd in Hin; destruct Hin as [E|Hin]; auto; try discriminate.
  inversion E; subst. auto.
Qed.

(* ---------- counting: registered readers, open read windows ---------- *)
Definition hw (k : bool) (o : option hnd) : nat :=
  match o with Some h => if Bool.eqb (hc h) k then 1 else 0 | None => 0 end%nat.
Definition reg (k : bool) (l : loc) : nat :=
  (list_sum (map (hw k) (slots l)) +
   match at_ l with R_ldr => if Bool.eqb (rcnt l) k then 1 else 0 | _ => 0 end)%nat.
Definition rdo (x : bool) (l : loc) : nat :=
  match at_ l with
  | H_re => match cur_hnd l with Some h => if Bool.eqb (hd h) x then 1 else 0 | None => 0 end
  | A_re ph => if Bool.eqb (tgt ph (lrl l)) x then 1 else 0
  | C_re ph => if Bool.eqb (negb (tgt ph (lrl l))) x then 1 else 0
  | _ => 0
  end%nat.

Local Arguments list_sum : simpl never.

Lemma reg_step t c g l g' l' es k :
  tstep t c g l = Some (g', l', es) -> lok l ->
  ctr g' k + Z.of_nat (reg k l) = ctr g k + Z.of_nat (reg k l').
Proof.
  intros Hs Hk. destruct l as [pr p sls s rcn f lr lc tm go].
  step_cases Hs; unfold lok, reg, ctr in *; cbn in *; try lia.
  - (* R_inc *) destruct rcn, k; cbn; lia.
  - (* R_ldr *) pose proof (sum_upd (hw k) sls s None (Some (Hnd (rl g') rcn (committed g'))) Hk) as E.
    cbn in E. destruct (Bool.eqb rcn k); lia.
  - (* L_dec *) apply cur_hnd_nth in Heqo. cbn in Heqo.
    pose proof (sum_upd (hw k) sls s (Some h) None Heqo) as E. cbn in E.
    destruct (hc h), k; cbn in *; lia.
Qed.

Lemma rdo_step t c g l g' l' es x :
  tstep t c g l = Some (g', l', es) ->
  nrd (cp g' x) + Z.of_nat (rdo x l) = nrd (cp g x) + Z.of_nat (rdo x l').
Proof.
  intros Hs. destruct l as [pr p sls s rcn f lr lc tm go].
  step_cases Hs; unfold rdo, cp, tgt, cur_hnd, set_at in *; cbn in *; try lia.
  all: try (destruct (nth_error sls s) as [[h0|]|]; try discriminate; inversion Heqo; subst).
  all: try (destruct x; bools; lia).
Qed.

Definition is_wb (p : pc) : bool := match p with A_wb _ | C_wb _ => true | _ => false end.

Lemma nofault_step t c g l g' l' es :
  tstep t c g l = Some (g', l', es) -> (holds (at_ l) = true -> wok g l) -> vis g ->
  (forall h, nth_error (slots l) (sl l) = Some (Some h) -> hok g h) -> lok l ->
  (is_wb (at_ l) = true -> nrd (other g) <= 0) -> faults g' = faults g.
Proof.
  intros Hs Hw Hv Hh Hk Hn. destruct l as [pr p sls s rcn f lr lc tm go].
  step_cases Hs; cbn in *; try lia.
  all: try match goal with H : cur_hnd _ = Some _ |- _ => apply cur_hnd_nth in H; cbn in H; specialize (Hh _ H) end.
  all: try (unfold lok, cur_hnd in *; cbn in *;
            match goal with Hk : exists _, _ |- _ => destruct Hk as [h0 Hk]; rewrite Hk in *; discriminate end).
  all: prep Hw; usephase.
  all: try (specialize (Hn eq_refl)).
  all: try match goal with H : (0 <? _) = true |- _ => apply Z.ltb_lt in H end.
  all: try (bools; first [lia | congruence]).
Qed.

(* ---------- sums over lists ---------- *)
Lemma sum_zero_all {A} (f : A -> nat) (l : list A) u x :
  list_sum (map f l) = O -> nth_error l u = Some x -> f x = O.
Proof.
  revert u; induction l as [|a r IH]; destruct u; cbn; intros H E; try discriminate.
  - inversion E; subst. unfold list_sum in H. cbn in H. lia.
  - apply (IH u); auto. unfold list_sum in *. cbn in H. lia.
Qed.
Lemma all_zero_sum {A} (f : A -> nat) (l : list A) :
  (forall u x, nth_error l u = Some x -> f x = O) -> list_sum (map f l) = O.
Proof.
  induction l as [|a r IH]; intros H; [reflexivity|].
  unfold list_sum in *. cbn. rewrite (H O a eq_refl). cbn. apply IH. intros u x E. apply (H (S u) x E).
Qed.
Lemma hw_zero k sls h : list_sum (map (hw k) sls) = O -> In (Some h) sls -> hc h <> k.
Proof.
  intros Hz Hin. apply In_nth_error in Hin. destruct Hin as [i Hi].
  pose proof (sum_zero_all _ _ _ _ Hz Hi) as E. cbn in E.
  intros <-. rewrite Bool.eqb_reflx in E. discriminate.
Qed.

(* ---------- the invariant ---------- *)
Record Inv (g : glob) (ls : list loc) : Prop := {
  I_owner : forall u l, nth_error ls u = Some l -> holds (at_ l) = true -> mtx g = Some u;
  I_held : forall a, mtx g = Some a -> exists l, nth_error ls a = Some l /\ holds (at_ l) = true;
  I_w : forall u l, nth_error ls u = Some l -> holds (at_ l) = true -> wok g l;
  I_idle : mtx g = None -> idle_ok g;
  I_vis : vis g;
  I_hnd : forall u l h, nth_error ls u = Some l -> In (Some h) (slots l) -> hok g h;
  I_cnt : forall k, ctr g k = Z.of_nat (list_sum (map (reg k) ls));
  I_nrd : forall x, nrd (cp g x) = Z.of_nat (list_sum (map (rdo x) ls));
  I_loc : forall u l, nth_error ls u = Some l -> lok l;
  I_nofault : faults g = O
}.

(* a counter at zero: no handle is registered in it *)
Lemma no_handle_when_zero g ls k u l h :
  Inv g ls -> ctr g k = 0 -> nth_error ls u = Some l -> In (Some h) (slots l) -> hc h <> k.
Proof.
  intros HI Hz Hl Hin. pose proof (I_cnt _ _ HI k) as E. rewrite Hz in E.
  assert (list_sum (map (reg k) ls) = O) as E0 by lia.
  pose proof (sum_zero_all _ _ _ _ E0 Hl) as E1. unfold reg in E1.
  apply (hw_zero k (slots l)); [lia|exact Hin].
Qed.

(* while the holder is about to open a write window on the copy readers are not
   directed to, no read window is open on that copy *)
Lemma nrd_other g ls t l :
  Inv g ls -> nth_error ls t = Some l -> is_wb (at_ l) = true -> nrd (other g) = 0.
Proof.
  intros HI Hl Hwb. unfold other. rewrite (I_nrd _ _ HI).
  assert (Hh : holds (at_ l) = true) by (destruct (at_ l); try discriminate; reflexivity).
  pose proof (I_owner _ _ HI _ _ Hl Hh) as Hm.
  assert (Hpa : gph g = PA).
  { pose proof (I_w _ _ HI _ _ Hl Hh) as Hw. unfold wok in Hw.
    destruct (at_ l); try discriminate; destruct ph; tauto. }
  rewrite all_zero_sum; [reflexivity|]. intros v lv Hv. unfold rdo.
  destruct (at_ lv) eqn:Ep; try reflexivity.
  - destruct (cur_hnd lv) as [h|] eqn:Eh; [|reflexivity].
    apply cur_hnd_nth in Eh. apply nth_error_In in Eh.
    pose proof (I_hnd _ _ HI _ _ _ Hv Eh) as [Hs _]. rewrite Hpa in Hs. rewrite Hs.
    destruct (rl g); reflexivity.
  - assert (holds (at_ lv) = true) as Hhv by (rewrite Ep; reflexivity).
    pose proof (I_owner _ _ HI _ _ Hv Hhv). assert (v = t) by congruence. subst v.
    assert (lv = l) by congruence. subst lv. rewrite Ep in Hwb. discriminate.
  - assert (holds (at_ lv) = true) as Hhv by (rewrite Ep; reflexivity).
    pose proof (I_owner _ _ HI _ _ Hv Hhv). assert (v = t) by congruence. subst v.
    assert (lv = l) by congruence. subst lv. rewrite Ep in Hwb. discriminate.
Qed.

Lemma Inv_init ns pl progs : Inv (gl (init ns pl progs)) (thr (init ns pl progs)).
Proof.
  assert (P : forall u l, nth_error (map (init_loc ns) progs) u = Some l -> exists p, l = init_loc ns p).
  { intros u l H. rewrite nth_error_map in H. destruct (nth_error progs u); inversion H. eauto. }
  assert (Q : forall h, ~ In (Some h) (repeat (@None hnd) ns)).
  { intros h Hin. apply repeat_spec in Hin. discriminate. }
  assert (S0 : forall k, list_sum (map (hw k) (repeat (@None hnd) ns)) = O).
  { intros k. apply all_zero_sum. intros u x E. apply nth_error_In in E. apply repeat_spec in E. subst. reflexivity. }
  unfold init; cbn. constructor; cbn.
  - intros u l H Hh. destruct (P _ _ H) as [p ->]. discriminate.
  - discriminate.
  - intros u l H Hh. destruct (P _ _ H) as [p ->]. discriminate.
  - intros _. repeat split.
  - repeat split.
  - intros u l h H Hin. destruct (P _ _ H) as [p ->]. cbn in Hin. destruct (Q _ Hin).
  - intros k. rewrite all_zero_sum; [destruct k; reflexivity|].
    intros u l H. destruct (P _ _ H) as [p ->]. unfold reg. cbn. rewrite S0. reflexivity.
  - intros x. rewrite all_zero_sum; [destruct x; reflexivity|].
    intros u l H. destruct (P _ _ H) as [p ->]. reflexivity.
  - intros u l H. destruct (P _ _ H) as [p ->]. exact I.
  - reflexivity.
Qed.

Lemma Inv_step : forall g ls t c l g' l' es,
  Inv g ls -> nth_error ls t = Some l -> tstep t c g l = Some (g', l', es) -> Inv g' (upd ls t l').
Proof.
  intros g ls t c l g' l' es HI Hl Hs.
  assert (Hw : holds (at_ l) = true -> wok g l) by (intros Hh; exact (I_w _ _ HI _ _ Hl Hh)).
  assert (Hm : holds (at_ l) = true -> mtx g = Some t) by (intros Hh; exact (I_owner _ _ HI _ _ Hl Hh)).
  pose proof (I_vis _ _ HI) as Hv. pose proof (I_idle _ _ HI) as Hi. pose proof (I_loc _ _ HI _ _ Hl) as Hk.
  destruct (mtx_step _ _ _ _ _ _ _ Hs Hm) as (M1 & M2 & M3 & M4).
  assert (Hnh : holds (at_ l) = false -> same_w g g') by (apply (nonholder_same _ _ _ _ _ _ _ Hs)).
  constructor.
  - (* owner *)
    intros u lu Hu Hh. apply nth_upd in Hu. destruct Hu as [(<- & -> & _)|(Hne & Hu)]; [auto|].
    pose proof (I_owner _ _ HI _ _ Hu Hh) as Eu.
    destruct (holds (at_ l)) eqn:E1; [specialize (Hm eq_refl); congruence|].
    destruct (holds (at_ l')) eqn:E2; [specialize (M4 eq_refl eq_refl); congruence|].
    rewrite M3; auto.
  - (* held *)
    intros a Ha. destruct (Nat.eq_dec a t) as [->|Hne].
    + exists l'. split; [apply (nth_upd_eq _ _ _ _ Hl)|].
      destruct (holds (at_ l')) eqn:E2; [reflexivity|exfalso].
      destruct (holds (at_ l)) eqn:E1; [specialize (M2 eq_refl eq_refl); congruence|].
      rewrite M3 in Ha by reflexivity. destruct (I_held _ _ HI _ Ha) as [l0 [E0 Hh0]]. congruence.
    + rewrite nth_upd_ne by auto.
      destruct (holds (at_ l')) eqn:E2; [specialize (M1 eq_refl); congruence|].
      destruct (holds (at_ l)) eqn:E1; [specialize (M2 eq_refl eq_refl); congruence|].
      rewrite M3 in Ha by reflexivity. apply (I_held _ _ HI _ Ha).
  - (* writer knowledge *)
    intros u lu Hu Hh. apply nth_upd in Hu. destruct Hu as [(<- & -> & _)|(Hne & Hu)].
    + eapply wok_step; eauto.
    + pose proof (I_owner _ _ HI _ _ Hu Hh) as Eu.
      destruct (holds (at_ l)) eqn:E1; [specialize (Hm eq_refl); congruence|].
      apply (wok_same g g'); auto. apply (I_w _ _ HI _ _ Hu Hh).
  - intros Hn. eapply idle_step; eauto.
  - eapply vis_step; eauto.
  - (* handles *)
    intros u lu h Hu Hin. apply nth_upd in Hu. destruct Hu as [(<- & -> & _)|(Hne & Hu)].
    + destruct (slots_step _ _ _ _ _ _ _ _ Hs Hin) as [Hold|[-> ->]].
      * eapply hok_step; eauto. apply (I_hnd _ _ HI _ _ _ Hl Hold).
        intros k Hz. eapply no_handle_when_zero; eauto.
      * destruct Hv as [V1 V2]. unfold hok. cbn. repeat split; auto.
        -- destruct (gph g); auto.
        -- apply prefix_refl.
    + eapply hok_step; eauto. apply (I_hnd _ _ HI _ _ _ Hu Hin).
      intros k Hz. eapply no_handle_when_zero; eauto.
  - (* reader counters *)
    intros k. pose proof (reg_step _ _ _ _ _ _ _ k Hs Hk) as E.
    pose proof (sum_upd (reg k) ls t l l' Hl) as E2. pose proof (I_cnt _ _ HI k). lia.
  - (* open read windows *)
    intros x. pose proof (rdo_step _ _ _ _ _ _ _ x Hs) as E.
    pose proof (sum_upd (rdo x) ls t l l' Hl) as E2. pose proof (I_nrd _ _ HI x). lia.
  - intros u lu Hu. apply nth_upd in Hu. destruct Hu as [(<- & -> & _)|(Hne & Hu)].
    + eapply lok_step; eauto.
    + apply (I_loc _ _ HI _ _ Hu).
  - rewrite <- (I_nofault _ _ HI). eapply nofault_step; eauto.
    + intros h Hn. apply nth_error_In in Hn. apply (I_hnd _ _ HI _ _ _ Hl Hn).
    + intros Hwb. rewrite (nrd_other _ _ _ _ HI Hl Hwb). lia.
Qed.

(* ---------- reachable states ---------- *)
Notation sysR := (sys glob loc).
Notation stepR := (step glob loc tstep).
Notation runR := (run glob loc tstep).
Notation enabledR := (enabled glob loc tstep).
Definition R (ns : nat) (pl : list Z) (progs : list (list op)) (s : sysR) : Prop :=
  reachable glob loc tstep (init ns pl progs) s.

Lemma R_inv ns pl progs s : R ns pl progs s -> Inv (gl s) (thr s).
Proof. intros H. eapply reachable_inv; [apply Inv_step|apply Inv_init|exact H]. Qed.
Lemma R_step ns pl progs s tc : R ns pl progs s -> R ns pl progs (stepR s tc).
Proof. apply reachable_step. Qed.
Lemma R_run ns pl progs s sc : R ns pl progs s -> R ns pl progs (runR s sc).
Proof. intros H. eapply reachable_trans; [exact H|]. exists sc. reflexivity. Qed.

(* ---------- C03: exclusion ---------- *)
(* the copy a thread inside an application of the functor / a catch block writes *)
Definition wr_target (l : loc) : option bool :=
  match at_ l with
  | A_call ph | A_rb ph | A_re ph | A_wb ph | A_we ph | A_call2 ph
  | C_rb ph | C_re ph | C_wb ph | C_we ph => Some (tgt ph (lrl l))
  | _ => None
  end.
Definition wr_open (l : loc) (x : bool) : Prop :=
  match at_ l with A_we ph | C_we ph => tgt ph (lrl l) = x | _ => False end.
Definition rd_open (l : loc) (x : bool) : Prop := rdo x l = 1%nat.
Definition holds_handle (l : loc) (h : hnd) : Prop := In (Some h) (slots l).

Lemma wr_target_other g l x : wok g l -> wr_target l = Some x -> x = negb (rl g) /\ gph g = PA.
Proof.
  unfold wok, wr_target, tgt. destruct (at_ l); try discriminate; destruct ph; cbn;
    intros Hw E; inversion E; subst; destr_and; split; auto; try congruence.
  all: match goal with H : lrl _ = _ |- _ => rewrite H end; try reflexivity; apply negb_involutive.
Qed.
Lemma wr_target_holds l x : wr_target l = Some x -> holds (at_ l) = true.
Proof. unfold wr_target. destruct (at_ l); try discriminate; reflexivity. Qed.

Lemma exclusion ns pl progs s r lr w lw h x :
  R ns pl progs s -> nth_error (thr s) r = Some lr -> holds_handle lr h ->
  nth_error (thr s) w = Some lw -> wr_target lw = Some x ->
  hd h <> x /\ dirty (cp (gl s) (hd h)) = false /\ log (cp (gl s) (hd h)) = hsnap h.
Proof.
  intros HR Hr Hh Hw Ht. pose proof (R_inv _ _ _ _ HR) as HI.
  pose proof (I_w _ _ HI _ _ Hw (wr_target_holds _ _ Ht)) as Hwok.
  destruct (wr_target_other _ _ _ Hwok Ht) as [-> Hpa].
  destruct (I_hnd _ _ HI _ _ _ Hr Hh) as (Hs & Hlog & Hd & _). rewrite Hpa in Hs.
  repeat split; auto. rewrite Hs. destruct (rl (gl s)); discriminate.
Qed.

(* a held handle: its copy is complete, carries the state committed when the handle
   was taken, and that state is a prefix of what is committed now *)
Lemma handle_state ns pl progs s r lr h :
  R ns pl progs s -> nth_error (thr s) r = Some lr -> holds_handle lr h ->
  log (cp (gl s) (hd h)) = hsnap h /\ dirty (cp (gl s) (hd h)) = false /\ prefix (hsnap h) (committed (gl s)).
Proof.
  intros HR Hr Hh. destruct (I_hnd _ _ (R_inv _ _ _ _ HR) _ _ _ Hr Hh) as (_ & A & B & C). auto.
Qed.

Lemma no_fault ns pl progs s : R ns pl progs s -> faults (gl s) = O.
Proof. intros HR. apply (I_nofault _ _ (R_inv _ _ _ _ HR)). Qed.

(* a read through a handle returns the handle's state, without a fault event *)
Lemma read_returns_snapshot ns pl progs s t c l g' l' es :
  R ns pl progs s -> nth_error (thr s) t = Some l -> at_ l = H_re ->
  tstep t c (gl s) l = Some (g', l', es) ->
  exists h, nth_error (slots l) (sl l) = Some (Some h) /\
            es = [E K_RD_END (o_cp (hd h)) (enc (hsnap h)); ret_ev (enc (hsnap h))].
Proof.
  intros HR Hl Hp Hs. pose proof (R_inv _ _ _ _ HR) as HI.
  pose proof (I_loc _ _ HI _ _ Hl) as Hk. unfold lok in Hk. rewrite Hp in Hk. destruct Hk as [h Hk].
  exists h. split; [exact Hk|].
  pose proof (I_hnd _ _ HI _ _ _ Hl (nth_error_In _ _ Hk)) as (_ & Hlog & Hd & _).
  unfold tstep in Hs. rewrite Hp in Hs. apply cur_hnd_nth in Hk. rewrite Hk in Hs.
  unfold rd_end in Hs. rewrite Hd, Hlog in Hs. cbn in Hs. inversion Hs. reflexivity.
Qed.

(* ---------- C03: the visible state only grows, by appending ---------- *)
Lemma committed_tstep t c g l g' l' es : tstep t c g l = Some (g', l', es) ->
  committed g' = committed g \/ (at_ l = M_str /\ committed g' = committed g ++ [fid l]).
Proof.
  intros Hs. destruct l as [pr p sls s rcn f lr lc tm go]. step_cases Hs; cbn; auto.
Qed.

Lemma committed_step (s : sysR) tc : prefix (committed (gl s)) (committed (gl (stepR s tc))).
Proof.
  unfold step, sys_step. destruct tc as [t c].
  destruct (nth_error (thr s) t) as [l|]; [|apply prefix_refl].
  destruct (tstep t c (gl s) l) as [[[g' l'] es]|] eqn:Hs; [|apply prefix_refl]. cbn.
  destruct (committed_tstep _ _ _ _ _ _ _ Hs) as [->|[_ ->]]; [apply prefix_refl|].
  apply prefix_app, prefix_refl.
Qed.

Lemma committed_monotone (s : sysR) sc : prefix (committed (gl s)) (committed (gl (runR s sc))).
Proof.
  apply (run_rel glob loc tstep (fun a b => prefix (committed (gl a)) (committed (gl b)))).
  - intros a. apply prefix_refl.
  - intros a b c0. apply prefix_trans.
  - apply committed_step.
Qed.

Lemma visible_is_committed ns pl progs s :
  R ns pl progs s -> log (cp (gl s) (rl (gl s))) = committed (gl s) /\ dirty (cp (gl s) (rl (gl s))) = false.
Proof. intros HR. apply (I_vis _ _ (R_inv _ _ _ _ HR)). Qed.

(* completing an acquisition yields a handle on the state committed at that moment *)
Lemma acquire_snapshot t c g l g' l' es :
  at_ l = R_ldr -> lok l -> tstep t c g l = Some (g', l', es) ->
  g' = g /\ at_ l' = Idle /\ In (ret_ev 0) es /\
  nth_error (slots l') (sl l) = Some (Some (Hnd (rl g) (rcnt l) (committed g))).
Proof.
  intros Hp Hk Hs. unfold lok in Hk. rewrite Hp in Hk. unfold tstep in Hs. rewrite Hp in Hs.
  inversion Hs; subst. cbn. repeat split; auto. apply (nth_upd_eq _ _ _ _ Hk).
Qed.

(* values seen through a handle taken later extend values seen through any earlier handle *)
Lemma reads_monotone ns pl progs s1 sc r1 lr1 h1 t c l g' l' es :
  R ns pl progs s1 -> nth_error (thr s1) r1 = Some lr1 -> holds_handle lr1 h1 ->
  let s2 := runR s1 sc in
  nth_error (thr s2) t = Some l -> at_ l = R_ldr -> tstep t c (gl s2) l = Some (g', l', es) ->
  exists h2, nth_error (slots l') (sl l) = Some (Some h2) /\ hsnap h2 = committed (gl s2) /\
             prefix (hsnap h1) (hsnap h2).
Proof.
  intros HR Hr Hh s2 Hl Hp Hs.
  pose proof (I_loc _ _ (R_inv _ _ _ _ (R_run _ _ _ _ sc HR)) _ _ Hl) as Hk.
  destruct (acquire_snapshot _ _ _ _ _ _ _ Hp Hk Hs) as (_ & _ & _ & Hn).
  eexists. split; [exact Hn|]. split; [reflexivity|]. cbn.
  destruct (handle_state _ _ _ _ _ _ _ HR Hr Hh) as (_ & _ & Hpre).
  eapply prefix_trans; [exact Hpre|apply committed_monotone].
Qed.

(* a modify that is about to return has appended exactly its functor to the state it found *)
Lemma modify_effect ns pl progs s w lw :
  R ns pl progs s -> nth_error (thr s) w = Some lw ->
  match at_ lw with
  | M_unlock | C_unlock false => committed (gl s) = gold lw ++ [fid lw]
  | C_unlock true => committed (gl s) = gold lw
  | _ => True
  end.
Proof.
  intros HR Hw. pose proof (R_inv _ _ _ _ HR) as HI.
  destruct (holds (at_ lw)) eqn:Hh; [|destruct (at_ lw); try discriminate; exact I].
  pose proof (I_w _ _ HI _ _ Hw Hh) as Hwok. unfold wok in Hwok.
  destruct (at_ lw); try exact I; try destruct ph; tauto.
Qed.

(* a lock_shared completed after modify(f) was about to return sees f and everything before it *)
Lemma read_after_modify ns pl progs s1 sc w lw t c l g' l' es :
  R ns pl progs s1 -> nth_error (thr s1) w = Some lw -> at_ lw = M_unlock ->
  let s2 := runR s1 sc in
  nth_error (thr s2) t = Some l -> at_ l = R_ldr -> tstep t c (gl s2) l = Some (g', l', es) ->
  exists h2, nth_error (slots l') (sl l) = Some (Some h2) /\ prefix (gold lw ++ [fid lw]) (hsnap h2).
Proof.
  intros HR Hw Hpw s2 Hl Hp Hs.
  pose proof (I_loc _ _ (R_inv _ _ _ _ (R_run _ _ _ _ sc HR)) _ _ Hl) as Hk.
  destruct (acquire_snapshot _ _ _ _ _ _ _ Hp Hk Hs) as (_ & _ & _ & Hn).
  eexists. split; [exact Hn|]. cbn.
  pose proof (modify_effect _ _ _ _ _ _ HR Hw) as E. rewrite Hpw in E. rewrite <- E.
  apply committed_monotone.
Qed.

(* writer idle: both copies complete and equal to the committed sequence *)
Lemma serial_idle ns pl progs s :
  R ns pl progs s -> mtx (gl s) = None ->
  log (left (gl s)) = committed (gl s) /\ log (right (gl s)) = committed (gl s) /\
  dirty (left (gl s)) = false /\ dirty (right (gl s)) = false.
Proof.
  intros HR Hm. pose proof (R_inv _ _ _ _ HR) as HI.
  destruct (I_idle _ _ HI Hm) as (_ & D & L). destruct (I_vis _ _ HI) as [L2 D2].
  unfold other, cp in *. destruct (rl (gl s)); cbn in *; auto.
Qed.

(* the committed sequence grows only by the flip of the mutex holder, one functor at a time *)
Lemma commit_in_mutex_order ns pl progs s t c l g' l' es :
  R ns pl progs s -> nth_error (thr s) t = Some l -> tstep t c (gl s) l = Some (g', l', es) ->
  committed g' = committed (gl s) \/
  (committed g' = committed (gl s) ++ [fid l] /\ mtx (gl s) = Some t /\ at_ l = M_str /\
   committed (gl s) = gold l).
Proof.
  intros HR Hl Hs. destruct (committed_tstep _ _ _ _ _ _ _ Hs) as [E|[Hp E]]; [left; exact E|right].
  pose proof (R_inv _ _ _ _ HR) as HI.
  assert (Hh : holds (at_ l) = true) by (rewrite Hp; reflexivity).
  pose proof (I_w _ _ HI _ _ Hl Hh) as Hwok. unfold wok in Hwok. rewrite Hp in Hwok.
  repeat split; auto; try tauto. apply (I_owner _ _ HI _ _ Hl Hh).
Qed.

Definition pcof (s : sysR) (u : nat) : pc :=
  match nth_error (thr s) u with Some l => at_ l | None => Idle end.

Lemma counters_count ns pl progs s k :
  R ns pl progs s -> ctr (gl s) k = Z.of_nat (list_sum (map (reg k) (thr s))).
Proof. intros HR. apply (I_cnt _ _ (R_inv _ _ _ _ HR)). Qed.

(* ---------- C14: reads never wait ---------- *)
Definition in_acquire (p : pc) : bool := match p with R_ldc | R_inc | R_ldr => true | _ => false end.
Definition reader_pc (p : pc) : bool :=
  match p with R_ldc | R_inc | R_ldr | H_rb | H_re | L_dec => true | _ => false end.
Definition is_mutex_kind (k : Z) : bool := (K_LOCK <=? k) && (k <=? K_TRYLOCK_SH_FOR).
Definition is_blocking_kind (k : Z) : bool :=
  is_mutex_kind k || (k =? K_CV_SLEEP) || (k =? K_YIELD) || (k =? K_SLEEP).

(* a thread inside lock_shared (or any other reader operation) is enabled in every state, under
   every choice - reachable or not, whatever pc any writer is at *)
Lemma read_wait_free t c g l : reader_pc (at_ l) = true -> exists r, tstep t c g l = Some r.
Proof.
  intros Hp. destruct l as [pr p sls s rcn f lr lc tm go]. cbn in Hp.
  destruct p; try discriminate; unfold tstep, bad; cbn [at_]; try (eexists; reflexivity).
  all: destruct (cur_hnd _); [|eexists; reflexivity].
  all: try (unfold rd_begin, rd_end; eexists; reflexivity).
Qed.

(* the acquisition is exactly three own steps (load countingLeft, increment, load readingLeft),
   whatever the other threads do in between (g0, g1, g2 arbitrary) *)
Lemma acquire_three_steps t c0 c1 c2 g0 g1 g2 l :
  at_ l = R_ldc -> nth_error (slots l) (sl l) = Some None ->
  exists l1 l2 l3 g1' g2' e0 e1 e2,
    tstep t c0 g0 l = Some (g0, l1, [e0]) /\ ek e0 = K_LOAD /\ at_ l1 = R_inc /\ rcnt l1 = cl g0 /\
    tstep t c1 g1 l1 = Some (g1', l2, [e1]) /\ ek e1 = K_RMW /\ at_ l2 = R_ldr /\
    ctr g1' (cl g0) = ctr g1 (cl g0) + 1 /\
    tstep t c2 g2 l2 = Some (g2', l3, [e2; ret_ev 0]) /\ ek e2 = K_LOAD /\ at_ l3 = Idle /\ g2' = g2 /\
    nth_error (slots l3) (sl l) = Some (Some (Hnd (rl g2) (cl g0) (committed g2))).
Proof.
  intros Hp Hn. destruct l as [pr p sls s rcn f lr lc tm go]. cbn in *. subst p.
  do 8 eexists. unfold tstep; cbn.
  repeat (split; [reflexivity|]). split; [|repeat (split; [reflexivity|])].
  - unfold ctr, set_ctr. destruct (cl g0); reflexivity.
  - apply (nth_upd_eq _ _ _ _ Hn).
Qed.

(* reader operations perform no mutex operation, never yield or sleep, and leave the mutex alone *)
Lemma readers_take_no_mutex t c g l g' l' es :
  tstep t c g l = Some (g', l', es) -> reader_pc (at_ l) = true ->
  mtx g' = mtx g /\ forall e, In e es -> is_blocking_kind (ek e) = false.
Proof.
  intros Hs Hp. destruct l as [pr p sls s rcn f lr lc tm go].
  step_cases Hs; cbn in Hp; try discriminate; cbn; split; auto.
  all: intros e Hin; cbn in Hin; repeat (destruct Hin as [Hin|Hin]; [subst e; reflexivity|]); contradiction.
Qed.

(* the counter a drain loop waits for *)
Definition awaits (l : loc) : option bool :=
  match at_ l with
  | M_d1 | M_y1 => Some (negb (lcl l))
  | M_d2 | M_y2 => Some (lcl l)
  | _ => None
  end.

(* the writer waits only for registered readers: once the awaited counter is zero the next
   load leaves the loop *)
Lemma writer_drain_exits t c g l :
  (at_ l = M_d1 \/ at_ l = M_d2) -> (forall k, awaits l = Some k -> ctr g k = 0) ->
  exists g' l' es, tstep t c g l = Some (g', l', es) /\
                   at_ l' = (match at_ l with M_d1 => M_stc | _ => A_call false end).
Proof.
  intros Hp Hz. destruct l as [pr p sls s rcn f lr lc tm go]. unfold awaits in Hz. cbn in *.
  destruct Hp; subst p; unfold tstep; cbn; rewrite (Hz _ eq_refl); cbn; do 3 eexists; split; reflexivity.
Qed.

(* ... and readers that arrive during a drain register in the other counter: while a writer is in
   a drain loop, m_countingLeft designates the counter it is NOT waiting for *)
Lemma new_readers_other_counter ns pl progs s w lw k :
  R ns pl progs s -> nth_error (thr s) w = Some lw -> awaits lw = Some k -> cl (gl s) = negb k.
Proof.
  intros HR Hw Ha. pose proof (R_inv _ _ _ _ HR) as HI.
  assert (Hh : holds (at_ lw) = true) by (unfold awaits in Ha; destruct (at_ lw); try discriminate; reflexivity).
  pose proof (I_w _ _ HI _ _ Hw Hh) as Hwok. unfold wok in Hwok. unfold awaits in Ha.
  destruct (at_ lw); try discriminate; inversion Ha; subst; destr_and; try congruence.
  all: rewrite negb_involutive; congruence.
Qed.
Lemma new_reader_registers_elsewhere ns pl progs s w lw k t c l g' l' es :
  R ns pl progs s -> nth_error (thr s) w = Some lw -> awaits lw = Some k ->
  at_ l = R_ldc -> tstep t c (gl s) l = Some (g', l', es) -> at_ l' = R_inc /\ rcnt l' = negb k.
Proof.
  intros HR Hw Ha Hp Hs. rewrite <- (new_readers_other_counter _ _ _ _ _ _ _ HR Hw Ha).
  unfold tstep in Hs. rewrite Hp in Hs. inversion Hs; subst. split; reflexivity.
Qed.

(* a non-zero counter means a registered reader: some thread holds a handle registered in it, or
   has incremented it and is about to complete its acquisition *)
Lemma sum_pos_ex {A} (f : A -> nat) (l : list A) :
  (0 < list_sum (map f l))%nat -> exists u x, nth_error l u = Some x /\ (0 < f x)%nat.
Proof.
  induction l as [|a r IH]; unfold list_sum; cbn; intros H; [lia|].
  destruct (f a) eqn:E.
  - destruct (IH H) as (u & x & Hu & Hx). exists (S u), x. auto.
  - exists O, a. split; [reflexivity|lia].
Qed.
Lemma counter_nonneg ns pl progs s k : R ns pl progs s -> 0 <= ctr (gl s) k.
Proof. intros HR. rewrite (counters_count _ _ _ _ k HR). lia. Qed.
Lemma spinning_means_registered ns pl progs s k :
  R ns pl progs s -> ctr (gl s) k <> 0 ->
  exists u lu, nth_error (thr s) u = Some lu /\
    ((exists h, holds_handle lu h /\ hc h = k) \/ (at_ lu = R_ldr /\ rcnt lu = k)).
Proof.
  intros HR Hnz. pose proof (counters_count _ _ _ _ k HR) as E.
  destruct (sum_pos_ex (reg k) (thr s)) as (u & lu & Hu & Hpos); [lia|].
  exists u, lu. split; [exact Hu|]. unfold reg in Hpos.
  destruct (list_sum (map (hw k) (slots lu))) eqn:Es.
  - right. destruct (at_ lu); cbn in Hpos; try lia.
    destruct (Bool.eqb (rcnt lu) k) eqn:Eb; [|lia]. apply eqb_prop in Eb. auto.
  - left. destruct (sum_pos_ex (hw k) (slots lu)) as (i & o & Hi & Ho); [lia|].
    destruct o as [h|]; cbn in Ho; [|lia]. exists h. split; [apply (nth_error_In _ _ Hi)|].
    destruct (Bool.eqb (hc h) k) eqn:Eb; [|lia]. apply eqb_prop in Eb. exact Eb.
Qed.

(* the owner of the write mutex can always move (it never blocks while holding it) *)
Lemma holder_enabled ns pl progs s a c : R ns pl progs s -> mtx (gl s) = Some a -> enabledR s a c.
Proof.
  intros HR Hm. destruct (I_held _ _ (R_inv _ _ _ _ HR) _ Hm) as [l [Hl Hh]].
  assert (exists r, tstep a c (gl s) l = Some r) as [r Hr]; [|exists l, r; auto].
  destruct l as [pr p sls sl0 rcn f lr lc tm go]. cbn in Hh. unfold tstep. cbn [at_].
  destruct p; try discriminate; try (eexists; reflexivity).
  all: try (destruct (zmem _ _); eexists; reflexivity).
  all: try (unfold rd_begin, rd_end, wr_begin, wr_end; eexists; reflexivity).
  all: destruct (_ =? 0); eexists; reflexivity.
Qed.

(* no deadlock, ever: when nothing can move, every thread has finished its program *)
Lemma quiescent_finished ns pl progs s :
  R ns pl progs s -> quiescent glob loc tstep s -> all_fin glob loc fin s = true.
Proof.
  intros HR HQ.
  assert (Hfree : mtx (gl s) = None).
  { destruct (mtx (gl s)) as [a|] eqn:Hm; [|reflexivity].
    exfalso. apply (HQ a 0%nat); [lia|]. eapply holder_enabled; eauto. }
  unfold all_fin. apply forallb_forall. intros l Hin. apply In_nth_error in Hin. destruct Hin as [t Hl].
  destruct (tstep t 0 (gl s) l) as [r|] eqn:Hs.
  { exfalso. apply (HQ t 0%nat); [lia|]. exists l, r. auto. }
  destruct l as [pr p sls sl0 rcn f lr lc tm go]. unfold tstep, bad in Hs. cbn [at_ prog] in Hs.
  destruct p; try discriminate.
  - destruct pr as [|o r0]; [reflexivity|].
    cbn in Hs. repeat match type of Hs with context [match ?x with _ => _ end] => destruct x end; discriminate.
  - destruct (cur_hnd _); [unfold rd_begin in Hs|]; discriminate.
  - destruct (cur_hnd _); [unfold rd_end in Hs|]; discriminate.
  - destruct (cur_hnd _); discriminate.
  - cbn in Hs. rewrite Hfree in Hs. discriminate.
  - destruct (zmem _ _); discriminate.
  - destruct (zmem _ _); discriminate.
  - destruct (_ =? 0); discriminate.
  - destruct (_ =? 0); discriminate.
Qed.

(* ---------- bounded work: only a drain loop that sees a non-zero counter can go round ---------- *)
Definition wpc (p : pc) : nat :=
  match p with
  | Idle => 0 | R_ldc => 3 | R_inc => 2 | R_ldr => 1 | H_rb => 2 | H_re => 1 | L_dec => 1
  | M_lock => 40 | M_ldr => 39
  | A_call true => 38 | A_rb true => 37 | A_re true => 36 | A_wb true => 35 | A_we true => 34 | A_call2 true => 33
  | M_str => 32 | M_ldc => 31 | M_y1 => 30 | M_d1 => 29 | M_stc => 28 | M_y2 => 27 | M_d2 => 26
  | A_call false => 25 | A_rb false => 24 | A_re false => 23 | A_wb false => 22 | A_we false => 21 | A_call2 false => 20
  | C_rb _ => 6 | C_re _ => 5 | C_wb _ => 4 | C_we _ => 3 | C_unlock _ => 2 | M_unlock => 1
  end%nat.
Definition wloc (l : loc) : nat := (41 * length (prog l) + wpc (at_ l))%nat.
Definition mu (s : sysR) : nat := list_sum (map wloc (thr s)).
(* the retry step: a drain-loop load that returns a non-zero counter *)
Definition is_retry (g : glob) (l : loc) : bool :=
  match at_ l with
  | M_d1 => negb (ctr g (negb (lcl l)) =? 0)
  | M_d2 => negb (ctr g (lcl l) =? 0)
  | _ => false
  end.

Lemma wloc_step t c g l g' l' es : tstep t c g l = Some (g', l', es) ->
  if is_retry g l then wloc l' = S (wloc l) else (wloc l' < wloc l)%nat.
Proof.
  intros Hs. destruct l as [pr p sls s rcn f lr lc tm go].
  step_cases Hs; unfold is_retry, wloc; cbn [at_ prog lcl set_at set_tmp set_slots length wpc];
    try match goal with H : (_ =? 0) = _ |- _ => rewrite H end; cbn [negb]; try lia.
  all: try (destruct ph; lia).
Qed.

(* (moves that are not retries, retries) of a schedule from s *)
Fixpoint work_retries (s : sysR) (sc : list (nat * nat)) : nat * nat :=
  match sc with
  | [] => (O, O)
  | tc :: r =>
    let wq := work_retries (stepR s tc) r in
    match nth_error (thr s) (fst tc) with
    | Some l =>
      match tstep (fst tc) (snd tc) (gl s) l with
      | Some _ => if is_retry (gl s) l then (fst wq, S (snd wq)) else (S (fst wq), snd wq)
      | None => wq
      end
    | None => wq
    end
  end.

Lemma bounded_work sc : forall s : sysR,
  (fst (work_retries s sc) + mu (runR s sc) <= mu s + snd (work_retries s sc))%nat.
Proof.
  induction sc as [|[t c] r IH]; intros s; cbn [work_retries run fold_left fst snd]; [lia|].
  specialize (IH (stepR s (t, c))). unfold run in IH.
  unfold step, sys_step in *. destruct (nth_error (thr s) t) as [l|] eqn:Hl; [|cbn in *; exact IH].
  destruct (tstep t c (gl s) l) as [[[g' l'] es]|] eqn:Hs; [|cbn in *; exact IH].
  cbn [fst] in *. pose proof (wloc_step _ _ _ _ _ _ _ Hs) as Hw.
  pose proof (sum_upd wloc (thr s) t l l' Hl) as E.
  unfold mu at 2. unfold mu at 2 in IH. cbn [thr gl] in IH.
  destruct (is_retry (gl s) l); cbn [fst snd]; lia.
Qed.

(* ---------- C20: all-or-nothing under throwing functors, the lock is released ---------- *)
Lemma exit_state ns pl progs s t l :
  R ns pl progs s -> nth_error (thr s) t = Some l ->
  match at_ l with
  | C_unlock true =>
      log (left (gl s)) = gold l /\ log (right (gl s)) = gold l /\
      dirty (left (gl s)) = false /\ dirty (right (gl s)) = false /\ committed (gl s) = gold l
  | C_unlock false | M_unlock =>
      log (left (gl s)) = gold l ++ [fid l] /\ log (right (gl s)) = gold l ++ [fid l] /\
      dirty (left (gl s)) = false /\ dirty (right (gl s)) = false /\ committed (gl s) = gold l ++ [fid l]
  | _ => True
  end.
Proof.
  intros HR Hl. pose proof (R_inv _ _ _ _ HR) as HI.
  destruct (holds (at_ l)) eqn:Hh; [|destruct (at_ l); try discriminate; exact I].
  pose proof (I_w _ _ HI _ _ Hl Hh) as Hw. destruct (I_vis _ _ HI) as [V1 V2].
  unfold wok, other, cp in *.
  destruct (at_ l); try exact I; try destruct ph; destr_and; destruct (rl (gl s)); cbn in *;
    repeat split; congruence.
Qed.

(* the steps of a catch block and of the unwinding, in every state: the restoring copy's four
   window edges, then the unlock together with the propagated exception *)
Lemma catch_path t c g l g' l' es : tstep t c g l = Some (g', l', es) ->
  match at_ l with
  | C_rb ph => at_ l' = C_re ph | C_re ph => at_ l' = C_wb ph
  | C_wb ph => at_ l' = C_we ph | C_we ph => at_ l' = C_unlock ph
  | C_unlock _ => at_ l' = Idle /\ mtx g' = None /\ es = [E K_UNLOCK O_MTX 0; E K_CATCH 0 0]
  | _ => True
  end.
Proof.
  intros Hs. destruct l as [pr p sls s rcn f lr lc tm go]. step_cases Hs; cbn; auto.
Qed.
(* a throwing invocation of user code enters the catch block of its application *)
Lemma throw_enters_catch t c g l g' l' es ph :
  (at_ l = A_call ph \/ at_ l = A_call2 ph) -> zmem (calls g) (plan g) = true ->
  tstep t c g l = Some (g', l', es) -> at_ l' = C_rb ph /\ In (E K_THROW 0 (calls g)) es.
Proof.
  intros Hp Hz Hs. destruct l as [pr p sls s rcn f lr lc tm go]. cbn in Hp.
  destruct Hp; subst p; unfold tstep in Hs; cbn in Hs; rewrite Hz in Hs; inversion Hs; cbn; auto.
Qed.

(* a thread that is not inside modify (in particular: back at top level after an exception)
   does not own the write mutex; and a free mutex can be taken by whoever asks *)
Lemma nonholder_owns_nothing ns pl progs s t l :
  R ns pl progs s -> nth_error (thr s) t = Some l -> holds (at_ l) = false -> mtx (gl s) <> Some t.
Proof.
  intros HR Hl Hh Hm. destruct (I_held _ _ (R_inv _ _ _ _ HR) _ Hm) as [l0 [E0 H0]]. congruence.
Qed.
Lemma lock_enabled_when_free t c g l :
  at_ l = M_lock -> mtx g = None -> exists r, tstep t c g l = Some r.
Proof. intros Hp Hm. unfold tstep. rewrite Hp, Hm. eexists. reflexivity. Qed.

(* ---------- C07 (layer 2): conflicting payload windows are never open together ---------- *)
Lemma wr_open_target l x : wr_open l x -> wr_target l = Some x.
Proof. unfold wr_open, wr_target. destruct (at_ l); try contradiction; intros <-; reflexivity. Qed.

Lemma windows_disjoint ns pl progs s u lu v lv x :
  R ns pl progs s -> nth_error (thr s) u = Some lu -> nth_error (thr s) v = Some lv ->
  wr_open lu x -> ~ rd_open lv x /\ (forall y, wr_open lv y -> u = v).
Proof.
  intros HR Hu Hv Hw. pose proof (R_inv _ _ _ _ HR) as HI.
  pose proof (wr_open_target _ _ Hw) as Ht. pose proof (wr_target_holds _ _ Ht) as Hh.
  pose proof (I_owner _ _ HI _ _ Hu Hh) as Hm.
  destruct (wr_target_other _ _ _ (I_w _ _ HI _ _ Hu Hh) Ht) as [-> Hpa].
  split.
  - unfold rd_open, rdo. intros Hr.
    destruct (at_ lv) eqn:Ep; try discriminate.
    + destruct (cur_hnd lv) as [h|] eqn:Eh; [|discriminate].
      apply cur_hnd_nth in Eh. apply nth_error_In in Eh.
      pose proof (I_hnd _ _ HI _ _ _ Hv Eh) as [Hs _]. rewrite Hpa in Hs. rewrite Hs in Hr.
      destruct (rl (gl s)); discriminate.
    + assert (holds (at_ lv) = true) as Hhv by (rewrite Ep; reflexivity).
      pose proof (I_owner _ _ HI _ _ Hv Hhv). assert (v = u) by congruence. subst v.
      assert (lv = lu) by congruence. subst lv. unfold wr_open in Hw. rewrite Ep in Hw. contradiction.
    + assert (holds (at_ lv) = true) as Hhv by (rewrite Ep; reflexivity).
      pose proof (I_owner _ _ HI _ _ Hv Hhv). assert (v = u) by congruence. subst v.
      assert (lv = lu) by congruence. subst lv. unfold wr_open in Hw. rewrite Ep in Hw. contradiction.
  - intros y Hy. pose proof (wr_target_holds _ _ (wr_open_target _ _ Hy)) as Hhv.
    pose proof (I_owner _ _ HI _ _ Hv Hhv). congruence.
Qed.

(* a drain loop goes round only while some reader is registered in the awaited counter *)
Lemma retry_means_registered ns pl progs s w lw :
  R ns pl progs s -> nth_error (thr s) w = Some lw -> is_retry (gl s) lw = true ->
  exists k, awaits lw = Some k /\ ctr (gl s) k <> 0 /\
  exists u lu, nth_error (thr s) u = Some lu /\
    ((exists h, holds_handle lu h /\ hc h = k) \/ (at_ lu = R_ldr /\ rcnt lu = k)).
Proof.
  intros HR Hw Hr. unfold is_retry in Hr. unfold awaits.
  destruct (at_ lw); try discriminate; apply negb_true_iff, Z.eqb_neq in Hr;
    eexists; (split; [reflexivity|]); (split; [exact Hr|]); apply (spinning_means_registered _ _ _ _ _ HR Hr).
Qed.
(* with every handle released and no acquisition in flight both counters are zero *)
Lemma counters_zero_when_released ns pl progs s k :
  R ns pl progs s -> (forall u lu, nth_error (thr s) u = Some lu -> reg k lu = O) -> ctr (gl s) k = 0.
Proof. intros HR H. rewrite (counters_count _ _ _ _ k HR), (all_zero_sum _ _ H). reflexivity. Qed.

(* ---------- C07 (layer 2), syntactic: every atomic operation of the model is seq_cst ---------- *)
Definition is_atomic_kind (k : Z) : bool := (K_LOAD <=? k) && (k <=? K_XCHG).

Lemma all_atomics_seq_cst t c g l g' l' es e :
  tstep t c g l = Some (g', l', es) -> In e es ->
  emo e = (if is_atomic_kind (ek e) then MO_SEQ_CST else MO_NA).
Proof.
  intros Hs Hin. destruct l as [pr p sls s rcn f lr lc tm go].
  step_cases Hs; cbn in Hin;
    repeat (destruct Hin as [Hin|Hin]; [subst e; reflexivity|]); contradiction.
Qed.


(* ---------- C14: a writer completes once the handles are released - existence form ---------- *)
(* programs in which every handle that is taken is later released by the same thread, and no thread
   calls modify while it holds a handle (it would wait for itself for ever): a decidable walk over
   the slot occupancy *)
Definition isS {A} (o : option A) : bool := match o with Some _ => true | None => false end.
Definition allfree (oc : list bool) : bool := forallb negb oc.
Fixpoint wf_run (oc : list bool) (p : list op) : bool :=
  match p with
  | [] => allfree oc
  | Modify _ :: r => allfree oc && wf_run oc r
  | LockShared _ s :: r => match nth_error oc s with Some false => wf_run (upd oc s true) r | _ => wf_run oc r end
  | ReadHandle _ :: r => wf_run oc r
  | Release s :: r => match nth_error oc s with Some true => wf_run (upd oc s false) r | _ => wf_run oc r end
  end.
Definition releases_all (ns : nat) (progs : list (list op)) : bool := forallb (wf_run (repeat false ns)) progs.

(* the same for a thread in the middle of its program *)
Definition wfl (l : loc) : Prop :=
  let oc := map isS (slots l) in
  match at_ l with
  | Idle | H_rb | H_re => wf_run oc (prog l) = true
  | R_ldc | R_inc | R_ldr => wf_run (upd oc (sl l) true) (prog l) = true
  | L_dec => wf_run (upd oc (sl l) false) (prog l) = true
  | _ => allfree oc = true /\ wf_run oc (prog l) = true
  end.

Lemma map_upd {A B} (f : A -> B) (l : list A) i x : map f (upd l i x) = upd (map f l) i (f x).
Proof. revert i; induction l as [|a r IH]; destruct i; cbn; auto. f_equal. apply IH. Qed.

Lemma wfl_step t c g l g' l' es : tstep t c g l = Some (g', l', es) -> lok l -> wfl l -> wfl l'.
Proof.
  intros Hs Hk Hw. destruct l as [pr p sls s rcn f lr lc tm go].
  step_cases Hs; unfold wfl in *; cbn [at_ prog slots sl set_at set_tmp set_slots] in *;
    rewrite ?map_upd; cbn [isS]; try (cbn [wf_run] in Hw); try tauto.
  all: try (apply andb_true_iff in Hw; tauto).
  all: try (rewrite nth_error_map in Hw; match goal with H : nth_error _ _ = _ |- _ => rewrite H in Hw end; cbn in Hw; exact Hw).
  all: try (destruct ph; tauto).
  exfalso. unfold lok, cur_hnd in *. cbn in *. destruct Hk as [h Hk]. rewrite Hk in Heqo. discriminate.
Qed.

Lemma map_repeat' {A B} (f : A -> B) x n : map f (repeat x n) = repeat (f x) n.
Proof. induction n; cbn; congruence. Qed.

Definition Inv2 (g : glob) (ls : list loc) : Prop := Inv g ls /\ forall u l, nth_error ls u = Some l -> wfl l.
Lemma Inv2_step : forall g ls t c l g' l' es,
  Inv2 g ls -> nth_error ls t = Some l -> tstep t c g l = Some (g', l', es) -> Inv2 g' (upd ls t l').
Proof.
  intros g ls t c l g' l' es [HI HW] Hl Hs. split; [eapply Inv_step; eauto|].
  intros u lu Hu. apply nth_upd in Hu. destruct Hu as [(<- & -> & _)|(Hne & Hu)]; [|apply (HW _ _ Hu)].
  eapply wfl_step; eauto. apply (I_loc _ _ HI _ _ Hl).
Qed.
Lemma R_inv2 ns pl progs s : R ns pl progs s -> releases_all ns progs = true -> Inv2 (gl s) (thr s).
Proof.
  intros HR Hwf. eapply reachable_inv; [apply Inv2_step| |exact HR].
  split; [apply Inv_init|]. cbn. intros u l Hu. rewrite nth_error_map in Hu.
  destruct (nth_error progs u) as [p|] eqn:Ep; inversion Hu; subst. unfold wfl, init_loc. cbn.
  rewrite map_repeat'. cbn. unfold releases_all in Hwf. rewrite forallb_forall in Hwf.
  apply Hwf. apply (nth_error_In _ _ Ep).
Qed.

Lemma forallb_false_ex {A} (f : A -> bool) (l : list A) : forallb f l = false -> exists x, In x l /\ f x = false.
Proof.
  induction l as [|a r IH]; cbn; intros H; [discriminate|].
  destruct (f a) eqn:E; [destruct (IH H) as [x [Hx Hf]]; exists x; auto|exists a; auto].
Qed.
Lemma allfree_no_handle (sls : list (option hnd)) (h : hnd) : allfree (map isS sls) = true -> ~ In (Some h) sls.
Proof.
  unfold allfree. rewrite forallb_forall. intros H Hin.
  specialize (H true (in_map isS _ _ Hin)). cbn in H. discriminate.
Qed.

(* in every reachable, unfinished state of such programs some step that is not a drain retry is enabled *)
Lemma progress_step ns pl progs s :
  R ns pl progs s -> releases_all ns progs = true -> all_fin glob loc fin s = false ->
  exists t c l r, nth_error (thr s) t = Some l /\ tstep t c (gl s) l = Some r /\ is_retry (gl s) l = false.
Proof.
  intros HR Hwf Hnf. destruct (R_inv2 _ _ _ _ HR Hwf) as [HI HW].
  destruct (existsb (fun l => reader_pc (at_ l)) (thr s)) eqn:Erd.
  - (* a thread inside a reader operation: wait-free *)
    apply existsb_exists in Erd. destruct Erd as [l [Hin Hp]]. apply In_nth_error in Hin. destruct Hin as [t Hl].
    destruct (read_wait_free t 0%nat (gl s) l Hp) as [r Hr]. exists t, 0%nat, l, r. repeat split; auto.
    unfold is_retry. destruct (at_ l); try discriminate; reflexivity.
  - assert (Hnr : forall u lu, nth_error (thr s) u = Some lu -> reader_pc (at_ lu) = false).
    { intros u lu Hu. destruct (reader_pc (at_ lu)) eqn:E; [|reflexivity].
      assert (existsb (fun l => reader_pc (at_ l)) (thr s) = true); [|congruence].
      apply existsb_exists. exists lu. split; [apply (nth_error_In _ _ Hu)|exact E]. }
    assert (Hidle : forall u lu, nth_error (thr s) u = Some lu -> at_ lu = Idle -> prog lu <> [] ->
                    exists t c l r, nth_error (thr s) t = Some l /\ tstep t c (gl s) l = Some r /\ is_retry (gl s) l = false).
    { intros u lu Hu Hp Hpr. exists u, 0%nat, lu.
      destruct lu as [pr p sls sl0 rcn f lr lc tm go]. cbn in *. subst p. destruct pr as [|o r0]; [congruence|].
      unfold tstep. cbn [at_ prog].
      destruct o; cbn; repeat match goal with |- context [match ?x with _ => _ end] => destruct x end;
        eexists; (split; [exact Hu|split; reflexivity]). }
    destruct (mtx (gl s)) as [w|] eqn:Hm.
    + (* the owner of the write mutex moves, unless it spins on a handle whose holder can move *)
      destruct (I_held _ _ HI _ Hm) as [lw [Hw Hh]].
      destruct (holder_enabled _ _ _ _ w 0%nat HR Hm) as [lw' [r [Hw' Hr]]].
      assert (lw' = lw) by congruence. subst lw'.
      destruct (is_retry (gl s) lw) eqn:Ert; [|exists w, 0%nat, lw, r; auto].
      destruct (retry_means_registered _ _ _ _ _ _ HR Hw Ert) as (k & _ & _ & u & lu & Hu & [[h [Hhh _]]|[Hp _]]).
      * pose proof (HW _ _ Hu) as Hwl. pose proof (Hnr _ _ Hu) as Hru. unfold wfl in Hwl. unfold holds_handle in Hhh.
        assert (Hocc : allfree (map isS (slots lu)) = false).
        { destruct (allfree (map isS (slots lu))) eqn:E; [|reflexivity]. destruct (allfree_no_handle _ h E Hhh). }
        apply (Hidle u lu Hu).
        -- destruct (at_ lu); try discriminate; try reflexivity; destruct Hwl; congruence.
        -- intros Hpr. destruct (at_ lu); try discriminate; try (destruct Hwl; congruence).
           rewrite Hpr in Hwl. cbn in Hwl. congruence.
      * pose proof (Hnr _ _ Hu) as Hru. rewrite Hp in Hru. discriminate.
    + (* mutex free: an unfinished thread is idle with work left, or about to lock *)
      unfold all_fin in Hnf. apply forallb_false_ex in Hnf. destruct Hnf as [l [Hin Hf]].
      apply In_nth_error in Hin. destruct Hin as [t Hl].
      pose proof (Hnr _ _ Hl) as Hrl.
      destruct (holds (at_ l)) eqn:Hh; [pose proof (I_owner _ _ HI _ _ Hl Hh); congruence|].
      destruct (at_ l) eqn:Hp; try discriminate.
      * apply (Hidle t l Hl Hp). intros Hpr. unfold fin in Hf. rewrite Hp, Hpr in Hf. discriminate.
      * destruct (lock_enabled_when_free t 0%nat (gl s) l Hp Hm) as [r Hr]. exists t, 0%nat, l, r. repeat split; auto.
        unfold is_retry. rewrite Hp. reflexivity.
Qed.

Lemma mu_step_dec (s : sysR) t c l g' l' es :
  nth_error (thr s) t = Some l -> tstep t c (gl s) l = Some (g', l', es) -> is_retry (gl s) l = false ->
  stepR s (t, c) = Sys g' (upd (thr s) t l') /\ (mu (Sys g' (upd (thr s) t l')) < mu s)%nat.
Proof.
  intros Hl Hs Hr. split.
  - unfold step, sys_step. rewrite Hl, Hs. reflexivity.
  - pose proof (wloc_step _ _ _ _ _ _ _ Hs) as Hw. rewrite Hr in Hw.
    pose proof (sum_upd wloc (thr s) t l l' Hl) as E. unfold mu. cbn [thr]. lia.
Qed.

(* from EVERY reachable state of programs that release every handle they take (and do not call modify
   while holding one) some schedule of at most mu(s) steps finishes every thread: readers and
   writers cannot deadlock or livelock each other *)
Lemma eventually_finishes ns pl progs s :
  R ns pl progs s -> releases_all ns progs = true ->
  exists sc, all_fin glob loc fin (runR s sc) = true /\ (length sc <= mu s)%nat.
Proof.
  intros HR Hwf. remember (mu s) as n eqn:En. assert (Hle : (mu s <= n)%nat) by lia. clear En.
  revert s HR Hle. induction n as [|n IH]; intros s HR Hle.
  - exists []. split; [|cbn; lia]. cbn.
    destruct (all_fin glob loc fin s) eqn:Ef; [reflexivity|exfalso].
    destruct (progress_step _ _ _ _ HR Hwf Ef) as (t & c & l & [[g' l'] es] & Hl & Hs & Hr).
    destruct (mu_step_dec s t c l g' l' es Hl Hs Hr) as [_ Hd]. lia.
  - destruct (all_fin glob loc fin s) eqn:Ef; [exists []; split; [exact Ef|cbn; lia]|].
    destruct (progress_step _ _ _ _ HR Hwf Ef) as (t & c & l & [[g' l'] es] & Hl & Hs & Hr).
    destruct (mu_step_dec s t c l g' l' es Hl Hs Hr) as [Est Hd].
    destruct (IH (stepR s (t, c))) as [sc [Hfin Hlen]].
    + apply R_step. exact HR.
    + rewrite Est. lia.
    + exists ((t, c) :: sc). split; [exact Hfin|]. cbn [length]. lia.
Qed.

(* non-vacuity of the hypothesis: a writer that also reads, a reader with two nested handles that also
   writes afterwards; and the two ways to violate it *)
Lemma releases_all_example :
  releases_all 2 [[Modify 3; LockShared 1 0; ReadHandle 0; Release 0];
                  [LockShared 1 0; LockShared 2 1; ReadHandle 1; Release 0; Release 1; Modify 4]] = true /\
  releases_all 1 [[LockShared 1 0; Modify 3; Release 0]] = false /\
  releases_all 1 [[LockShared 1 0; ReadHandle 0]] = false.
Proof. repeat split; reflexivity. Qed.
