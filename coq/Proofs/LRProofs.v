(* Invariants and lemmas for the lr_guarded model (C03; lr parts of C14, C20, C07). *)
From Coq Require Import List Arith ZArith Lia Bool.
Import ListNotations.
From GV Require Import Sched Events LRModel.
Local Open Scope Z_scope.

Ltac step_cases Hs :=
  unfold tstep, bad in Hs; cbn [at_ prog] in Hs;
  repeat match type of Hs with
         | context [match ?x with _ => _ end] => destruct x eqn:?; cbn in Hs
         | context [if ?x then _ else _] => destruct x eqn:?; cbn in Hs
         end;
  try discriminate; inversion Hs; subst; clear Hs.

(* ---------- C07 (layer 2), syntactic: every atomic operation of the model is seq_cst ---------- *)
Definition is_atomic_kind (k : Z) : bool := (K_LOAD <=? k) && (k <=? K_XCHG).

Lemma all_atomics_seq_cst t c g l g' l' es e :
  tstep t c g l = Some (g', l', es) -> In e es ->
  emo e = (if is_atomic_kind (ek e) then MO_SEQ_CST else MO_NA).
Proof.
  intros Hs Hin. destruct l as [pr p sls s rcn f lr lc tm go].
  step_cases Hs; cbn in Hin;
    repeat (destruct Hin as [Hin|Hin]; [subst e; reflexivity|]); contradiction.
Qed.
