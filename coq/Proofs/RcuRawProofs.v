(* RcuList: the storage of a push whose element constructor throws.  The cell is raw (never a node, never
   a record); no step of any thread touches a raw cell except the allocate that creates it and the
   catch block's deallocate of its own thread:
     InvX  a thread between that allocate and that deallocate finds its cell raw and in ledger state Alloc,
     InvR  every raw cell is either in state Alloc and owned by such a thread, or Freed. *)
From Coq Require Import List Arith ZArith Lia Bool.
Import ListNotations.
From GV Require Import Sched Events RcuModel RcuBase RcuListProofs.

(* 0 = not a raw cell, 1 = raw / Alloc, 2 = raw / Freed, 3 = raw in another state (never happens) *)
Definition rawsth (h : list cell) (k : nat) : nat :=
  match nth_error h k with
  | Some (Cell Alloc BRaw _ _ _) => 1 | Some (Cell Freed BRaw _ _ _) => 2 | Some (Cell _ BRaw _ _ _) => 3 | _ => 0
  end.
Definition rawst (g : glob) (k : nat) : nat := rawsth (heap g) k.
Lemma rawok_st g k : rawok g k = Nat.eqb (rawst g k) 1.
Proof.
  unfold rawok, rawst, rawsth, cs_is, getc. destruct (nth_error (heap g) k) as [[[] [?|?|] ? ? ?]|]; reflexivity.
Qed.
Lemma rawst_getc g g' k : getc g' k = getc g k -> rawst g' k = rawst g k.
Proof. intros H. unfold rawst, rawsth. unfold getc in H. rewrite H. reflexivity. Qed.
Lemma rawst_heap g g' k : heap g' = heap g -> rawst g' k = rawst g k.
Proof. intros H. unfold rawst. rewrite H. reflexivity. Qed.

Ltac rst := unfold rawst, rawsth; change (nth_error (heap ?a) ?k) with (getc a k).
Lemma rawst_setn g j x k : isnode g j = true -> rawst (setn g j x) k = rawst g k.
Proof.
  intros H. rst. rewrite getc_setn. destruct (Nat.eqb_spec k j) as [->|]; [|reflexivity]. unfold isnode in H.
  destruct (getc g j) as [[[] [?|?|] ? ? ?]|]; try discriminate; reflexivity.
Qed.
Lemma rawst_setz g j x k : isrec g j = true -> rawst (setz g j x) k = rawst g k.
Proof.
  intros H. rst. rewrite getc_setz. destruct (Nat.eqb_spec k j) as [->|]; [|reflexivity]. unfold isrec in H.
  destruct (getc g j) as [[[] [?|?|] ? ? ?]|]; try discriminate; reflexivity.
Qed.
Lemma rawst_construct g j b k : isnode g j = true \/ isrec g j = true -> b <> BRaw ->
  rawst (fst (do_construct g j b)) k = rawst g k.
Proof.
  intros H Hb. rst. rewrite getc_construct. destruct (Nat.eqb_spec k j) as [->|]; [|reflexivity]. unfold isnode, isrec in H.
  destruct (getc g j) as [[[] [?|?|] ? ? ?]|]; cbn; try (destruct H; discriminate); destruct (cs_is g j Alloc); cbn;
    try reflexivity; destruct b; try reflexivity; congruence.
Qed.
Lemma rawst_destroy g j k : rawst g j <> 3 -> rawst (fst (do_destroy g j)) k = rawst g k.
Proof.
  intros H. revert H. rst. intros H. rewrite getc_destroy. destruct (Nat.eqb_spec k j) as [->|]; [|reflexivity]. unfold cs_is in *.
  destruct (getc g j) as [[[] [?|?|] ? ? ?]|]; try reflexivity; congruence.
Qed.
Lemma rawst_dealloc g j k : rawst g j <> 3 -> rawst (fst (do_dealloc g j)) k = rawst g k.
Proof.
  intros H. revert H. rst. intros H. rewrite getc_dealloc. destruct (Nat.eqb_spec k j) as [->|]; [|reflexivity]. unfold cs_is in *.
  destruct (getc g j) as [[[] [?|?|] ? ? ?]|]; try reflexivity; congruence.
Qed.
Lemma rawst_alloc g b k : rawst (fst (do_alloc g b)) k =
  if Nat.eqb k (nheap g) then (match b with BRaw => 1 | _ => 0 end) else rawst g k.
Proof.
  rst. rewrite getc_alloc. destruct (Nat.eqb_spec k (nheap g)) as [->|]; [|reflexivity]. destruct b; reflexivity.
Qed.
Lemma rawst_ge g k : nheap g <= k -> rawst g k = 0.
Proof. intros H. rst. rewrite getc_ge by exact H. reflexivity. Qed.
Lemma rawst_dealloc_raw g j k : rawst (fst (do_dealloc_raw g j)) k =
  if Nat.eqb k j then (if Nat.eqb (rawst g j) 1 then 2 else rawst g j) else rawst g k.
Proof.
  rst. rewrite getc_dealloc_raw. destruct (Nat.eqb_spec k j) as [->|]; [|reflexivity].
  unfold rawf, rawok, cs_is. destruct (getc g j) as [[[] [?|?|] ? ? ?]|]; reflexivity.
Qed.
Lemma rawst_null g kd k : rawst (fst (null_call g kd)) k = rawst g k.
Proof. apply rawst_heap. reflexivity. Qed.

Ltac peel :=
  repeat match goal with
  | |- context [rawst (with_fault ?x) ?k] => change (rawst (with_fault x) k) with (rawst x k)
  | |- context [rawst (with_misuse ?x) ?k] => change (rawst (with_misuse x) k) with (rawst x k)
  | |- context [rawst (with_mtx ?x ?a) ?k] => change (rawst (with_mtx x a) k) with (rawst x k)
  | |- context [rawst (with_head ?x ?a) ?k] => change (rawst (with_head x a) k) with (rawst x k)
  | |- context [rawst (with_tail ?x ?a) ?k] => change (rawst (with_tail x a) k) with (rawst x k)
  | |- context [rawst (with_pos ?x ?a ?b) ?k] => change (rawst (with_pos x a b) k) with (rawst x k)
  | |- context [rawst (commit ?x ?a) ?k] => change (rawst (commit x a) k) with (rawst x k)
  | |- context [rawst (with_zhead ?x ?a) ?k] => change (rawst (with_zhead x a) k) with (rawst x k)
  | |- context [rawst (with_zlog ?x ?a) ?k] => change (rawst (with_zlog x a) k) with (rawst x k)
  end.

Definition px_cell (p : pc) : option nat := match p with PX_constr n | PX_free n => Some n | _ => None end.

(* one step: the raw status of every cell is unchanged, except for the cell PX_alloc creates and the cell
   PX_free deallocates *)
Lemma step_rawst g ls t c l g' l' es k : InvA g ls -> (forall j, rawst g j <> 3) -> nth_error ls t = Some l ->
  tstep t c g l = Some (g', l', es) ->
  rawst g' k = rawst g k \/
  (at_ l = PX_alloc /\ k = nheap g /\ rawst g' k = 1 /\ at_ l' = PX_constr k) \/
  (at_ l = PX_free k /\ rawst g' k = if Nat.eqb (rawst g k) 1 then 2 else rawst g k).
Proof.
  intros I N3 Hl Hs.
  pose proof (a_thr _ _ I t l Hl) as Tt.
  destruct l as [pr p h its0]. destruct p.
  all: try (destruct (t_unl _ _ Tt eq_refl) as (w0 & z0 & Eh0); cbn [hnd] in Eh0; subst h).
  all: step_cases2 Hs; fold_fst.
  all: cbn [own_rec own_w hnd at_] in *.
  all: destruct Tt as [T1 T2 T3 T4]; cbn [at_ hnd its nrefs pc_refs priv_rec in_unlock] in T1, T2, T3, T4.
  all: try (left; peel; first
    [ reflexivity
    | (rewrite rawst_destroy by apply N3; reflexivity)
    | (rewrite rawst_dealloc by apply N3; reflexivity)
    | (rewrite rawst_null; reflexivity)
    | (rewrite rawst_setn by (eapply wtarget_isnode; [exact I|exact Hl|reflexivity]); reflexivity)
    | (rewrite rawst_setz by eauto; reflexivity)
    | (rewrite rawst_construct; [reflexivity|left; eapply wtarget_isnode; [exact I|exact Hl|reflexivity]|discriminate])
    | (rewrite rawst_construct; [reflexivity|right; eauto|discriminate])
    | (rewrite rawst_alloc; destruct (Nat.eqb_spec k (nheap g)) as [->|]; [rewrite rawst_ge by lia; reflexivity|reflexivity]) ]; fail).
  - rewrite rawst_alloc. destruct (Nat.eqb_spec k (nheap g)) as [->|]; [right; left; cbn; auto|left; reflexivity].
  - rewrite rawst_dealloc_raw. destruct (Nat.eqb_spec k n) as [->|]; [right; right; auto|left; reflexivity].
Qed.

(* ---------- the invariants ---------- *)
Record InvR (g : glob) (ls : list loc) : Prop := {
  r_no3 : forall k, rawst g k <> 3;
  r_own : forall k, rawst g k = 1 -> exists u l, nth_error ls u = Some l /\ px_cell (at_ l) = Some k;
  r_x : forall u l n, nth_error ls u = Some l -> px_cell (at_ l) = Some n -> rawst g n = 1
}.
Definition InvX (g : glob) (ls : list loc) : Prop :=
  forall u l n, nth_error ls u = Some l -> px_cell (at_ l) = Some n -> rawok g n = true.
Lemma InvR_X g ls : InvR g ls -> InvX g ls.
Proof. intros R u l n Hu Hn. rewrite rawok_st, (r_x _ _ R u l n Hu Hn). reflexivity. Qed.

(* only PX_alloc leads to PX_constr, only PX_constr to PX_free *)
Lemma px_after t c g l g' l' es n : tstep t c g l = Some (g', l', es) -> px_cell (at_ l') = Some n ->
  (at_ l = PX_alloc /\ at_ l' = PX_constr n) \/ (at_ l = PX_constr n /\ at_ l' = PX_free n /\ g' = g).
Proof.
  intros Hs Hn. destruct l as [pr p h its0]. destruct p; step_cases2 Hs; fold_fst; cbn [at_ px_cell] in Hn; try discriminate.
  all: try (destruct (znode (grec _ _)); [discriminate|destruct (unfixed _); discriminate]).
  all: try (unfold body_pc in Hn; match type of Hn with context [match ?o with _ => _ end] => destruct o end; discriminate).
  all: try (unfold reclaim_at in Hn; repeat match type of Hn with context [match ?o with _ => _ end] => destruct o | context [if ?b then _ else _] => destruct b end; discriminate).
  - inversion Hn; subst n. left. auto.
  - inversion Hn; subst n. right. auto.
Qed.
Lemma holders_same g ls t u l lu : InvA g ls -> nth_error ls t = Some l -> nth_error ls u = Some lu ->
  holds (at_ l) = true -> holds (at_ lu) = true -> t = u.
Proof.
  intros I Hl Hu Hh Hh'.
  pose proof (a_own _ _ I t) as A1. rewrite (pcof_at _ _ _ Hl) in A1. specialize (A1 Hh).
  pose proof (a_own _ _ I u) as A2. rewrite (pcof_at _ _ _ Hu) in A2. specialize (A2 Hh'). congruence.
Qed.
Lemma px_holds p n : px_cell p = Some n -> holds p = true.
Proof. destruct p; try discriminate; reflexivity. Qed.

Lemma InvR_step g ls t c l g' l' es :
  InvA g ls -> InvR g ls -> nth_error ls t = Some l -> tstep t c g l = Some (g', l', es) -> InvR g' (upd ls t l').
Proof.
  intros I [R1 R2 R3] Hl Hs.
  assert (ST : forall k, _) by (intros k; exact (step_rawst g ls t c l g' l' es k I R1 Hl Hs)).
  constructor.
  - intros k. destruct (ST k) as [E|[(_ & _ & E & _)|(E0 & E)]]; [rewrite E; apply R1|rewrite E; discriminate|].
    rewrite E. specialize (R1 k). destruct (Nat.eqb (rawst g k) 1); [discriminate|exact R1].
  - intros k Hk. destruct (ST k) as [E|[(E0 & E1 & E & E2)|(E0 & E)]].
    + rewrite E in Hk. destruct (R2 k Hk) as (u & lu & Hu & Hn). destruct (Nat.eq_dec u t) as [->|Hne].
      * assert (lu = l) by congruence. subst lu. exists t, l'. split; [apply nth_upd_eq with (y := l); exact Hl|].
        destruct l as [pr p h its0]. destruct p; try discriminate; cbn [at_ px_cell] in Hn; inversion Hn; subst.
        -- clear ST. step_cases2 Hs. reflexivity.
        -- exfalso. destruct (ST k) as [E'|[(E0 & _)|(_ & E')]]; [|discriminate|].
           ++ clear ST. step_cases2 Hs; fold_fst. rewrite rawst_dealloc_raw, Nat.eqb_refl, Hk in E. cbn in E. congruence.
           ++ rewrite Hk in E'. cbn in E'. congruence.
      * exists u, lu. split; [rewrite nth_upd_ne by (intros ->; contradiction); exact Hu|exact Hn].
    + exists t, l'. split; [apply nth_upd_eq with (y := l); exact Hl|]. rewrite E2. reflexivity.
    + rewrite E in Hk. destruct (Nat.eqb (rawst g k) 1) eqn:E1; [discriminate|]. apply Nat.eqb_neq in E1. contradiction.
  - intros u lu n Hu Hn. apply nth_upd in Hu. destruct Hu as [(Eu & -> & _)|(Hne & Hu)].
    + subst u. destruct (px_after _ _ _ _ _ _ _ _ Hs Hn) as [(A & B)|(A & B & ->)].
      * destruct (ST n) as [E|[(_ & _ & E & _)|(E0 & _)]]; [|exact E|congruence].
        destruct (ST (nheap g)) as [E'|[(_ & _ & E' & E2)|(E0 & _)]]; [| |congruence].
        -- exfalso. clear ST. destruct l as [pr p h its0]. cbn in A. subst p. step_cases2 Hs; fold_fst.
           rewrite rawst_alloc, Nat.eqb_refl in E'. rewrite rawst_ge in E' by lia. discriminate.
        -- rewrite B in E2. inversion E2; subst n. exact E'.
      * apply (R3 t l n Hl). rewrite A. reflexivity.
    + pose proof (R3 u lu n Hu Hn) as Hk. destruct (ST n) as [E|[(_ & E1 & _)|(E0 & _)]].
      * rewrite E. exact Hk.
      * subst n. rewrite rawst_ge in Hk by lia. discriminate.
      * exfalso. apply Hne. apply (holders_same g ls t u l lu I Hl Hu); [rewrite E0; reflexivity|eapply px_holds; eauto].
Qed.
Lemma InvR_init unf progs : InvR (gl (init unf progs)) (thr (init unf progs)).
Proof.
  assert (Z : forall k, rawst (gl (init unf progs)) k = 0) by (intros k; unfold rawst, rawsth; cbn; destruct k; reflexivity).
  constructor.
  - intros k. rewrite Z. discriminate.
  - intros k Hk. rewrite Z in Hk. discriminate.
  - intros u l n Hu Hn. cbn [thr init] in Hu. rewrite nth_error_map in Hu. destruct (nth_error progs u); [|discriminate].
    cbn in Hu. inversion Hu; subst l. discriminate.
Qed.
Lemma InvX_init unf progs : InvX (gl (init unf progs)) (thr (init unf progs)).
Proof. apply InvR_X, InvR_init. Qed.
