(* Two ordered_guarded objects with nested calls X -> Y (Model/Wrapper2Model.v): every product step is a step of
   the single-object model in X or in Y, so the single-object invariants hold componentwise, and with them the
   exclusion theorems of C01 for each object - in particular for an operation of Y made from inside X's functor. *)
From Coq Require Import List Arith ZArith Lia Bool.
Import ListNotations.
From GV Require Import Sched Events WrapperModel WrapperProofs Wrapper2Model.
Local Open Scope Z_scope.

Definition projX (ls : list loc2) : list loc := map lX ls.
Definition projY (ls : list loc2) : list loc := map lY ls.
Definition sysX (s : sys glob2 loc2) : sysW := Sys (gX (gl s)) (projX (thr s)).
Definition sysY (s : sys glob2 loc2) : sysW := Sys (gY (gl s)) (projY (thr s)).
Definition R2 (cx cy : config) (progs : list (list op2)) (s : sys glob2 loc2) : Prop :=
  reachable glob2 loc2 (tstep2 cx cy) (init2 cx cy progs) s.

Lemma map_upd {A B} (f : A -> B) (l : list A) i x : map f (upd l i x) = upd (map f l) i (f x).
Proof. revert i; induction l as [|a r IH]; intros [|i]; cbn; try reflexivity. rewrite IH. reflexivity. Qed.

(* the invariant does not look at the program field *)
Lemma Inv_same_pc cf g ls t l l' : at_ l' = at_ l -> slots l' = slots l ->
  Inv cf g ls -> nth_error ls t = Some l -> Inv cf g (upd ls t l').
Proof.
  intros Ea Es [[Hok IX IS IM] [Ir Ic Id If Ig Iv]] Hl.
  assert (Hlx : lx cf l' = lx cf l /\ lsh cf l' = lsh cf l) by (unfold lx, lsh; rewrite Ea, Es; auto).
  assert (Hloc : forall u, at_ (locof (upd ls t l') u) = at_ (locof ls u) /\
                           lx cf (locof (upd ls t l') u) = lx cf (locof ls u) /\
                           lsh cf (locof (upd ls t l') u) = lsh cf (locof ls u)).
  { intros u. rewrite (locof_upd _ _ _ _ _ Hl). destruct (Nat.eqb_spec u t) as [->|Hne]; [|auto].
    rewrite (locof_at _ _ _ Hl). destruct Hlx. auto. }
  split; constructor.
  - intros u l0 Hu. destruct (nth_upd _ _ _ _ _ Hu) as [[-> [-> _]]|[_ Hu']]; [|eauto].
    pose proof (Hok _ _ Hl) as [H1 H2]. unfold locok. rewrite Ea, Es. auto.
  - intros u. destruct (Hloc u) as [_ [E _]]. rewrite E. apply IX.
  - intros u. destruct (Hloc u) as [_ [_ E]]. rewrite E. apply IS.
  - exact IM.
  - rewrite Ir. pose proof (sum_upd (fun l => rdopen (at_ l)) ls t l l' Hl) as E. cbv beta in E. rewrite Ea in E. lia.
  - intros Hs u fr code ph r ok Hp. destruct (Hloc u) as [E1 [E2 E3]]. rewrite E1 in Hp. rewrite E2, E3.
    apply (Ic Hs u _ _ _ _ _ Hp).
  - intros Hs Hd. destruct (Id Hs Hd) as [u Hu]. exists u. destruct (Hloc u) as [E1 _]. rewrite E1. exact Hu.
  - exact If.
  - intros Hs u fr rest ph r ok Hp. destruct (Hloc u) as [E1 _]. rewrite E1 in Hp. eapply Ig; eauto.
  - exact Iv.
Qed.
(* nor at the constant a pending `MWrite Obj (Const _)` behind a call will write *)
Lemma Inv_patch_at cf g ls t l fr f sn c c' ph r ok : at_ l = Run fr [MCall f sn; MWrite Obj (Const c)] ph r ok ->
  Inv cf g ls -> nth_error ls t = Some l ->
  Inv cf g (upd ls t (Loc (prog l) (Run fr [MCall f sn; MWrite Obj (Const c')] ph r ok) (slots l))).
Proof.
  intros Ea [[Hok IX IS IM] [Ir Ic Id If Ig Iv]] Hl.
  set (l' := Loc (prog l) (Run fr [MCall f sn; MWrite Obj (Const c')] ph r ok) (slots l)).
  assert (Hlx : lx cf l' = lx cf l /\ lsh cf l' = lsh cf l) by (unfold lx, lsh, l'; cbn [at_ slots]; rewrite Ea; auto).
  assert (Hloc : forall u, lx cf (locof (upd ls t l') u) = lx cf (locof ls u) /\
                           lsh cf (locof (upd ls t l') u) = lsh cf (locof ls u) /\
                           (u <> t -> at_ (locof (upd ls t l') u) = at_ (locof ls u))).
  { intros u. rewrite (locof_upd _ _ _ _ _ Hl). destruct (Nat.eqb_spec u t) as [Heq|Hne]; [|auto].
    subst u. rewrite (locof_at _ _ _ Hl). destruct Hlx. repeat split; auto. intros; congruence. }
  assert (Hlt : locof (upd ls t l') t = l').
  { rewrite (locof_upd _ _ _ _ _ Hl), Nat.eqb_refl. reflexivity. }
  split; constructor.
  - intros u l0 Hu. destruct (nth_upd _ _ _ _ _ Hu) as [[Hut [Hl0 _]]|[_ Hu']]; [|eauto]. subst u l0.
    pose proof (Hok _ _ Hl) as [H1 H2]. unfold locok in *. rewrite Ea in H2. unfold l'; cbn [at_ slots].
    split; [exact H1|]. destruct H2 as [_ H2]. split; [discriminate|exact H2].
  - intros u. destruct (Hloc u) as [E _]. rewrite E. apply IX.
  - intros u. destruct (Hloc u) as [_ [E _]]. rewrite E. apply IS.
  - exact IM.
  - rewrite Ir. pose proof (sum_upd (fun l => rdopen (at_ l)) ls t l l' Hl) as E0. cbv beta in E0.
    unfold l' in E0 at 2; cbn [at_] in E0. rewrite Ea in E0. cbn [rdopen] in E0. fold l' in E0. lia.
  - intros Hs u fr0 code ph0 r0 ok0 Hp. destruct (Hloc u) as [E1 [E2 E3]]. rewrite E1, E2.
    destruct (Nat.eq_dec u t) as [Heq|Hne].
    + subst u. rewrite Hlt in Hp. unfold l' in Hp; cbn [at_] in Hp. inversion Hp; subst.
      rewrite (locof_at _ _ _ Hl) in *.
      destruct (Ic Hs t _ _ _ _ _ (eq_trans (f_equal at_ (locof_at _ _ _ Hl)) Ea)) as [?|[_ Hn]];
        [rewrite (locof_at _ _ _ Hl) in *; auto|cbn in Hn; discriminate].
    + rewrite (E3 Hne) in Hp. apply (Ic Hs u _ _ _ _ _ Hp).
  - intros Hs Hd. destruct (Id Hs Hd) as [u Hu]. exists u. destruct (Nat.eq_dec u t) as [Heq|Hne].
    + subst u. rewrite Hlt. rewrite (locof_at _ _ _ Hl), Ea in Hu. exact Hu.
    + destruct (Hloc u) as [_ [_ E3]]. rewrite (E3 Hne). exact Hu.
  - exact If.
  - intros Hs u fr0 rest ph0 r0 ok0 Hp. destruct (Nat.eq_dec u t) as [Heq|Hne].
    + subst u. rewrite Hlt in Hp. discriminate.
    + destruct (Hloc u) as [_ [_ E3]]. rewrite (E3 Hne) in Hp. eapply Ig; eauto.
  - exact Iv.
Qed.
Lemma Inv_patch cf g ls t l v : Inv cf g ls -> nth_error ls t = Some l -> Inv cf g (upd ls t (patch l v)).
Proof.
  intros HI Hl. unfold patch.
  destruct (at_ l) eqn:Ea; try (rewrite (upd_same _ _ _ Hl); exact HI).
  repeat match goal with
         | |- Inv _ _ (upd _ _ (match ?x with _ => _ end)) => destruct x; try (rewrite (upd_same _ _ _ Hl); exact HI)
         end.
  eapply Inv_patch_at; eauto.
Qed.
Lemma Inv_tstep cf : forall g ls t c l g' l' es,
  Inv cf g ls -> nth_error ls t = Some l -> tstep cf t c g l = Some (g', l', es) -> Inv cf g' (upd ls t l').
Proof. apply (lift_step cf (Inv cf) (Inv_step cf)). Qed.
(* a step of the object's automaton, possibly after it has been handed an operation *)
Lemma Inv_handed cf g ls t c l o g' l' es : Inv cf g ls -> nth_error ls t = Some l -> idle l = true ->
  tstep cf t c g (with_op l o) = Some (g', l', es) -> Inv cf g' (upd ls t l').
Proof.
  intros HI Hl Hid Hs. unfold idle in Hid. destruct (at_ l) eqn:Ea; try discriminate.
  assert (HI' : Inv cf g (upd ls t (with_op l o))) by (apply (Inv_same_pc cf g ls t l); auto; cbn; auto).
  pose proof (Inv_tstep cf _ _ t c _ _ _ _ HI' (nth_upd_eq _ _ _ _ Hl) Hs) as H2.
  rewrite upd_upd in H2. exact H2.
Qed.

Definition InvP (cx cy : config) (g : glob2) (ls : list loc2) : Prop :=
  Inv cx (gX g) (projX ls) /\ Inv cy (gY g) (projY ls).

Lemma InvP_step cx cy : forall g ls t c l g' l' es,
  InvP cx cy g ls -> nth_error ls t = Some l -> tstep2 cx cy t c g l = Some (g', l', es) -> InvP cx cy g' (upd ls t l').
Proof.
  intros g ls t c l g' l' es [HX HY] Hl Hs. unfold InvP, projX, projY. rewrite !map_upd.
  assert (HlX : nth_error (map lX ls) t = Some (lX l)) by (rewrite nth_error_map, Hl; reflexivity).
  assert (HlY : nth_error (map lY ls) t = Some (lY l)) by (rewrite nth_error_map, Hl; reflexivity).
  unfold tstep2 in Hs.
  destruct (negb (idle (lY l))) eqn:EY.
  - destruct (tstep cy t c (gY g) (lY l)) as [[[gY' lY'] es1]|] eqn:E1; [|discriminate]. inversion Hs; subst; cbn [gX gY lX lY].
    split; [|eapply Inv_tstep; eauto].
    destruct (xf l && idle lY'); [|rewrite (upd_same _ _ _ HlX); exact HX].
    destruct (ret_of (lY l)); [apply Inv_patch; assumption|rewrite (upd_same _ _ _ HlX); exact HX].
  - apply negb_false_iff in EY. destruct (negb (idle (lX l))) eqn:EX.
    + destruct (tstep cx t c (gX g) (lX l)) as [[[gX' lX'] es1]|] eqn:E1; [|discriminate].
      assert (HX' : Inv cx gX' (upd (map lX ls) t lX')) by (eapply Inv_tstep; eauto).
      destruct (nest l) as [inner|].
      * destruct (if xf l then at_gacq (lX l) else at_functor_call (lX l)).
        -- destruct (tstep cy t c (gY g) (with_op (lY l) inner)) as [[[gY' lY'] esY]|] eqn:E2; [|discriminate].
           inversion Hs; subst; cbn [gX gY lX lY]. split; [exact HX'|eapply Inv_handed; eauto].
        -- inversion Hs; subst; cbn [gX gY lX lY]. split; [exact HX'|rewrite (upd_same _ _ _ HlY); exact HY].
      * inversion Hs; subst; cbn [gX gY lX lY]. split; [exact HX'|rewrite (upd_same _ _ _ HlY); exact HY].
    + apply negb_false_iff in EX. destruct (prog2 l) as [|[o|o|fid inner|] r]; [discriminate| | | |].
      * destruct (tstep cx t c (gX g) (with_op (lX l) o)) as [[[gX' lX'] es1]|] eqn:E1; [|discriminate].
        inversion Hs; subst; cbn [gX gY lX lY]. split; [eapply Inv_handed; eauto|rewrite (upd_same _ _ _ HlY); exact HY].
      * destruct (tstep cy t c (gY g) (with_op (lY l) o)) as [[[gY' lY'] es1]|] eqn:E1; [|discriminate].
        inversion Hs; subst; cbn [gX gY lX lY]. split; [rewrite (upd_same _ _ _ HlX); exact HX|eapply Inv_handed; eauto].
      * destruct (tstep cx t c (gX g) (with_op (lX l) (Modify fid))) as [[[gX' lX'] es1]|] eqn:E1; [|discriminate].
        inversion Hs; subst; cbn [gX gY lX lY]. split; [eapply Inv_handed; eauto|rewrite (upd_same _ _ _ HlY); exact HY].
      * destruct (tstep cx t c (gX g) (with_op (lX l) (Assign 0))) as [[[gX' lX'] es1]|] eqn:E1; [|discriminate].
        inversion Hs; subst; cbn [gX gY lX lY]. split; [eapply Inv_handed; eauto|rewrite (upd_same _ _ _ HlY); exact HY].
Qed.

Lemma Inv_init_threads cf (progs : list (list op2)) (f : loc2 -> loc) :
  (forall p, f (Loc2 p init_loc init_loc None false) = init_loc) ->
  Inv cf (gl (init cf [])) (map f (map (fun p => Loc2 p init_loc init_loc None false) progs)).
Proof.
  intros Hf. rewrite map_map.
  replace (map (fun x => f (Loc2 x init_loc init_loc None false)) progs) with (thr (init cf (map (fun _ => []) progs))).
  - split; [apply (Inv1_init cf (map (fun _ => []) progs))|apply (Inv2_init cf (map (fun _ => []) progs))].
  - unfold init. cbn [thr]. rewrite map_map. apply map_ext. intros p. rewrite Hf. reflexivity.
Qed.
Lemma R2_inv cx cy progs s : R2 cx cy progs s -> InvP cx cy (gl s) (thr s).
Proof.
  intros H. eapply reachable_inv; [apply InvP_step| |exact H].
  unfold InvP, projX, projY, init2. cbn [gl thr gX gY]. split; apply Inv_init_threads; reflexivity.
Qed.

(* ---------- the C01 theorems from the invariant (any system state satisfying it) ---------- *)
Lemma excl_invariant_inv cf (s : sysW) t u : Inv cf (gl s) (thr s) -> in_excl_access cf s t -> u <> t ->
  ~ holds_lock cf s u /\ (safe cf (gl s) -> ~ in_any_access s u).
Proof.
  intros [H1 H2] Ht Hne. unfold in_excl_access, holds_lock in *.
  destruct (excl_locks cf _ _ t u H1 (not_eq_sym Hne) Ht) as [Ex Es]. split; [lia|].
  intros Hs [fr [code [ph [r [ok Hp]]]]].
  destruct (I_cov _ _ _ H2 Hs u _ _ _ _ _ Hp) as [?|[? _]]; lia.
Qed.
Lemma windows_disjoint_inv cf (s : sysW) : Inv cf (gl s) (thr s) -> safe cf (gl s) ->
  ~ (exists t u, t <> u /\ open_window s t /\ open_write_window s u).
Proof.
  intros [H1 H2] Hs [t [u [Hne [Ht Hu]]]]. unfold open_window, open_write_window in *.
  destruct (wropen_run _ Hu) as [fr [i [rest [ph [r [ok [Hp Hro]]]]]]].
  destruct (I_cov _ _ _ H2 Hs u _ _ _ _ _ Hp) as [Hx|[_ Hn]]; [|cbn in Hn; rewrite Hro in Hn; discriminate].
  destruct (writer_alone cf _ _ u H1 H2 Hs Hx t Hne) as [Hr Hw]. destruct Ht; [lia|congruence].
Qed.

(* ---------- the product: each object on its own, nested calls included ---------- *)
Lemma R2_invX cx cy progs s : R2 cx cy progs s -> Inv cx (gl (sysX s)) (thr (sysX s)).
Proof. intros H. apply (R2_inv _ _ _ _ H). Qed.
Lemma R2_invY cx cy progs s : R2 cx cy progs s -> Inv cy (gl (sysY s)) (thr (sysY s)).
Proof. intros H. apply (R2_inv _ _ _ _ H). Qed.

(* while a thread has exclusive access to Y - inside Y.modify / store / operator=, whether called at top level or
   from inside the functor of X.modify - no other thread holds Y's mutex or is inside an access of Y; same for X *)
Lemma wrapper2_excl_invariant_l cx cy progs s t u : R2 cx cy progs s -> u <> t ->
  (in_excl_access cy (sysY s) t -> ~ holds_lock cy (sysY s) u /\ (safe cy (gY (gl s)) -> ~ in_any_access (sysY s) u)) /\
  (in_excl_access cx (sysX s) t -> ~ holds_lock cx (sysX s) u /\ (safe cx (gX (gl s)) -> ~ in_any_access (sysX s) u)).
Proof.
  intros HR Hne. split; intros Ht.
  - apply (excl_invariant_inv cy (sysY s) t u (R2_invY _ _ _ _ HR) Ht Hne).
  - apply (excl_invariant_inv cx (sysX s) t u (R2_invX _ _ _ _ HR) Ht Hne).
Qed.
Lemma wrapper2_windows_disjoint_l cx cy progs s : R2 cx cy progs s ->
  (safe cy (gY (gl s)) -> ~ (exists t u, t <> u /\ open_window (sysY s) t /\ open_write_window (sysY s) u)) /\
  (safe cx (gX (gl s)) -> ~ (exists t u, t <> u /\ open_window (sysX s) t /\ open_write_window (sysX s) u)).
Proof.
  intros HR. split; intros Hs.
  - apply (windows_disjoint_inv cy (sysY s) (R2_invY _ _ _ _ HR) Hs).
  - apply (windows_disjoint_inv cx (sysX s) (R2_invX _ _ _ _ HR) Hs).
Qed.
Lemma wrapper2_no_lost_update_l cx cy progs s : R2 cx cy progs s ->
  (safe cy (gY (gl s)) -> owrites (gY (gl s)) = 0%nat -> val (gY (gl s)) = init_val cy + Z.of_nat (incrs (gY (gl s)))) /\
  (safe cx (gX (gl s)) -> owrites (gX (gl s)) = 0%nat -> val (gX (gl s)) = init_val cx + Z.of_nat (incrs (gX (gl s)))) /\
  (safe cy (gY (gl s)) -> faults (gY (gl s)) = nderef (gY (gl s))) /\
  (safe cx (gX (gl s)) -> faults (gX (gl s)) = nderef (gX (gl s))).
Proof.
  intros HR. destruct (R2_inv _ _ _ _ HR) as [[_ HX] [_ HY]].
  repeat split; intros Hs; try intros Ho.
  - apply (I_val _ _ _ HY Hs Ho).
  - apply (I_val _ _ _ HX Hs Ho).
  - apply (I_f _ _ _ HY Hs).
  - apply (I_f _ _ _ HX Hs).
Qed.
(* the mutex of each object is owned exactly by the thread that holds one exclusive guard of THAT object *)
Lemma wrapper2_no_leaked_lock_l cx cy progs s t : R2 cx cy progs s ->
  (owner (gY (gl s)) = Some t <-> lx cy (locof (projY (thr s)) t) = 1%nat) /\
  (owner (gX (gl s)) = Some t <-> lx cx (locof (projX (thr s)) t) = 1%nat).
Proof.
  intros HR. destruct (R2_inv _ _ _ _ HR) as [[HX _] [HY _]].
  assert (A : forall cf g ls, Inv1 cf g ls -> (owner g = Some t <-> lx cf (locof ls t) = 1%nat)).
  { intros cf g ls H1. pose proof (I_x _ _ _ H1 t) as E. pose proof (own1_le g t). split; intros H0.
    - rewrite E. unfold own1. rewrite H0, Nat.eqb_refl. reflexivity.
    - apply own1_pos. lia. }
  split; apply A; assumption.
Qed.
