(* Layer B1 of the rcu_list proof: the log of registration / erase records (m_zombie_head), its
   scan and its reclamation.  Inductive invariant InvB:
   - [zlog] lists every record ever pushed, newest first; the stamp of a record is its position
     counted from the oldest, so "c is older than a" is  zsq c < zsq a  and never changes;
   - a record is *on the log* (inlog) while it is not deallocated; next pointers of records on the
     log lead to the next older record on the log, except for the own record of a thread that is in
     the middle of reclaiming (its next is stale until it stores null);
   - a thread's own record is on the log, constructed and owned; owned records belong to live handles;
   - a scanning releaser has seen only unowned records between its own and its current position;
     a reclaiming releaser owns the whole region older than its own record: every record in it is
     unowned, its current pointer is the newest of them - hence regions of two reclaimers never
     overlap, nobody else walks in a region, and a record is destroyed / deallocated exactly once.
   Nodes are abstract here (a record only knows that its zombie_node is a node cell). *)
From Coq Require Import List Arith ZArith Lia Bool.
Import ListNotations.
From GV Require Import Sched Events RcuModel RcuBase RcuListProofs.
Local Open Scope nat_scope.

(* ---------- stamps ---------- *)
Fixpoint stamp (l : list nat) (z : nat) : nat :=
  match l with [] => 0 | a :: r => if Nat.eqb a z then S (length r) else stamp r z end.

Lemma stamp_In l z : In z l -> 1 <= stamp l z <= length l.
Proof.
  induction l as [|a r IH]; [intros []|]. cbn. destruct (Nat.eqb_spec a z) as [->|Hne]; [lia|].
  intros [E|H]; [congruence|]. specialize (IH H). lia.
Qed.
Lemma stamp_notin l z : ~ In z l -> stamp l z = 0.
Proof.
  induction l as [|a r IH]; [reflexivity|]. cbn. intros H. destruct (Nat.eqb_spec a z) as [->|Hne]; [exfalso; auto|].
  apply IH. tauto.
Qed.
Lemma stamp_le l z : stamp l z <= length l.
Proof. induction l as [|a r IH]; cbn; [lia|]. destruct (Nat.eqb a z); lia. Qed.
Lemma stamp_inj l : forall a b, NoDup l -> In a l -> In b l -> stamp l a = stamp l b -> a = b.
Proof.
  induction l as [|x r IH]; intros a b ND Ha Hb; [destruct Ha|].
  apply NoDup_cons_iff in ND. destruct ND as [Hx NDr]. cbn.
  destruct (Nat.eqb_spec x a) as [Exa|Hxa]; destruct (Nat.eqb_spec x b) as [Exb|Hxb]; try congruence.
  - intros E. destruct Hb as [Hb|Hb]; [congruence|]. pose proof (stamp_In _ _ Hb). lia.
  - intros E. destruct Ha as [Ha|Ha]; [congruence|]. pose proof (stamp_In _ _ Ha). lia.
  - intros E. destruct Ha as [Ha|Ha]; [congruence|]. destruct Hb as [Hb|Hb]; [congruence|]. auto.
Qed.
Lemma stamp_cons_old z l c : In c l -> ~ In z l -> stamp (z :: l) c = stamp l c.
Proof. intros Hc Hz. cbn. destruct (Nat.eqb_spec z c) as [->|]; [contradiction|reflexivity]. Qed.
Lemma stamp_cons_new z l : stamp (z :: l) z = S (length l).
Proof. cbn. rewrite Nat.eqb_refl. reflexivity. Qed.

(* ---------- views ---------- *)
Definition zsq (g : glob) (z : nat) : nat := stamp (zlog g) z.
Definition zown (g : glob) (z : nat) : option nat := zowner (grec g z).
Definition znx (g : glob) (z : nat) : option nat := znext (grec g z).
Definition znd (g : glob) (z : nat) : option nat := znode (grec g z).
Definition inlog (g : glob) (z : nat) : Prop := In z (zlog g) /\ cs_of g z <> Some Freed.

Definition scan (g : glob) (a n : nat) : Prop :=
  inlog g n /\ zsq g n < zsq g a /\ forall c, inlog g c -> zsq g n < zsq g c < zsq g a -> zown g c = None.
Definition region (g : glob) (a n : nat) : Prop :=
  inlog g n /\ zsq g n < zsq g a /\ (forall c, inlog g c -> ~ (zsq g n < zsq g c < zsq g a)) /\
  (forall c, inlog g c -> zsq g c < zsq g a -> zown g c = None).
Definition oldest (g : glob) (a : nat) : Prop := forall c, inlog g c -> ~ zsq g c < zsq g a.
Definition link_ok (g : glob) (a : nat) : Prop :=
  match znx g a with
  | Some b => inlog g b /\ zsq g b < zsq g a /\ (forall c, inlog g c -> ~ (zsq g b < zsq g c < zsq g a))
  | None => oldest g a
  end.
Definition rpc (p : pc) : bool :=
  match p with U_dd _ _ | U_df _ _ | U_ln _ | U_zd _ _ | U_zf _ _ | U_stn => true | _ => false end.
Definition stale (g : glob) (ls : list loc) (a : nat) : Prop :=
  exists u w, hnd (locof ls u) = Some (w, Some a) /\ rpc (pcof ls u) = true.

Definition privR (g : glob) (z : nat) : Prop := isrec g z = true /\ ~ In z (zlog g).

(* what the pc of thread u (with local state l) knows *)
Definition thrB (g : glob) (u : nat) (l : loc) : Prop :=
  let a := own_rec l in
  match at_ l with
  | R_alloc _ => exists w, hnd l = Some (w, None)
  | R_constr _ z => privR g z /\ cs_of g z = Some Alloc /\ exists w, hnd l = Some (w, None)
  | R_ldh _ z | R_st _ z _ =>
      privR g z /\ cs_of g z = Some Constr /\ znd g z = None /\
      exists w, hnd l = Some (w, None) /\ zown g z = Some (guard_of u w)
  | R_cas _ z old =>
      privR g z /\ cs_of g z = Some Constr /\ znd g z = None /\ znx g z = old /\
      exists w, hnd l = Some (w, None) /\ zown g z = Some (guard_of u w)
  | E_constr _ c _ z => privR g z /\ cs_of g z = Some Alloc /\ isnode g c = true
  | E_ldb _ c _ z | E_ldn _ c _ _ z | E_s1 _ c _ _ _ z | E_s2 _ c _ _ _ z =>
      privR g z /\ cs_of g z = Some Constr /\ zown g z = None /\ znd g z = Some c /\ isnode g c = true
  | E_ldz _ _ z | E_stz _ _ z _ =>
      privR g z /\ cs_of g z = Some Constr /\ zown g z = None /\ exists k, znd g z = Some k /\ isnode g k = true
  | E_cas _ _ z old =>
      privR g z /\ cs_of g z = Some Constr /\ zown g z = None /\ znx g z = old /\ exists k, znd g z = Some k /\ isnode g k = true
  | U_own n cached => scan g a n /\ cached = znx g a
  | U_nx n cached => scan g a n /\ zown g n = None /\ cached = znx g a
  | U_dd n d => region g a n /\ cs_of g n = Some Constr /\ d = znd g n
  | U_df n d => region g a n /\ cs_of g n = Some Constr /\ d = znd g n
  | U_ln n => region g a n /\ cs_of g n = Some Constr
  | U_zd n nxt => region g a n /\ cs_of g n = Some Constr /\ nxt = znx g n
  | U_zf n nxt => region g a n /\ cs_of g n = Some Destr /\ nxt = znx g n
  | U_stn => oldest g a
  | _ => True
  end.

Record InvB (g : glob) (ls : list loc) : Prop := {
  b_nodup : NoDup (zlog g);
  b_rec : forall z, In z (zlog g) -> isrec g z = true;
  b_cs : forall z, In z (zlog g) ->
         cs_of g z = Some Constr \/ cs_of g z = Some Freed \/
         (cs_of g z = Some Destr /\ exists u nxt, pcof ls u = U_zf z nxt);
  b_head : zhead g = hd_opt (zlog g);
  b_top : forall h, zhead g = Some h -> cs_of g h = Some Constr;
  b_link : forall a, inlog g a -> ~ stale g ls a -> link_ok g a;
  b_own1 : forall u w z, hnd (locof ls u) = Some (w, Some z) ->
           In z (zlog g) /\ cs_of g z = Some Constr /\ zown g z = Some (guard_of u w);
  b_own2 : forall z gd, inlog g z -> zown g z = Some gd ->
           exists u w, gd = guard_of u w /\ hnd (locof ls u) = Some (w, Some z);
  b_node : forall z k, In z (zlog g) -> znd g z = Some k -> isnode g k = true;
  b_priv : forall u v z, priv_rec (pcof ls u) = Some z -> priv_rec (pcof ls v) = Some z -> u = v;
  b_thr : forall u l, nth_error ls u = Some l -> thrB g u l
}.

Lemma guard_of_inj u w u' w' : guard_of u w = guard_of u' w' -> u = u' /\ w = w'.
Proof. unfold guard_of. destruct w, w'; intros H; split; try lia; try reflexivity. Qed.

Lemma inlog_In g z : inlog g z -> In z (zlog g).
Proof. intros [H _]. exact H. Qed.
Lemma zsq_pos g z : In z (zlog g) -> 1 <= zsq g z <= length (zlog g).
Proof. apply stamp_In. Qed.
Lemma zsq_inj g ls a b : InvB g ls -> In a (zlog g) -> In b (zlog g) -> zsq g a = zsq g b -> a = b.
Proof. intros I. apply stamp_inj. apply (b_nodup _ _ I). Qed.

(* ---------- states that agree on the record world except possibly at one cell outside the log ---------- *)
Record recsame (g g' : glob) (z : option nat) : Prop := {
  rs_zlog : zlog g' = zlog g;
  rs_zhead : zhead g' = zhead g;
  rs_isrec : forall k, Some k <> z -> isrec g' k = isrec g k;
  rs_grec : forall k, Some k <> z -> grec g' k = grec g k;
  rs_cs : forall k, Some k <> z -> isrec g k = true -> cs_of g' k = cs_of g k;
  rs_isnode : forall k, isnode g k = true -> isnode g' k = true;
  rs_out : forall k, z = Some k -> ~ In k (zlog g)
}.

Section RecSame.
  Variables (g g' : glob) (z : option nat).
  Hypothesis S : recsame g g' z.
  Hypothesis Brec : forall k, In k (zlog g) -> isrec g k = true.

  Lemma rs_ne k : In k (zlog g) -> Some k <> z.
  Proof. intros H E. apply (rs_out _ _ _ S k); auto. Qed.
  Lemma rs_zsq k : zsq g' k = zsq g k.
  Proof. unfold zsq. rewrite (rs_zlog _ _ _ S). reflexivity. Qed.
  Lemma rs_zown k : Some k <> z -> zown g' k = zown g k.
  Proof. intros H. unfold zown. rewrite (rs_grec _ _ _ S k H). reflexivity. Qed.
  Lemma rs_znx k : Some k <> z -> znx g' k = znx g k.
  Proof. intros H. unfold znx. rewrite (rs_grec _ _ _ S k H). reflexivity. Qed.
  Lemma rs_znd k : Some k <> z -> znd g' k = znd g k.
  Proof. intros H. unfold znd. rewrite (rs_grec _ _ _ S k H). reflexivity. Qed.
  Lemma rs_inlog k : inlog g' k <-> inlog g k.
  Proof.
    unfold inlog. rewrite (rs_zlog _ _ _ S). split; intros [A B]; split; auto.
    - rewrite <- (rs_cs _ _ _ S k (rs_ne k A) (Brec k A)). exact B.
    - rewrite (rs_cs _ _ _ S k (rs_ne k A) (Brec k A)). exact B.
  Qed.
  Lemma rs_scan a n : In a (zlog g) -> scan g a n -> scan g' a n.
  Proof.
    intros Ha (A & B & C). unfold scan. rewrite !rs_zsq. split; [apply rs_inlog; exact A|split; [exact B|]].
    intros c Hc Hs. rewrite !rs_zsq in Hs. apply rs_inlog in Hc. rewrite rs_zown by (apply rs_ne, inlog_In; exact Hc). auto.
  Qed.
  Lemma rs_region a n : region g a n -> region g' a n.
  Proof.
    intros (A & B & C & D). unfold region. rewrite !rs_zsq. split; [apply rs_inlog; exact A|split; [exact B|split]].
    - intros c Hc. rewrite !rs_zsq. apply rs_inlog in Hc. auto.
    - intros c Hc Hs. rewrite !rs_zsq in Hs. apply rs_inlog in Hc. rewrite rs_zown by (apply rs_ne, inlog_In; exact Hc). auto.
  Qed.
  Lemma rs_oldest a : oldest g a -> oldest g' a.
  Proof. intros H c Hc. rewrite !rs_zsq. apply rs_inlog in Hc. auto. Qed.
  Lemma rs_link a : In a (zlog g) -> link_ok g a -> link_ok g' a.
  Proof.
    intros Ha H. unfold link_ok in *. rewrite rs_znx by (apply rs_ne; exact Ha).
    destruct (znx g a) as [b|]; [|apply rs_oldest; exact H].
    destruct H as (A & B & C). rewrite !rs_zsq. split; [apply rs_inlog; exact A|split; [exact B|]].
    intros c Hc. rewrite !rs_zsq. apply rs_inlog in Hc. auto.
  Qed.

  (* a thread whose private record is not the modified cell keeps what its pc knows *)
  Lemma thrB_recsame u l :
    (forall k, priv_rec (at_ l) = Some k -> Some k <> z) ->
    (in_unlock (at_ l) = true -> In (own_rec l) (zlog g)) ->
    (forall n, match at_ l with U_own m _ | U_nx m _ | U_dd m _ | U_df m _ | U_ln m | U_zd m _ | U_zf m _ => m = n | _ => False end -> True) ->
    thrB g u l -> thrB g' u l.
  Proof.
    intros Hp Ha _ H. unfold thrB in *. destruct (at_ l) eqn:E; auto; cbn [priv_rec in_unlock] in Hp, Ha.
    all: try (assert (Hz : Some z0 <> z) by (apply Hp; reflexivity)).
    all: try (specialize (Ha eq_refl)).
    all: unfold privR in *; rewrite ?(rs_zlog _ _ _ S).
    (* private records *)
    all: try (assert (P1 : isrec g z0 = true) by tauto;
              rewrite (rs_isrec _ _ _ S z0 Hz), (rs_cs _ _ _ S z0 Hz P1), ?rs_zown, ?rs_znd, ?rs_znx by exact Hz;
              repeat match goal with H : _ /\ _ |- _ => destruct H | H : exists _, _ |- _ => destruct H end;
              repeat (first [split | eexists]); eauto using (rs_isnode _ _ _ S); fail).
    (* scanning / reclaiming *)
    all: try (destruct H as (P1 & P2); split; [apply rs_scan; auto|];
              rewrite rs_znx by (apply rs_ne; exact Ha); exact P2).
    all: try (destruct H as (P1 & P2 & P3); split; [apply rs_scan; auto|]; destruct P1 as (Q1 & _);
              rewrite rs_znx by (apply rs_ne; exact Ha); rewrite rs_zown by (apply rs_ne, inlog_In; exact Q1); auto).
    all: try (destruct H as (P1 & P2 & P3); pose proof P1 as (Q1 & _); pose proof (inlog_In _ _ Q1) as Q2;
              split; [apply rs_region; auto|];
              rewrite (rs_cs _ _ _ S n (rs_ne n Q2) (Brec n Q2)), ?rs_znd, ?rs_znx by (apply rs_ne; exact Q2); auto).
    all: try (destruct H as (P1 & P2); pose proof P1 as (Q1 & _); pose proof (inlog_In _ _ Q1) as Q2;
              split; [apply rs_region; auto|];
              rewrite (rs_cs _ _ _ S n (rs_ne n Q2) (Brec n Q2)); auto).
    all: try (apply rs_oldest; exact H).
  Qed.
End RecSame.

Lemma own_in_log g ls u l : InvA g ls -> InvB g ls -> nth_error ls u = Some l ->
  in_unlock (at_ l) = true -> In (own_rec l) (zlog g) /\ exists w, hnd l = Some (w, Some (own_rec l)).
Proof.
  intros IA IB Hl Hu. destruct (t_unl _ _ (a_thr _ _ IA u l Hl) Hu) as (w & z & Eh).
  unfold own_rec. rewrite Eh. split; [|eauto].
  apply (b_own1 _ _ IB u w z). rewrite (locof_at _ _ _ Hl). exact Eh.
Qed.

(* the general frame lemma: thread t moves from l to l', the record world changes at most at one cell
   [zc] that is outside the log and private to nobody else *)
Lemma InvB_frame g g' ls t l l' zc :
  InvA g ls -> InvB g ls -> nth_error ls t = Some l -> recsame g g' zc ->
  (forall u lu k, u <> t -> nth_error ls u = Some lu -> priv_rec (at_ lu) = Some k -> Some k <> zc) ->
  (forall w z, hnd l' = Some (w, Some z) <-> hnd l = Some (w, Some z)) ->
  (rpc (at_ l) = true -> rpc (at_ l') = true) ->
  (forall z nxt, at_ l = U_zf z nxt -> at_ l' = U_zf z nxt) ->
  (forall k, priv_rec (at_ l') = Some k -> priv_rec (at_ l) = Some k \/
             (forall v lv, v <> t -> nth_error ls v = Some lv -> priv_rec (at_ lv) <> Some k)) ->
  thrB g' t l' ->
  InvB g' (upd ls t l').
Proof.
  intros IA IB Hl S Hoth Hh Hr Hzf Hp Ht.
  pose proof (b_rec _ _ IB) as Brec.
  assert (Ein : forall k, inlog g' k <-> inlog g k) by (intros k; apply (rs_inlog g g' zc S Brec)).
  assert (Ene : forall k, In k (zlog g) -> Some k <> zc) by (intros k; apply (rs_ne g g' zc S)).
  assert (Eloc : forall u, u <> t -> locof (upd ls t l') u = locof ls u).
  { intros u Hu. rewrite (locof_upd _ _ _ _ _ Hl). destruct (Nat.eqb_spec u t); [contradiction|reflexivity]. }
  assert (Eloct : locof (upd ls t l') t = l') by (rewrite (locof_upd _ _ _ _ _ Hl), Nat.eqb_refl; reflexivity).
  assert (Elt : locof ls t = l) by (apply locof_at; exact Hl).
  constructor.
  - rewrite (rs_zlog _ _ _ S). apply (b_nodup _ _ IB).
  - intros z Hz. rewrite (rs_zlog _ _ _ S) in Hz. rewrite (rs_isrec _ _ _ S z (Ene z Hz)). apply Brec. exact Hz.
  - intros z Hz. rewrite (rs_zlog _ _ _ S) in Hz. rewrite (rs_cs _ _ _ S z (Ene z Hz) (Brec z Hz)).
    destruct (b_cs _ _ IB z Hz) as [A|[A|(A & u & nxt & B)]]; auto. right. right. split; [exact A|].
    exists u, nxt. rewrite (pcof_upd _ _ _ _ _ Hl). destruct (Nat.eqb_spec u t) as [->|]; [|exact B].
    apply Hzf. rewrite <- (pcof_at _ _ _ Hl). exact B.
  - rewrite (rs_zhead _ _ _ S), (rs_zlog _ _ _ S). apply (b_head _ _ IB).
  - intros h Hh0. rewrite (rs_zhead _ _ _ S) in Hh0. pose proof (b_top _ _ IB h Hh0) as A.
    assert (In h (zlog g)) as Hin.
    { pose proof (b_head _ _ IB) as E. rewrite Hh0 in E. destruct (zlog g); [discriminate|]. cbn in E. inversion E. left. reflexivity. }
    rewrite (rs_cs _ _ _ S h (Ene h Hin) (Brec h Hin)). exact A.
  - intros a Ha Hns. apply Ein in Ha. apply (rs_link g g' zc S Brec a (inlog_In _ _ Ha)). apply (b_link _ _ IB a Ha).
    intros (u & w & A & B). apply Hns. exists u, w. unfold pcof in *. destruct (Nat.eq_dec u t) as [->|Hu].
    + rewrite Eloct. rewrite Elt in A, B. split; [apply Hh; exact A|apply Hr; exact B].
    + rewrite (Eloc u Hu). auto.
  - intros u w z Hz. assert (hnd (locof ls u) = Some (w, Some z)) as Hz'.
    { destruct (Nat.eq_dec u t) as [->|Hu]; [rewrite Eloct in Hz; rewrite Elt; apply Hh; exact Hz|rewrite (Eloc u Hu) in Hz; exact Hz]. }
    destruct (b_own1 _ _ IB u w z Hz') as (A & B & C). rewrite (rs_zlog _ _ _ S).
    rewrite (rs_cs _ _ _ S z (Ene z A) (Brec z A)), (rs_zown g g' zc S z (Ene z A)). auto.
  - intros z gd Hz Hg. apply Ein in Hz. rewrite (rs_zown g g' zc S z (Ene z (inlog_In _ _ Hz))) in Hg.
    destruct (b_own2 _ _ IB z gd Hz Hg) as (u & w & A & B). exists u, w. split; [exact A|].
    destruct (Nat.eq_dec u t) as [->|Hu]; [rewrite Eloct; rewrite Elt in B; apply Hh; exact B|rewrite (Eloc u Hu); exact B].
  - intros z k Hz Hk. rewrite (rs_zlog _ _ _ S) in Hz. rewrite (rs_znd g g' zc S z (Ene z Hz)) in Hk.
    apply (rs_isnode _ _ _ S). apply (b_node _ _ IB z k Hz Hk).
  - intros u v z Hu Hv. rewrite (pcof_upd _ _ _ _ _ Hl) in Hu. rewrite (pcof_upd _ _ _ _ _ Hl) in Hv.
    destruct (Nat.eqb_spec u t) as [->|Hut]; destruct (Nat.eqb_spec v t) as [->|Hvt]; auto.
    + destruct (Hp z Hu) as [A|A].
      * apply (b_priv _ _ IB t v z); [rewrite (pcof_at _ _ _ Hl); exact A|exact Hv].
      * exfalso. unfold pcof, locof in Hv. destruct (nth_error ls v) as [lv|] eqn:Ev; [|discriminate]. apply (A v lv Hvt Ev). exact Hv.
    + destruct (Hp z Hv) as [A|A].
      * apply (b_priv _ _ IB u t z); [exact Hu|rewrite (pcof_at _ _ _ Hl); exact A].
      * exfalso. unfold pcof, locof in Hu. destruct (nth_error ls u) as [lu|] eqn:Eu; [|discriminate]. apply (A u lu Hut Eu). exact Hu.
    + apply (b_priv _ _ IB u v z); auto.
  - intros u lu Hu. apply nth_upd in Hu. destruct Hu as [(-> & -> & _)|(Hne & Hu)]; [exact Ht|].
    apply (thrB_recsame g g' zc S Brec u lu); auto.
    + intros k Hk. apply (Hoth u lu k); auto.
    + intros Hul. apply (own_in_log g ls u lu IA IB Hu Hul).
    + apply (b_thr _ _ IB u lu Hu).
Qed.

(* ---------- exclusivity ---------- *)
Definition region_pc (p : pc) : option nat :=
  match p with U_dd n _ | U_df n _ | U_ln n | U_zd n _ | U_zf n _ => Some n | _ => None end.
Lemma region_of g u l n : thrB g u l -> region_pc (at_ l) = Some n -> region g (own_rec l) n.
Proof. unfold thrB. destruct (at_ l); cbn; intros H E; inversion E; subst; tauto. Qed.

Section Excl.
  Variables (g : glob) (ls : list loc).
  Hypothesis IA : InvA g ls.
  Hypothesis IB : InvB g ls.

  Lemma own_facts u l : nth_error ls u = Some l -> in_unlock (at_ l) = true ->
    inlog g (own_rec l) /\ zown g (own_rec l) <> None /\ exists w, hnd l = Some (w, Some (own_rec l)).
  Proof.
    intros Hl Hu. destruct (own_in_log g ls u l IA IB Hl Hu) as [Hin (w & Eh)].
    destruct (b_own1 _ _ IB u w (own_rec l)) as (A & B & C); [rewrite (locof_at _ _ _ Hl); exact Eh|].
    split; [split; [exact A|congruence]|]. split; [congruence|eauto].
  Qed.
  Lemma own_distinct u v lu lv : nth_error ls u = Some lu -> nth_error ls v = Some lv ->
    in_unlock (at_ lu) = true -> in_unlock (at_ lv) = true -> own_rec lu = own_rec lv -> u = v.
  Proof.
    intros Hu Hv Uu Uv E. destruct (own_in_log g ls u lu IA IB Hu Uu) as [_ (w & Eu)].
    destruct (own_in_log g ls v lv IA IB Hv Uv) as [_ (w' & Ev)].
    destruct (b_own1 _ _ IB u w (own_rec lu)) as (_ & _ & C); [rewrite (locof_at _ _ _ Hu); exact Eu|].
    destruct (b_own1 _ _ IB v w' (own_rec lv)) as (_ & _ & C'); [rewrite (locof_at _ _ _ Hv); exact Ev|].
    rewrite E in C. rewrite C in C'. inversion C' as [C'']. apply guard_of_inj in C''. tauto.
  Qed.
  Lemma region_pc_unlock p n : region_pc p = Some n -> in_unlock p = true.
  Proof. destruct p; cbn; intros; congruence || reflexivity. Qed.

  (* an owned record on the log is never inside a reclaimer's region *)
  Lemma owned_above_region a n c : region g a n -> inlog g c -> zown g c <> None -> ~ zsq g c < zsq g a.
  Proof. intros (_ & _ & _ & H) Hc Ho Hlt. apply Ho. apply H; auto. Qed.

  (* at most one thread is reclaiming *)
  Lemma one_reclaimer u v lu lv n m : nth_error ls u = Some lu -> nth_error ls v = Some lv ->
    region_pc (at_ lu) = Some n -> region_pc (at_ lv) = Some m -> u = v.
  Proof.
    intros Hu Hv Ru Rv.
    pose proof (region_of g u lu n (b_thr _ _ IB u lu Hu) Ru) as Gu.
    pose proof (region_of g v lv m (b_thr _ _ IB v lv Hv) Rv) as Gv.
    destruct (own_facts u lu Hu (region_pc_unlock _ _ Ru)) as (Iu & Ou & _).
    destruct (own_facts v lv Hv (region_pc_unlock _ _ Rv)) as (Iv & Ov & _).
    destruct (Nat.lt_trichotomy (zsq g (own_rec lu)) (zsq g (own_rec lv))) as [L|[E|L]].
    - exfalso. apply (owned_above_region _ _ _ Gv Iu Ou L).
    - apply (own_distinct u v lu lv Hu Hv (region_pc_unlock _ _ Ru) (region_pc_unlock _ _ Rv)).
      apply (zsq_inj g ls _ _ IB (inlog_In _ _ Iu) (inlog_In _ _ Iv) E).
    - exfalso. apply (owned_above_region _ _ _ Gu Iv Ov L).
  Qed.

  (* a record that some thread owns (its handle is alive) is not the pointer of a reclaimer *)
  Lemma owned_not_pointer u lu n c : nth_error ls u = Some lu -> region_pc (at_ lu) = Some n ->
    inlog g c -> zown g c <> None -> c <> n.
  Proof.
    intros Hu Ru Hc Ho ->. pose proof (region_of g u lu n (b_thr _ _ IB u lu Hu) Ru) as (A & B & _ & D).
    apply Ho. apply D; auto.
  Qed.

  (* the pointer of a scanning thread is not below the own record of a reclaimer *)
  Lemma scan_above_region u v lu lv n b m : u <> v ->
    nth_error ls u = Some lu -> region_pc (at_ lu) = Some n ->
    nth_error ls v = Some lv -> in_unlock (at_ lv) = true -> b = own_rec lv -> scan g b m ->
    ~ zsq g m < zsq g (own_rec lu).
  Proof.
    intros Huv Hu Ru Hv Uv -> (Sm & Sl & Sb) Hlt.
    pose proof (region_of g u lu n (b_thr _ _ IB u lu Hu) Ru) as Gu.
    destruct (own_facts u lu Hu (region_pc_unlock _ _ Ru)) as (Iu & Ou & _).
    destruct (own_facts v lv Hv Uv) as (Iv & Ov & _).
    destruct (Nat.lt_trichotomy (zsq g (own_rec lu)) (zsq g (own_rec lv))) as [L|[E|L]].
    - apply Ou. apply Sb; [exact Iu|lia].
    - apply Huv. apply (own_distinct u v lu lv Hu Hv (region_pc_unlock _ _ Ru) Uv).
      apply (zsq_inj g ls _ _ IB (inlog_In _ _ Iu) (inlog_In _ _ Iv) E).
    - apply (owned_above_region _ _ _ Gu Iv Ov L).
  Qed.

  Lemma unowned_not_stale a : inlog g a -> zown g a = None -> ~ stale g ls a.
  Proof.
    intros Ha Ho (u & w & A & _). destruct (b_own1 _ _ IB u w a A) as (_ & _ & C). congruence.
  Qed.
  Lemma own_not_stale u l : nth_error ls u = Some l -> in_unlock (at_ l) = true -> rpc (at_ l) = false -> ~ stale g ls (own_rec l).
  Proof.
    intros Hl Hu Hr (v & w & A & B).
    destruct (own_in_log g ls u l IA IB Hl Hu) as [_ (w' & Eh)].
    destruct (b_own1 _ _ IB v w (own_rec l) A) as (_ & _ & C).
    destruct (b_own1 _ _ IB u w' (own_rec l)) as (_ & _ & C'); [rewrite (locof_at _ _ _ Hl); exact Eh|].
    rewrite C in C'. inversion C' as [C'']. apply guard_of_inj in C''. destruct C'' as [-> _].
    rewrite (pcof_at _ _ _ Hl) in B. congruence.
  Qed.
End Excl.

(* ---------- what a thread's pc knowledge survives ---------- *)
Definition scan_pc (p : pc) : option nat := match p with U_own m _ | U_nx m _ => Some m | _ => None end.

Lemma thrB_env g g' u l :
  (forall c, In c (zlog g) -> In c (zlog g') /\ zsq g' c = zsq g c) ->
  (forall c, inlog g' c -> inlog g c \/ (~ In c (zlog g) /\ forall a, In a (zlog g) -> zsq g' a < zsq g' c)) ->
  (forall c, inlog g c -> zown g c = None -> zown g' c = None) ->
  (forall k, isnode g k = true -> isnode g' k = true) ->
  (forall z, priv_rec (at_ l) = Some z ->
     isrec g' z = isrec g z /\ cs_of g' z = cs_of g z /\ grec g' z = grec g z /\ (In z (zlog g') -> In z (zlog g))) ->
  (in_unlock (at_ l) = true -> In (own_rec l) (zlog g) /\ znx g' (own_rec l) = znx g (own_rec l)) ->
  (forall m, scan_pc (at_ l) = Some m -> inlog g m -> inlog g' m) ->
  (forall n, region_pc (at_ l) = Some n -> cs_of g' n = cs_of g n /\ grec g' n = grec g n) ->
  thrB g u l -> thrB g' u l.
Proof.
  intros Hz Hin Hun Hnode Hpriv Hown Hscan Hreg H.
  assert (Sq : forall c, inlog g c -> zsq g' c = zsq g c) by (intros c Hc; apply Hz, inlog_In; exact Hc).
  assert (Big : forall a c, In a (zlog g) -> inlog g' c -> ~ inlog g c -> zsq g a < zsq g' c).
  { intros a c Ha Hc Hn. destruct (Hin c Hc) as [A|[_ A]]; [contradiction|]. rewrite <- (proj2 (Hz a Ha)). apply A. exact Ha. }
  assert (Scan : forall a n, In a (zlog g) -> inlog g' n -> scan g a n -> scan g' a n).
  { intros a n Ha Hn' (A & B & C). unfold scan. rewrite (Sq n A), (proj2 (Hz a Ha)). split; [exact Hn'|split; [exact B|]].
    intros c Hc Hs. destruct (Hin c Hc) as [Hc0|[Hc0 Hc1]].
    - rewrite (Sq c Hc0) in Hs. apply Hun; auto.
    - exfalso. specialize (Hc1 a Ha). rewrite (proj2 (Hz a Ha)) in Hc1. lia. }
  assert (Reg : forall a n, In a (zlog g) -> inlog g' n -> region g a n -> region g' a n).
  { intros a n Ha Hn' (A & B & C & D). unfold region. rewrite (Sq n A), (proj2 (Hz a Ha)). split; [exact Hn'|split; [exact B|split]].
    - intros c Hc Hs. destruct (Hin c Hc) as [Hc0|[Hc0 Hc1]].
      + rewrite (Sq c Hc0) in Hs. apply (C c Hc0 Hs).
      + specialize (Hc1 a Ha). rewrite (proj2 (Hz a Ha)) in Hc1. lia.
    - intros c Hc Hs. destruct (Hin c Hc) as [Hc0|[Hc0 Hc1]].
      + rewrite (Sq c Hc0) in Hs. apply Hun; auto.
      + exfalso. specialize (Hc1 a Ha). rewrite (proj2 (Hz a Ha)) in Hc1. lia. }
  assert (Old : forall a, In a (zlog g) -> oldest g a -> oldest g' a).
  { intros a Ha Ho c Hc Hs. rewrite (proj2 (Hz a Ha)) in Hs. destruct (Hin c Hc) as [Hc0|[Hc0 Hc1]].
    - rewrite (Sq c Hc0) in Hs. apply (Ho c Hc0 Hs).
    - specialize (Hc1 a Ha). rewrite (proj2 (Hz a Ha)) in Hc1. lia. }
  unfold thrB in *. destruct (at_ l) eqn:E; auto; cbn [priv_rec in_unlock scan_pc region_pc] in *.
  (* private records *)
  all: try (destruct (Hpriv z eq_refl) as (Q1 & Q2 & Q3 & Q4); unfold privR, zown, znx, znd in *; rewrite Q1, Q2, Q3;
            repeat match goal with H : _ /\ _ |- _ => destruct H | H : exists _, _ |- _ => destruct H end;
            repeat (first [split | eexists]); eauto; fail).
  all: try (destruct (Hpriv z eq_refl) as (Q1 & Q2 & Q3 & Q4); unfold privR, zown, znx, znd in *; rewrite ?Q1, ?Q2, ?Q3;
            intuition eauto; fail).
  (* scanning *)
  all: try (destruct (Hown eq_refl) as [Ha Hx]).
  all: try rewrite Hx.
  all: try (destruct H as (P1 & P2); split; [apply Scan; auto; apply (Hscan n eq_refl); apply P1|exact P2]).
  all: try (destruct H as (P1 & P2 & P3); split; [apply Scan; auto; apply (Hscan n eq_refl); apply P1|split; [|exact P3]];
            apply Hun; [apply P1|exact P2]).
  (* reclaiming *)
  all: try (destruct (Hreg n eq_refl) as [R1 R2]; unfold znd, znx; rewrite ?R1, ?R2).
  all: try (assert (inlog g' n) as Hn' by
              (destruct H as (((N1 & N2) & _) & _); split; [apply Hz; exact N1|rewrite R1; exact N2])).
  all: try (destruct H as (P1 & P2 & P3); split; [apply Reg; auto|split; [exact P2|exact P3]]).
  all: try (destruct H as (P1 & P2); split; [apply Reg; auto|exact P2]).
  all: try (apply Old; auto).
Qed.

(* ---------- updates of one record cell that is on the log ---------- *)
Record onecell (g g' : glob) (k : nat) : Prop := {
  oc_zlog : zlog g' = zlog g;
  oc_zhead : zhead g' = zhead g;
  oc_isrec : forall j, isrec g' j = isrec g j;
  oc_isnode : forall j, isnode g' j = isnode g j;
  oc_grec : forall j, j <> k -> grec g' j = grec g j;
  oc_cs : forall j, j <> k -> cs_of g' j = cs_of g j
}.
Lemma onecell_destroy g k : onecell g (fst (do_destroy g k)) k /\ grec (fst (do_destroy g k)) k = grec g k.
Proof.
  destruct (destroy_fields g k) as (F1 & F2 & F3 & F4 & F5 & F6 & F7 & F8 & F9 & F10 & F11 & F12).
  split; [constructor; auto|apply grec_destroy].
  - intros j. apply isrec_destroy.
  - intros j. apply isnode_destroy.
  - intros j _. apply grec_destroy.
  - intros j Hj. rewrite cs_of_destroy. destruct (Nat.eqb_spec j k); [contradiction|reflexivity].
Qed.
Lemma onecell_dealloc g k : onecell g (fst (do_dealloc g k)) k /\ grec (fst (do_dealloc g k)) k = grec g k.
Proof.
  destruct (dealloc_fields g k) as (F1 & F2 & F3 & F4 & F5 & F6 & F7 & F8 & F9 & F10 & F11 & F12).
  split; [constructor; auto|apply grec_dealloc].
  - intros j. apply isrec_dealloc.
  - intros j. apply isnode_dealloc.
  - intros j _. apply grec_dealloc.
  - intros j Hj. rewrite cs_of_dealloc. destruct (Nat.eqb_spec j k); [contradiction|reflexivity].
Qed.
Lemma onecell_setz g k r : isrec g k = true -> onecell g (setz g k r) k /\ cs_of (setz g k r) k = cs_of g k /\ grec (setz g k r) k = r.
Proof.
  intros H. destruct (modc_fields g k (set_body (BRec r))) as (F1 & F2 & F3 & F4 & F5 & F6 & F7 & F8 & F9 & F10 & F11 & F12).
  split; [constructor; auto|split; [apply cs_of_setz|apply grec_setz_eq; apply isrec_lt; exact H]].
  - intros j. apply isrec_setz. exact H.
  - intros j. apply isnode_setz. exact H.
  - intros j Hj. apply grec_setz_ne. exact Hj.
  - intros j _. apply cs_of_setz.
Qed.
Lemma onecell_fault g g' k : onecell g g' k -> onecell g (with_fault g') k.
Proof. intros [A B C D E F]. constructor; auto. Qed.

Section OneCell.
  Variables (g g' : glob) (k : nat).
  Hypothesis O : onecell g g' k.
  Lemma oc_zsq c : zsq g' c = zsq g c.
  Proof. unfold zsq. rewrite (oc_zlog _ _ _ O). reflexivity. Qed.
  Lemma oc_zown c : c <> k -> zown g' c = zown g c.
  Proof. intros H. unfold zown. rewrite (oc_grec _ _ _ O c H). reflexivity. Qed.
  Lemma oc_znx c : c <> k -> znx g' c = znx g c.
  Proof. intros H. unfold znx. rewrite (oc_grec _ _ _ O c H). reflexivity. Qed.
  Lemma oc_znd c : c <> k -> znd g' c = znd g c.
  Proof. intros H. unfold znd. rewrite (oc_grec _ _ _ O c H). reflexivity. Qed.
  Lemma oc_inlog c : c <> k -> (inlog g' c <-> inlog g c).
  Proof. intros H. unfold inlog. rewrite (oc_zlog _ _ _ O), (oc_cs _ _ _ O c H). tauto. Qed.
End OneCell.

(* thread t moves from l to l' (inside the release code: no private record) while one cell k of the log changes *)
Lemma InvB_onecell g g' ls t l l' k :
  InvA g ls -> InvB g ls -> nth_error ls t = Some l -> onecell g g' k -> In k (zlog g) ->
  priv_rec (at_ l) = None -> priv_rec (at_ l') = None ->
  (hnd l' = hnd l \/ (hnd l' = None /\ exists w, hnd l = Some (w, Some k))) ->
  (forall z nxt, at_ l = U_zf z nxt -> z = k) ->
  (* cell k *)
  (cs_of g' k = Some Constr \/ cs_of g' k = Some Freed \/ (cs_of g' k = Some Destr /\ exists nxt, at_ l' = U_zf k nxt)) ->
  (zhead g = Some k -> cs_of g' k = Some Constr) ->
  (inlog g' k -> inlog g k) ->
  (zown g k = None -> zown g' k = None) ->
  (forall u w, hnd (locof (upd ls t l') u) = Some (w, Some k) -> cs_of g' k = Some Constr /\ zown g' k = Some (guard_of u w)) ->
  (forall gd, inlog g' k -> zown g' k = Some gd -> exists u w, gd = guard_of u w /\ hnd (locof (upd ls t l') u) = Some (w, Some k)) ->
  (znd g' k = znd g k) ->
  (* the links *)
  (forall a, inlog g' a -> ~ stale g' (upd ls t l') a -> link_ok g' a) ->
  (* other threads: k is not their pointer, unless they only look at it while scanning *)
  (forall u lu, u <> t -> nth_error ls u = Some lu ->
     (in_unlock (at_ lu) = true -> own_rec lu <> k \/ znx g' k = znx g k) /\
     (forall m, scan_pc (at_ lu) = Some m -> m = k -> inlog g k -> inlog g' k) /\
     (forall n, region_pc (at_ lu) = Some n -> n <> k)) ->
  thrB g' t l' ->
  InvB g' (upd ls t l').
Proof.
  intros IA IB Hl O Hk Hp Hp' Hh Hzf Hcs Htop Hin Hun Hown1 Hown2 Hznd Hlink Hoth Ht.
  pose proof (oc_zlog _ _ _ O) as EL.
  assert (Eloc : forall u, u <> t -> locof (upd ls t l') u = locof ls u).
  { intros u Hu. rewrite (locof_upd _ _ _ _ _ Hl). destruct (Nat.eqb_spec u t); [contradiction|reflexivity]. }
  assert (Eloct : locof (upd ls t l') t = l') by (rewrite (locof_upd _ _ _ _ _ Hl), Nat.eqb_refl; reflexivity).
  assert (Elt : locof ls t = l) by (apply locof_at; exact Hl).
  assert (Hhnd : forall u w z, z <> k -> hnd (locof (upd ls t l') u) = Some (w, Some z) -> hnd (locof ls u) = Some (w, Some z)).
  { intros u w z Hz H. destruct (Nat.eq_dec u t) as [->|Hu]; [|rewrite (Eloc u Hu) in H; exact H].
    rewrite Eloct in H. rewrite Elt. destruct Hh as [E|[E _]]; [rewrite <- E; exact H|congruence]. }
  assert (Hhnd' : forall u w z, z <> k -> hnd (locof ls u) = Some (w, Some z) -> hnd (locof (upd ls t l') u) = Some (w, Some z)).
  { intros u w z Hz H. destruct (Nat.eq_dec u t) as [->|Hu]; [|rewrite (Eloc u Hu); exact H].
    rewrite Eloct. rewrite Elt in H. destruct Hh as [E|[_ (w' & E)]]; [rewrite E; exact H|congruence]. }
  constructor.
  - rewrite EL. apply (b_nodup _ _ IB).
  - intros z Hz. rewrite EL in Hz. rewrite (oc_isrec _ _ _ O). apply (b_rec _ _ IB z Hz).
  - intros z Hz. rewrite EL in Hz. destruct (Nat.eq_dec z k) as [->|Hzk].
    + destruct Hcs as [A|[A|(A & nxt & B)]]; auto. right. right. split; [exact A|]. exists t, nxt.
      rewrite (pcof_upd _ _ _ _ _ Hl), Nat.eqb_refl. exact B.
    + rewrite (oc_cs _ _ _ O z Hzk). destruct (b_cs _ _ IB z Hz) as [A|[A|(A & u & nxt & B)]]; auto.
      right. right. split; [exact A|]. exists u, nxt. rewrite (pcof_upd _ _ _ _ _ Hl).
      destruct (Nat.eqb_spec u t) as [->|]; [|exact B]. exfalso. apply Hzk. apply (Hzf z nxt). rewrite <- (pcof_at _ _ _ Hl). exact B.
  - rewrite (oc_zhead _ _ _ O), EL. apply (b_head _ _ IB).
  - intros h Hh0. rewrite (oc_zhead _ _ _ O) in Hh0. destruct (Nat.eq_dec h k) as [->|Hhk]; [auto|].
    rewrite (oc_cs _ _ _ O h Hhk). apply (b_top _ _ IB h Hh0).
  - exact Hlink.
  - intros u w z Hz. destruct (Nat.eq_dec z k) as [->|Hzk].
    + destruct (Hown1 u w Hz) as [A B]. rewrite EL. auto.
    + destruct (b_own1 _ _ IB u w z (Hhnd u w z Hzk Hz)) as (A & B & C).
      rewrite EL, (oc_cs _ _ _ O z Hzk), (oc_zown _ _ _ O z Hzk). auto.
  - intros z gd Hz Hg. destruct (Nat.eq_dec z k) as [->|Hzk]; [apply Hown2; auto|].
    apply (oc_inlog _ _ _ O z Hzk) in Hz. rewrite (oc_zown _ _ _ O z Hzk) in Hg.
    destruct (b_own2 _ _ IB z gd Hz Hg) as (u & w & A & B). exists u, w. split; [exact A|apply Hhnd'; auto].
  - intros z j Hz Hj. rewrite EL in Hz. rewrite (oc_isnode _ _ _ O).
    destruct (Nat.eq_dec z k) as [->|Hzk]; [rewrite Hznd in Hj|rewrite (oc_znd _ _ _ O z Hzk) in Hj]; apply (b_node _ _ IB _ j Hz Hj).
  - intros u v z Hu Hv. rewrite (pcof_upd _ _ _ _ _ Hl) in Hu. rewrite (pcof_upd _ _ _ _ _ Hl) in Hv.
    destruct (Nat.eqb_spec u t) as [->|Hut]; [congruence|]. destruct (Nat.eqb_spec v t) as [->|Hvt]; [congruence|].
    apply (b_priv _ _ IB u v z); auto.
  - intros u lu Hu. apply nth_upd in Hu. destruct Hu as [(-> & -> & _)|(Hne & Hu)]; [exact Ht|].
    assert (Hut : u <> t) by auto.
    destruct (Hoth u lu Hut Hu) as (H1 & H2 & H3).
    apply (thrB_env g g' u lu); try (apply (b_thr _ _ IB u lu Hu)).
    + intros c Hc. rewrite EL. split; [exact Hc|apply (oc_zsq _ _ _ O)].
    + intros c Hc. left. destruct (Nat.eq_dec c k) as [->|Hck]; [auto|apply (oc_inlog _ _ _ O c Hck); exact Hc].
    + intros c Hc Ho. destruct (Nat.eq_dec c k) as [->|Hck]; [auto|rewrite (oc_zown _ _ _ O c Hck); exact Ho].
    + intros j. rewrite (oc_isnode _ _ _ O). auto.
    + intros z Hz. assert (z <> k) as Hzk.
      { intros ->. pose proof (b_thr _ _ IB u lu Hu) as T. unfold thrB in T.
        destruct (at_ lu); cbn in Hz; try discriminate; inversion Hz; subst; unfold privR in T; tauto. }
      rewrite (oc_isrec _ _ _ O), (oc_cs _ _ _ O z Hzk), (oc_grec _ _ _ O z Hzk), EL. tauto.
    + intros Hul. destruct (own_in_log g ls u lu IA IB Hu Hul) as [A _]. split; [exact A|].
      destruct (H1 Hul) as [B|B]; [apply (oc_znx _ _ _ O); exact B|].
      destruct (Nat.eq_dec (own_rec lu) k) as [->|Hne']; [exact B|apply (oc_znx _ _ _ O); exact Hne'].
    + intros m Hm Hi. destruct (Nat.eq_dec m k) as [->|Hmk]; [apply (H2 k Hm eq_refl Hi)|apply (oc_inlog _ _ _ O m Hmk); exact Hi].
    + intros n Hn. specialize (H3 n Hn). rewrite (oc_cs _ _ _ O n H3), (oc_grec _ _ _ O n H3). tauto.
Qed.

Lemma link_ok_same g g' a :
  (forall c, inlog g' c -> inlog g c) -> (forall c, zsq g' c = zsq g c) -> znx g' a = znx g a ->
  (forall b, znx g a = Some b -> inlog g' b) ->
  link_ok g a -> link_ok g' a.
Proof.
  intros Hi Hs Hx Hb H. unfold link_ok in *. rewrite Hx. destruct (znx g a) as [b|] eqn:E.
  - destruct H as (A & B & C). rewrite !Hs. split; [apply Hb; reflexivity|split; [exact B|]].
    intros c Hc. rewrite !Hs. apply C. apply Hi. exact Hc.
  - intros c Hc. rewrite !Hs. apply H. apply Hi. exact Hc.
Qed.
Lemma region_same g g' a n :
  (forall c, inlog g' c -> inlog g c) -> (forall c, zsq g' c = zsq g c) ->
  (forall c, inlog g' c -> zown g c = None -> zown g' c = None) -> inlog g' n ->
  region g a n -> region g' a n.
Proof.
  intros Hi Hs Ho Hn (A & B & C & D). unfold region. rewrite !Hs. split; [exact Hn|split; [exact B|split]].
  - intros c Hc. rewrite !Hs. apply C. apply Hi. exact Hc.
  - intros c Hc Hlt. rewrite Hs in Hlt. apply Ho; [exact Hc|]. apply D; [apply Hi; exact Hc|exact Hlt].
Qed.

Lemma head_stamp g ls h : InvB g ls -> zhead g = Some h -> In h (zlog g) /\ zsq g h = length (zlog g).
Proof.
  intros IB H. pose proof (b_head _ _ IB) as E. rewrite H in E. unfold zsq. destruct (zlog g) as [|x r]; [discriminate|].
  cbn in E. inversion E; subst x. split; [left; reflexivity|]. cbn. rewrite Nat.eqb_refl. reflexivity.
Qed.

(* ---------- U_zd: the record under the reclaimer's pointer is destroyed ---------- *)
Lemma stepB_U_zd g ls t pr n nxt h its0 :
  InvA g ls -> InvB g ls -> nth_error ls t = Some (Loc pr (U_zd n nxt) h its0) ->
  InvB (fst (do_destroy g n)) (upd ls t (Loc pr (U_zf n nxt) h its0)).
Proof.
  intros IA IB Hl. set (l := Loc pr (U_zd n nxt) h its0) in *. set (g' := fst (do_destroy g n)).
  pose proof (b_thr _ _ IB t l Hl) as T. unfold thrB in T. cbn [at_ l] in T. destruct T as (Rg & Cs & Enx).
  destruct (onecell_destroy g n) as [O Eg]. fold g' in O, Eg.
  pose proof Rg as (Rn & Rlt & Rbt & Run).
  assert (Ecs : cs_of g' n = Some Destr) by (unfold g'; rewrite cs_of_destroy, Nat.eqb_refl, Cs; reflexivity).
  assert (Hin : forall c, inlog g' c <-> inlog g c).
  { intros c. destruct (Nat.eq_dec c n) as [->|Hc]; [|apply (oc_inlog _ _ _ O c Hc)].
    unfold inlog. rewrite (oc_zlog _ _ _ O), Ecs, Cs. split; intros [A _]; split; auto; discriminate. }
  assert (Hgr : forall c, grec g' c = grec g c).
  { intros c. destruct (Nat.eq_dec c n) as [->|Hc]; [exact Eg|apply (oc_grec _ _ _ O c Hc)]. }
  destruct (own_facts g ls IA IB t l Hl eq_refl) as (Ia & Oa & (w & Eh)). cbn [hnd l] in Eh.
  eapply (InvB_onecell g g' ls t l _ n IA IB Hl O (inlog_In _ _ Rn)); try reflexivity.
  - left. reflexivity.
  - intros z nx0 E. discriminate.
  - right. right. split; [exact Ecs|]. exists nxt. reflexivity.
  - intros Hh. exfalso. destruct (head_stamp g ls n IB Hh) as [_ E]. pose proof (zsq_pos g _ (inlog_In _ _ Ia)). lia.
  - intros _. exact Rn.
  - intros Ho. unfold zown. rewrite Hgr. exact Ho.
  - intros u w0 Hu. exfalso. assert (hnd (locof ls u) = Some (w0, Some n)) as Hu'.
    { rewrite (locof_upd _ _ _ _ _ Hl) in Hu. destruct (Nat.eqb_spec u t) as [->|]; [rewrite (locof_at _ _ _ Hl); exact Hu|exact Hu]. }
    destruct (b_own1 _ _ IB u w0 n Hu') as (_ & _ & C). rewrite (Run n Rn Rlt) in C. discriminate.
  - intros gd _ Hg. exfalso. unfold zown in Hg. rewrite Hgr in Hg. fold (zown g n) in Hg. rewrite (Run n Rn Rlt) in Hg. discriminate.
  - unfold znd. rewrite Hgr. reflexivity.
  - intros a Ha Hns. apply Hin in Ha. apply (link_ok_same g g' a).
    + intros c Hc. apply Hin. exact Hc.
    + apply (oc_zsq _ _ _ O).
    + unfold znx. rewrite Hgr. reflexivity.
    + intros b Hb. apply Hin. pose proof (b_link _ _ IB a Ha) as L.
      assert (~ stale g ls a) as Hns'.
      { intros (u & w0 & A & B). apply Hns. exists u, w0. unfold pcof in *. rewrite (locof_upd _ _ _ _ _ Hl).
        destruct (Nat.eqb_spec u t) as [->|]; [|auto]. rewrite (locof_at _ _ _ Hl) in A, B. auto. }
      specialize (L Hns'). unfold link_ok in L. rewrite Hb in L. apply L.
    + apply (b_link _ _ IB a Ha). intros (u & w0 & A & B). apply Hns. exists u, w0. unfold pcof in *. rewrite (locof_upd _ _ _ _ _ Hl).
      destruct (Nat.eqb_spec u t) as [->|]; [|auto]. rewrite (locof_at _ _ _ Hl) in A, B. auto.
  - intros u lu Hut Hu. split; [|split].
    + intros Hul. left. destruct (own_facts g ls IA IB u lu Hu Hul) as (Iu & Ou & _).
      apply (owned_not_pointer g ls IB t l n (own_rec lu) Hl eq_refl Iu Ou).
    + intros m1 Hm1 E1 _. subst m1. apply Hin. exact Rn.
    + intros m' Hm' ->. apply Hut. apply (one_reclaimer g ls IA IB u t lu l n n Hu Hl Hm' eq_refl).
  - unfold thrB. cbn [at_ own_rec hnd]. split; [|split; [exact Ecs|unfold znx; rewrite Hgr; exact Enx]].
    apply (region_same g g'); auto.
    + intros c Hc. apply Hin. exact Hc.
    + apply (oc_zsq _ _ _ O).
    + intros c _ Ho. unfold zown. rewrite Hgr. exact Ho.
    + apply Hin. exact Rn.
Qed.

Lemma thrB_reclaim_at g u pr h its0 m :
  region g (own_rec (Loc pr Idle h its0)) m -> cs_of g m = Some Constr ->
  thrB g u (Loc pr (reclaim_at g m) h its0).
Proof.
  intros R C. unfold thrB, reclaim_at. cbn [at_]. unfold own_rec in *. cbn [hnd] in *.
  destruct (znode (grec g m)) as [d|] eqn:E; [|destruct (unfixed g)]; cbn; unfold znd; rewrite ?E; auto.
Qed.
Lemma rpc_reclaim_at g m : rpc (reclaim_at g m) = true.
Proof. unfold reclaim_at. destruct (znode (grec g m)); [reflexivity|destruct (unfixed g); reflexivity]. Qed.
Lemma not_zf_reclaim_at g m z nxt : reclaim_at g m = U_zf z nxt -> False.
Proof. unfold reclaim_at. destruct (znode (grec g m)); [discriminate|destruct (unfixed g); discriminate]. Qed.

(* the pointer of a reclaimer is Constr unless it is the reclaimer's own U_zf pointer *)
Lemma inlog_constr g ls t l m : InvA g ls -> InvB g ls -> nth_error ls t = Some l ->
  in_unlock (at_ l) = true -> region_pc (at_ l) <> Some m ->
  (forall u lu n, u <> t -> nth_error ls u = Some lu -> region_pc (at_ lu) = Some n -> False) ->
  inlog g m -> cs_of g m = Some Constr.
Proof.
  intros IA IB Hl Hu Hm Hone [A B]. destruct (b_cs _ _ IB m A) as [C|[C|(C & u & nxt & D)]]; [exact C|congruence|].
  exfalso. destruct (Nat.eq_dec u t) as [->|Hut].
  - rewrite (pcof_at _ _ _ Hl) in D. apply Hm. rewrite D. reflexivity.
  - unfold pcof, locof in D. destruct (nth_error ls u) as [lu|] eqn:Eu; [|discriminate].
    apply (Hone u lu m Hut Eu). rewrite D. reflexivity.
Qed.

(* ---------- U_zf: the record under the pointer is deallocated; the pointer moves on ---------- *)
Lemma stepB_U_zf g ls t pr n nxt h its0 :
  InvA g ls -> InvB g ls -> nth_error ls t = Some (Loc pr (U_zf n nxt) h its0) ->
  let g' := fst (do_dealloc g n) in
  InvB g' (upd ls t (Loc pr (match nxt with Some m => reclaim_at g' m | None => U_stn end) h its0)).
Proof.
  intros IA IB Hl g'. set (l := Loc pr (U_zf n nxt) h its0) in *.
  pose proof (b_thr _ _ IB t l Hl) as T. unfold thrB in T. cbn [at_ l] in T. destruct T as (Rg & Cs & Enx).
  destruct (onecell_dealloc g n) as [O Eg]. fold g' in O, Eg.
  pose proof Rg as (Rn & Rlt & Rbt & Run).
  assert (Ecs : cs_of g' n = Some Freed) by (unfold g'; rewrite cs_of_dealloc, Nat.eqb_refl, Cs; reflexivity).
  assert (Hin : forall c, inlog g' c <-> (inlog g c /\ c <> n)).
  { intros c. destruct (Nat.eq_dec c n) as [->|Hc].
    - unfold inlog. rewrite Ecs. split; [intros [_ A]; congruence|tauto].
    - rewrite (oc_inlog _ _ _ O c Hc). tauto. }
  assert (Hgr : forall c, grec g' c = grec g c).
  { intros c. destruct (Nat.eq_dec c n) as [->|Hc]; [exact Eg|apply (oc_grec _ _ _ O c Hc)]. }
  assert (Hsq : forall c, zsq g' c = zsq g c) by (apply (oc_zsq _ _ _ O)).
  destruct (own_facts g ls IA IB t l Hl eq_refl) as (Ia & Oa & (w & Eh)). cbn [hnd l] in Eh.
  set (a := own_rec l) in *.
  assert (Hone : forall u lu m, u <> t -> nth_error ls u = Some lu -> region_pc (at_ lu) = Some m -> False).
  { intros u lu m Hut Hu Hm. apply Hut. apply (one_reclaimer g ls IA IB u t lu l m n Hu Hl Hm eq_refl). }
  assert (Hnst : ~ stale g ls n) by (apply (unowned_not_stale g ls IB n Rn); apply (Run n Rn Rlt)).
  pose proof (b_link _ _ IB n Rn Hnst) as Ln. unfold link_ok in Ln. rewrite <- Enx in Ln.
  set (p' := match nxt with Some m => reclaim_at g' m | None => U_stn end).
  assert (Hrp : rpc p' = true) by (unfold p'; destruct nxt; [apply rpc_reclaim_at|reflexivity]).
  assert (Hstale : forall x, stale g ls x -> stale g' (upd ls t (Loc pr p' h its0)) x).
  { intros x (u & w0 & A & B). exists u, w0. unfold pcof in *. rewrite (locof_upd _ _ _ _ _ Hl).
    destruct (Nat.eqb_spec u t) as [->|]; [|auto]. rewrite (locof_at _ _ _ Hl) in A, B. cbn [hnd at_ l] in *. auto. }
  eapply (InvB_onecell g g' ls t l _ n IA IB Hl O (inlog_In _ _ Rn)); try reflexivity.
  - unfold p'. cbn [at_]. destruct nxt; [|reflexivity]. unfold reclaim_at. destruct (znode (grec g' n0)); [reflexivity|destruct (unfixed g'); reflexivity].
  - left. reflexivity.
  - intros z nx0 E. inversion E. reflexivity.
  - right. left. exact Ecs.
  - intros Hh. exfalso. destruct (head_stamp g ls n IB Hh) as [_ E]. pose proof (zsq_pos g _ (inlog_In _ _ Ia)). fold a in Rlt. lia.
  - intros Hi. apply Hin in Hi. tauto.
  - intros Ho. unfold zown. rewrite Hgr. exact Ho.
  - intros u w0 Hu. exfalso. assert (hnd (locof ls u) = Some (w0, Some n)) as Hu'.
    { rewrite (locof_upd _ _ _ _ _ Hl) in Hu. destruct (Nat.eqb_spec u t) as [->|]; [rewrite (locof_at _ _ _ Hl); exact Hu|exact Hu]. }
    destruct (b_own1 _ _ IB u w0 n Hu') as (_ & _ & C). rewrite (Run n Rn Rlt) in C. discriminate.
  - intros gd Hi _. exfalso. apply Hin in Hi. tauto.
  - unfold znd. rewrite Hgr. reflexivity.
  - (* links *)
    intros x Hx Hns. apply Hin in Hx. destruct Hx as [Hx Hxn].
    assert (~ stale g ls x) as Hns' by (intros S; apply Hns, Hstale, S).
    pose proof (b_link _ _ IB x Hx Hns') as L. unfold link_ok in *. unfold znx in *. rewrite Hgr.
    destruct (znext (grec g x)) as [b|] eqn:Eb.
    + destruct L as (A & B & C). rewrite !Hsq. assert (b <> n) as Hbn.
      { intros ->. apply Hns'. 
        destruct (Nat.lt_trichotomy (zsq g x) (zsq g a)) as [L1|[L1|L1]].
        - exfalso. apply (Rbt x Hx). lia.
        - assert (x = a) as Exa by (apply (zsq_inj g ls _ _ IB (inlog_In _ _ Hx) (inlog_In _ _ Ia) L1)). rewrite Exa.
          exists t, w. rewrite (locof_at _ _ _ Hl), (pcof_at _ _ _ Hl). split; [exact Eh|reflexivity].
        - exfalso. apply (C a Ia). lia. }
      split; [apply Hin; tauto|split; [exact B|]]. intros c Hc. rewrite !Hsq. apply C. apply Hin in Hc. tauto.
    + intros c Hc. rewrite !Hsq. apply L. apply Hin in Hc. tauto.
  - intros u lu Hut Hu. split; [|split].
    + intros Hul. left. destruct (own_facts g ls IA IB u lu Hu Hul) as (Iu & Ou & _).
      apply (owned_not_pointer g ls IB t l n (own_rec lu) Hl eq_refl Iu Ou).
    + intros m1 Hm1 E1 _. subst m1. exfalso.
      assert (in_unlock (at_ lu) = true) as Hul by (destruct (at_ lu); try discriminate; reflexivity).
      pose proof (b_thr _ _ IB u lu Hu) as Tu. unfold thrB in Tu.
      assert (scan g (own_rec lu) n) as Sc by (destruct (at_ lu); try discriminate; cbn in Hm1; injection Hm1 as E2; rewrite E2 in Tu; tauto).
      apply (scan_above_region g ls IA IB t u l lu n (own_rec lu) n); auto.
    + intros m' Hm' _. apply (Hone u lu m' Hut Hu Hm').
  - (* the new pointer *)
    unfold p'. destruct nxt as [m|].
    + destruct Ln as (Lm & Llt & Lbt).
      assert (Hmn : m <> n) by (intros ->; lia).
      assert (region g' a m) as Rm.
      { unfold region. rewrite !Hsq. split; [apply Hin; auto|split; [fold a in Rlt; lia|split]].
        - intros c Hc Hb. rewrite !Hsq in Hb. apply Hin in Hc. destruct Hc as [Hc Hcn].
          destruct (Nat.lt_trichotomy (zsq g c) (zsq g n)) as [L1|[L1|L1]].
          + apply (Lbt c Hc). lia.
          + apply Hcn. apply (zsq_inj g ls _ _ IB (inlog_In _ _ Hc) (inlog_In _ _ Rn) L1).
          + apply (Rbt c Hc). fold a. lia.
        - intros c Hc Hlt. rewrite Hsq in Hlt. apply Hin in Hc. unfold zown. rewrite Hgr. apply Run; tauto. }
      apply thrB_reclaim_at; [exact Rm|].
      rewrite (oc_cs _ _ _ O m Hmn).
      apply (inlog_constr g ls t l m IA IB Hl eq_refl); auto.
      cbn. intros E. inversion E. auto.
    + unfold thrB. cbn [at_]. intros c Hc Hlt. rewrite !Hsq in Hlt. apply Hin in Hc. destruct Hc as [Hc Hcn].
      destruct (Nat.lt_trichotomy (zsq g c) (zsq g n)) as [L1|[L1|L1]].
      * apply (Ln c Hc L1).
      * apply Hcn. apply (zsq_inj g ls _ _ IB (inlog_In _ _ Hc) (inlog_In _ _ Rn) L1).
      * apply (Rbt c Hc). change (zsq g c < zsq g a) in Hlt. lia.
Qed.

(* ---------- U_stn / U_sto: the releaser's last two stores to its own record ---------- *)
Lemma stepB_U_stn g ls t pr h its0 :
  InvA g ls -> InvB g ls -> nth_error ls t = Some (Loc pr U_stn h its0) ->
  let a := own_rec (Loc pr U_stn h its0) in
  InvB (setz g a (z_next (grec g a) None)) (upd ls t (Loc pr U_sto h its0)).
Proof.
  intros IA IB Hl a. set (l := Loc pr U_stn h its0) in *. set (g' := setz g a (z_next (grec g a) None)).
  pose proof (b_thr _ _ IB t l Hl) as T. unfold thrB in T. cbn [at_ l] in T. fold a in T.
  destruct (own_facts g ls IA IB t l Hl eq_refl) as (Ia & Oa & (w & Eh)). fold a in Ia, Oa, Eh. cbn [hnd l] in Eh.
  destruct (b_own1 _ _ IB t w a) as (_ & Ca & Za); [rewrite (locof_at _ _ _ Hl); exact Eh|].
  assert (Hra : isrec g a = true) by (apply (b_rec _ _ IB); apply (inlog_In _ _ Ia)).
  destruct (onecell_setz g a (z_next (grec g a) None) Hra) as (O & Ecs & Egr). fold g' in O, Ecs, Egr.
  assert (Hin : forall c, inlog g' c <-> inlog g c).
  { intros c. destruct (Nat.eq_dec c a) as [->|Hc]; [|apply (oc_inlog _ _ _ O c Hc)].
    unfold inlog. rewrite (oc_zlog _ _ _ O), Ecs. tauto. }
  assert (Hsq : forall c, zsq g' c = zsq g c) by (apply (oc_zsq _ _ _ O)).
  assert (Hzo : forall c, zown g' c = zown g c).
  { intros c. destruct (Nat.eq_dec c a) as [->|Hc]; [unfold zown; rewrite Egr; reflexivity|apply (oc_zown _ _ _ O c Hc)]. }
  assert (Hloc : forall u, locof (upd ls t (Loc pr U_sto h its0)) u = if Nat.eqb u t then Loc pr U_sto h its0 else locof ls u)
    by (intros u; apply (locof_upd _ _ _ _ _ Hl)).
  eapply (InvB_onecell g g' ls t l _ a IA IB Hl O (inlog_In _ _ Ia)); try reflexivity.
  - left. reflexivity.
  - intros z nx0 E. discriminate.
  - left. rewrite Ecs. exact Ca.
  - intros _. rewrite Ecs. exact Ca.
  - intros Hi. apply Hin. exact Hi.
  - intros Ho. rewrite Hzo. exact Ho.
  - intros u w0 Hu. rewrite Ecs, Hzo. assert (hnd (locof ls u) = Some (w0, Some a)) as Hu'.
    { rewrite Hloc in Hu. destruct (Nat.eqb_spec u t) as [->|]; [rewrite (locof_at _ _ _ Hl); exact Hu|exact Hu]. }
    destruct (b_own1 _ _ IB u w0 a Hu') as (_ & B & C). auto.
  - intros gd Hi Hg. rewrite Hzo in Hg. apply Hin in Hi. destruct (b_own2 _ _ IB a gd Hi Hg) as (u & w0 & A & B).
    exists u, w0. split; [exact A|]. rewrite Hloc. destruct (Nat.eqb_spec u t) as [->|]; [rewrite (locof_at _ _ _ Hl) in B; exact B|exact B].
  - unfold znd. rewrite Egr. reflexivity.
  - intros x Hx Hns. apply Hin in Hx. destruct (Nat.eq_dec x a) as [->|Hxa].
    + unfold link_ok, znx. rewrite Egr. cbn. intros c Hc. rewrite !Hsq. apply T. apply Hin. exact Hc.
    + assert (~ stale g ls x) as Hns'.
      { intros (u & w0 & A & B). destruct (Nat.eq_dec u t) as [->|Hut].
        - rewrite (locof_at _ _ _ Hl) in A. cbn [hnd l] in A. rewrite Eh in A. inversion A. congruence.
        - apply Hns. exists u, w0. unfold pcof in *. rewrite Hloc. destruct (Nat.eqb_spec u t); [contradiction|auto]. }
      pose proof (b_link _ _ IB x Hx Hns') as L. apply (link_ok_same g g' x); auto.
      * intros c Hc. apply Hin. exact Hc.
      * apply (oc_znx _ _ _ O x Hxa).
      * intros b Hb. apply Hin. unfold link_ok in L. rewrite Hb in L. apply L.
  - intros u lu Hut Hu. split; [|split].
    + intros Hul. left. intros E. apply Hut. apply (own_distinct g ls IA IB u t lu l Hu Hl Hul eq_refl E).
    + intros m1 Hm1 E1 Hi. apply Hin. exact Hi.
    + intros m' Hm'. apply not_eq_sym. apply (owned_not_pointer g ls IB u lu m' a Hu Hm' Ia Oa).
Qed.

Lemma stepB_U_sto g ls t pr h its0 :
  InvA g ls -> InvB g ls -> nth_error ls t = Some (Loc pr U_sto h its0) ->
  let a := own_rec (Loc pr U_sto h its0) in
  InvB (setz g a (z_owner (grec g a) None)) (upd ls t (Loc pr Idle None [])).
Proof.
  intros IA IB Hl a. set (l := Loc pr U_sto h its0) in *. set (g' := setz g a (z_owner (grec g a) None)).
  destruct (own_facts g ls IA IB t l Hl eq_refl) as (Ia & Oa & (w & Eh)). fold a in Ia, Oa, Eh. cbn [hnd l] in Eh.
  destruct (b_own1 _ _ IB t w a) as (_ & Ca & Za); [rewrite (locof_at _ _ _ Hl); exact Eh|].
  assert (Hra : isrec g a = true) by (apply (b_rec _ _ IB); apply (inlog_In _ _ Ia)).
  destruct (onecell_setz g a (z_owner (grec g a) None) Hra) as (O & Ecs & Egr). fold g' in O, Ecs, Egr.
  assert (Hin : forall c, inlog g' c <-> inlog g c).
  { intros c. destruct (Nat.eq_dec c a) as [->|Hc]; [|apply (oc_inlog _ _ _ O c Hc)].
    unfold inlog. rewrite (oc_zlog _ _ _ O), Ecs. tauto. }
  assert (Hsq : forall c, zsq g' c = zsq g c) by (apply (oc_zsq _ _ _ O)).
  assert (Hzx : forall c, znx g' c = znx g c).
  { intros c. destruct (Nat.eq_dec c a) as [->|Hc]; [unfold znx; rewrite Egr; reflexivity|apply (oc_znx _ _ _ O c Hc)]. }
  assert (Hloc : forall u, locof (upd ls t (Loc pr Idle None [])) u = if Nat.eqb u t then Loc pr Idle None [] else locof ls u)
    by (intros u; apply (locof_upd _ _ _ _ _ Hl)).
  eapply (InvB_onecell g g' ls t l _ a IA IB Hl O (inlog_In _ _ Ia)); try reflexivity.
  - right. split; [reflexivity|]. exists w. exact Eh.
  - intros z nx0 E. discriminate.
  - left. rewrite Ecs. exact Ca.
  - intros _. rewrite Ecs. exact Ca.
  - intros Hi. apply Hin. exact Hi.
  - intros _. unfold zown. rewrite Egr. reflexivity.
  - intros u w0 Hu. exfalso. rewrite Hloc in Hu. destruct (Nat.eqb_spec u t) as [->|Hut]; [discriminate|].
    destruct (b_own1 _ _ IB u w0 a Hu) as (_ & _ & C). rewrite Za in C. inversion C as [C']. apply guard_of_inj in C'. destruct C'; auto.
  - intros gd _ Hg. unfold zown in Hg. rewrite Egr in Hg. discriminate.
  - unfold znd. rewrite Egr. reflexivity.
  - intros x Hx Hns. apply Hin in Hx.
    assert (~ stale g ls x) as Hns'.
    { intros (u & w0 & A & B). destruct (Nat.eq_dec u t) as [->|Hut].
      - rewrite (pcof_at _ _ _ Hl) in B. discriminate.
      - apply Hns. exists u, w0. unfold pcof in *. rewrite Hloc. destruct (Nat.eqb_spec u t); [contradiction|auto]. }
    pose proof (b_link _ _ IB x Hx Hns') as L. apply (link_ok_same g g' x); auto.
    + intros c Hc. apply Hin. exact Hc.
    + intros b Hb. apply Hin. unfold link_ok in L. rewrite Hb in L. apply L.
  - intros u lu Hut Hu. split; [|split].
    + intros Hul. left. intros E. apply Hut. apply (own_distinct g ls IA IB u t lu l Hu Hl Hul eq_refl E).
    + intros m1 Hm1 E1 Hi. apply Hin. exact Hi.
    + intros m' Hm'. apply not_eq_sym. apply (owned_not_pointer g ls IB u lu m' a Hu Hm' Ia Oa).
Qed.

(* ---------- a successful CAS on m_zombie_head: the private record becomes the newest log record ---------- *)
Lemma stepB_push g ls t l l' z :
  InvA g ls -> InvB g ls -> nth_error ls t = Some l ->
  priv_rec (at_ l) = Some z -> in_unlock (at_ l) = false -> rpc (at_ l) = false ->
  privR g z -> cs_of g z = Some Constr -> znx g z = zhead g ->
  (forall k, znd g z = Some k -> isnode g k = true) ->
  ((zown g z = None /\ hnd l' = hnd l) \/
   (exists w, hnd l = Some (w, None) /\ zown g z = Some (guard_of t w) /\ hnd l' = Some (w, Some z))) ->
  priv_rec (at_ l') = None -> rpc (at_ l') = false -> (forall x nxt, at_ l' <> U_zf x nxt) ->
  let g' := with_zlog (with_zhead g (Some z)) (z :: zlog g) in
  thrB g' t l' ->
  InvB g' (upd ls t l').
Proof.
  intros IA IB Hl Hp Hul Hr [Hzr Hzn] Hcs Hnx Hnd Hh Hp' Hr' Hzf g' Ht.
  assert (EL : zlog g' = z :: zlog g) by reflexivity.
  assert (Ecs : forall c, cs_of g' c = cs_of g c) by reflexivity.
  assert (Egr : forall c, grec g' c = grec g c) by reflexivity.
  assert (Eir : forall c, isrec g' c = isrec g c) by reflexivity.
  assert (Ein : forall c, isnode g' c = isnode g c) by reflexivity.
  assert (Sq : forall c, In c (zlog g) -> zsq g' c = zsq g c).
  { intros c Hc. unfold zsq. rewrite EL. apply stamp_cons_old; auto. }
  assert (Sz : zsq g' z = S (length (zlog g))) by (unfold zsq; rewrite EL; apply stamp_cons_new).
  assert (Hin : forall c, inlog g' c <-> (c = z \/ inlog g c)).
  { intros c. unfold inlog. rewrite EL, Ecs. cbn [In]. split.
    - intros [[A|A] B]; [left; auto|right; auto].
    - intros [->|[A B]]; [split; [left; reflexivity|congruence]|split; [right; exact A|exact B]]. }
  assert (Hlt : forall c, In c (zlog g) -> zsq g' c < zsq g' z).
  { intros c Hc. rewrite (Sq c Hc), Sz. pose proof (zsq_pos g c Hc). lia. }
  assert (Hloc : forall u, locof (upd ls t l') u = if Nat.eqb u t then l' else locof ls u) by (intros u; apply (locof_upd _ _ _ _ _ Hl)).
  assert (Elt : locof ls t = l) by (apply locof_at; exact Hl).
  assert (Hst : forall x, stale g' (upd ls t l') x <-> stale g ls x).
  { intros x. split; intros (u & w & A & B); exists u, w; unfold pcof in *.
    - rewrite Hloc in A, B. destruct (Nat.eqb_spec u t) as [->|]; [congruence|auto].
    - rewrite Hloc. destruct (Nat.eqb_spec u t) as [->|]; [rewrite Elt in B; congruence|auto]. }
  constructor.
  - rewrite EL. constructor; [exact Hzn|apply (b_nodup _ _ IB)].
  - intros c. rewrite EL, Eir. intros [<-|Hc]; [exact Hzr|apply (b_rec _ _ IB c Hc)].
  - intros c. rewrite EL, Ecs. intros [<-|Hc]; [left; exact Hcs|].
    destruct (b_cs _ _ IB c Hc) as [A|[A|(A & u & nxt & B)]]; auto. right. right. split; [exact A|].
    exists u, nxt. rewrite (pcof_upd _ _ _ _ _ Hl). destruct (Nat.eqb_spec u t) as [->|]; [|exact B].
    rewrite (pcof_at _ _ _ Hl) in B. rewrite B in Hp. discriminate.
  - reflexivity.
  - intros h0 E. cbn in E. inversion E; subst h0. rewrite Ecs. exact Hcs.
  - (* links *)
    intros x Hx Hns. apply Hin in Hx. destruct Hx as [->|Hx].
    + unfold link_ok, znx. rewrite Egr. fold (znx g z). rewrite Hnx. destruct (zhead g) as [h0|] eqn:Eh.
      * destruct (head_stamp g ls h0 IB Eh) as [Hh0 Sh]. split; [apply Hin; right; split; [exact Hh0|rewrite (b_top _ _ IB h0 Eh); discriminate]|].
        split; [apply Hlt; exact Hh0|]. intros c Hc Hb. apply Hin in Hc. destruct Hc as [->|Hc]; [lia|].
        rewrite (Sq c (inlog_In _ _ Hc)), (Sq h0 Hh0), Sh in Hb. pose proof (zsq_pos g c (inlog_In _ _ Hc)). lia.
      * pose proof (b_head _ _ IB) as E. rewrite Eh in E. intros c Hc Hb. apply Hin in Hc. destruct Hc as [->|Hc]; [lia|].
        pose proof (inlog_In _ _ Hc) as Hci. destruct (zlog g); [destruct Hci|discriminate].
    + assert (~ stale g ls x) as Hns' by (intros S; apply Hns, Hst, S).
      pose proof (b_link _ _ IB x Hx Hns') as L. unfold link_ok, znx in *. rewrite Egr.
      pose proof (inlog_In _ _ Hx) as Hxi.
      destruct (znext (grec g x)) as [b|].
      * destruct L as (A & B & C). rewrite (Sq x Hxi), (Sq b (inlog_In _ _ A)). split; [apply Hin; right; exact A|split; [exact B|]].
        intros c Hc Hb. apply Hin in Hc. destruct Hc as [->|Hc].
        -- rewrite Sz in Hb. pose proof (zsq_pos g x Hxi). lia.
        -- rewrite (Sq c (inlog_In _ _ Hc)) in Hb. apply (C c Hc Hb).
      * intros c Hc Hb. rewrite (Sq x Hxi) in Hb. apply Hin in Hc. destruct Hc as [->|Hc].
        -- rewrite Sz in Hb. pose proof (zsq_pos g x Hxi). lia.
        -- rewrite (Sq c (inlog_In _ _ Hc)) in Hb. apply (L c Hc Hb).
  - intros u w x Hx. rewrite Hloc in Hx. rewrite EL, Ecs. unfold zown. rewrite Egr. fold (zown g x).
    destruct (Nat.eqb_spec u t) as [->|Hut].
    + destruct Hh as [[A B]|(w0 & A & B & C)].
      * rewrite B in Hx. rewrite <- Elt in Hx. destruct (b_own1 _ _ IB t w x Hx) as (P & Q & R). split; [right; exact P|auto].
      * rewrite C in Hx. inversion Hx; subst. split; [left; reflexivity|auto].
    + destruct (b_own1 _ _ IB u w x Hx) as (P & Q & R). split; [right; exact P|auto].
  - intros x gd Hx Hg. unfold zown in Hg. rewrite Egr in Hg. fold (zown g x) in Hg. apply Hin in Hx. destruct Hx as [->|Hx].
    + destruct Hh as [[A B]|(w0 & A & B & C)]; [congruence|]. rewrite B in Hg. inversion Hg; subst gd.
      exists t, w0. split; [reflexivity|]. rewrite Hloc, Nat.eqb_refl. exact C.
    + destruct (b_own2 _ _ IB x gd Hx Hg) as (u & w & A & B). exists u, w. split; [exact A|]. rewrite Hloc.
      destruct (Nat.eqb_spec u t) as [->|]; [|exact B]. rewrite Elt in B.
      destruct Hh as [[P Q]|(w0 & P & Q & R)]; [rewrite Q; exact B|congruence].
  - intros x k. rewrite EL, Ein. unfold znd. rewrite Egr. intros [<-|Hx] Hk; [apply Hnd; exact Hk|apply (b_node _ _ IB x k Hx Hk)].
  - intros u v x Hu Hv. rewrite (pcof_upd _ _ _ _ _ Hl) in Hu. rewrite (pcof_upd _ _ _ _ _ Hl) in Hv.
    destruct (Nat.eqb_spec u t) as [->|Hut]; [congruence|]. destruct (Nat.eqb_spec v t) as [->|Hvt]; [congruence|].
    apply (b_priv _ _ IB u v x); auto.
  - intros u lu Hu. apply nth_upd in Hu. destruct Hu as [(-> & -> & _)|(Hne & Hu)]; [exact Ht|].
    apply (thrB_env g g' u lu); try (apply (b_thr _ _ IB u lu Hu)).
    + intros c Hc. split; [rewrite EL; right; exact Hc|apply Sq; exact Hc].
    + intros c Hc. apply Hin in Hc. destruct Hc as [->|Hc]; [right; split; [exact Hzn|apply Hlt]|left; exact Hc].
    + intros c _ Ho. unfold zown. rewrite Egr. exact Ho.
    + intros j. rewrite Ein. auto.
    + intros x Hx. rewrite Eir, Ecs, Egr, EL. repeat split; auto. intros [E|E]; [|exact E]. exfalso. subst x.
      assert (u = t) by (apply (b_priv _ _ IB u t z); [rewrite (pcof_at _ _ _ Hu); exact Hx|rewrite (pcof_at _ _ _ Hl); exact Hp]). auto.
    + intros Hlu. destruct (own_in_log g ls u lu IA IB Hu Hlu) as [A _]. split; [exact A|]. unfold znx. rewrite Egr. reflexivity.
    + intros m _ Hi. apply Hin. right. exact Hi.
    + intros n _. rewrite Ecs, Egr. auto.
Qed.

(* ---------- the scan ---------- *)
Section Scan.
  Variables (g : glob) (ls : list loc).
  Hypothesis IA : InvA g ls.
  Hypothesis IB : InvB g ls.

  Lemma trans_U_ld t pr h its0 : nth_error ls t = Some (Loc pr U_ld h its0) ->
    let a := own_rec (Loc pr U_ld h its0) in
    thrB g t (Loc pr (match znx g a with Some n => U_own n (znx g a) | None => U_stn end) h its0).
  Proof.
    intros Hl a. set (l := Loc pr U_ld h its0) in *.
    destruct (own_facts g ls IA IB t l Hl eq_refl) as (Ia & Oa & _). fold a in Ia, Oa.
    pose proof (b_link _ _ IB a Ia (own_not_stale g ls IA IB t l Hl eq_refl eq_refl)) as L. unfold link_ok in L.
    unfold thrB. destruct (znx g a) as [n|] eqn:E; cbn [at_]; change (own_rec _) with a.
    - destruct L as (A & B & C). split; [|congruence]. split; [exact A|split; [exact B|]]. intros c Hc Hb. exfalso. apply (C c Hc Hb).
    - exact L.
  Qed.

  Lemma trans_U_own t pr h its0 n cached : nth_error ls t = Some (Loc pr (U_own n cached) h its0) ->
    zown g n = None -> thrB g t (Loc pr (U_nx n cached) h its0).
  Proof.
    intros Hl Ho. pose proof (b_thr _ _ IB t _ Hl) as T. unfold thrB in *. cbn [at_] in *. tauto.
  Qed.

  Lemma trans_U_nx t pr h its0 n cached : nth_error ls t = Some (Loc pr (U_nx n cached) h its0) ->
    thrB g t (Loc pr (match znx g n with
                      | Some m => U_own m cached
                      | None => match cached with Some k => reclaim_at g k | None => U_stn end
                      end) h its0).
  Proof.
    intros Hl. set (l := Loc pr (U_nx n cached) h its0) in *.
    pose proof (b_thr _ _ IB t l Hl) as T. unfold thrB in T. cbn [at_ l] in T. destruct T as ((Sn & Slt & Sbt) & Hno & Hc).
    destruct (own_facts g ls IA IB t l Hl eq_refl) as (Ia & Oa & _). set (a := own_rec l) in *.
    pose proof (b_link _ _ IB n Sn (unowned_not_stale g ls IB n Sn Hno)) as Ln. unfold link_ok in Ln.
    pose proof (b_link _ _ IB a Ia (own_not_stale g ls IA IB t l Hl eq_refl eq_refl)) as La. unfold link_ok in La.
    destruct (znx g n) as [m|] eqn:En.
    - destruct Ln as (A & B & C). unfold thrB. cbn [at_]. change (own_rec _) with a. split; [|exact Hc].
      split; [exact A|split; [lia|]]. intros c Hc0 Hb.
      destruct (Nat.lt_trichotomy (zsq g c) (zsq g n)) as [L1|[L1|L1]].
      + exfalso. apply (C c Hc0). lia.
      + assert (c = n) as -> by (apply (zsq_inj g ls _ _ IB (inlog_In _ _ Hc0) (inlog_In _ _ Sn) L1)). exact Hno.
      + apply Sbt; [exact Hc0|lia].
    - rewrite <- Hc in La. destruct cached as [k|].
      + destruct La as (A & B & C).
        assert (region g a k) as Rk.
        { split; [exact A|split; [exact B|split; [exact C|]]]. intros c Hc0 Hlt.
          destruct (Nat.lt_trichotomy (zsq g c) (zsq g n)) as [L1|[L1|L1]].
          - exfalso. apply (Ln c Hc0 L1).
          - assert (c = n) as -> by (apply (zsq_inj g ls _ _ IB (inlog_In _ _ Hc0) (inlog_In _ _ Sn) L1)). exact Hno.
          - apply Sbt; [exact Hc0|lia]. }
        apply thrB_reclaim_at; [exact Rk|].
        (* k is not the pointer of another reclaimer: that one would have to own a record below or above a *)
        destruct A as [A1 A2]. destruct (b_cs _ _ IB k A1) as [Q|[Q|(Q & u & nxt & D)]]; [exact Q|congruence|exfalso].
        unfold pcof, locof in D. destruct (nth_error ls u) as [lu|] eqn:Eu; [|discriminate].
        assert (u <> t) as Hut by (intros ->; rewrite Hl in Eu; inversion Eu; subst lu; discriminate).
        assert (region_pc (at_ lu) = Some k) as Ru by (rewrite D; reflexivity).
        pose proof (region_of g u lu k (b_thr _ _ IB u lu Eu) Ru) as (R1 & R2 & R3 & R4).
        destruct (own_facts g ls IA IB u lu Eu (region_pc_unlock _ _ Ru)) as (Iu & Ou & _).
        destruct (Nat.lt_trichotomy (zsq g (own_rec lu)) (zsq g a)) as [L1|[L1|L1]].
        * apply (C (own_rec lu) Iu). lia.
        * apply Hut. apply (own_distinct g ls IA IB u t lu l Eu Hl (region_pc_unlock _ _ Ru) eq_refl).
          apply (zsq_inj g ls _ _ IB (inlog_In _ _ Iu) (inlog_In _ _ Ia) L1).
        * apply Oa. apply R4; [exact Ia|exact L1].
      + unfold thrB. cbn [at_]. exact La.
  Qed.
End Scan.

(* ---------- recsame instances ---------- *)
Lemma recsame_heap g g' : heap g' = heap g -> zlog g' = zlog g -> zhead g' = zhead g -> recsame g g' None.
Proof.
  intros Hh Hz Hd.
  assert (forall k, getc g' k = getc g k) as G by (intros k; unfold getc; rewrite Hh; reflexivity).
  constructor; auto.
  - intros k _. unfold isrec. rewrite G. reflexivity.
  - intros k _. unfold grec. rewrite G. reflexivity.
  - intros k _ _. unfold cs_of. rewrite G. reflexivity.
  - intros k. unfold isnode. rewrite G. auto.
  - intros k E. discriminate.
Qed.
Lemma recsame_ext g g1 g2 zc : recsame g g1 zc -> heap g2 = heap g1 -> zlog g2 = zlog g1 -> zhead g2 = zhead g1 -> recsame g g2 zc.
Proof.
  intros [A B C D E F G] Hh Hz Hd.
  assert (forall k, getc g2 k = getc g1 k) as Q by (intros k; unfold getc; rewrite Hh; reflexivity).
  constructor; try congruence.
  - intros k Hk. rewrite <- (C k Hk). unfold isrec. rewrite Q. reflexivity.
  - intros k Hk. rewrite <- (D k Hk). unfold grec. rewrite Q. reflexivity.
  - intros k Hk Hr. rewrite <- (E k Hk Hr). unfold cs_of. rewrite Q. reflexivity.
  - intros k Hk. specialize (F k Hk). unfold isnode in *. rewrite Q. exact F.
  - exact G.
Qed.
Lemma recsame_refl g : recsame g g None.
Proof. apply recsame_heap; reflexivity. Qed.
Lemma recsame_setn g k n : isnode g k = true -> recsame g (setn g k n) None.
Proof.
  intros H. destruct (modc_fields g k (set_body (BNode n))) as (F1 & F2 & F3 & F4 & F5 & F6 & F7 & F8 & F9 & F10 & F11 & F12).
  constructor; auto.
  - intros j _. apply isrec_setn. exact H.
  - intros j _. apply grec_setn. exact H.
  - intros j _ _. apply cs_of_setn.
  - intros j Hj. rewrite isnode_setn; auto.
  - intros j E. discriminate.
Qed.
Lemma recsame_alloc_node g n : recsame g (fst (do_alloc g (BNode n))) None.
Proof.
  constructor; try reflexivity.
  - intros k _. rewrite isrec_alloc. destruct (Nat.eqb_spec k (nheap g)) as [->|]; [|reflexivity].
    unfold isrec. rewrite getc_ge by lia. reflexivity.
  - intros k _. apply grec_alloc_node.
  - intros k _ Hr. rewrite cs_of_alloc. destruct (Nat.eqb_spec k (nheap g)) as [->|]; [|reflexivity]. apply isrec_lt in Hr. lia.
  - intros k Hk. rewrite isnode_alloc. destruct (Nat.eqb k (nheap g)); auto.
  - intros k E. discriminate.
Qed.
Lemma recsame_alloc_rec g r : (forall k, In k (zlog g) -> k < nheap g) -> recsame g (fst (do_alloc g (BRec r))) (Some (nheap g)).
Proof.
  intros Hlt. constructor; try reflexivity.
  - intros k Hk. rewrite isrec_alloc. destruct (Nat.eqb_spec k (nheap g)) as [->|]; [congruence|reflexivity].
  - intros k Hk. unfold grec. rewrite getc_alloc. destruct (Nat.eqb_spec k (nheap g)) as [->|]; [congruence|reflexivity].
  - intros k Hk _. rewrite cs_of_alloc. destruct (Nat.eqb_spec k (nheap g)) as [->|]; [congruence|reflexivity].
  - intros k Hk. rewrite isnode_alloc. destruct (Nat.eqb_spec k (nheap g)) as [->|]; [|exact Hk]. apply isnode_lt in Hk. lia.
  - intros k E Hin. inversion E; subst k. specialize (Hlt _ Hin). lia.
Qed.
Lemma recsame_construct_node g n x : isnode g n = true -> recsame g (fst (do_construct g n (BNode x))) None.
Proof.
  intros H. destruct (construct_fields g n (BNode x)) as (F1 & F2 & F3 & F4 & F5 & F6 & F7 & F8 & F9 & F10 & F11 & F12).
  constructor; auto.
  - intros j _. apply isrec_construct_node. exact H.
  - intros j _. apply grec_construct_node. exact H.
  - intros j _ Hr. rewrite cs_of_construct. destruct (Nat.eqb_spec j n) as [->|]; [|reflexivity].
    rewrite (isnode_isrec _ _ H) in Hr. discriminate.
  - intros j Hj. rewrite isnode_construct_node; auto.
  - intros j E. discriminate.
Qed.
Lemma recsame_construct_rec g z r : isrec g z = true -> ~ In z (zlog g) -> recsame g (fst (do_construct g z (BRec r))) (Some z).
Proof.
  intros H Hz. destruct (construct_fields g z (BRec r)) as (F1 & F2 & F3 & F4 & F5 & F6 & F7 & F8 & F9 & F10 & F11 & F12).
  constructor; auto.
  - intros j Hj. apply isrec_construct_rec. exact H.
  - intros j Hj. rewrite grec_construct_rec by exact H. destruct (Nat.eqb_spec j z) as [->|]; [congruence|reflexivity].
  - intros j Hj _. rewrite cs_of_construct. destruct (Nat.eqb_spec j z) as [->|]; [congruence|reflexivity].
  - intros j Hj. rewrite isnode_construct_rec; auto.
  - intros j E. inversion E; subst j. exact Hz.
Qed.
Lemma recsame_setz g z r : isrec g z = true -> ~ In z (zlog g) -> recsame g (setz g z r) (Some z).
Proof.
  intros H Hz. destruct (modc_fields g z (set_body (BRec r))) as (F1 & F2 & F3 & F4 & F5 & F6 & F7 & F8 & F9 & F10 & F11 & F12).
  constructor; auto.
  - intros j Hj. apply isrec_setz. exact H.
  - intros j Hj. apply grec_setz_ne. congruence.
  - intros j Hj _. apply cs_of_setz.
  - intros j Hj. rewrite isnode_setz; auto.
  - intros j E. inversion E; subst j. exact Hz.
Qed.
Lemma recsame_destroy_node g d : isrec g d = false -> recsame g (fst (do_destroy g d)) None.
Proof.
  intros H. destruct (destroy_fields g d) as (F1 & F2 & F3 & F4 & F5 & F6 & F7 & F8 & F9 & F10 & F11 & F12).
  constructor; auto.
  - intros j _. apply isrec_destroy.
  - intros j _. apply grec_destroy.
  - intros j _ Hr. rewrite cs_of_destroy. destruct (Nat.eqb_spec j d) as [->|]; [congruence|reflexivity].
  - intros j Hj. rewrite isnode_destroy. exact Hj.
  - intros j E. discriminate.
Qed.
Lemma recsame_dealloc_node g d : isrec g d = false -> recsame g (fst (do_dealloc g d)) None.
Proof.
  intros H. destruct (dealloc_fields g d) as (F1 & F2 & F3 & F4 & F5 & F6 & F7 & F8 & F9 & F10 & F11 & F12).
  constructor; auto.
  - intros j _. apply isrec_dealloc.
  - intros j _. apply grec_dealloc.
  - intros j _ Hr. rewrite cs_of_dealloc. destruct (Nat.eqb_spec j d) as [->|]; [congruence|reflexivity].
  - intros j Hj. rewrite isnode_dealloc. exact Hj.
  - intros j E. discriminate.
Qed.
Lemma recsame_alloc_raw g : recsame g (fst (do_alloc g BRaw)) None.
Proof.
  constructor; try reflexivity.
  - intros k _. rewrite isrec_alloc. destruct (Nat.eqb_spec k (nheap g)) as [->|]; [|reflexivity].
    unfold isrec. rewrite getc_ge by lia. reflexivity.
  - intros k _. apply grec_alloc_raw.
  - intros k _ Hr. rewrite cs_of_alloc. destruct (Nat.eqb_spec k (nheap g)) as [->|]; [|reflexivity]. apply isrec_lt in Hr. lia.
  - intros k Hk. rewrite isnode_alloc. destruct (Nat.eqb_spec k (nheap g)) as [->|]; [|exact Hk]. apply isnode_lt in Hk. lia.
  - intros k E. discriminate.
Qed.
Lemma recsame_dealloc_raw g d : recsame g (fst (do_dealloc_raw g d)) None.
Proof.
  destruct (dealloc_raw_fields g d) as (F1 & F2 & F3 & F4 & F5 & F6 & F7 & F8 & F9 & F10 & F11 & F12).
  constructor; auto.
  - intros j _. apply isrec_dealloc_raw.
  - intros j _. apply grec_dealloc_raw.
  - intros j _ Hr. apply cs_of_dealloc_raw. right. exact Hr.
  - intros j Hj. rewrite isnode_dealloc_raw. exact Hj.
  - intros j E. discriminate.
Qed.
Lemma zlog_lt g ls k : InvB g ls -> In k (zlog g) -> k < nheap g.
Proof. intros IB H. apply isrec_lt. apply (b_rec _ _ IB k H). Qed.

Lemma recsame_fault g x zc : recsame g x zc -> recsame g (with_fault x) zc.
Proof. intros H. eapply recsame_ext; [exact H| | |]; reflexivity. Qed.
Lemma recsame_misuse g x zc : recsame g x zc -> recsame g (with_misuse x) zc.
Proof. intros H. eapply recsame_ext; [exact H| | |]; reflexivity. Qed.
Lemma recsame_mtx g x m zc : recsame g x zc -> recsame g (with_mtx x m) zc.
Proof. intros H. eapply recsame_ext; [exact H| | |]; reflexivity. Qed.
Lemma recsame_head g x m zc : recsame g x zc -> recsame g (with_head x m) zc.
Proof. intros H. eapply recsame_ext; [exact H| | |]; reflexivity. Qed.
Lemma recsame_tail g x m zc : recsame g x zc -> recsame g (with_tail x m) zc.
Proof. intros H. eapply recsame_ext; [exact H| | |]; reflexivity. Qed.
Lemma recsame_pos g x a b zc : recsame g x zc -> recsame g (with_pos x a b) zc.
Proof. intros H. eapply recsame_ext; [exact H| | |]; reflexivity. Qed.
Lemma recsame_commit g x m zc : recsame g x zc -> recsame g (commit x m) zc.
Proof. intros H. eapply recsame_ext; [exact H| | |]; reflexivity. Qed.
Lemma recsame_null g k : recsame g (fst (null_call g k)) None.
Proof. cbn. apply recsame_fault, recsame_refl. Qed.

Lemma okz_own g ls t l : InvA g ls -> InvB g ls -> nth_error ls t = Some l -> in_unlock (at_ l) = true -> okz g (own_rec l) = true.
Proof.
  intros IA IB Hl Hu. destruct (own_in_log g ls t l IA IB Hl Hu) as [A (w & Eh)].
  destruct (b_own1 _ _ IB t w (own_rec l)) as (_ & B & _); [rewrite (locof_at _ _ _ Hl); exact Eh|].
  apply okz_iff. split; [exact B|apply (b_rec _ _ IB _ A)].
Qed.

(* a thread inside the release code keeps its knowledge when the record world does not change *)
Lemma thrB_transfer g g' ls u l l' : InvA g ls -> InvB g ls -> nth_error ls u = Some l ->
  in_unlock (at_ l) = true -> recsame g g' None -> hnd l' = hnd l -> priv_rec (at_ l') = None ->
  thrB g u l' -> thrB g' u l'.
Proof.
  intros IA IB Hl Hu S Hh Hp T. apply (thrB_recsame g g' None S (b_rec _ _ IB) u l'); auto.
  - intros k E. congruence.
  - intros _. assert (own_rec l' = own_rec l) as -> by (unfold own_rec; rewrite Hh; reflexivity).
    apply (own_in_log g ls u l IA IB Hl Hu).
Qed.

(* ---------- the steps on a private record ---------- *)
Lemma priv_isrec g u l k : thrB g u l -> priv_rec (at_ l) = Some k -> isrec g k = true /\ ~ In k (zlog g).
Proof. unfold thrB, privR. destruct (at_ l); cbn; intros H E; inversion E; subst; tauto. Qed.

Lemma others_priv_lt g ls u lu k : InvB g ls -> nth_error ls u = Some lu -> priv_rec (at_ lu) = Some k -> k < nheap g.
Proof. intros IB Hu Hk. apply isrec_lt. apply (priv_isrec g u lu k (b_thr _ _ IB u lu Hu) Hk). Qed.

Lemma stepB_alloc_rec g ls t l l' :
  InvA g ls -> InvB g ls -> nth_error ls t = Some l ->
  hnd l' = hnd l -> priv_rec (at_ l) = None -> priv_rec (at_ l') = Some (nheap g) ->
  rpc (at_ l) = false -> (forall z nxt, at_ l <> U_zf z nxt) ->
  thrB (fst (do_alloc g (BRec drec))) t l' ->
  InvB (fst (do_alloc g (BRec drec))) (upd ls t l').
Proof.
  intros IA IB Hl Hh Hp Hp' Hr Hzf Ht.
  eapply (InvB_frame g _ ls t l l' (Some (nheap g)) IA IB Hl); auto.
  - apply recsame_alloc_rec. intros k Hk. apply (zlog_lt g ls k IB Hk).
  - intros u lu k Hut Hu Hk E. inversion E; subst k. pose proof (others_priv_lt g ls u lu _ IB Hu Hk). lia.
  - intros w z. rewrite Hh. tauto.
  - congruence.
  - intros z nxt E. exfalso. apply (Hzf z nxt E).
  - intros k Hk. right. intros v lv Hvt Hv E. rewrite Hp' in Hk. inversion Hk; subst k.
    pose proof (others_priv_lt g ls v lv _ IB Hv E). lia.
Qed.

Lemma stepB_priv_upd g g' ls t l l' z :
  InvA g ls -> InvB g ls -> nth_error ls t = Some l -> recsame g g' (Some z) ->
  hnd l' = hnd l -> priv_rec (at_ l) = Some z -> priv_rec (at_ l') = Some z ->
  thrB g' t l' ->
  InvB g' (upd ls t l').
Proof.
  intros IA IB Hl S Hh Hp Hp' Ht.
  assert (rpc (at_ l) = false) as Hr by (destruct (at_ l); try discriminate; reflexivity).
  eapply (InvB_frame g g' ls t l l' (Some z) IA IB Hl); auto.
  - intros u lu k Hut Hu Hk E. inversion E; subst k. apply Hut.
    apply (b_priv _ _ IB u t z); [rewrite (pcof_at _ _ _ Hu); exact Hk|rewrite (pcof_at _ _ _ Hl); exact Hp].
  - intros w x. rewrite Hh. tauto.
  - congruence.
  - intros x nxt E. rewrite E in Hp. discriminate.
  - intros k Hk. left. congruence.
Qed.

Lemma privR_alloc g ls r : InvB g ls ->
  let g' := fst (do_alloc g (BRec r)) in privR g' (nheap g) /\ cs_of g' (nheap g) = Some Alloc.
Proof.
  intros IB g'. unfold privR, g'. rewrite isrec_alloc, cs_of_alloc, Nat.eqb_refl. repeat split.
  intros H. change (zlog (fst (do_alloc g (BRec r)))) with (zlog g) in H. pose proof (zlog_lt g ls _ IB H). lia.
Qed.
Lemma views_construct_rec g z r : isrec g z = true -> cs_of g z = Some Alloc ->
  let g' := fst (do_construct g z (BRec r)) in
  isrec g' z = true /\ cs_of g' z = Some Constr /\ grec g' z = r /\ zlog g' = zlog g.
Proof.
  intros Hr Hc g'. unfold g'. rewrite isrec_construct_rec, cs_of_construct, grec_construct_rec, Nat.eqb_refl, Hc by exact Hr.
  apply cs_is_iff in Hc. rewrite Hc. repeat split; auto. apply construct_fields.
Qed.
Lemma views_setz g z r : isrec g z = true ->
  let g' := setz g z r in isrec g' z = true /\ cs_of g' z = cs_of g z /\ grec g' z = r /\ zlog g' = zlog g.
Proof.
  intros Hr g'. unfold g'. rewrite isrec_setz, cs_of_setz by exact Hr. repeat split; auto.
  - apply grec_setz_eq. apply isrec_lt. exact Hr.
  - apply modc_fields.
Qed.

Lemma thrB_R_constr g ls t pr o h its0 : InvB g ls -> (exists w, h = Some (w, None)) ->
  thrB (fst (do_alloc g (BRec drec))) t (Loc pr (R_constr o (nheap g)) h its0).
Proof. intros IB H. destruct (privR_alloc g ls drec IB) as [P1 P2]. unfold thrB. cbn [at_ hnd]. auto. Qed.
Lemma thrB_E_constr g ls t pr it c nx0 h its0 : InvB g ls -> isnode g c = true ->
  thrB (fst (do_alloc g (BRec drec))) t (Loc pr (E_constr it c nx0 (nheap g)) h its0).
Proof.
  intros IB H. destruct (privR_alloc g ls drec IB) as [P1 P2]. unfold thrB. cbn [at_ hnd]. split; [exact P1|split; [exact P2|]].
  rewrite (sa_isnode _ _ (sameA_alloc_rec g drec)). exact H.
Qed.
Lemma thrB_E_ldz g t pr it c nx0 z h its0 : thrB g t (Loc pr (E_constr it c nx0 z) h its0) ->
  thrB (fst (do_construct g z (BRec (ZRec None None (Some c))))) t (Loc pr (E_ldz it nx0 z) h its0).
Proof.
  unfold thrB, privR. cbn [at_]. intros ([Q1 Q2] & Q3 & Q4).
  destruct (views_construct_rec g z (ZRec None None (Some c)) Q1 Q3) as (V1 & V2 & V3 & V4).
  unfold zown, znd. rewrite V1, V2, V3, V4. cbn. repeat split; auto. exists c. split; [reflexivity|].
  rewrite isnode_construct_rec by exact Q1. exact Q4.
Qed.
Lemma thrB_R_cas g t pr o z old h its0 : thrB g t (Loc pr (R_st o z old) h its0) ->
  thrB (setz g z (z_next (grec g z) old)) t (Loc pr (R_cas o z old) h its0).
Proof.
  unfold thrB, privR. cbn [at_ hnd]. intros ([Q1 Q2] & Q3 & Q4 & Q5).
  destruct (views_setz g z (z_next (grec g z) old) Q1) as (V1 & V2 & V3 & V4).
  unfold zown, znx, znd in *. rewrite V1, V2, V3, V4. cbn. repeat split; auto.
Qed.
Lemma thrB_E_cas g t pr it nx0 z old h its0 : thrB g t (Loc pr (E_stz it nx0 z old) h its0) ->
  thrB (setz g z (z_next (grec g z) old)) t (Loc pr (E_cas it nx0 z old) h its0).
Proof.
  unfold thrB, privR. cbn [at_ hnd]. intros ([Q1 Q2] & Q3 & Q4 & Q5).
  destruct (views_setz g z (z_next (grec g z) old) Q1) as (V1 & V2 & V3 & V4).
  unfold zown, znx, znd in *. rewrite V1, V2, V3, V4. cbn. repeat split; auto.
  destruct Q5 as (k & K1 & K2). exists k. split; [exact K1|]. rewrite isnode_setz by exact Q1. exact K2.
Qed.

Lemma cas_cond (a b : option nat) c :
  (match a, b with Some x, Some y => Nat.eqb x y | None, None => true | _, _ => false end) && negb (Nat.eqb c 3) = true -> a = b.
Proof.
  intros H. apply andb_true_iff in H. destruct H as [H _]. destruct a, b; try discriminate; [|reflexivity].
  apply Nat.eqb_eq in H. congruence.
Qed.
Lemma thrB_body g t pr o h its0 : thrB g t (Loc pr (body_pc o) h its0).
Proof. unfold thrB. destruct o; exact I. Qed.
Lemma rpc_body o : rpc (body_pc o) = false.
Proof. destruct o; reflexivity. Qed.
Lemma body_not_zf o x nxt : body_pc o <> U_zf x nxt.
Proof. destruct o; discriminate. Qed.
Lemma thrB_R_ldh g t pr o z h its0 : thrB g t (Loc pr (R_constr o z) h its0) ->
  thrB (fst (do_construct g z (BRec (ZRec None (Some (guard_of t (own_w (Loc pr (R_constr o z) h its0)))) None)))) t (Loc pr (R_ldh o z) h its0).
Proof.
  unfold thrB, privR. cbn [at_ hnd]. intros ([Q1 Q2] & Q3 & (w & Q4)).
  destruct (views_construct_rec g z (ZRec None (Some (guard_of t (own_w (Loc pr (R_constr o z) h its0)))) None) Q1 Q3) as (V1 & V2 & V3 & V4).
  unfold zown, znd. rewrite V1, V2, V3, V4. cbn. repeat split; auto. exists w. subst h. split; reflexivity.
Qed.

(* the eraser's private, constructed record while it unlinks the node (repair eb66dd7: the record is built first) *)
Definition eprivP (g : glob) (z c : nat) : Prop :=
  privR g z /\ cs_of g z = Some Constr /\ zown g z = None /\ znd g z = Some c /\ isnode g c = true.
Lemma eprivP_recsame g g' z c : recsame g g' None -> eprivP g z c -> eprivP g' z c.
Proof.
  intros S ([Q1 Q2] & Q3 & Q4 & Q5 & Q6).
  assert (N : Some z <> None) by discriminate.
  unfold eprivP, privR, zown, znd in *. rewrite (rs_zlog _ _ _ S), (rs_isrec _ _ _ S z N), (rs_grec _ _ _ S z N), (rs_cs _ _ _ S z N Q1).
  repeat split; auto. apply (rs_isnode _ _ _ S); exact Q6.
Qed.
Lemma thrB_E_ldb g t pr it c nx0 z h its0 : thrB g t (Loc pr (E_constr it c nx0 z) h its0) ->
  thrB (fst (do_construct g z (BRec (ZRec None None (Some c))))) t (Loc pr (E_ldb it c nx0 z) h its0).
Proof.
  unfold thrB, privR. cbn [at_]. intros ([Q1 Q2] & Q3 & Q4).
  destruct (views_construct_rec g z (ZRec None None (Some c)) Q1 Q3) as (V1 & V2 & V3 & V4).
  unfold zown, znd. rewrite V1, V2, V3, V4. cbn. repeat split; auto.
  rewrite isnode_construct_rec by exact Q1. exact Q4.
Qed.

(* ---------- the step lemma ---------- *)
Ltac recsame_tac :=
  repeat first [apply recsame_fault | apply recsame_misuse | apply recsame_mtx | apply recsame_head | apply recsame_tail
               | apply recsame_pos | apply recsame_commit];
  first [ apply recsame_refl | apply recsame_alloc_node | apply recsame_alloc_raw | apply recsame_dealloc_raw | apply recsame_null
        | (apply recsame_setn; eauto) | (apply recsame_construct_node; eauto)
        | (apply recsame_destroy_node; eauto) | (apply recsame_dealloc_node; eauto) ].
Lemma InvB_step : forall g ls t c l g' l' es,
  InvA g ls -> InvB g ls -> nth_error ls t = Some l -> tstep t c g l = Some (g', l', es) -> InvB g' (upd ls t l').
Proof.
  intros g ls t c l g' l' es IA IB Hl Hs.
  pose proof (b_thr _ _ IB t l Hl) as Tt. pose proof (a_thr _ _ IA t l Hl) as Ta.
  destruct l as [pr p h its0]. destruct p.
  all: try (destruct (t_unl _ _ Ta eq_refl) as (w0 & z0 & Eh0); cbn [hnd] in Eh0; subst h).
  all: step_cases2 Hs; fold_fst; cbn [own_rec own_w hnd] in *.
  (* the release code acting on the log *)
  all: try (apply stepB_U_zd; assumption).
  all: try (apply (stepB_U_zf g ls t pr n _ _ its0 IA IB Hl)).
  all: try (apply (stepB_U_stn g ls t pr _ its0 IA IB Hl)).
  all: try (apply (stepB_U_sto g ls t pr _ its0 IA IB Hl)).
  all: try (exfalso; pose proof (okz_own g ls t _ IA IB Hl eq_refl) as Ok; cbn [own_rec hnd] in Ok; congruence).
  (* steps that leave the record world alone *)
  all: try (eapply (InvB_frame _ _ _ _ _ _ None IA IB Hl);
            [ recsame_tac
            | intros; discriminate
            | cbn [hnd]; intros; split; intros E; first [exact E | discriminate | inversion E]
            | cbn [at_ rpc]; rewrite ?rpc_reclaim_at; first [discriminate | reflexivity | auto]
            | cbn [at_]; intros; discriminate
            | cbn [at_ priv_rec]; rewrite ?priv_rec_reclaim, ?priv_rec_body; intros k E; first [discriminate | left; exact E]
            | ]).
  all: try (unfold thrB; cbn [at_]; exact I).
  all: try (unfold thrB; cbn [at_ hnd]; eexists; reflexivity).
  all: try (apply (wtarget_isnode g ls t _ _ IA Hl); reflexivity).
  (* node cells handed to destroy / deallocate by the reclaimer *)
  all: try (unfold thrB in Tt; cbn [at_] in Tt; destruct Tt as ((Rn & _) & _ & Ed);
            apply isnode_isrec; apply (b_node _ _ IB n n0 (inlog_In _ _ Rn)); symmetry; exact Ed).
  (* the scan and the node part of the reclaim loop *)
  all: try (pose proof (trans_U_ld g' ls IA IB t pr _ its0 Hl) as T; cbn zeta in T; unfold znx in T; cbn [own_rec hnd] in T;
            rewrite Heqo in T; exact T).
  all: try (pose proof (trans_U_ld g ls IA IB t pr _ its0 Hl) as T; cbn zeta in T; unfold znx in T; cbn [own_rec hnd] in T;
            rewrite Heqo in T; exact T).
  all: try (apply (trans_U_own _ ls IB t pr _ its0 n cached Hl); assumption).
  all: try (pose proof (trans_U_nx _ ls IA IB t pr _ its0 n _ Hl) as T; unfold znx in T;
            repeat match goal with H : znext (grec _ _) = _ |- _ => rewrite H in T end; cbn beta iota in T; exact T).
  all: try (eapply (thrB_transfer g _ ls t _ _ IA IB Hl eq_refl); [recsame_tac|reflexivity|reflexivity|];
            unfold thrB in *; cbn [at_] in *; first [exact Tt | tauto]).
  all: try (unfold thrB in *; cbn [at_] in *; unfold znx; first [exact Tt | tauto]).
  all: try (assert (isrec g n0 = false) as Hnr by
              (unfold thrB in Tt; cbn [at_] in Tt; destruct Tt as ((Rn & _) & _ & Ed);
               apply isnode_isrec; apply (b_node _ _ IB n n0 (inlog_In _ _ Rn)); symmetry; exact Ed);
            eapply (thrB_transfer g _ ls t _ _ IA IB Hl eq_refl);
            [first [apply recsame_destroy_node | apply recsame_dealloc_node]; exact Hnr|reflexivity|reflexivity|];
            unfold thrB in *; cbn [at_] in *; first [exact Tt | tauto]).
  (* allocation of a record *)
  all: try (apply (stepB_alloc_rec g ls t _ _ IA IB Hl); try reflexivity; [intros; discriminate|]).
  (* construction of / store to the private record *)
  all: try (unfold thrB in Tt; cbn [at_ hnd] in Tt; unfold privR in Tt;
            eapply (stepB_priv_upd g _ ls t _ _ z IA IB Hl); try reflexivity;
            [ repeat apply recsame_fault; first [apply recsame_construct_rec | apply recsame_setz]; tauto | ]).
  (* what the thread knows about its private record afterwards *)
  all: try (apply (thrB_R_constr _ ls t pr o _ its0 IB); exact Tt).
  all: try (apply (thrB_E_constr _ ls t pr it c0 nx0 _ its0 IB); apply (t_refs _ _ Ta); apply in_or_app; right; left; reflexivity).
  all: try (apply thrB_E_ldz; exact Tt).
  all: try (apply thrB_R_ldh; exact Tt).
  all: try (apply thrB_R_cas; exact Tt).
  all: try (apply thrB_E_cas; exact Tt).
  all: try (apply (thrB_R_cas g t pr o z old h its0 Tt)).
  all: try (apply (thrB_E_cas g t pr it nx0 z old h its0 Tt)).
  (* the successful CAS *)
  all: try (apply cas_cond in Heqb; unfold thrB in Tt; cbn [at_ hnd] in Tt;
            eapply (stepB_push g ls t _ _ z IA IB Hl); try reflexivity; cbn [at_ hnd];
            try tauto; rewrite ?priv_rec_body, ?rpc_body; try reflexivity;
            try apply thrB_body; try (intros; apply body_not_zf); try (intros; discriminate); try exact I).
  all: try (apply thrB_E_ldb; exact Tt).
  all: try (match goal with |- thrB ?gg _ (Loc _ (E_ldz _ _ _) _ _) =>
              assert (EP : eprivP gg z c0);
              [|destruct EP as (E1 & E2 & E3 & E4 & E5); unfold thrB; cbn [at_]; split; [exact E1|split; [exact E2|split; [exact E3|exists c0; auto]]]] end;
              apply (eprivP_recsame g);
              [repeat first [apply recsame_fault | apply recsame_commit | apply recsame_tail]; first [apply recsame_refl | apply recsame_setn; apply (wtarget_isnode g ls t _ _ IA Hl); reflexivity]|exact Tt]).
  all: try (match goal with |- thrB ?gg _ _ =>
              change (eprivP gg z c0); apply (eprivP_recsame g);
              [repeat first [apply recsame_fault | apply recsame_commit]; apply recsame_setn; apply (wtarget_isnode g ls t _ _ IA Hl); reflexivity|exact Tt] end).
  all: try (destruct Tt as (T1 & T2 & T3 & T4 & T5)).
  all: try (rewrite T4; symmetry; exact Heqb).
  all: try (intros k Hk; rewrite T3 in Hk; discriminate).
  all: try (destruct T5 as (k0 & K1 & K2); intros k Hk; rewrite K1 in Hk; inversion Hk; subst; exact K2).
  all: try (right; destruct T5 as (w & W1 & W2); exists w; subst h; cbn [own_w hnd]; auto).
  all: try (left; split; [exact T3|reflexivity]).
Qed.

(* ---------- reachable states ---------- *)
Definition Inv2 (g : glob) (ls : list loc) : Prop := InvA g ls /\ InvB g ls.
Lemma Inv2_step g ls t c l g' l' es :
  Inv2 g ls -> nth_error ls t = Some l -> tstep t c g l = Some (g', l', es) -> Inv2 g' (upd ls t l').
Proof. intros [IA IB] Hl Hs. split; [eapply InvA_step; eauto|eapply InvB_step; eauto]. Qed.

Lemma InvB_init unf progs : InvB (gl (init unf progs)) (thr (init unf progs)).
Proof.
  assert (P : forall u, pcof (thr (init unf progs)) u = Idle) by (intros u; apply locof_init).
  assert (Q : forall u, hnd (locof (thr (init unf progs)) u) = None) by (intros u; apply locof_init).
  constructor; cbn [gl init init_glob zlog zhead].
  - constructor.
  - intros z [].
  - intros z [].
  - reflexivity.
  - intros h E. discriminate.
  - intros a [[] _].
  - intros u w z E. rewrite Q in E. discriminate.
  - intros z gd [[] _].
  - intros z k [].
  - intros u v z E. rewrite P in E. discriminate.
  - intros u l Hu. cbn [thr init] in Hu. rewrite nth_error_map in Hu. destruct (nth_error progs u); [|discriminate].
    cbn in Hu. inversion Hu; subst l. exact I.
Qed.
Lemma R_Inv2 unf progs s : R unf progs s -> Inv2 (gl s) (thr s).
Proof.
  intros H. eapply reachable_inv; [apply Inv2_step|split; [apply InvA_init|apply InvB_init]|exact H].
Qed.

(* ---------- the log is never touched after it was freed ---------- *)
(* the record a step of this pc reads or writes *)
Definition rec_access (l : loc) : option nat :=
  match at_ l with
  | R_st _ z _ | E_stz _ _ z _ => Some z
  | U_ld | U_stn | U_sto => Some (own_rec l)
  | U_own n _ | U_nx n _ | U_ln n => Some n
  | _ => None
  end.
Lemma log_access_ok g ls t l z : Inv2 g ls -> nth_error ls t = Some l -> rec_access l = Some z -> okz g z = true.
Proof.
  intros [IA IB] Hl Hz. pose proof (b_thr _ _ IB t l Hl) as T. unfold thrB in T. unfold rec_access in Hz.
  assert (Hone : forall n, region_pc (at_ l) = None -> inlog g n -> (forall u lu m, nth_error ls u = Some lu -> region_pc (at_ lu) = Some m -> m <> n) -> okz g n = true).
  { intros n _ [A B] Hm. apply okz_iff. split; [|apply (b_rec _ _ IB n A)].
    destruct (b_cs _ _ IB n A) as [C|[C|(C & u & nxt & D)]]; [exact C|congruence|exfalso].
    unfold pcof, locof in D. destruct (nth_error ls u) as [lu|] eqn:Eu; [|discriminate].
    apply (Hm u lu n Eu); [rewrite D; reflexivity|reflexivity]. }
  destruct (at_ l) eqn:E; try discriminate; inversion Hz; subst z.
  - (* R_st *) destruct T as ([Q1 Q2] & Q3 & _). apply okz_iff. auto.
  - (* E_stz *) destruct T as ([Q1 Q2] & Q3 & _). apply okz_iff. auto.
  - apply (okz_own g ls t l IA IB Hl). rewrite E. reflexivity.
  - (* U_own n: n is not below a reclaimer's own record *)
    destruct T as (Sc & _). apply Hone; [reflexivity|apply Sc|].
    intros u lu m Hu Hm ->. assert (u <> t) as Hut by (intros ->; rewrite Hl in Hu; inversion Hu; subst lu; rewrite E in Hm; discriminate).
    pose proof (region_of g u lu n (b_thr _ _ IB u lu Hu) Hm) as (_ & R2 & _).
    apply (scan_above_region g ls IA IB u t lu l n (own_rec l) n Hut Hu Hm Hl); [rewrite E; reflexivity|reflexivity|exact Sc|exact R2].
  - destruct T as (Sc & _). apply Hone; [reflexivity|apply Sc|].
    intros u lu m Hu Hm ->. assert (u <> t) as Hut by (intros ->; rewrite Hl in Hu; inversion Hu; subst lu; rewrite E in Hm; discriminate).
    pose proof (region_of g u lu n (b_thr _ _ IB u lu Hu) Hm) as (_ & R2 & _).
    apply (scan_above_region g ls IA IB u t lu l n (own_rec l) n Hut Hu Hm Hl); [rewrite E; reflexivity|reflexivity|exact Sc|exact R2].
  - destruct T as ((Rn & _) & C). apply okz_iff. split; [exact C|apply (b_rec _ _ IB n (inlog_In _ _ Rn))].
  - apply (okz_own g ls t l IA IB Hl). rewrite E. reflexivity.
  - apply (okz_own g ls t l IA IB Hl). rewrite E. reflexivity.
Qed.

(* ... and the allocator calls on records are the legal ones *)
Lemma log_ledger_ok g ls t l : Inv2 g ls -> nth_error ls t = Some l ->
  match at_ l with
  | R_constr _ z | E_constr _ _ _ z => cs_of g z = Some Alloc
  | U_zd n _ => cs_of g n = Some Constr
  | U_zf n _ => cs_of g n = Some Destr
  | _ => True
  end.
Proof.
  intros [IA IB] Hl. pose proof (b_thr _ _ IB t l Hl) as T. unfold thrB in T. destruct (at_ l); auto; tauto.
Qed.

(* packaged for the property files *)
Lemma no_uaf_log unf progs s t l z : R unf progs s -> nth_error (thr s) t = Some l -> rec_access l = Some z -> okz (gl s) z = true.
Proof. intros HR. apply log_access_ok. apply (R_Inv2 _ _ _ HR). Qed.
Lemma ledger_log unf progs s t l : R unf progs s -> nth_error (thr s) t = Some l ->
  match at_ l with
  | R_constr _ z | E_constr _ _ _ z => cs_of (gl s) z = Some Alloc
  | U_zd n _ => cs_of (gl s) n = Some Constr
  | U_zf n _ => cs_of (gl s) n = Some Destr
  | _ => True
  end.
Proof. intros HR. apply log_ledger_ok. apply (R_Inv2 _ _ _ HR). Qed.
Lemma single_reclaimer unf progs s u v lu lv n m : R unf progs s ->
  nth_error (thr s) u = Some lu -> nth_error (thr s) v = Some lv ->
  region_pc (at_ lu) = Some n -> region_pc (at_ lv) = Some m -> u = v.
Proof. intros HR. destruct (R_Inv2 _ _ _ HR) as [IA IB]. apply (one_reclaimer _ _ IA IB). Qed.
(* a record is reclaimed only when every older record on the log is unowned, i.e. when no handle that
   registered before it is still alive *)
Lemma reclaim_needs_all_older_released unf progs s t l n c : R unf progs s ->
  nth_error (thr s) t = Some l -> region_pc (at_ l) = Some n ->
  inlog (gl s) c -> zsq (gl s) c < zsq (gl s) (own_rec l) -> zown (gl s) c = None.
Proof.
  intros HR Hl Hn Hc Hlt. destruct (R_Inv2 _ _ _ HR) as [IA IB].
  pose proof (region_of _ t l n (b_thr _ _ IB t l Hl) Hn) as (_ & _ & _ & D). apply D; auto.
Qed.
(* the own record of a live, registered handle is on the log, constructed, and owned by that handle *)
Lemma own_record_alive unf progs s u w z : R unf progs s ->
  hnd (locof (thr s) u) = Some (w, Some z) ->
  In z (zlog (gl s)) /\ cs_of (gl s) z = Some Constr /\ zown (gl s) z = Some (guard_of u w).
Proof. intros HR. destruct (R_Inv2 _ _ _ HR) as [IA IB]. apply (b_own1 _ _ IB). Qed.
