(* C07 for rcu_list's reclaim log in the Views semantics (Common/Views.v): the three relaxed sites of
   rcu_list.hpp are sufficient, from the atomics alone.  The tie to the code is RcuReadProofs.mo_table and
   the memory-order field of every trace line; this file has no correspondence of its own.

   Machine: any number of threads, any interleaving.  Records are numbered in allocation order (never
   re-used); a pointer is a number, 0 = nullptr, S x = record x.  Atomic locations: m_zombie_head
   (location 0), next of record x (2x+1), owner of record x (2x+2).  Plain cells with FastTrack epochs:
   [rec x] = the plain fields of record x (construction = write, the reclaimer's read of zombie_node =
   read, destroy/deallocate = write) and [nod x] = the payload of the node an erase record x carries
   (read by registered readers, freed = written by the reclaimer).
   Operations (pc per thread):
     register   AReg (allocate + construct: plain write of rec x); ALd (load of zhead: the GUESS, may
                read ANY coherence-allowed message when relaxed); ASt (store of the guess to the
                private record's next); ACas (RMW on zhead: reads the newest message; succeeds iff it
                equals the guess and the weak CAS does not fail spuriously; on failure the guess becomes
                the value read and the thread goes back to ASt)
     erase push AEra by a registered thread (record with zombie_node set, owner null), then the same
                ALd / ASt / ACas with the erase sites' orders
     ARead t x  a registered reader reads the payload of the node carried by erase record x that was
                pushed after the reader registered (client discipline: nodes unlinked before a reader
                registered are unreachable for it - RcuSafetyProofs)
     release    AULd (load own next) ; scan AOwn / ANx (owner / next of the records down the log; a
                non-null owner ends the scan without reclaiming) ; reclaim ARd (plain read of
                zombie_node, free of the node), ANxF (load next), AFr (free of the record) ; AStn (own
                next := null) ; ASto (owner := null)
   An atomic access to a field of another thread's record (AOwn, ANx, ANxF) is in addition checked (not
   recorded) against the construction of that record: an atomic object must be initialised before use.
   The order of every site is a parameter ([orders]); [rcu_orders] are the source's.
   Reading of seq_cst as in LRViews.v: a SeqCst load reads the newest message of its location when every
   store / RMW site of that location is SeqCst, otherwise any coherence-allowed message; RMWs (CAS, also
   a failing one) read the newest message.
   Ghost: stp (a record's position in the log = stamp of its CAS message), crt, pubv, wm, freed.
   Results (N = bound on thread ids, arbitrary; tr = any list of actions):
     rcu_log_publication        trace_ok N rcu_orders init tr -> race (run N rcu_orders init tr) = false
     rcu_log_sufficient_orders  the same for ANY orders in which both CASes release and acquire,
                                owner.store(nullptr) releases and the scan's owner load acquires (all other
                                sites, the three relaxed ones included, may be anything)
     rcu_scan_reads_newest      the scan's load of next (the field the relaxed store wrote) reads the newest message
     reclaim_after_release      (in section) a reclaimer's clock dominates the release clock of every record below its own
     refutations (conforming traces ending in race = true, same traces race-free with rcu_orders):
       rcu_relaxed_cas_refuted, rcu_relaxed_erase_cas_refuted, rcu_relaxed_owner_store_refuted,
       rcu_relaxed_scan_owner_refuted
     rcu_tail_relaxed_ok        push_back's relaxed load of m_tail under the mutex reads the newest store
                                (rcu_tail_unlocked_load_stale: not so without the mutex)
   Proof: one invariant [Inv] over conforming traces: the log is a list in stamp order (next of the record
   with stamp k is the record with stamp k-1, or null at the water mark wm), released clocks of the CAS
   messages grow with the stamps (release sequences), a scanning thread has acquired the owner release of
   every record it passed, at most one thread reclaims (recl_unique) and nothing registered lies below it,
   every read of an erased node is covered by a registered reader or by the release clock of a record that
   is still in the log below the erase record.
   NOTE for importers: short names (st, step, init, run, pc ...) - Require without Import and qualify. *)
From Coq Require Import List Arith ZArith Lia Bool.
Import ListNotations.
From GV Require Import Sched Events Views.

Inductive vpc :=
| Idle
| RLd (x : nat) (e : bool) | RSt (x g : nat) (e : bool) | RCas (x g : nat) (e : bool)
| Held
| UOwn (n c : nat) | UNx (n c : nat) | URd (n : nat) | UNxF (n : nat) | UFr (n m : nat) | USto.

Record th := Th { pc : vpc; own : nat }.      (* own: S r = registered with record r, 0 = not registered *)

Record orders := Ord {
  o_r_ld : mo;   (* rcu_read_lock: m_zombie_head.load(relaxed) *)
  o_r_st : mo;   (* rcu_read_lock: m_zombie->next.store(oldNext, relaxed) *)
  o_r_cas : mo;  (* rcu_read_lock: compare_exchange_weak *)
  o_e_ld : mo;   (* erase: m_zombie_head.load() *)
  o_e_st : mo;   (* erase: newZombie->next = oldZombie *)
  o_e_cas : mo;  (* erase: compare_exchange_weak *)
  o_u_ld : mo;   (* unlock: m_zombie->next.load() *)
  o_s_own : mo;  (* unlock, scan: n->owner.load() *)
  o_s_nx : mo;   (* unlock, scan: n->next.load() *)
  o_f_nx : mo;   (* unlock, reclaim: n->next.load() *)
  o_u_stn : mo;  (* unlock: m_zombie->next.store(n) *)
  o_u_sto : mo   (* unlock: m_zombie->owner.store(nullptr) *)
}.
Definition rcu_orders : orders :=
  Ord Relaxed Relaxed SeqCst SeqCst SeqCst SeqCst SeqCst SeqCst SeqCst SeqCst SeqCst SeqCst.

Inductive act :=
| AReg (t : nat) | AEra (t : nat) | ALd (t ch : nat) | ASt (t : nat) | ACas (t : nat) (spur : bool)
| ARead (t x : nat)
| AULd (t ch : nat) | AOwn (t ch : nat) | ANx (t ch : nat) | ARd (t : nat) | ANxF (t ch : nat) | AFr (t : nat)
| AStn (t : nat) | ASto (t : nat).

Definition L_ZH := 0.
Definition L_nx (x : nat) := S (2 * x).
Definition L_ow (x : nat) := S (S (2 * x)).

Record st := St {
  ths : nat -> th;
  clk : nat -> vc;
  hs : nat -> hist;               (* location -> message history *)
  seen : nat -> nat -> nat;       (* thread -> location -> last stamp read *)
  nrec : nat;                     (* next fresh record number *)
  kind : nat -> bool;             (* true = erase record (owner null from construction, carries a node) *)
  recs : nat -> ft;               (* plain fields of record x *)
  nods : nat -> ft;               (* payload of the node carried by erase record x *)
  race : bool;
  (* ghost *)
  stp : nat -> nat;               (* position in the log: stamp of the record's successful CAS (0 = not pushed) *)
  crt : nat -> nat;               (* the thread that allocated the record *)
  pubv : nat -> vc;               (* the clock released by the record's CAS message *)
  wm : nat;                       (* every record with a smaller stamp has been freed by a completed reclaim *)
  freed : nat -> bool
}.

Definition is_sc (m : mo) : bool := match m with SeqCst => true | _ => false end.
Definition pz (n : nat) : Z := Z.of_nat n.
Definition zp (v : Z) : nat := Z.to_nat v.
Lemma zp_pz n : zp (pz n) = n.
Proof. unfold zp, pz. apply Nat2Z.id. Qed.

Definition lidx (m : mo) (ssc : bool) (h : hist) (c : vc) (sn ch : nat) : nat :=
  if is_sc m && ssc then 0 else pick true h c sn ch.
Definition rmw_clock (m : mo) (prev : option msg) (c : vc) : vc :=
  match prev with
  | Some p => match mrel p with Some r => if is_acq m then vjoin c r else c | None => c end
  | None => c
  end.

Definition vpc_tag (p : vpc) : nat :=
  match p with
  | Idle => 0 | RLd _ _ => 1 | RSt _ _ _ => 2 | RCas _ _ _ => 3 | Held => 4 | UOwn _ _ => 6
  | UNx _ _ => 7 | URd _ => 8 | UNxF _ => 9 | UFr _ _ => 10 | USto => 11
  end.

Section RcuViews.
  Variable N : nat.
  Variable o : orders.

  Definition ssc_zh : bool := is_sc (o_r_cas o) && is_sc (o_e_cas o).
  Definition ssc_nx : bool := is_sc (o_r_st o) && is_sc (o_e_st o) && is_sc (o_u_stn o).
  Definition ssc_ow : bool := is_sc (o_u_sto o).
  Definition oinit (s : st) (x : nat) : Z := if kind s x then 0%Z else 1%Z.

  Definition init : st :=
    St (fun _ => Th Idle 0) clk0 (fun _ => []) (fun _ _ => 0) 0 (fun _ => false) (fun _ => ft0) (fun _ => ft0)
       false (fun _ => 0) (fun _ => 0) (fun _ => vzero) 1 (fun _ => false).

  Definition load (s : st) (m : mo) (ssc : bool) (iv : Z) (l t ch : nat) : nat * vc * (nat -> nat -> nat) :=
    let h := hs s l in let c := clk s t in
    let i := lidx m ssc h c (seen s t l) ch in
    (zp (read_val iv h i), read_clock m h i c, fupd (seen s) t (fupd (seen s t) l (read_stamp h i))).
  Definition store (s : st) (m : mo) (l t v : nat) : (nat -> hist) * vc * (nat -> nat -> nat) :=
    let h := hs s l in let c := clk s t in
    (fupd (hs s) l (store_msg m t c (pz v) :: h), vinc c t, fupd (seen s) t (fupd (seen s t) l (S (length h)))).

  (* thread t moves to control state T with clock c; histories and seen stamps as given *)
  Definition set (s : st) (t : nat) (T : th) (c : vc) (h : nat -> hist) (sn : nat -> nat -> nat) : st :=
    St (fupd (ths s) t T) (fupd (clk s) t c) h sn (nrec s) (kind s) (recs s) (nods s) (race s) (stp s) (crt s) (pubv s) (wm s) (freed s).

  (* does thread t know (happens-after) the construction / last plain write of record x?  Checked, not
     recorded, at the atomic accesses to the fields of another thread's record *)
  Definition hbk (s : st) (t x : nat) : bool := fwhen (recs s x) <=? clk s t (fwho (recs s x)).
  Definition setr (s : st) (t : nat) (T : th) (c : vc) (sn : nat -> nat -> nat) (x : nat) : st :=
    St (fupd (ths s) t T) (fupd (clk s) t c) (hs s) sn (nrec s) (kind s) (recs s) (nods s)
       (race s || negb (hbk s t x)) (stp s) (crt s) (pubv s) (wm s) (freed s).

  Definition alloc (s : st) (t : nat) (e : bool) : st :=
    let x := nrec s in let T := ths s t in
    let (f, okw) := ft_write N t (clk s t) (recs s x) in
    St (fupd (ths s) t (Th (RLd x e) (own T))) (fupd (clk s) t (vinc (clk s t) t)) (hs s) (seen s) (S x)
       (fupd (kind s) x e) (fupd (recs s) x f) (nods s) (race s || negb okw) (stp s) (fupd (crt s) x t) (pubv s) (wm s) (freed s).

  Definition step (s : st) (a : act) : st :=
    match a with
    | AReg t => alloc s t false
    | AEra t => alloc s t true
    | ALd t ch =>
      let T := ths s t in
      match pc T with
      | RLd x e => let '(g, c, sn) := load s (if e then o_e_ld o else o_r_ld o) ssc_zh 0%Z L_ZH t ch in
                   set s t (Th (RSt x g e) (own T)) c (hs s) sn
      | _ => s end
    | ASt t =>
      let T := ths s t in
      match pc T with
      | RSt x g e => let '(h, c, sn) := store s (if e then o_e_st o else o_r_st o) (L_nx x) t g in
                     set s t (Th (RCas x g e) (own T)) c h sn
      | _ => s end
    | ACas t spur =>
      let T := ths s t in
      match pc T with
      | RCas x g e =>
        let m := if e then o_e_cas o else o_r_cas o in
        let h := hs s L_ZH in let c := clk s t in let prev := nth_error h 0 in
        let cur := zp (read_val 0%Z h 0) in
        let c' := rmw_clock m prev c in
        if Nat.eqb cur g && negb spur then
          St (fupd (ths s) t (Th Held (if e then own T else S x))) (fupd (clk s) t (vinc c' t))
             (fupd (hs s) L_ZH (rmw_msg m t c prev (pz (S x)) :: h))
             (fupd (seen s) t (fupd (seen s t) L_ZH (S (length h))))
             (nrec s) (kind s) (recs s) (nods s) (race s) (fupd (stp s) x (S (length h))) (crt s)
             (fupd (pubv s) x (match mrel (rmw_msg m t c prev (pz (S x))) with Some v => v | None => c end)) (wm s) (freed s)
        else
          set s t (Th (RSt x cur e) (own T)) c' (hs s) (fupd (seen s) t (fupd (seen s t) L_ZH (length h)))
      | _ => s end
    | ARead t x =>
      let (f, okr) := ft_read t (clk s t) (nods s x) in
      St (ths s) (clk s) (hs s) (seen s) (nrec s) (kind s) (recs s) (fupd (nods s) x f) (race s || negb okr)
         (stp s) (crt s) (pubv s) (wm s) (freed s)
    | AULd t ch =>
      let T := ths s t in
      let '(c0, c, sn) := load s (o_u_ld o) ssc_nx 0%Z (L_nx (pred (own T))) t ch in
      set s t (Th (if Nat.eqb c0 0 then URd 0 else UOwn c0 c0) (own T)) c (hs s) sn
    | AOwn t ch =>
      let T := ths s t in
      match pc T with
      | UOwn n c0 => let '(v, c, sn) := load s (o_s_own o) ssc_ow (oinit s (pred n)) (L_ow (pred n)) t ch in
                     setr s t (Th (if Nat.eqb v 0 then UNx n c0 else USto) (own T)) c sn (pred n)
      | _ => s end
    | ANx t ch =>
      let T := ths s t in
      match pc T with
      | UNx n c0 => let '(m, c, sn) := load s (o_s_nx o) ssc_nx 0%Z (L_nx (pred n)) t ch in
                    setr s t (Th (if Nat.eqb m 0 then URd c0 else UOwn m c0) (own T)) c sn (pred n)
      | _ => s end
    | ARd t =>
      let T := ths s t in
      match pc T with
      | URd n =>
        let x := pred n in
        let (f, okr) := ft_read t (clk s t) (recs s x) in
        let (f2, okw) := if kind s x then ft_write N t (clk s t) (nods s x) else (nods s x, true) in
        St (fupd (ths s) t (Th (UNxF n) (own T))) (fupd (clk s) t (vinc (clk s t) t)) (hs s) (seen s) (nrec s)
           (kind s) (fupd (recs s) x f) (fupd (nods s) x f2) (race s || negb okr || negb okw) (stp s) (crt s) (pubv s) (wm s) (freed s)
      | _ => s end
    | ANxF t ch =>
      let T := ths s t in
      match pc T with
      | UNxF n => let '(m, c, sn) := load s (o_f_nx o) ssc_nx 0%Z (L_nx (pred n)) t ch in
                  setr s t (Th (UFr n m) (own T)) c sn (pred n)
      | _ => s end
    | AFr t =>
      let T := ths s t in
      match pc T with
      | UFr n m =>
        let x := pred n in
        let (f, okw) := ft_write N t (clk s t) (recs s x) in
        St (fupd (ths s) t (Th (URd m) (own T))) (fupd (clk s) t (vinc (clk s t) t)) (hs s) (seen s) (nrec s)
           (kind s) (fupd (recs s) x f) (nods s) (race s || negb okw) (stp s) (crt s) (pubv s) (wm s) (fupd (freed s) x true)
      | _ => s end
    | AStn t =>
      let T := ths s t in
      let '(h, c, sn) := store s (o_u_stn o) (L_nx (pred (own T))) t 0 in
      St (fupd (ths s) t (Th USto (own T))) (fupd (clk s) t c) h sn (nrec s) (kind s) (recs s) (nods s) (race s)
         (stp s) (crt s) (pubv s) (stp s (pred (own T))) (freed s)
    | ASto t =>
      let T := ths s t in
      let '(h, c, sn) := store s (o_u_sto o) (L_ow (pred (own T))) t 0 in
      set s t (Th Idle 0) c h sn
    end.

  (* the thread of an action and the control state it must be in *)
  Definition actor (a : act) : nat :=
    match a with
    | AReg t | AEra t | ALd t _ | ASt t | ACas t _ | ARead t _ | AULd t _ | AOwn t _ | ANx t _ | ARd t
    | ANxF t _ | AFr t | AStn t | ASto t => t
    end.
  Definition at_tag (a : act) : nat :=
    match a with
    | AReg _ => 0 | AEra _ => 4 | ALd _ _ => 1 | ASt _ => 2 | ACas _ _ => 3 | ARead _ _ => 4 | AULd _ _ => 4
    | AOwn _ _ => 6 | ANx _ _ => 7 | ARd _ => 8 | ANxF _ _ => 9 | AFr _ => 10 | AStn _ => 8 | ASto _ => 11
    end.
  (* protocol conformance *)
  Definition okb (s : st) (a : act) : bool :=
    let T := ths s (actor a) in
    (actor a <? N) && Nat.eqb (vpc_tag (pc T)) (at_tag a) &&
    match a with
    | ARead t x => kind s x && (0 <? stp s (pred (own T))) && (stp s (pred (own T)) <? stp s x)
    | ARd _ => match pc T with URd n => negb (Nat.eqb n 0) | _ => false end
    | AStn _ => match pc T with URd n => Nat.eqb n 0 | _ => false end
    | _ => true
    end.
  Definition ok (s : st) (a : act) : Prop := okb s a = true.
  Fixpoint trace_okb (s : st) (tr : list act) : bool :=
    match tr with [] => true | a :: r => okb s a && trace_okb (step s a) r end.
  Definition trace_ok (s : st) (tr : list act) : Prop := trace_okb s tr = true.
  Definition run (s : st) (tr : list act) : st := fold_left step tr s.
End RcuViews.

(* ---------- refutations: weakened orders give conforming traces that end with a data race ---------- *)
Definition reg (t : nat) : list act := [AReg t; ALd t 0; ASt t; ACas t false].
Definition era (t : nat) : list act := [AEra t; ALd t 0; ASt t; ACas t false].

(* (a) the registration CAS Relaxed: thread 1 reaches record 0 through m_zombie_head (its own CAS read the
   message of thread 0's CAS) without acquiring its construction; the scan's first access to it races *)
Definition o_relaxed_cas : orders :=
  Ord Relaxed Relaxed Relaxed SeqCst SeqCst SeqCst SeqCst SeqCst SeqCst SeqCst SeqCst SeqCst.
Definition w_two_readers : list act := reg 0 ++ reg 1 ++ [AULd 1 0; AOwn 1 0].
Lemma rcu_relaxed_cas_refuted :
  trace_ok 2 o_relaxed_cas init w_two_readers /\ trace_ok 2 rcu_orders init w_two_readers /\
  race (run 2 o_relaxed_cas init w_two_readers) = true /\
  race (run 2 rcu_orders init w_two_readers) = false.
Proof. vm_compute. auto. Qed.

(* (b) the erase CAS Relaxed: thread 1 registers after thread 0 pushed erase record 1; the release sequence
   gives it only the clock of thread 0's registration CAS, not the construction of the erase record *)
Definition o_relaxed_ecas : orders :=
  Ord Relaxed Relaxed SeqCst SeqCst SeqCst Relaxed SeqCst SeqCst SeqCst SeqCst SeqCst SeqCst.
Definition w_erase_then_reader : list act := reg 0 ++ era 0 ++ reg 1 ++ [AULd 1 0; AOwn 1 0].
Lemma rcu_relaxed_erase_cas_refuted :
  trace_ok 2 o_relaxed_ecas init w_erase_then_reader /\ trace_ok 2 rcu_orders init w_erase_then_reader /\
  race (run 2 o_relaxed_ecas init w_erase_then_reader) = true /\
  race (run 2 rcu_orders init w_erase_then_reader) = false.
Proof. vm_compute. auto. Qed.

(* (c) owner.store(nullptr) Relaxed.  Log, oldest first: record 0 (thread 2), record 1 (reader, thread 0),
   erase record 2 (pushed by thread 2), record 3 (thread 1).  The reader reads the erased node and
   releases while thread 2 is still registered (so its scan stops and it only stores owner := null);
   thread 2 releases; thread 1's scan then finds every owner null and frees the node - but nothing
   orders the reader's read before that free *)
Definition o_relaxed_sto : orders :=
  Ord Relaxed Relaxed SeqCst SeqCst SeqCst SeqCst SeqCst SeqCst SeqCst SeqCst SeqCst Relaxed.
Definition w_reader_released : list act :=
  reg 2 ++ reg 0 ++ era 2 ++ reg 1 ++ [ARead 0 2] ++ [AULd 0 0; AOwn 0 0; ASto 0] ++ [AULd 2 0; AStn 2; ASto 2] ++
  [AULd 1 0; AOwn 1 0; ANx 1 0; AOwn 1 0; ANx 1 0; AOwn 1 0; ANx 1 0; ARd 1].
Lemma rcu_relaxed_owner_store_refuted :
  trace_ok 3 o_relaxed_sto init w_reader_released /\ trace_ok 3 rcu_orders init w_reader_released /\
  race (run 3 o_relaxed_sto init w_reader_released) = true /\
  race (run 3 rcu_orders init w_reader_released) = false.
Proof. vm_compute. auto. Qed.

(* (d) the scan's owner load Relaxed: same run; the reclaimer sees the reader's owner null without acquiring *)
Definition o_relaxed_scan : orders :=
  Ord Relaxed Relaxed SeqCst SeqCst SeqCst SeqCst SeqCst Relaxed SeqCst SeqCst SeqCst SeqCst.
Lemma rcu_relaxed_scan_owner_refuted :
  trace_ok 3 o_relaxed_scan init w_reader_released /\
  race (run 3 o_relaxed_scan init w_reader_released) = true.
Proof. vm_compute. auto. Qed.

(* ---------- sufficiency ---------- *)
Definition regx (p : vpc) : option (nat * bool) :=
  match p with RLd x e | RSt x _ e | RCas x _ e => Some (x, e) | _ => None end.
Definition inrec (p : vpc) : option nat :=
  match p with URd n | UNxF n | UFr n _ => Some n | _ => None end.
Definition inscan (p : vpc) : option (nat * nat * bool) :=
  match p with UOwn n c => Some (n, c, false) | UNx n c => Some (n, c, true) | _ => None end.

Section Sufficient.
  Variable N : nat.
  Variable o : orders.
  (* what is needed: both CASes release and acquire, owner.store(nullptr) releases, the scan's owner load
     acquires.  Every other site may have any order (in particular the three relaxed ones). *)
  Hypothesis H_rcas_rel : is_rel (o_r_cas o) = true.
  Hypothesis H_rcas_acq : is_acq (o_r_cas o) = true.
  Hypothesis H_ecas_rel : is_rel (o_e_cas o) = true.
  Hypothesis H_ecas_acq : is_acq (o_e_cas o) = true.
  Hypothesis H_sto_rel : is_rel (o_u_sto o) = true.
  Hypothesis H_own_acq : is_acq (o_s_own o) = true.

  Notation step := (step N o).
  Notation ok := (ok N).

  Definition pcT (s : st) (t : nat) : vpc := pc (ths s t).
  Definition ownT (s : st) (t : nat) : nat := own (ths s t).
  Definition nvl (s : st) (l : nat) : nat := zp (read_val 0%Z (hs s l) 0).
  Definition pub (s : st) (x : nat) : Prop := 0 < stp s x.
  Definition rel (s : st) (x : nat) (v : vc) : Prop :=
    exists m, hs s (L_ow x) = [m] /\ mval m = 0%Z /\ mrel m = Some v.
  Definition passed (s : st) (t y : nat) : Prop :=
    kind s y = true \/ exists v, rel s y v /\ vle v (clk s t).
  Definition lowp (s : st) (n : nat) : nat := match n with 0 => 0 | S x => stp s x end.
  (* the value of next of x as the protocol leaves it *)
  Definition nxt_ok (s : st) (x m : nat) : Prop :=
    (stp s x = wm s -> m = 0) /\ (wm s < stp s x -> exists y, m = S y /\ stp s y = stp s x - 1).

  Record Inv (s : st) : Prop := {
    I_seen : forall t l, seen s t l <= length (hs s l);
    I_wm : 1 <= wm s <= Nat.max 1 (length (hs s L_ZH));
    I_stp : forall x, stp s x <= length (hs s L_ZH) /\ (pub s x -> x < nrec s);
    I_inj : forall x y, pub s x -> stp s x = stp s y -> x = y;
    I_all : forall k, 1 <= k <= length (hs s L_ZH) -> exists x, stp s x = k;
    I_zh : forall j m, nth_error (hs s L_ZH) j = Some m ->
           exists x, stp s x = length (hs s L_ZH) - j /\ mval m = pz (S x) /\ mrel m = Some (pubv s x);
    I_mono : forall x y, pub s y -> stp s y <= stp s x -> vle (pubv s y) (pubv s x);
    I_fresh : forall x, nrec s <= x ->
              recs s x = ft0 /\ nods s x = ft0 /\ stp s x = 0 /\ hs s (L_nx x) = [] /\ hs s (L_ow x) = [] /\ freed s x = false;
    I_reg : forall t x e, regx (pcT s t) = Some (x, e) ->
            x < nrec s /\ stp s x = 0 /\ crt s x = t /\ kind s x = e /\ (if e then ownT s t <> 0 else ownT s t = 0);
    I_pc : forall t, match pcT s t with
                     | Idle => ownT s t = 0
                     | RLd _ _ | RSt _ _ _ | RCas _ _ _ => True
                     | UNxF n | UFr n _ => ownT s t <> 0 /\ n <> 0
                     | _ => ownT s t <> 0 end;
    I_rec : forall x, x < nrec s -> freed s x = false ->
            fwho (recs s x) = crt s x /\ fwhen (recs s x) <= clk s (crt s x) (crt s x) /\
            (pub s x -> fwhen (recs s x) <= pubv s x (crt s x)) /\
            forall u, fR (recs s x) u = 0 \/
                      (fR (recs s x) u <= clk s u u /\ (pcT s u = UNxF (S x) \/ exists m, pcT s u = UFr (S x) m));
    I_nx : forall x j m, nth_error (hs s (L_nx x)) j = Some m ->
           mwho m = crt s x /\ mwhen m <= clk s (crt s x) (crt s x) /\
           (kind s x = true -> pub s x -> mwhen m <= pubv s x (crt s x));
    I_nxv : forall x, pub s x -> wm s <= stp s x -> nxt_ok s x (nvl s (L_nx x));
    I_ow : forall x, (hs s (L_ow x) = [] \/ exists v, rel s x v) /\
           (forall v, rel s x v -> kind s x = false /\ pub s x /\
                      forall j m, nth_error (hs s (L_nx x)) j = Some m -> mwhen m <= v (crt s x)) /\
           (kind s x = false -> pub s x -> hs s (L_ow x) = [] -> exists t, ownT s t = S x);
    I_own : forall t r, ownT s t = S r ->
            kind s r = false /\ pub s r /\ freed s r = false /\ crt s r = t /\ hs s (L_ow r) = [] /\
            vle (pubv s r) (clk s t) /\ wm s <= stp s r;
    I_free : forall x, (pub s x -> stp s x < wm s -> freed s x = true) /\
             (freed s x = true -> pub s x /\
                (stp s x < wm s \/ exists t r n, ownT s t = S r /\ inrec (pcT s t) = Some n /\ lowp s n < stp s x < stp s r));
    I_scan : forall t r n c b, ownT s t = S r -> inscan (pcT s t) = Some (n, c, b) ->
             exists x, n = S x /\ pub s x /\ wm s <= stp s x < stp s r /\ freed s x = false /\
                       (forall y, pub s y -> stp s x < stp s y < stp s r -> passed s t y) /\
                       (b = true -> passed s t x) /\
                       (exists y0, c = S y0 /\ stp s y0 = stp s r - 1);
    I_recl : forall t r n, ownT s t = S r -> inrec (pcT s t) = Some n ->
             (n = 0 \/ exists x, n = S x /\ pub s x /\ wm s <= stp s x < stp s r /\ freed s x = false) /\
             (forall y, pub s y -> stp s y < stp s r -> freed s y = true \/ passed s t y) /\
             (forall y, pub s y -> lowp s n < stp s y < stp s r -> freed s y = true) /\
             (forall m, pcT s t = UFr n m -> nxt_ok s (pred n) m);
    I_nod : forall x,
            (fwhen (nods s x) = 0 \/ (pub s x /\ forall u r, ownT s u = S r -> stp s x < stp s r)) /\
            (kind s x = true -> freed s x = false ->
             forall u, fR (nods s x) u = 0 \/
                      (exists r, ownT s u = S r /\ stp s r < stp s x /\ fR (nods s x) u <= clk s u u) \/
                      (exists y, kind s y = false /\ 0 < stp s y < stp s x /\ freed s y = false /\
                                 ((exists t, ownT s t = S y /\ fR (nods s x) u <= clk s t u) \/
                                  (exists v, rel s y v /\ fR (nods s x) u <= v u))));
    I_cas : forall t x g e, pcT s t = RCas x g e -> nvl s (L_nx x) = g;
    I_race : race s = false;
    I_nodw : forall x, fwhen (nods s x) = 0 \/ freed s x = true \/
                       exists u, pcT s u = UNxF (S x) \/ exists m, pcT s u = UFr (S x) m
  }.

  Lemma pub_init x : ~ pub init x.
  Proof. unfold pub. cbn. lia. Qed.
  Lemma Inv_init : Inv init.
  Proof.
    constructor; cbn; intros; auto; try lia; try discriminate.
    - split; [lia|]. intros H. destruct (pub_init _ H).
    - destruct (pub_init _ H).
    - destruct j; discriminate.
    - apply vle_refl.
    - repeat split; reflexivity.
    - destruct j; discriminate.
    - split; [left; reflexivity|]. split.
      + intros v (m & E & _). discriminate.
      + intros _ H. destruct (pub_init _ H).
    - split; [intros H; destruct (pub_init _ H)|discriminate].
  Qed.

  Ltac eqd a b := let E := fresh "E" in destruct (Nat.eqb_spec a b) as [E|E]; [first [subst a | subst b]|].

  (* a step that changes only thread t's control state, clock, seen stamps (and the race flag) *)
  Definition upd_t (s : st) (t : nat) (T : th) (c : vc) (sn : nat -> nat -> nat) (rc : bool) : st :=
    St (fupd (ths s) t T) (fupd (clk s) t c) (hs s) sn (nrec s) (kind s) (recs s) (nods s) rc
       (stp s) (crt s) (pubv s) (wm s) (freed s).

  Lemma upd_t_inv s t T c sn :
    Inv s -> vle (clk s t) c -> (forall t' l, sn t' l <= length (hs s l)) -> own T = ownT s t ->
    let s' := upd_t s t T c sn false in
    (forall x e, regx (pc T) = Some (x, e) -> regx (pcT s t) = Some (x, e)) ->
    (match pc T with Idle => own T = 0 | RLd _ _ | RSt _ _ _ | RCas _ _ _ => True
                   | UNxF n | UFr n _ => own T <> 0 /\ n <> 0 | _ => own T <> 0 end) ->
    (forall x, (pcT s t = UNxF (S x) \/ exists m, pcT s t = UFr (S x) m) ->
               (pc T = UNxF (S x) \/ exists m, pc T = UFr (S x) m)) ->
    (forall n, inrec (pcT s t) = Some n -> exists n', inrec (pc T) = Some n' /\ lowp s n' <= lowp s n) ->
    (forall r n c0 b, own T = S r -> inscan (pc T) = Some (n, c0, b) ->
       exists x, n = S x /\ pub s x /\ wm s <= stp s x < stp s r /\ freed s x = false /\
                 (forall y, pub s y -> stp s x < stp s y < stp s r -> passed s' t y) /\
                 (b = true -> passed s' t x) /\ (exists y0, c0 = S y0 /\ stp s y0 = stp s r - 1)) ->
    (forall r n, own T = S r -> inrec (pc T) = Some n ->
       (n = 0 \/ exists x, n = S x /\ pub s x /\ wm s <= stp s x < stp s r /\ freed s x = false) /\
       (forall y, pub s y -> stp s y < stp s r -> freed s y = true \/ passed s' t y) /\
       (forall y, pub s y -> lowp s n < stp s y < stp s r -> freed s y = true) /\
       (forall m, pc T = UFr n m -> nxt_ok s (pred n) m)) ->
    (forall x g e, pc T = RCas x g e -> nvl s (L_nx x) = g) ->
    Inv s'.
  Proof.
    intros I Hc Hsn Hown s' Hreg Hpc Hrp Hint Hscan Hrecl Hcas.
    assert (CM : forall u, vle (clk s u) (clk s' u)).
    { intros u. unfold s', upd_t. cbn. unfold fupd. eqd u t; [exact Hc|apply vle_refl]. }
    assert (PM : forall u y, passed s u y -> passed s' u y).
    { intros u y [H|(v & Hr & Hv)]; [left; exact H|right]. exists v. split; [exact Hr|]. eapply vle_trans; [exact Hv|apply CM]. }
    assert (OW : forall u, ownT s' u = ownT s u).
    { intros u. unfold s', upd_t, ownT. cbn. unfold fupd. eqd u t; [exact Hown|reflexivity]. }
    assert (PC : forall u, u <> t -> pcT s' u = pcT s u).
    { intros u Hu. unfold s', upd_t, pcT. cbn. rewrite fupd_ne by exact Hu. reflexivity. }
    assert (PCt : pcT s' t = pc T) by (unfold s', upd_t, pcT; cbn; rewrite fupd_eq; reflexivity).
    destruct I as [J1 J2 J3 J4 J5 J6 J7 J8 J9 J10 J11 J12 J13 J14 J15 J16 J17 J18 J19 J20 J21 J22].
    constructor; try assumption.
    - intros u x e H. eqd u t.
      + rewrite PCt in H. rewrite OW. apply J9. apply Hreg. exact H.
      + rewrite PC in H by exact E. rewrite OW. apply J9. exact H.
    - intros u. eqd u t; [rewrite PCt, OW, <- Hown; exact Hpc|rewrite PC, OW by exact E; apply J10].
    - intros x Hx Hf. destruct (J11 x Hx Hf) as (A & B & C & D). split; [exact A|]. split; [|split; [exact C|]].
      + eapply Nat.le_trans; [exact B|apply CM].
      + intros u. destruct (D u) as [D1|[D1 D2]]; [left; exact D1|right]. split; [eapply Nat.le_trans; [exact D1|apply CM]|].
        eqd u t; [rewrite PCt; apply Hrp; exact D2|rewrite PC by exact E; exact D2].
    - intros x j m H. destruct (J12 x j m H) as (A & B & C). split; [exact A|]. split; [|exact C].
      eapply Nat.le_trans; [exact B|apply CM].
    - intros x. destruct (J14 x) as (A & B & C). split; [exact A|]. split; [exact B|].
      intros H1 H2 H3. destruct (C H1 H2 H3) as [u Hu]. exists u. rewrite OW. exact Hu.
    - intros u r H. rewrite OW in H. destruct (J15 u r H) as (A & B & C & D & E & F & G). repeat split; auto.
      eapply vle_trans; [exact F|apply CM].
    - intros x. destruct (J16 x) as [A B]. split; [exact A|]. intros H. destruct (B H) as [B1 B2]. split; [exact B1|].
      destruct B2 as [B2|(u & r & n & U1 & U2 & U3)]; [left; exact B2|right].
      eqd u t.
      + destruct (Hint n U2) as (n' & N1 & N2). exists t, r, n'. rewrite OW, PCt. split; [exact U1|]. split; [exact N1|]. unfold lowp in *. cbn. lia.
      + exists u, r, n. rewrite OW, PC by exact E. auto.
    - intros u r n c0 b H1 H2. rewrite OW in H1. eqd u t.
      + rewrite PCt in H2. apply (Hscan r n c0 b); [rewrite Hown; exact H1|exact H2].
      + rewrite PC in H2 by exact E. destruct (J17 u r n c0 b H1 H2) as (x & A & B & C & D & F & G & K).
        exists x. split; [exact A|]. split; [exact B|]. split; [exact C|]. split; [exact D|]. split; [|split; [|exact K]].
        * intros y Hy1 Hy2. apply PM. apply F; auto.
        * intros Hb. apply PM. apply G. exact Hb.
    - intros u r n H1 H2. rewrite OW in H1. eqd u t.
      + rewrite PCt in H2 |- *. apply (Hrecl r n); [rewrite Hown; exact H1|exact H2].
      + rewrite PC in H2 |- * by exact E. destruct (J18 u r n H1 H2) as (A & B & C & D). split; [exact A|]. split; [|split; [exact C|exact D]].
        intros y Hy1 Hy2. destruct (B y Hy1 Hy2); [left; auto|right; apply PM; auto].
    - intros x. destruct (J19 x) as [A B]. split.
      + destruct A as [A|[A0 A]]; [left; exact A|right; split; [exact A0|]]. intros u r H. rewrite OW in H. eapply A; eauto.
      + intros Hk Hf u. destruct (B Hk Hf u) as [B1|[(r & R1 & R2 & R3)|(y & Y1 & Y2 & Y3 & Y4)]]; [left; exact B1|right; left|right; right].
        * exists r. rewrite OW. split; [exact R1|]. split; [exact R2|]. eapply Nat.le_trans; [exact R3|apply CM].
        * exists y. split; [exact Y1|]. split; [exact Y2|]. split; [exact Y3|]. destruct Y4 as [(t' & T1 & T2)|Y4]; [left|right; exact Y4].
          exists t'. rewrite OW. split; [exact T1|]. eapply Nat.le_trans; [exact T2|apply CM].
    - intros u x g e H. eqd u t; [rewrite PCt in H; apply (Hcas x g e H)|rewrite PC in H by exact E; apply (J20 u x g e H)].
    - reflexivity.
    - intros x. destruct (J22 x) as [A|[A|(u & A)]]; [left; exact A|right; left; exact A|right; right].
      exists u. eqd u t; [rewrite PCt; apply Hrp; exact A|rewrite PC by exact E; exact A].
  Qed.

  Lemma lidx_bounds m ssc h c sn ch : sn <= length h ->
    lidx m ssc h c sn ch <= length h /\ sn <= length h - lidx m ssc h c sn ch.
  Proof.
    intros H. unfold lidx. destruct (is_sc m && ssc); [lia|]. apply pick_bounds. exact H.
  Qed.
  Lemma lidx_known m ssc h c sn ch x : sn <= length h -> nth_error h 0 = Some x -> known c x = true ->
    lidx m ssc h c sn ch = 0.
  Proof.
    intros H Hn Hk. unfold lidx. destruct (is_sc m && ssc); [reflexivity|].
    pose proof (pick_known true h c sn ch 0 x H Hn Hk). lia.
  Qed.
  (* the seen table after a load of l by t that read index i *)
  Lemma seen_load s t l i : Inv s -> i <= length (hs s l) ->
    forall t' l', fupd (seen s) t (fupd (seen s t) l (read_stamp (hs s l) i)) t' l' <= length (hs s l').
  Proof.
    intros I Hi t' l'. unfold fupd, read_stamp. eqd t' t; [|apply (I_seen _ I)].
    eqd l' l; [lia|apply (I_seen _ I)].
  Qed.
  Lemma set_upd s t T c sn : race s = false -> set s t T c (hs s) sn = upd_t s t T c sn false.
  Proof. intros H. unfold set, upd_t. rewrite H. reflexivity. Qed.
  Lemma setr_upd s t T c sn x : race s = false -> hbk s t x = true -> setr s t T c sn x = upd_t s t T c sn false.
  Proof. intros H1 H2. unfold setr, upd_t. rewrite H1, H2. reflexivity. Qed.

  (* what ok gives: the actor's control state *)
  Lemma ok_tag s a : ok s a -> actor a < N /\ vpc_tag (pcT s (actor a)) = at_tag a.
  Proof.
    unfold ok, okb. intros H. apply andb_true_iff in H as [H _]. apply andb_true_iff in H as [H1 H2].
    apply Nat.ltb_lt in H1. apply Nat.eqb_eq in H2. auto.
  Qed.

  Lemma step_ALd s t ch : Inv s -> ok s (ALd t ch) -> Inv (step s (ALd t ch)).
  Proof.
    intros I Hok. destruct (ok_tag _ _ Hok) as [Ht Htag]. cbn [actor at_tag] in *.
    unfold step. unfold pcT in Htag. destruct (pc (ths s t)) eqn:Ep; try discriminate. clear Htag.
    unfold load. set (h := hs s L_ZH). set (i := lidx _ _ h _ _ ch).
    destruct (lidx_bounds (if e then o_e_ld o else o_r_ld o) (ssc_zh o) h (clk s t) (seen s t L_ZH) ch (I_seen _ I t L_ZH)) as [B1 B2].
    fold i in B1, B2.
    rewrite set_upd by apply (I_race _ I). apply upd_t_inv; cbn [pc own]; auto.
    - apply read_clock_mono.
    - apply seen_load; auto.
    - unfold pcT. rewrite Ep. cbn. auto.
    - unfold pcT. rewrite Ep. intros x0 [H|[m H]]; discriminate.
    - unfold pcT. rewrite Ep. discriminate.
    - discriminate.
    - discriminate.
    - intros xx gg ee HH; repeat match type of HH with context [if ?b then _ else _] => destruct b end; discriminate HH.
  Qed.

  (* a registered (not yet released) record is never passed, and never lies below a reclaimer's record *)
  Lemma active_not_passed s t r u : Inv s -> ownT s t = S r -> passed s u r -> False.
  Proof.
    intros I H [P|(v & (m & E & _) & _)]; destruct (I_own _ I t r H) as (A & _ & _ & _ & B & _); congruence.
  Qed.
  Lemma active_not_below s t r t' r' n : Inv s -> ownT s t = S r -> ownT s t' = S r' ->
    inrec (pcT s t') = Some n -> stp s r < stp s r' -> False.
  Proof.
    intros I H H' Hn Hlt. destruct (I_own _ I t r H) as (_ & P & F & _).
    destruct (I_recl _ I t' r' n H' Hn) as (_ & A & _). destruct (A r P Hlt) as [A1|A1]; [congruence|].
    exact (active_not_passed s t r t' I H A1).
  Qed.
  Lemma own_inj s t t' r : Inv s -> ownT s t = S r -> ownT s t' = S r -> t = t'.
  Proof.
    intros I H H'. destruct (I_own _ I t r H) as (_ & _ & _ & A & _). destruct (I_own _ I t' r H') as (_ & _ & _ & B & _). congruence.
  Qed.
  (* the record just below an active record that is not being reclaimed from is not freed *)
  Lemma below_unfreed s t r y : Inv s -> ownT s t = S r -> inrec (pcT s t) = None ->
    pub s y -> wm s <= stp s y -> stp s y = stp s r - 1 -> stp s y < stp s r -> freed s y = false.
  Proof.
    intros I H Hn Py Hw Hy Hlt. destruct (freed s y) eqn:F; [exfalso|reflexivity].
    destruct (I_free _ I y) as [_ A]. destruct (A F) as [_ [A1|(t' & r' & n & U1 & U2 & U3)]]; [lia|].
    destruct (I_own _ I t r H) as (_ & P & _).
    destruct (Nat.eq_dec (stp s r) (stp s r')) as [E|E].
    - apply (I_inj _ I r r' P) in E. subst r'. assert (t = t') by (eapply own_inj; eauto). subst t'. congruence.
    - eapply (active_not_below s t r t' r'); eauto. lia.
  Qed.

  (* a load of next of x by a thread that is entitled to it reads the newest message *)
  Lemma nx_newest s t x m ch : Inv s ->
    crt s x = t \/ (pub s x /\ vle (pubv s x) (clk s t) /\ passed s t x) ->
    lidx m (ssc_nx o) (hs s (L_nx x)) (clk s t) (seen s t (L_nx x)) ch = 0.
  Proof.
    intros I H. pose proof (I_seen _ I t (L_nx x)) as Hs.
    destruct (hs s (L_nx x)) as [|m0 h'] eqn:Eh.
    - destruct (lidx_bounds m (ssc_nx o) [] (clk s t) (seen s t (L_nx x)) ch Hs) as [A _]. cbn in A. lia.
    - eapply lidx_known; [exact Hs|reflexivity|]. unfold known. apply Nat.leb_le.
      assert (Hn : nth_error (hs s (L_nx x)) 0 = Some m0) by (rewrite Eh; reflexivity).
      destruct (I_nx _ I x 0 m0 Hn) as (A & B & C). rewrite A.
      destruct H as [<-|(P & K & [Hk|(v & Hr & Hv)])]; [exact B| |].
      + specialize (C Hk P). specialize (K (crt s x)). lia.
      + destruct (I_ow _ I x) as (_ & D & _). destruct (D v Hr) as (_ & _ & D3). specialize (D3 0 m0 Hn). specialize (Hv (crt s x)). lia.
  Qed.

  Lemma read_val_0 iv h : zp (read_val iv h 0) = zp (match nth_error h 0 with Some m => mval m | None => iv end).
  Proof. reflexivity. Qed.

  Lemma step_AULd s t ch : Inv s -> ok s (AULd t ch) -> Inv (step s (AULd t ch)).
  Proof.
    intros I Hok. destruct (ok_tag _ _ Hok) as [Ht Htag]. cbn [actor at_tag] in *.
    unfold pcT in Htag. destruct (pc (ths s t)) eqn:Ep; try discriminate. clear Htag.
    pose proof (I_pc _ I t) as Hp. unfold pcT in Hp. rewrite Ep in Hp.
    destruct (ownT s t) as [|r] eqn:Eo; [congruence|]. clear Hp.
    destruct (I_own _ I t r Eo) as (O1 & O2 & O3 & O4 & O5 & O6 & O7).
    unfold step, load. unfold ownT in Eo. rewrite Eo. cbn [pred].
    rewrite (nx_newest s t r (o_u_ld o) ch I (or_introl O4)).
    fold (nvl s (L_nx r)). set (c0 := nvl s (L_nx r)).
    destruct (I_nxv _ I r O2 O7) as [N1 N2]. fold c0 in N1, N2.
    rewrite set_upd by apply (I_race _ I). apply upd_t_inv; cbn [pc own]; auto.
    - apply read_clock_mono.
    - apply seen_load; auto. lia.
    - unfold pcT. rewrite Ep. destruct (Nat.eqb c0 0); discriminate.
    - destruct (Nat.eqb c0 0); congruence.
    - unfold pcT. rewrite Ep. intros x0 [H|[m H]]; discriminate.
    - unfold pcT. rewrite Ep. discriminate.
    - intros r' n c1 b Hr Hs. inversion Hr; subst r'.
      destruct (Nat.eqb_spec c0 0) as [E0|E0]; [discriminate|]. cbn in Hs. inversion Hs; subst n c1 b.
      assert (wm s < stp s r) as Hw by (destruct (Nat.eq_dec (stp s r) (wm s)) as [E|E]; [specialize (N1 E); congruence|lia]).
      destruct (N2 Hw) as (y & Ey & Sy). exists y. split; [exact Ey|].
      assert (pub s y) as Py by (unfold pub; pose proof (I_wm _ I); lia).
      split; [exact Py|]. split; [lia|]. split; [|split; [|split]].
      + eapply below_unfreed; eauto; [unfold pcT; rewrite Ep; reflexivity|lia|lia].
      + intros y' _ Hy'. lia.
      + discriminate.
      + exists y. auto.
    - intros r' n Hr Hs. inversion Hr; subst r'.
      destruct (Nat.eqb_spec c0 0) as [E0|E0]; [|discriminate]. cbn in Hs. inversion Hs; subst n.
      assert (stp s r = wm s) as Hw.
      { destruct (Nat.eq_dec (stp s r) (wm s)) as [E|E]; [exact E|]. destruct N2 as (y & Ey & _); [lia|congruence]. }
      split; [left; reflexivity|]. split; [|split].
      + intros y Py Hy. left. apply (I_free _ I y); [exact Py|lia].
      + intros y Py Hy. apply (I_free _ I y); [exact Py|lia].
      + discriminate.
    - intros xx gg ee HH; repeat match type of HH with context [if ?b then _ else _] => destruct b end; discriminate HH.
  Qed.

  Lemma knows_older s t r x : Inv s -> ownT s t = S r -> pub s x -> stp s x <= stp s r -> vle (pubv s x) (clk s t).
  Proof.
    intros I H P L. destruct (I_own _ I t r H) as (_ & _ & _ & _ & _ & K & _).
    eapply vle_trans; [apply (I_mono _ I r x P L)|exact K].
  Qed.
  Lemma hbk_ok s t r x : Inv s -> ownT s t = S r -> pub s x -> stp s x <= stp s r -> freed s x = false -> hbk s t x = true.
  Proof.
    intros I H P L F. unfold hbk. apply Nat.leb_le.
    destruct (I_rec _ I x (proj2 (I_stp _ I x) P) F) as (A & _ & C & _). rewrite A.
    specialize (C P). pose proof (knows_older s t r x I H P L (crt s x)). lia.
  Qed.
  Lemma passed_upd s t T c sn rc u y : vle (clk s t) c -> passed s u y -> passed (upd_t s t T c sn rc) u y.
  Proof.
    intros Hc [H|(v & Hr & Hv)]; [left; exact H|right]. exists v. split; [exact Hr|].
    unfold upd_t. cbn. unfold fupd. eqd u t; [eapply vle_trans; eauto|exact Hv].
  Qed.

  Lemma step_AOwn s t ch : Inv s -> ok s (AOwn t ch) -> Inv (step s (AOwn t ch)).
  Proof.
    intros I Hok. destruct (ok_tag _ _ Hok) as [Ht Htag]. cbn [actor at_tag] in *.
    unfold pcT in Htag. destruct (pc (ths s t)) eqn:Ep; try discriminate. clear Htag.
    pose proof (I_pc _ I t) as Hp. unfold pcT in Hp. rewrite Ep in Hp.
    destruct (ownT s t) as [|r] eqn:Eo; [congruence|]. clear Hp.
    destruct (I_scan _ I t r n c false Eo) as (x & En & Px & Sx & Fx & Pa & _ & Cc); [unfold pcT; rewrite Ep; reflexivity|].
    subst n. unfold step. rewrite Ep. unfold load. cbn [pred]. unfold ownT in Eo. rewrite Eo.
    set (h := hs s (L_ow x)). set (i := lidx _ _ h _ _ ch).
    destruct (lidx_bounds (o_s_own o) (ssc_ow o) h (clk s t) (seen s t (L_ow x)) ch (I_seen _ I t (L_ow x))) as [B1 B2].
    fold i in B1, B2. set (v := zp (read_val (oinit s x) h i)).
    assert (Hc : vle (clk s t) (read_clock (o_s_own o) h i (clk s t))) by apply read_clock_mono.
    rewrite setr_upd; [|apply (I_race _ I)|eapply hbk_ok; eauto; lia].
    apply upd_t_inv; cbn [pc own]; auto.
    - apply seen_load; auto.
    - unfold pcT. rewrite Ep. destruct (Nat.eqb v 0); discriminate.
    - destruct (Nat.eqb v 0); congruence.
    - unfold pcT. rewrite Ep. intros x0 [H|[m H]]; discriminate.
    - unfold pcT. rewrite Ep. discriminate.
    - intros r' n c1 b Hr Hs. inversion Hr; subst r'.
      destruct (Nat.eqb_spec v 0) as [E0|E0]; [|discriminate]. cbn in Hs. inversion Hs; subst n c1 b.
      exists x. split; [reflexivity|]. split; [exact Px|]. split; [exact Sx|]. split; [exact Fx|]. split; [|split; [|exact Cc]].
      + intros y Py Hy. apply passed_upd; [exact Hc|]. apply Pa; auto.
      + intros _. destruct (I_ow _ I x) as (A & B & _). fold h in A.
        destruct A as [A|(w & m & A1 & A2 & A3)].
        * left. change (kind s x = true). unfold v, read_val, oinit in E0. rewrite A in E0. destruct (kind s x); [reflexivity|exfalso]. destruct i; vm_compute in E0; discriminate.
        * fold h in A1. destruct i as [|i].
          -- right. exists w. split; [exists m; auto|]. unfold upd_t. cbn. rewrite fupd_eq.
             eapply read_clock_acq; [exact H_own_acq|rewrite A1; reflexivity|exact A3].
          -- exfalso. destruct (B w) as (K1 & _); [exists m; auto|].
             unfold v, read_val in E0. rewrite A1 in E0. rewrite A1 in B1. cbn in B1. assert (i = 0) by lia. subst i. cbn in E0.
             unfold oinit in E0. rewrite K1 in E0. vm_compute in E0. discriminate.
    - intros r' n Hr Hs. destruct (Nat.eqb v 0); discriminate.
    - intros xx gg ee HH; repeat match type of HH with context [if ?b then _ else _] => destruct b end; discriminate HH.
  Qed.

  (* below an active, non-reclaiming record r: a record y is not freed if every record from just above y
     up to r has been passed by r's owner *)
  Lemma scan_unfreed s t r lo y : Inv s -> ownT s t = S r -> inrec (pcT s t) = None ->
    (forall y', pub s y' -> lo <= stp s y' < stp s r -> passed s t y') ->
    pub s y -> wm s <= stp s y -> lo <= S (stp s y) -> stp s y < stp s r -> freed s y = false.
  Proof.
    intros I H Hn Pa Py Hw Hlo Hlt. destruct (freed s y) eqn:F; [exfalso|reflexivity].
    destruct (I_free _ I y) as [_ A]. destruct (A F) as [_ [A1|(t' & r' & n & U1 & U2 & U3)]]; [lia|].
    destruct (I_own _ I t r H) as (_ & P & _). destruct (I_own _ I t' r' U1) as (_ & P' & _).
    destruct (lt_eq_lt_dec (stp s r) (stp s r')) as [[L|E]|L].
    - eapply (active_not_below s t r t' r'); eauto.
    - apply (I_inj _ I r r' P) in E. subst r'. assert (t = t') by (eapply own_inj; eauto). subst t'. congruence.
    - apply (active_not_passed s t' r' t I U1). apply Pa; [exact P'|lia].
  Qed.

  Lemma step_ANx s t ch : Inv s -> ok s (ANx t ch) -> Inv (step s (ANx t ch)).
  Proof.
    intros I Hok. destruct (ok_tag _ _ Hok) as [Ht Htag]. cbn [actor at_tag] in *.
    unfold pcT in Htag. destruct (pc (ths s t)) eqn:Ep; try discriminate. clear Htag.
    pose proof (I_pc _ I t) as Hp. unfold pcT in Hp. rewrite Ep in Hp.
    destruct (ownT s t) as [|r] eqn:Eo; [congruence|]. clear Hp.
    destruct (I_scan _ I t r n c true Eo) as (x & En & Px & Sx & Fx & Pa & Pb & (y0 & Ec & Sy0)); [unfold pcT; rewrite Ep; reflexivity|].
    specialize (Pb eq_refl). subst n c.
    assert (Kx : vle (pubv s x) (clk s t)) by (eapply knows_older; eauto; lia).
    unfold step. rewrite Ep. unfold load. cbn [pred].
    rewrite (nx_newest s t x (o_s_nx o) ch I (or_intror (conj Px (conj Kx Pb)))).
    fold (nvl s (L_nx x)). set (m := nvl s (L_nx x)).
    destruct (I_nxv _ I x Px (proj1 Sx)) as [N1 N2]. fold m in N1, N2.
    assert (Hc : vle (clk s t) (read_clock (o_s_nx o) (hs s (L_nx x)) 0 (clk s t))) by apply read_clock_mono.
    assert (Hin : inrec (pcT s t) = None) by (unfold pcT; rewrite Ep; reflexivity).
    unfold ownT in Eo. rewrite Eo.
    rewrite setr_upd; [|apply (I_race _ I)|eapply hbk_ok; eauto; lia].
    apply upd_t_inv; cbn [pc own]; auto.
    - apply seen_load; auto. lia.
    - unfold pcT. rewrite Ep. destruct (Nat.eqb m 0); discriminate.
    - destruct (Nat.eqb m 0); congruence.
    - unfold pcT. rewrite Ep. intros x0 [H|[m0 H]]; discriminate.
    - unfold pcT. rewrite Ep. discriminate.
    - intros r' n c1 b Hr Hs. inversion Hr; subst r'.
      destruct (Nat.eqb_spec m 0) as [E0|E0]; [discriminate|]. cbn in Hs. inversion Hs; subst n c1 b.
      assert (wm s < stp s x) as Hw by (destruct (Nat.eq_dec (stp s x) (wm s)) as [E|E]; [specialize (N1 E); congruence|lia]).
      destruct (N2 Hw) as (y & Ey & Sy). exists y. split; [exact Ey|].
      assert (pub s y) as Py by (unfold pub; pose proof (I_wm _ I); lia).
      assert (Pa' : forall y', pub s y' -> stp s x <= stp s y' < stp s r -> passed s t y').
      { intros y' Py' Hy'. destruct (Nat.eq_dec (stp s y') (stp s x)) as [E|E]; [|apply Pa; [exact Py'|lia]].
        apply (I_inj _ I y' x Py') in E. subst y'. exact Pb. }
      split; [exact Py|]. split; [lia|]. split; [|split; [|split]].
      + eapply (scan_unfreed s t r (stp s x) y); eauto; lia.
      + intros y' Py' Hy'. apply passed_upd; [exact Hc|]. apply Pa'; [exact Py'|lia].
      + discriminate.
      + exists y0. auto.
    - intros r' n Hr Hs. inversion Hr; subst r'.
      destruct (Nat.eqb_spec m 0) as [E0|E0]; [|discriminate]. cbn in Hs. inversion Hs; subst n.
      assert (stp s x = wm s) as Hw.
      { destruct (Nat.eq_dec (stp s x) (wm s)) as [E|E]; [exact E|]. destruct N2 as (y & Ey & _); [lia|congruence]. }
      assert (pub s y0) as Py0 by (unfold pub; pose proof (I_wm _ I); lia).
      split; [right; exists y0; split; [reflexivity|split; [exact Py0|split; [lia|]]]|split; [|split]].
      + eapply (scan_unfreed s t r (stp s r) y0); eauto; try lia; try (intros y' _ Hy'; lia).
      + intros y Py Hy. destruct (lt_eq_lt_dec (stp s y) (stp s x)) as [[L|E]|L].
        * left. apply (I_free _ I y); [exact Py|lia].
        * right. apply (I_inj _ I y x Py) in E. subst y. apply passed_upd; auto.
        * right. apply passed_upd; [exact Hc|]. apply Pa; [exact Py|lia].
      + intros y Py Hy. cbn [lowp] in Hy. lia.
      + discriminate.
    - intros xx gg ee HH; repeat match type of HH with context [if ?b then _ else _] => destruct b end; discriminate HH.
  Qed.

  Lemma step_ANxF s t ch : Inv s -> ok s (ANxF t ch) -> Inv (step s (ANxF t ch)).
  Proof.
    intros I Hok. destruct (ok_tag _ _ Hok) as [Ht Htag]. cbn [actor at_tag] in *.
    unfold pcT in Htag. destruct (pc (ths s t)) eqn:Ep; try discriminate. clear Htag.
    pose proof (I_pc _ I t) as Hp. unfold pcT in Hp. rewrite Ep in Hp. destruct Hp as [Hp Hn0].
    destruct (ownT s t) as [|r] eqn:Eo; [congruence|]. clear Hp.
    assert (Hin : inrec (pcT s t) = Some n) by (unfold pcT; rewrite Ep; reflexivity).
    destruct (I_recl _ I t r n Eo Hin) as (R1 & R2 & R3 & R4).
    destruct R1 as [R1|(x & En & Px & Sx & Fx)]; [congruence|]. subst n.
    assert (Pb : passed s t x) by (destruct (R2 x Px (proj2 Sx)) as [A|A]; [congruence|exact A]).
    assert (Kx : vle (pubv s x) (clk s t)) by (eapply knows_older; eauto; lia).
    unfold step. rewrite Ep. unfold load. cbn [pred].
    rewrite (nx_newest s t x (o_f_nx o) ch I (or_intror (conj Px (conj Kx Pb)))).
    fold (nvl s (L_nx x)). set (m := nvl s (L_nx x)).
    pose proof (I_nxv _ I x Px (proj1 Sx)) as Nx. fold m in Nx.
    assert (Hc : vle (clk s t) (read_clock (o_f_nx o) (hs s (L_nx x)) 0 (clk s t))) by apply read_clock_mono.
    unfold ownT in Eo. rewrite Eo.
    rewrite setr_upd; [|apply (I_race _ I)|eapply hbk_ok; eauto; lia].
    apply upd_t_inv; cbn [pc own]; auto.
    - apply seen_load; auto. lia.
    - unfold pcT. rewrite Ep. discriminate.
    - unfold pcT. rewrite Ep. intros x0 [H|[m0 H]]; [inversion H; subst x0; right; exists m; reflexivity|discriminate].
    - unfold pcT. rewrite Ep. intros n0 H. inversion H; subst n0. exists (S x). split; [reflexivity|lia].
    - discriminate.
    - intros r' n Hr Hs. inversion Hr; subst r'. cbn in Hs. inversion Hs; subst n.
      split; [right; exists x; auto|]. split; [|split; [exact R3|]].
      + intros y Py Hy. destruct (R2 y Py Hy) as [A|A]; [left; exact A|right; apply passed_upd; auto].
      + intros m0 H. inversion H; subst m0. exact Nx.
    - intros xx gg ee HH; repeat match type of HH with context [if ?b then _ else _] => destruct b end; discriminate HH.
  Qed.

  Lemma rmw_clock_mono m prev c : vle c (rmw_clock m prev c).
  Proof.
    unfold rmw_clock. destruct prev as [p|]; [|apply vle_refl]. destruct (mrel p); [|apply vle_refl].
    destruct (is_acq m); [apply vle_join_l|apply vle_refl].
  Qed.

  Lemma cas_fail_inv s t x g e cur c' : Inv s -> pc (ths s t) = RCas x g e -> vle (clk s t) c' ->
    Inv (set s t (Th (RSt x cur e) (own (ths s t))) c' (hs s)
             (fupd (seen s) t (fupd (seen s t) L_ZH (length (hs s L_ZH))))).
  Proof.
    intros I Ep Hc. rewrite set_upd by apply (I_race _ I). apply upd_t_inv; cbn [pc own]; auto.
    - intros t' l'. unfold fupd. eqd t' t; [|apply (I_seen _ I)]. eqd l' L_ZH; [lia|apply (I_seen _ I)].
    - unfold pcT. rewrite Ep. cbn. auto.
    - unfold pcT. rewrite Ep. intros x0 [H|[m H]]; discriminate.
    - unfold pcT. rewrite Ep. discriminate.
    - discriminate.
    - discriminate.
    - discriminate.
  Qed.

  (* the message of a successful CAS releases a clock that dominates the pusher's clock and the clock
     released for every record already in the log; the pusher acquires it *)
  Lemma cas_msg s t m v : Inv s -> is_rel m = true -> is_acq m = true ->
    let h := hs s L_ZH in let c := clk s t in let prev := nth_error h 0 in
    exists pv, mrel (rmw_msg m t c prev v) = Some pv /\ vle c pv /\ vle pv (rmw_clock m prev c) /\
               (forall y, pub s y -> vle (pubv s y) pv) /\
               (zp (read_val 0%Z h 0) = 0 -> length h = 0) /\
               (forall y, zp (read_val 0%Z h 0) = S y -> stp s y = length h /\ 0 < length h).
  Proof.
    intros I Hr Ha h c prev. unfold rmw_msg, rmw_clock. cbn [mrel]. rewrite Hr, Ha. subst prev.
    destruct h as [|p h'] eqn:Eh.
    - cbn. exists c. split; [reflexivity|]. split; [apply vle_refl|]. split; [apply vle_refl|]. split; [|split; [reflexivity|]].
      + intros y Py. exfalso. destruct (I_stp _ I y) as [A _]. fold L_ZH in A. unfold pub in Py.
        change (hs s L_ZH) with h in A. rewrite Eh in A. cbn in A. lia.
      + intros y Hy. vm_compute in Hy. discriminate.
    - cbn [nth_error]. assert (Hn : nth_error (hs s L_ZH) 0 = Some p) by (change (hs s L_ZH) with h; rewrite Eh; reflexivity).
      destruct (I_zh _ I 0 p Hn) as (x0 & S0 & V0 & R0). rewrite R0.
      change (hs s L_ZH) with h in S0. rewrite Eh in S0. rewrite Nat.sub_0_r in S0.
      exists (vjoin c (pubv s x0)). split; [reflexivity|]. split; [apply vle_join_l|]. split; [apply vle_refl|]. split; [|split].
      + intros y Py. eapply vle_trans; [|apply vle_join_r]. apply (I_mono _ I x0 y Py).
        destruct (I_stp _ I y) as [A _]. change (hs s L_ZH) with h in A. rewrite Eh in A. lia.
      + unfold read_val. cbn [nth_error]. rewrite V0, zp_pz. discriminate.
      + intros y Hy. unfold read_val in Hy. cbn [nth_error] in Hy. rewrite V0, zp_pz in Hy. inversion Hy; subst y. split; [exact S0|cbn; lia].
  Qed.

  Lemma cas_succ_inv s t x g e msg c' pv : Inv s -> pc (ths s t) = RCas x g e ->
    mval msg = pz (S x) -> mrel msg = Some pv -> vle (clk s t) pv -> vle pv c' ->
    (forall y, pub s y -> vle (pubv s y) pv) ->
    (g = 0 -> length (hs s L_ZH) = 0) -> (forall y, g = S y -> stp s y = length (hs s L_ZH) /\ 0 < length (hs s L_ZH)) ->
    Inv (St (fupd (ths s) t (Th Held (if e then own (ths s t) else S x))) (fupd (clk s) t (vinc c' t))
            (fupd (hs s) L_ZH (msg :: hs s L_ZH))
            (fupd (seen s) t (fupd (seen s t) L_ZH (S (length (hs s L_ZH)))))
            (nrec s) (kind s) (recs s) (nods s) (race s) (fupd (stp s) x (S (length (hs s L_ZH)))) (crt s)
            (fupd (pubv s) x pv) (wm s) (freed s)).
  Proof.
    intros I Ep Hv Hr Hcp Hpc Hall Hg0 HgS. set (L := length (hs s L_ZH)) in *. set (s' := St _ _ _ _ _ _ _ _ _ _ _ _ _ _).
    destruct (I_reg _ I t x e) as (X1 & X2 & X3 & X4 & X5); [unfold pcT; rewrite Ep; reflexivity|].
    pose proof (I_cas _ I t x g e) as Hg. unfold pcT in Hg. specialize (Hg Ep).
    assert (CM : forall u, vle (clk s u) (clk s' u)).
    { intros u. unfold s'. cbn [ths clk hs seen nrec kind recs nods race stp crt pubv wm freed pc own]. unfold fupd. eqd u t; [|apply vle_refl].
      eapply vle_trans; [exact Hcp|]. eapply vle_trans; [exact Hpc|apply vle_inc]. }
    assert (Kt : vle pv (clk s' t)).
    { unfold s'. cbn [ths clk hs seen nrec kind recs nods race stp crt pubv wm freed pc own]. rewrite fupd_eq. eapply vle_trans; [exact Hpc|apply vle_inc]. }
    assert (E1 : forall y, y <> x -> stp s' y = stp s y) by (intros y Hy; unfold s'; cbn [ths clk hs seen nrec kind recs nods race stp crt pubv wm freed pc own]; rewrite fupd_ne by exact Hy; reflexivity).
    assert (E2 : stp s' x = S L) by (unfold s'; cbn [ths clk hs seen nrec kind recs nods race stp crt pubv wm freed pc own]; rewrite fupd_eq; reflexivity).
    assert (PX : forall y, pub s y -> y <> x) by (intros y Py ->; unfold pub in Py; lia).
    assert (PB : forall y, pub s' y -> y = x \/ (y <> x /\ pub s y)).
    { intros y Py. destruct (Nat.eq_dec y x) as [->|Hne]; [left; reflexivity|right]. split; [exact Hne|]. unfold pub in *. rewrite E1 in Py by exact Hne. exact Py. }
    assert (PB' : forall y, pub s y -> pub s' y) by (intros y Py; unfold pub; rewrite E1 by (apply PX; exact Py); exact Py).
    assert (SL : forall y, stp s y <= L) by (intros y; apply (I_stp _ I y)).
    assert (V1 : forall y, y <> x -> pubv s' y = pubv s y) by (intros y Hy; unfold s'; cbn [ths clk hs seen nrec kind recs nods race stp crt pubv wm freed pc own]; rewrite fupd_ne by exact Hy; reflexivity).
    assert (V2 : pubv s' x = pv) by (unfold s'; cbn [ths clk hs seen nrec kind recs nods race stp crt pubv wm freed pc own]; rewrite fupd_eq; reflexivity).
    assert (HN : forall y, hs s' (L_nx y) = hs s (L_nx y)) by (intros y; unfold s'; cbn [ths clk hs seen nrec kind recs nods race stp crt pubv wm freed pc own]; rewrite fupd_ne by (unfold L_nx, L_ZH; lia); reflexivity).
    assert (HO : forall y, hs s' (L_ow y) = hs s (L_ow y)) by (intros y; unfold s'; cbn [ths clk hs seen nrec kind recs nods race stp crt pubv wm freed pc own]; rewrite fupd_ne by (unfold L_ow, L_ZH; lia); reflexivity).
    assert (HZ : hs s' L_ZH = msg :: hs s L_ZH) by (unfold s'; cbn [ths clk hs seen nrec kind recs nods race stp crt pubv wm freed pc own]; rewrite fupd_eq; reflexivity).
    assert (OWt : ownT s' t = if e then ownT s t else S x) by (unfold s', ownT; cbn [ths clk hs seen nrec kind recs nods race stp crt pubv wm freed pc own]; rewrite fupd_eq; reflexivity).
    assert (OW : forall u, u <> t -> ownT s' u = ownT s u) by (intros u Hu; unfold s', ownT; cbn [ths clk hs seen nrec kind recs nods race stp crt pubv wm freed pc own]; rewrite fupd_ne by exact Hu; reflexivity).
    assert (PC : forall u, u <> t -> pcT s' u = pcT s u) by (intros u Hu; unfold s', pcT; cbn [ths clk hs seen nrec kind recs nods race stp crt pubv wm freed pc own]; rewrite fupd_ne by exact Hu; reflexivity).
    assert (PCt : pcT s' t = Held) by (unfold s', pcT; cbn [ths clk hs seen nrec kind recs nods race stp crt pubv wm freed pc own]; rewrite fupd_eq; reflexivity).
    assert (OWS : forall u r, ownT s' u = S r -> (u = t /\ e = false /\ r = x) \/ (r <> x /\ ownT s u = S r)).
    { intros u r H. eqd u t.
      - rewrite OWt in H. destruct e; [right|left; inversion H; auto]. split; [|exact H].
        destruct (I_own _ I t r H) as (_ & P & _). apply PX. exact P.
      - rewrite OW in H by exact E. right. split; [|exact H]. destruct (I_own _ I u r H) as (_ & P & _). apply PX. exact P. }
    assert (RL : forall y v, rel s' y v <-> rel s y v) by (intros y v; unfold rel; rewrite HO; tauto).
    assert (PM : forall u y, passed s u y -> passed s' u y).
    { intros u y [H|(v & H1 & H2)]; [left; exact H|right]. exists v. split; [apply RL; exact H1|]. eapply vle_trans; [exact H2|apply CM]. }
    pose proof (I_wm _ I) as W. fold L in W.
    constructor.
    - (* I_seen *) intros u l. unfold s'. cbn [seen hs]. pose proof (I_seen _ I u l) as H0. destruct (Nat.eq_dec l L_ZH) as [->|Hl].
      + rewrite fupd_eq. cbn [length]. fold L. fold L in H0. unfold fupd at 1. eqd u t; [rewrite fupd_eq; lia|lia].
      + rewrite (fupd_ne (hs s)) by exact Hl. unfold fupd at 1. eqd u t; [rewrite fupd_ne by exact Hl; exact H0|exact H0].
    - (* I_wm *) change (wm s') with (wm s). rewrite HZ. cbn [length]. fold L. lia.
    - (* I_stp *) intros y. rewrite HZ. cbn [length]. fold L. change (nrec s') with (nrec s). split.
      + destruct (Nat.eq_dec y x) as [->|Hne]; [rewrite E2; lia|rewrite E1 by exact Hne; specialize (SL y); lia].
      + intros Py. destruct (PB y Py) as [->|[_ P]]; [exact X1|apply (I_stp _ I y); exact P].
    - (* I_inj *) intros y z Py E. destruct (Nat.eq_dec y x) as [->|Hy]; destruct (Nat.eq_dec z x) as [->|Hz]; auto.
      + rewrite E2, E1 in E by exact Hz. specialize (SL z). lia.
      + rewrite E2, E1 in E by exact Hy. specialize (SL y). lia.
      + rewrite !E1 in E by assumption. destruct (PB y Py) as [->|[_ P]]; [contradiction|]. apply (I_inj _ I y z P E).
    - (* I_all *) intros k Hk. rewrite HZ in Hk. cbn [length] in Hk. fold L in Hk.
      destruct (Nat.eq_dec k (S L)) as [->|Hne]; [exists x; exact E2|].
      destruct (I_all _ I k) as [y Hy]; [fold L; lia|]. exists y. rewrite E1; [exact Hy|]. intros ->. lia.
    - (* I_zh *) intros j m Hn. rewrite HZ in Hn |- *. cbn [length]. fold L. destruct j as [|j]; cbn in Hn.
      + inversion Hn; subst m. exists x. rewrite E2, V2. split; [lia|]. split; [exact Hv|exact Hr].
      + destruct (I_zh _ I j m Hn) as (y & A & B & C). fold L in A.
        assert (j < L) by (apply nth_error_Some; congruence).
        assert (y <> x) by (intros ->; lia). exists y. rewrite E1, V1 by assumption. split; [lia|auto].
    - (* I_mono *) intros z y Py Hle. destruct (PB y Py) as [->|[Hy P]].
      + destruct (Nat.eq_dec z x) as [->|Hz]; [apply vle_refl|]. rewrite E2, E1 in Hle by exact Hz. specialize (SL z). lia.
      + rewrite V1 by exact Hy. destruct (Nat.eq_dec z x) as [->|Hz]; [rewrite V2; apply Hall; exact P|].
        rewrite V1 by exact Hz. rewrite !E1 in Hle by assumption. apply (I_mono _ I z y P Hle).
    - (* I_fresh *) intros y Hy. change (nrec s') with (nrec s) in Hy. assert (y <> x) by lia.
      rewrite HN, HO, E1 by assumption. apply (I_fresh _ I y Hy).
    - (* I_reg *) intros u y e0 H. eqd u t; [rewrite PCt in H; discriminate|]. rewrite PC in H by exact E.
      destruct (I_reg _ I u y e0 H) as (A & B & C & D & F). assert (y <> x) by (intros ->; congruence).
      change (nrec s') with (nrec s). change (crt s') with (crt s). change (kind s') with (kind s).
      rewrite E1, OW by assumption. auto.
    - (* I_pc *) intros u. eqd u t.
      + rewrite PCt, OWt. destruct e; [exact X5|discriminate].
      + rewrite PC, OW by exact E. apply (I_pc _ I u).
    - (* I_rec *) intros y Hy Fy. change (nrec s') with (nrec s) in Hy. change (freed s' y) with (freed s y) in Fy.
      change (recs s' y) with (recs s y). change (crt s' y) with (crt s y).
      destruct (I_rec _ I y Hy Fy) as (A & B & C & D). split; [exact A|]. split; [eapply Nat.le_trans; [exact B|apply CM]|]. split.
      + intros Py. destruct (PB y Py) as [->|[Hne P]]; [rewrite V2, X3; specialize (Hcp t); rewrite X3 in B; lia|rewrite V1 by exact Hne; apply C; exact P].
      + intros u. destruct (D u) as [D1|[D1 D2]]; [left; exact D1|right]. split; [eapply Nat.le_trans; [exact D1|apply CM]|].
        eqd u t; [unfold pcT in D2; rewrite Ep in D2; destruct D2 as [D2|[m0 D2]]; discriminate|rewrite PC by exact E; exact D2].
    - (* I_nx *) intros y j m Hn. rewrite HN in Hn. change (crt s' y) with (crt s y). change (kind s' y) with (kind s y).
      destruct (I_nx _ I y j m Hn) as (A & B & C). split; [exact A|]. split; [eapply Nat.le_trans; [exact B|apply CM]|].
      intros Hk Py. destruct (PB y Py) as [->|[Hne P]]; [rewrite V2, X3; specialize (Hcp t); rewrite X3 in B; lia|rewrite V1 by exact Hne; apply C; assumption].
    - (* I_nxv *) intros y Py Hw. change (wm s') with (wm s) in *. unfold nxt_ok, nvl. rewrite HN. change (wm s') with (wm s).
      destruct (PB y Py) as [->|[Hne P]].
      + fold (nvl s (L_nx x)). rewrite Hg, E2. split.
        * intros E. destruct g as [|y0]; [reflexivity|]. destruct (HgS y0 eq_refl) as [_ G2]. fold L in G2. lia.
        * intros Hlt. destruct g as [|y0]; [specialize (Hg0 eq_refl); fold L in Hg0; lia|].
          exists y0. split; [reflexivity|]. destruct (HgS y0 eq_refl) as [G1 G2]. fold L in G1, G2. assert (y0 <> x) by (intros ->; lia).
          rewrite E1 by assumption. lia.
      + rewrite E1 in * by exact Hne. destruct (I_nxv _ I y P Hw) as [A B]. split; [exact A|].
        intros Hlt. destruct (B Hlt) as (y0 & A0 & B0). exists y0. split; [exact A0|]. rewrite E1; [exact B0|]. intros ->. lia.
    - (* I_ow *) intros y. rewrite HO. change (kind s' y) with (kind s y). change (crt s' y) with (crt s y).
      destruct (I_ow _ I y) as (A & B & C). split; [destruct A as [A|[v A]]; [left; exact A|right; exists v; apply RL; exact A]|]. split.
      + intros v Hrl. apply RL in Hrl. destruct (B v Hrl) as (B1 & B2 & B3). split; [exact B1|]. split; [apply PB'; exact B2|]. rewrite HN. exact B3.
      + intros Hk Py Ho. destruct (PB y Py) as [->|[Hne P]].
        * exists t. rewrite OWt. rewrite <- X4, Hk. reflexivity.
        * destruct (C Hk P Ho) as [u Hu]. exists u. eqd u t; [|rewrite OW by exact E; exact Hu].
          rewrite OWt. destruct e; [exact Hu|]. rewrite X5 in Hu. discriminate.
    - (* I_own *) intros u r H. change (kind s' r) with (kind s r). change (freed s' r) with (freed s r). change (crt s' r) with (crt s r).
      change (wm s') with (wm s). rewrite HO.
      destruct (OWS u r H) as [(-> & -> & ->)|[Hne H0]].
      + rewrite E2, V2. split; [exact X4|]. split; [unfold pub; rewrite E2; lia|]. split.
        { destruct (freed s x) eqn:F; [|reflexivity]. destruct (I_free _ I x) as [_ A]. destruct (A F) as [P _]. unfold pub in P. lia. }
        split; [exact X3|]. split.
        { destruct (I_ow _ I x) as ([A|[v A]] & B & _); [exact A|]. destruct (B v A) as (_ & P & _). unfold pub in P. lia. }
        split; [exact Kt|lia].
      + destruct (I_own _ I u r H0) as (A & B & C & D & F & G & K). rewrite E1, V1 by exact Hne.
        split; [exact A|]. split; [apply PB'; exact B|]. split; [exact C|]. split; [exact D|]. split; [exact F|]. split; [eapply vle_trans; [exact G|apply CM]|exact K].
    - (* I_free *) intros y. change (freed s' y) with (freed s y). change (wm s') with (wm s). destruct (I_free _ I y) as [A B]. split.
      + intros Py Hlt. destruct (PB y Py) as [->|[Hne P]]; [rewrite E2 in Hlt; lia|rewrite E1 in Hlt by exact Hne; auto].
      + intros F. destruct (B F) as [P B2]. split; [apply PB'; exact P|]. rewrite E1 by (apply PX; exact P).
        destruct B2 as [B2|(u & r & n & U1 & U2 & U3)]; [left; exact B2|right].
        assert (u <> t) by (intros ->; unfold pcT in U2; rewrite Ep in U2; discriminate).
        exists u, r, n. rewrite OW, PC by assumption. split; [exact U1|]. split; [exact U2|].
        destruct (I_own _ I u r U1) as (_ & Pr & _). rewrite (E1 r) by (apply PX; exact Pr).
        destruct (I_recl _ I u r n U1 U2) as ([->|(z & -> & Pz & _)] & _); [exact U3|].
        cbn [lowp] in *. rewrite E1 by (apply PX; exact Pz). exact U3.
    - (* I_scan *) intros u r n c b H1 H2. assert (u <> t) by (intros ->; rewrite PCt in H2; discriminate).
      rewrite OW in H1 by assumption. rewrite PC in H2 by assumption.
      destruct (I_scan _ I u r n c b H1 H2) as (z & A & Pz & Sz & Fz & Pa & Pb & (y0 & Ec & Sy0)).
      destruct (I_own _ I u r H1) as (_ & Pr & _ & _ & _ & _ & Wr).
      assert (Py0 : pub s y0) by (unfold pub; lia).
      exists z. change (wm s') with (wm s). change (freed s' z) with (freed s z).
      rewrite (E1 z), (E1 r) by (apply PX; assumption).
      split; [exact A|]. split; [apply PB'; exact Pz|]. split; [exact Sz|]. split; [exact Fz|]. split; [|split].
      + intros y Py Hy. destruct (PB y Py) as [->|[Hne P]]; [rewrite E2 in Hy; specialize (SL r); lia|].
        rewrite E1 in Hy by exact Hne. apply PM. apply Pa; assumption.
      + intros Hb. apply PM. apply Pb. exact Hb.
      + exists y0. rewrite E1 by (apply PX; exact Py0). auto.
    - (* I_recl *) intros u r n H1 H2. assert (u <> t) by (intros ->; rewrite PCt in H2; discriminate).
      rewrite OW in H1 by assumption. rewrite PC in H2 |- * by assumption.
      destruct (I_recl _ I u r n H1 H2) as (R1 & R2 & R3 & R4).
      destruct (I_own _ I u r H1) as (_ & Pr & _).
      change (wm s') with (wm s). rewrite (E1 r) by (apply PX; exact Pr).
      assert (LP : lowp s' n = lowp s n).
      { destruct R1 as [->|(z & -> & Pz & _)]; [reflexivity|]. cbn [lowp]. apply E1. apply PX. exact Pz. }
      split; [|split; [|split]].
      + destruct R1 as [R1|(z & A & Pz & Sz & Fz)]; [left; exact R1|right]. exists z. rewrite E1 by (apply PX; exact Pz).
        split; [exact A|]. split; [apply PB'; exact Pz|]. split; [exact Sz|exact Fz].
      + intros y Py Hy. destruct (PB y Py) as [->|[Hne P]]; [rewrite E2 in Hy; specialize (SL r); lia|].
        rewrite E1 in Hy by exact Hne. destruct (R2 y P Hy) as [A|A]; [left; exact A|right; apply PM; exact A].
      + intros y Py Hy. rewrite LP in Hy. destruct (PB y Py) as [->|[Hne P]]; [rewrite E2 in Hy; specialize (SL r); lia|].
        rewrite E1 in Hy by exact Hne. apply R3; assumption.
      + intros m0 Hm. destruct (R4 m0 Hm) as [A B]. unfold nxt_ok. change (wm s') with (wm s).
        destruct R1 as [->|(z & -> & Pz & Sz & _)].
        * exfalso. pose proof (I_pc _ I u) as Hq. rewrite Hm in Hq. destruct Hq as [_ Hq]. congruence.
        * cbn [pred] in *. rewrite E1 by (apply PX; exact Pz). split; [exact A|]. intros Hlt. destruct (B Hlt) as (y1 & A1 & B1).
          exists y1. split; [exact A1|]. rewrite E1; [exact B1|]. intros ->. lia.
    - (* I_nod *) intros y0. change (nods s' y0) with (nods s y0). destruct (I_nod _ I y0) as [A B].
      assert (OWK : forall u r, ownT s u = S r -> ownT s' u = S r).
      { intros u r H. eqd u t; [|rewrite OW by exact E; exact H]. rewrite OWt. destruct e; [exact H|]. rewrite X5 in H. discriminate. }
      split.
      + destruct A as [A|[P0 A]]; [left; exact A|right]. split; [apply PB'; exact P0|].
        rewrite (E1 y0) by (apply PX; exact P0). intros u r H. destruct (OWS u r H) as [(-> & -> & ->)|[Hne H0]].
        * rewrite E2. specialize (SL y0). lia.
        * rewrite E1 by exact Hne. eapply A; eauto.
      + intros Hk Hf u. destruct (B Hk Hf u) as [B1|[(r & R1 & R2 & R3)|(y & Y1 & Y2 & Y3 & Y4)]]; [left; exact B1|right; left|right; right].
        * assert (y0 <> x) by (intros ->; lia). destruct (I_own _ I u r R1) as (_ & Pr & _).
          exists r. rewrite (E1 y0), (E1 r) by (try assumption; apply PX; exact Pr).
          split; [apply OWK; exact R1|]. split; [exact R2|eapply Nat.le_trans; [exact R3|apply CM]].
        * assert (y0 <> x) by (intros ->; lia). assert (y <> x) by (intros ->; lia).
          exists y. change (kind s' y) with (kind s y). change (freed s' y) with (freed s y). rewrite !E1 by assumption.
          split; [exact Y1|]. split; [exact Y2|]. split; [exact Y3|].
          destruct Y4 as [(t' & T1 & T2)|(v & V & W2)]; [left|right].
          -- exists t'. split; [apply OWK; exact T1|eapply Nat.le_trans; [exact T2|apply CM]].
          -- exists v. split; [apply RL; exact V|exact W2].
    - (* I_cas *) intros u y g0 e0 H. assert (u <> t) by (intros ->; rewrite PCt in H; discriminate).
      rewrite PC in H by assumption. unfold nvl. rewrite HN. apply (I_cas _ I u y g0 e0 H).
    - apply (I_race _ I).
    - intros y. change (nods s' y) with (nods s y). change (freed s' y) with (freed s y). destruct (I_nodw _ I y) as [A|[A|(u & A)]]; [left; exact A|right; left; exact A|right; right].
      exists u. assert (u <> t) by (intros ->; unfold pcT in A; rewrite Ep in A; destruct A as [A|[m0 A]]; discriminate). rewrite PC by assumption. exact A.
  Qed.

  Lemma step_ACas s t spur : Inv s -> ok s (ACas t spur) -> Inv (step s (ACas t spur)).
  Proof.
    intros I Hok. destruct (ok_tag _ _ Hok) as [Ht Htag]. cbn [actor at_tag] in *.
    unfold pcT in Htag. destruct (pc (ths s t)) eqn:Ep; try discriminate. clear Htag.
    unfold step. rewrite Ep.
    set (m := if e then o_e_cas o else o_r_cas o).
    assert (Hr : is_rel m = true) by (unfold m; destruct e; assumption).
    assert (Ha : is_acq m = true) by (unfold m; destruct e; assumption).
    destruct (cas_msg s t m (pz (S x)) I Hr Ha) as (pv & M1 & M2 & M3 & M4 & M5 & M6).
    destruct (Nat.eqb (zp (read_val 0%Z (hs s L_ZH) 0)) g && negb spur) eqn:Ec.
    - apply andb_true_iff in Ec as [Ec _]. apply Nat.eqb_eq in Ec. rewrite M1.
      eapply (cas_succ_inv s t x g e _ _ pv); eauto.
      + intros Hg. apply M5. congruence.
      + intros y Hy. apply M6. congruence.
    - apply cas_fail_inv with (g := g); [exact I|exact Ep|apply rmw_clock_mono].
  Qed.

  (* the creator's store to next of its not yet published record (state otherwise unchanged) *)
  Lemma store_nx_inv s t x g e m v : Inv s -> pcT s t = RSt x g e ->
    Inv (St (ths s) (clk s) (fupd (hs s) (L_nx x) (store_msg m t (clk s t) v :: hs s (L_nx x)))
            (fupd (seen s) t (fupd (seen s t) (L_nx x) (S (length (hs s (L_nx x))))))
            (nrec s) (kind s) (recs s) (nods s) (race s) (stp s) (crt s) (pubv s) (wm s) (freed s)).
  Proof.
    intros I Hp. assert (Hreg : regx (pcT s t) = Some (x, e)) by (rewrite Hp; reflexivity). set (s' := St _ _ _ _ _ _ _ _ _ _ _ _ _ _).
    destruct (I_reg _ I t x e Hreg) as (X1 & X2 & X3 & X4 & X5).
    assert (HN : forall y, y <> x -> hs s' (L_nx y) = hs s (L_nx y)).
    { intros y Hy. unfold s'. cbn [hs]. rewrite fupd_ne by (unfold L_nx; lia). reflexivity. }
    assert (HO : forall y, hs s' (L_ow y) = hs s (L_ow y)).
    { intros y. unfold s'. cbn [hs]. rewrite fupd_ne by (unfold L_nx, L_ow; lia). reflexivity. }
    assert (HZ : hs s' L_ZH = hs s L_ZH).
    { unfold s'. cbn [hs]. rewrite fupd_ne by (unfold L_nx, L_ZH; lia). reflexivity. }
    assert (HX : hs s' (L_nx x) = store_msg m t (clk s t) v :: hs s (L_nx x)) by (unfold s'; cbn [hs]; rewrite fupd_eq; reflexivity).
    assert (PX : forall y, pub s y -> y <> x) by (intros y Py ->; unfold pub in Py; lia).
    assert (RL : forall y w, rel s' y w <-> rel s y w) by (intros y w; unfold rel; rewrite HO; tauto).
    destruct I as [J1 J2 J3 J4 J5 J6 J7 J8 J9 J10 J11 J12 J13 J14 J15 J16 J17 J18 J19 J20 J21 J22].
    constructor; try assumption.
    - intros u l. unfold s'. cbn [seen hs]. specialize (J1 u l). destruct (Nat.eq_dec l (L_nx x)) as [->|Hl].
      + rewrite fupd_eq. cbn [length]. unfold fupd at 1. eqd u t; [rewrite fupd_eq; lia|lia].
      + rewrite (fupd_ne (hs s)) by exact Hl. unfold fupd at 1. eqd u t; [rewrite fupd_ne by exact Hl; exact J1|exact J1].
    - intros y Hy. change (nrec s') with (nrec s) in Hy. rewrite HN, HO by lia. apply J8. exact Hy.
    - intros y j m0 H. destruct (Nat.eq_dec y x) as [->|Hy]; [|rewrite HN in H by exact Hy; apply (J12 y j m0 H)].
      rewrite HX in H. destruct j as [|j]; cbn in H; [|apply (J12 x j m0 H)].
      inversion H; subst m0. unfold store_msg. cbn [mwho mwhen]. change (crt s' x) with (crt s x). change (clk s' (crt s x)) with (clk s (crt s x)).
      rewrite X3. split; [reflexivity|]. split; [lia|]. intros _ P. unfold pub in P. change (stp s' x) with (stp s x) in P. lia.
    - intros y Py Hw. unfold nxt_ok, nvl. rewrite HN by (apply PX; exact Py). apply (J13 y Py Hw).
    - intros y. rewrite HO. destruct (J14 y) as (A & B & C). split; [destruct A as [A|[w A]]; [left; exact A|right; exists w; apply RL; exact A]|]. split; [|exact C].
      intros w Hr. apply RL in Hr. destruct (B w Hr) as (B1 & B2 & B3). split; [exact B1|]. split; [exact B2|]. rewrite HN by (apply PX; exact B2). exact B3.
    - intros u r H. rewrite HO. apply (J15 u r H).
    - intros u r n c b H1 H2. destruct (J17 u r n c b H1 H2) as (z & A & B & C & D & F & G & K). exists z.
      split; [exact A|]. split; [exact B|]. split; [exact C|]. split; [exact D|]. split; [|split; [|exact K]].
      + intros y Py Hy. destruct (F y Py Hy) as [Q|(w & Q1 & Q2)]; [left; exact Q|right; exists w; split; [apply RL; exact Q1|exact Q2]].
      + intros Hb. destruct (G Hb) as [Q|(w & Q1 & Q2)]; [left; exact Q|right; exists w; split; [apply RL; exact Q1|exact Q2]].
    - intros u r n H1 H2. destruct (J18 u r n H1 H2) as (A & B & C & D). split; [exact A|]. split; [|split; [exact C|exact D]].
      intros y Py Hy. destruct (B y Py Hy) as [Q|[Q|(w & Q1 & Q2)]]; [left; exact Q|right; left; exact Q|right; right; exists w; split; [apply RL; exact Q1|exact Q2]].
    - intros y0. destruct (J19 y0) as [A B]. split; [exact A|]. intros Hk Hf u.
      destruct (B Hk Hf u) as [B1|[B1|(y & Y1 & Y2 & Y3 & [Y4|(w & Y4 & Y5)])]]; [left; exact B1|right; left; exact B1|right; right|right; right].
      + exists y. auto.
      + exists y. split; [exact Y1|]. split; [exact Y2|]. split; [exact Y3|]. right. exists w. split; [apply RL; exact Y4|exact Y5].
    - intros u y g0 e0 H. change (pcT s' u) with (pcT s u) in H. unfold nvl. rewrite HN; [apply (J20 u y g0 e0 H)|].
      intros ->. destruct (J9 u x e0) as (_ & _ & C1 & _); [rewrite H; reflexivity|].
      assert (u = t) by congruence. subst u. congruence.
  Qed.

  Lemma step_ASt s t : Inv s -> ok s (ASt t) -> Inv (step s (ASt t)).
  Proof.
    intros I Hok. destruct (ok_tag _ _ Hok) as [Ht Htag]. cbn [actor at_tag] in *.
    unfold pcT in Htag. destruct (pc (ths s t)) eqn:Ep; try discriminate. clear Htag.
    unfold step. rewrite Ep. unfold store.
    set (m := if e then o_e_st o else o_r_st o).
    pose proof (store_nx_inv s t x g e m (pz g) I Ep) as I1.
    set (s1 := St _ _ _ _ _ _ _ _ _ _ _ _ _ _) in I1.
    change (Inv (upd_t s1 t (Th (RCas x g e) (own (ths s t))) (vinc (clk s t) t) (seen s1) (race s))).
    rewrite (I_race _ I). apply upd_t_inv; cbn [pc own]; auto.
    - apply vle_inc.
    - apply (I_seen _ I1).
    - unfold pcT. change (ths s1) with (ths s). rewrite Ep. cbn. auto.
    - unfold pcT. change (ths s1) with (ths s). rewrite Ep. intros x0 [H|[m0 H]]; discriminate.
    - unfold pcT. change (ths s1) with (ths s). rewrite Ep. discriminate.
    - discriminate.
    - discriminate.
    - intros x0 g0 e0 H. inversion H; subst x0 g0 e0. unfold nvl, s1. cbn [hs]. rewrite fupd_eq. unfold read_val. cbn. apply zp_pz.
  Qed.

  Lemma alloc_inv s t (e : bool) : Inv s -> (if e then pcT s t = Held else pcT s t = Idle) -> Inv (alloc N s t e).
  Proof.
    intros I Hp. unfold alloc. cbv zeta. remember (nrec s) as x eqn:Ex.
    destruct (I_fresh _ I x ltac:(lia)) as (F1 & F2 & F3 & F4 & F5 & F6).
    assert (Hw : snd (ft_write N t (clk s t) (recs s x)) = true).
    { apply ft_write_ok; rewrite F1; cbn; unfold vzero; intros; lia. }
    destruct (ft_write N t (clk s t) (recs s x)) as [f okw] eqn:Ew. cbn in Hw. subst okw.
    assert (Ef : f = Ft t (clk s t t) vzero) by (unfold ft_write in Ew; inversion Ew; reflexivity).
    rewrite (I_race _ I). cbn [negb orb]. set (s' := St _ _ _ _ _ _ _ _ _ _ _ _ _ _).
    assert (Hown : ownT s' t = ownT s t) by (unfold s', ownT; cbn [ths]; rewrite fupd_eq; reflexivity).
    assert (OW : forall u, ownT s' u = ownT s u) by (intros u; eqd u t; [exact Hown|unfold s', ownT; cbn [ths]; rewrite fupd_ne by exact E; reflexivity]).
    assert (PC : forall u, u <> t -> pcT s' u = pcT s u) by (intros u Hu; unfold s', pcT; cbn [ths]; rewrite fupd_ne by exact Hu; reflexivity).
    assert (PCt : pcT s' t = RLd x e) by (unfold s', pcT; cbn [ths]; rewrite fupd_eq; reflexivity).
    assert (CM : forall u, vle (clk s u) (clk s' u)).
    { intros u. unfold s'. cbn [clk]. unfold fupd. eqd u t; [apply vle_inc|apply vle_refl]. }
    assert (PX : forall y, pub s y -> y <> x) by (intros y Py ->; unfold pub in Py; lia).
    assert (KD : forall y, y <> x -> kind s' y = kind s y) by (intros y Hy; unfold s'; cbn [kind]; rewrite fupd_ne by exact Hy; reflexivity).
    assert (CR : forall y, y <> x -> crt s' y = crt s y) by (intros y Hy; unfold s'; cbn [crt]; rewrite fupd_ne by exact Hy; reflexivity).
    assert (RC : forall y, y <> x -> recs s' y = recs s y) by (intros y Hy; unfold s'; cbn [recs]; rewrite fupd_ne by exact Hy; reflexivity).
    assert (PM : forall u y, pub s y -> passed s u y -> passed s' u y).
    { intros u y Py [H|(v & H1 & H2)]; [left; rewrite KD by (apply PX; exact Py); exact H|right]. exists v. split; [exact H1|]. eapply vle_trans; [exact H2|apply CM]. }
    assert (Hnin : inrec (pcT s t) = None /\ inscan (pcT s t) = None /\ regx (pcT s t) = None) by (destruct e; rewrite Hp; auto).
    destruct Hnin as (Hn1 & Hn2 & Hn3).
    destruct I as [J1 J2 J3 J4 J5 J6 J7 J8 J9 J10 J11 J12 J13 J14 J15 J16 J17 J18 J19 J20 J21 J22].
    constructor; try assumption.
    - (* I_stp *) intros y. destruct (J3 y) as [A B]. split; [exact A|]. intros Py. change (nrec s') with (S x). specialize (B Py). lia.
    - (* I_fresh *) intros y Hy. change (nrec s') with (S x) in Hy. assert (y <> x) by lia. rewrite RC by assumption. apply J8. lia.
    - (* I_reg *) intros u y e0 H. change (nrec s') with (S x). rewrite OW. eqd u t.
      + rewrite PCt in H. inversion H; subst y e0. change (stp s' x) with (stp s x). unfold s'. cbn [crt kind]. rewrite !fupd_eq.
        split; [lia|]. split; [exact F3|]. split; [reflexivity|]. split; [reflexivity|].
        pose proof (J10 t) as Q. destruct e; rewrite Hp in Q; exact Q.
      + rewrite PC in H by exact E. destruct (J9 u y e0 H) as (A & B & C & D & G). assert (y <> x) by lia.
        rewrite KD, CR by assumption. split; [lia|auto].
    - (* I_pc *) intros u. rewrite OW. eqd u t; [rewrite PCt; exact I|rewrite PC by exact E; apply J10].
    - (* I_rec *) intros y Hy Fy. change (nrec s') with (S x) in Hy. change (freed s' y) with (freed s y) in Fy. change (pubv s' y) with (pubv s y).
      destruct (Nat.eq_dec y x) as [->|Hne].
      + unfold s'. cbn [recs crt clk]. rewrite !fupd_eq. subst f. cbn [fwho fwhen fR]. rewrite vinc_self.
        split; [reflexivity|]. split; [apply Nat.le_succ_diag_r|]. split; [intros P; exfalso; unfold pub, s' in P; cbn [stp] in P; rewrite F3 in P; inversion P|]. intros u. left. reflexivity.
      + rewrite RC, CR by exact Hne. destruct (J11 y) as (A & B & C & D); [lia|exact Fy|].
        split; [exact A|]. split; [eapply Nat.le_trans; [exact B|apply CM]|]. split; [exact C|].
        intros u. destruct (D u) as [D1|[D1 D2]]; [left; exact D1|right]. split; [eapply Nat.le_trans; [exact D1|apply CM]|].
        eqd u t; [exfalso; destruct e; rewrite Hp in D2; destruct D2 as [D2|[m0 D2]]; discriminate|rewrite PC by exact E; exact D2].
    - (* I_nx *) intros y j m0 H. change (hs s' (L_nx y)) with (hs s (L_nx y)) in H. change (pubv s' y) with (pubv s y).
      destruct (Nat.eq_dec y x) as [->|Hne]; [rewrite F4 in H; destruct j; discriminate|].
      rewrite KD, CR by exact Hne. destruct (J12 y j m0 H) as (A & B & C). split; [exact A|]. split; [eapply Nat.le_trans; [exact B|apply CM]|exact C].
    - (* I_ow *) intros y. change (hs s' (L_ow y)) with (hs s (L_ow y)). change (hs s' (L_nx y)) with (hs s (L_nx y)).
      destruct (J14 y) as (A & B & C). split; [exact A|]. split.
      + intros v Hr. destruct (B v Hr) as (B1 & B2 & B3). rewrite KD, CR by (apply PX; exact B2). auto.
      + intros Hk Py Ho. rewrite KD in Hk by (apply PX; exact Py). destruct (C Hk Py Ho) as [u Hu]. exists u. rewrite OW. exact Hu.
    - (* I_own *) intros u r H. rewrite OW in H. destruct (J15 u r H) as (A & B & C & D & F & G & K).
      rewrite KD, CR by (apply PX; exact B). split; [exact A|]. split; [exact B|]. split; [exact C|]. split; [exact D|]. split; [exact F|]. split; [eapply vle_trans; [exact G|apply CM]|exact K].
    - (* I_free *) intros y. destruct (J16 y) as [A B]. split; [exact A|]. intros Fy. destruct (B Fy) as [P B2]. split; [exact P|].
      destruct B2 as [B2|(u & r & n & U1 & U2 & U3)]; [left; exact B2|right].
      assert (u <> t) by (intros ->; congruence). exists u, r, n. rewrite OW, PC by assumption. auto.
    - (* I_scan *) intros u r n c b H1 H2. rewrite OW in H1. assert (u <> t) by (intros ->; rewrite PCt in H2; discriminate).
      rewrite PC in H2 by assumption. destruct (J17 u r n c b H1 H2) as (z & A & B & C & D & F & G & K). exists z.
      split; [exact A|]. split; [exact B|]. split; [exact C|]. split; [exact D|]. split; [|split; [|exact K]].
      + intros y Py Hy. apply PM; [exact Py|]. apply F; assumption.
      + intros Hb. apply PM; [exact B|]. apply G. exact Hb.
    - (* I_recl *) intros u r n H1 H2. rewrite OW in H1. assert (u <> t) by (intros ->; rewrite PCt in H2; discriminate).
      rewrite PC in H2 |- * by assumption. destruct (J18 u r n H1 H2) as (A & B & C & D). split; [exact A|]. split; [|split; [exact C|exact D]].
      intros y Py Hy. destruct (B y Py Hy) as [Q|Q]; [left; exact Q|right; apply PM; assumption].
    - (* I_nod *) intros y0. destruct (J19 y0) as [A B]. split.
      + destruct A as [A|[P0 A]]; [left; exact A|right; split; [exact P0|]]. intros u r H. rewrite OW in H. eapply A; eauto.
      + intros Hk Hf u. destruct (Nat.eq_dec y0 x) as [->|Hy0]; [left; change (nods s' x) with (nods s x); rewrite F2; reflexivity|].
        rewrite KD in Hk by exact Hy0.
        destruct (B Hk Hf u) as [B1|[(r & R1 & R2 & R3)|(y & Y1 & Y2 & Y3 & Y4)]]; [left; exact B1|right; left|right; right].
        * exists r. rewrite OW. split; [exact R1|]. split; [exact R2|eapply Nat.le_trans; [exact R3|apply CM]].
        * assert (y <> x) by (apply PX; unfold pub; lia). exists y. rewrite KD by assumption. split; [exact Y1|]. split; [exact Y2|]. split; [exact Y3|].
          destruct Y4 as [(t' & T1 & T2)|Y4]; [left|right; exact Y4]. exists t'. rewrite OW. split; [exact T1|eapply Nat.le_trans; [exact T2|apply CM]].
    - (* I_cas *) intros u y g0 e0 H. assert (u <> t) by (intros ->; rewrite PCt in H; discriminate). rewrite PC in H by assumption. apply (J20 u y g0 e0 H).
    - reflexivity.
    - intros y. destruct (J22 y) as [A|[A|(u & A)]]; [left; exact A|right; left; exact A|right; right].
      exists u. assert (u <> t) by (intros ->; destruct e; rewrite Hp in A; destruct A as [A|[m0 A]]; discriminate). rewrite PC by assumption. exact A.
  Qed.

  Lemma step_AReg s t : Inv s -> ok s (AReg t) -> Inv (step s (AReg t)).
  Proof.
    intros I Hok. destruct (ok_tag _ _ Hok) as [Ht Htag]. cbn [actor at_tag] in *.
    apply alloc_inv; [exact I|]. unfold pcT in *. destruct (pc (ths s t)); try discriminate. reflexivity.
  Qed.
  Lemma step_AEra s t : Inv s -> ok s (AEra t) -> Inv (step s (AEra t)).
  Proof.
    intros I Hok. destruct (ok_tag _ _ Hok) as [Ht Htag]. cbn [actor at_tag] in *.
    apply alloc_inv; [exact I|]. unfold pcT in *. destruct (pc (ths s t)); try discriminate. reflexivity.
  Qed.

  Lemma step_ARead s t x0 : Inv s -> ok s (ARead t x0) -> Inv (step s (ARead t x0)).
  Proof.
    intros I Hok. destruct (ok_tag _ _ Hok) as [Ht Htag]. cbn [actor at_tag] in *.
    unfold ok, okb in Hok. cbn [actor] in Hok. apply andb_true_iff in Hok as [_ Hok].
    apply andb_true_iff in Hok as [Hok H3]. apply andb_true_iff in Hok as [H1 H2].
    apply Nat.ltb_lt in H2, H3.
    pose proof (I_pc _ I t) as Hq. unfold pcT in Htag, Hq. destruct (pc (ths s t)) eqn:Ep; try discriminate. unfold ownT in Hq.
    destruct (own (ths s t)) as [|r] eqn:Eo; [congruence|]. cbn [pred] in *.
    assert (Px : pub s x0) by (unfold pub; lia).
    destruct (I_nod _ I x0) as [A B].
    assert (Hr : snd (ft_read t (clk s t) (nods s x0)) = true).
    { apply ft_read_ok. destruct A as [A|[_ A]]; [rewrite A; lia|]. specialize (A t r Eo). lia. }
    unfold step. destruct (ft_read t (clk s t) (nods s x0)) as [f okr] eqn:Er. cbn in Hr. subst okr.
    assert (Ef : f = Ft (fwho (nods s x0)) (fwhen (nods s x0)) (fupd (fR (nods s x0)) t (clk s t t))) by (unfold ft_read in Er; inversion Er; reflexivity).
    rewrite (I_race _ I). cbn [negb orb]. set (s' := St _ _ _ _ _ _ _ _ _ _ _ _ _ _).
    destruct I as [J1 J2 J3 J4 J5 J6 J7 J8 J9 J10 J11 J12 J13 J14 J15 J16 J17 J18 J19 J20 J21 J22].
    constructor; try assumption.
    - intros y Hy. change (nrec s') with (nrec s) in Hy. assert (y <> x0) by (intros ->; specialize (proj2 (J3 x0) Px); lia).
      unfold s'. cbn [recs nods stp hs freed]. rewrite fupd_ne by assumption. apply J8. exact Hy.
    - intros y. unfold s'. cbn [nods]. change (pub s' y) with (pub s y). change (stp s' y) with (stp s y).
      destruct (Nat.eq_dec y x0) as [->|Hne]; [rewrite fupd_eq|rewrite fupd_ne by exact Hne; apply J19].
      subst f. cbn [fwhen fR]. split; [exact A|]. intros Hk Hf u. unfold fupd. eqd u t; [|apply (B Hk Hf)].
      right. left. exists r. split; [exact Eo|]. split; [exact H3|apply Nat.le_refl].
    - reflexivity.
    - intros y. unfold s'. cbn [nods]. destruct (Nat.eq_dec y x0) as [->|Hne]; [rewrite fupd_eq; subst f; cbn [fwhen]; apply J22|rewrite fupd_ne by exact Hne; apply J22].
  Qed.

  Lemma rel_fun s y v w : rel s y v -> rel s y w -> v = w.
  Proof. intros (m & A & _ & B) (m' & A' & _ & B'). congruence. Qed.

  (* a reclaimer at record x: every reader of x's node is ordered before it, and no registered record is at or below x *)
  Lemma recl_facts s t r x : Inv s -> ownT s t = S r -> inrec (pcT s t) = Some (S x) ->
    pub s x /\ wm s <= stp s x < stp s r /\ freed s x = false /\ passed s t x /\
    (kind s x = true -> forall u, fR (nods s x) u <= clk s t u) /\
    (forall u r', ownT s u = S r' -> stp s x < stp s r').
  Proof.
    intros I Ho Hi. destruct (I_recl _ I t r (S x) Ho Hi) as (R1 & R2 & R3 & _).
    destruct R1 as [R1|(x' & E & Px & Sx & Fx)]; [discriminate|]. inversion E; subst x'.
    assert (Pb : passed s t x) by (destruct (R2 x Px (proj2 Sx)) as [A|A]; [congruence|exact A]).
    assert (NA : forall u r', ownT s u = S r' -> stp s r' < stp s r -> False).
    { intros u r' H Hlt. destruct (I_own _ I u r' H) as (_ & P & F & _).
      destruct (R2 r' P Hlt) as [A|A]; [congruence|]. exact (active_not_passed s u r' t I H A). }
    split; [exact Px|]. split; [exact Sx|]. split; [exact Fx|]. split; [exact Pb|]. split.
    - intros Hk u. destruct (I_nod _ I x) as [_ B]. destruct (B Hk Fx u) as [B1|[(r' & Q1 & Q2 & Q3)|(y & Y1 & Y2 & Y3 & Y4)]]; [lia| |].
      + exfalso. apply (NA u r' Q1). lia.
      + assert (Py : pub s y) by (unfold pub; lia).
        destruct (R2 y Py ltac:(lia)) as [A|A]; [congruence|].
        destruct Y4 as [(t' & T1 & _)|(v & V1 & V2)]; [exfalso; exact (active_not_passed s t' y t I T1 A)|].
        destruct A as [A|(w & W1 & W2)]; [congruence|]. rewrite (rel_fun _ _ _ _ V1 W1) in V2. specialize (W2 u). lia.
    - intros u r' H. destruct (I_own _ I u r' H) as (_ & P & _).
      destruct (lt_eq_lt_dec (stp s r') (stp s x)) as [[L|E0]|L]; [exfalso; apply (NA u r' H); lia| |exact L].
      exfalso. apply (I_inj _ I r' x P) in E0. subst r'. exact (active_not_passed s u x t I H Pb).
  Qed.

  (* the plain cells of record x change under a reclaimer standing at UNxF (S x) *)
  Lemma cells_inv s t x f f2 : Inv s -> pcT s t = UNxF (S x) -> pub s x -> freed s x = false ->
    fwho f = fwho (recs s x) -> fwhen f = fwhen (recs s x) ->
    (forall u, fR f u = fR (recs s x) u \/ (u = t /\ fR f u <= clk s t t)) ->
    (f2 = nods s x \/ (forall u, fR f2 u = 0)) -> (forall u r', ownT s u = S r' -> stp s x < stp s r') ->
    Inv (St (ths s) (clk s) (hs s) (seen s) (nrec s) (kind s) (fupd (recs s) x f) (fupd (nods s) x f2) (race s)
            (stp s) (crt s) (pubv s) (wm s) (freed s)).
  Proof.
    intros I Hp Px Fx W1 W2 W3 W4 W5. set (s' := St _ _ _ _ _ _ _ _ _ _ _ _ _ _).
    assert (Hx : x < nrec s) by (apply (I_stp _ I x); exact Px).
    destruct I as [J1 J2 J3 J4 J5 J6 J7 J8 J9 J10 J11 J12 J13 J14 J15 J16 J17 J18 J19 J20 J21 J22].
    constructor; try assumption.
    - intros y Hy. change (nrec s') with (nrec s) in Hy. assert (y <> x) by lia. unfold s'. cbn [recs nods stp hs freed].
      rewrite !fupd_ne by assumption. apply J8. exact Hy.
    - intros y Hy Fy. unfold s'. cbn [recs]. destruct (Nat.eq_dec y x) as [->|Hne]; [rewrite fupd_eq|rewrite fupd_ne by exact Hne; apply (J11 y Hy Fy)].
      destruct (J11 x Hy Fy) as (A & B & C & D). rewrite W1, W2. split; [exact A|]. split; [exact B|]. split; [exact C|].
      intros u. destruct (W3 u) as [E|[-> E]]; [rewrite E; apply D|]. right. split; [exact E|left; exact Hp].
    - intros y. unfold s'. cbn [nods]. destruct (Nat.eq_dec y x) as [->|Hne]; [rewrite fupd_eq|rewrite fupd_ne by exact Hne; apply J19].
      destruct W4 as [->|W4]; [apply J19|]. split; [right; split; [exact Px|exact W5]|]. intros _ _ u. left. apply W4.
    - intros y. unfold s'. cbn [nods]. destruct (Nat.eq_dec y x) as [->|Hne]; [|rewrite fupd_ne by exact Hne; apply J22].
      right. right. exists t. left. exact Hp.
  Qed.

  Lemma step_ARd s t : Inv s -> ok s (ARd t) -> Inv (step s (ARd t)).
  Proof.
    intros I Hok. destruct (ok_tag _ _ Hok) as [Ht Htag]. cbn [actor at_tag] in *.
    unfold ok, okb in Hok. cbn [actor] in Hok. apply andb_true_iff in Hok as [_ Hok].
    unfold pcT in Htag. destruct (pc (ths s t)) eqn:Ep; try discriminate. clear Htag.
    apply negb_true_iff, Nat.eqb_neq in Hok. destruct n as [|x]; [congruence|]. clear Hok.
    pose proof (I_pc _ I t) as Hq. unfold pcT in Hq. rewrite Ep in Hq.
    destruct (ownT s t) as [|r] eqn:Eo; [congruence|]. clear Hq.
    assert (Hin : inrec (pcT s t) = Some (S x)) by (unfold pcT; rewrite Ep; reflexivity).
    destruct (recl_facts s t r x I Eo Hin) as (Px & Sx & Fx & Pb & Rd & Ab).
    unfold step. rewrite Ep. cbn [pred].
    assert (Hk : fwhen (recs s x) <= clk s t (fwho (recs s x))) by (apply Nat.leb_le; eapply (hbk_ok s t r x); eauto; lia).
    assert (Hr : snd (ft_read t (clk s t) (recs s x)) = true) by (apply ft_read_ok; exact Hk).
    destruct (ft_read t (clk s t) (recs s x)) as [f okr] eqn:Er. cbn in Hr. subst okr.
    assert (Ef : f = Ft (fwho (recs s x)) (fwhen (recs s x)) (fupd (fR (recs s x)) t (clk s t t))) by (unfold ft_read in Er; inversion Er; reflexivity).
    set (W := if kind s x then ft_write N t (clk s t) (nods s x) else (nods s x, true)).
    assert (HW : snd W = true /\ (fst W = nods s x \/ forall u, fR (fst W) u = 0)).
    { unfold W. destruct (kind s x) eqn:Ek; [|split; [reflexivity|left; reflexivity]]. split; [|right; intros u; reflexivity].
      apply ft_write_ok; [|intros u _; apply (Rd eq_refl)].
      destruct (I_nodw _ I x) as [A|[A|(u & A)]]; [lia|congruence|exfalso].
      assert (Hiu : inrec (pcT s u) = Some (S x)) by (destruct A as [A|[m0 A]]; rewrite A; reflexivity).
      assert (u <> t) by (intros ->; unfold pcT in A; rewrite Ep in A; destruct A as [A|[m0 A]]; discriminate).
      pose proof (I_pc _ I u) as Hq. destruct (ownT s u) as [|ru] eqn:Eu; [destruct A as [A|[m0 A]]; rewrite A in Hq; tauto|]. clear Hq.
      destruct (I_own _ I t r Eo) as (_ & Pr & _).
      destruct (lt_eq_lt_dec (stp s r) (stp s ru)) as [[L|E0]|L].
      - exact (active_not_below s t r u ru (S x) I Eo Eu Hiu L).
      - apply (I_inj _ I r ru Pr) in E0. subst ru. apply H. symmetry. eapply own_inj; eauto.
      - exact (active_not_below s u ru t r (S x) I Eu Eo Hin L). }
    destruct W as [f2 okw]. cbn [fst snd] in HW. destruct HW as [-> HW]. rewrite (I_race _ I). cbn [negb orb].
    assert (I1 : Inv (upd_t s t (Th (UNxF (S x)) (own (ths s t))) (vinc (clk s t) t) (seen s) false)).
    { apply upd_t_inv; cbn [pc own]; auto.
      - apply vle_inc.
      - apply (I_seen _ I).
      - discriminate.
      - unfold ownT in Eo. rewrite Eo. split; discriminate.
      - unfold pcT. rewrite Ep. intros x0 [H|[m0 H]]; discriminate.
      - unfold pcT. rewrite Ep. intros n0 H. inversion H; subst n0. exists (S x). split; [reflexivity|lia].
      - discriminate.
      - intros r' n Hr Hs. unfold ownT in Eo. rewrite Eo in Hr. inversion Hr; subst r'. cbn in Hs. inversion Hs; subst n.
        destruct (I_recl _ I t r (S x) Eo Hin) as (R1 & R2 & R3 & R4). split; [exact R1|]. split; [|split; [exact R3|discriminate]].
        intros y Py Hy. destruct (R2 y Py Hy) as [A|A]; [left; exact A|right; apply passed_upd; [apply vle_inc|exact A]].
      - discriminate. }
    apply (cells_inv _ t x f f2 I1); auto.
    - unfold pcT, upd_t. cbn [ths]. rewrite fupd_eq. reflexivity.
    - subst f. reflexivity.
    - subst f. reflexivity.
    - intros u. subst f. cbn [fR recs upd_t clk]. unfold fupd at 1. eqd u t; [right|left; reflexivity].
      split; [reflexivity|]. rewrite !fupd_eq, vinc_self. lia.
    - intros u r' H. apply (Ab u r'). unfold ownT, upd_t in H. cbn [ths] in H. unfold fupd in H. eqd u t; [exact H|exact H].
  Qed.

  (* at most one thread is reclaiming *)
  Lemma recl_unique s t u r ru n n' : Inv s -> ownT s t = S r -> ownT s u = S ru ->
    inrec (pcT s t) = Some n -> inrec (pcT s u) = Some n' -> t = u.
  Proof.
    intros I Ht Hu It Iu. destruct (I_own _ I t r Ht) as (_ & Pr & _).
    destruct (lt_eq_lt_dec (stp s r) (stp s ru)) as [[L|E0]|L].
    - exfalso. exact (active_not_below s t r u ru n' I Ht Hu Iu L).
    - apply (I_inj _ I r ru Pr) in E0. subst ru. eapply own_inj; eauto.
    - exfalso. exact (active_not_below s u ru t r n I Hu Ht It L).
  Qed.
  Lemma inrec_own s t n : Inv s -> inrec (pcT s t) = Some n -> exists r, ownT s t = S r.
  Proof.
    intros I H. pose proof (I_pc _ I t) as Q. destruct (ownT s t) as [|r]; [|exists r; reflexivity].
    destruct (pcT s t); try discriminate; tauto.
  Qed.
  (* no other thread's scan stands on a record below a reclaimer's *)
  Lemma scan_not_below s t r n u ru z c b : Inv s -> ownT s t = S r -> inrec (pcT s t) = Some n ->
    ownT s u = S ru -> inscan (pcT s u) = Some (S z, c, b) -> stp s z < stp s r -> False.
  Proof.
    intros I Ht It Hu Iu Hlt. destruct (I_scan _ I u ru (S z) c b Hu Iu) as (z' & E & Pz & Sz & _ & Pa & _).
    inversion E; subst z'. destruct (I_own _ I t r Ht) as (_ & Pr & _).
    destruct (lt_eq_lt_dec (stp s r) (stp s ru)) as [[L|E0]|L].
    - exact (active_not_passed s t r u I Ht (Pa r Pr (conj Hlt L))).
    - apply (I_inj _ I r ru Pr) in E0. subst ru. assert (t = u) by (eapply own_inj; eauto). subst u.
      destruct (pcT s t); discriminate.
    - exact (active_not_below s u ru t r n I Hu Ht It L).
  Qed.

  Lemma step_AFr s t : Inv s -> ok s (AFr t) -> Inv (step s (AFr t)).
  Proof.
    intros I Hok. destruct (ok_tag _ _ Hok) as [Ht Htag]. cbn [actor at_tag] in *.
    unfold pcT in Htag. destruct (pc (ths s t)) eqn:Ep; try discriminate. clear Htag.
    pose proof (I_pc _ I t) as Hq. unfold pcT in Hq. rewrite Ep in Hq. destruct Hq as [Hq Hn0].
    destruct n as [|x]; [congruence|]. clear Hn0.
    destruct (ownT s t) as [|r] eqn:Eo; [congruence|]. clear Hq.
    assert (Hin : inrec (pcT s t) = Some (S x)) by (unfold pcT; rewrite Ep; reflexivity).
    destruct (recl_facts s t r x I Eo Hin) as (Px & Sx & Fx & Pb & _ & Ab).
    destruct (I_recl _ I t r (S x) Eo Hin) as (_ & R2 & R3 & R4).
    specialize (R4 m). unfold pcT in R4. specialize (R4 Ep). cbn [pred] in R4. destruct R4 as [N1 N2].
    destruct (I_own _ I t r Eo) as (_ & Pr & Fr & _).
    unfold step. rewrite Ep. cbn [pred].
    assert (Hx : x < nrec s) by (apply (I_stp _ I x); exact Px).
    assert (Hw : snd (ft_write N t (clk s t) (recs s x)) = true).
    { apply ft_write_ok.
      - apply Nat.leb_le. eapply (hbk_ok s t r x); eauto; lia.
      - intros u _. destruct (I_rec _ I x Hx Fx) as (_ & _ & _ & D). destruct (D u) as [D1|[D1 D2]]; [lia|].
        assert (Hiu : inrec (pcT s u) = Some (S x)) by (destruct D2 as [D2|[m0 D2]]; rewrite D2; reflexivity).
        destruct (inrec_own s u (S x) I Hiu) as [ru Eu].
        assert (t = u) by (eapply recl_unique; eauto). subst u. exact D1. }
    destruct (ft_write N t (clk s t) (recs s x)) as [f okw] eqn:Ew. cbn in Hw. subst okw.
    rewrite (I_race _ I). cbn [negb orb]. set (s' := St _ _ _ _ _ _ _ _ _ _ _ _ _ _).
    assert (CM : forall u, vle (clk s u) (clk s' u)).
    { intros u. unfold s'. cbn [clk]. unfold fupd. eqd u t; [apply vle_inc|apply vle_refl]. }
    assert (OW : forall u, ownT s' u = ownT s u).
    { intros u. unfold s', ownT. cbn [ths]. unfold fupd. eqd u t; [cbn [own]; reflexivity|reflexivity]. }
    assert (PC : forall u, u <> t -> pcT s' u = pcT s u) by (intros u Hu; unfold s', pcT; cbn [ths]; rewrite fupd_ne by exact Hu; reflexivity).
    assert (PCt : pcT s' t = URd m) by (unfold s', pcT; cbn [ths]; rewrite fupd_eq; reflexivity).
    assert (FR : forall y, y <> x -> freed s' y = freed s y) by (intros y Hy; unfold s'; cbn [freed]; rewrite fupd_ne by exact Hy; reflexivity).
    assert (FX : freed s' x = true) by (unfold s'; cbn [freed]; rewrite fupd_eq; reflexivity).
    assert (FM : forall y, freed s y = true -> freed s' y = true) by (intros y Hy; destruct (Nat.eq_dec y x) as [->|Hne]; [exact FX|rewrite FR by exact Hne; exact Hy]).
    assert (PM : forall u y, passed s u y -> passed s' u y).
    { intros u y [H|(v & H1 & H2)]; [left; exact H|right]. exists v. split; [exact H1|]. eapply vle_trans; [exact H2|apply CM]. }
    assert (UQ : forall u n0, inrec (pcT s u) = Some n0 -> u = t).
    { intros u n0 Hu. destruct (inrec_own s u n0 I Hu) as [ru Eu]. symmetry. eapply recl_unique; eauto. }
    assert (LM : lowp s m < stp s x).
    { destruct (Nat.eq_dec (stp s x) (wm s)) as [E|E]; [rewrite (N1 E); cbn; unfold pub in Px; lia|].
      destruct N2 as (y1 & -> & S1); [lia|]. cbn. unfold pub in Px. lia. }
    pose proof I as II.
    destruct I as [J1 J2 J3 J4 J5 J6 J7 J8 J9 J10 J11 J12 J13 J14 J15 J16 J17 J18 J19 J20 J21 J22].
    constructor; try assumption.
    - (* I_fresh *) intros y Hy. change (nrec s') with (nrec s) in Hy. assert (y <> x) by lia. unfold s'. cbn [recs nods stp hs freed].
      rewrite !fupd_ne by assumption. apply J8. exact Hy.
    - (* I_reg *) intros u y e0 H. rewrite OW. eqd u t; [rewrite PCt in H; discriminate|]. rewrite PC in H by exact E. apply J9. exact H.
    - (* I_pc *) intros u. rewrite OW. eqd u t; [rewrite PCt; rewrite Eo; discriminate|rewrite PC by exact E; apply J10].
    - (* I_rec *) intros y Hy Fy. change (nrec s') with (nrec s) in Hy. assert (y <> x) by (intros ->; congruence).
      rewrite FR in Fy by assumption. unfold s'. cbn [recs]. rewrite fupd_ne by assumption. change (crt s' y) with (crt s y). change (pubv s' y) with (pubv s y).
      destruct (J11 y Hy Fy) as (A & B & C & D). split; [exact A|]. split; [eapply Nat.le_trans; [exact B|apply CM]|]. split; [exact C|].
      intros u. destruct (D u) as [D1|[D1 D2]]; [left; exact D1|right]. split; [eapply Nat.le_trans; [exact D1|apply CM]|].
      eqd u t; [exfalso; unfold pcT in D2; rewrite Ep in D2; destruct D2 as [D2|[m0 D2]]; [discriminate|inversion D2; congruence]|rewrite PC by exact E; exact D2].
    - (* I_nx *) intros y j m0 H. destruct (J12 y j m0 H) as (A & B & C). split; [exact A|]. split; [eapply Nat.le_trans; [exact B|apply CM]|exact C].
    - (* I_ow *) intros y. destruct (J14 y) as (A & B & C). split; [exact A|]. split; [exact B|].
      intros H1 H2 H3. destruct (C H1 H2 H3) as [u Hu]. exists u. rewrite OW. exact Hu.
    - (* I_own *) intros u r0 H. rewrite OW in H. destruct (J15 u r0 H) as (A & B & C & D & F & G & K).
      assert (r0 <> x) by (intros ->; specialize (Ab u x H); lia).
      rewrite FR by assumption. split; [exact A|]. split; [exact B|]. split; [exact C|]. split; [exact D|]. split; [exact F|]. split; [eapply vle_trans; [exact G|apply CM]|exact K].
    - (* I_free *) intros y. destruct (J16 y) as [A B]. split; [intros P L; apply FM; apply A; assumption|].
      intros Fy. destruct (Nat.eq_dec y x) as [->|Hne].
      + split; [exact Px|]. right. exists t, r, m. rewrite OW, PCt. split; [exact Eo|]. split; [reflexivity|]. split; [exact LM|exact (proj2 Sx)].
      + rewrite FR in Fy by exact Hne. destruct (B Fy) as [P B2]. split; [exact P|]. destruct B2 as [B2|(u & r0 & n & U1 & U2 & U3)]; [left; exact B2|right].
        assert (u = t) by (apply (UQ u n U2)). subst u. assert (r0 = r) by congruence. subst r0.
        rewrite Hin in U2. inversion U2; subst n. cbn [lowp] in U3.
        exists t, r, m. rewrite OW, PCt. split; [exact Eo|]. split; [reflexivity|]. change (lowp s' m) with (lowp s m). change (stp s' y) with (stp s y). change (stp s' r) with (stp s r). lia.
    - (* I_scan *) intros u ru n c b H1 H2. rewrite OW in H1. assert (u <> t) by (intros ->; rewrite PCt in H2; discriminate).
      rewrite PC in H2 by assumption. destruct (J17 u ru n c b H1 H2) as (z & A & B & C & D & F & G & K). subst n.
      assert (z <> x) by (intros ->; apply (scan_not_below s t r (S x) u ru x c b II Eo Hin H1 H2); lia).
      exists z. rewrite FR by assumption. split; [reflexivity|]. split; [exact B|]. split; [exact C|]. split; [exact D|]. split; [|split; [|exact K]].
      + intros y Py Hy. apply PM. apply F; assumption.
      + intros Hb. apply PM. apply G. exact Hb.
    - (* I_recl *) intros u r0 n H1 H2. rewrite OW in H1.
      assert (u = t).
      { eqd u t; [reflexivity|]. rewrite PC in H2 by exact E. apply (UQ u n H2). }
      subst u. assert (r0 = r) by congruence. subst r0. rewrite PCt in H2 |- *. cbn in H2. inversion H2; subst n.
      change (wm s') with (wm s). change (lowp s' m) with (lowp s m).
      split; [|split; [|split; [|discriminate]]].
      + destruct (Nat.eq_dec (stp s x) (wm s)) as [E|E]; [left; exact (N1 E)|right].
        destruct N2 as (y1 & Em & S1); [lia|]. exists y1. assert (y1 <> x) by (intros ->; unfold pub in Px; lia).
        assert (Py1 : pub s y1) by (unfold pub; lia).
        split; [exact Em|]. split; [exact Py1|]. split; [change (stp s' y1) with (stp s y1); change (stp s' r) with (stp s r); lia|].
        rewrite FR by assumption. destruct (freed s y1) eqn:F1; [exfalso|reflexivity].
        destruct (J16 y1) as [_ B]. destruct (B F1) as [_ [B2|(u & r0 & n & U1 & U2 & U3)]]; [lia|].
        assert (u = t) by (apply (UQ u n U2)). subst u. rewrite Hin in U2. inversion U2; subst n. cbn [lowp] in U3. lia.
      + intros y Py Hy. destruct (R2 y Py Hy) as [A|A]; [left; apply FM; exact A|right; apply PM; exact A].
      + intros y Py Hy. change (stp s' y) with (stp s y) in Hy. change (stp s' r) with (stp s r) in Hy.
        destruct (lt_eq_lt_dec (stp s y) (stp s x)) as [[L|E]|L].
        * apply FM. destruct (Nat.eq_dec (stp s x) (wm s)) as [E|E]; [apply (J16 y); [exact Py|lia]|].
          destruct N2 as (y1 & Em & S1); [lia|]. subst m. cbn [lowp] in Hy. lia.
        * apply (J4 y x Py) in E. subst y. exact FX.
        * apply FM. apply R3; [exact Py|]. cbn [lowp]. lia.
    - (* I_nod *) intros y0. destruct (J19 y0) as [A B]. split.
      + destruct A as [A|[P0 A]]; [left; exact A|right; split; [exact P0|]]. intros u r0 H. rewrite OW in H. eapply A; eauto.
      + intros Hk Hf u. change (kind s' y0) with (kind s y0) in Hk. assert (y0 <> x) by (intros ->; congruence). rewrite FR in Hf by assumption.
        destruct (B Hk Hf u) as [B1|[(r0 & Q1 & Q2 & Q3)|(y & Y1 & Y2 & Y3 & Y4)]]; [left; exact B1|right; left|right; right].
        * exists r0. rewrite OW. split; [exact Q1|]. split; [exact Q2|eapply Nat.le_trans; [exact Q3|apply CM]].
        * destruct (Nat.eq_dec y x) as [->|Hne].
          -- destruct Y4 as [(t' & T1 & _)|(v & V1 & V2)]; [exfalso; exact (active_not_passed s t' x t II T1 Pb)|].
             destruct Pb as [Pk|(w & W1 & W2)]; [congruence|]. rewrite (rel_fun _ _ _ _ V1 W1) in V2.
             destruct (J15 t r Eo) as (Kr & _).
             assert (stp s r < stp s y0).
             { destruct (lt_eq_lt_dec (stp s y0) (stp s r)) as [[L|E]|L]; [|  |exact L].
               - assert (Py0 : pub s y0) by (unfold pub; lia). specialize (R3 y0 Py0). cbn [lowp] in R3. rewrite R3 in Hf by lia. discriminate.
               - assert (Py0 : pub s y0) by (unfold pub; lia). apply (J4 y0 r Py0) in E. subst y0. congruence. }
             assert (r <> x) by (intros ->; lia).
             exists r. rewrite FR by assumption. split; [exact Kr|]. split; [split; [exact Pr|assumption]|].
             split; [exact Fr|]. left. exists t. rewrite OW. split; [exact Eo|]. eapply Nat.le_trans; [exact V2|]. eapply Nat.le_trans; [apply W2|apply CM].
          -- exists y. rewrite FR by exact Hne. split; [exact Y1|]. split; [exact Y2|]. split; [exact Y3|].
             destruct Y4 as [(t' & T1 & T2)|Y4]; [left|right; exact Y4]. exists t'. rewrite OW. split; [exact T1|eapply Nat.le_trans; [exact T2|apply CM]].
    - (* I_cas *) intros u y g0 e0 H. eqd u t; [rewrite PCt in H; discriminate|]. rewrite PC in H by exact E. apply (J20 u y g0 e0 H).
    - reflexivity.
    - (* I_nodw *) intros y. destruct (J22 y) as [A|[A|(u & A)]]; [left; exact A|right; left; apply FM; exact A|right; left].
      assert (Hiu : inrec (pcT s u) = Some (S y)) by (destruct A as [A|[m0 A]]; rewrite A; reflexivity).
      assert (u = t) by (apply (UQ u (S y) Hiu)). subst u. rewrite Hin in Hiu. inversion Hiu; subst y. exact FX.
  Qed.

  Lemma step_AStn s t : Inv s -> ok s (AStn t) -> Inv (step s (AStn t)).
  Proof.
    intros I Hok. destruct (ok_tag _ _ Hok) as [Ht Htag]. cbn [actor at_tag] in *.
    unfold ok, okb in Hok. cbn [actor] in Hok. apply andb_true_iff in Hok as [_ Hok].
    unfold pcT in Htag. destruct (pc (ths s t)) eqn:Ep; try discriminate. clear Htag.
    apply Nat.eqb_eq in Hok. subst n.
    pose proof (I_pc _ I t) as Hq. unfold pcT in Hq. rewrite Ep in Hq.
    destruct (ownT s t) as [|r] eqn:Eo; [congruence|]. clear Hq.
    assert (Hin : inrec (pcT s t) = Some 0) by (unfold pcT; rewrite Ep; reflexivity).
    destruct (I_recl _ I t r 0 Eo Hin) as (_ & R2 & R3 & _). cbn [lowp] in R3.
    destruct (I_own _ I t r Eo) as (Kr & Pr & Fr & Cr & Or & Vr & Wr).
    unfold step, store. unfold ownT in Eo. rewrite Eo. cbn [pred]. fold (ownT s t) in Eo.
    set (s' := St _ _ _ _ _ _ _ _ _ _ _ _ _ _).
    assert (CM : forall u, vle (clk s u) (clk s' u)).
    { intros u. unfold s'. cbn [clk]. unfold fupd. eqd u t; [apply vle_inc|apply vle_refl]. }
    assert (OW : forall u, ownT s' u = ownT s u).
    { intros u. unfold s', ownT. cbn [ths]. unfold fupd. eqd u t; [cbn [own]; symmetry; exact Eo|reflexivity]. }
    assert (PC : forall u, u <> t -> pcT s' u = pcT s u) by (intros u Hu; unfold s', pcT; cbn [ths]; rewrite fupd_ne by exact Hu; reflexivity).
    assert (PCt : pcT s' t = USto) by (unfold s', pcT; cbn [ths]; rewrite fupd_eq; reflexivity).
    assert (HN : forall y, y <> r -> hs s' (L_nx y) = hs s (L_nx y)).
    { intros y Hy. unfold s'. cbn [hs]. rewrite fupd_ne by (unfold L_nx; lia). reflexivity. }
    assert (HO : forall y, hs s' (L_ow y) = hs s (L_ow y)).
    { intros y. unfold s'. cbn [hs]. rewrite fupd_ne by (unfold L_nx, L_ow; lia). reflexivity. }
    assert (HX : hs s' (L_nx r) = store_msg (o_u_stn o) t (clk s t) (pz 0) :: hs s (L_nx r)) by (unfold s'; cbn [hs]; rewrite fupd_eq; reflexivity).
    assert (PM : forall u y, passed s u y -> passed s' u y).
    { intros u y [H|(v & (m0 & M1 & M2) & H2)]; [left; exact H|right]. exists v. split; [|eapply vle_trans; [exact H2|apply CM]].
      exists m0. split; [|exact M2]. unfold s'. cbn [hs]. rewrite fupd_ne by (unfold L_nx, L_ow; lia). exact M1. }
    assert (UQ : forall u n0, inrec (pcT s u) = Some n0 -> u = t).
    { intros u n0 Hu. destruct (inrec_own s u n0 I Hu) as [ru Eu]. symmetry. eapply recl_unique; eauto. }
    assert (NA : forall u r', ownT s u = S r' -> stp s r <= stp s r').
    { intros u r' H. destruct (I_own _ I u r' H) as (_ & P & F & _). destruct (le_lt_dec (stp s r) (stp s r')) as [L|L]; [exact L|exfalso].
      destruct (R2 r' P L) as [A|A]; [congruence|]. exact (active_not_passed s u r' t I H A). }
    pose proof I as II.
    destruct I as [J1 J2 J3 J4 J5 J6 J7 J8 J9 J10 J11 J12 J13 J14 J15 J16 J17 J18 J19 J20 J21 J22].
    constructor; try assumption.
    - (* I_seen *) intros u l. unfold s'. cbn [seen hs]. specialize (J1 u l). destruct (Nat.eq_dec l (L_nx r)) as [->|Hl].
      + rewrite fupd_eq. cbn [length]. unfold fupd at 1. eqd u t; [rewrite fupd_eq; lia|lia].
      + rewrite (fupd_ne (hs s)) by exact Hl. unfold fupd at 1. eqd u t; [rewrite fupd_ne by exact Hl; exact J1|exact J1].
    - (* I_wm *) change (wm s') with (stp s r). unfold s'. cbn [hs]. rewrite fupd_ne by (unfold L_nx, L_ZH; lia).
      destruct (J3 r) as [A _]. unfold pub in Pr. lia.
    - (* I_fresh *) intros y Hy. change (nrec s') with (nrec s) in Hy. assert (y <> r) by (intros ->; specialize (proj2 (J3 r) Pr); lia).
      rewrite HN, HO by assumption. apply J8. exact Hy.
    - (* I_reg *) intros u y e0 H. rewrite OW. eqd u t; [rewrite PCt in H; discriminate|]. rewrite PC in H by exact E. apply J9. exact H.
    - (* I_pc *) intros u. rewrite OW. eqd u t; [rewrite PCt, Eo; discriminate|rewrite PC by exact E; apply J10].
    - (* I_rec *) intros y Hy Fy. destruct (J11 y Hy Fy) as (A & B & C & D). split; [exact A|]. split; [eapply Nat.le_trans; [exact B|apply CM]|]. split; [exact C|].
      intros u. destruct (D u) as [D1|[D1 D2]]; [left; exact D1|right]. split; [eapply Nat.le_trans; [exact D1|apply CM]|].
      eqd u t; [exfalso; unfold pcT in D2; rewrite Ep in D2; destruct D2 as [D2|[m0 D2]]; discriminate|rewrite PC by exact E; exact D2].
    - (* I_nx *) intros y j m0 H. change (crt s' y) with (crt s y). change (kind s' y) with (kind s y). change (pubv s' y) with (pubv s y).
      destruct (Nat.eq_dec y r) as [->|Hy].
      + rewrite HX in H. destruct j as [|j]; cbn in H.
        * inversion H; subst m0. unfold store_msg. cbn [mwho mwhen]. rewrite Cr. split; [reflexivity|]. split; [|intros Hk; congruence].
          unfold s'. cbn [clk]. rewrite fupd_eq, vinc_self. lia.
        * destruct (J12 r j m0 H) as (A & B & C). split; [exact A|]. split; [eapply Nat.le_trans; [exact B|apply CM]|exact C].
      + rewrite HN in H by exact Hy. destruct (J12 y j m0 H) as (A & B & C). split; [exact A|]. split; [eapply Nat.le_trans; [exact B|apply CM]|exact C].
    - (* I_nxv *) intros y Py Hw. change (wm s') with (stp s r) in *. change (stp s' y) with (stp s y) in *. unfold nxt_ok. change (wm s') with (stp s r).
      destruct (Nat.eq_dec y r) as [->|Hy].
      + unfold nvl. rewrite HX. unfold read_val. cbn [nth_error store_msg mval]. rewrite zp_pz. split; [reflexivity|]. change (stp s' r) with (stp s r). lia.
      + unfold nvl. rewrite HN by exact Hy. change (stp s' y) with (stp s y).
        assert (stp s y <> stp s r) by (intros E; apply Hy; apply (J4 y r Py E)).
        destruct (J13 y Py ltac:(lia)) as [A B]. split; [intros E; contradiction|]. intros L. destruct B as (y1 & B1 & B2); [lia|]. exists y1. auto.
    - (* I_ow *) intros y. rewrite HO. assert (RL : forall w, rel s' y w <-> rel s y w) by (intros w; unfold rel; rewrite HO; tauto).
      destruct (J14 y) as (A & B & C). split; [destruct A as [A|[w A]]; [left; exact A|right; exists w; apply RL; exact A]|]. split.
      + intros w Hr. apply RL in Hr. destruct (B w Hr) as (B1 & B2 & B3). split; [exact B1|]. split; [exact B2|].
        assert (y <> r) by (intros ->; destruct Hr as (m0 & M1 & _); congruence). rewrite HN by assumption. exact B3.
      + intros H1 H2 H3. destruct (C H1 H2 H3) as [u Hu]. exists u. rewrite OW. exact Hu.
    - (* I_own *) intros u r0 H. rewrite OW in H. rewrite HO. destruct (J15 u r0 H) as (A & B & C & D & F & G & K).
      split; [exact A|]. split; [exact B|]. split; [exact C|]. split; [exact D|]. split; [exact F|]. split; [eapply vle_trans; [exact G|apply CM]|].
      change (wm s') with (stp s r). apply (NA u r0 H).
    - (* I_free *) intros y. change (wm s') with (stp s r). destruct (J16 y) as [A B]. split; [intros P L; apply R3; [exact P|split; [exact P|exact L]]|].
      intros Fy. destruct (B Fy) as [P B2]. split; [exact P|]. left. change (stp s' y) with (stp s y).
      destruct B2 as [B2|(u & r0 & n & U1 & U2 & U3)]; [lia|].
      assert (u = t) by (apply (UQ u n U2)). subst u. assert (r0 = r) by congruence. subst r0. lia.
    - (* I_scan *) intros u ru n c b H1 H2. rewrite OW in H1. assert (u <> t) by (intros ->; rewrite PCt in H2; discriminate).
      rewrite PC in H2 by assumption. destruct (J17 u ru n c b H1 H2) as (z & A & B & C & D & F & G & K). subst n.
      exists z. change (wm s') with (stp s r). split; [reflexivity|]. split; [exact B|]. split; [|split; [exact D|split; [|split; [|exact K]]]].
      + change (stp s' z) with (stp s z). change (stp s' ru) with (stp s ru). split; [|lia].
        destruct (le_lt_dec (stp s r) (stp s z)) as [L|L]; [exact L|exfalso]. exact (scan_not_below s t r 0 u ru z c b II Eo Hin H1 H2 L).
      + intros y Py Hy. apply PM. apply F; assumption.
      + intros Hb. apply PM. apply G. exact Hb.
    - (* I_recl *) intros u r0 n H1 H2. exfalso. eqd u t; [rewrite PCt in H2; discriminate|]. rewrite PC in H2 by exact E. apply E. apply (UQ u n H2).
    - (* I_nod *) intros y0. destruct (J19 y0) as [A B]. split.
      + destruct A as [A|[P0 A]]; [left; exact A|right; split; [exact P0|]]. intros u r0 H. rewrite OW in H. eapply A; eauto.
      + intros Hk Hf u. destruct (B Hk Hf u) as [B1|[(r0 & Q1 & Q2 & Q3)|(y & Y1 & Y2 & Y3 & Y4)]]; [left; exact B1|right; left|right; right].
        * exists r0. rewrite OW. split; [exact Q1|]. split; [exact Q2|eapply Nat.le_trans; [exact Q3|apply CM]].
        * exists y. split; [exact Y1|]. split; [exact Y2|]. split; [exact Y3|].
          destruct Y4 as [(t' & T1 & T2)|(v & (m0 & M1 & M2) & V2)]; [left|right].
          -- exists t'. rewrite OW. split; [exact T1|eapply Nat.le_trans; [exact T2|apply CM]].
          -- exists v. split; [exists m0; rewrite HO; auto|exact V2].
    - (* I_cas *) intros u y g0 e0 H. eqd u t; [rewrite PCt in H; discriminate|]. rewrite PC in H by exact E.
      assert (y <> r) by (intros ->; destruct (J9 u r e0) as (_ & Q & _); [rewrite H; reflexivity|unfold pub in Pr; lia]).
      unfold nvl. rewrite HN by assumption. apply (J20 u y g0 e0 H).
    - (* I_nodw *) intros y. destruct (J22 y) as [A|[A|(u & A)]]; [left; exact A|right; left; exact A|right; right].
      exists u. assert (u <> t) by (intros ->; unfold pcT in A; rewrite Ep in A; destruct A as [A|[m0 A]]; discriminate). rewrite PC by assumption. exact A.
  Qed.

  Lemma step_ASto s t : Inv s -> ok s (ASto t) -> Inv (step s (ASto t)).
  Proof.
    intros I Hok. destruct (ok_tag _ _ Hok) as [Ht Htag]. cbn [actor at_tag] in *.
    unfold pcT in Htag. destruct (pc (ths s t)) eqn:Ep; try discriminate. clear Htag.
    pose proof (I_pc _ I t) as Hq. unfold pcT in Hq. rewrite Ep in Hq.
    destruct (ownT s t) as [|r] eqn:Eo; [congruence|]. clear Hq.
    destruct (I_own _ I t r Eo) as (Kr & Pr & Fr & Cr & Or & Vr & Wr).
    unfold step, store. cbv beta iota zeta. unfold ownT in Eo. rewrite Eo. cbn [pred]. fold (ownT s t) in Eo. rewrite Or. cbn [length].
    set (msg := store_msg (o_u_sto o) t (clk s t) (pz 0)).
    set (s' := set _ _ _ _ _ _).
    assert (Em : mval msg = 0%Z /\ mrel msg = Some (clk s t)) by (unfold msg, store_msg; cbn [mval mrel]; rewrite H_sto_rel; split; reflexivity).
    assert (CM : forall u, vle (clk s u) (clk s' u)).
    { intros u. unfold s', set. cbn [clk]. unfold fupd. eqd u t; [apply vle_inc|apply vle_refl]. }
    assert (OWt : ownT s' t = 0) by (unfold s', set, ownT; cbn [ths]; rewrite fupd_eq; reflexivity).
    assert (OW : forall u, u <> t -> ownT s' u = ownT s u) by (intros u Hu; unfold s', set, ownT; cbn [ths]; rewrite fupd_ne by exact Hu; reflexivity).
    assert (PC : forall u, u <> t -> pcT s' u = pcT s u) by (intros u Hu; unfold s', set, pcT; cbn [ths]; rewrite fupd_ne by exact Hu; reflexivity).
    assert (PCt : pcT s' t = Idle) by (unfold s', set, pcT; cbn [ths]; rewrite fupd_eq; reflexivity).
    assert (HN : forall y, hs s' (L_nx y) = hs s (L_nx y)).
    { intros y. unfold s', set. cbn [hs]. rewrite fupd_ne by (unfold L_nx, L_ow; lia). reflexivity. }
    assert (HO : forall y, y <> r -> hs s' (L_ow y) = hs s (L_ow y)).
    { intros y Hy. unfold s', set. cbn [hs]. rewrite fupd_ne by (unfold L_ow; lia). reflexivity. }
    assert (HZ : hs s' L_ZH = hs s L_ZH).
    { unfold s', set. cbn [hs]. rewrite fupd_ne by (unfold L_ow, L_ZH; lia). reflexivity. }
    assert (HX : hs s' (L_ow r) = [msg]) by (unfold s', set; cbn [hs]; rewrite fupd_eq; reflexivity).
    assert (RR : rel s' r (clk s t)) by (exists msg; rewrite HX; tauto).
    assert (NR : forall y v, rel s y v -> y <> r) by (intros y v (m0 & M1 & _) ->; congruence).
    assert (RL : forall y v, rel s y v -> rel s' y v).
    { intros y v Hr. pose proof (NR y v Hr) as Hy. destruct Hr as (m0 & M1 & M2). exists m0. rewrite HO by exact Hy. auto. }
    assert (PM : forall u y, passed s u y -> passed s' u y).
    { intros u y [H|(v & H1 & H2)]; [left; exact H|right]. exists v. split; [apply RL; exact H1|eapply vle_trans; [exact H2|apply CM]]. }
    assert (OWS : forall u r0, ownT s' u = S r0 -> u <> t /\ r0 <> r /\ ownT s u = S r0).
    { intros u r0 H. eqd u t; [rewrite OWt in H; discriminate|]. rewrite OW in H by exact E. split; [exact E|]. split; [|exact H].
      intros ->. apply E. eapply own_inj; eauto. }
    pose proof I as II.
    destruct I as [J1 J2 J3 J4 J5 J6 J7 J8 J9 J10 J11 J12 J13 J14 J15 J16 J17 J18 J19 J20 J21 J22].
    constructor; try assumption.
    - (* I_seen *) intros u l. unfold s', set. cbn [seen hs]. specialize (J1 u l). destruct (Nat.eq_dec l (L_ow r)) as [->|Hl].
      + rewrite fupd_eq. cbn [length]. unfold fupd at 1. eqd u t; [rewrite fupd_eq; lia|rewrite Or in J1; cbn in J1; lia].
      + rewrite (fupd_ne (hs s)) by exact Hl. unfold fupd at 1. eqd u t; [rewrite fupd_ne by exact Hl; exact J1|exact J1].
    - (* I_fresh *) intros y Hy. change (nrec s') with (nrec s) in Hy. assert (y <> r) by (intros ->; specialize (proj2 (J3 r) Pr); lia).
      rewrite HN, HO by assumption. apply J8. exact Hy.
    - (* I_reg *) intros u y e0 H. eqd u t; [rewrite PCt in H; discriminate|]. rewrite PC in H by exact E. rewrite OW by exact E. apply J9. exact H.
    - (* I_pc *) intros u. eqd u t; [rewrite PCt; exact OWt|rewrite PC, OW by exact E; apply J10].
    - (* I_rec *) intros y Hy Fy. destruct (J11 y Hy Fy) as (A & B & C & D). split; [exact A|]. split; [eapply Nat.le_trans; [exact B|apply CM]|]. split; [exact C|].
      intros u. destruct (D u) as [D1|[D1 D2]]; [left; exact D1|right]. split; [eapply Nat.le_trans; [exact D1|apply CM]|].
      eqd u t; [exfalso; unfold pcT in D2; rewrite Ep in D2; destruct D2 as [D2|[m0 D2]]; discriminate|rewrite PC by exact E; exact D2].
    - (* I_nx *) intros y j m0 H. rewrite HN in H. destruct (J12 y j m0 H) as (A & B & C). split; [exact A|]. split; [eapply Nat.le_trans; [exact B|apply CM]|exact C].
    - (* I_nxv *) intros y Py Hw. unfold nxt_ok, nvl. rewrite HN. apply (J13 y Py Hw).
    - (* I_ow *) intros y. destruct (Nat.eq_dec y r) as [->|Hy].
      + split; [right; exists (clk s t); exact RR|]. split.
        * intros v Hr. rewrite (rel_fun _ _ _ _ Hr RR). split; [exact Kr|]. split; [exact Pr|]. intros j m0 H. rewrite HN in H.
          destruct (J12 r j m0 H) as (_ & B & _). change (crt s' r) with (crt s r). rewrite Cr in *. exact B.
        * intros _ _ H. rewrite HX in H. discriminate.
      + rewrite HO by exact Hy. destruct (J14 y) as (A & B & C). split; [destruct A as [A|[v A]]; [left; exact A|right; exists v; apply RL; exact A]|]. split.
        * intros v (m0 & M1 & M2). rewrite HO in M1 by exact Hy. destruct (B v) as (B1 & B2 & B3); [exists m0; auto|]. split; [exact B1|]. split; [exact B2|]. rewrite HN. exact B3.
        * intros H1 H2 H3. destruct (C H1 H2 H3) as [u Hu]. exists u. rewrite OW; [exact Hu|]. intros ->. congruence.
    - (* I_own *) intros u r0 H. destruct (OWS u r0 H) as (Hu & Hr0 & H0). rewrite HO by exact Hr0.
      destruct (J15 u r0 H0) as (A & B & C & D & F & G & K). split; [exact A|]. split; [exact B|]. split; [exact C|]. split; [exact D|]. split; [exact F|]. split; [eapply vle_trans; [exact G|apply CM]|exact K].
    - (* I_free *) intros y. destruct (J16 y) as [A B]. split; [exact A|]. intros Fy. destruct (B Fy) as [P B2]. split; [exact P|].
      destruct B2 as [B2|(u & r0 & n & U1 & U2 & U3)]; [left; exact B2|right].
      assert (u <> t) by (intros ->; unfold pcT in U2; rewrite Ep in U2; discriminate). exists u, r0, n. rewrite OW, PC by assumption. auto.
    - (* I_scan *) intros u ru n c b H1 H2. destruct (OWS u ru H1) as (Hu & _ & H0). rewrite PC in H2 by exact Hu.
      destruct (J17 u ru n c b H0 H2) as (z & A & B & C & D & F & G & K). exists z.
      split; [exact A|]. split; [exact B|]. split; [exact C|]. split; [exact D|]. split; [|split; [|exact K]].
      + intros y Py Hy. apply PM. apply F; assumption.
      + intros Hb. apply PM. apply G. exact Hb.
    - (* I_recl *) intros u ru n H1 H2. destruct (OWS u ru H1) as (Hu & _ & H0). rewrite PC in H2 |- * by exact Hu.
      destruct (J18 u ru n H0 H2) as (A & B & C & D). split; [exact A|]. split; [|split; [exact C|exact D]].
      intros y Py Hy. destruct (B y Py Hy) as [Q|Q]; [left; exact Q|right; apply PM; exact Q].
    - (* I_nod *) intros y0. destruct (J19 y0) as [A B]. split.
      + destruct A as [A|[P0 A]]; [left; exact A|right; split; [exact P0|]]. intros u r0 H. destruct (OWS u r0 H) as (_ & _ & H0). eapply A; eauto.
      + intros Hk Hf u. destruct (B Hk Hf u) as [B1|[(r0 & Q1 & Q2 & Q3)|(y & Y1 & Y2 & Y3 & Y4)]]; [left; exact B1| |].
        * eqd u t.
          -- assert (r0 = r) by congruence. subst r0. right. right. exists r. split; [exact Kr|]. split; [unfold pub in Pr; split; [exact Pr|exact Q2]|]. split; [exact Fr|].
             right. exists (clk s t). split; [exact RR|exact Q3].
          -- right. left. exists r0. rewrite OW by exact E. split; [exact Q1|]. split; [exact Q2|eapply Nat.le_trans; [exact Q3|apply CM]].
        * right. right. exists y. split; [exact Y1|]. split; [exact Y2|]. split; [exact Y3|].
          destruct Y4 as [(t' & T1 & T2)|(v & V1 & V2)]; [|right; exists v; split; [apply RL; exact V1|exact V2]].
          eqd t' t.
          -- assert (y = r) by congruence. subst y. right. exists (clk s t). split; [exact RR|exact T2].
          -- left. exists t'. rewrite OW by exact E. split; [exact T1|eapply Nat.le_trans; [exact T2|apply CM]].
    - (* I_cas *) intros u y g0 e0 H. eqd u t; [rewrite PCt in H; discriminate|]. rewrite PC in H by exact E. unfold nvl. rewrite HN. apply (J20 u y g0 e0 H).
    - (* I_nodw *) intros y. destruct (J22 y) as [A|[A|(u & A)]]; [left; exact A|right; left; exact A|right; right].
      exists u. assert (u <> t) by (intros ->; unfold pcT in A; rewrite Ep in A; destruct A as [A|[m0 A]]; discriminate). rewrite PC by assumption. exact A.
  Qed.

  Lemma step_inv s a : Inv s -> ok s a -> Inv (step s a).
  Proof.
    intros I Hok. destruct a.
    - apply step_AReg; assumption.
    - apply step_AEra; assumption.
    - apply step_ALd; assumption.
    - apply step_ASt; assumption.
    - apply step_ACas; assumption.
    - apply step_ARead; assumption.
    - apply step_AULd; assumption.
    - apply step_AOwn; assumption.
    - apply step_ANx; assumption.
    - apply step_ARd; assumption.
    - apply step_ANxF; assumption.
    - apply step_AFr; assumption.
    - apply step_AStn; assumption.
    - apply step_ASto; assumption.
  Qed.
  Lemma run_inv tr : forall s, Inv s -> trace_ok N o s tr -> Inv (run N o s tr).
  Proof.
    induction tr as [|a tr IH]; intros s I Hok; [exact I|]. unfold trace_ok in Hok. cbn [trace_okb] in Hok.
    apply andb_true_iff in Hok as [H1 H2]. cbn [run fold_left]. apply IH; [apply step_inv; assumption|exact H2].
  Qed.

  (* every conforming trace is free of data races: on the plain fields of the records (construction,
     the reclaimer's read of zombie_node, destroy / deallocate), on the erased nodes (readers' reads
     against the reclaimer's free), and every atomic access to a record's field happens-after the
     record's construction *)
  Theorem log_publication tr : trace_ok N o init tr -> race (run N o init tr) = false.
  Proof. intros H. apply (I_race _ (run_inv tr init Inv_init H)). Qed.

  (* the scan's load of next - the field written by the RELAXED pre-publication store - reads the newest
     message: the scanning thread has acquired the record's publication, and coherence does the rest *)
  Theorem scan_reads_newest tr t x c m ch : trace_ok N o init tr ->
    let s := run N o init tr in
    pcT s t = UNx (S x) c -> lidx m (ssc_nx o) (hs s (L_nx x)) (clk s t) (seen s t (L_nx x)) ch = 0.
  Proof.
    intros H s Hp. pose proof (run_inv tr init Inv_init H) as I. fold s in I.
    pose proof (I_pc _ I t) as Q. rewrite Hp in Q. destruct (ownT s t) as [|r] eqn:Eo; [congruence|].
    destruct (I_scan _ I t r (S x) c true Eo) as (z & E & Pz & Sz & _ & _ & Pb & _); [rewrite Hp; reflexivity|].
    inversion E; subst z. apply nx_newest; [exact I|]. right. split; [exact Pz|]. split; [|apply Pb; reflexivity].
    eapply knows_older; eauto. lia.
  Qed.

  (* a reclaimer's clock dominates the release of every record it frees or walks over: the frees
     happen-after everything the released readers did *)
  Theorem reclaim_after_release tr t r n y v : trace_ok N o init tr ->
    let s := run N o init tr in
    ownT s t = S r -> inrec (pcT s t) = Some n -> pub s y -> stp s y < stp s r -> freed s y = false ->
    rel s y v -> vle v (clk s t).
  Proof.
    intros H s Ho Hi Py Hy Fy Hr. pose proof (run_inv tr init Inv_init H) as I. fold s in I.
    destruct (I_recl _ I t r n Ho Hi) as (_ & R2 & _). destruct (R2 y Py Hy) as [A|[A|(w & W1 & W2)]]; [congruence| |].
    - destruct (I_ow _ I y) as (_ & B & _). destruct (B v Hr) as (B1 & _). congruence.
    - rewrite (rel_fun _ _ _ _ Hr W1). exact W2.
  Qed.
End Sufficient.

(* ---------- the source's orders ---------- *)
Theorem rcu_log_publication N tr : trace_ok N rcu_orders init tr -> race (run N rcu_orders init tr) = false.
Proof. apply log_publication; reflexivity. Qed.

(* what is actually needed: the two CASes release and acquire, owner.store(nullptr) releases, the scan's
   owner load acquires; every other site - the three relaxed ones included - may have any order *)
Theorem rcu_log_sufficient_orders N o tr :
  is_rel (o_r_cas o) = true -> is_acq (o_r_cas o) = true -> is_rel (o_e_cas o) = true -> is_acq (o_e_cas o) = true ->
  is_rel (o_u_sto o) = true -> is_acq (o_s_own o) = true ->
  trace_ok N o init tr -> race (run N o init tr) = false.
Proof. intros. eapply log_publication; eauto. Qed.

Theorem rcu_scan_reads_newest N tr t x c m ch : trace_ok N rcu_orders init tr ->
  let s := run N rcu_orders init tr in
  pc (ths s t) = UNx (S x) c ->
  lidx m (ssc_nx rcu_orders) (hs s (L_nx x)) (clk s t) (seen s t (L_nx x)) ch = 0.
Proof. intros H s Hp. apply (scan_reads_newest N rcu_orders) with (c := c); try reflexivity; assumption. Qed.

(* ---------- push_back's relaxed load of m_tail ---------- *)
(* m_tail is loaded (memory_order_relaxed in push_back / emplace_back) and stored only under
   m_write_mutex.  Tiny machine: lock / relaxed load (any coherence-allowed message) / store (any order) /
   unlock, any number of threads; [tstale] records whether some load read a message other than the newest. *)
Inductive tact := TLock (t : nat) | TLoad (t ch : nat) | TStore (t : nat) (v : Z) | TUnlock (t : nat).
Record tst := TSt { tclk : nat -> vc; thist : hist; tseen : nat -> nat; town : option nat; tmclk : vc; tstale : bool }.
Definition tinit : tst := TSt clk0 [] (fun _ => 0) None vzero false.
Definition tstep (st_mo : mo) (s : tst) (a : tact) : tst :=
  match a with
  | TLock t => TSt (fupd (tclk s) t (vjoin (tclk s t) (tmclk s))) (thist s) (tseen s) (Some t) (tmclk s) (tstale s)
  | TLoad t ch =>
    let i := pick true (thist s) (tclk s t) (tseen s t) ch in
    TSt (fupd (tclk s) t (read_clock Relaxed (thist s) i (tclk s t))) (thist s)
        (fupd (tseen s) t (read_stamp (thist s) i)) (town s) (tmclk s) (tstale s || negb (Nat.eqb i 0))
  | TStore t v =>
    TSt (fupd (tclk s) t (vinc (tclk s t) t)) (store_msg st_mo t (tclk s t) v :: thist s)
        (fupd (tseen s) t (S (length (thist s)))) (town s) (tmclk s) (tstale s)
  | TUnlock t => TSt (fupd (tclk s) t (vinc (tclk s t) t)) (thist s) (tseen s) None (vjoin (tmclk s) (tclk s t)) (tstale s)
  end.
Definition tokb (s : tst) (a : tact) : bool :=
  match a with
  | TLock _ => match town s with None => true | Some _ => false end
  | TLoad t _ | TStore t _ | TUnlock t => match town s with Some u => Nat.eqb u t | None => false end
  end.
Fixpoint ttrace_okb (st_mo : mo) (s : tst) (tr : list tact) : bool :=
  match tr with [] => true | a :: r => tokb s a && ttrace_okb st_mo (tstep st_mo s a) r end.
Definition trun (st_mo : mo) (s : tst) (tr : list tact) : tst := fold_left (tstep st_mo) tr s.

Record TInv (s : tst) : Prop := {
  T_seen : forall t, tseen s t <= length (thist s);
  T_known : forall m, In m (thist s) ->
            match town s with Some t => known (tclk s t) m = true | None => known (tmclk s) m = true end;
  T_stale : tstale s = false
}.
Lemma known_mono c c' m : vle c c' -> known c m = true -> known c' m = true.
Proof. unfold known. intros H K. apply Nat.leb_le in K. apply Nat.leb_le. specialize (H (mwho m)). lia. Qed.

Lemma tstep_inv st_mo s a : TInv s -> tokb s a = true -> TInv (tstep st_mo s a).
Proof.
  intros [A B C] Hok. destruct a as [t|t ch|t v|t]; cbn [tstep tokb] in *.
  - destruct (town s) eqn:Eo; [discriminate|]. constructor; cbn; auto.
    intros m Hm. rewrite fupd_eq. eapply known_mono; [apply vle_join_r|apply B; exact Hm].
  - destruct (town s) as [u|] eqn:Eo; [|discriminate]. apply Nat.eqb_eq in Hok. subst u.
    assert (Hi : pick true (thist s) (tclk s t) (tseen s t) ch = 0).
    { destruct (thist s) as [|m0 h'] eqn:Eh.
      - destruct (pick_bounds true [] (tclk s t) (tseen s t) ch) as [P _]; [exact (A t)|]. cbn in P. lia.
      - pose proof (pick_known true (m0 :: h') (tclk s t) (tseen s t) ch 0 m0) as P.
        specialize (P (A t) eq_refl (B m0 (or_introl eq_refl))). lia. }
    rewrite Hi. constructor; cbn; auto.
    + intros u. unfold fupd, read_stamp. destruct (Nat.eqb u t); [lia|apply A].
    + intros m Hm. rewrite fupd_eq. eapply known_mono; [apply read_clock_mono|apply B; exact Hm].
    + rewrite C. reflexivity.
  - destruct (town s) as [u|] eqn:Eo; [|discriminate]. apply Nat.eqb_eq in Hok. subst u.
    constructor; cbn; auto.
    + intros u. unfold fupd. destruct (Nat.eqb u t); [lia|specialize (A u); lia].
    + intros m [<-|Hm]; rewrite fupd_eq.
      * unfold known, store_msg. cbn. apply Nat.leb_le. rewrite vinc_self. lia.
      * eapply known_mono; [apply vle_inc|apply B; exact Hm].
  - destruct (town s) as [u|] eqn:Eo; [|discriminate]. apply Nat.eqb_eq in Hok. subst u.
    constructor; cbn; auto.
    intros m Hm. eapply known_mono; [apply vle_join_r|apply B; exact Hm].
Qed.

(* every relaxed load of m_tail reads the newest store: the mutex orders every store before it
   (happens-before through unlock / lock) and coherence forbids reading anything older *)
Theorem rcu_tail_relaxed_ok st_mo tr : ttrace_okb st_mo tinit tr = true -> tstale (trun st_mo tinit tr) = false.
Proof.
  assert (G : forall tr s, TInv s -> ttrace_okb st_mo s tr = true -> TInv (trun st_mo s tr)).
  { induction tr0 as [|a r IH]; intros s I H; [exact I|]. cbn in H. apply andb_true_iff in H as [H1 H2].
    cbn [trun fold_left]. apply IH; [apply tstep_inv; assumption|exact H2]. }
  intros H. apply (T_stale _ (G tr tinit ltac:(constructor; cbn; intros; auto; contradiction) H)).
Qed.
(* without the mutex's ordering the same load may be stale: thread 1 loads without holding the mutex *)
Lemma rcu_tail_unlocked_load_stale :
  tstale (trun SeqCst tinit [TLock 0; TStore 0 5%Z; TUnlock 0; TLoad 1 1]) = true.
Proof. vm_compute. reflexivity. Qed.
