(* C07 for rcu_list's reclaim log in the Views semantics (Common/Views.v): the three relaxed sites of
   rcu_list.hpp are sufficient, from the atomics alone.  The tie to the code is RcuReadProofs.mo_table and
   the memory-order field of every trace line; this file has no correspondence of its own.

   Machine: any number of threads, any interleaving.  Records are numbered in allocation order (never
   re-used); a pointer is a number, 0 = nullptr, S x = record x.  Atomic locations: m_zombie_head
   (location 0), next of record x (2x+1), owner of record x (2x+2).  Plain cells with FastTrack epochs:
   [rec x] = the plain fields of record x (construction = write, the reclaimer's read of zombie_node =
   read, destroy/deallocate = write) and [nod x] = the payload of the node an erase record x carries
   (read by registered readers, freed = written by the reclaimer).
   Operations (pc per thread):
     register   AReg (allocate + construct: plain write of rec x); ALd (load of zhead: the GUESS, may
                read ANY coherence-allowed message when relaxed); ASt (store of the guess to the
                private record's next); ACas (RMW on zhead: reads the newest message; succeeds iff it
                equals the guess and the weak CAS does not fail spuriously; on failure the guess becomes
                the value read and the thread goes back to ASt)
     erase push AEra by a registered thread (record with zombie_node set, owner null), then the same
                ALd / ASt / ACas with the erase sites' orders
     ARead t x  a registered reader reads the payload of the node carried by erase record x that was
                pushed after the reader registered (client discipline: nodes unlinked before a reader
                registered are unreachable for it - RcuSafetyProofs)
     release    AULd (load own next) ; scan AOwn / ANx (owner / next of the records down the log; a
                non-null owner ends the scan without reclaiming) ; reclaim ARd (plain read of
                zombie_node, free of the node), ANxF (load next), AFr (free of the record) ; AStn (own
                next := null) ; ASto (owner := null)
   The order of every site is a parameter ([orders]); [rcu_orders] are the source's.
   Reading of seq_cst as in LRViews.v: a SeqCst load reads the newest message of its location when every
   store / RMW site of that location is SeqCst, otherwise any coherence-allowed message; RMWs (CAS, also
   a failing one) read the newest message.
   NOTE for importers: short names (st, step, init, run, pc ...) - Require without Import and qualify. *)
From Coq Require Import List Arith ZArith Lia Bool.
Import ListNotations.
From GV Require Import Sched Events Views.

Inductive vpc :=
| Idle
| RLd (x : nat) (e : bool) | RSt (x g : nat) (e : bool) | RCas (x g : nat) (e : bool)
| Held
| ULd | UOwn (n c : nat) | UNx (n c : nat) | URd (n : nat) | UNxF (n : nat) | UFr (n m : nat) | USto.

Record th := Th { pc : vpc; own : nat }.      (* own: S r = registered with record r, 0 = not registered *)

Record orders := Ord {
  o_r_ld : mo;   (* rcu_read_lock: m_zombie_head.load(relaxed) *)
  o_r_st : mo;   (* rcu_read_lock: m_zombie->next.store(oldNext, relaxed) *)
  o_r_cas : mo;  (* rcu_read_lock: compare_exchange_weak *)
  o_e_ld : mo;   (* erase: m_zombie_head.load() *)
  o_e_st : mo;   (* erase: newZombie->next = oldZombie *)
  o_e_cas : mo;  (* erase: compare_exchange_weak *)
  o_u_ld : mo;   (* unlock: m_zombie->next.load() *)
  o_s_own : mo;  (* unlock, scan: n->owner.load() *)
  o_s_nx : mo;   (* unlock, scan: n->next.load() *)
  o_f_nx : mo;   (* unlock, reclaim: n->next.load() *)
  o_u_stn : mo;  (* unlock: m_zombie->next.store(n) *)
  o_u_sto : mo   (* unlock: m_zombie->owner.store(nullptr) *)
}.
Definition rcu_orders : orders :=
  Ord Relaxed Relaxed SeqCst SeqCst SeqCst SeqCst SeqCst SeqCst SeqCst SeqCst SeqCst SeqCst.

Inductive act :=
| AReg (t : nat) | AEra (t : nat) | ALd (t ch : nat) | ASt (t : nat) | ACas (t : nat) (spur : bool)
| ARead (t x : nat)
| AULd (t ch : nat) | AOwn (t ch : nat) | ANx (t ch : nat) | ARd (t : nat) | ANxF (t ch : nat) | AFr (t : nat)
| AStn (t : nat) | ASto (t : nat).

Definition L_ZH := 0.
Definition L_nx (x : nat) := S (2 * x).
Definition L_ow (x : nat) := S (S (2 * x)).

Record st := St {
  ths : nat -> th;
  clk : nat -> vc;
  hs : nat -> hist;               (* location -> message history *)
  seen : nat -> nat -> nat;       (* thread -> location -> last stamp read *)
  nrec : nat;                     (* next fresh record number *)
  kind : nat -> bool;             (* true = erase record (owner null from construction, carries a node) *)
  recs : nat -> ft;               (* plain fields of record x *)
  nods : nat -> ft;               (* payload of the node carried by erase record x *)
  race : bool;
  (* ghost *)
  zl : list nat;                  (* the log: records in the order of their successful CAS, newest first *)
  freed : nat -> bool
}.

Definition is_sc (m : mo) : bool := match m with SeqCst => true | _ => false end.
Definition pz (n : nat) : Z := Z.of_nat n.
Definition zp (v : Z) : nat := Z.to_nat v.
Lemma zp_pz n : zp (pz n) = n.
Proof. unfold zp, pz. apply Nat2Z.id. Qed.

Definition lidx (m : mo) (ssc : bool) (h : hist) (c : vc) (sn ch : nat) : nat :=
  if is_sc m && ssc then 0 else pick true h c sn ch.
Definition rmw_clock (m : mo) (prev : option msg) (c : vc) : vc :=
  match prev with
  | Some p => match mrel p with Some r => if is_acq m then vjoin c r else c | None => c end
  | None => c
  end.
