(* C13, the allocator ledger: in every reachable state of the repaired model every cell has been
   constructed at most once, destroyed at most once and deallocated at most once, in this order, and the
   counters agree with the cell's ledger state. *)
From Coq Require Import List Arith ZArith Lia Bool.
Import ListNotations.
From GV Require Import Sched Events RcuModel RcuBase RcuListProofs RcuLogProofs RcuSafetyProofs.
Local Open Scope nat_scope.

Definition cell_ok (c : cell) : Prop :=
  match cs c with
  | Alloc => nct c = 0 /\ ndt c = 0 /\ nfr c = 0
  | Constr => nct c = 1 /\ ndt c = 0 /\ nfr c = 0 /\ israwc c = false
  | Destr => nct c = 1 /\ ndt c = 1 /\ nfr c = 0 /\ israwc c = false
  | Freed => nfr c = 1 /\ (if israwc c then nct c = 0 /\ ndt c = 0    (* storage whose construction threw *)
                          else nct c = 1 /\ ndt c = 1)
  end.
Definition ledger_ok (g : glob) : Prop := forall k c, getc g k = Some c -> cell_ok c.

Lemma ledger_modc_body g k b : ledger_ok g -> okn g k = true \/ okz g k = true -> b <> BRaw -> ledger_ok (modc g k (set_body b)).
Proof.
  intros H Hok Hb j c Hc. rewrite getc_modc in Hc. destruct (Nat.eqb_spec j k) as [->|]; [|apply (H j c Hc)].
  destruct (getc g k) as [c0|] eqn:E; [|discriminate]. cbn in Hc. inversion Hc; subst c. pose proof (H k c0 E) as H0.
  unfold okn, okz in Hok. rewrite E in Hok. destruct c0 as [[] b0 ? ? ?]; try (destruct Hok; discriminate).
  unfold cell_ok in *. cbn in *. destruct H0 as (A & B & C & _). repeat split; auto. destruct b; [reflexivity|reflexivity|congruence].
Qed.
Lemma ledger_alloc g b : ledger_ok g -> ledger_ok (fst (do_alloc g b)).
Proof.
  intros H j c Hc. rewrite getc_alloc in Hc. destruct (Nat.eqb j (nheap g)); [inversion Hc; cbn; auto|apply (H j c Hc)].
Qed.
Lemma ledger_construct g k b : ledger_ok g -> fault g = false -> fault (fst (do_construct g k b)) = false -> b <> BRaw -> ledger_ok (fst (do_construct g k b)).
Proof.
  intros H Hf Hf' Hb. destruct (construct_fields g k b) as (_ & _ & _ & _ & _ & _ & _ & _ & _ & _ & _ & F12).
  rewrite F12, Hf in Hf'. cbn in Hf'. apply negb_false_iff in Hf'.
  intros j c Hc. rewrite getc_construct in Hc. destruct (Nat.eqb_spec j k) as [->|]; [|apply (H j c Hc)].
  destruct (getc g k) as [c0|] eqn:E; [|discriminate]. cbn in Hc. rewrite Hf' in Hc. inversion Hc; subst c.
  pose proof (H k c0 E) as H0. unfold cs_is in Hf'. rewrite E in Hf'. unfold cell_ok in *. destruct (cs c0); try discriminate. cbn.
  destruct H0 as (A & B & C). repeat split; try lia. destruct b; [reflexivity|reflexivity|congruence].
Qed.
Lemma ledger_destroy g k : ledger_ok g -> fault g = false -> fault (fst (do_destroy g k)) = false -> ledger_ok (fst (do_destroy g k)).
Proof.
  intros H Hf Hf'. destruct (destroy_fields g k) as (_ & _ & _ & _ & _ & _ & _ & _ & _ & _ & _ & F12).
  rewrite F12, Hf in Hf'. cbn in Hf'. apply negb_false_iff in Hf'.
  intros j c Hc. rewrite getc_destroy in Hc. destruct (Nat.eqb_spec j k) as [->|]; [|apply (H j c Hc)].
  destruct (getc g k) as [c0|] eqn:E; [|discriminate]. cbn in Hc. rewrite Hf' in Hc. inversion Hc; subst c.
  pose proof (H k c0 E) as H0. unfold cs_is in Hf'. rewrite E in Hf'. unfold cell_ok in *. destruct c0 as [[] b0 ? ? ?]; try discriminate. cbn in *.
  destruct H0 as (A & B & C & D). repeat split; auto; lia.
Qed.
Lemma ledger_dealloc g k : ledger_ok g -> fault g = false -> fault (fst (do_dealloc g k)) = false -> ledger_ok (fst (do_dealloc g k)).
Proof.
  intros H Hf Hf'. destruct (dealloc_fields g k) as (_ & _ & _ & _ & _ & _ & _ & _ & _ & _ & _ & F12).
  rewrite F12, Hf in Hf'. cbn in Hf'. apply negb_false_iff in Hf'.
  intros j c Hc. rewrite getc_dealloc in Hc. destruct (Nat.eqb_spec j k) as [->|]; [|apply (H j c Hc)].
  destruct (getc g k) as [c0|] eqn:E; [|discriminate]. cbn in Hc. rewrite Hf' in Hc. inversion Hc; subst c.
  pose proof (H k c0 E) as H0. unfold cs_is in Hf'. rewrite E in Hf'. unfold cell_ok in *. destruct c0 as [[] b0 ? ? ?]; try discriminate. cbn in *.
  destruct H0 as (A & B & C & D). unfold israwc in *. cbn in *. rewrite D. split; [lia|split; lia].
Qed.
Lemma ledger_dealloc_raw g k : ledger_ok g -> fault g = false -> fault (fst (do_dealloc_raw g k)) = false -> ledger_ok (fst (do_dealloc_raw g k)).
Proof.
  intros H Hf Hf'. destruct (dealloc_raw_fields g k) as (_ & _ & _ & _ & _ & _ & _ & _ & _ & _ & _ & F12).
  rewrite F12, Hf in Hf'. cbn in Hf'. apply negb_false_iff in Hf'.
  intros j c Hc. rewrite getc_dealloc_raw in Hc. destruct (Nat.eqb_spec j k) as [->|]; [|apply (H j c Hc)].
  destruct (getc g k) as [c0|] eqn:E; [|discriminate]. cbn in Hc. unfold rawf in Hc. rewrite Hf' in Hc.
  pose proof (H k c0 E) as H0. unfold rawok, cs_is in Hf'. rewrite E in Hf'. apply andb_true_iff in Hf' as [A B]. rewrite B in Hc.
  inversion Hc; subst c. unfold cell_ok in *. destruct c0 as [[] b0 ? ? ?]; try discriminate. cbn in *. unfold israwc in *. cbn in *. rewrite B. lia.
Qed.
Lemma ledger_heap g g' : heap g' = heap g -> ledger_ok g -> ledger_ok g'.
Proof. intros Hh H j c Hc. apply (H j c). unfold getc in *. rewrite <- Hh. exact Hc. Qed.

Lemma ledger_step g t c l g' l' es :
  ledger_ok g -> fault g = false -> fault g' = false -> tstep t c g l = Some (g', l', es) -> ledger_ok g'.
Proof.
  intros H Hf Hf' Hs. destruct l as [pr p h its0]. destruct p; step_cases2 Hs; fold_fst.
  all: try exact H.
  all: try (apply (ledger_heap g); [reflexivity|exact H]).
  all: try (apply ledger_alloc; exact H).
  all: try (apply ledger_construct; try assumption; discriminate).
  all: try (apply ledger_destroy; assumption).
  all: try (apply ledger_dealloc; assumption).
  all: try (apply ledger_dealloc_raw; assumption).
  all: try (apply ledger_modc_body; [exact H|first [left; assumption|right; assumption]|discriminate]).
  all: try (eapply ledger_heap; [|apply ledger_modc_body; [exact H|first [left; assumption|right; assumption]|discriminate]]; reflexivity).
  all: try (eapply ledger_heap; [|apply ledger_alloc; exact H]; reflexivity).
  all: try (exfalso; cbn in Hf'; discriminate).
Qed.

Lemma R_ledger progs s : R false progs s -> ledger_ok (gl s).
Proof.
  intros H.
  assert (Inv4x (gl s) (thr s) /\ ledger_ok (gl s)) as [_ L]; [|exact L].
  eapply (reachable_inv glob loc tstep (fun g ls => Inv4x g ls /\ ledger_ok g)); [| |exact H].
  - intros g ls t c l g' l' es HH Hl Hs. destruct HH as [I4 L0]. pose proof (Inv4x_step g ls t c l g' l' es I4 Hl Hs) as I4'.
    split; [exact I4'|]. destruct I4 as ((_ & _ & Hf) & _). destruct I4' as ((_ & _ & Hf') & _). apply (ledger_step g t c l g' l' es L0 Hf Hf' Hs).
  - split.
    + split; [split; [split; [apply InvA_init|split; [apply InvB_init|apply InvC_init]]|split; reflexivity]|apply RcuRawProofs.InvR_init].
    + intros k c Hc. unfold getc in Hc. cbn in Hc. destruct k; discriminate.
Qed.

(* C13: every cell ever allocated has been constructed, destroyed and deallocated at most once each, in
   that order; no allocator call was ever illegal (nothing never-constructed is destroyed, nothing is
   destroyed or freed twice) *)
Theorem ledger_exact progs s k c : R false progs s -> getc (gl s) k = Some c ->
  fault (gl s) = false /\ nct c <= 1 /\ ndt c <= nct c /\ nfr c <= 1 /\ (nfr c = 1 -> ndt c = nct c) /\
  (cs c = Freed -> nfr c = 1 /\ if israwc c then nct c = 0 /\ ndt c = 0 else nct c = 1 /\ ndt c = 1).
Proof.
  intros HR Hc. split; [apply (no_fault _ _ HR)|]. pose proof (R_ledger _ _ HR k c Hc) as L. unfold cell_ok in L.
  destruct (cs c) eqn:Ecs; try (split; [lia|split; [lia|split; [lia|split; [lia|]]]]; intros E; discriminate).
  destruct L as [L1 L2]. destruct (israwc c); (split; [lia|split; [lia|split; [lia|split; [lia|]]]]); intros _; split; auto.
Qed.

(* C13: nothing erased => a release destroys / deallocates only log records (here: a node is destroyed
   only if it has a log record, and log records of nodes are made by erase only) *)
Theorem destroyed_node_was_erased unf progs s t l n d : R unf progs s ->
  nth_error (thr s) t = Some l -> at_ l = U_dd n (Some d) ->
  isnode (gl s) d = true /\ dl (gl s) d = true /\ ~ In d (lst (gl s)) /\ isrec (gl s) n = true.
Proof.
  intros HR Hl Hat. destruct (R_Inv3 _ _ _ HR) as (IA & IB & IC).
  pose proof (b_thr _ _ IB t l Hl) as T. unfold thrB in T. rewrite Hat in T. destruct T as ((Rn & _) & _ & Ed). symmetry in Ed.
  destruct (c_recn _ _ IC n d (inlog_In _ _ Rn) Ed) as (A & B & C). repeat split; auto. apply (b_rec _ _ IB n (inlog_In _ _ Rn)).
Qed.
