(* Heap algebra for the rcu_list model: views of a cell (ledger state, kind, node / record
   contents) and how each primitive state update of RcuModel changes them. *)
From Coq Require Import List Arith ZArith Lia Bool.
Import ListNotations.
From GV Require Import Sched Events RcuModel.
Local Open Scope Z_scope.

Notation sysR := (sys glob loc).
Notation runR := (run glob loc tstep).
Notation stepR := (step glob loc tstep).

(* ---------- views ---------- *)
Definition cs_of (g : glob) (k : nat) : option cst := option_map cs (getc g k).
Definition isnode (g : glob) (k : nat) : bool :=
  match getc g k with Some (Cell _ (BNode _) _ _ _) => true | _ => false end.
Definition isrec (g : glob) (k : nat) : bool :=
  match getc g k with Some (Cell _ (BRec _) _ _ _) => true | _ => false end.
Definition nheap (g : glob) : nat := length (heap g).

Lemma getc_lt g k c : getc g k = Some c -> (k < nheap g)%nat.
Proof. intros H. apply nth_error_Some. unfold getc in H. congruence. Qed.
Lemma getc_ge g k : (nheap g <= k)%nat -> getc g k = None.
Proof. intros H. apply nth_error_None. exact H. Qed.
Lemma isnode_lt g k : isnode g k = true -> (k < nheap g)%nat.
Proof. unfold isnode. destruct (getc g k) eqn:E; [intros _; eapply getc_lt; eauto|discriminate]. Qed.
Lemma isrec_lt g k : isrec g k = true -> (k < nheap g)%nat.
Proof. unfold isrec. destruct (getc g k) eqn:E; [intros _; eapply getc_lt; eauto|discriminate]. Qed.
Lemma isnode_isrec g k : isnode g k = true -> isrec g k = false.
Proof. unfold isnode, isrec. destruct (getc g k) as [[? [?|?|] ? ? ?]|]; auto; discriminate. Qed.
Lemma isrec_isnode g k : isrec g k = true -> isnode g k = false.
Proof. unfold isnode, isrec. destruct (getc g k) as [[? [?|?|] ? ? ?]|]; auto; discriminate. Qed.
Lemma okn_iff g k : okn g k = true <-> cs_of g k = Some Constr /\ isnode g k = true.
Proof.
  unfold okn, cs_of, isnode. destruct (getc g k) as [[[] [?|?|] ? ? ?]|]; cbn; split; intros H; try discriminate; auto;
    destruct H; discriminate.
Qed.
Lemma okz_iff g k : okz g k = true <-> cs_of g k = Some Constr /\ isrec g k = true.
Proof.
  unfold okz, cs_of, isrec. destruct (getc g k) as [[[] [?|?|] ? ? ?]|]; cbn; split; intros H; try discriminate; auto;
    destruct H; discriminate.
Qed.
Lemma cs_is_iff g k s : cs_is g k s = true <-> cs_of g k = Some s.
Proof.
  unfold cs_is, cs_of. destruct (getc g k) as [[[] ? ? ? ?]|]; destruct s; cbn; split; intros H; congruence.
Qed.
Lemma cs_of_lt g k s : cs_of g k = Some s -> (k < nheap g)%nat.
Proof. unfold cs_of. destruct (getc g k) eqn:E; [intros _; eapply getc_lt; eauto|discriminate]. Qed.

(* ---------- modc ---------- *)
Lemma getc_modc g k f j :
  getc (modc g k f) j = if Nat.eqb j k then option_map f (getc g k) else getc g j.
Proof.
  unfold modc. destruct (getc g k) as [c|] eqn:E.
  - unfold getc in *. cbn. destruct (Nat.eqb_spec j k) as [->|Hne].
    + rewrite (nth_upd_eq _ _ _ _ E). reflexivity.
    + rewrite nth_upd_ne by auto. reflexivity.
  - destruct (Nat.eqb_spec j k) as [->|Hne]; [rewrite E|]; reflexivity.
Qed.
Lemma nheap_modc g k f : nheap (modc g k f) = nheap g.
Proof. unfold modc, nheap. destruct (getc g k); cbn; [apply upd_length|reflexivity]. Qed.

(* the non-heap fields are untouched by modc *)
Lemma modc_fields g k f :
  head (modc g k f) = head g /\ tail (modc g k f) = tail g /\ zhead (modc g k f) = zhead g /\
  wmtx (modc g k f) = wmtx g /\ fault (modc g k f) = fault g /\ misuse (modc g k f) = misuse g /\
  unfixed (modc g k f) = unfixed g /\ mlog (modc g k f) = mlog g /\ lo (modc g k f) = lo g /\ hi (modc g k f) = hi g /\
  lst (modc g k f) = lst g /\ zlog (modc g k f) = zlog g.
Proof. unfold modc. destruct (getc g k); cbn; repeat split; reflexivity. Qed.

(* ---------- a uniform description of the effect of an update on one cell ---------- *)
(* [same_but g g' k]: the heaps have the same size and agree outside cell k *)
Definition same_but (g g' : glob) (k : nat) : Prop :=
  nheap g' = nheap g /\ forall j, j <> k -> getc g' j = getc g j.

Lemma same_but_modc g k f : same_but g (modc g k f) k.
Proof.
  split; [apply nheap_modc|]. intros j Hj. rewrite getc_modc.
  destruct (Nat.eqb_spec j k); [contradiction|reflexivity].
Qed.

Section Views.
  Variables (g g' : glob) (k : nat).
  Hypothesis SB : same_but g g' k.
  Lemma sb_cs j : j <> k -> cs_of g' j = cs_of g j.
  Proof. intros H. unfold cs_of. rewrite (proj2 SB j H). reflexivity. Qed.
  Lemma sb_isnode j : j <> k -> isnode g' j = isnode g j.
  Proof. intros H. unfold isnode. rewrite (proj2 SB j H). reflexivity. Qed.
  Lemma sb_isrec j : j <> k -> isrec g' j = isrec g j.
  Proof. intros H. unfold isrec. rewrite (proj2 SB j H). reflexivity. Qed.
  Lemma sb_gnode j : j <> k -> gnode g' j = gnode g j.
  Proof. intros H. unfold gnode. rewrite (proj2 SB j H). reflexivity. Qed.
  Lemma sb_grec j : j <> k -> grec g' j = grec g j.
  Proof. intros H. unfold grec. rewrite (proj2 SB j H). reflexivity. Qed.
  Lemma sb_okn j : j <> k -> okn g' j = okn g j.
  Proof. intros H. unfold okn. rewrite (proj2 SB j H). reflexivity. Qed.
  Lemma sb_okz j : j <> k -> okz g' j = okz g j.
  Proof. intros H. unfold okz. rewrite (proj2 SB j H). reflexivity. Qed.
End Views.

(* ---------- setn / setz ---------- *)
Lemma getc_setn g k n j :
  getc (setn g k n) j = if Nat.eqb j k then option_map (set_body (BNode n)) (getc g k) else getc g j.
Proof. apply getc_modc. Qed.
Lemma getc_setz g k r j :
  getc (setz g k r) j = if Nat.eqb j k then option_map (set_body (BRec r)) (getc g k) else getc g j.
Proof. apply getc_modc. Qed.

Lemma gnode_setn_eq g k n : (k < nheap g)%nat -> gnode (setn g k n) k = n.
Proof.
  intros H. unfold gnode. rewrite getc_setn, Nat.eqb_refl.
  destruct (getc g k) as [c|] eqn:E; [reflexivity|].
  apply nth_error_None in E. unfold nheap in H. lia.
Qed.
Lemma gnode_setn_ne g k n j : j <> k -> gnode (setn g k n) j = gnode g j.
Proof. apply sb_gnode, same_but_modc. Qed.
Lemma gnode_setn g k n j : (k < nheap g)%nat ->
  gnode (setn g k n) j = if Nat.eqb j k then n else gnode g j.
Proof. intros H. destruct (Nat.eqb_spec j k) as [->|Hne]; [apply gnode_setn_eq; auto|apply gnode_setn_ne; auto]. Qed.
Lemma isnode_setn g k n j : isnode g k = true -> isnode (setn g k n) j = isnode g j.
Proof.
  intros H. destruct (Nat.eq_dec j k) as [->|Hne]; [|apply sb_isnode with (k := k); [apply same_but_modc|auto]].
  rewrite H. unfold isnode in *. rewrite getc_setn, Nat.eqb_refl. destruct (getc g k) as [[? ? ? ? ?]|]; [reflexivity|discriminate].
Qed.
Lemma isrec_setn g k n j : isnode g k = true -> isrec (setn g k n) j = isrec g j.
Proof.
  intros H. destruct (Nat.eq_dec j k) as [->|Hne]; [|apply sb_isrec with (k := k); [apply same_but_modc|auto]].
  rewrite (isnode_isrec _ _ H). unfold isrec, isnode in *. rewrite getc_setn, Nat.eqb_refl.
  destruct (getc g k) as [[? ? ? ? ?]|]; [reflexivity|discriminate].
Qed.
Lemma grec_setn g k n j : isnode g k = true -> grec (setn g k n) j = grec g j.
Proof.
  intros H. destruct (Nat.eq_dec j k) as [->|Hne]; [|apply sb_grec with (k := k); [apply same_but_modc|auto]].
  unfold grec, isnode in *. rewrite getc_setn, Nat.eqb_refl.
  destruct (getc g k) as [[? [?|?|] ? ? ?]|]; try discriminate; reflexivity.
Qed.
Lemma cs_of_setn g k n j : cs_of (setn g k n) j = cs_of g j.
Proof.
  unfold cs_of. rewrite getc_setn. destruct (Nat.eqb_spec j k) as [->|]; [|reflexivity].
  destruct (getc g k) as [[? ? ? ? ?]|]; reflexivity.
Qed.
Lemma nheap_setn g k n : nheap (setn g k n) = nheap g.
Proof. apply nheap_modc. Qed.

Lemma grec_setz_eq g k r : (k < nheap g)%nat -> grec (setz g k r) k = r.
Proof.
  intros H. unfold grec. rewrite getc_setz, Nat.eqb_refl.
  destruct (getc g k) as [c|] eqn:E; [reflexivity|].
  apply nth_error_None in E. unfold nheap in H. lia.
Qed.
Lemma grec_setz_ne g k r j : j <> k -> grec (setz g k r) j = grec g j.
Proof. apply sb_grec, same_but_modc. Qed.
Lemma grec_setz g k r j : (k < nheap g)%nat ->
  grec (setz g k r) j = if Nat.eqb j k then r else grec g j.
Proof. intros H. destruct (Nat.eqb_spec j k) as [->|Hne]; [apply grec_setz_eq; auto|apply grec_setz_ne; auto]. Qed.
Lemma isrec_setz g k r j : isrec g k = true -> isrec (setz g k r) j = isrec g j.
Proof.
  intros H. destruct (Nat.eq_dec j k) as [->|Hne]; [|apply sb_isrec with (k := k); [apply same_but_modc|auto]].
  rewrite H. unfold isrec in *. rewrite getc_setz, Nat.eqb_refl. destruct (getc g k) as [[? ? ? ? ?]|]; [reflexivity|discriminate].
Qed.
Lemma isnode_setz g k r j : isrec g k = true -> isnode (setz g k r) j = isnode g j.
Proof.
  intros H. destruct (Nat.eq_dec j k) as [->|Hne]; [|apply sb_isnode with (k := k); [apply same_but_modc|auto]].
  rewrite (isrec_isnode _ _ H). unfold isrec, isnode in *. rewrite getc_setz, Nat.eqb_refl.
  destruct (getc g k) as [[? ? ? ? ?]|]; [reflexivity|discriminate].
Qed.
Lemma gnode_setz g k r j : isrec g k = true -> gnode (setz g k r) j = gnode g j.
Proof.
  intros H. destruct (Nat.eq_dec j k) as [->|Hne]; [|apply sb_gnode with (k := k); [apply same_but_modc|auto]].
  unfold gnode, isrec in *. rewrite getc_setz, Nat.eqb_refl.
  destruct (getc g k) as [[? [?|?|] ? ? ?]|]; try discriminate; reflexivity.
Qed.
Lemma cs_of_setz g k r j : cs_of (setz g k r) j = cs_of g j.
Proof.
  unfold cs_of. rewrite getc_setz. destruct (Nat.eqb_spec j k) as [->|]; [|reflexivity].
  destruct (getc g k) as [[? ? ? ? ?]|]; reflexivity.
Qed.
Lemma nheap_setz g k r : nheap (setz g k r) = nheap g.
Proof. apply nheap_modc. Qed.

Lemma okn_setn g k n j : isnode g k = true -> okn (setn g k n) j = okn g j.
Proof.
  intros H. apply eq_true_iff_eq. rewrite !okn_iff, cs_of_setn, isnode_setn by auto. reflexivity.
Qed.
Lemma okz_setn g k n j : isnode g k = true -> okz (setn g k n) j = okz g j.
Proof.
  intros H. apply eq_true_iff_eq. rewrite !okz_iff, cs_of_setn, isrec_setn by auto. reflexivity.
Qed.
Lemma okn_setz g k r j : isrec g k = true -> okn (setz g k r) j = okn g j.
Proof.
  intros H. apply eq_true_iff_eq. rewrite !okn_iff, cs_of_setz, isnode_setz by auto. reflexivity.
Qed.
Lemma okz_setz g k r j : isrec g k = true -> okz (setz g k r) j = okz g j.
Proof.
  intros H. apply eq_true_iff_eq. rewrite !okz_iff, cs_of_setz, isrec_setz by auto. reflexivity.
Qed.

(* ---------- do_alloc ---------- *)
Lemma getc_alloc g b j :
  getc (fst (do_alloc g b)) j =
  if Nat.eqb j (nheap g) then Some (Cell Alloc b 0 0 0) else getc g j.
Proof.
  unfold do_alloc, getc, nheap. cbn. destruct (Nat.eqb_spec j (length (heap g))) as [->|Hne].
  - rewrite nth_error_app2 by lia. rewrite Nat.sub_diag. reflexivity.
  - destruct (Nat.lt_ge_cases j (length (heap g))).
    + rewrite nth_error_app1 by lia. reflexivity.
    + rewrite (proj2 (nth_error_None _ _)); [|rewrite app_length; cbn; lia].
      symmetry. apply nth_error_None. lia.
Qed.
Lemma snd_alloc g b : snd (do_alloc g b) = nheap g.
Proof. reflexivity. Qed.
Lemma nheap_alloc g b : nheap (fst (do_alloc g b)) = S (nheap g).
Proof. unfold do_alloc, nheap. cbn. rewrite app_length. cbn. lia. Qed.

Lemma cs_of_alloc g b j :
  cs_of (fst (do_alloc g b)) j = if Nat.eqb j (nheap g) then Some Alloc else cs_of g j.
Proof. unfold cs_of. rewrite getc_alloc. destruct (Nat.eqb j (nheap g)); reflexivity. Qed.
Lemma gnode_alloc_old g b j : (j < nheap g)%nat -> gnode (fst (do_alloc g b)) j = gnode g j.
Proof. intros H. unfold gnode. rewrite getc_alloc. destruct (Nat.eqb_spec j (nheap g)); [lia|reflexivity]. Qed.
Lemma grec_alloc_old g b j : (j < nheap g)%nat -> grec (fst (do_alloc g b)) j = grec g j.
Proof. intros H. unfold grec. rewrite getc_alloc. destruct (Nat.eqb_spec j (nheap g)); [lia|reflexivity]. Qed.
Lemma isnode_alloc g b j :
  isnode (fst (do_alloc g b)) j =
  if Nat.eqb j (nheap g) then (match b with BNode _ => true | _ => false end) else isnode g j.
Proof. unfold isnode. rewrite getc_alloc. destruct (Nat.eqb j (nheap g)); [destruct b|]; reflexivity. Qed.
Lemma isrec_alloc g b j :
  isrec (fst (do_alloc g b)) j =
  if Nat.eqb j (nheap g) then (match b with BRec _ => true | _ => false end) else isrec g j.
Proof. unfold isrec. rewrite getc_alloc. destruct (Nat.eqb j (nheap g)); [destruct b|]; reflexivity. Qed.
Lemma gnode_alloc_new g n : gnode (fst (do_alloc g (BNode n))) (nheap g) = n.
Proof. unfold gnode. rewrite getc_alloc, Nat.eqb_refl. reflexivity. Qed.
Lemma grec_alloc_new g r : grec (fst (do_alloc g (BRec r))) (nheap g) = r.
Proof. unfold grec. rewrite getc_alloc, Nat.eqb_refl. reflexivity. Qed.
(* gnode / grec of cells beyond the heap are the defaults, so allocation of the other kind changes nothing *)
Lemma gnode_alloc_rec g r j : gnode (fst (do_alloc g (BRec r))) j = gnode g j.
Proof.
  unfold gnode. rewrite getc_alloc. destruct (Nat.eqb_spec j (nheap g)) as [->|]; [|reflexivity].
  rewrite getc_ge by lia. reflexivity.
Qed.
Lemma gnode_alloc_raw g j : gnode (fst (do_alloc g BRaw)) j = gnode g j.
Proof.
  unfold gnode. rewrite getc_alloc. destruct (Nat.eqb_spec j (nheap g)) as [->|]; [|reflexivity].
  rewrite getc_ge by lia. reflexivity.
Qed.
Lemma grec_alloc_raw g j : grec (fst (do_alloc g BRaw)) j = grec g j.
Proof.
  unfold grec. rewrite getc_alloc. destruct (Nat.eqb_spec j (nheap g)) as [->|]; [|reflexivity].
  rewrite getc_ge by lia. reflexivity.
Qed.
Lemma grec_alloc_node g n j : grec (fst (do_alloc g (BNode n))) j = grec g j.
Proof.
  unfold grec. rewrite getc_alloc. destruct (Nat.eqb_spec j (nheap g)) as [->|]; [|reflexivity].
  rewrite getc_ge by lia. reflexivity.
Qed.
Lemma alloc_fields g b :
  let g' := fst (do_alloc g b) in
  head g' = head g /\ tail g' = tail g /\ zhead g' = zhead g /\ wmtx g' = wmtx g /\ fault g' = fault g /\
  misuse g' = misuse g /\ unfixed g' = unfixed g /\ mlog g' = mlog g /\ lo g' = lo g /\ hi g' = hi g /\
  lst g' = lst g /\ zlog g' = zlog g.
Proof. cbn. repeat split; reflexivity. Qed.

(* ---------- ledger operations ---------- *)
(* do_construct / do_destroy / do_dealloc = a modc at k, possibly followed by with_fault *)
Lemma lfault_heap ok k g : heap (fst (lfault ok k g)) = heap g.
Proof. destruct ok; reflexivity. Qed.
Lemma chk_heap ok k g : heap (fst (chk ok k g)) = heap g.
Proof. destruct ok; reflexivity. Qed.
Lemma getc_heap g g' j : heap g' = heap g -> getc g' j = getc g j.
Proof. unfold getc. intros ->. reflexivity. Qed.

Lemma getc_construct g k b j :
  getc (fst (do_construct g k b)) j =
  if Nat.eqb j k
  then option_map (fun c => bump_ct (if cs_is g k Alloc then Cell Constr b (nct c) (ndt c) (nfr c) else c)) (getc g k)
  else getc g j.
Proof.
  unfold do_construct.
  destruct (lfault (cs_is g k Alloc) k _) as [g2 fe] eqn:E. cbn [fst].
  assert (heap g2 = heap (modc g k (fun c => bump_ct (if cs_is g k Alloc then Cell Constr b (nct c) (ndt c) (nfr c) else c)))) as Hh.
  { pose proof (lfault_heap (cs_is g k Alloc) k (modc g k (fun c => bump_ct (if cs_is g k Alloc then Cell Constr b (nct c) (ndt c) (nfr c) else c)))) as H.
    rewrite E in H. exact H. }
  rewrite (getc_heap _ _ j Hh). apply getc_modc.
Qed.
Lemma getc_destroy g k j :
  getc (fst (do_destroy g k)) j =
  if Nat.eqb j k
  then option_map (fun c => bump_dt (if cs_is g k Constr then set_cs Destr c else c)) (getc g k)
  else getc g j.
Proof.
  unfold do_destroy.
  destruct (lfault (cs_is g k Constr) k _) as [g2 fe] eqn:E. cbn [fst].
  assert (heap g2 = heap (modc g k (fun c => bump_dt (if cs_is g k Constr then set_cs Destr c else c)))) as Hh.
  { pose proof (lfault_heap (cs_is g k Constr) k (modc g k (fun c => bump_dt (if cs_is g k Constr then set_cs Destr c else c)))) as H.
    rewrite E in H. exact H. }
  rewrite (getc_heap _ _ j Hh). apply getc_modc.
Qed.
Lemma getc_dealloc g k j :
  getc (fst (do_dealloc g k)) j =
  if Nat.eqb j k
  then option_map (fun c => bump_fr (if cs_is g k Destr then set_cs Freed c else c)) (getc g k)
  else getc g j.
Proof.
  unfold do_dealloc.
  destruct (lfault (cs_is g k Destr) k _) as [g2 fe] eqn:E. cbn [fst].
  assert (heap g2 = heap (modc g k (fun c => bump_fr (if cs_is g k Destr then set_cs Freed c else c)))) as Hh.
  { pose proof (lfault_heap (cs_is g k Destr) k (modc g k (fun c => bump_fr (if cs_is g k Destr then set_cs Freed c else c)))) as H.
    rewrite E in H. exact H. }
  rewrite (getc_heap _ _ j Hh). apply getc_modc.
Qed.

Lemma nheap_of_getc g g' : (forall j, getc g' j = None <-> getc g j = None) -> nheap g' = nheap g.
Proof.
  intros H. unfold nheap.
  destruct (Nat.lt_trichotomy (length (heap g')) (length (heap g))) as [Hlt|[He|Hgt]]; [|exact He|].
  - exfalso. assert (getc g' (length (heap g')) = None) as E by (apply nth_error_None; lia).
    apply H in E. apply nth_error_None in E. lia.
  - exfalso. assert (getc g (length (heap g)) = None) as E by (apply nth_error_None; lia).
    apply H in E. apply nth_error_None in E. lia.
Qed.

Lemma same_but_construct g k b : same_but g (fst (do_construct g k b)) k.
Proof.
  split.
  - apply nheap_of_getc. intros j. rewrite getc_construct. destruct (Nat.eqb_spec j k) as [->|]; [|tauto].
    destruct (getc g k); cbn; split; intros; congruence.
  - intros j Hj. rewrite getc_construct. destruct (Nat.eqb_spec j k); [contradiction|reflexivity].
Qed.
Lemma same_but_destroy g k : same_but g (fst (do_destroy g k)) k.
Proof.
  split.
  - apply nheap_of_getc. intros j. rewrite getc_destroy. destruct (Nat.eqb_spec j k) as [->|]; [|tauto].
    destruct (getc g k); cbn; split; intros; congruence.
  - intros j Hj. rewrite getc_destroy. destruct (Nat.eqb_spec j k); [contradiction|reflexivity].
Qed.
Lemma same_but_dealloc g k : same_but g (fst (do_dealloc g k)) k.
Proof.
  split.
  - apply nheap_of_getc. intros j. rewrite getc_dealloc. destruct (Nat.eqb_spec j k) as [->|]; [|tauto].
    destruct (getc g k); cbn; split; intros; congruence.
  - intros j Hj. rewrite getc_dealloc. destruct (Nat.eqb_spec j k); [contradiction|reflexivity].
Qed.

(* destroy / deallocate never change the contents or the kind of a cell *)
Lemma gnode_destroy g k j : gnode (fst (do_destroy g k)) j = gnode g j.
Proof.
  unfold gnode. rewrite getc_destroy. destruct (Nat.eqb_spec j k) as [->|]; [|reflexivity].
  destruct (getc g k) as [[? ? ? ? ?]|]; cbn; [destruct (cs_is g k Constr)|]; reflexivity.
Qed.
Lemma grec_destroy g k j : grec (fst (do_destroy g k)) j = grec g j.
Proof.
  unfold grec. rewrite getc_destroy. destruct (Nat.eqb_spec j k) as [->|]; [|reflexivity].
  destruct (getc g k) as [[? ? ? ? ?]|]; cbn; [destruct (cs_is g k Constr)|]; reflexivity.
Qed.
Lemma isnode_destroy g k j : isnode (fst (do_destroy g k)) j = isnode g j.
Proof.
  unfold isnode. rewrite getc_destroy. destruct (Nat.eqb_spec j k) as [->|]; [|reflexivity].
  destruct (getc g k) as [[? ? ? ? ?]|]; cbn; [destruct (cs_is g k Constr)|]; reflexivity.
Qed.
Lemma isrec_destroy g k j : isrec (fst (do_destroy g k)) j = isrec g j.
Proof.
  unfold isrec. rewrite getc_destroy. destruct (Nat.eqb_spec j k) as [->|]; [|reflexivity].
  destruct (getc g k) as [[? ? ? ? ?]|]; cbn; [destruct (cs_is g k Constr)|]; reflexivity.
Qed.
Lemma gnode_dealloc g k j : gnode (fst (do_dealloc g k)) j = gnode g j.
Proof.
  unfold gnode. rewrite getc_dealloc. destruct (Nat.eqb_spec j k) as [->|]; [|reflexivity].
  destruct (getc g k) as [[? ? ? ? ?]|]; cbn; [destruct (cs_is g k Destr)|]; reflexivity.
Qed.
Lemma grec_dealloc g k j : grec (fst (do_dealloc g k)) j = grec g j.
Proof.
  unfold grec. rewrite getc_dealloc. destruct (Nat.eqb_spec j k) as [->|]; [|reflexivity].
  destruct (getc g k) as [[? ? ? ? ?]|]; cbn; [destruct (cs_is g k Destr)|]; reflexivity.
Qed.
Lemma isnode_dealloc g k j : isnode (fst (do_dealloc g k)) j = isnode g j.
Proof.
  unfold isnode. rewrite getc_dealloc. destruct (Nat.eqb_spec j k) as [->|]; [|reflexivity].
  destruct (getc g k) as [[? ? ? ? ?]|]; cbn; [destruct (cs_is g k Destr)|]; reflexivity.
Qed.
Lemma isrec_dealloc g k j : isrec (fst (do_dealloc g k)) j = isrec g j.
Proof.
  unfold isrec. rewrite getc_dealloc. destruct (Nat.eqb_spec j k) as [->|]; [|reflexivity].
  destruct (getc g k) as [[? ? ? ? ?]|]; cbn; [destruct (cs_is g k Destr)|]; reflexivity.
Qed.
(* ledger state after destroy / deallocate *)
Lemma cs_of_destroy g k j :
  cs_of (fst (do_destroy g k)) j =
  if Nat.eqb j k then (match cs_of g k with Some Constr => Some Destr | x => x end) else cs_of g j.
Proof.
  unfold cs_of. rewrite getc_destroy. destruct (Nat.eqb_spec j k) as [->|]; [|reflexivity].
  unfold cs_is. destruct (getc g k) as [[[] ? ? ? ?]|]; reflexivity.
Qed.
Lemma cs_of_dealloc g k j :
  cs_of (fst (do_dealloc g k)) j =
  if Nat.eqb j k then (match cs_of g k with Some Destr => Some Freed | x => x end) else cs_of g j.
Proof.
  unfold cs_of. rewrite getc_dealloc. destruct (Nat.eqb_spec j k) as [->|]; [|reflexivity].
  unfold cs_is. destruct (getc g k) as [[[] ? ? ? ?]|]; reflexivity.
Qed.
(* construct: the body is replaced only when the cell was in state Alloc *)
Lemma cs_of_construct g k b j :
  cs_of (fst (do_construct g k b)) j =
  if Nat.eqb j k then (match cs_of g k with Some Alloc => Some Constr | x => x end) else cs_of g j.
Proof.
  unfold cs_of. rewrite getc_construct. destruct (Nat.eqb_spec j k) as [->|]; [|reflexivity].
  unfold cs_is. destruct (getc g k) as [[[] ? ? ? ?]|]; reflexivity.
Qed.
Lemma gnode_construct_rec g k r j : isrec g k = true -> gnode (fst (do_construct g k (BRec r))) j = gnode g j.
Proof.
  intros H. unfold gnode, isrec in *. rewrite getc_construct. destruct (Nat.eqb_spec j k) as [->|]; [|reflexivity].
  destruct (getc g k) as [[? [?|?|] ? ? ?]|]; try discriminate; cbn; destruct (cs_is g k Alloc); reflexivity.
Qed.
Lemma grec_construct_node g k n j : isnode g k = true -> grec (fst (do_construct g k (BNode n))) j = grec g j.
Proof.
  intros H. unfold grec, isnode in *. rewrite getc_construct. destruct (Nat.eqb_spec j k) as [->|]; [|reflexivity].
  destruct (getc g k) as [[? [?|?|] ? ? ?]|]; try discriminate; cbn; destruct (cs_is g k Alloc); reflexivity.
Qed.
Lemma gnode_construct_node g k n j : isnode g k = true ->
  gnode (fst (do_construct g k (BNode n))) j =
  if Nat.eqb j k then (if cs_is g k Alloc then n else gnode g k) else gnode g j.
Proof.
  intros H. unfold gnode, isnode in *. rewrite getc_construct. destruct (Nat.eqb_spec j k) as [->|]; [|reflexivity].
  destruct (getc g k) as [[? [?|?|] ? ? ?]|]; try discriminate; cbn. destruct (cs_is g k Alloc); reflexivity.
Qed.
Lemma grec_construct_rec g k r j : isrec g k = true ->
  grec (fst (do_construct g k (BRec r))) j =
  if Nat.eqb j k then (if cs_is g k Alloc then r else grec g k) else grec g j.
Proof.
  intros H. unfold grec, isrec in *. rewrite getc_construct. destruct (Nat.eqb_spec j k) as [->|]; [|reflexivity].
  destruct (getc g k) as [[? [?|?|] ? ? ?]|]; try discriminate; cbn. destruct (cs_is g k Alloc); reflexivity.
Qed.
Lemma isnode_construct_node g k n j : isnode g k = true -> isnode (fst (do_construct g k (BNode n))) j = isnode g j.
Proof.
  intros H. destruct (Nat.eq_dec j k) as [->|Hne]; [|apply sb_isnode with (k := k); [apply same_but_construct|auto]].
  rewrite H. unfold isnode in *. rewrite getc_construct, Nat.eqb_refl.
  destruct (getc g k) as [[? [?|?|] ? ? ?]|]; try discriminate; cbn. destruct (cs_is g k Alloc); reflexivity.
Qed.
Lemma isrec_construct_node g k n j : isnode g k = true -> isrec (fst (do_construct g k (BNode n))) j = isrec g j.
Proof.
  intros H. destruct (Nat.eq_dec j k) as [->|Hne]; [|apply sb_isrec with (k := k); [apply same_but_construct|auto]].
  rewrite (isnode_isrec _ _ H). unfold isrec, isnode in *. rewrite getc_construct, Nat.eqb_refl.
  destruct (getc g k) as [[? [?|?|] ? ? ?]|]; try discriminate; cbn. destruct (cs_is g k Alloc); reflexivity.
Qed.
Lemma isrec_construct_rec g k r j : isrec g k = true -> isrec (fst (do_construct g k (BRec r))) j = isrec g j.
Proof.
  intros H. destruct (Nat.eq_dec j k) as [->|Hne]; [|apply sb_isrec with (k := k); [apply same_but_construct|auto]].
  rewrite H. unfold isrec in *. rewrite getc_construct, Nat.eqb_refl.
  destruct (getc g k) as [[? [?|?|] ? ? ?]|]; try discriminate; cbn. destruct (cs_is g k Alloc); reflexivity.
Qed.
Lemma isnode_construct_rec g k r j : isrec g k = true -> isnode (fst (do_construct g k (BRec r))) j = isnode g j.
Proof.
  intros H. destruct (Nat.eq_dec j k) as [->|Hne]; [|apply sb_isnode with (k := k); [apply same_but_construct|auto]].
  rewrite (isrec_isnode _ _ H). unfold isrec, isnode in *. rewrite getc_construct, Nat.eqb_refl.
  destruct (getc g k) as [[? [?|?|] ? ? ?]|]; try discriminate; cbn. destruct (cs_is g k Alloc); reflexivity.
Qed.

(* the other fields after a ledger operation: only [fault] may change (to true) *)
Lemma lfault_fields ok k g :
  let g' := fst (lfault ok k g) in
  head g' = head g /\ tail g' = tail g /\ zhead g' = zhead g /\ wmtx g' = wmtx g /\
  misuse g' = misuse g /\ unfixed g' = unfixed g /\ mlog g' = mlog g /\ lo g' = lo g /\ hi g' = hi g /\
  lst g' = lst g /\ zlog g' = zlog g /\ fault g' = (fault g || negb ok).
Proof. destruct ok; cbn; repeat split; auto using orb_false_r, orb_true_r. Qed.
Lemma chk_fields ok k g :
  let g' := fst (chk ok k g) in
  head g' = head g /\ tail g' = tail g /\ zhead g' = zhead g /\ wmtx g' = wmtx g /\
  misuse g' = misuse g /\ unfixed g' = unfixed g /\ mlog g' = mlog g /\ lo g' = lo g /\ hi g' = hi g /\
  lst g' = lst g /\ zlog g' = zlog g /\ fault g' = (fault g || negb ok).
Proof. destruct ok; cbn; repeat split; auto using orb_false_r, orb_true_r. Qed.

Lemma construct_fields g k b :
  let g' := fst (do_construct g k b) in
  head g' = head g /\ tail g' = tail g /\ zhead g' = zhead g /\ wmtx g' = wmtx g /\
  misuse g' = misuse g /\ unfixed g' = unfixed g /\ mlog g' = mlog g /\ lo g' = lo g /\ hi g' = hi g /\
  lst g' = lst g /\ zlog g' = zlog g /\ fault g' = (fault g || negb (cs_is g k Alloc)).
Proof.
  unfold do_construct.
  pose proof (lfault_fields (cs_is g k Alloc) k (modc g k (fun c => bump_ct (if cs_is g k Alloc then Cell Constr b (nct c) (ndt c) (nfr c) else c)))) as H.
  destruct (lfault _ _ _) as [g2 fe]. cbn [fst] in *.
  pose proof (modc_fields g k (fun c => bump_ct (if cs_is g k Alloc then Cell Constr b (nct c) (ndt c) (nfr c) else c))) as M.
  cbn zeta in H. intuition congruence.
Qed.
Lemma destroy_fields g k :
  let g' := fst (do_destroy g k) in
  head g' = head g /\ tail g' = tail g /\ zhead g' = zhead g /\ wmtx g' = wmtx g /\
  misuse g' = misuse g /\ unfixed g' = unfixed g /\ mlog g' = mlog g /\ lo g' = lo g /\ hi g' = hi g /\
  lst g' = lst g /\ zlog g' = zlog g /\ fault g' = (fault g || negb (cs_is g k Constr)).
Proof.
  unfold do_destroy.
  pose proof (lfault_fields (cs_is g k Constr) k (modc g k (fun c => bump_dt (if cs_is g k Constr then set_cs Destr c else c)))) as H.
  destruct (lfault _ _ _) as [g2 fe]. cbn [fst] in *.
  pose proof (modc_fields g k (fun c => bump_dt (if cs_is g k Constr then set_cs Destr c else c))) as M.
  cbn zeta in H. intuition congruence.
Qed.
Lemma dealloc_fields g k :
  let g' := fst (do_dealloc g k) in
  head g' = head g /\ tail g' = tail g /\ zhead g' = zhead g /\ wmtx g' = wmtx g /\
  misuse g' = misuse g /\ unfixed g' = unfixed g /\ mlog g' = mlog g /\ lo g' = lo g /\ hi g' = hi g /\
  lst g' = lst g /\ zlog g' = zlog g /\ fault g' = (fault g || negb (cs_is g k Destr)).
Proof.
  unfold do_dealloc.
  pose proof (lfault_fields (cs_is g k Destr) k (modc g k (fun c => bump_fr (if cs_is g k Destr then set_cs Freed c else c)))) as H.
  destruct (lfault _ _ _) as [g2 fe]. cbn [fst] in *.
  pose proof (modc_fields g k (fun c => bump_fr (if cs_is g k Destr then set_cs Freed c else c))) as M.
  cbn zeta in H. intuition congruence.
Qed.

(* ---------- do_dealloc_raw: deallocate of never-constructed storage ---------- *)
Definition rawok (g : glob) (k : nat) : bool :=
  cs_is g k Alloc && match getc g k with Some c => israwc c | None => false end.
Definition rawf (g : glob) (k : nat) (c : cell) : cell :=
  if israwc c then bump_fr (if rawok g k then set_cs Freed c else c) else c.
Lemma getc_dealloc_raw g k j :
  getc (fst (do_dealloc_raw g k)) j = if Nat.eqb j k then option_map (rawf g k) (getc g k) else getc g j.
Proof.
  unfold do_dealloc_raw. fold (rawok g k).
  destruct (lfault (rawok g k) k _) as [g2 fe] eqn:E. cbn [fst].
  assert (heap g2 = heap (modc g k (rawf g k))) as Hh.
  { pose proof (lfault_heap (rawok g k) k (modc g k (rawf g k))) as H. unfold rawf in H at 1. rewrite E in H. exact H. }
  rewrite (getc_heap _ _ j Hh). apply getc_modc.
Qed.
Lemma same_but_dealloc_raw g k : same_but g (fst (do_dealloc_raw g k)) k.
Proof.
  split.
  - apply nheap_of_getc. intros j. rewrite getc_dealloc_raw. destruct (Nat.eqb_spec j k) as [->|]; [|tauto].
    destruct (getc g k); cbn; split; intros; congruence.
  - intros j Hj. rewrite getc_dealloc_raw. destruct (Nat.eqb_spec j k); [contradiction|reflexivity].
Qed.
Lemma rawf_body g k c : cb (rawf g k c) = cb c.
Proof. unfold rawf. destruct (israwc c); [destruct (rawok g k)|]; reflexivity. Qed.
Lemma rawf_notraw g k c : israwc c = false -> rawf g k c = c.
Proof. unfold rawf. intros ->. reflexivity. Qed.
Lemma gnode_dealloc_raw g k j : gnode (fst (do_dealloc_raw g k)) j = gnode g j.
Proof.
  unfold gnode. rewrite getc_dealloc_raw. destruct (Nat.eqb_spec j k) as [->|]; [|reflexivity].
  destruct (getc g k) as [c|]; [|reflexivity]. cbn [option_map]. pose proof (rawf_body g k c) as B.
  destruct (rawf g k c) as [s1 b1 ? ? ?], c as [s0 b0 ? ? ?]. cbn in B. subst b1. destruct b0; reflexivity.
Qed.
Lemma grec_dealloc_raw g k j : grec (fst (do_dealloc_raw g k)) j = grec g j.
Proof.
  unfold grec. rewrite getc_dealloc_raw. destruct (Nat.eqb_spec j k) as [->|]; [|reflexivity].
  destruct (getc g k) as [c|]; [|reflexivity]. cbn [option_map]. pose proof (rawf_body g k c) as B.
  destruct (rawf g k c) as [s1 b1 ? ? ?], c as [s0 b0 ? ? ?]. cbn in B. subst b1. destruct b0; reflexivity.
Qed.
Lemma isnode_dealloc_raw g k j : isnode (fst (do_dealloc_raw g k)) j = isnode g j.
Proof.
  unfold isnode. rewrite getc_dealloc_raw. destruct (Nat.eqb_spec j k) as [->|]; [|reflexivity].
  destruct (getc g k) as [[s0 [n0|r0|] ? ? ?]|]; cbn [option_map]; try reflexivity.
  all: unfold rawf; cbn; destruct (rawok g k); reflexivity.
Qed.
Lemma isrec_dealloc_raw g k j : isrec (fst (do_dealloc_raw g k)) j = isrec g j.
Proof.
  unfold isrec. rewrite getc_dealloc_raw. destruct (Nat.eqb_spec j k) as [->|]; [|reflexivity].
  destruct (getc g k) as [[s0 [n0|r0|] ? ? ?]|]; cbn [option_map]; try reflexivity.
  all: unfold rawf; cbn; destruct (rawok g k); reflexivity.
Qed.
(* node and record cells keep their ledger state *)
Lemma cs_of_dealloc_raw g k j : isnode g j = true \/ isrec g j = true ->
  cs_of (fst (do_dealloc_raw g k)) j = cs_of g j.
Proof.
  intros H. unfold cs_of. rewrite getc_dealloc_raw. destruct (Nat.eqb_spec j k) as [->|]; [|reflexivity].
  unfold isnode, isrec in H. destruct (getc g k) as [[s0 [n0|r0|] ? ? ?]|]; cbn [option_map]; try reflexivity.
  all: destruct H; discriminate.
Qed.
Lemma dealloc_raw_fields g k :
  let g' := fst (do_dealloc_raw g k) in
  head g' = head g /\ tail g' = tail g /\ zhead g' = zhead g /\ wmtx g' = wmtx g /\
  misuse g' = misuse g /\ unfixed g' = unfixed g /\ mlog g' = mlog g /\ lo g' = lo g /\ hi g' = hi g /\
  lst g' = lst g /\ zlog g' = zlog g /\ fault g' = (fault g || negb (rawok g k)).
Proof.
  unfold do_dealloc_raw. fold (rawok g k).
  pose proof (lfault_fields (rawok g k) k (modc g k (rawf g k))) as H. unfold rawf in H at 1.
  destruct (lfault _ _ _) as [g2 fe]. cbn [fst] in *.
  pose proof (modc_fields g k (rawf g k)) as M.
  cbn zeta in H. intuition congruence.
Qed.

(* ---------- list helpers ---------- *)
Lemma remove_nat_In k l x : In x (remove_nat k l) <-> In x l /\ x <> k.
Proof.
  unfold remove_nat. rewrite filter_In. split; intros [H1 H2]; split; auto.
  - intros ->. rewrite Nat.eqb_refl in H2. discriminate.
  - apply negb_true_iff. apply Nat.eqb_neq. auto.
Qed.
Lemma remove_nat_notin k l : ~ In k l -> remove_nat k l = l.
Proof.
  induction l as [|a r IH]; cbn; intros H; [reflexivity|].
  destruct (Nat.eqb_spec k a) as [->|Hne]; [exfalso; apply H; auto|]. cbn. f_equal. apply IH. tauto.
Qed.
Lemma remove_nat_app k a b : remove_nat k (a ++ b) = remove_nat k a ++ remove_nat k b.
Proof. unfold remove_nat. apply filter_app. Qed.
Lemma remove_nat_mid k a b : ~ In k a -> ~ In k b -> remove_nat k (a ++ k :: b) = a ++ b.
Proof.
  intros Ha Hb. rewrite remove_nat_app. rewrite (remove_nat_notin k a Ha).
  f_equal. change (remove_nat k (k :: b)) with (if negb (Nat.eqb k k) then k :: remove_nat k b else remove_nat k b).
  rewrite Nat.eqb_refl. cbn. apply remove_nat_notin. exact Hb.
Qed.

(* ---------- destructing one step ---------- *)
Ltac step_cases Hs :=
  unfold tstep in Hs; cbn [at_ prog hnd its] in Hs;
  repeat match type of Hs with
         | context [match ?x with _ => _ end] => destruct x eqn:?; cbn [at_ prog hnd its] in Hs
         | context [if ?x then _ else _] => destruct x eqn:?; cbn [at_ prog hnd its] in Hs
         end;
  try discriminate; inversion Hs; subst; clear Hs.

(* the variant used by the invariant proofs: access checks are split first, and the pairs returned
   by the allocator helpers are turned back into fst / snd of the call *)
Ltac step_cases2 Hs :=
  unfold tstep in Hs; cbn [at_ prog hnd its] in Hs;
  repeat match type of Hs with
         | context [chk ?b _ _] => destruct b eqn:?; cbn [chk] in Hs
         | context [match ?x with _ => _ end] => destruct x eqn:?; cbn [at_ prog hnd its] in Hs
         | context [if ?x then _ else _] => destruct x eqn:?; cbn [at_ prog hnd its] in Hs
         end;
  try discriminate; inversion Hs; subst; clear Hs.
Ltac fold_fst :=
  repeat match goal with
         | H : ?f = (?g1, ?es) |- _ => is_var g1; is_var es;
           let E1 := fresh in let E2 := fresh in
           assert (g1 = fst f) as E1 by (rewrite H; reflexivity);
           assert (es = snd f) as E2 by (rewrite H; reflexivity); clear H; subst g1; subst es
         end.
